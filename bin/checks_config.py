"""Per-property configuration of bin/check: Lean theorem module, harness suites
(with their quick / thorough arguments) and notes for the evidence file."""

ENGINE = {"name": "engine", "suite": "engine", "quick": ["--count", 5000], "thorough": ["--count", 40000]}
PRUNE = {"name": "prune", "suite": "prune", "quick": ["--count", 25000], "thorough": ["--count", 300000]}
PRUNE_EXH = {"name": "prune-exh", "suite": "prune-exh", "quick": ["--universe", 1], "thorough": ["--universe", 2]}
VIEWS = {"name": "views", "suite": "views", "quick": ["--count", 25000, "--depth", 2], "thorough": ["--count", 300000, "--depth", 2]}
VIEWS0 = {"name": "views0", "suite": "views", "quick": ["--count", 15000, "--depth", 0], "thorough": ["--count", 200000, "--depth", 0]}
VIEWS_EXH = {"name": "views-exh", "suite": "views-exh", "quick": ["--universe", 1, "--bound", 5], "thorough": ["--universe", 3, "--bound", 10]}
API = {"name": "api", "suite": "api", "quick": ["--count", 3000], "thorough": ["--count", 100000]}
FLOAT = {"name": "float", "suite": "float", "quick": ["--count", 3000], "thorough": ["--count", 60000]}
FLOAT_EXH = {"name": "float-exh", "suite": "float", "quick": ["--mode", "exh", "--universe", 4], "thorough": ["--mode", "exh", "--universe", 6]}
FLOAT_ENGINE = {"name": "float-engine", "suite": "float", "quick": ["--mode", "engine", "--count", 3000], "thorough": ["--mode", "engine", "--count", 60000]}
FLOAT_ENGINE_EXH = {"name": "float-engine-exh", "suite": "float", "quick": ["--mode", "eng-exh", "--universe", 6], "thorough": ["--mode", "eng-exh", "--universe", 10]}
FLOAT_ASSUME = [
    "float theorems are stated over exact rationals (Num instance Rat) for the same definitions that the driver runs over Float: IEEE-754 rounding, NaN and infinities are outside the theorems; the correspondence compares bit patterns of every f64 result",
]
INT_ASSUME = [
    "i32 arithmetic modelled on unbounded Int (overflow is C17's subject); values in the explored inputs are small",
    "the engine theorems speak about runs that did not exhaust the model's fuel; the driver runs with fuel 10^7 and reports out-of-fuel explicitly (never seen)",
    "propagator kinds covered by the contract theorem: leq, eq, add, sum, linEq/linLe/linNe (+reified), reified comparisons, boolean and/or/not/xor, abs, min, max; other kinds are exercised by the API-level oracle only",
]

CHECKS = {
    "C01": {"suites": [ENGINE, API], "assumptions": INT_ASSUME},
    "C02": {"suites": [ENGINE, API, {"name": "validate", "suite": "validate", "quick": ["--count", 3000], "thorough": ["--count", 60000]},
                       {"name": "validate-exh", "suite": "validate", "quick": ["--exh"], "thorough": ["--exh"]}], "assumptions": INT_ASSUME},
    "C03": {"suites": [ENGINE, API], "assumptions": INT_ASSUME},
    "C04": {"suites": [ENGINE, API], "assumptions": INT_ASSUME + ["optimisation fast path and root LP step are switched off by hook H4 in the engine-level runs (call-site findings)"]},
    "C05": {"suites": [PRUNE, PRUNE_EXH, ENGINE], "assumptions": INT_ASSUME, "exhaustive_in_thorough": True},
    "C12": {"suites": [VIEWS0, PRUNE, FLOAT, FLOAT_EXH], "lean_modules": ["SelenModel.Props.C12", "SelenModel.Props.C12Float"],
            "assumptions": INT_ASSUME + FLOAT_ASSUME},
    "C06": {"suites": [FLOAT, FLOAT_ENGINE, FLOAT_ENGINE_EXH, API], "assumptions": FLOAT_ASSUME + ["the theorems are about the float/int linear propagators and the float arms of try_set_min/max (Model/FloatCore.lean); the API-level stream (#flapi lines, witness-constructed models through Model) is an oracle on the implementation only"]},
    "C07": {"suites": [FLOAT, FLOAT_ENGINE, FLOAT_ENGINE_EXH, API], "assumptions": FLOAT_ASSUME + ["witness-constructed models: every inequality holds at the witness with margin >= max|c_i|*step_i, equalities hold exactly at grid points (the hypothesis of C07_floatlin_sound_margin)", "API-level stream: models with float terms built through Model (int2float, float min/max/element, products with integers) whose solutions sit at exactly representable points; a NoSolution verdict on a satisfiable one is reported under C07 (oracle on the implementation only)"]},
    "C16": {"suites": [{"name": "determ", "suite": "determ", "quick": ["--count", 1500], "thorough": ["--count", 20000]}],
            "cross_process": {"quick": [1500, 3], "thorough": [6000, 8]},
            "assumptions": ["determinism across processes is OBSERVED (byte-identical transcripts of separate OS processes with different SipHash keys), not proved; the theorems show that every hash-ordered collection on the solving path is consumed by an order-blind operation (sort after collect, commuting removals, keyed access) and that the model's search is a function of its inputs",
                            "runs are cut by a deterministic work budget (hook H6) so that no wall-clock limit interferes; lines where the wall-clock watchdog fired are skipped"]},
    "C18": {"suites": [{"name": "sudoku", "suite": "sudoku", "quick": ["--count", 300], "thorough": ["--count", 4000]},
                       {"name": "sudoku-exh", "suite": "sudoku", "thorough": ["--exh"]}],
            "assumptions": ["the general solver is not re-modelled here: its answer is an input of the Sudoku model (GenAnswer) and C18_end_to_end is parametric in a general solver satisfying the C01-C03 statements",
                            "each solve is capped at 3000 engine iterations through hook H6 (deterministic budget); `limit-as-none` is the recorded finding for the real 60 s limit"]},
    "C13": {"suites": [VIEWS, VIEWS_EXH, FLOAT], "assumptions": INT_ASSUME + ["float views: exact affine-form oracle on the implementation and bit-exact correspondence with the float model; the theorems cover integer views"], "exhaustive_in_thorough": True},
    "C17": {"suites": [{"name": "malformed", "suite": "malformed", "quick": ["--count", 1200], "thorough": ["--count", 12000]}, API],
            "assumptions": ["absence of panics over all call sequences is not provable from a model of the whole API surface: the theorems cover the index/arithmetic sites of SparseSet (any history), views, the integer linear propagators and the validation decision table; the remaining API surface is covered by the panic-capturing oracle (in-process catch_unwind plus isolated child processes for hangs and aborts)",
                            "in-range = |value| <= 10^6 for generated arguments; larger magnitudes are the `extreme` stream (recorded finding i32-overflow)"]},
    "C14": {"suites": [ENGINE, API], "assumptions": INT_ASSUME},
    "C15": {"suites": [{"name": "limits", "suite": "limits", "quick": ["--count", 120], "thorough": ["--count", 3000]},
                       {"name": "limits-deep", "suite": "limits-deep", "quick": ["--count", 4], "thorough": ["--count", 40]}],
            "assumptions": INT_ASSUME + ["wall-clock time is an abstract monotone oracle: hook H6 makes the k-th engine check find the limit exceeded; the memory estimate is the modelled function of stack depth and iteration count"]},
    "C09": {"suites": [{"name": "lp", "suite": "lp", "quick": ["--count", 3000], "thorough": ["--count", 60000]},
                       {"name": "lp-exh", "suite": "lp", "quick": ["--mode", "exh", "--universe", 1], "thorough": ["--mode", "exh", "--universe", 2]}],
            "assumptions": ["the pivoting rules (entering / leaving choice with the code's tie-breaking, Phase I incl. its fallback, Phase II, iteration caps) are modelled at exact rationals (Model/Simplex.lean) and the sequence of bases visited is compared with the code (hook H10) on every run in which no decision input was rounded (about 55 % of the random runs, all exhaustive ones; the others are counted as trace:inexact); the floating-point LU factorisation is not modelled: the terminal state of EVERY run is validated by recomputing the certificate exactly from the returned basis",
                            "IEEE-754 rounding is outside the theorems; f64 data enter the model as exact rationals of their bit patterns"]},
    "C08": {"suites": [{"name": "opt", "suite": "opt", "quick": ["--count", 1500], "thorough": ["--count", 40000]},
                       {"name": "opt-exh", "suite": "opt", "quick": ["--mode", "exh", "--universe", 1], "thorough": ["--mode", "exh", "--universe", 2]}],
            "assumptions": FLOAT_ASSUME + ["two inputs of the C08 model are not re-derived but supplied by the harness from the run: the bounds found by ConstraintAwareOptimizer's propagation (PB tokens of op.route / op.entry) and the LP solver's returned status/point (hook H9) for op.lpapply; the construction of the root LP itself (columns, rows, rhs, bounds, objective) is compared bit for bit",
                                           "the search that follows a declined fast path is C04's subject; the LP solver's own correctness is C09's"]},
    "C10": {"suites": [{"name": "lower", "suite": "lower", "quick": ["--count", 2500], "thorough": ["--count", 60000]},
                       {"name": "lower-float", "suite": "lower", "quick": ["--count", 2500, "--float"], "thorough": ["--count", 60000, "--float"]}, API],
            "assumptions": INT_ASSUME + ["lowering model covers integer expression trees over + - * / mod, the six comparisons and and/or/not combinators (Model/Lower.lean); float operands are exercised by the API-level oracle only",
                                         "models whose lowered propagators include kinds outside PK are compared up to the lowering (propagator list), their enumeration is left to the API-level oracle"]},
    "C19": {"suites": [{"name": "gac", "suite": "gac", "quick": ["--count", 2000], "thorough": ["--count", 30000]},
                       {"name": "gac-exh", "suite": "gac", "quick": ["--exh", "--universe", 4, "--vars", 3], "thorough": ["--exh", "--universe", 5, "--vars", 4]}],
            "exhaustive_in_thorough": True,
            "assumptions": ["the sparse engine iterates a std HashMap whose order is unobservable from outside: the harness passes the observed outcome and the model checks that SOME order of the key set produces exactly it (graph-level orders are observed and passed explicitly)",
                            "u64/u128 masks modelled as lists of values; shifts outside the mask width are the recorded panic findings"]},
    "C11": {
        "suites": [
            {"name": "ss", "suite": "ss", "quick": ["--count", 600], "thorough": ["--count", 40000]},
            {"name": "ss-exh", "suite": "ss-exh", "quick": ["--depth", 3, "--width", 3],
             "thorough": ["--depth", 4, "--width", 3]},
        ],
        "exhaustive_in_thorough": False,
        "assumptions": [
            "u32/i32 arithmetic of SparseSet modelled on Nat/Int (no wrap-around); overflow sites are C17's subject",
            "union_with operands are generated inside the universe (documented precondition: compatible universes)",
        ],
    },
}

"""Per-property configuration of bin/check: Lean theorem module, harness suites
(with their quick / thorough arguments) and notes for the evidence file."""

CHECKS = {
    "C11": {
        "suites": [
            {"name": "ss", "suite": "ss", "quick": ["--count", 600], "thorough": ["--count", 40000]},
            {"name": "ss-exh", "suite": "ss-exh", "quick": ["--depth", 3, "--width", 3],
             "thorough": ["--depth", 4, "--width", 3]},
        ],
        "exhaustive_in_thorough": False,
        "assumptions": [
            "u32/i32 arithmetic of SparseSet modelled on Nat/Int (no wrap-around); overflow sites are C17's subject",
            "union_with operands are generated inside the universe (documented precondition: compatible universes)",
        ],
    },
}

#!/bin/bash
# confirm_seed.sh <out_dir (contains patch.diff, demo.rs)> <name>
# Confirms in a scratch worktree: patch applies, full suite passes with it, demo fails with it,
# demo passes without it.  Prints a one-line JSON verdict.
set -u
D=$1; NAME=$2
WT=${SEED_WT:-/tmp/seedconfirm/repo}
mkdir -p $(dirname $WT)
if [ ! -d $WT ]; then git -C /repo worktree add --detach $WT HEAD >/dev/null 2>&1; fi
cd $WT && git checkout -q -- . && git clean -fdq tests src
export CARGO_NET_OFFLINE=true
cp $D/demo.rs tests/demo_$NAME.rs
# demo on clean tree
cargo test --offline --test demo_$NAME > $D/confirm_clean.log 2>&1; CLEAN=$?
# apply
git apply $D/patch.diff || { echo "{\"name\":\"$NAME\",\"error\":\"patch does not apply\"}"; exit 1; }
cargo test --offline --test demo_$NAME > $D/confirm_mut.log 2>&1; MUT=$?
rm tests/demo_$NAME.rs
cargo test --workspace --no-fail-fast --offline > $D/confirm_suite.log 2>&1; SUITE=$?
PASSED=$(grep -E "^test result" $D/confirm_suite.log | awk '{s+=$4} END {print s}')
FAILED=$(grep -E "^test result" $D/confirm_suite.log | awk '{s+=$6} END {print s}')
git checkout -q -- . && git clean -fdq tests src
echo "{\"name\":\"$NAME\",\"demo_clean_rc\":$CLEAN,\"demo_mut_rc\":$MUT,\"suite_rc\":$SUITE,\"suite_passed\":$PASSED,\"suite_failed\":$FAILED}"

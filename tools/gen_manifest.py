#!/usr/bin/env python3
"""Regenerates /verif/MANIFEST.json from the per-property table below."""
import json, os, subprocess
VERIF = os.path.dirname(os.path.dirname(os.path.abspath(__file__)))

COMMON_NOTE = ("Trusted: Lean 4.33 kernel and the axioms propext / Classical.choice / Quot.sound where #print axioms shows them "
               "(no native_decide, no own axioms, no sorry); the hand-written Lean model is tied to the Rust code only by the "
               "correspondence harness (exact line-by-line comparison of model and implementation on generated inputs) and its "
               "generators/oracles; i32 arithmetic is modelled on unbounded Int. ")

P = {
 "C01": ("Theorem C01_solutions_satisfy: for every well-formed model (any size), every pop policy and every fuel, each assignment yielded by the modelled engine (enumerate and branch-and-bound modes) lies in the declared domains and satisfies the meaning of every posted propagator — derived from per-kind contract lemmas through the propagation-fixpoint invariant. Kernel-checked counterexample for the recorded finding (all-zero linear rows); C01_neq_checked for the repaired NotEquals propagator. Without any fuel proviso through IModel.search_terminates. Tie: exact comparison of yielded solution sequences, fixpoints and single prunes between model and code, plus brute-force oracle on every yielded assignment.",
         "Lean 4 proof (contract lemmas + stable-agenda invariant + induction over the search tree) with differential correspondence",
         "Covers the propagator kinds in PK (see evidence assumptions); the lowering from the fluent API to propagators is C10's subject; root-LP step and optimisation fast path are outside the model (call-site findings)."),
 "C02": ("Theorems C02_solve_complete / C02_no_solution_sound / C02_solve_sound: a satisfiable well-formed model is never reported unsatisfiable, a no-solution verdict implies unsatisfiability, for any schedule; from per-kind soundness (no supported value removed) by induction over the search tree. Tie as C01; oracle = brute-force satisfiability.",
         "Lean 4 proof (propagator soundness + completeness of binary splitting by induction) with differential correspondence",
         "Validation table (ModelValidator) and eager pre-search domain edits are exercised by the API-level oracle, not proved in this revision."),
 "C03": ("Theorem C03_enumerate_exact: the yielded list is duplicate-free and contains exactly the projections of the satisfying assignments, for every model size, schedule and fuel that sufficed. Tie: the full *sequence* of yielded assignments is compared between model and code.",
         "Lean 4 proof (soundness + completeness + disjointness of left/right branches by induction over the search tree) with differential correspondence",
         "As C01."),
 "C04": ("Theorems C04_bnb_optimal / C04_maximize: yielded objective values strictly decrease, every yielded assignment is a solution, nothing yielded iff unsatisfiable, the last yielded assignment is optimal; maximize is minimize of the opposite view. Tie: sequences of minimize/maximize runs compared between model and code for random objective views.",
         "Lean 4 proof (branch-and-bound invariant `Decr` by induction over the search tree) with differential correspondence",
         "Search path only: the optimisation fast path and the root LP step are switched off in the engine-level runs and handled as call-site findings."),
 "C05": ("Theorems C05_contract (per-kind: keeps every supported value, only shrinks, records events, checks fixed tuples, reads only its triggers), C05_fixpoint_keeps_solutions, C05_fixpoint_shrinks, C05_fixed_checked for any schedule/agenda; C05_contract_inv (all 31 modelled kinds, no store precondition beyond boolean domains for the boolean variables), C05_propagation_terminates, C05_fixpoint_all_kinds; counterexamples for the open findings (all-zero linear rows, modulo family). Tie: every kind's prune compared exactly (result, all domains, events, triggers) on random and exhaustive domain tuples, incl. prune/tighten/prune sequences.",
         "Lean 4 proof (per-kind contract lemmas, fixpoint theorems) with differential correspondence",
         "Kinds not yet in PK (alldiff, element, table, count, cardinality, between, if-then-else, div, modulo, mul, allequal, float linear) are not covered by theorems in this revision."),
 "C12": ("Integer arms: C12_trySetMin_int_exact / C12_trySetMax_int_exact: exact filter semantics, failure iff empty remainder, event iff change, frame. Float arms (Props/C12Float.lean, exact rationals): never widens, outward-safe (a value one step inside the bound is kept), no inverted interval, event iff change, failure only across a gap; float bound on an integer variable exact; FloatInterval primitives (round/floor/ceil to step, next/prev, mid, remove_below/above) stay inside and are monotone; counterexample + partial theorem for the integer-bound-on-float-variable arm (recorded finding). Tie: ctx.min/ctx.max ops through hook H1 and every FloatInterval method compared bit-for-bit, exhaustive over a small grid universe; set-filter oracle.",
         "Lean 4 proof (case analysis on the modelled try_set_min/max) with differential correspondence",
         "Integer arms only in this revision; float arms and FloatInterval primitives are validated by correspondence later."),
 "C13": ("Theorems C13_view_min_max, C13_view_trySetMin_exact / Max_exact (structural induction: any nesting depth), C13_times_wf. Tie: view ops of depth ≤ 2 compared exactly; exhaustive over small universes; image-filter oracle.",
         "Lean 4 proof (structural induction over views) with differential correspondence",
         "Integer views; float views not covered in this revision."),
 "C14": ("Theorems C14_schedule_independent, C14_same_meaning_same_solutions (+ C14_perm_meaning), C14_optimum_schedule_independent: for any two pop policies / any two posting orders / implied constraints the yielded lists are permutations of each other and optima agree — unbounded model size. Tie: hook H3 perturbs Agenda::pop with a seeded policy that the model reproduces; sequences compared.",
         "Lean 4 proof (corollaries of enumeration exactness for arbitrary policies) with differential correspondence",
         "Declaration-order renaming and eager posting-time steps are exercised by the API-level oracle only."),
 "C15": ("Theorems C15_prefix / C15_delivered_are_solutions (any limit oracle: delivered assignments are a prefix of the unlimited enumeration, hence genuine solutions), C15_solve_result / C15_minimize_result (Ok only for the unlimited answer, NoSolution only if nothing is yielded, otherwise Timeout/MemoryLimit — for arbitrary in-loop and post-loop test outcomes), C15_never_no_solution_when_satisfiable, C15_online_engine_is_fold. Tie: hook H6 forces the limit at the k-th engine check; every k is swept for small models through the real Model::solve/minimize/maximize/enumerate and compared with the model (event trace incl. stack pushes/pops, check counting, memory-estimate formula); deep models trip the real 1-2 MB memory estimate.",
         "Lean 4 proof (limited engine as a fold over the unlimited event trace; equivalence with the online engine by induction) with differential correspondence",
         "Wall-clock time is an abstract oracle; panics are observed by the harness (catch_unwind), not proved absent."),
 "C09": ("Certificate theory at exact rationals for all dimensions: C09_weak_duality, C09_legal_optimal_is_optimal (+ tolerance version), C09_standard_form_equiv (lower-bound shift and upper-bound slack rows), C09_optimal, C09_phase1_infeasible, C09_infeasible_vacuous (no return site carries LpStatus::Infeasible), dual/warm-start form: partial theorem + counterexamples. Pivoting (Model/Simplex.lean): C09_pivot_keeps_feasible, C09_pivot_monotone, C09_stop_is_optimal (+ tolerance version), C09_unbounded_sound (exhibits the ray), C09_phase1_sound, C09_phase2_sound, C09_run_sound_slack; counterexamples C09_pivot_tolerance_counterexample (absolute pivot tolerance: finding lp-pivot-abs), C09_phase1_residue_counterexample. Tie: for every LP the harness prints data (bit patterns), status, x, objective and the returned basis; the Lean driver recomputes x_B and y from the basis by exact elimination and evaluates the verified checker; the sequence of bases visited by Phase I / Phase II (hook H10) is compared with the modelled pivoting rules on every run whose decision inputs were computed without rounding; an independent exact vertex-enumeration oracle decides feasibility/optimality of the implementation's answer.",
         "Lean 4 proof (LP duality / certificate checking over Rat) with per-run certificate validation and exact-arithmetic oracle",
         "The pivoting rules and LU factorisation are not modelled; legality of each terminal state is validated per run, not proved for all runs."),
 "C06": ("Theorems over exact rationals for the float/int linear propagators and float bound setters (Model/FloatCore.lean, generic in the number type so that the very same definitions run on f64 in the driver): C06_int_vars_exact (+ _view): integer variables in mixed rows keep exact integer domains; C06_float_kind_step_kept; C06_float_checking_tol: at a fixpoint without events every row holds up to |c_i|*max(3 step, 1e-5|bound|) + sum |c_j| width_j; kernel-checked counterexamples for the recorded findings (row over integer variables only is unchecked, the tolerance is necessary). Search level (Model/FloatEngine.lean: propagation loop over the float propagators, the float branching rule x <= mid / x >= mid, first-leaf search): fpropagate_fixpoint, C06_solve_within_tolerance (every returned assignment lies in the declared bounds, final widths below 1.5 step, integer variables integral, every FloatLinLe row within the tolerance). Tie: every float primitive, ctx.try_set_min/max float arms, FloatLin prune and whole fl.solve runs (verdict, propagation count, node count, value bit patterns) compared bit-for-bit; API-level witness stream (oracle on returned solutions: bounds, integrality, row residuals, var-var comparisons not ignored).",
         "Lean 4 proof over exact rationals (same generic definitions run on f64) with bit-exact differential correspondence",
         "IEEE rounding is outside the theorems (trusted: correspondence on bit patterns); float views and non-linear float constraints are covered by the oracle stream only; the var-var comparison clause is false of the code (known finding float-varvar-cmp-ignored)."),
 "C07": ("Theorems: C07_trysetmin/max_keeps_margin, _keeps_grid, C07_floatlin_le_sound_margin (a witness with margin >= max|c_i| step_i survives every FloatLinLe prune), C07_floatlin_eq_sound_exact (exact equality at grid points, integer variables included), C07_floatlin_sound_margin and C07_propagation_never_fails (any sequence of rows never fails while the witness exists); counterexample: zero margin is not enough. Search level: C07_solve_not_infeasible (a witness on the step grid that every propagator keeps is never lost by the bisection: the engine does not answer NoSolution), C07_branching_gap_counterexample (off the grid the point mid is lost by both branches), C07_bisection_terminates_partial (grid stores: depth 2*size+1 suffices) with C07_solve_diverges_counterexample (in general the bisection does not terminate: finding float-split-half-step-no-progress). Tie: as C06, plus the API-level stream builds models AROUND a witness and requires solve() != NoSolution.",
         "Lean 4 proof over exact rationals (witness-preservation invariant through any propagation sequence) with bit-exact differential correspondence",
         "FloatLinNe and the reified float helpers are not covered by the theorems; IEEE rounding trusted via correspondence."),
 "C08": ("Theorems at exact rationals (Model/Opt.lean: the router's decision logic, bound extraction, create_unconstrained_solution, the construction of the root LP from the posted linear rows, apply_lp_solution): C08_fast_path_sound_partial (under the decidable guard fastGuard the fast-path answer is feasible and optimal; the full statement is false: counterexamples per defect class, each replayed on the code), C08_root_lp_is_relaxation (+ C08_root_lp_objective_bound via C09's weak duality), C08_lp_bound_transfer_sound (transferring only the objective bound of a legal optimal certificate loses no solution) with C08_lp_vertex_transfer_counterexample (what the code does: every variable fixed to the vertex), C08_error_only_if_infeasible_partial. Tie: router decision, entry path, fast-path point, registered metadata and the root LP problem (hook H9: columns, A, b, bounds, c as bit patterns) compared exactly, plus the store after apply_lp_solution; oracle: exact vertex enumeration + enumeration of small integer domains on models built through Model.",
         "Lean 4 proof (decision-logic model + LP relaxation / duality) with exact differential correspondence of the router and the root LP construction",
         "Propagation bounds of ConstraintAwareOptimizer and the LP solver's returned point are inputs of the model (supplied from the run); the search after a declined fast path is C04; LP solving is C09."),
 "C16": ("Theorems: C16_model_deterministic / C16_results_deterministic (the modelled search is a function of the model), permutation-invariance of every hash-ordered collection consumed on the solving path (registry queries sorted after collection, all-different validation under an adversary that reshuffles at every step, distinct counts, Hall removals commute, keyed access), C16_no_clock_in_result/_optimum/_enumeration (the clock only feeds limit tests); counterexamples for two public helpers that ARE order dependent (SparseSetGAC, create_precision_propagators). Tie: each generated call is run twice in fresh threads and in several separate OS processes (different SipHash keys); transcripts must be byte-identical.",
         "Lean 4 proof (permutation invariance of order-blind consumers) plus observed byte-identical transcripts across threads and OS processes",
         "Cross-process equality is observed on generated models, not proved; the site audit (every HashMap/HashSet iteration in src/) is by hand and listed in Lemmas/Determ.lean."),
 "C17": ("Theorems about an explicit safety model (Model/Safety.lean: every index, slice bound, emptiness assertion, unsigned underflow and i32 arithmetic site of the modelled functions is a checked `site`): C17_ss_indices_in_bounds / C17_ss_arith_safe / C17_ss_history_safe (SparseSet: every step after any valid history is panic-free, for all universes below 2^30), C17_views_safe / C17_views_set_safe, C17_lin_safe (IntLinEq/Le/Ne neither panic nor saturate under an explicit magnitude bound), C17_validation_table (+ _partial, guard isFinding; full statement false: eleven kernel-checked counterexamples = the recorded findings). Tie: direct calls with extreme values compared with the model's site predicates (panic iff a site fails); oracle: generated API call sequences (boundary arguments, documented invalid inputs) under catch_unwind, hangs and aborts observed in isolated child processes.",
         "Lean 4 proof (site-safety invariants over histories) with differential correspondence, plus panic-capturing oracle over generated API call sequences",
         "Proof covers SparseSet, views, integer linear propagators and the validation table; for the rest of the API surface the evidence is the oracle run (stated in the evidence assumptions)."),
 "C18": ("Theorems for all 9x9 grids: naked_single_sound, hidden_single_sound (row/col/box, via the pigeonhole lemma unit_contains_every_digit), posted_sound (every posted cell==digit holds in every valid completion), naked_pairs_no_effect, events_closed_form, verify_solution_iff_valid, C18_sound_complete_partial (guard: clues in 0..9): the valid completions are exactly the solutions of domains + 27 all-different + posted singles, C18_posted_redundant, C18_end_to_end (sound, complete and agreeing with the general solver, parametric in a general solver satisfying C01-C03); counterexamples for the two findings. Tie: candidate tables, technique passes, the complete posted-event trace (hook H8) and results compared exactly; brute-force referee search as oracle.",
         "Lean 4 proof (soundness of every elimination rule for all grids) with differential correspondence of the event trace",
         "The general solver's answer is an input of the model; its correctness is C01-C03's subject."),
 "C10": ("Theorems about the lowering model (Model/Lower.lean) for all expression trees: Expr.build_eval (smart constructors / constant folding / identities preserve evaluation), extractLinear_sound, linearise_sound, materializeLin_sem, applyVarEqBounds_sound, C10_linear_fragment (posting + lowering a list of simple comparisons yields propagators whose joint meaning is exactly the conjunction of the trees), C10_and_vv_sem, C10_or_same_var_sound, C10_aux_vars_partial (auxiliary variables are functionally determined, inside the inferred range); C10_or_comparisons_sound / C10_not_comparison (the repaired lowerings), float operands: C10_float_extract_sound, C10_float_lowering_decision (integer lowering iff no float literal is left — variable types are never consulted), C10_float_row_partial; kernel-checked counterexamples for the open findings (nested or / float or still a conjunction, Not node around and/or lowered as its content, float rows lowered to integer propagators, auxiliary variable clipped). Tie: hook H2 returns the code's own lowered (Vars, Propagators) for random expression trees; compared exactly with the model's lowering, and the enumerated solution set is compared with direct evaluation of the tree.",
         "Lean 4 proof (translation correctness by structural induction over expression trees) with differential correspondence of the lowering",
         "Float operands and the mul/div/mod auxiliary constraints are covered by the correspondence and the API-level oracle, not by the linear-fragment theorem."),
 "C19": ("Theorems for every state, slice and size: bitset_alldiff_sound / bitset_removed_unsupported / bitset_inconsistent_no_solution (assigned-value elimination + Hall sets, pigeonhole for any subset size, HashSet order irrelevant), hybrid_sound / hybrid_history_sound (invariant over any history of adds, removals, assigns, bound cuts, propagations), alldiff_prune_sound / _fail_sound / _checking / _contracting (AllDiff::prune on bounds), sparse_inconsistent_sound; kernel-checked counterexamples: sparse engine removes supported values, depends on hash order, panics; engines disagree on unsatisfiable families (partial theorem: they agree when a solution exists). Tie: all three engines driven op by op (add/remove/assign/cut/propagate) and compared exactly with the model, exhaustively for <=4 variables over <=5 values, randomly up to 8 variables incl. >128-value domains; brute-force all-different oracle.",
         "Lean 4 proof (Hall/pigeonhole soundness, history invariant) with differential correspondence of the three engines",
         "Sparse engine: the property is false of the code (known findings); claimed level covers the bit-set and hybrid engines and AllDiff::prune."),
 "C11": ("Lean 4 theorems about a model of SparseSet: well-formedness invariant and refinement to a plain mathematical set for every universe and every history of any length (C11_history_partial, C11_observers), with kernel-checked counterexamples for the two history shapes on which the pinned code violates the property (known findings). Tie: exact correspondence of full observable state (storage order, complement order, cached bounds) on random and exhaustive histories, plus a BTreeSet oracle.",
         "Lean 4 proof (invariant + refinement by induction over histories) with differential correspondence",
         "The guard `ok` of the partial theorem excludes restores after union_with and non-LIFO restores (known findings)."),
}

# properties whose slice is being adapted to a fix: commit in /repo (not claimed until green again)
HOLD = set()

def main():
    for h in HOLD:
        P.pop(h, None)
    hooks = subprocess.run(["git", "-C", "/repo", "log", "--format=%H %s"], capture_output=True, text=True).stdout.splitlines()
    hook_commits = [l.split()[0] for l in hooks if "verif hook" in l]
    checks = []
    for pid in sorted(P):
        text, tech, note = P[pid]
        checks.append({
            "property_id": pid,
            "quick_cmd": f"bin/check {pid} --tier quick",
            "thorough_cmd": f"bin/check {pid} --tier thorough",
            "evidence_file": f"evidence/{pid}.json",
            "replay_cmd_template": f"bin/check {pid} --replay {{path}}",
            "engine": "lean-model",
            "level_claimed": {"category": "proof", "text": text, "design_ref": f"DESIGN.md 4/{pid}"},
            "level_note": COMMON_NOTE + note,
            "technique": tech,
        })
    all_ids = [json.loads(l)["id"] for l in open(os.path.join(VERIF, "properties.jsonl"))]
    na = [{"property_id": i, "reason": "not yet built in this revision (work in progress; see DESIGN.md build order) — to be claimed, not inapplicable"}
          for i in all_ids if i not in P]
    m = {
        "version": 1,
        "setup_cmd": "cd /verif && bin/setup",
        "hooks": {
            "guard": "selen_verif",
            "enable": "RUSTFLAGS='--cfg selen_verif' (set in /verif/harness/.cargo/config.toml); the harness depends on /repo by path",
            "baseline_off_cmd": "cd /repo && cargo test --workspace --no-fail-fast --offline",
            "source_commits": hook_commits,
            "add_only": True,
        },
        "engines": [
            {"name": "lean-model", "path": "lean", "serves_properties": sorted(P), "kind_free_text": "hand-written executable Lean 4 model + property theorems (lake project, core library only)"},
            {"name": "harness", "path": "harness", "serves_properties": sorted(P), "kind_free_text": "Rust correspondence harness: drives the real code, line protocol, implementation-side oracles"},
        ],
        "checks": checks,
        "not_applicable": na,
        "notes": "Properties are added to `checks` as their theorems, correspondence ops and oracles are completed; see DESIGN.md.",
    }
    json.dump(m, open(os.path.join(VERIF, "MANIFEST.json"), "w"), indent=1)

if __name__ == "__main__":
    main()

#!/usr/bin/env python3
"""finding_pairs.py: scans work/*/*.oracle for (property, tag) pairs whose tag is a listed open
finding that does not list the property, and for unlisted tags.  A maintenance aid: prints only."""
import json, os, glob, collections
V = os.path.dirname(os.path.dirname(os.path.abspath(__file__)))
k = json.load(open(os.path.join(V, "known_findings.json")))
tags = {f["tag"]: set(f.get("properties", [f.get("property")])) for f in k["findings"] if f["status"] == "open"}
claimed = {c["property_id"] for c in json.load(open(os.path.join(V, "MANIFEST.json")))["checks"]}
seen = collections.Counter()
for f in glob.glob(os.path.join(V, "work", "*", "*.oracle")):
    for line in open(f):
        p = line.rstrip("\n").split("\t")
        if len(p) >= 3:
            seen[(p[1], p[2])] += 1
for (prop, tag), n in sorted(seen.items()):
    if tag not in tags:
        print(f"UNLISTED-TAG {prop} {tag} x{n}")
    elif prop not in tags[tag]:
        print(f"{'MISSING-PROPERTY' if prop in claimed else 'unclaimed-property'} {prop} {tag} x{n}")

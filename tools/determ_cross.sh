#!/usr/bin/env bash
# determ_cross.sh <seed> <count> <nproc> <outdir> [probe [reps]]
#
# C16 across processes: runs the `determ` harness suite in <nproc> SEPARATE processes with the
# same seed (every process draws its own SipHash keys for std's HashMap/HashSet) and compares the
# `.impl` transcripts byte for byte against the first one.
#   prints  DIFF <line-no> p<k>: <op> || p0: <result> || p<k>: <result>   for every difference
#   exit 1 if there is any difference (or the within-process oracle of some process failed),
#   exit 0 and no output otherwise.
# Lines that read `time-limit` in some process (the wall-clock watchdog abandoned the run: "as
# long as no time limit interferes") are not compared; their number goes to stderr.
# With a 5th argument `probe` the hash-ordered public helper structs that solve() never reaches
# are exercised instead (`--probe <reps>`, default 1 = print the single outcome of one run), where
# differences between processes are the expected evidence of the tagged findings.
set -u
seed=${1:?seed} ; count=${2:?count} ; nproc=${3:?nproc} ; out=${4:?outdir}
mode=${5:-solve} ; reps=${6:-1}
here=$(cd "$(dirname "$0")/.." && pwd)
bin="$here/harness/target/debug/selen_harness"
if [ ! -x "$bin" ]; then
  (cd "$here/harness" && cargo build --offline -q) || { echo "DIFF 0 harness does not build"; exit 1; }
fi
mkdir -p "$out"
extra=()
[ "$mode" = probe ] && extra=(--probe "$reps")
pids=()
for k in $(seq 0 $((nproc - 1))); do
  "$bin" determ --seed "$seed" --count "$count" --out "$out/p$k" --jobs 2 "${extra[@]}" > "$out/p$k.log" 2>&1 &
  pids+=($!)
done
rc=0
for p in "${pids[@]}"; do wait "$p" || rc=1; done
if [ $rc -ne 0 ]; then echo "DIFF 0 a harness process failed (see $out/p*.log)"; exit 1; fi
python3 - "$out" "$nproc" "$mode" <<'EOF'
import sys
out, n, mode = sys.argv[1], int(sys.argv[2]), sys.argv[3]
ops = open(f"{out}/p0/determ.ops").read().split("\n")
imp = [open(f"{out}/p{k}/determ.impl").read().split("\n") for k in range(n)]
bad = 0
skipped = 0
for k in range(1, n):
    if open(f"{out}/p{k}/determ.ops").read().split("\n") != ops:
        print(f"DIFF 0 p{k}: the protocol lines (.ops) differ from p0: the generator is not a function of the seed")
        bad += 1
width = max(len(x) for x in imp)
for i in range(width):
    col = [x[i] if i < len(x) else "<missing>" for x in imp]
    if any(c == "time-limit" for c in col):
        skipped += 1
        continue
    for k in range(1, n):
        if col[k] != col[0]:
            op = ops[i] if i < len(ops) else ""
            print(f"DIFF {i + 1} p{k}: {op[:300]} || p0: {col[0][:400]} || p{k}: {col[k][:400]}")
            bad += 1
            break
# within-process oracle (the two runs inside one process disagreed)
if mode != "probe":
    for k in range(n):
        for line in open(f"{out}/p{k}/determ.oracle"):
            p = line.rstrip("\n").split("\t")
            print(f"DIFF {int(p[0]) + 1} p{k}: within-process mismatch [{p[2]}] {p[3][:400]}")
            bad += 1
if skipped:
    print(f"{skipped} line(s) not compared: a wall-clock limit interfered in some process", file=sys.stderr)
sys.exit(1 if bad else 0)
EOF

#!/usr/bin/env python3
"""seed_matrix.py [--isolated] [seed ids…]

Runs the quick checks against every seeded change and records in seeded/<id>/meta.json which
checks detect it.  Default: apply to /repo itself (git apply … run … git checkout -- .), as the
brief prescribes.  With --isolated a scratch worktree /tmp/seedrun/repo and a copy
/tmp/seedrun/verif are used instead, so that other builds depending on /repo are not disturbed."""
import json, os, subprocess, sys, shutil, re

VERIF = "/verif"
RELATED = {
    "C01": ["C01", "C03", "C05"], "C02": ["C02", "C03", "C01", "C10"], "C03": ["C03", "C01", "C11"],
    "C04": ["C04", "C13", "C08"], "C05": ["C05", "C01"], "C06": ["C06", "C12", "C07", "C08"], "C07": ["C07", "C12", "C06"],
    "C08": ["C08", "C09", "C15"], "C09": ["C09"], "C10": ["C10", "C01", "C03", "C06"], "C11": ["C11"],
    "C12": ["C12", "C13"], "C13": ["C13", "C12"], "C14": ["C14", "C02", "C03"], "C15": ["C15"],
    "C16": ["C16"], "C17": ["C17"], "C18": ["C18"], "C19": ["C19", "C05"],
}


def sh(cmd, cwd=None):
    return subprocess.run(cmd, cwd=cwd, shell=True, capture_output=True, text=True)


def main():
    args = sys.argv[1:]
    isolated = "--isolated" in args
    ids = [a for a in args if not a.startswith("--")]
    repo, verif = "/repo", VERIF
    if isolated:
        os.makedirs("/tmp/seedrun", exist_ok=True)
        if not os.path.isdir("/tmp/seedrun/repo"):
            sh("git -C /repo worktree add --detach /tmp/seedrun/repo HEAD")
        head = sh("git -C /repo rev-parse HEAD").stdout.strip()
        sh(f"git -C /tmp/seedrun/repo checkout -q --detach {head} && git -C /tmp/seedrun/repo checkout -q -- .")
        sh("rsync -a --delete --exclude work --exclude replays --exclude .git /verif/ /tmp/seedrun/verif/")
        sh("sed -i 's|path = \"/repo\"|path = \"/tmp/seedrun/repo\"|' /tmp/seedrun/verif/harness/Cargo.toml")
        sh("sed -i 's|REPO = os.environ.get(\"SELEN_REPO\", \"/repo\")|REPO = os.environ.get(\"SELEN_REPO\", \"/tmp/seedrun/repo\")|' /tmp/seedrun/verif/tools/extract_constants.py")
        repo, verif = "/tmp/seedrun/repo", "/tmp/seedrun/verif"
    claimed = {c["property_id"] for c in json.load(open(f"{VERIF}/MANIFEST.json"))["checks"]}
    seeds = sorted(os.listdir(f"{VERIF}/seeded"))
    if ids:
        seeds = [s for s in seeds if s in ids]
    for s in seeds:
        d = f"{VERIF}/seeded/{s}"
        meta = json.load(open(f"{d}/meta.json"))
        pid = meta["property"]
        checks = [c for c in RELATED.get(pid, [pid]) if c in claimed]
        patch = f"{d}/patch.diff"
        mode = ""
        if sh(f"git apply --check {patch}", cwd=repo).returncode != 0:
            if sh(f"git apply --check --3way {patch}", cwd=repo).returncode == 0:
                mode = "--3way"
            else:
                alt = f"{d}/patch_rebased.diff"
                if os.path.exists(alt) and sh(f"git apply --check {alt}", cwd=repo).returncode == 0:
                    patch = alt
                else:
                    meta["detection_notes"] = "patch no longer applies to the repaired tree (the site was changed by a fix: commit)"
                    meta["detected_by"] = []
                    json.dump(meta, open(f"{d}/meta.json", "w"), indent=1)
                    print(s, "DOES-NOT-APPLY")
                    continue
        sh(f"git apply {mode} {patch}", cwd=repo)
        if sh("grep -rl '^<<<<<<<' src", cwd=repo).stdout.strip():
            # the 3-way merge left conflicts: the site was changed by a fix: commit
            sh("git reset -q --hard", cwd=repo) if isolated else sh("git checkout -- . && git reset -q", cwd=repo)
            alt = f"{d}/patch_rebased.diff"
            if os.path.exists(alt) and sh(f"git apply --check {alt}", cwd=repo).returncode == 0:
                sh(f"git apply {alt}", cwd=repo)
            else:
                meta["detection_notes"] = "patch conflicts with a fix: commit at the same site (no rebased variant)"
                meta["detected_by"] = []
                json.dump(meta, open(f"{d}/meta.json", "w"), indent=1)
                print(s, "CONFLICTS")
                continue
        res = {}
        for c in checks:
            r = sh(f"bin/check {c} --tier quick", cwd=verif)
            viol = re.findall(r"VIOLATION property=(\S+) replay=(\S+)( no-failing-input-found)?", r.stdout)
            if viol:
                res[c] = "violation with failing input" if any(v[2] == "" for v in viol) else "no-failing-input-found"
            elif r.returncode != 0:
                res[c] = f"check exited {r.returncode}"
        sh("git checkout -- . && git reset -q", cwd=repo)
        meta["checks_run"] = checks
        meta["detected_by"] = sorted(res)
        meta["detection_notes"] = "; ".join(f"{k}: {v}" for k, v in sorted(res.items())) or "not detected by the quick checks run"
        json.dump(meta, open(f"{d}/meta.json", "w"), indent=1)
        print(s, checks, "->", res)


if __name__ == "__main__":
    main()

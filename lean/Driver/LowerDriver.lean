import SelenModel.Model.Lower
import SelenModel.Model.LowerFloat
import SelenModel.Model.Engine
import Driver.Util
import Driver.CoreDriver
/-
`lw.*` ops: the fluent-API lowering, model side.

Two models are run side by side: the integer model `LModel` (`Model/Lower.lean`, the subject of the
integer theorems of `Props/C10.lean`) on cases without float variables / float literals, and the
general model `FLModel Float` (`Model/LowerFloat.lean`) on EVERY case.  `lw.lower` prints the dump
of the general model; on integer-only cases the dump of the integer model must be the same text
(`MODEL-MISMATCH` otherwise), so that both models are tied to the code.
Floats travel as decimal `u64` bit patterns (`f <bits>` literals, `lw.fvar <lo> <hi>`) and are
printed as `f<bits>`.
-/
namespace Driver
open Selen

structure LowerSt where
  m : LModel := {}
  /-- a posted tree could not be built with integer constants only (the builder folds
  `int / int` to a float constant) -/
  unsupported : Bool := false
  fm : FLModel Float := {}
  /-- a float variable was declared or a float literal was posted: the integer model is not run -/
  floaty : Bool := false
  /-- the general model does not follow the case (a constant folded to `inf` / NaN) -/
  funsupported : Bool := false

partial def parseExpr : List String → Option (Expr × List String)
  | "v" :: i :: r => i.toNat?.map (fun i => (.var i, r))
  | "k" :: k :: r => (parseInt? k).map (fun k => (.val k, r))
  | op :: r =>
    if op ∈ ["+", "-", "*", "/", "%"] then do
      let (a, r) ← parseExpr r
      let (b, r) ← parseExpr r
      let e := match op with
        | "+" => Expr.add a b | "-" => Expr.sub a b | "*" => Expr.mul a b
        | "/" => Expr.div a b | _ => Expr.mod a b
      pure (e, r)
    else none
  | _ => none

def lwParseBits (s : String) : Option Float := s.toNat?.map (fun n => Float.ofBits n.toUInt64)

partial def lwParseFExpr : List String → Option (FExpr Float × List String)
  | "v" :: i :: r => i.toNat?.map (fun i => (.var i, r))
  | "k" :: k :: r => (parseInt? k).map (fun k => (.val (.i k), r))
  | "f" :: b :: r => (lwParseBits b).map (fun x => (.val (.f x), r))
  | op :: r =>
    if op ∈ ["+", "-", "*", "/", "%"] then do
      let (a, r) ← lwParseFExpr r
      let (b, r) ← lwParseFExpr r
      let e := match op with
        | "+" => FExpr.add a b | "-" => FExpr.sub a b | "*" => FExpr.mul a b
        | "/" => FExpr.div a b | _ => FExpr.mod a b
      pure (e, r)
    else none
  | _ => none

def parseOp : String → Option CmpOp
  | "eq" => some .eq | "ne" => some .ne | "lt" => some .lt
  | "le" => some .le | "gt" => some .gt | "ge" => some .ge | _ => none

partial def parseCon : List String → Option (Con × List String)
  | "cmp" :: op :: r => do
    let op ← parseOp op
    let (a, r) ← parseExpr r
    let (b, r) ← parseExpr r
    pure (.bin a op b, r)
  | "and" :: r => do let (a, r) ← parseCon r; let (b, r) ← parseCon r; pure (.and a b, r)
  | "or" :: r => do let (a, r) ← parseCon r; let (b, r) ← parseCon r; pure (.or a b, r)
  | "not" :: r => do let (a, r) ← parseCon r; pure (.not a, r)
  | _ => none

partial def lwParseFCon : List String → Option (FCon Float × List String)
  | "cmp" :: op :: r => do
    let op ← parseOp op
    let (a, r) ← lwParseFExpr r
    let (b, r) ← lwParseFExpr r
    pure (.bin a op b, r)
  | "and" :: r => do let (a, r) ← lwParseFCon r; let (b, r) ← lwParseFCon r; pure (.and a b, r)
  | "or" :: r => do let (a, r) ← lwParseFCon r; let (b, r) ← lwParseFCon r; pure (.or a b, r)
  | "not" :: r => do let (a, r) ← lwParseFCon r; pure (.not a, r)
  | _ => none

/-- rebuild every expression of a constraint tree with the smart constructors -/
def buildCon : Con → Option Con
  | .bin l op r => do let l ← l.build; let r ← r.build; pure (.bin l op r)
  | .and a b => do let a ← buildCon a; let b ← buildCon b; pure (.and a b)
  | .or a b => do let a ← buildCon a; let b ← buildCon b; pure (.or a b)
  | .not a => do let a ← buildCon a; pure (Con.mkNot a)

def lwShowVar (i : Nat) : String := s!"VarId({i})"
def showIntList (l : List Int) : String := "[" ++ ", ".intercalate (l.map toString) ++ "]"
def showVarList (l : List Nat) : String := "[" ++ ", ".intercalate (l.map lwShowVar) ++ "]"

/-- struct names of the reified comparison propagators (`constraints/props/reification.rs`) -/
def lwReifName : CmpOp → String
  | .eq => "IntEqReif" | .ne => "IntNeReif" | .lt => "IntLtReif"
  | .le => "IntLeReif" | .gt => "IntGtReif" | .ge => "IntGeReif"

/-- Rust `Debug` rendering of the real propagator -/
def showLP : LP → String
  | .eqVV x y => s!"Eq \{ x: {lwShowVar x}, y: {lwShowVar y} }"
  | .eqKV k y => s!"Eq \{ x: ValI({k}), y: {lwShowVar y} }"
  | .neVV x y => s!"NotEquals \{ x: {lwShowVar x}, y: {lwShowVar y} }"
  | .leVV x y => s!"LessThanOrEquals \{ x: {lwShowVar x}, y: {lwShowVar y} }"
  | .ltVV x y => s!"LessThanOrEquals \{ x: Next({lwShowVar x}), y: {lwShowVar y} }"
  | .addVV x y s => s!"Add \{ x: {lwShowVar x}, y: {lwShowVar y}, s: {lwShowVar s} }"
  | .subVV x y s => s!"Add \{ x: {lwShowVar x}, y: TimesPos(x: Opposite({lwShowVar y}), scale: ValI(1)), s: {lwShowVar s} }"
  | .mulVV x y s => s!"Mul \{ x: {lwShowVar x}, y: {lwShowVar y}, s: {lwShowVar s} }"
  | .divVV x y s => s!"Div \{ x: {lwShowVar x}, y: {lwShowVar y}, s: {lwShowVar s} }"
  | .modVV x y s => s!"Modulo \{ x: {lwShowVar x}, y: {lwShowVar y}, s: {lwShowVar s} }"
  | .linEq cs xs c => s!"IntLinEq \{ coefficients: {showIntList cs}, variables: {showVarList xs}, constant: {c} }"
  | .linLe cs xs c => s!"IntLinLe \{ coefficients: {showIntList cs}, variables: {showVarList xs}, constant: {c} }"
  | .linNe cs xs c => s!"IntLinNe \{ coefficients: {showIntList cs}, variables: {showVarList xs}, constant: {c} }"
  | .reif op x y b => s!"{lwReifName op} \{ x: {lwShowVar x}, y: {lwShowVar y}, b: {lwShowVar b} }"
  | .boolOr ops r => s!"BoolOr \{ operands: {showVarList ops}, result: {lwShowVar r} }"

/-- compact domain dump shared with the harness: long contiguous ranges as `[lo..hi#n]` -/
def showDomC (d : Dom) : String :=
  let s := sortInts d
  match s.head?, s.getLast? with
  | some lo, some hi =>
    if s.length > 12 && (hi - lo + 1 == (s.length : Int)) then s!"[{lo}..{hi}#{s.length}]" else showInts s
  | _, _ => showInts s

def lwShowF (x : Float) : String := s!"f{x.toBits.toNat}"
def lwShowFList (l : List Float) : String := "[" ++ ", ".intercalate (l.map lwShowF) ++ "]"

def lwShowFVal : FVal Float → String
  | .i k => s!"ValI({k})"
  | .f x => s!"ValF({lwShowF x})"

/-- Rust `Debug` rendering of the real propagator (floats as `f<bits>`) -/
def lwShowFLP : FLP Float → String
  | .eqVV x y => s!"Eq \{ x: {lwShowVar x}, y: {lwShowVar y} }"
  | .eqKV k y => s!"Eq \{ x: {lwShowFVal k}, y: {lwShowVar y} }"
  | .neVV x y => s!"NotEquals \{ x: {lwShowVar x}, y: {lwShowVar y} }"
  | .leVV x y => s!"LessThanOrEquals \{ x: {lwShowVar x}, y: {lwShowVar y} }"
  | .ltVV x y => s!"LessThanOrEquals \{ x: Next({lwShowVar x}), y: {lwShowVar y} }"
  | .addVV x y s => s!"Add \{ x: {lwShowVar x}, y: {lwShowVar y}, s: {lwShowVar s} }"
  | .subVV x y s => s!"Add \{ x: {lwShowVar x}, y: TimesPos(x: Opposite({lwShowVar y}), scale: ValI(1)), s: {lwShowVar s} }"
  | .mulVV x y s => s!"Mul \{ x: {lwShowVar x}, y: {lwShowVar y}, s: {lwShowVar s} }"
  | .divVV x y s => s!"Div \{ x: {lwShowVar x}, y: {lwShowVar y}, s: {lwShowVar s} }"
  | .modVV x y s => s!"Modulo \{ x: {lwShowVar x}, y: {lwShowVar y}, s: {lwShowVar s} }"
  | .linEq cs xs c => s!"IntLinEq \{ coefficients: {showIntList cs}, variables: {showVarList xs}, constant: {c} }"
  | .linLe cs xs c => s!"IntLinLe \{ coefficients: {showIntList cs}, variables: {showVarList xs}, constant: {c} }"
  | .linNe cs xs c => s!"IntLinNe \{ coefficients: {showIntList cs}, variables: {showVarList xs}, constant: {c} }"
  | .flinEq cs xs c => s!"FloatLinEq \{ coefficients: {lwShowFList cs}, variables: {showVarList xs}, constant: {lwShowF c} }"
  | .flinLe cs xs c => s!"FloatLinLe \{ coefficients: {lwShowFList cs}, variables: {showVarList xs}, constant: {lwShowF c} }"
  | .flinNe cs xs c => s!"FloatLinNe \{ coefficients: {lwShowFList cs}, variables: {showVarList xs}, constant: {lwShowF c} }"
  | .reif op x y b => s!"{lwReifName op} \{ x: {lwShowVar x}, y: {lwShowVar y}, b: {lwShowVar b} }"
  | .boolOr ops r => s!"BoolOr \{ operands: {showVarList ops}, result: {lwShowVar r} }"

def lwShowFDom : FDom Float → String
  | .int d => showDomC d
  | .flt lo hi => s!"F[{lo.toBits.toNat},{hi.toBits.toNat}]"

/-- `lw.lower` of the integer model -/
def lowerDumpI (st : LowerSt) : String :=
  if st.unsupported then "unsupported" else
  if st.m.panicked then "panic" else
  let m := st.m.lower
  match m.validateErr with
  | some e => s!"error {e}"
  | none => s!"vars={"|".intercalate (m.doms.map showDomC)} props={" ;; ".intercalate (m.props.map showLP)}"

/-- `lw.lower` of the general model -/
def lowerDumpF (st : LowerSt) : String :=
  if st.funsupported then "unsupported" else
  if st.fm.panicked then "panic" else
  let m := st.fm.lower
  match m.validateErr with
  | some e => s!"error {e}"
  | none => s!"vars={"|".intercalate (m.doms.map lwShowFDom)} props={" ;; ".intercalate (m.props.map lwShowFLP)}"

def lowerStep (st : LowerSt) (ws : List String) : LowerSt × String :=
  match ws with
  | "lw.var" :: vs =>
    match parseInts vs with
    | some l =>
      let d := (sortInts l).eraseDups
      ({ st with m := (st.m.newVar d).1, fm := (st.fm.newVar (.int d)).1 }, "ok")
    | none => (st, "bad-op")
  | ["lw.fvar", lo, hi] =>
    match lwParseBits lo, lwParseBits hi with
    | some lo, some hi => ({ st with fm := (st.fm.newVar (.flt lo hi)).1, floaty := true }, "ok")
    | _, _ => (st, "bad-op")
  | "lw.post" :: r =>
    match lwParseFCon r with
    | some (fc, []) =>
      /- the general model -/
      let st :=
        match fc.build with
        | some c' => if c'.finite then { st with fm := st.fm.postCon c' } else { st with funsupported := true }
        | none => { st with funsupported := true }
      /- the integer model (integer-only trees) -/
      match parseCon r with
      | some (c, []) =>
        match buildCon c with
        | some c' => ({ st with m := st.m.postCon c' }, "ok")
        | none => ({ st with unsupported := true }, "ok")
      | _ => ({ st with floaty := true }, "ok")
    | _ => (st, "bad-op")
  | ["lw.lower"] =>
    let f := lowerDumpF st
    if st.floaty || st.unsupported then (st, f) else
    let i := lowerDumpI st
    if i == f then (st, f) else (st, s!"MODEL-MISMATCH int-model={i} general-model={f}")
  | "lw.wit" :: bs => if bs.all (fun b => (lwParseBits b).isSome) then (st, "ok") else (st, "bad-op")
  | ["lw.prune"] =>
    if st.funsupported then (st, "unsupported") else
    if st.fm.panicked then (st, "panic") else
    let m := st.fm.lower
    match m.validateErr with
    | some e => (st, s!"error {e}")
    | none =>
      match FLModel.prunePass m.props { st := m.store } with
      | none => (st, "skip")
      | some (some k, _) => (st, s!"fail {k}")
      | some (none, c) =>
        let showV : Nat → String := fun i =>
          match c.st i with
          | .int d => showDomC d
          | .flt iv => s!"F[{iv.min.toBits.toNat},{iv.max.toBits.toNat}]"
        (st, s!"vars={"|".intercalate ((List.range m.doms.length).map showV)}")
  | ["lw.solve"] => (st, "-")
  | ["lw.enum"] =>
    if st.floaty then (st, "unsupported") else
    if st.unsupported then (st, "unsupported") else
    if st.m.panicked then (st, "panic") else
    let m := st.m.lower
    if m.validateErr.isSome then (st, "n=0 sols=") else
    if m.props.all LP.supported then
      let store : Store := fun i => m.doms.getD i [0]
      let o := search m.doms.length none Policy.fifo driverFuel (m.props.map LP.toPK) store
      (st, showOut o)
    else (st, "unsupported")
  | _ => (st, "bad-op")

end Driver

import Driver.Util
/-
(stub — to be filled in) ops with the prefix of this suite: model side.
-/
namespace Driver

structure LowerSt where
  dummy : Unit := ()

def lowerStep (st : LowerSt) (_ws : List String) : LowerSt × String := (st, "bad-op")

end Driver

import SelenModel.Model.Lower
import SelenModel.Model.Engine
import Driver.Util
import Driver.CoreDriver
/-
`lw.*` ops: the fluent-API lowering, model side.
-/
namespace Driver
open Selen

structure LowerSt where
  m : LModel := {}
  /-- a posted tree could not be built with integer constants only (the builder folds
  `int / int` to a float constant) -/
  unsupported : Bool := false

partial def parseExpr : List String → Option (Expr × List String)
  | "v" :: i :: r => i.toNat?.map (fun i => (.var i, r))
  | "k" :: k :: r => (parseInt? k).map (fun k => (.val k, r))
  | op :: r =>
    if op ∈ ["+", "-", "*", "/", "%"] then do
      let (a, r) ← parseExpr r
      let (b, r) ← parseExpr r
      let e := match op with
        | "+" => Expr.add a b | "-" => Expr.sub a b | "*" => Expr.mul a b
        | "/" => Expr.div a b | _ => Expr.mod a b
      pure (e, r)
    else none
  | _ => none

def parseOp : String → Option CmpOp
  | "eq" => some .eq | "ne" => some .ne | "lt" => some .lt
  | "le" => some .le | "gt" => some .gt | "ge" => some .ge | _ => none

partial def parseCon : List String → Option (Con × List String)
  | "cmp" :: op :: r => do
    let op ← parseOp op
    let (a, r) ← parseExpr r
    let (b, r) ← parseExpr r
    pure (.bin a op b, r)
  | "and" :: r => do let (a, r) ← parseCon r; let (b, r) ← parseCon r; pure (.and a b, r)
  | "or" :: r => do let (a, r) ← parseCon r; let (b, r) ← parseCon r; pure (.or a b, r)
  | "not" :: r => do let (a, r) ← parseCon r; pure (.not a, r)
  | _ => none

/-- rebuild every expression of a constraint tree with the smart constructors -/
def buildCon : Con → Option Con
  | .bin l op r => do let l ← l.build; let r ← r.build; pure (.bin l op r)
  | .and a b => do let a ← buildCon a; let b ← buildCon b; pure (.and a b)
  | .or a b => do let a ← buildCon a; let b ← buildCon b; pure (.or a b)
  | .not a => do let a ← buildCon a; pure (.not a)

def lwShowVar (i : Nat) : String := s!"VarId({i})"
def showIntList (l : List Int) : String := "[" ++ ", ".intercalate (l.map toString) ++ "]"
def showVarList (l : List Nat) : String := "[" ++ ", ".intercalate (l.map lwShowVar) ++ "]"

/-- Rust `Debug` rendering of the real propagator -/
def showLP : LP → String
  | .eqVV x y => s!"Eq \{ x: {lwShowVar x}, y: {lwShowVar y} }"
  | .eqKV k y => s!"Eq \{ x: ValI({k}), y: {lwShowVar y} }"
  | .neVV x y => s!"NotEquals \{ x: {lwShowVar x}, y: {lwShowVar y} }"
  | .leVV x y => s!"LessThanOrEquals \{ x: {lwShowVar x}, y: {lwShowVar y} }"
  | .ltVV x y => s!"LessThanOrEquals \{ x: Next({lwShowVar x}), y: {lwShowVar y} }"
  | .addVV x y s => s!"Add \{ x: {lwShowVar x}, y: {lwShowVar y}, s: {lwShowVar s} }"
  | .subVV x y s => s!"Add \{ x: {lwShowVar x}, y: TimesPos(x: Opposite({lwShowVar y}), scale: ValI(1)), s: {lwShowVar s} }"
  | .mulVV x y s => s!"Mul \{ x: {lwShowVar x}, y: {lwShowVar y}, s: {lwShowVar s} }"
  | .divVV x y s => s!"Div \{ x: {lwShowVar x}, y: {lwShowVar y}, s: {lwShowVar s} }"
  | .modVV x y s => s!"Modulo \{ x: {lwShowVar x}, y: {lwShowVar y}, s: {lwShowVar s} }"
  | .linEq cs xs c => s!"IntLinEq \{ coefficients: {showIntList cs}, variables: {showVarList xs}, constant: {c} }"
  | .linLe cs xs c => s!"IntLinLe \{ coefficients: {showIntList cs}, variables: {showVarList xs}, constant: {c} }"
  | .linNe cs xs c => s!"IntLinNe \{ coefficients: {showIntList cs}, variables: {showVarList xs}, constant: {c} }"

/-- compact domain dump shared with the harness: long contiguous ranges as `[lo..hi#n]` -/
def showDomC (d : Dom) : String :=
  let s := sortInts d
  match s.head?, s.getLast? with
  | some lo, some hi =>
    if s.length > 12 && (hi - lo + 1 == (s.length : Int)) then s!"[{lo}..{hi}#{s.length}]" else showInts s
  | _, _ => showInts s

def lowerStep (st : LowerSt) (ws : List String) : LowerSt × String :=
  match ws with
  | "lw.var" :: vs =>
    match parseInts vs with
    | some l => ({ st with m := (st.m.newVar ((sortInts l).eraseDups)).1 }, "ok")
    | none => (st, "bad-op")
  | "lw.post" :: r =>
    match parseCon r with
    | some (c, []) =>
      match buildCon c with
      | some c' => ({ st with m := st.m.postCon c' }, "ok")
      | none => ({ st with unsupported := true }, "ok")
    | _ => (st, "bad-op")
  | ["lw.lower"] =>
    if st.unsupported then (st, "unsupported") else
    if st.m.panicked then (st, "panic") else
    let m := st.m.lower
    match m.validateErr with
    | some e => (st, s!"error {e}")
    | none =>
    (st, s!"vars={"|".intercalate (m.doms.map showDomC)} props={" ;; ".intercalate (m.props.map showLP)}")
  | ["lw.enum"] =>
    if st.unsupported then (st, "unsupported") else
    if st.m.panicked then (st, "panic") else
    let m := st.m.lower
    if m.validateErr.isSome then (st, "n=0 sols=") else
    if m.props.all LP.supported then
      let store : Store := fun i => m.doms.getD i [0]
      let o := search m.doms.length none Policy.fifo driverFuel (m.props.map LP.toPK) store
      (st, showOut o)
    else (st, "unsupported")
  | _ => (st, "bad-op")

end Driver

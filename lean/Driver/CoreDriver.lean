import SelenModel.Model.Engine
import Driver.Util
/-
Store / view / propagator ops of the line protocol: model side (integer core).
-/
namespace Driver
open Selen

structure CoreSt where
  doms : Array Dom := #[]
  props : List PK := []

def CoreSt.store (s : CoreSt) : Store := fun i => s.doms.getD i [0]
def CoreSt.ctx (s : CoreSt) : Ctx := { st := s.store, ev := [] }

def sortInts (l : List Int) : List Int := (l.toArray.qsort (· < ·)).toList

def showDoms (n : Nat) (st : Store) : String :=
  "|".intercalate ((List.range n).map (fun i => showInts (sortInts (st i))))

def CoreSt.absorb (s : CoreSt) (c : Ctx) : CoreSt :=
  { s with doms := (Array.range s.doms.size).map (fun i => c.st i) }

/-- parse a view: `c k | v i | opp V | plus k V | tpos k V | times k V | tneg k V | next V | prev V` -/
partial def parseView : List String → Option (IView × List String)
  | "c" :: k :: r => (parseInt? k).map (fun k => (.const k, r))
  | "v" :: i :: r => i.toNat?.map (fun i => (.var i, r))
  | "opp" :: r => (parseView r).map (fun (v, r) => (.opp v, r))
  | "next" :: r => (parseView r).map (fun (v, r) => (.next v, r))
  | "prev" :: r => (parseView r).map (fun (v, r) => (.prev v, r))
  | "plus" :: k :: r => do let k ← parseInt? k; let (v, r) ← parseView r; pure (.plus v k, r)
  | "tpos" :: k :: r => do let k ← parseInt? k; let (v, r) ← parseView r; pure (.tpos v k, r)
  | "times" :: k :: r => do let k ← parseInt? k; let (v, r) ← parseView r; pure (IView.times v k, r)
  | "tneg" :: k :: r => do let k ← parseInt? k; let (v, r) ← parseView r; pure (IView.timesNeg v k, r)
  | _ => none

def takeNats (n : Nat) (ws : List String) : Option (List Nat × List String) :=
  if ws.length < n then none else
    match (ws.take n).mapM (·.toNat?) with
    | some l => some (l, ws.drop n)
    | none => none

def takeInts (n : Nat) (ws : List String) : Option (List Int × List String) :=
  if ws.length < n then none else
    match (ws.take n).mapM parseInt? with
    | some l => some (l, ws.drop n)
    | none => none

partial def takeViews : Nat → List String → Option (List IView × List String)
  | 0, ws => some ([], ws)
  | n+1, ws => do
    let (v, r) ← parseView ws
    let (vs, r) ← takeViews n r
    pure (v :: vs, r)

def parseCmp : String → Option Cmp
  | "eq" => some .eq | "ne" => some .ne | "lt" => some .lt
  | "le" => some .le | "gt" => some .gt | "ge" => some .ge | _ => none

def parseCondOp : String → Option CondOp
  | "eq" => some .eq | "ne" => some .ne | "gt" => some .gt | "lt" => some .lt | _ => none

def parseSimpOp : String → Option SimpOp
  | "eq" => some .eq | "ne" => some .ne | "gt" => some .gt | "lt" => some .lt
  | "ge" => some .ge | "le" => some .le | _ => none

/-- `m` rows, each written as its length followed by its values -/
def takeRows : Nat → List String → Option (List (List Int) × List String)
  | 0, ws => some ([], ws)
  | m+1, ws => do
    let (len :: ws) := ws | none
    let len ← len.toNat?
    let (row, r) ← takeInts len ws
    let (rows, r) ← takeRows m r
    pure (row :: rows, r)

/-- parse a propagator kind -/
def parsePK (ws : List String) : Option PK :=
  match ws with
  | "mul" :: r => do
    let (x, r) ← parseView r; let (y, r) ← parseView r
    let ([s], _) ← takeNats 1 r | none
    pure (.mul x y s)
  | "div" :: r => do
    let (x, r) ← parseView r; let (y, r) ← parseView r
    let ([s], _) ← takeNats 1 r | none
    pure (.div x y s)
  | "mod" :: r => do
    let (x, r) ← parseView r; let (y, r) ← parseView r
    let ([s], _) ← takeNats 1 r | none
    pure (.modulo x y s)
  | "alldiff" :: n :: r => do
    let n ← n.toNat?; let (xs, _) ← takeNats n r
    pure (.allDiff xs)
  | "alleq" :: n :: r => do
    let n ← n.toNat?; let (xs, _) ← takeNats n r
    pure (.allEqual xs)
  | ["between", l, m, u] => do
    let l ← l.toNat?; let m ← m.toNat?; let u ← u.toNat?
    pure (.between l m u)
  | "count" :: n :: r => do
    let n ← n.toNat?; let (xs, r) ← takeNats n r
    let (t, r) ← parseView r
    let ([c], _) ← takeNats 1 r | none
    pure (.count xs t c)
  | "atleast" :: n :: r => do
    let n ← n.toNat?; let (xs, r) ← takeNats n r
    let ([tv, k], _) ← takeInts 2 r | none
    pure (.card .atLeast xs tv k)
  | "atmost" :: n :: r => do
    let n ← n.toNat?; let (xs, r) ← takeNats n r
    let ([tv, k], _) ← takeInts 2 r | none
    pure (.card .atMost xs tv k)
  | "exactly" :: n :: r => do
    let n ← n.toNat?; let (xs, r) ← takeNats n r
    let ([tv, k], _) ← takeInts 2 r | none
    pure (.card .exactly xs tv k)
  | "element" :: n :: r => do
    let n ← n.toNat?; let (arr, r) ← takeNats n r
    let ([idx, val], _) ← takeNats 2 r | none
    pure (.element arr idx val)
  | "table" :: n :: r => do
    let n ← n.toNat?; let (xs, r) ← takeNats n r
    let (m :: r) := r | none
    let m ← m.toNat?
    let (ts, _) ← takeRows m r
    pure (PK.mkTable xs ts)
  | "ite" :: cop :: cv :: cval :: top :: tv :: tval :: r => do
    let cop ← parseCondOp cop; let cv ← cv.toNat?; let cval ← parseInt? cval
    let top ← parseSimpOp top; let tv ← tv.toNat?; let tval ← parseInt? tval
    match r with
    | ["noelse"] => pure (.ite cop cv cval top tv tval none)
    | ["else", op, x, v] => do
      let op ← parseSimpOp op; let x ← x.toNat?; let v ← parseInt? v
      pure (.ite cop cv cval top tv tval (some (op, x, v)))
    | _ => none
  | "leq" :: r => do let (x, r) ← parseView r; let (y, _) ← parseView r; pure (.leq x y)
  | "eq" :: r => do let (x, r) ← parseView r; let (y, _) ← parseView r; pure (.eq x y)
  | "neq" :: r => do let (x, r) ← parseView r; let (y, _) ← parseView r; pure (.neq x y)
  | "add" :: r => do
    let (x, r) ← parseView r; let (y, r) ← parseView r
    let ([s], _) ← takeNats 1 r | none
    pure (.add x y s)
  | "sum" :: n :: r => do
    let n ← n.toNat?; let (xs, r) ← takeViews n r
    let ([s], _) ← takeNats 1 r | none
    pure (.sum xs s)
  | "abs" :: r => do
    let (x, r) ← parseView r
    let ([s], _) ← takeNats 1 r | none
    pure (.abs x s)
  | kind :: n :: r =>
    if kind ∈ ["lineq", "linle", "linne", "lineqr", "linler", "linner"] then do
      let n ← n.toNat?
      let (cs, r) ← takeInts n r
      let (xs, r) ← takeNats n r
      let ([c], r) ← takeInts 1 r | none
      match kind with
      | "lineq" => pure (.linEq cs xs c)
      | "linle" => pure (.linLe cs xs c)
      | "linne" => pure (.linNe cs xs c)
      | _ => do
        let ([b], _) ← takeNats 1 r | none
        match kind with
        | "lineqr" => pure (.linEqReif cs xs c b)
        | "linler" => pure (.linLeReif cs xs c b)
        | _ => pure (.linNeReif cs xs c b)
    else if kind ∈ ["and", "or", "min", "max"] then do
      let n ← n.toNat?
      let (xs, r) ← takeNats n r
      let ([res], _) ← takeNats 1 r | none
      match kind with
      | "and" => pure (.boolAnd xs res)
      | "or" => pure (.boolOr xs res)
      | "min" => pure (.min xs res)
      | _ => pure (.max xs res)
    else if kind = "reif" then do
      let op ← parseCmp n
      let ([x, y, b], _) ← takeNats 3 r | none
      pure (.reif op x y b)
    else if kind = "not" then do
      let ([o, res], _) ← takeNats 2 (n :: r) | none
      pure (.boolNot o res)
    else if kind = "xor" then do
      let ([x, y, res], _) ← takeNats 3 (n :: r) | none
      pure (.boolXor x y res)
    else none
  | _ => none

def dedupSorted (l : List Nat) : List Nat :=
  ((l.toArray.qsort (· < ·)).toList).eraseDups

def showRes (n : Nat) (r : Option Ctx) : String :=
  match r with
  | none => "none"
  | some c => s!"some {showDoms n c.st} ev={showNats c.ev}"

def driverFuel : Nat := 10000000

def showOut (o : Out) : String :=
  if o.outOfFuel then "out-of-fuel" else
  let sols := o.solutions
  s!"n={sols.length} sols={";".intercalate (sols.map (fun v => ",".intercalate (v.map toString)))}"

def coreStep (st : CoreSt) (ws : List String) : CoreSt × String :=
  match ws with
  | "st.var" :: vs =>
    match parseInts vs with
    | some l => ({ st with doms := st.doms.push (sortInts l).eraseDups }, s!"var {st.doms.size}")
    | none => (st, "bad-op")
  | "prune" :: r =>
    match parsePK r with
    | none => (st, "bad-op")
    | some pk =>
      let res := pk.prune st.ctx
      let st' := match res with | some c => st.absorb c | none => st
      (st', s!"trig={showNats (dedupSorted pk.triggers)} {showRes st.doms.size res}")
  | "ctx.min" :: r =>
    match parseView r with
    | some (v, [m]) =>
      match parseInt? m with
      | some m =>
        let res := v.trySetMin m st.ctx
        let st' := match res with | some c => st.absorb c | none => st
        (st', showRes st.doms.size res)
      | none => (st, "bad-op")
    | _ => (st, "bad-op")
  | "ctx.max" :: r =>
    match parseView r with
    | some (v, [m]) =>
      match parseInt? m with
      | some m =>
        let res := v.trySetMax m st.ctx
        let st' := match res with | some c => st.absorb c | none => st
        (st', showRes st.doms.size res)
      | none => (st, "bad-op")
    | _ => (st, "bad-op")
  | "view.mm" :: r =>
    match parseView r with
    | some (v, []) => (st, s!"min={v.minRaw st.store} max={v.maxRaw st.store}")
    | _ => (st, "bad-op")
  | "post" :: r =>
    match parsePK r with
    | none => (st, "bad-op")
    | some pk => ({ st with props := st.props ++ [pk] }, s!"p{st.props.length}")
  | ["fix", seed] =>
    match parseInt? seed with
    | none => (st, "bad-op")
    | some sd =>
      let pol := if sd < 0 then Policy.fifo else Policy.seeded sd.toNat
      match propagate st.props pol driverFuel (List.range st.props.length) st.store with
      | .fail => (st, "fail")
      | .fuel => (st, "out-of-fuel")
      | .ok s' => (st, s!"ok {showDoms st.doms.size s'}")
  | ["enum", seed] =>
    match parseInt? seed with
    | none => (st, "bad-op")
    | some sd =>
      let pol := if sd < 0 then Policy.fifo else Policy.seeded sd.toNat
      let o := search st.doms.size none pol driverFuel st.props st.store
      (st, showOut o)
  | "opt" :: dir :: seed :: r =>
    match parseInt? seed, parseView r with
    | some sd, some (v, []) =>
      let pol := if sd < 0 then Policy.fifo else Policy.seeded sd.toNat
      let obj := if dir = "max" then IView.opp v else v
      let o := search st.doms.size (some obj) pol driverFuel st.props st.store
      (st, showOut o)
    | _, _ => (st, "bad-op")
  | "limit" :: k :: kind :: call :: seed :: r =>
    match k.toNat?, kind.toNat?, parseInt? seed with
    | some k, some kd, some sd =>
      let pol := if sd < 0 then Policy.fifo else Policy.seeded sd.toNat
      /- hook H6: from iteration k on the limit is zero, so every check with count ≥ k fires;
         kind 0 = timeout, 1 = memory; kind ≥ 2: real memory limit of k MB, interval 1 -/
      let fire : Nat → Nat → Bool :=
        if kd ≤ 1 then fun c _ => decide (c ≥ k) else fun c d => decide (memUsageMb d c > k)
      let lk : LimKind := if kd = 0 then .time else .memory
      let mkPost (r : LimOut) : Option LimKind :=
        if kd ≤ 1 then none else (if memUsageMb r.depth r.count > k then some .memory else none)
      let showRes (x : SolveRes) : String :=
        match x with
        | .ok v => s!"ok {",".intercalate (v.map toString)}"
        | .noSolution => "nosolution"
        | .timeout => "timeout"
        | .memoryLimit => "memory"
      let finishSolve (res : Option LimOut × List (List Int) × Bool) (useLast : Bool) : String :=
        if res.2.2 then "out-of-fuel" else
        match res.1 with
        | some lo =>
          if lo.fired then showRes (limErr lk)
          else match mkPost lo with
            | some k => showRes (limErr k)
            | none =>
              match (if useLast then lo.delivered.getLast? else lo.delivered.head?) with
              | some v => showRes (.ok v)
              | none => showRes .noSolution
        | none =>
          match (if useLast then res.2.1.getLast? else res.2.1.head?) with
          | some v => showRes (.ok v)
          | none => showRes .noSolution
      match call, r with
      | "solve", [] =>
        (st, finishSolve (searchL st.doms.size none pol fire true driverFuel st.props st.store) false)
      | "enum", [] =>
        let res := searchL st.doms.size none pol fire false driverFuel st.props st.store
        if res.2.2 then (st, "out-of-fuel") else
        let sols := match res.1 with | some lo => lo.delivered | none => res.2.1
        (st, s!"n={sols.length} sols={";".intercalate (sols.map (fun v => ",".intercalate (v.map toString)))}")
      | "min", _ | "max", _ =>
        match parseView r with
        | some (v, []) =>
          let obj := if call = "max" then IView.opp v else v
          (st, finishSolve (searchL st.doms.size (some obj) pol fire false driverFuel st.props st.store) true)
        | _ => (st, "bad-op")
      | _, _ => (st, "bad-op")
    | _, _, _ => (st, "bad-op")
  | _ => (st, "bad-op")

end Driver

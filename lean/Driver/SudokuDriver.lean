import Driver.Util
/-
(stub — to be filled in) ops with the prefix of this suite: model side.
-/
namespace Driver

structure SudokuSt where
  dummy : Unit := ()

def sudokuStep (st : SudokuSt) (_ws : List String) : SudokuSt × String := (st, "bad-op")

end Driver

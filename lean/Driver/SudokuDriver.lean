import Driver.Util
import SelenModel.Model.Sudoku
/-
`sd.*` ops: model side of the specialised Sudoku solver (`src/solvers/sudoku.rs`).
Every op carries its own grid (81 integers, row-major), so there is no per-case state.

  sd.cand   <81>              candidate masks after `SudokuSolver::new`
  sd.tech   <k> <81>          `apply_advanced_techniques` called k times: flag + events per call,
                              candidate masks afterwards
  sd.solve  <81>              all events recorded during `solve()` (posted singles, kinds 0-3, and
                              naked-pair removals, kinds 4-6) in program order
  sd.verify <81>              `SudokuSolver::verify_solution`
  sd.result <81> <st> none|<81>  the answer of `solve()`, given what the general solver answered
                              inside it (st: 0 Ok, 1 NoSolution, 2 Timeout, 3 MemoryLimit,
                              4 ConflictingConstraints, 5 other error): is it a member of / consistent with the solutions of
                              (27 alldiff ∧ domains ∧ posted singles)?
-/
namespace Driver
open Selen Selen.Sudoku

structure SudokuSt where
  dummy : Unit := ()

def sdMask (l : List Int) : Nat := l.foldl (fun m d => m + 2 ^ (d - 1).toNat) 0

def sdShowCands (cs : Cands) : String :=
  showNats ((List.range 81).map fun i => sdMask (cs (i / 9) (i % 9)))

def sdShowEv (e : Ev) : String := s!"{e.kind}:{e.row}:{e.col}:{e.digit}"

def sdShowEvs (l : List Ev) : String := "[" ++ ",".intercalate (l.map sdShowEv) ++ "]"

def sdGrid (ws : List String) : Option (Array Int) :=
  match parseInts ws with
  | some l => if l.length = 81 then some l.toArray else none
  | none => none

def sdTech (g : Grid) : Nat → Table → String → String
  | 0, t, acc => acc ++ "cands=" ++ sdShowCands t.get
  | k + 1, t, acc =>
    let r := applyAdvanced g t.get
    sdTech g k (table r.2.2) (acc ++ s!"p={showBool r.1} ev={sdShowEvs r.2.1} | ")

def sdSearchFuel : Nat := 2000000

def sudokuStep (st : SudokuSt) (ws : List String) : SudokuSt × String :=
  match ws with
  | "sd.cand" :: rest =>
    match sdGrid rest with
    | some a =>
      match Sudoku.new (Grid.ofArray a) with
      | some t => (st, "cands=" ++ sdShowCands t.get)
      | none => (st, "panic")
    | none => (st, "bad-op")
  | "sd.tech" :: k :: rest =>
    match k.toNat?, sdGrid rest with
    | some k, some a =>
      match Sudoku.new (Grid.ofArray a) with
      | some t => (st, sdTech (Grid.ofArray a) k t "")
      | none => (st, "panic")
    | _, _ => (st, "bad-op")
  | "sd.solve" :: rest =>
    match sdGrid rest with
    | some a =>
      match solveEvents (Grid.ofArray a) with
      | some evs => (st, s!"n={evs.length} posted={(posted evs).length} ev={sdShowEvs evs}")
      | none => (st, "panic")
    | none => (st, "bad-op")
  | "sd.verify" :: rest =>
    match sdGrid rest with
    | some a => (st, "v=" ++ showBool (verifySolution (Grid.ofArray a)))
    | none => (st, "bad-op")
  | "sd.result" :: rest =>
    match sdGrid (rest.take 81) with
    | some a =>
      let g := Grid.ofArray a
      match solvePosted g with
      | none => (st, "panic")
      | some post =>
        match rest.drop 81 with
        | [status, "none"] =>
          -- the general solver answered `Err`: which one decides what the model expects
          let ans : Option GenAnswer :=
            if status = "1" then some .noSolution else if status = "2" then some .timeout
            else if status = "3" then some .memoryLimit else if status = "4" then some .conflicting
            else if status = "5" then some .otherErr else none
          let unsatClaim := status = "1" || status = "4"
          match ans with
          | none => (st, "bad-op")
          | some x =>
            match solveResult x with
            | some _ => (st, "bad-op")
            | none =>
              if unsatClaim then
                -- "unsatisfiable" must be true of (domains ∧ 27 alldiff ∧ posted) = of the clues
                match search a sdSearchFuel with
                | .nosol => (st, s!"res=none why={status}")
                | .found _ => (st, "res=some")
                | .fuel => (st, "res=?fuel")
              else (st, s!"res=none why={status}")
        | "0" :: more =>
          match sdGrid more with
          | some s =>
            let sg := Grid.ofArray s
            match solveResult (.ok sg) with
            | some r =>
              (st, s!"res=some member={showBool (solPosted g post r)} valid={showBool (verifySolution r && agrees g r)}")
            | none => (st, "bad-op")
          | none => (st, "bad-op")
        | _ => (st, "bad-op")
    | none => (st, "bad-op")
  | _ => (st, "bad-op")

end Driver

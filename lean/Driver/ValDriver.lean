import SelenModel.Model.Validate
import Driver.Util
/-
`vd.alldiff <dom> | <dom> | …` — the verdict of `ModelValidator::validate_alldiff_constraints` for one
all-different constraint over the listed variables; `<dom>` is `f` (a float variable) or the values
of an integer variable.  Model: `Selen.Determ.adScan`.
-/
namespace Driver
open Selen Selen.Determ

def parseAdDoms (ws : List String) : Option (List (Option (List Int))) :=
  let groups := (ws.foldl (fun (acc : List (List String)) w =>
    if w = "|" then [] :: acc else
      match acc with
      | g :: rest => (g ++ [w]) :: rest
      | [] => [[w]]) [[]]).reverse
  groups.mapM (fun g =>
    if g = ["f"] then some none
    else (g.mapM String.toInt?).map some)

def valStep (ws : List String) : String :=
  match ws with
  | "vd.alldiff" :: rest =>
    match parseAdDoms rest with
    | none => "bad-op"
    | some ds =>
      if ds.length ≤ 1 then "ok"
      else match adScan ds.length ds [] [] with
        | .ok => "ok"
        | .dupFixed v => s!"conflict dup {v}"
        | .tooFew n k => s!"conflict few {n} {k}"
  | _ => "bad-op"

end Driver

import Driver.Util
/-
(stub — to be filled in) ops with the prefix of this suite: model side.
-/
namespace Driver

structure LpSt where
  dummy : Unit := ()

def lpStep (st : LpSt) (_ws : List String) : LpSt × String := (st, "bad-op")

end Driver

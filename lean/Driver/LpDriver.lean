import SelenModel.Model.Lp
import SelenModel.Model.Simplex
import Driver.Util
/-
`lp.*` ops of the line protocol: model side (certificate checking).

  lp.prob <first|next> nv=<n> nc=<m> c=<f,..> a=<row;row;..> b=<f,..> lo=<f,..> up=<f,..> ftol=<f> otol=<f>
      -> validate=<ok|ErrName[:i]> std=<rows>x<cols> guard=<0|1> dual=<0|1>
  lp.trace maxit=<n>
      -> <phase>:<basic,..> ... => <Optimal|Unbounded|IterationLimit|Err:SingularBasis|Err:NumericalInstability|Err:model>
         (the basis sequence of `Selen.Lp.solvePrimal`: 0 = slack basis tested by phase_one, 1 = Phase I
          iteration, 2 = Phase II iteration)
  lp.sol <cold|synth|warm-self|warm-prev> st=<status> obj=<f> x=<f,..> basis=<i,..>
      -> reach=<0|1> <legal|illegal:why|n/a> xdev=<ok|bad|-> obj=<ok|bad|-> objcx=<ok|bad|->     (Ok statuses)
      -> err                                                                                  (Err / panic)

Every `<f>` is an IEEE-754 binary64 bit pattern in decimal.  The terminal state (x_B, y) is
RECOMPUTED here from the returned basis by exact Gauss-Jordan elimination (untrusted), then judged
by the verified checker `Selen.Lp.legalOptimal` with the configured tolerances.
-/
namespace Driver
open Selen Selen.Lp

structure LpSt where
  prob : Option Problem := none
  ftol : Rat := 0
  otol : Rat := 0

/-! ### parsing -/

def lpField (ws : List String) (key : String) : Option String :=
  match ws.find? (fun w => w.startsWith (key ++ "=")) with
  | some w => some ((w.drop (key.length + 1)).toString)
  | none => none

def lpSplit (s : String) (sep : String) : List String :=
  if s.isEmpty then [] else s.splitOn sep

def lpF64s (s : String) : Option (List F64) :=
  (lpSplit s ",").mapM (fun t => t.toNat?.map f64OfBits)

def lpNats (s : String) : Option (List Nat) :=
  (lpSplit s ",").mapM (fun t => t.toNat?)

/-- rows are terminated by `;` -/
def lpRows (s : String) : Option (List (List F64)) :=
  let parts := s.splitOn ";"
  (parts.dropLast).mapM lpF64s

def allFin (l : List F64) : Option Vec :=
  l.mapM (fun v => match v with | .fin q => some q | _ => none)

def upOf (l : List F64) : Option (List (Option Rat)) :=
  l.mapM (fun v => match v with | .fin q => some (some q) | .pinf => some none | _ => none)

def showValidate : Option ValidateErr → String
  | none => "ok"
  | some .objectiveDim => "ObjectiveDimensionMismatch"
  | some .constraintCount => "ConstraintCountMismatch"
  | some (.rowDim i) => s!"ConstraintRowDimensionMismatch:{i}"
  | some .rhsDim => "RhsDimensionMismatch"
  | some .lowerDim => "LowerBoundsDimensionMismatch"
  | some .upperDim => "UpperBoundsDimensionMismatch"
  | some (.bounds i) => s!"InvalidVariableBounds:{i}"
  | some .objectiveNotFinite => "ObjectiveNotFinite"
  | some .matrixNotFinite => "ConstraintMatrixNotFinite"
  | some .rhsNotFinite => "RhsNotFinite"

/-! ### exact linear algebra (untrusted: its results are re-checked by `legalOptimal`) -/

def transposeCols (cols : List Vec) (m : Nat) : Mat :=
  (List.range m).map (fun i => cols.map (fun c => c.getD i 0))

def setAt (v : Vec) (i : Nat) (x : Rat) : Vec := v.set i x

def absR (q : Rat) : Rat := if q < 0 then -q else q

/-! ### verdicts -/

/-- legality verdict and the exact full solution `z` (when it could be computed) -/
def judge (S : Std) (ftol otol : Rat) (basis : List Nat) : String × Option Vec :=
  let m := S.a.length
  let n := S.c.length
  if !(basisOk m n basis) then ("illegal:shape", none)
  else
    let cols := basis.map (colOf S.a)
    let B := transposeCols cols m
    match solveSquare B S.b, solveSquare cols (basis.map (fun j => S.c.getD j 0)) with
    | some xB, some y =>
      let z := (List.zip basis xB).foldl (fun acc (p : Nat × Rat) => setAt acc p.1 p.2) (zeros n)
      -- the verified checker is the arbiter; the rest only names the first failing condition
      if legalOptimal S ftol otol basis z y then ("legal", some z)
      else if xB.any (fun v => decide (v < -ftol)) then ("illegal:primal", some z)
      else
        let r := redCosts S y
        let badDual := (List.range n).any (fun j => !(basis.contains j) && decide (otol < r.getD j 0))
        if badDual then ("illegal:dual", some z) else ("illegal:checker", some z)
    | _, _ => ("illegal:singular", none)

def okBad (b : Bool) : String := if b then "ok" else "bad"

def closeVec (tol : Rat) : List F64 → Vec → Bool
  | .fin a :: as, e :: es => decide (absR (a - e) ≤ tol) && closeVec tol as es
  | [], [] => true
  | _, _ => false

def sumAbs (v : Vec) : Rat := v.foldl (fun acc a => acc + absR a) 0

def statusOfString : String → Option Status
  | "Optimal" => some .optimal
  | "Infeasible" => some .infeasible
  | "Unbounded" => some .unbounded
  | "IterationLimit" => some .iterationLimit
  | "NumericalError" => some .numericalError
  | _ => none

def lpProb (st : LpSt) (ws : List String) : LpSt × String :=
  let r : Option (LpSt × String) := do
    let nv ← (← lpField ws "nv").toNat?
    let nc ← (← lpField ws "nc").toNat?
    let c ← lpF64s (← lpField ws "c")
    let a ← lpRows (← lpField ws "a")
    let b ← lpF64s (← lpField ws "b")
    let lo ← lpF64s (← lpField ws "lo")
    let up ← lpF64s (← lpField ws "up")
    let ftol ← f64ToRat (← (← lpField ws "ftol").toNat?)
    let otol ← f64ToRat (← (← lpField ws "otol").toNat?)
    let v := validate { nVars := nv, nCons := nc, c := c, a := a, b := b, lo := lo, up := up }
    let none' : LpSt × String := ({ prob := none, ftol := ftol, otol := otol }, s!"validate={showValidate v} std=- guard=- dual=-")
    match v with
    | some _ => pure none'
    | none =>
      match allFin c, a.mapM allFin, allFin b, allFin lo, upOf up with
      | some c, some a, some b, some lo, some up =>
        let P : Problem := { c := c, a := a, b := b, lo := lo, up := up }
        let S := toStd P
        pure ({ prob := some P, ftol := ftol, otol := otol },
          s!"validate=ok std={S.a.length}x{S.c.length} guard={showBool (noPhaseOne ftol P)} dual={showBool (dualFormGuard P)}")
      | _, _, _, _, _ => pure none'
  match r with
  | some x => x
  | none => (st, "bad-op")

def lpSol (st : LpSt) (path : String) (ws : List String) : LpSt × String :=
  let r : Option String := do
    let stS ← lpField ws "st"
    match statusOfString stS with
    | none => pure "err"
    | some status =>
      let reach := showBool status.reachable
      if status ≠ .optimal then pure s!"reach={reach} n/a"
      else if st.prob.isNone then pure s!"reach={reach} unmodelled"
      else
        let P ← st.prob
        let obj := f64OfBits (← (← lpField ws "obj").toNat?)
        let x ← lpF64s (← lpField ws "x")
        let basis ← lpNats (← lpField ws "basis")
        let cold := path == "cold" || path == "synth"
        let S := if cold then toStd P else toDualStd P
        let (verdict, z?) := judge S st.ftol st.otol basis
        let objtol := st.ftol * (1 + sumAbs P.c)
        let objcx :=
          match obj, allFin x with
          | .fin o, some xs => if xs.length = P.c.length then okBad (decide (absR (o - dot P.c xs) ≤ objtol)) else "bad"
          | _, _ => "bad"
        match z? with
        | none => pure s!"reach={reach} {verdict} xdev=- obj=- objcx={objcx}"
        | some z =>
          let xe := if cold then backX P z else z.take P.c.length
          let oe := if cold then backObj P z else dot S.c z
          let xdev := okBad (closeVec st.ftol x xe)
          let objv := match obj with
            | .fin o => okBad (decide (absR (o - oe) ≤ objtol))
            | _ => "bad"
          pure s!"reach={reach} {verdict} xdev={xdev} obj={objv} objcx={objcx}"
  match r with
  | some s => (st, s)
  | none => (st, "bad-op")

def showOutcome : Outcome → String
  | .optimal => "Optimal"
  | .unbounded => "Unbounded"
  | .iterationLimit => "IterationLimit"
  | .errSingular => "Err:SingularBasis"
  | .errInstability => "Err:NumericalInstability"
  | .errModel => "Err:model"

def showEvent (e : Event) : String := s!"{e.1}:" ++ ",".intercalate (e.2.map toString)

def lpTrace (st : LpSt) (ws : List String) : LpSt × String :=
  match st.prob, (lpField ws "maxit").bind (·.toNat?) with
  | some P, some maxit =>
    let (tr, o, _) := solvePrimal P st.ftol st.otol maxit
    (st, " ".intercalate (tr.map showEvent) ++ " => " ++ showOutcome o)
  | _, _ => (st, "bad-op")

def lpStep (st : LpSt) (ws : List String) : LpSt × String :=
  match ws with
  | "lp.trace" :: rest => lpTrace st rest
  | "lp.prob" :: _ :: rest => lpProb st rest
  | "lp.sol" :: path :: rest =>
    if path == "cold" || path == "synth" || path == "warm-self" || path == "warm-prev" then lpSol st path rest
    else (st, "bad-op")
  | _ => (st, "bad-op")

end Driver

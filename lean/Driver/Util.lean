/-
Parsing / printing helpers shared by the driver modules.
-/
namespace Driver

def parseInt? (s : String) : Option Int :=
  if s.startsWith "-" then
    match (s.drop 1).toNat? with
    | some n => some (-(n : Int))
    | none => none
  else
    match s.toNat? with
    | some n => some (n : Int)
    | none => none

def parseInts (ws : List String) : Option (List Int) :=
  ws.mapM parseInt?

def showInts (l : List Int) : String :=
  "[" ++ ",".intercalate (l.map toString) ++ "]"

def showNats (l : List Nat) : String :=
  "[" ++ ",".intercalate (l.map toString) ++ "]"

def showBool (b : Bool) : String := if b then "1" else "0"

def showOptInt : Option Int → String
  | none => "-"
  | some v => toString v

def words (line : String) : List String :=
  (line.trimAscii.toString.splitOn " ").filter (· ≠ "")

end Driver

import SelenModel.Model.FloatCore
import SelenModel.Model.FloatEngine
import Driver.Util
/-
`fl.*` ops of the line protocol: model side (float intervals, float/int store, float views and
float propagators), everything evaluated at the `Float` instance of `Num`.

Floats travel as the DECIMAL value of their 64-bit pattern (`nan` for any NaN: payloads are not
compared).  A model `none` where the Rust code would panic is printed as `panic`.
-/
namespace Driver
open Selen

structure FloatSt where
  fi : FI Float := { min := 0.0, max := 0.0, step := 1.0 }
  vars : Array (FVar Float) := #[]
  /-- propagators posted by `fl.post` (engine-level cases) -/
  posts : Array (FPK Float) := #[]

def showF (x : Float) : String := if x.isNaN then "nan" else toString x.toBits.toNat

def parseF? (s : String) : Option Float :=
  if s = "nan" then some FloatImpl.nan else s.toNat?.map (fun n => Float.ofBits n.toUInt64)

def showFI (iv : FI Float) : String := s!"fi {showF iv.min} {showF iv.max} {showF iv.step}"

def showVal : FVal Float → String
  | .i v => s!"i:{v}"
  | .f v => s!"f:{showF v}"

def sortIntsF (l : List Int) : List Int := (l.toArray.qsort (· < ·)).toList

def showVar : FVar Float → String
  | .flt iv => s!"f:{showF iv.min}:{showF iv.max}:{showF iv.step}"
  | .int d => "i:" ++ showInts (sortIntsF d)

def FloatSt.store (s : FloatSt) : FStore Float := fun i => s.vars.getD i (.int [0])
def FloatSt.ctx (s : FloatSt) : FCtx Float := { st := s.store, ev := [] }
def FloatSt.absorb (s : FloatSt) (c : FCtx Float) : FloatSt :=
  { s with vars := (Array.range s.vars.size).map (fun i => c.st i) }

def showStore (n : Nat) (st : FStore Float) : String :=
  "|".intercalate ((List.range n).map (fun i => showVar (st i)))

def parseVal : List String → Option (FVal Float × List String)
  | "i" :: k :: r => (parseInt? k).map (fun k => (.i k, r))
  | "f" :: b :: r => (parseF? b).map (fun x => (.f x, r))
  | _ => none

/-- `c VAL | v k | opp V | plus VAL V | tpos VAL V | times VAL V | tneg VAL V | next V | prev V` -/
partial def parseFView : List String → Option (FView Float × List String)
  | "c" :: r => (parseVal r).map (fun (k, r) => (.const k, r))
  | "v" :: i :: r => i.toNat?.map (fun i => (.var i, r))
  | "opp" :: r => (parseFView r).map (fun (v, r) => (.opp v, r))
  | "next" :: r => (parseFView r).map (fun (v, r) => (.next v, r))
  | "prev" :: r => (parseFView r).map (fun (v, r) => (.prev v, r))
  | "plus" :: r => do let (k, r) ← parseVal r; let (v, r) ← parseFView r; pure (.plus v k, r)
  | "tpos" :: r => do let (k, r) ← parseVal r; let (v, r) ← parseFView r; pure (.tpos v k, r)
  | "times" :: r => do let (k, r) ← parseVal r; let (v, r) ← parseFView r; pure (FView.times v k, r)
  | "tneg" :: r => do let (k, r) ← parseVal r; let (v, r) ← parseFView r; pure (FView.timesNeg v k, r)
  | _ => none

def takeFloats (n : Nat) (ws : List String) : Option (List Float × List String) :=
  if ws.length < n then none else
    match (ws.take n).mapM parseF? with
    | some l => some (l, ws.drop n)
    | none => none

def takeNatsF (n : Nat) (ws : List String) : Option (List Nat × List String) :=
  if ws.length < n then none else
    match (ws.take n).mapM (·.toNat?) with
    | some l => some (l, ws.drop n)
    | none => none

def parseFPK (ws : List String) : Option (FPK Float) :=
  match ws with
  | "leq" :: r => do let (x, r) ← parseFView r; let (y, _) ← parseFView r; pure (.leq x y)
  | "eq" :: r => do let (x, r) ← parseFView r; let (y, _) ← parseFView r; pure (.eq x y)
  | "lt" :: r => do let (x, r) ← parseFView r; let (y, _) ← parseFView r; pure (FPK.lessThan x y)
  | kind :: n :: r =>
    if kind ∈ ["lineq", "linle", "linne", "lineqr", "linler", "linner"] then do
      let n ← n.toNat?
      let (cs, r) ← takeFloats n r
      let (xs, r) ← takeNatsF n r
      let ([c], r) ← takeFloats 1 r | none
      match kind with
      | "lineq" => pure (.linEq cs xs c)
      | "linle" => pure (.linLe cs xs c)
      | "linne" => pure (.linNe cs xs c)
      | _ => do
        let ([b], _) ← takeNatsF 1 r | none
        match kind with
        | "lineqr" => pure (.linEqReif cs xs c b)
        | "linler" => pure (.linLeReif cs xs c b)
        | _ => pure (.linNeReif cs xs c b)
    else none
  | _ => none

def showEv (l : List Nat) : String := "ev=" ++ showNats l

def optF : Option Float → String
  | none => "panic"
  | some x => showF x

/-- the arithmetic self-test: a fixed list of expressions, printed as bit patterns -/
def selftest : String :=
  let f (b : Nat) : Float := Float.ofBits b.toUInt64
  let a : Float := f 4591870180066957722   -- 0.1
  let b : Float := f 4596373779694328218   -- 0.2
  let c : Float := f 4599075939470750515   -- 0.3
  let big : Float := f 4845873199050653696 -- 2^60
  let nan := FloatImpl.nan
  let inf : Float := f 9218868437227405312
  let xs : List Float := [
    a + b, a * b, a / c, a - c, (a * b) + c, (a * c) - b, a * a + a * a,
    Float.floor 2.5, Float.floor (-2.5), Float.ceil 2.5, Float.ceil (-2.5),
    Float.round 2.5, Float.round (-2.5), Float.round 0.5, Float.round (-0.5), Float.round 1.5,
    Float.round (f 4602678819172646911), Float.round (f 4841369599423283200),
    Float.abs (-0.0), Float.abs (-a), -(0.0 : Float),
    Num.fmax a nan, Num.fmax nan a, Num.fmin a nan, Num.fmin nan b, Num.fmax a b, Num.fmin a b,
    Num.ulp (1.0 : Float), Num.ulp (0.0 : Float), Num.ulp (-1.0 : Float), Num.ulp big, Num.ulp a, Num.ulp inf,
    Num.nextFloat (1.0 : Float), Num.nextFloat (0.0 : Float), Num.nextFloat (-0.0 : Float), Num.nextFloat (-1.0 : Float), Num.nextFloat (-inf),
    Num.prevFloat (1.0 : Float), Num.prevFloat (0.0 : Float), Num.prevFloat (-0.0 : Float), Num.prevFloat (-1.0 : Float), Num.prevFloat inf,
    Num.e4, Num.e5, Num.e6, Num.e9, Num.e12, Num.tiny20, Num.tiny30,
    (Num.ofInt 1 : Float) / Num.ofInt 32, (Num.ofInt 1 : Float) / Num.ofInt 1024, (Num.ofInt 1 : Float) / Num.ofInt 2048,
    Num.ofInt (-2147483648), Num.ofInt 2147483647, Num.three * a, a / Num.two,
    Float.ceil (a / Num.e6) * Num.e6, Float.floor (c / Num.e6) * Num.e6, Float.abs (f 4636737291354636288) * Num.e5,
    big / 512.0, inf - inf, (0.0 : Float) / 0.0 ]
  let is : List Int := [
    Num.toI32 (2.7 : Float), Num.toI32 (-2.7 : Float), Num.toI32 (1e30 : Float), Num.toI32 (-1e30 : Float),
    Num.toI32 nan, Num.toI32 inf, Num.toI32 (-inf), Num.toI32 (2147483647.5 : Float), Num.toI32 (-0.0 : Float) ]
  let us : List Nat := [
    Num.toUsize (2.7 : Float), Num.toUsize (-2.7 : Float), Num.toUsize (1e30 : Float), Num.toUsize nan,
    Num.toUsize inf, Num.toUsize (-inf), Num.toUsize (1e15 : Float) ]
  let bs : List Bool := [
    Num.lt a nan, Num.le nan nan, Num.feq (0.0 : Float) (-0.0), Num.feq nan nan, Num.gt inf big, Num.isInf inf,
    Num.isInf (-inf), Num.isInf nan, Num.isFinite nan, Num.isFinite big, Num.isNaN nan, Num.isNaN inf ]
  " ".intercalate (xs.map showF) ++ " | " ++ " ".intercalate (is.map toString) ++ " | " ++
    " ".intercalate (us.map toString) ++ " | " ++ " ".intercalate (bs.map showBool)

def floatStep (st : FloatSt) (ws : List String) : FloatSt × String :=
  match ws with
  | ["fl.selftest"] => (st, selftest)
  | "fl.witness" :: _ => (st, "ok")
  | ["fl.fi.new", lo, hi] =>
    match parseF? lo, parseF? hi with
    | some lo, some hi => let iv := FI.new lo hi; ({ st with fi := iv }, showFI iv)
    | _, _ => (st, "bad-op")
  | ["fl.fi.step", lo, hi, s] =>
    match parseF? lo, parseF? hi, parseF? s with
    | some lo, some hi, some s => let iv := FI.withStep lo hi s; ({ st with fi := iv }, showFI iv)
    | _, _, _ => (st, "bad-op")
  | ["fl.fi.raw", lo, hi, s] =>
    match parseF? lo, parseF? hi, parseF? s with
    | some lo, some hi, some s => let iv : FI Float := { min := lo, max := hi, step := s }; ({ st with fi := iv }, showFI iv)
    | _, _, _ => (st, "bad-op")
  | ["fl.fi.isect", lo, hi, s] =>
    match parseF? lo, parseF? hi, parseF? s with
    | some lo, some hi, some s =>
      let o : FI Float := { min := lo, max := hi, step := s }
      (st, showFI (st.fi.intersect o) ++ " " ++ showBool (st.fi.intersects o))
    | _, _, _ => (st, "bad-op")
  | ["fl.fi.mid"] => (st, optF st.fi.mid)
  | ["fl.fi.q", "fixed"] => (st, showBool st.fi.isFixed)
  | ["fl.fi.q", "empty"] => (st, showBool st.fi.isEmpty)
  | ["fl.fi.q", "steps"] => (st, toString st.fi.stepCount)
  | ["fl.fi.q", "size"] => (st, showF st.fi.size)
  | ["fl.fi.q", "contains", x] =>
    match parseF? x with
    | some x => (st, showBool (st.fi.contains x))
    | none => (st, "bad-op")
  | ["fl.fi.next", x] => match parseF? x with | some x => (st, showF (st.fi.next x)) | none => (st, "bad-op")
  | ["fl.fi.prev", x] => match parseF? x with | some x => (st, showF (st.fi.prev x)) | none => (st, "bad-op")
  | ["fl.fi.round", x] => match parseF? x with | some x => (st, optF (st.fi.roundToStep x)) | none => (st, "bad-op")
  | ["fl.fi.floor", x] => match parseF? x with | some x => (st, optF (st.fi.floorToStep x)) | none => (st, "bad-op")
  | ["fl.fi.ceil", x] => match parseF? x with | some x => (st, optF (st.fi.ceilToStep x)) | none => (st, "bad-op")
  | ["fl.fi.below", x] =>
    match parseF? x with
    | some x => match st.fi.removeBelow x with
      | some iv => ({ st with fi := iv }, showFI iv)
      | none => (st, "panic")
    | none => (st, "bad-op")
  | ["fl.fi.above", x] =>
    match parseF? x with
    | some x => match st.fi.removeAbove x with
      | some iv => ({ st with fi := iv }, showFI iv)
      | none => (st, "panic")
    | none => (st, "bad-op")
  | ["fl.fi.assign", x] =>
    match parseF? x with
    | some x => match st.fi.assign x with
      | some iv => ({ st with fi := iv }, showFI iv)
      | none => (st, "panic")
    | none => (st, "bad-op")
  | ["fl.var", "f", lo, hi, s] =>
    match parseF? lo, parseF? hi, parseF? s with
    | some lo, some hi, some s =>
      ({ st with vars := st.vars.push (.flt { min := lo, max := hi, step := s }) }, s!"var {st.vars.size}")
    | _, _, _ => (st, "bad-op")
  | "fl.var" :: "i" :: vs =>
    match parseInts vs with
    | some l => ({ st with vars := st.vars.push (.int l) }, s!"var {st.vars.size}")
    | none => (st, "bad-op")
  | "fl.view.mm" :: r =>
    match parseFView r with
    | some (v, _) =>
      (st, s!"min={showVal (v.minRaw st.store)} max={showVal (v.maxRaw st.store)} float={showBool (v.isFloat st.store)}")
    | none => (st, "bad-op")
  | "fl.ctx.min" :: r =>
    match parseFView r with
    | some (v, r) =>
      match parseVal r with
      | some (m, _) =>
        match v.trySetMin m st.ctx with
        | none => (st, "none")
        | some (c, ret) => (st.absorb c, s!"some ret={showVal ret} {showStore st.vars.size c.st} {showEv c.ev}")
      | none => (st, "bad-op")
    | none => (st, "bad-op")
  | "fl.ctx.max" :: r =>
    match parseFView r with
    | some (v, r) =>
      match parseVal r with
      | some (m, _) =>
        match v.trySetMax m st.ctx with
        | none => (st, "none")
        | some (c, ret) => (st.absorb c, s!"some ret={showVal ret} {showStore st.vars.size c.st} {showEv c.ev}")
      | none => (st, "bad-op")
    | none => (st, "bad-op")
  | "fl.prune" :: r =>
    match parseFPK r with
    | some k =>
      match k.prune st.ctx with
      | none => (st, "none")
      | some c => (st.absorb c, s!"some {showStore st.vars.size c.st} {showEv c.ev}")
    | none => (st, "bad-op")
  | "fl.post" :: r =>
    match parseFPK r with
    | some k => ({ st with posts := st.posts.push k }, s!"p{st.posts.size}")
    | none => (st, "bad-op")
  | "fl.solve" :: seed :: fuel :: rest =>
    match parseInt? seed, fuel.toNat? with
    | some seed, some fuel =>
      let pf := match rest with | [p] => p.toNat?.getD 10000000 | _ => 10000000
      let pol := if seed < 0 then Policy.fifo else Policy.seeded seed.toNat
      let n := st.vars.size
      match fsolve n pol pf fuel st.posts.toList st.store with
      | .sol s pc nc =>
        (st, s!"sol pc={pc} nc={nc} v={",".intercalate ((fsolOf n s).map showVal)} st={showStore n s}")
      | .nosol => (st, "nosol")
      | .fuel => (st, "diverge")
      | .pfuel => (st, "pfuel")
      | .panic => (st, "panic")
    | _, _ => (st, "bad-op")
  | _ => (st, "bad-op")

end Driver

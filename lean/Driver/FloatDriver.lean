import Driver.Util
/-
(stub — to be filled in) ops with the prefix of this suite: model side.
-/
namespace Driver

structure FloatSt where
  dummy : Unit := ()

def floatStep (st : FloatSt) (_ws : List String) : FloatSt × String := (st, "bad-op")

end Driver

import SelenModel.Model.Safety
import Driver.CoreDriver
/-
`mal.*` ops of the line protocol (C17): model side.

* `mal.v <scenario> <call>`          — the validation decision table (`Safety.outcome`)
* `mal.ss <op> …`                    — `SparseSet` calls: `panic` iff a site of `Safety.SSS` fails
* `mal.view <lo> <hi> <op> <m> <view>` — integer views over one variable with domain `[lo,hi]`
* `mal.lin <rel> <k> <nc> c* <nv> (lo hi)*` — one run of an integer linear propagator
-/
namespace Driver
open Selen Selen.Safety

structure MalSt where
  ss : SS := SS.empty 0
  dead : Bool := false

/-! helpers live in their own namespace: other driver files define similarly named functions -/
namespace Mal

def parseBool? : String → Option Bool
  | "0" => some false
  | "1" => some true
  | _ => none

def parseScenario : List String → Option (Scenario × List String)
  | "bounds" :: a :: b :: r => do pure (.bounds (← parseInt? a) (← parseInt? b), r)
  | "boundseq" :: a :: b :: r => do pure (.boundsEq (← parseInt? a) (← parseInt? b), r)
  | "boundsuse" :: a :: b :: r => do pure (.boundsUse (← parseInt? a) (← parseInt? b), r)
  | "ints" :: n :: a :: b :: r => do pure (.ints (← n.toNat?) (← parseInt? a) (← parseInt? b), r)
  | "minmax" :: m :: n :: rt :: r => do pure (.minMax (← parseBool? m) (← n.toNat?) (← rt.toNat?), r)
  | "linlen" :: nc :: nv :: rel :: reif :: r => do
    pure (.linLen (← nc.toNat?) (← nv.toNat?) (← rel.toNat?) (← parseBool? reif), r)
  | "zerodiv" :: a :: b :: o :: rt :: r => do
    pure (.zeroDiv (← parseInt? a) (← parseInt? b) (← o.toNat?) (← rt.toNat?), r)
  | "elem" :: n :: a :: b :: rt :: r => do
    pure (.elem (← n.toNat?) (← parseInt? a) (← parseInt? b) (← rt.toNat?), r)
  | "mem" :: l :: a :: b :: p :: f :: r => do
    pure (.mem (← l.toNat?) (← parseInt? a) (← parseInt? b) (← parseBool? p) (← parseBool? f), r)
  | "tablearity" :: nv :: rl :: r => do pure (.tableArity (← nv.toNat?) (← rl.toNat?), r)
  | "alldiffdup" :: d :: r => do pure (.allDiffDup (← parseBool? d), r)
  | "alldiff" :: r =>
    -- `alldiff <dom> | <dom> | … <call>`; `<dom>` = `f` or integer values
    match r.reverse with
    | call :: rest =>
      let groups := ((rest.reverse).foldl (fun (acc : List (List String)) w =>
        if w = "|" then [] :: acc else
          match acc with
          | g :: tl => (g ++ [w]) :: tl
          | [] => [[w]]) [[]]).reverse
      (groups.mapM (fun g => if g = ["f"] then some none else (parseInts g).map some)).map
        (fun ds => (Scenario.allDiff ds, [call]))
    | [] => none
  | "set" :: r =>
    -- the values run up to the call name (last word)
    match r.reverse with
    | call :: vs => do pure (.set (← parseInts vs.reverse), [call])
    | [] => none
  | _ => none

def isIterCall : String → Option Bool
  | "solve" | "min" | "max" => some false
  | "enum" | "miniter" | "maxiter" => some true
  | _ => none

def showSSm (s : SS) : String :=
  s!"size={s.size} vals={showInts s.toList}"

/-- run a mutating op: `panic` (and the case is over) iff a site fails -/
def ssMut (st : MalSt) (sites : List Site) (s' : SS) : MalSt × String :=
  if safe sites then ({ st with ss := s' }, "ok " ++ showSSm s') else ({ st with dead := true }, "panic")

def ssQ (st : MalSt) (sites : List Site) (res : String) : MalSt × String :=
  if safe sites then (st, "ok " ++ res) else ({ st with dead := true }, "panic")

/-- build the operand of a binary op first (its construction may already panic) -/
def withOperand (st : MalSt) (l : List Int) (k : SS → MalSt × String) : MalSt × String :=
  if safe (SSS.newFromValues l) then k (SS.newFromValues l) else ({ st with dead := true }, "panic")

def ssStepM (st : MalSt) (ws : List String) : MalSt × String :=
  if st.dead then (st, "dead") else
  let s := st.ss
  match ws with
  | ["new", a, b] =>
    match parseInt? a, parseInt? b with
    | some lo, some hi => ssMut st (SSS.new lo hi) (SS.new lo hi)
    | _, _ => (st, "bad-op")
  | ["unchecked", a, b] =>
    match parseInt? a, parseInt? b with
    | some lo, some hi => ssMut st (SSS.newUnchecked lo hi) (SS.newUnchecked lo hi)
    | _, _ => (st, "bad-op")
  | "values" :: vs =>
    match parseInts vs with
    | some l => withOperand st l (fun o => ssMut st [] o)
    | none => (st, "bad-op")
  | ["contains", a] =>
    match parseInt? a with
    | some v => ssQ st (SSS.contains s v) (showBool (s.contains v))
    | none => (st, "bad-op")
  | ["remove", a] =>
    match parseInt? a with
    | some v => ssMut st (SSS.remove s v) (s.remove' v)
    | none => (st, "bad-op")
  | ["below", a] =>
    match parseInt? a with
    | some v => ssMut st (SSS.removeBelow s v) (s.removeBelow v)
    | none => (st, "bad-op")
  | ["above", a] =>
    match parseInt? a with
    | some v => ssMut st (SSS.removeAbove s v) (s.removeAbove v)
    | none => (st, "bad-op")
  | ["only", a] =>
    match parseInt? a with
    | some v => ssMut st (SSS.removeAllBut s v) (s.removeAllBut v)
    | none => (st, "bad-op")
  | ["clear"] => ssMut st [] s.removeAll
  | ["min"] => ssQ st (SSS.min s) (toString s.minV)
  | ["max"] => ssQ st (SSS.max s) (toString s.maxV)
  | ["maxuniv"] => ssQ st (SSS.maxUniverse s) (toString s.maxUniverse)
  | ["first"] => ssQ st (SSS.first s) (showOptInt s.first)
  | ["last"] => ssQ st (SSS.last s) (showOptInt s.last)
  | ["iter"] => ssQ st (SSS.iter s) (showInts s.toList)
  | ["comp"] => ssQ st (SSS.complementIter s) (showInts s.complement)
  | ["restoresize", k] =>
    match k.toNat? with
    | some k => ssMut st (SSS.restoreSize s k) (s.restoreSize k)
    | none => (st, "bad-op")
  | "inter" :: vs =>
    match parseInts vs with
    | some l => withOperand st l (fun o => ssMut st (SSS.intersectWith s o) (s.intersectWith o))
    | none => (st, "bad-op")
  | "diff" :: vs =>
    match parseInts vs with
    | some l => withOperand st l (fun o => ssMut st (SSS.diffWith s o) (s.diffWith o))
    | none => (st, "bad-op")
  | "union" :: vs =>
    match parseInts vs with
    | some l => withOperand st l (fun o => ssMut st (SSS.unionWith s o) (s.unionWith o))
    | none => (st, "bad-op")
  | "subset" :: vs =>
    match parseInts vs with
    | some l => withOperand st l (fun o => ssQ st (SSS.isSubsetOf s o) (showBool (s.isSubsetOf o)))
    | none => (st, "bad-op")
  | "equals" :: vs =>
    match parseInts vs with
    | some l => withOperand st l (fun o => ssQ st (SSS.equals s o) (showBool (s.equals o)))
    | none => (st, "bad-op")
  | _ => (st, "bad-op")

def showBounds (d : Dom) : String := if d.isEmpty then "empty" else s!"{d.dmin}..{d.dmax}"

/-- sites of building the view (`Times::new`, `times_neg`) -/
def viewCtorSites : List String → List Site
  | "times" :: k :: r => (match parseInt? k with | some k => VS.timesCtor k | none => []) ++ viewCtorSites r
  | "tneg" :: k :: r => (match parseInt? k with | some k => VS.timesNegCtor k | none => []) ++ viewCtorSites r
  | _ :: r => viewCtorSites r
  | [] => []

def viewStep (ws : List String) : String :=
  match ws with
  | a :: b :: op :: m :: vw =>
    if !safe (viewCtorSites vw) then "panic" else
    match parseInt? a, parseInt? b, parseInt? m, parseView vw with
    | some lo, some hi, some m, some (v, []) =>
      let dom : Dom := SS.intRange lo (hi + 1)
      let st : Store := fun _ => dom
      let ctx : Ctx := { st := st }
      match op with
      | "min" => if safe (VS.minRaw st v) then s!"ok {v.minRaw st}" else "panic"
      | "max" => if safe (VS.maxRaw st v) then s!"ok {v.maxRaw st}" else "panic"
      | "setmin" =>
        if safe (VS.trySetMin v m ctx) then
          match v.trySetMin m ctx with
          | none => "ok none"
          | some c => "ok " ++ showBounds (c.st 0)
        else "panic"
      | "setmax" =>
        if safe (VS.trySetMax v m ctx) then
          match v.trySetMax m ctx with
          | none => "ok none"
          | some c => "ok " ++ showBounds (c.st 0)
        else "panic"
      | _ => "bad-op"
    | _, _, _, _ => "bad-op"
  | _ => "bad-op"

def takePairs : Nat → List Int → Option (List (Int × Int))
  | 0, [] => some []
  | n+1, a :: b :: r => (takePairs n r).map (fun l => (a, b) :: l)
  | _, _ => none

def linStep (ws : List String) : String :=
  match ws with
  | rel :: k :: nc :: r =>
    match parseInt? k, nc.toNat? with
    | some k, some nc =>
      match takeInts nc r with
      | some (cs, nv :: r2) =>
        match nv.toNat?, parseInts r2 with
        | some nv, some bs =>
          match takePairs nv bs with
          | some ps =>
            let doms : Array Dom := (ps.map (fun p => SS.intRange p.1 (p.2 + 1))).toArray
            let st : Store := fun i => doms.getD i [0]
            let ctx : Ctx := { st := st }
            let xs := List.range nv
            let show_ (o : Option Ctx) : String :=
              match o with
              | none => "ok none"
              | some c => "ok " ++ "|".intercalate (xs.map (fun i => showBounds (c.st i)))
            match rel with
            | "eq" => let r := LS.pruneEq cs xs k xs ctx; if safe r.1 then show_ r.2 else "panic"
            | "le" => let r := LS.pruneLe cs xs k xs ctx; if safe r.1 then show_ r.2 else "panic"
            | "ne" => let r := LS.pruneNe cs xs k ctx; if safe r.1 then show_ r.2 else "panic"
            | _ => "bad-op"
          | none => "bad-op"
        | _, _ => "bad-op"
      | _ => "bad-op"
    | _, _ => "bad-op"
  | _ => "bad-op"

end Mal

open Mal in
def malStep (st : MalSt) (ws : List String) : MalSt × String :=
  match ws with
  | "mal.v" :: r =>
    match parseScenario r with
    | some (sc, [call]) =>
      match isIterCall call with
      | some it => (st, render (outcome sc) it)
      | none => (st, "bad-op")
    | _ => (st, "bad-op")
  | "mal.ss" :: r => ssStepM st r
  | "mal.view" :: r => (st, viewStep r)
  | "mal.lin" :: r => (st, linStep r)
  | _ => (st, "bad-op")

end Driver

import Driver.Util
/-
(stub — to be filled in) ops with the prefix of this suite: model side.
-/
namespace Driver

structure GacSt where
  dummy : Unit := ()

def gacStep (st : GacSt) (_ws : List String) : GacSt × String := (st, "bad-op")

end Driver

import SelenModel.Model.Gac
import Driver.Util
/-
`gac.*` ops of the line protocol (property C19): model side.

  gac.b.*  BitSetGAC            gac.h.*  HybridGAC          gac.prune  AllDiff::prune on bounds
  gac.s.*  SparseSetGAC         gac.g.*  BipartiteGraph + Matching + SparseSetAllDiff

`gac.g.match` / `gac.g.prop` carry the iteration order of `graph.variables()` observed by the
harness.  `gac.s.prop … | <observed>` (the order is not observable from outside): the model
answers `member <observed>` iff SOME iteration order of the key set produces exactly the observed
outcome, and continues from that outcome.
-/
namespace Driver
open Selen Selen.Gac

structure GacSt where
  b : BG := BG.new
  s : SG := SG.new
  h : HG := HG.new
  g : Graph := Graph.new

def sortNat (l : List Nat) : List Nat := l.mergeSort (fun a b => decide (a ≤ b))

def parseNats (ws : List String) : Option (List Nat) := ws.mapM (fun w => w.toNat?)

def showOptPair : Option (Int × Int) → String
  | none => "-"
  | some (a, b) => s!"{a}..{b}"

def showBSD (x : Nat) (d : BSD) : String := s!"{x}:{d.lo}..{d.hi}/{d.usize}{showInts d.vals}"

def showBG (g : BG) : String :=
  s!"flag={showBool g.changed} " ++ " ".intercalate ((sortNat g.keys).map (fun x =>
    match g.dom x with
    | some d => showBSD x d
    | none => s!"{x}:?"))

/-- values present before and absent after, per variable -/
def removedList (keys : List Nat) (before after : Nat → List Int) : String :=
  "rm=[" ++ ",".intercalate ((sortNat keys).flatMap (fun x =>
    ((before x).filter (fun v => !(after x).contains v)).map (fun v => s!"{x}:{v}"))) ++ "]"

def sortInt (l : List Int) : List Int := l.mergeSort (fun a b => decide (a ≤ b))

def showSS1 (x : Nat) (d : SS) : String :=
  let mm := if d.isEmpty then "-" else s!"{d.minV}..{d.maxV}"
  s!"{x}:off={d.minUniverse},n={d.n},{showInts d.toList},mm={mm}"

def showSG (g : SG) : String :=
  " ".intercalate ((sortNat g.keys).map (fun x =>
    match g.dom x with
    | some d => showSS1 x d
    | none => s!"{x}:?"))

def hgKeys (g : HG) : List Nat := sortNat (g.b.keys ++ g.s.keys.filter (fun x => !g.b.keys.contains x))

def showHG (g : HG) : String :=
  s!"stats={g.b.keys.length},{g.s.keys.length} " ++ " ".intercalate ((hgKeys g).map (fun x =>
    s!"{x}:{showInts (g.getDomainValues x)},asg={showBool (g.isAssigned x)},val={showOptInt (g.assignedValue x)},inc={showBool (g.isInconsistent x)},bnd={showOptPair (g.getBounds x)}"))

def showGraph (g : Graph) : String :=
  " ".intercalate ((sortNat g.keys).map (fun x =>
    match g.vdom x with
    | some (.bits d) => s!"{x}:B{showInts d.toVec}"
    | some (.sparse s) => s!"{x}:S{showInts s.toList}"
    | none => s!"{x}:?")) ++ " ; " ++
  " ".intercalate ((sortInt (g.vvars.map (fun p => p.1))).map (fun v =>
    s!"{v}->{showNats ((g.vvars.lookup v).getD [])}"))

def showMatching (m : Matching) (g : Graph) : String :=
  let vs := sortNat (m.v2l.map (fun p => p.1))
  let ls := sortInt (m.l2v.map (fun p => p.1))
  "v2l=[" ++ ",".intercalate (vs.map (fun x => s!"{x}={showOptInt (m.v2l.lookup x)}")) ++ "] l2v=[" ++
  ",".intercalate (ls.map (fun v => s!"{v}={match m.l2v.lookup v with | some x => toString x | none => "-"}")) ++
  s!"] complete={showBool (m.isComplete g)}"

/-- all permutations -/
def insertEverywhere (x : Nat) : List Nat → List (List Nat)
  | [] => [[x]]
  | y :: ys => (x :: y :: ys) :: (insertEverywhere x ys).map (fun l => y :: l)

def perms : List Nat → List (List Nat)
  | [] => [[]]
  | x :: xs => (perms xs).flatMap (insertEverywhere x)

def showSparseOutcome (g0 : SG) (r : Option (SG × Bool × Bool)) : String :=
  match r with
  | none => "panic"
  | some (g, ch, ok) =>
    s!"ch={showBool ch} ok={showBool ok} {showSG g} " ++
      removedList g0.keys (fun x => g0.getDomainValues x) (fun x => g.getDomainValues x)

def splitBar (ws : List String) : List String × List String :=
  (ws.takeWhile (· ≠ "|"), (ws.dropWhile (· ≠ "|")).drop 1)

def bgProp (g : BG) (vars : List Nat) : BG × String :=
  let r := g.propagateAlldiff vars
  (r.1, s!"ch={showBool r.2.1} ok={showBool r.2.2} {showBG r.1} " ++
    removedList g.keys (fun x => g.getDomainValues x) (fun x => r.1.getDomainValues x))

def hgProp (g : HG) (vars : List Nat) : HG × String :=
  let r := g.propagateAlldiff vars
  (r.1, s!"ch={showBool r.2.1} ok={showBool r.2.2} {showHG r.1} " ++
    removedList (hgKeys g) (fun x => g.getDomainValues x) (fun x => r.1.getDomainValues x))

def showBounds (bs : List (Int × Int)) : String := " ".intercalate (bs.map (fun b => s!"{b.1}..{b.2}"))

def pairUp : List Int → Option (List (Int × Int))
  | [] => some []
  | [_] => none
  | a :: b :: rest => (pairUp rest).map (fun r => (a, b) :: r)

def gacStep (st : GacSt) (ws : List String) : GacSt × String :=
  match ws with
  -- ---------------------------------------------------------------- BitSetGAC
  | ["gac.b.new"] => ({ st with b := BG.new }, "ok")
  | ["gac.b.add", x, a, b] =>
    match x.toNat?, parseInt? a, parseInt? b with
    | some x, some lo, some hi =>
      if spanOverflows (if lo > hi then hi else lo) (if lo > hi then lo else hi) then (st, "panic")
      else let g := st.b.addVariable x lo hi; ({ st with b := g }, showBG g)
    | _, _, _ => (st, "bad-op")
  | "gac.b.addv" :: x :: vs =>
    match x.toNat?, parseInts vs with
    | some x, some l =>
      if !l.isEmpty && spanOverflows (SS.listMin l) (SS.listMax l) then (st, "panic")
      else let g := st.b.addVariableWithValues x l; ({ st with b := g }, showBG g)
    | _, _ => (st, "bad-op")
  | ["gac.b.rm", x, v] =>
    match x.toNat?, parseInt? v with
    | some x, some v => let r := st.b.removeValue x v; ({ st with b := r.1 }, s!"ret={showBool r.2} {showBG r.1}")
    | _, _ => (st, "bad-op")
  | ["gac.b.assign", x, v] =>
    match x.toNat?, parseInt? v with
    | some x, some v => let r := st.b.assignVariable x v; ({ st with b := r.1 }, s!"ret={showBool r.2} {showBG r.1}")
    | _, _ => (st, "bad-op")
  | ["gac.b.above", x, v] =>
    match x.toNat?, parseInt? v with
    | some x, some v => let r := st.b.removeAbove x v; ({ st with b := r.1 }, s!"ret={showBool r.2} {showBG r.1}")
    | _, _ => (st, "bad-op")
  | ["gac.b.below", x, v] =>
    match x.toNat?, parseInt? v with
    | some x, some v => let r := st.b.removeBelow x v; ({ st with b := r.1 }, s!"ret={showBool r.2} {showBG r.1}")
    | _, _ => (st, "bad-op")
  | ["gac.b.q", x] =>
    match x.toNat? with
    | some x =>
      (st, s!"size={st.b.domainSize x} asg={showBool (st.b.isAssigned x)} val={showOptInt (st.b.assignedValue x)} inc={showBool (st.b.isInconsistent x)} bnd={showOptPair (st.b.getBounds x)} vals={showInts (st.b.getDomainValues x)}")
    | none => (st, "bad-op")
  | "gac.b.prop" :: xs =>
    match parseNats xs with
    | some vars => let r := bgProp st.b vars; ({ st with b := r.1 }, r.2)
    | none => (st, "bad-op")
  -- ---------------------------------------------------------------- SparseSetGAC
  | ["gac.s.new"] => ({ st with s := SG.new }, "ok")
  | ["gac.s.add", x, a, b] =>
    match x.toNat?, parseInt? a, parseInt? b with
    | some x, some lo, some hi => let g := st.s.addVariable x lo hi; ({ st with s := g }, showSG g)
    | _, _, _ => (st, "bad-op")
  | "gac.s.addv" :: x :: vs =>
    match x.toNat?, parseInts vs with
    | some x, some l => let g := st.s.addVariableWithValues x l; ({ st with s := g }, showSG g)
    | _, _ => (st, "bad-op")
  | ["gac.s.rm", x, v] =>
    match x.toNat?, parseInt? v with
    | some x, some v => let r := st.s.removeValue x v; ({ st with s := r.1 }, s!"ret={showBool r.2} {showSG r.1}")
    | _, _ => (st, "bad-op")
  | ["gac.s.assign", x, v] =>
    match x.toNat?, parseInt? v with
    | some x, some v => let r := st.s.assignVariable x v; ({ st with s := r.1 }, s!"ret={showBool r.2} {showSG r.1}")
    | _, _ => (st, "bad-op")
  | ["gac.s.above", x, v] =>
    match x.toNat?, parseInt? v with
    | some x, some v => let r := st.s.removeAbove x v; ({ st with s := r.1 }, s!"ret={showBool r.2} {showSG r.1}")
    | _, _ => (st, "bad-op")
  | ["gac.s.below", x, v] =>
    match x.toNat?, parseInt? v with
    | some x, some v => let r := st.s.removeBelow x v; ({ st with s := r.1 }, s!"ret={showBool r.2} {showSG r.1}")
    | _, _ => (st, "bad-op")
  | "gac.s.prop" :: rest =>
    let (xs, obs) := splitBar rest
    match parseNats xs with
    | some vars =>
      let observed := " ".intercalate obs
      let orders := perms (st.s.filteredKeys vars)
      match orders.find? (fun o => showSparseOutcome st.s (st.s.propagateAlldiff vars o) == observed) with
      | some o =>
        match st.s.propagateAlldiff vars o with
        | some r => ({ st with s := r.1 }, "member " ++ observed)
        | none => (st, "member " ++ observed)
      | none => (st, "not-member")
    | none => (st, "bad-op")
  -- ---------------------------------------------------------------- BipartiteGraph level
  | ["gac.g.new"] => ({ st with g := Graph.new }, "ok")
  | "gac.g.addv" :: x :: vs =>
    match x.toNat?, parseInts vs with
    | some x, some l => let g := st.g.addVariable x l; ({ st with g := g }, showGraph g)
    | _, _ => (st, "bad-op")
  | ["gac.g.addr", x, a, b] =>
    match x.toNat?, parseInt? a, parseInt? b with
    | some x, some lo, some hi => let g := st.g.addVariableRange x lo hi; ({ st with g := g }, showGraph g)
    | _, _, _ => (st, "bad-op")
  | ["gac.g.rm", x, v] =>
    match x.toNat?, parseInt? v with
    | some x, some v => let r := st.g.removeValue x v; ({ st with g := r.1 }, s!"ret={showBool r.2} {showGraph r.1}")
    | _, _ => (st, "bad-op")
  | "gac.g.match" :: xs =>
    match parseNats xs with
    | some order =>
      match Matching.findMaximum st.g order with
      | some m => (st, showMatching m st.g)
      | none => (st, "panic")
    | none => (st, "bad-op")
  | "gac.g.prop" :: xs =>
    match parseNats xs with
    | some order =>
      match sparsePropagate st.g order with
      | some (g, ok) => ({ st with g := g }, s!"ok={showBool ok} {showGraph g}")
      | none => (st, "panic")
    | none => (st, "bad-op")
  -- ---------------------------------------------------------------- HybridGAC
  | ["gac.h.new"] => ({ st with h := HG.new }, "ok")
  | ["gac.h.add", x, a, b] =>
    match x.toNat?, parseInt? a, parseInt? b with
    | some x, some lo, some hi =>
      match st.h.addVariable x lo hi with
      | .ok g => ({ st with h := g }, showHG g)
      | .err => (st, "err")
      | .panic => (st, "panic")
    | _, _, _ => (st, "bad-op")
  | "gac.h.addv" :: x :: vs =>
    match x.toNat?, parseInts vs with
    | some x, some l =>
      match st.h.addVariableWithValues x l with
      | .ok g => ({ st with h := g }, showHG g)
      | .err => (st, "err")
      | .panic => (st, "panic")
    | _, _ => (st, "bad-op")
  | ["gac.h.rm", x, v] =>
    match x.toNat?, parseInt? v with
    | some x, some v => let r := st.h.removeValue x v; ({ st with h := r.1 }, s!"ret={showBool r.2} {showHG r.1}")
    | _, _ => (st, "bad-op")
  | ["gac.h.assign", x, v] =>
    match x.toNat?, parseInt? v with
    | some x, some v => let r := st.h.assignVariable x v; ({ st with h := r.1 }, s!"ret={showBool r.2} {showHG r.1}")
    | _, _ => (st, "bad-op")
  | ["gac.h.above", x, v] =>
    match x.toNat?, parseInt? v with
    | some x, some v => let r := st.h.removeAbove x v; ({ st with h := r.1 }, s!"ret={showBool r.2} {showHG r.1}")
    | _, _ => (st, "bad-op")
  | ["gac.h.below", x, v] =>
    match x.toNat?, parseInt? v with
    | some x, some v => let r := st.h.removeBelow x v; ({ st with h := r.1 }, s!"ret={showBool r.2} {showHG r.1}")
    | _, _ => (st, "bad-op")
  | "gac.h.prop" :: xs =>
    match parseNats xs with
    | some vars => let r := hgProp st.h vars; ({ st with h := r.1 }, r.2)
    | none => (st, "bad-op")
  -- ---------------------------------------------------------------- AllDiff::prune glue
  | "gac.prune" :: bs =>
    match (parseInts bs).bind pairUp with
    | some l =>
      match alldiffPrune l with
      | some r => (st, "some " ++ showBounds r)
      | none => (st, "none")
    | none => (st, "bad-op")
  | _ => (st, "bad-op")

end Driver

import SelenModel.Model.SparseSet
import Driver.Util
/-
`ss.*` ops of the line protocol: model side.
-/
namespace Driver
open Selen

/-- the driver state is the `Sys` of the model (concrete set + slots + ghost flags) -/
abbrev SSSt := Sys

def SSSt.fresh (s : SS) : SSSt := { ss := s, cur := fun _ => True }

def showSS (s : SS) : String :=
  let mm := if s.isEmpty then "min=- max=-" else s!"min={s.minV} max={s.maxV}"
  s!"off={s.minUniverse} n={s.n} size={s.size} vals={showInts s.toList} comp={showInts s.complement} {mm} first={showOptInt s.first} last={showOptInt s.last} fixed={showBool s.isFixed} usecomp={showBool s.shouldUseComplement}"

def ssStep (st : SSSt) (ws : List String) : SSSt × String :=
  match ws with
  | ["ss.new", a, b] =>
    match parseInt? a, parseInt? b with
    | some lo, some hi => let s := SS.new lo hi; (SSSt.fresh s, showSS s)
    | _, _ => (st, "bad-op")
  | ["ss.unchecked", a, b] =>
    match parseInt? a, parseInt? b with
    | some lo, some hi => let s := SS.newUnchecked lo hi; (SSSt.fresh s, showSS s)
    | _, _ => (st, "bad-op")
  | "ss.values" :: vs =>
    match parseInts vs with
    | some l => let s := SS.newFromValues l; (SSSt.fresh s, showSS s)
    | none => (st, "bad-op")
  | ["ss.remove", a] =>
    match parseInt? a with
    | some v => let st' := st.step (.remove v); (st', s!"ret={showBool (st.ss.remove v).2} {showSS st'.ss}")
    | none => (st, "bad-op")
  | ["ss.below", a] =>
    match parseInt? a with
    | some v => let st' := st.step (.below v); (st', showSS st'.ss)
    | none => (st, "bad-op")
  | ["ss.above", a] =>
    match parseInt? a with
    | some v => let st' := st.step (.above v); (st', showSS st'.ss)
    | none => (st, "bad-op")
  | ["ss.only", a] =>
    match parseInt? a with
    | some v => let st' := st.step (.only v); (st', showSS st'.ss)
    | none => (st, "bad-op")
  | ["ss.clear"] => let st' := st.step .clear; (st', showSS st'.ss)
  | "ss.inter" :: vs =>
    match parseInts vs with
    | some l => let st' := st.step (.inter (SS.newFromValues l)); (st', showSS st'.ss)
    | none => (st, "bad-op")
  | "ss.union" :: vs =>
    match parseInts vs with
    | some l => let st' := st.step (.union (SS.newFromValues l)); (st', showSS st'.ss)
    | none => (st, "bad-op")
  | "ss.diff" :: vs =>
    match parseInts vs with
    | some l => let st' := st.step (.diff (SS.newFromValues l)); (st', showSS st'.ss)
    | none => (st, "bad-op")
  | ["ss.save", k] =>
    match k.toNat? with
    | some k => (st.step (.save k), "saved")
    | none => (st, "bad-op")
  | ["ss.restore", k] =>
    match k.toNat? with
    | some k =>
      match st.slots.find? (fun sl => sl.key == k) with
      | some _ => let st' := st.step (.restore k); (st', showSS st'.ss)
      | none => (st, "no-slot")
    | none => (st, "bad-op")
  | ["ss.restoresize", k] =>
    match k.toNat? with
    | some k => let s := st.ss.restoreSize k; ({ st with ss := s }, showSS s)
    | none => (st, "bad-op")
  | ["ss.q", "contains", a] =>
    match parseInt? a with
    | some v => (st, showBool (st.ss.contains v))
    | none => (st, "bad-op")
  | ["ss.q", "valid", k] =>
    match k.toNat? with
    | some k =>
      match st.slots.find? (fun sl => sl.key == k) with
      | some sl => (st, showBool sl.valid)
      | none => (st, "no-slot")
    | none => (st, "bad-op")
  | "ss.q" :: "subset" :: vs =>
    match parseInts vs with
    | some l => (st, showBool (st.ss.isSubsetOf (SS.newFromValues l)))
    | none => (st, "bad-op")
  | "ss.q" :: "equals" :: vs =>
    match parseInts vs with
    | some l => (st, showBool (st.ss.equals (SS.newFromValues l)))
    | none => (st, "bad-op")
  | _ => (st, "bad-op")

end Driver

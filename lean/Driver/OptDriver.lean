import SelenModel.Model.Opt
import Driver.FloatDriver
/-
`op.*` ops of the line protocol (C08: float / mixed optimisation, decision logic): model side,
everything evaluated at the `Float` instance of `Num`.  Floats travel as the decimal value of
their bit pattern (`showF` / `parseF?` of `Driver/FloatDriver.lean`).
-/
namespace Driver
open Selen Selen.Opt

structure OptSt where
  step : Float := 1.0
  m : OModel Float := {}

def optShowVar : FVar Float → String
  | .flt iv => s!"f:{showF iv.min}:{showF iv.max}:{showF iv.step}"
  | .int d => s!"i:{ilmin d}:{ilmax d}:{d.length}"

def optShowVars (vs : List (FVar Float)) : String := "|".intercalate (vs.map optShowVar)

def optShowInfo : VInfo Float → String
  | .var i => s!"V{i}"
  | .const c => s!"C{showF c}"
  | .next i => s!"N{i}"
  | .complex => "X"

def optRelName : Rel → String
  | .le => "le" | .lt => "lt" | .ge => "ge" | .gt => "gt" | .eq => "eq" | .ne => "ne"

def optParseRel : String → Option Rel
  | "le" => some .le | "lt" => some .lt | "ge" => some .ge | "gt" => some .gt
  | "eq" => some .eq | "ne" => some .ne | _ => none

def optShowNatsBare (l : List Nat) : String := ",".intercalate (l.map toString)

def optShowMeta (md : Meta Float) : String :=
  let data := match md.data with
    | some (l, r) => s!"{optShowInfo l},{optShowInfo r}"
    | none => "nary"
  s!"{optRelName md.ty}[{optShowNatsBare md.vars}]{data}"

def optShowRows (rows : List (List Nat)) : String :=
  ";".intercalate (rows.map (fun r => s!"[{optShowNatsBare r}]"))

def optParseOpnd (s : String) : Option (Opnd Float) :=
  let t := (s.drop 1).toString
  if s.startsWith "v" then t.toNat?.map .v
  else if s.startsWith "c" then (parseF? t).map .c
  else if s.startsWith "k" then (parseInt? t).map (fun k => .c (Float.ofInt k))
  else none

/-- `N c₁ … c_N x₁ … x_N rhs` -/
def optParseLin (ws : List String) : Option (List Float × List Nat × Float) :=
  match ws with
  | n :: r => do
    let n ← n.toNat?
    let (cs, r) ← takeFloats n r
    let (xs, r) ← takeNatsF n r
    let ([c], _) ← takeFloats 1 r | none
    pure (cs, xs, c)
  | _ => none

def optWellFormed (nv : Nat) (xs : List Nat) : Bool := xs.all (fun x => decide (x < nv))

def optShowVal : FVal Float → String
  | .i v => s!"i:{v}"
  | .f v => s!"f:{showF v}"

def optShowSol (s : List (FVal Float)) : String := " ".intercalate (s.map optShowVal)

def optReasonName : Reason → String
  | .complexObjective => "complex-objective"
  | .mixedSeparable => "mixed-separable"
  | .optimizerFailure => "optimizer-failure"

/-- `-` / `x` / `LO:HI` -/
def optParsePb (s : String) : Option (Option (Float × Float)) :=
  if s = "-" || s = "x" then some none
  else match s.splitOn ":" with
    | [a, b] => do let a ← parseF? a; let b ← parseF? b; pure (some (a, b))
    | _ => none

def optStore (vs : List (FVar Float)) : FStore Float := fun i => vs.getD i (.int [0])

/-- result line of an `op.post`: all variables, the metadata entries gained, the rows
`pending_lp_constraints` gained, the number of deferred ASTs -/
def optPostLine (old new : OModel Float) : String :=
  let metas := new.metas.drop old.metas.length
  let lpRowsOf (m : OModel Float) : List (List Nat) := m.posts.filterMap (fun p => match p with
    | .pend _ _ xs _ true _ => some xs
    | _ => none)
  let rows := (lpRowsOf new).drop (lpRowsOf old).length
  let asts := (new.posts.filter (fun p => match p with | .pend .. => true | _ => false)).length
  s!"vars={optShowVars new.vars} meta={";".intercalate (metas.map optShowMeta)} plp={optShowRows rows} ast={asts}"

def optPost (st : OptSt) (ws : List String) : Option (OModel Float) :=
  let m := st.m
  let nv := m.vars.length
  let add (p : Post Float) : OModel Float := { m with posts := m.posts ++ [p] }
  match ws with
  | ["cmp", rel, l, r] => do
    let rel ← optParseRel rel
    let l ← optParseOpnd l
    let r ← optParseOpnd r
    if optWellFormed nv (l.under ++ r.under) then pure (add (.cmp rel l r)) else none
  | "plin" :: k :: rest => do
    let isEq ← (match k with | "eq" => some true | "le" => some false | _ => none)
    let (cs, xs, c) ← optParseLin rest
    if optWellFormed nv xs && !xs.isEmpty then pure (add (.plin isEq cs xs c)) else none
  | "lin" :: k :: rest => do
    let isEq ← (match k with | "eq" => some true | "le" => some false | _ => none)
    let (cs, xs, c) ← optParseLin rest
    if optWellFormed nv xs && !xs.isEmpty then pure (add (postLin isEq cs xs c)) else none
  | "fluent" :: rel :: rest => do
    let rel ← optParseRel rel
    let (cs, xs, c) ← optParseLin rest
    if optWellFormed nv xs && !xs.isEmpty then pure (add (postFluent rel cs xs c)) else none
  | ["fvv", rel, x, y] => do
    let rel ← optParseRel rel
    let x ← x.toNat?
    let y ← y.toNat?
    if optWellFormed nv [x, y] then pure (m.postFluentVV rel x y) else none
  | ["eqimm", x, c] => do
    let x ← x.toNat?
    let c ← parseF? c
    if x < nv then pure (m.postEqImm x c st.step) else none
  | _ => none

def optStep (st : OptSt) (ws : List String) : OptSt × String :=
  match ws with
  | ["op.new", s] =>
    match parseF? s with
    | some step => ({ step := step, m := {} }, "ok")
    | none => (st, "bad-op")
  | ["op.var", "f", a, b] =>
    match parseF? a, parseF? b with
    | some a, some b =>
      if st.m.posts.isEmpty then
        let v : FVar Float := .flt { min := a, max := b, step := st.step }
        ({ st with m := { st.m with vars := st.m.vars ++ [v] } }, s!"v{st.m.vars.length} {optShowVar v}")
      else (st, "bad-op")
    | _, _ => (st, "bad-op")
  | ["op.var", "i", a, b] =>
    match parseInt? a, parseInt? b with
    | some a, some b =>
      if st.m.posts.isEmpty then
        let v : FVar Float := .int ((List.range (b - a + 1).toNat).map (fun (k : Nat) => a + Int.ofNat k))
        ({ st with m := { st.m with vars := st.m.vars ++ [v] } }, s!"v{st.m.vars.length} {optShowVar v}")
      else (st, "bad-op")
    | _, _ => (st, "bad-op")
  | "op.post" :: rest =>
    match optPost st rest with
    | some m' => ({ st with m := m' }, optPostLine st.m m')
    | none => (st, "bad-op")
  | "op.route" :: d :: obj :: pbs =>
    match (match d with | "max" => some true | "min" => some false | _ => none), obj.toNat?, pbs.mapM optParsePb with
    | some isMax, some obj, some pbs =>
      if obj < st.m.vars.length then
        (st, match route st.m pbs isMax obj with
          | .fast s => s!"fast {optShowSol s}"
          | .declined r => s!"declined {optReasonName r}"
          | .panic => "panic")
      else (st, "bad-op")
    | _, _, _ => (st, "bad-op")
  | "op.entry" :: d :: obj :: pbs =>
    match (match d with | "max" => some true | "min" => some false | _ => none), obj.toNat?, pbs.mapM optParsePb with
    | some isMax, some obj, some pbs =>
      if obj < st.m.vars.length then
        (st, match entry st.m pbs isMax obj with
          | .fast s => s!"fast {optShowSol s}"
          | .search => "search"
          | .panic => "panic"
          | .invalid => "invalid")
      else (st, "bad-op")
    | _, _, _ => (st, "bad-op")
  | ["op.rootlp", d, obj] =>
    match (match d with | "max" => some true | "min" => some false | _ => none), obj.toNat? with
    | some isMax, some obj =>
      if obj < st.m.vars.length then
        if !st.m.vars.all validVar then (st, "invalid") else
        let rows := lpRows st.m
        let idx := objIndex rows obj
        let eligible := rootLpEligible st.m obj
        let head := s!"rows={optShowRows rows} sys=[{optShowNatsBare (sysVars rows)}] suitable={showBool (suitable rows)} objidx={match idx with | some i => toString i | none => "-"} eligible={showBool eligible}"
        if eligible then
          let p := lpProblem st.step st.m obj (!isMax)
          let fl (l : List Float) : String := ",".intercalate (l.map showF)
          (st, head ++ s!" n={p.cols.length} a={";".intercalate (p.a.map (fun r => s!"[{fl r}]"))} b=[{fl p.b}] lo=[{fl p.lo}] up=[{fl p.hi}] c=[{fl p.c}]")
        else (st, head)
      else (st, "bad-op")
    | _, _ => (st, "bad-op")
  | "op.lpapply" :: d :: obj :: code :: k :: rest =>
    match (match d with | "max" => some true | "min" => some false | _ => none), obj.toNat?, k.toNat? with
    | some _, some obj, some k =>
      match takeFloats k rest with
      | some (x, _) =>
        let rep : Option (LpReport Float) := match code with
          | "0" => some (.optimal x)
          | "1" => some .infeasible
          | "2" => some .okOther
          | "3" => some .okOther
          | "err" => some .err
          | _ => none
        match rep with
        | some rep =>
          if obj < st.m.vars.length then
            match rootLpStep st.m obj rep { st := optStore st.m.vars, ev := [] } with
            | .noSolution => (st, "nosolution")
            | .continue c true => (st, s!"vars={optShowVars ((List.range st.m.vars.length).map c.st)} applied=1")
            | .continue _ false => (st, "continue applied=0")
          else (st, "bad-op")
        | none => (st, "bad-op")
      | none => (st, "bad-op")
    | _, _, _ => (st, "bad-op")
  | "op.apply" :: n :: rest =>
    match n.toNat? with
    | some n =>
      match takeNatsF n rest with
      | some (sys, k :: rest) =>
        match k.toNat? with
        | some k =>
          match takeFloats k rest with
          | some (x, _) =>
            if optWellFormed st.m.vars.length sys && st.m.posts.isEmpty then
              match applyLp sys x { st := optStore st.m.vars, ev := [] } with
              | some c => (st, s!"vars={optShowVars ((List.range st.m.vars.length).map c.st)}")
              | none => (st, "fail")
            else (st, "bad-op")
          | none => (st, "bad-op")
        | none => (st, "bad-op")
      | _ => (st, "bad-op")
    | none => (st, "bad-op")
  | _ => (st, "bad-op")

end Driver

import Driver.SSDriver
import Driver.CoreDriver
import Driver.SudokuDriver
import Driver.GacDriver
import Driver.LpDriver
import Driver.FloatDriver
import Driver.LowerDriver
import Driver.MalDriver
import Driver.ValDriver
import Driver.OptDriver
/-
`selen_model`: reads protocol lines on stdin, prints exactly one result line per
input line.  State is reset by `case <id>`.
-/
namespace Driver

structure St where
  ss : SSSt := SSSt.fresh (Selen.SS.empty 0)
  core : CoreSt := {}
  sudoku : SudokuSt := {}
  gac : GacSt := {}
  lp : LpSt := {}
  float : FloatSt := {}
  lower : LowerSt := {}
  mal : MalSt := {}
  opt : OptSt := {}

def step (st : St) (line : String) : St × String :=
  let ws := words line
  match ws with
  | [] => (st, "-")
  | "case" :: _ => ({}, "-")
  | w :: _ =>
    if w.startsWith "#" then (st, "-")
    else if w.startsWith "ss." then
      let (s, out) := ssStep st.ss ws
      ({ st with ss := s }, out)
    else if w = "st.var" || w = "prune" || w = "post" || w = "fix" || w = "enum" || w = "opt" || w = "limit" || w = "ctx.min" || w = "ctx.max" || w = "view.mm" then
      let (c, out) := coreStep st.core ws
      ({ st with core := c }, out)
    else if w.startsWith "sd." then
      let (c, out) := sudokuStep st.sudoku ws
      ({ st with sudoku := c }, out)
    else if w.startsWith "gac." then
      let (c, out) := gacStep st.gac ws
      ({ st with gac := c }, out)
    else if w.startsWith "lp." then
      let (c, out) := lpStep st.lp ws
      ({ st with lp := c }, out)
    else if w.startsWith "fl." then
      let (c, out) := floatStep st.float ws
      ({ st with float := c }, out)
    else if w.startsWith "lw." then
      let (c, out) := lowerStep st.lower ws
      ({ st with lower := c }, out)
    else if w.startsWith "op." then
      let (c, out) := optStep st.opt ws
      ({ st with opt := c }, out)
    else if w.startsWith "vd." then (st, valStep ws)
    else if w.startsWith "mal." then
      let (c, out) := malStep st.mal ws
      ({ st with mal := c }, out)
    else (st, "bad-op")

partial def loop (h : IO.FS.Stream) (out : IO.FS.Stream) (st : St) : IO Unit := do
  let line ← h.getLine
  if line.isEmpty then return ()
  let (st', o) := step st line
  out.putStrLn o
  loop h out st'

end Driver

def main : IO Unit := do
  let stdin ← IO.getStdin
  let stdout ← IO.getStdout
  Driver.loop stdin stdout {}

import Driver.SSDriver
import Driver.CoreDriver
/-
`selen_model`: reads protocol lines on stdin, prints exactly one result line per
input line.  State is reset by `case <id>`.
-/
namespace Driver

structure St where
  ss : SSSt := SSSt.fresh (Selen.SS.empty 0)
  core : CoreSt := {}

def step (st : St) (line : String) : St × String :=
  let ws := words line
  match ws with
  | [] => (st, "-")
  | "#" :: _ => (st, "-")
  | "case" :: _ => ({}, "-")
  | w :: _ =>
    if w.startsWith "ss." then
      let (s, out) := ssStep st.ss ws
      ({ st with ss := s }, out)
    else if w = "st.var" || w = "prune" || w = "post" || w = "fix" || w = "enum" || w = "opt" || w = "limit" || w = "ctx.min" || w = "ctx.max" || w = "view.mm" then
      let (c, out) := coreStep st.core ws
      ({ st with core := c }, out)
    else (st, "bad-op")

partial def loop (h : IO.FS.Stream) (out : IO.FS.Stream) (st : St) : IO Unit := do
  let line ← h.getLine
  if line.isEmpty then return ()
  let (st', o) := step st line
  out.putStrLn o
  loop h out st'

end Driver

def main : IO Unit := do
  let stdin ← IO.getStdin
  let stdout ← IO.getStdout
  Driver.loop stdin stdout {}

import SelenModel.Lemmas.Lp
/-
C09 — LP solver: Optimal means feasible and optimal; Infeasible means infeasible.

  "For any linear program max c.x subject to Ax <= b and finite bounds l <= x <= u, whenever the
   embedded simplex solver reports status Optimal the returned point satisfies all rows and
   bounds within the configured tolerance and its objective equals the true optimum within
   tolerance, and the reported objective equals c.x of the returned point. It reports Infeasible
   only for problems with no feasible point, and a warm-started dual solve agrees with a cold
   primal solve."

Level: CERTIFICATE theory.  The simplex pivoting / LU code is not modelled.  Proved here, for all
problems and dimensions, in exact rational arithmetic (`Model/Lp.lean`):

* a terminal state accepted by the executable checker `legalOptimal` (tolerances 0) is feasible
  for the standard form and optimal (`C09_weak_duality`, `C09_legal_optimal_is_optimal`;
  with tolerances: `C09_legal_optimal_tol`);
* the bounded problem and the standard form built by `to_standard_form` have corresponding
  feasible sets and objectives under `x ↦ x − l` (`C09_standard_form_equiv`), so a legal
  terminal state gives a feasible, optimal point of the bounded problem whose reported
  objective is `c·x` (`C09_optimal`);
* a legal Phase-I optimum with a positive artificial sum proves infeasibility
  (`C09_phase1_infeasible`);
* `LpStatus::Infeasible` is carried by no return site (`C09_infeasible_vacuous`) — the code
  signals infeasibility by `Err(NumericalInstability)`;
* the dual (warm-start) path uses a different standard form, which is the bounded problem only
  when `l = 0 ∧ u = +∞` (`C09_dual_standard_form_partial`, `…_counterexample`); two legal
  terminal states of the same problem have the same objective (`C09_warmstart_agrees`).

That a run of the real code ends in a legal terminal state is VALIDATED per run by the
correspondence check (suite `lp`), not proved.  On the pinned tree it fails when Phase I is
needed (`C09_optimal_counterexample`: a recorded run), so the validated region carries the guard
`noPhaseOne` (`C09_optimal_partial`).  IEEE rounding is outside the theorems: the driver
recomputes the terminal state exactly from the returned basis and compares the returned floats
with it up to the configured tolerance.
-/
namespace Selen
namespace C09

open Lp

/-! ### standard form: weak duality and optimality of a legal terminal state -/

/-- weak duality: a dual vector whose reduced costs `c − yᵀA` are all ≤ 0 bounds the objective of
every feasible point of `max c·z, Az = b, z ≥ 0` by `y·b` -/
theorem C09_weak_duality (S : Std) (y z : Vec) (hy : ∀ v ∈ redCosts S y, v ≤ 0)
    (hz : stdFeasible S z = true) : dot S.c z ≤ dot y S.b :=
  weak_duality S y z hy hz

/-- a terminal state accepted by the checker with tolerances 0 is feasible for the standard form,
and no feasible point has a larger objective -/
theorem C09_legal_optimal_is_optimal (S : Std) (basis : List Nat) (x y : Vec)
    (h : legalOptimal S 0 0 basis x y = true) :
    stdFeasible S x = true ∧ ∀ z, stdFeasible S z = true → dot S.c z ≤ dot S.c x := by
  have hobj := legal_objective S 0 0 basis x y h
  simp only [legalOptimal, Bool.and_eq_true, decide_eq_true_eq] at h
  obtain ⟨⟨⟨⟨_, hxl⟩, _⟩, hxb⟩, hc⟩ := h
  have hx0 := checkCols_x_ge _ _ _ _ _ _ hc
  have hr0 := checkCols_redcost_le _ _ _ _ _ _ Rat.le_refl hc
  constructor
  · rw [stdFeasible_iff]
    exact ⟨hxl, fun v hv => by have := hx0 v hv; grind, hxb⟩
  · intro z hz
    rw [hobj]
    exact weak_duality S y z hr0 hz

/-- with the configured tolerances: the certificate's objective is exactly `y·b`, every basic
solution entry is ≥ −ftol, and every exactly feasible point `z` has
`c·z ≤ c·x + otol · Σ z` -/
theorem C09_legal_optimal_tol (S : Std) (ftol otol : Rat) (basis : List Nat) (x y : Vec) (ho : 0 ≤ otol)
    (h : legalOptimal S ftol otol basis x y = true) :
    matVec S.a x = S.b ∧ (∀ v ∈ x, -ftol ≤ v) ∧ dot S.c x = dot y S.b ∧
      ∀ z, stdFeasible S z = true → dot S.c z ≤ dot S.c x + otol * sumv z := by
  have hobj := legal_objective S ftol otol basis x y h
  simp only [legalOptimal, Bool.and_eq_true, decide_eq_true_eq] at h
  obtain ⟨⟨⟨⟨_, hxl⟩, _⟩, hxb⟩, hc⟩ := h
  refine ⟨hxb, checkCols_x_ge _ _ _ _ _ _ hc, hobj, ?_⟩
  intro z hz
  obtain ⟨hzl, hz0, hzb⟩ := (stdFeasible_iff S z).mp hz
  have hr := checkCols_redcost_le _ _ _ _ _ _ ho hc
  have hlen := checkCols_length _ _ _ _ _ _ hc
  have h1 : dot (redCosts S y) z = dot S.c z - dot (vecMat y S.a) z := dot_subv_left _ _ _
  have h2 := dot_vecMat y S.a z
  rw [hzb] at h2
  have h3 := dot_le_tol otol (redCosts S y) z hr hz0 (by rw [hlen, hxl, hzl])
  grind

/-! ### the bounded problem and its standard form -/

/-- feasible sets and objectives of `max c·x, Ax ≤ b, l ≤ x ≤ u` and of the standard form of
`to_standard_form` correspond: `x ↦ (x − l, slacks)` one way, `z ↦ z[..n] + l` back; the reported
objective `c·x' + c·l` is `c·x` -/
theorem C09_standard_form_equiv (P : Problem) (hw : P.wf = true) :
    (∀ x, feasible P x = true →
      stdFeasible (toStd P) (embed P x) = true ∧ backObj P (embed P x) = dot P.c x) ∧
    (∀ z, stdFeasible (toStd P) z = true →
      feasible P (backX P z) = true ∧ dot P.c (backX P z) = backObj P z) :=
  ⟨fun x hx => toStd_embed P (wf_of P hw) x hx, fun z hz => toStd_back P (wf_of P hw) z hz⟩

/-- what a run reports -/
structure Report where
  status : Status
  x : Vec
  objective : Rat
  basis : List Nat

/-- the claim the correspondence check validates for a primal (`solve`) run: an `Optimal` report
comes with a legal terminal state of the standard form whose back-transformation
(simplex_primal.rs:94-105) is the reported point and objective -/
def TerminalClaim (P : Problem) (r : Report) : Prop :=
  r.status = .optimal →
    ∃ z y, legalOptimal (toStd P) 0 0 r.basis z y = true ∧ r.x = backX P z ∧ r.objective = backObj P z

/-- Optimal ⇒ feasible, reported objective = c·x, and optimal — for every report that comes with
a legal terminal state -/
theorem C09_optimal (P : Problem) (hw : P.wf = true) (r : Report) (hc : TerminalClaim P r)
    (ho : r.status = .optimal) :
    feasible P r.x = true ∧ r.objective = dot P.c r.x ∧
      ∀ x, feasible P x = true → dot P.c x ≤ r.objective := by
  obtain ⟨z, y, hl, hx, hobj⟩ := hc ho
  obtain ⟨hzf, hzopt⟩ := C09_legal_optimal_is_optimal _ _ _ _ hl
  obtain ⟨hfwd, hback⟩ := C09_standard_form_equiv P hw
  obtain ⟨hf, hd⟩ := hback z hzf
  refine ⟨by rw [hx]; exact hf, by rw [hx, hobj]; exact hd.symm, ?_⟩
  intro x hxf
  obtain ⟨he, heo⟩ := hfwd x hxf
  have := hzopt _ he
  rw [hobj]
  simp only [backObj] at heo ⊢
  grind

/-! ### Phase I -/

/-- a legal optimum of the Phase-I auxiliary problem (rows with negative right-hand side negated,
artificial identity block, maximise −Σ artificials) whose artificial sum is positive proves that
the bounded problem has no feasible point -/
theorem C09_phase1_infeasible (P : Problem) (hw : P.wf = true) (basis : List Nat) (w y : Vec)
    (h : legalOptimal (phase1Std (toStd P)) 0 0 basis w y = true)
    (hpos : dot (phase1Std (toStd P)).c w < 0) :
    ∀ x, feasible P x = false := by
  intro x
  cases hx : feasible P x with
  | false => rfl
  | true =>
    exfalso
    obtain ⟨he, _⟩ := toStd_embed P (wf_of P hw) x hx
    obtain ⟨hp, hp0⟩ := phase1_embed (toStd P) (stdWF_of _ (toStd_wf P (wf_of P hw))) _ he
    have := (C09_legal_optimal_is_optimal _ _ _ _ h).2 _ hp
    rw [hp0] at this
    grind

/-! ### `Infeasible` is never reported -/

/-- no return site of `PrimalSimplex::solve` / `DualSimplex::solve` carries
`LpStatus::Infeasible` (infeasibility is signalled by `Err(NumericalInstability)`,
simplex_primal.rs:390), so "Infeasible only for infeasible problems" holds vacuously -/
theorem C09_infeasible_vacuous (site : ReturnSite) : site.status ≠ some Status.infeasible := by
  cases site <;> decide

/-- the statuses carried by some return site are exactly Optimal, Unbounded, IterationLimit -/
theorem C09_reachable_statuses (s : Status) : (∃ site : ReturnSite, site.status = some s) ↔ s.reachable = true := by
  constructor
  · rintro ⟨site, h⟩
    cases site <;> simp [ReturnSite.status] at h <;> subst h <;> decide
  · intro h
    cases s
    · exact ⟨.phase2Optimal, rfl⟩
    · simp [Status.reachable] at h
    · exact ⟨.phase2Unbounded, rfl⟩
    · exact ⟨.phase2IterLimit, rfl⟩
    · simp [Status.reachable] at h

/-! ### the dual (warm-start) path -/

/-- the dual solver works on `[A | I] z = b, z ≥ 0` (no lower-bound shift, no upper-bound rows)
and returns `z[..n]` unshifted.  When `l = 0` and `u = +∞` this IS the standard form of the
primal solver, so a legal terminal state of it is feasible and optimal for the bounded problem
and its objective is `c·x` -/
theorem C09_dual_standard_form_partial (P : Problem) (hw : P.wf = true) (hg : dualFormGuard P = true)
    (basis : List Nat) (z y : Vec) (h : legalOptimal (toDualStd P) 0 0 basis z y = true) :
    feasible P (z.take P.c.length) = true ∧
      dot (toDualStd P).c z = dot P.c (z.take P.c.length) ∧
      ∀ x, feasible P x = true → dot P.c x ≤ dot P.c (z.take P.c.length) := by
  have hW := wf_of P hw
  rw [toDualStd_eq P hW hg] at h ⊢
  have hlo : ∀ l ∈ P.lo, l = 0 := by
    simp only [dualFormGuard, Bool.and_eq_true, List.all_eq_true, decide_eq_true_eq] at hg
    exact hg.1
  have hzlen : z.length = (toStd P).c.length := by
    simp only [legalOptimal, Bool.and_eq_true, decide_eq_true_eq] at h
    exact h.1.1.1.2
  rw [toStd_c_length] at hzlen
  have hbx : backX P z = z.take P.c.length := by
    rw [backX]
    apply addv_allzero _ _ hlo
    rw [hW.lo]; simp; omega
  have hbo : backObj P z = dot (toStd P).c z := by
    rw [backObj, dot_allzero P.c P.lo hlo]; grind
  have hr := C09_optimal P hw ⟨.optimal, backX P z, backObj P z, basis⟩
    (fun _ => ⟨z, y, h, rfl, rfl⟩) rfl
  simp only at hr
  rw [hbx, hbo] at hr
  exact ⟨hr.1, hr.2.1, fun x hx => by rw [← hr.2.1]; exact hr.2.2 x hx⟩

/-- P: max x s.t. x ≤ 5, 0 ≤ x ≤ 2.  `(x, s) = (5, 0)` with basis {x}, y = 1 is a legal optimal
terminal state of the dual solver's standard form, yet x = 5 violates the upper bound -/
theorem C09_dual_standard_form_counterexample :
    let P : Problem := { c := [1], a := [[1]], b := [5], lo := [0], up := [some 2] }
    P.wf = true ∧ legalOptimal (toDualStd P) 0 0 [0] [5, 0] [1] = true ∧ feasible P [5] = false := by
  decide +kernel

/-- P: max −x s.t. x ≤ 5, −1 ≤ x.  The dual solver's standard form has x ≥ 0: its legal optimum
x = 0 (objective 0) is feasible for P but not optimal (x = −1 has objective 1) -/
theorem C09_dual_standard_form_counterexample_lower :
    let P : Problem := { c := [-1], a := [[1]], b := [5], lo := [-1], up := [none] }
    P.wf = true ∧ legalOptimal (toDualStd P) 0 0 [1] [0, 5] [0] = true ∧
      feasible P [-1] = true ∧ dot P.c [0] < dot P.c [-1] := by
  decide +kernel

/-- recorded warm-start run on the pinned tree (suite `lp --mode exh --universe 1`, case `lp-exh-371`;
replay:
```
case w
lp.prob first nv=1 nc=2 c=0 a=0;13830554455654793216; b=0,13830554455654793216 lo=0 up=9218868437227405312 ftol=4517329193108106637 otol=4517329193108106637
lp.sol cold
lp.sol warm-self
```
): `max 0 s.t. 0·x ≤ 0, −x ≤ −1, 0 ≤ x` satisfies the guard `l = 0, u = +∞`; the cold solve returns
the legal basis `[1, 0]` with x = 1; `solve_warmstart` from that basis returns the same (legal)
basis but the point x = 0, which violates the second row: `DualSimplex::solve`
(simplex_dual.rs:101-110) indexes the variable-indexed vector returned by `Basis::solve_basic`
by basis position when it assembles `x` -/
theorem C09_warmstart_counterexample :
    let P : Problem := { c := [0], a := [[0], [-1]], b := [0, -1], lo := [0], up := [none] }
    P.wf = true ∧ dualFormGuard P = true ∧
      legalOptimal (toDualStd P) 0 0 [1, 0] [1, 0, 0] [0, 0] = true ∧
      feasible P [1] = true ∧ feasible P [0] = false := by
  decide +kernel

/-- two legal terminal states (of the same standard form) have the same objective: a legal
warm-started answer agrees with a legal cold answer -/
theorem C09_warmstart_agrees (S : Std) (b1 b2 : List Nat) (x1 y1 x2 y2 : Vec)
    (h1 : legalOptimal S 0 0 b1 x1 y1 = true) (h2 : legalOptimal S 0 0 b2 x2 y2 = true) :
    dot S.c x1 = dot S.c x2 := by
  obtain ⟨f1, o1⟩ := C09_legal_optimal_is_optimal _ _ _ _ h1
  obtain ⟨f2, o2⟩ := C09_legal_optimal_is_optimal _ _ _ _ h2
  have a := o1 _ f2
  have b := o2 _ f1
  grind

/-- cold primal (shifted form) vs warm dual (unshifted form) under the guard `l = 0, u = +∞`:
the reported objectives agree -/
theorem C09_warmstart_agrees_forms (P : Problem) (hw : P.wf = true) (hg : dualFormGuard P = true)
    (b1 b2 : List Nat) (z1 y1 z2 y2 : Vec)
    (h1 : legalOptimal (toStd P) 0 0 b1 z1 y1 = true) (h2 : legalOptimal (toDualStd P) 0 0 b2 z2 y2 = true) :
    backObj P z1 = dot (toDualStd P).c z2 := by
  have hlo : ∀ l ∈ P.lo, l = 0 := by
    simp only [dualFormGuard, Bool.and_eq_true, List.all_eq_true, decide_eq_true_eq] at hg
    exact hg.1
  rw [toDualStd_eq P (wf_of P hw) hg] at h2 ⊢
  have := C09_warmstart_agrees _ _ _ _ _ _ _ h1 h2
  rw [backObj, dot_allzero P.c P.lo hlo, this]; grind

/-! ### the defect on the pinned tree and the validated region -/

/-- when the slack basis is feasible (Phase I skipped) the bounded problem is feasible: `x = l` -/
theorem C09_guard_feasible (P : Problem) (hw : P.wf = true) (hg : noPhaseOne 0 P = true) :
    feasible P P.lo = true := by
  have hW := wf_of P hw
  simp only [noPhaseOne, toStd, List.all_append, Bool.and_eq_true, List.all_eq_true, decide_eq_true_eq] at hg
  obtain ⟨h1, _⟩ := hg
  simp only [Problem.wf, Bool.and_eq_true] at hw
  have hbo := hw.2
  simp only [feasible, feasibleTol, Bool.and_eq_true]
  constructor
  · exact rowsLe_of_bAdj P.lo P.a P.b hW.ab (fun v hv => by have := h1 v hv; grind)
  · exact boundsOk_of_ordered P.lo P.up hbo

/-- recorded run on the pinned tree (suite `lp --mode exh --universe 1`, case `lp-exh-672`; replay:
```
case w
lp.prob first nv=1 nc=2 c=13830554455654793216 a=13830554455654793216;13830554455654793216; b=13830554455654793216,0 lo=13830554455654793216 up=9218868437227405312 ftol=4517329193108106637 otol=4517329193108106637
lp.sol cold
```
): `max −x s.t. −x ≤ −1, −x ≤ 0, −1 ≤ x` needs Phase I (`b − A·l = (−2, −1)`); its optimum is
x = 1 (objective −1).  `solve` returns `Optimal, x = 0, objective 0, basis [0, 1]`: the point
violates the first row and the reported objective exceeds the optimum.  The exact basic solution
of that basis is `(x', s₀, s₁) = (1, −1, 0)`: the terminal state is not primal feasible. -/
theorem C09_optimal_counterexample :
    let P : Problem := { c := [-1], a := [[-1], [-1]], b := [-1, 0], lo := [-1], up := [none] }
    let r : Report := { status := .optimal, x := [0], objective := 0, basis := [0, 1] }
    P.wf = true ∧ noPhaseOne 0 P = false ∧ feasible P r.x = false ∧
      feasible P [1] = true ∧ dot P.c [1] < r.objective ∧
      matVec (toStd P).a [1, -1, 0] = (toStd P).b := by
  decide +kernel

/-- hence the terminal-state claim is false for that run -/
theorem C09_terminal_claim_counterexample :
    let P : Problem := { c := [-1], a := [[-1], [-1]], b := [-1, 0], lo := [-1], up := [none] }
    let r : Report := { status := .optimal, x := [0], objective := 0, basis := [0, 1] }
    ¬ TerminalClaim P r := by
  intro P r hc
  have h := (C09_optimal P (by decide +kernel) r hc rfl).1
  have : feasible P r.x = false := by decide +kernel
  rw [this] at h
  cases h

/-- the validated region: Phase I skipped (slack basis feasible after the lower-bound shift).
There the problem is feasible, and an `Optimal` report with a legal terminal state is feasible,
optimal, and reports `c·x` -/
theorem C09_optimal_partial (P : Problem) (hw : P.wf = true) (hg : noPhaseOne 0 P = true)
    (r : Report) (hc : TerminalClaim P r) (ho : r.status = .optimal) :
    feasible P P.lo = true ∧ feasible P r.x = true ∧ r.objective = dot P.c r.x ∧
      ∀ x, feasible P x = true → dot P.c x ≤ r.objective :=
  ⟨C09_guard_feasible P hw hg, C09_optimal P hw r hc ho⟩

/-! ### non-vacuity -/

/-- max 3x + 2y s.t. x + y ≤ 5, 0 ≤ x, −1/2 ≤ y ≤ 4: hypotheses of `C09_optimal` are satisfiable -/
example :
    let P : Problem := { c := [3, 2], a := [[1, 1]], b := [5], lo := [0, -1/2], up := [none, some 4] }
    P.wf = true ∧ noPhaseOne 0 P = true ∧
      legalOptimal (toStd P) 0 0 [0, 3] [11/2, 0, 0, 9/2] [3, 0] = true ∧
      backX P [11/2, 0, 0, 9/2] = [11/2, -1/2] ∧ backObj P [11/2, 0, 0, 9/2] = 31/2 := by
  decide +kernel

/-- a legal Phase-I optimum with positive artificial sum exists: `x ≤ −1, 0 ≤ x ≤ 2` -/
example :
    let P : Problem := { c := [1], a := [[1]], b := [-1], lo := [0], up := [some 2] }
    P.wf = true ∧
      legalOptimal (phase1Std (toStd P)) 0 0 [3, 2] [0, 0, 2, 1, 0] [-1, 0] = true ∧
      dot (phase1Std (toStd P)).c [0, 0, 2, 1, 0] < 0 := by
  decide +kernel

/-- the dual-form guard is satisfiable together with a legal terminal state -/
example :
    let P : Problem := { c := [1, 1], a := [[1, 1]], b := [5], lo := [0, 0], up := [none, none] }
    P.wf = true ∧ dualFormGuard P = true ∧ legalOptimal (toDualStd P) 0 0 [0] [5, 0, 0] [1] = true := by
  decide +kernel

/-- bit patterns: 1.0, 0.5, −2.0, the smallest subnormal, +∞, NaN -/
example :
    f64ToRat 4607182418800017408 = some 1 ∧ f64ToRat 4602678819172646912 = some (1/2) ∧
      f64ToRat 13835058055282163712 = some (-2) ∧ f64ToRat 1 = some (mkRat 1 (2 ^ 1074)) ∧
      f64ToRat 9218868437227405312 = none ∧ f64OfBits 9221120237041090560 = F64.nan := by
  decide +kernel

end C09
end Selen

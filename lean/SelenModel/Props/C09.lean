import SelenModel.Lemmas.Lp
import SelenModel.Lemmas.Simplex
/-
C09 — LP solver: Optimal means feasible and optimal; Infeasible means infeasible.

  "For any linear program max c.x subject to Ax <= b and finite bounds l <= x <= u, whenever the
   embedded simplex solver reports status Optimal the returned point satisfies all rows and
   bounds within the configured tolerance and its objective equals the true optimum within
   tolerance, and the reported objective equals c.x of the returned point. It reports Infeasible
   only for problems with no feasible point, and a warm-started dual solve agrees with a cold
   primal solve."

Level: CERTIFICATE theory plus a model of the PIVOTING RULES.  `Model/Lp.lean` has the problem,
the standard forms and the terminal-state checker; `Model/Simplex.lean` has one iteration of the
code's loops (`pivot`: stop test, entering rule, ratio test, swap, refactorisation with the LU
pivot threshold), the Phase I / Phase II loops and `solvePrimal`, at exact rationals with the
tolerances as parameters; the floating-point LU itself is not modelled.  Proved here, for all
problems and dimensions, in exact rational arithmetic:

* a terminal state accepted by the executable checker `legalOptimal` (tolerances 0) is feasible
  for the standard form and optimal (`C09_weak_duality`, `C09_legal_optimal_is_optimal`;
  with tolerances: `C09_legal_optimal_tol`);
* the bounded problem and the standard form built by `to_standard_form` have corresponding
  feasible sets and objectives under `x ↦ x − l` (`C09_standard_form_equiv`), so a legal
  terminal state gives a feasible, optimal point of the bounded problem whose reported
  objective is `c·x` (`C09_optimal`);
* a legal Phase-I optimum with a positive artificial sum proves infeasibility
  (`C09_phase1_infeasible`);
* `LpStatus::Infeasible` is carried by no return site (`C09_infeasible_vacuous`) — the code
  signals infeasibility by `Err(NumericalInstability)`;
* the dual (warm-start) path uses a different standard form, which is the bounded problem only
  when `l = 0 ∧ u = +∞` (`C09_dual_standard_form_partial`, `…_counterexample`); two legal
  terminal states of the same problem have the same objective (`C09_warmstart_agrees`).

* one `pivot` from a primal-feasible basis keeps primal feasibility (tolerance 0:
  `C09_pivot_keeps_feasible`; counterexample for a positive tolerance:
  `C09_pivot_tolerance_counterexample`), never decreases the objective (`C09_pivot_monotone`, any
  tolerance), its stop test yields a `legalOptimal` terminal state (`C09_stop_is_optimal`, `…_exact`,
  `…_tol`), its "no leaving row" answer exhibits an unbounded ray (`C09_unbounded_sound`);
  the whole Phase II loop is sound at tolerance 0 (`C09_phase2_sound`), end to end for the bounded
  problem when `phase_one` accepts the slack basis (`C09_run_sound_slack`);
  Phase I is sound up to its hand-over (`C09_phase1_sound`), and the hand-over with an artificial
  column left in the basis is not (`C09_phase1_residue_counterexample`).

That a run of the real code ends in a legal terminal state is VALIDATED per run by the
correspondence check (suite `lp`), not proved; that it walks the basis sequence of `solvePrimal`
is validated by the op `lp.trace` (hook H10) on the runs in which no float feeding a decision was
rounded.  On the pinned tree it fails when Phase I is
needed (`C09_optimal_counterexample`: a recorded run), so the validated region carries the guard
`noPhaseOne` (`C09_optimal_partial`).  IEEE rounding is outside the theorems: the driver
recomputes the terminal state exactly from the returned basis and compares the returned floats
with it up to the configured tolerance.
-/
namespace Selen
namespace C09

open Lp

/-! ### standard form: weak duality and optimality of a legal terminal state -/

/-- weak duality: a dual vector whose reduced costs `c − yᵀA` are all ≤ 0 bounds the objective of
every feasible point of `max c·z, Az = b, z ≥ 0` by `y·b` -/
theorem C09_weak_duality (S : Std) (y z : Vec) (hy : ∀ v ∈ redCosts S y, v ≤ 0)
    (hz : stdFeasible S z = true) : dot S.c z ≤ dot y S.b :=
  weak_duality S y z hy hz

/-- a terminal state accepted by the checker with tolerances 0 is feasible for the standard form,
and no feasible point has a larger objective -/
theorem C09_legal_optimal_is_optimal (S : Std) (basis : List Nat) (x y : Vec)
    (h : legalOptimal S 0 0 basis x y = true) :
    stdFeasible S x = true ∧ ∀ z, stdFeasible S z = true → dot S.c z ≤ dot S.c x := by
  have hobj := legal_objective S 0 0 basis x y h
  simp only [legalOptimal, Bool.and_eq_true, decide_eq_true_eq] at h
  obtain ⟨⟨⟨⟨_, hxl⟩, _⟩, hxb⟩, hc⟩ := h
  have hx0 := checkCols_x_ge _ _ _ _ _ _ hc
  have hr0 := checkCols_redcost_le _ _ _ _ _ _ Rat.le_refl hc
  constructor
  · rw [stdFeasible_iff]
    exact ⟨hxl, fun v hv => by have := hx0 v hv; grind, hxb⟩
  · intro z hz
    rw [hobj]
    exact weak_duality S y z hr0 hz

/-- with the configured tolerances: the certificate's objective is exactly `y·b`, every basic
solution entry is ≥ −ftol, and every exactly feasible point `z` has
`c·z ≤ c·x + otol · Σ z` -/
theorem C09_legal_optimal_tol (S : Std) (ftol otol : Rat) (basis : List Nat) (x y : Vec) (ho : 0 ≤ otol)
    (h : legalOptimal S ftol otol basis x y = true) :
    matVec S.a x = S.b ∧ (∀ v ∈ x, -ftol ≤ v) ∧ dot S.c x = dot y S.b ∧
      ∀ z, stdFeasible S z = true → dot S.c z ≤ dot S.c x + otol * sumv z := by
  have hobj := legal_objective S ftol otol basis x y h
  simp only [legalOptimal, Bool.and_eq_true, decide_eq_true_eq] at h
  obtain ⟨⟨⟨⟨_, hxl⟩, _⟩, hxb⟩, hc⟩ := h
  refine ⟨hxb, checkCols_x_ge _ _ _ _ _ _ hc, hobj, ?_⟩
  intro z hz
  obtain ⟨hzl, hz0, hzb⟩ := (stdFeasible_iff S z).mp hz
  have hr := checkCols_redcost_le _ _ _ _ _ _ ho hc
  have hlen := checkCols_length _ _ _ _ _ _ hc
  have h1 : dot (redCosts S y) z = dot S.c z - dot (vecMat y S.a) z := dot_subv_left _ _ _
  have h2 := dot_vecMat y S.a z
  rw [hzb] at h2
  have h3 := dot_le_tol otol (redCosts S y) z hr hz0 (by rw [hlen, hxl, hzl])
  grind

/-! ### the bounded problem and its standard form -/

/-- feasible sets and objectives of `max c·x, Ax ≤ b, l ≤ x ≤ u` and of the standard form of
`to_standard_form` correspond: `x ↦ (x − l, slacks)` one way, `z ↦ z[..n] + l` back; the reported
objective `c·x' + c·l` is `c·x` -/
theorem C09_standard_form_equiv (P : Problem) (hw : P.wf = true) :
    (∀ x, feasible P x = true →
      stdFeasible (toStd P) (embed P x) = true ∧ backObj P (embed P x) = dot P.c x) ∧
    (∀ z, stdFeasible (toStd P) z = true →
      feasible P (backX P z) = true ∧ dot P.c (backX P z) = backObj P z) :=
  ⟨fun x hx => toStd_embed P (wf_of P hw) x hx, fun z hz => toStd_back P (wf_of P hw) z hz⟩

/-- what a run reports -/
structure Report where
  status : Status
  x : Vec
  objective : Rat
  basis : List Nat

/-- the claim the correspondence check validates for a primal (`solve`) run: an `Optimal` report
comes with a legal terminal state of the standard form whose back-transformation
(simplex_primal.rs:94-105) is the reported point and objective -/
def TerminalClaim (P : Problem) (r : Report) : Prop :=
  r.status = .optimal →
    ∃ z y, legalOptimal (toStd P) 0 0 r.basis z y = true ∧ r.x = backX P z ∧ r.objective = backObj P z

/-- Optimal ⇒ feasible, reported objective = c·x, and optimal — for every report that comes with
a legal terminal state -/
theorem C09_optimal (P : Problem) (hw : P.wf = true) (r : Report) (hc : TerminalClaim P r)
    (ho : r.status = .optimal) :
    feasible P r.x = true ∧ r.objective = dot P.c r.x ∧
      ∀ x, feasible P x = true → dot P.c x ≤ r.objective := by
  obtain ⟨z, y, hl, hx, hobj⟩ := hc ho
  obtain ⟨hzf, hzopt⟩ := C09_legal_optimal_is_optimal _ _ _ _ hl
  obtain ⟨hfwd, hback⟩ := C09_standard_form_equiv P hw
  obtain ⟨hf, hd⟩ := hback z hzf
  refine ⟨by rw [hx]; exact hf, by rw [hx, hobj]; exact hd.symm, ?_⟩
  intro x hxf
  obtain ⟨he, heo⟩ := hfwd x hxf
  have := hzopt _ he
  rw [hobj]
  simp only [backObj] at heo ⊢
  grind

/-! ### Phase I -/

/-- a legal optimum of the Phase-I auxiliary problem (rows with negative right-hand side negated,
artificial identity block, maximise −Σ artificials) whose artificial sum is positive proves that
the bounded problem has no feasible point -/
theorem C09_phase1_infeasible (P : Problem) (hw : P.wf = true) (basis : List Nat) (w y : Vec)
    (h : legalOptimal (phase1Std (toStd P)) 0 0 basis w y = true)
    (hpos : dot (phase1Std (toStd P)).c w < 0) :
    ∀ x, feasible P x = false := by
  intro x
  cases hx : feasible P x with
  | false => rfl
  | true =>
    exfalso
    obtain ⟨he, _⟩ := toStd_embed P (wf_of P hw) x hx
    obtain ⟨hp, hp0⟩ := phase1_embed (toStd P) (stdWF_of _ (toStd_wf P (wf_of P hw))) _ he
    have := (C09_legal_optimal_is_optimal _ _ _ _ h).2 _ hp
    rw [hp0] at this
    grind

/-! ### `Infeasible` is never reported -/

/-- no return site of `PrimalSimplex::solve` / `DualSimplex::solve` carries
`LpStatus::Infeasible` (infeasibility is signalled by `Err(NumericalInstability)`,
simplex_primal.rs:390), so "Infeasible only for infeasible problems" holds vacuously -/
theorem C09_infeasible_vacuous (site : ReturnSite) : site.status ≠ some Status.infeasible := by
  cases site <;> decide

/-- the statuses carried by some return site are exactly Optimal, Unbounded, IterationLimit -/
theorem C09_reachable_statuses (s : Status) : (∃ site : ReturnSite, site.status = some s) ↔ s.reachable = true := by
  constructor
  · rintro ⟨site, h⟩
    cases site <;> simp [ReturnSite.status] at h <;> subst h <;> decide
  · intro h
    cases s
    · exact ⟨.phase2Optimal, rfl⟩
    · simp [Status.reachable] at h
    · exact ⟨.phase2Unbounded, rfl⟩
    · exact ⟨.phase2IterLimit, rfl⟩
    · simp [Status.reachable] at h

/-! ### the dual (warm-start) path -/

/-- the dual solver works on `[A | I] z = b, z ≥ 0` (no lower-bound shift, no upper-bound rows)
and returns `z[..n]` unshifted.  When `l = 0` and `u = +∞` this IS the standard form of the
primal solver, so a legal terminal state of it is feasible and optimal for the bounded problem
and its objective is `c·x` -/
theorem C09_dual_standard_form_partial (P : Problem) (hw : P.wf = true) (hg : dualFormGuard P = true)
    (basis : List Nat) (z y : Vec) (h : legalOptimal (toDualStd P) 0 0 basis z y = true) :
    feasible P (z.take P.c.length) = true ∧
      dot (toDualStd P).c z = dot P.c (z.take P.c.length) ∧
      ∀ x, feasible P x = true → dot P.c x ≤ dot P.c (z.take P.c.length) := by
  have hW := wf_of P hw
  rw [toDualStd_eq P hW hg] at h ⊢
  have hlo : ∀ l ∈ P.lo, l = 0 := by
    simp only [dualFormGuard, Bool.and_eq_true, List.all_eq_true, decide_eq_true_eq] at hg
    exact hg.1
  have hzlen : z.length = (toStd P).c.length := by
    simp only [legalOptimal, Bool.and_eq_true, decide_eq_true_eq] at h
    exact h.1.1.1.2
  rw [toStd_c_length] at hzlen
  have hbx : backX P z = z.take P.c.length := by
    rw [backX]
    apply addv_allzero _ _ hlo
    rw [hW.lo]; simp; omega
  have hbo : backObj P z = dot (toStd P).c z := by
    rw [backObj, dot_allzero P.c P.lo hlo]; grind
  have hr := C09_optimal P hw ⟨.optimal, backX P z, backObj P z, basis⟩
    (fun _ => ⟨z, y, h, rfl, rfl⟩) rfl
  simp only at hr
  rw [hbx, hbo] at hr
  exact ⟨hr.1, hr.2.1, fun x hx => by rw [← hr.2.1]; exact hr.2.2 x hx⟩

/-- P: max x s.t. x ≤ 5, 0 ≤ x ≤ 2.  `(x, s) = (5, 0)` with basis {x}, y = 1 is a legal optimal
terminal state of the dual solver's standard form, yet x = 5 violates the upper bound -/
theorem C09_dual_standard_form_counterexample :
    let P : Problem := { c := [1], a := [[1]], b := [5], lo := [0], up := [some 2] }
    P.wf = true ∧ legalOptimal (toDualStd P) 0 0 [0] [5, 0] [1] = true ∧ feasible P [5] = false := by
  decide +kernel

/-- P: max −x s.t. x ≤ 5, −1 ≤ x.  The dual solver's standard form has x ≥ 0: its legal optimum
x = 0 (objective 0) is feasible for P but not optimal (x = −1 has objective 1) -/
theorem C09_dual_standard_form_counterexample_lower :
    let P : Problem := { c := [-1], a := [[1]], b := [5], lo := [-1], up := [none] }
    P.wf = true ∧ legalOptimal (toDualStd P) 0 0 [1] [0, 5] [0] = true ∧
      feasible P [-1] = true ∧ dot P.c [0] < dot P.c [-1] := by
  decide +kernel

/-- recorded warm-start run on the pinned tree (suite `lp --mode exh --universe 1`, case `lp-exh-371`;
replay:
```
case w
lp.prob first nv=1 nc=2 c=0 a=0;13830554455654793216; b=0,13830554455654793216 lo=0 up=9218868437227405312 ftol=4517329193108106637 otol=4517329193108106637
lp.sol cold
lp.sol warm-self
```
): `max 0 s.t. 0·x ≤ 0, −x ≤ −1, 0 ≤ x` satisfies the guard `l = 0, u = +∞`; the cold solve returns
the legal basis `[1, 0]` with x = 1; `solve_warmstart` from that basis returns the same (legal)
basis but the point x = 0, which violates the second row: `DualSimplex::solve`
(simplex_dual.rs:101-110) indexes the variable-indexed vector returned by `Basis::solve_basic`
by basis position when it assembles `x` -/
theorem C09_warmstart_counterexample :
    let P : Problem := { c := [0], a := [[0], [-1]], b := [0, -1], lo := [0], up := [none] }
    P.wf = true ∧ dualFormGuard P = true ∧
      legalOptimal (toDualStd P) 0 0 [1, 0] [1, 0, 0] [0, 0] = true ∧
      feasible P [1] = true ∧ feasible P [0] = false := by
  decide +kernel

/-- two legal terminal states (of the same standard form) have the same objective: a legal
warm-started answer agrees with a legal cold answer -/
theorem C09_warmstart_agrees (S : Std) (b1 b2 : List Nat) (x1 y1 x2 y2 : Vec)
    (h1 : legalOptimal S 0 0 b1 x1 y1 = true) (h2 : legalOptimal S 0 0 b2 x2 y2 = true) :
    dot S.c x1 = dot S.c x2 := by
  obtain ⟨f1, o1⟩ := C09_legal_optimal_is_optimal _ _ _ _ h1
  obtain ⟨f2, o2⟩ := C09_legal_optimal_is_optimal _ _ _ _ h2
  have a := o1 _ f2
  have b := o2 _ f1
  grind

/-- cold primal (shifted form) vs warm dual (unshifted form) under the guard `l = 0, u = +∞`:
the reported objectives agree -/
theorem C09_warmstart_agrees_forms (P : Problem) (hw : P.wf = true) (hg : dualFormGuard P = true)
    (b1 b2 : List Nat) (z1 y1 z2 y2 : Vec)
    (h1 : legalOptimal (toStd P) 0 0 b1 z1 y1 = true) (h2 : legalOptimal (toDualStd P) 0 0 b2 z2 y2 = true) :
    backObj P z1 = dot (toDualStd P).c z2 := by
  have hlo : ∀ l ∈ P.lo, l = 0 := by
    simp only [dualFormGuard, Bool.and_eq_true, List.all_eq_true, decide_eq_true_eq] at hg
    exact hg.1
  rw [toDualStd_eq P (wf_of P hw) hg] at h2 ⊢
  have := C09_warmstart_agrees _ _ _ _ _ _ _ h1 h2
  rw [backObj, dot_allzero P.c P.lo hlo, this]; grind

/-! ### the defect on the pinned tree and the validated region -/

/-- when the slack basis is feasible (Phase I skipped) the bounded problem is feasible: `x = l` -/
theorem C09_guard_feasible (P : Problem) (hw : P.wf = true) (hg : noPhaseOne 0 P = true) :
    feasible P P.lo = true := by
  have hW := wf_of P hw
  simp only [noPhaseOne, toStd, List.all_append, Bool.and_eq_true, List.all_eq_true, decide_eq_true_eq] at hg
  obtain ⟨h1, _⟩ := hg
  simp only [Problem.wf, Bool.and_eq_true] at hw
  have hbo := hw.2
  simp only [feasible, feasibleTol, Bool.and_eq_true]
  constructor
  · exact rowsLe_of_bAdj P.lo P.a P.b hW.ab (fun v hv => by have := h1 v hv; grind)
  · exact boundsOk_of_ordered P.lo P.up hbo

/-- recorded run on the pinned tree (suite `lp --mode exh --universe 1`, case `lp-exh-672`; replay:
```
case w
lp.prob first nv=1 nc=2 c=13830554455654793216 a=13830554455654793216;13830554455654793216; b=13830554455654793216,0 lo=13830554455654793216 up=9218868437227405312 ftol=4517329193108106637 otol=4517329193108106637
lp.sol cold
```
): `max −x s.t. −x ≤ −1, −x ≤ 0, −1 ≤ x` needs Phase I (`b − A·l = (−2, −1)`); its optimum is
x = 1 (objective −1).  `solve` returns `Optimal, x = 0, objective 0, basis [0, 1]`: the point
violates the first row and the reported objective exceeds the optimum.  The exact basic solution
of that basis is `(x', s₀, s₁) = (1, −1, 0)`: the terminal state is not primal feasible. -/
theorem C09_optimal_counterexample :
    let P : Problem := { c := [-1], a := [[-1], [-1]], b := [-1, 0], lo := [-1], up := [none] }
    let r : Report := { status := .optimal, x := [0], objective := 0, basis := [0, 1] }
    P.wf = true ∧ noPhaseOne 0 P = false ∧ feasible P r.x = false ∧
      feasible P [1] = true ∧ dot P.c [1] < r.objective ∧
      matVec (toStd P).a [1, -1, 0] = (toStd P).b := by
  decide +kernel

/-- hence the terminal-state claim is false for that run -/
theorem C09_terminal_claim_counterexample :
    let P : Problem := { c := [-1], a := [[-1], [-1]], b := [-1, 0], lo := [-1], up := [none] }
    let r : Report := { status := .optimal, x := [0], objective := 0, basis := [0, 1] }
    ¬ TerminalClaim P r := by
  intro P r hc
  have h := (C09_optimal P (by decide +kernel) r hc rfl).1
  have : feasible P r.x = false := by decide +kernel
  rw [this] at h
  cases h

/-- the validated region: Phase I skipped (slack basis feasible after the lower-bound shift).
There the problem is feasible, and an `Optimal` report with a legal terminal state is feasible,
optimal, and reports `c·x` -/
theorem C09_optimal_partial (P : Problem) (hw : P.wf = true) (hg : noPhaseOne 0 P = true)
    (r : Report) (hc : TerminalClaim P r) (ho : r.status = .optimal) :
    feasible P P.lo = true ∧ feasible P r.x = true ∧ r.objective = dot P.c r.x ∧
      ∀ x, feasible P x = true → dot P.c x ≤ r.objective :=
  ⟨C09_guard_feasible P hw hg, C09_optimal P hw r hc ho⟩

/-! ### the pivoting rules (`Model/Simplex.lean`)

`pivot` is one iteration of the code's loops (both phases): reduced costs, stop test
`is_dual_feasible` (all `≤ otol`), `find_entering_variable` (largest reduced cost above 0, first
non-basic position on ties), search direction, `find_leaving_variable` (rows with `d_i > ftol`,
ratio `max(0, x_i)/d_i`, first basis position on ties), `swap`, `factorize`.  That the real code
walks the same basis sequence is validated by the op `lp.trace` on runs without rounding. -/

/-- a basis is primal feasible when a feasible point of the standard form vanishes off it -/
def PrimalFeasibleBasis (S : Std) (basic : List Nat) : Prop :=
  ∃ z, stdFeasible S z = true ∧ offBasis basic none 0 z = true

/-- exact arithmetic, feasibility tolerance 0: a ratio-test pivot from a primal-feasible basis
yields a primal-feasible basis (the point `z + θ·η` of the edge, `θ` = the winning ratio) -/
theorem C09_pivot_keeps_feasible (S : Std) (otol : Rat) (st st' : Bas) (z : Vec)
    (h : pivot S 0 otol st = .next st') (hz : basicPoint S st.basic = some z) (hz0 : ∀ w ∈ z, 0 ≤ w) :
    PrimalFeasibleBasis S st'.basic := by
  obtain ⟨z1, y, k, v, eta, l, θ, hz1, hy, hk, he, hl, rfl⟩ := unpack_next S 0 otol st st' h
  rw [hz] at hz1; cases hz1
  have D := pivotData_of S 0 st z y eta k v hz hy hk he
  obtain ⟨_, _, hlen, hb, hnn, hoff, _⟩ := pivot_point D Rat.le_refl hz0 l θ hl
  exact ⟨_, (stdFeasible_iff _ _).mpr ⟨hlen, hnn rfl, hb⟩, hoff⟩

/-- any feasibility tolerance `ftol ≥ 0`: the pivot moves along an edge on which the objective of
the maximisation form does not decrease: the new basis carries a solution `z'` of `A z' = b`,
vanishing off the new basis, with `c·z' = c·z + θ·r_e`, `θ ≥ 0`, `r_e > 0` -/
theorem C09_pivot_monotone (S : Std) (ftol otol : Rat) (hf : 0 ≤ ftol) (st st' : Bas) (z : Vec)
    (h : pivot S ftol otol st = .next st') (hz : basicPoint S st.basic = some z) (hz0 : ∀ w ∈ z, 0 ≤ w) :
    ∃ z', z'.length = S.c.length ∧ matVec S.a z' = S.b ∧ offBasis st'.basic none 0 z' = true ∧
      dot S.c z ≤ dot S.c z' := by
  obtain ⟨z1, y, k, v, eta, l, θ, hz1, hy, hk, he, hl, rfl⟩ := unpack_next S ftol otol st st' h
  rw [hz] at hz1; cases hz1
  have D := pivotData_of S ftol st z y eta k v hz hy hk he
  obtain ⟨hθ, _, hlen, hb, _, hoff, hobj⟩ := pivot_point D hf hz0 l θ hl
  refine ⟨_, hlen, hb, hoff, ?_⟩
  rw [hobj]
  have := Rat.mul_nonneg hθ (Rat.le_of_lt D.vpos)
  grind

/-- with a positive feasibility tolerance the ratio test ignores rows whose direction entry is in
`(0, ftol]`, and the pivot can leave the feasible region (finding `lp-pivot-abs`):
`max x s.t. (5/1024)·x ≤ 1, 0 ≤ x ≤ 1000` with `ftol = 1/100`: from the feasible slack basis
`[1, 2]` the pivot skips the row (5/1024 ≤ 1/100), takes the bound row and lands on the basis
`[1, 0]`, whose basic solution has the row slack `1 − 5000/1024 < 0` -/
theorem C09_pivot_tolerance_counterexample :
    let P : Problem := { c := [1], a := [[5/1024]], b := [1], lo := [0], up := [some 1000] }
    let st : Bas := Bas.initial 3 2
    pivot (toStd P) (1/100) (1/1000000) st = .next { basic := [1, 0], nonbasic := [2] } ∧
      basicPoint (toStd P) st.basic = some [0, 1, 1000] ∧
      basicPoint (toStd P) [1, 0] = some [1000, 1 - 5000/1024, 0] := by
  decide +kernel

/-- when the stop test fires (no reduced cost above `otol`) the basis, its basic solution and its
dual values form a terminal state accepted by the checker `legalOptimal` with the same
tolerances — for a well-formed basis whose basic solution is within `ftol` of feasibility -/
theorem C09_stop_is_optimal (S : Std) (ftol otol : Rat) (st : Bas) (z : Vec)
    (h : pivot S ftol otol st = .stop) (hz : basicPoint S st.basic = some z)
    (hbo : basisOk S.a.length S.c.length st.basic = true)
    (hcover : ∀ j, j < S.c.length → st.basic.contains j = false → j ∈ st.nonbasic)
    (hprimal : ∀ w ∈ z, -ftol ≤ w) :
    ∃ y, legalOptimal S ftol otol st.basic z y = true := by
  obtain ⟨z1, y, hz1, hy, hrc⟩ := unpack_stop S ftol otol st h
  rw [hz] at hz1; cases hz1
  exact ⟨y, stop_legal S ftol otol st z y hz hy hrc hbo hcover hprimal⟩

/-- tolerance 0: the stop is an optimum of the standard form -/
theorem C09_stop_is_optimal_exact (S : Std) (st : Bas) (z : Vec)
    (h : pivot S 0 0 st = .stop) (hz : basicPoint S st.basic = some z)
    (hbo : basisOk S.a.length S.c.length st.basic = true)
    (hcover : ∀ j, j < S.c.length → st.basic.contains j = false → j ∈ st.nonbasic)
    (hprimal : ∀ w ∈ z, 0 ≤ w) :
    stdFeasible S z = true ∧ ∀ z', stdFeasible S z' = true → dot S.c z' ≤ dot S.c z := by
  obtain ⟨y, hy⟩ := C09_stop_is_optimal S 0 0 st z h hz hbo hcover (fun w hw => by have := hprimal w hw; grind)
  exact C09_legal_optimal_is_optimal S st.basic z y hy

/-- with tolerances: every exactly feasible point `z'` has `c·z' ≤ c·z + otol·Σ z'` -/
theorem C09_stop_is_optimal_tol (S : Std) (ftol otol : Rat) (ho : 0 ≤ otol) (st : Bas) (z : Vec)
    (h : pivot S ftol otol st = .stop) (hz : basicPoint S st.basic = some z)
    (hbo : basisOk S.a.length S.c.length st.basic = true)
    (hcover : ∀ j, j < S.c.length → st.basic.contains j = false → j ∈ st.nonbasic)
    (hprimal : ∀ w ∈ z, -ftol ≤ w) :
    ∀ z', stdFeasible S z' = true → dot S.c z' ≤ dot S.c z + otol * sumv z' := by
  obtain ⟨y, hy⟩ := C09_stop_is_optimal S ftol otol st z h hz hbo hcover hprimal
  exact (C09_legal_optimal_tol S ftol otol st.basic z y ho hy).2.2.2

/-- tolerance 0: when no row passes the ratio test the LP is unbounded along the exhibited ray
`η ≥ 0`, `A η = 0`, `c·η = r_e > 0`: every `z + t·η` (`t ≥ 0`) is feasible and the objective
exceeds every bound -/
theorem C09_unbounded_sound (S : Std) (otol : Rat) (st : Bas) (z : Vec)
    (h : pivot S 0 otol st = .unbounded) (hz : basicPoint S st.basic = some z) (hz0 : ∀ w ∈ z, 0 ≤ w) :
    ∃ eta ρ, 0 < ρ ∧ (∀ t, 0 ≤ t → stdFeasible S (addv z (smul t eta)) = true ∧
        dot S.c (addv z (smul t eta)) = dot S.c z + t * ρ) ∧
      ∀ K : Rat, ∃ z', stdFeasible S z' = true ∧ K < dot S.c z' := by
  obtain ⟨z1, y, k, v, eta, hz1, hy, hk, he, hl⟩ := unpack_unbounded S 0 otol st h
  rw [hz] at hz1; cases hz1
  have D := pivotData_of S 0 st z y eta k v hz hy hk he
  have he0 := pivot_ray_nonneg D hl
  refine ⟨eta, v, D.vpos, fun t ht => ray_point_feasible D hz0 he0 t ht, ?_⟩
  intro K
  let t : Rat := (if K - dot S.c z < 0 then 0 else (K - dot S.c z) / v) + 1
  have hv := D.vpos
  have ht : 0 ≤ t := by
    show 0 ≤ (if K - dot S.c z < 0 then 0 else (K - dot S.c z) / v) + 1
    split
    · grind
    · rename_i hh
      have := div_nonneg_of (K - dot S.c z) v hv (by grind)
      grind
  obtain ⟨hfe, hob⟩ := ray_point_feasible D hz0 he0 t ht
  refine ⟨_, hfe, ?_⟩
  rw [hob]
  show K < dot S.c z + ((if K - dot S.c z < 0 then 0 else (K - dot S.c z) / v) + 1) * v
  split
  · grind
  · have : (K - dot S.c z) / v * v = K - dot S.c z := by grind
    grind

/-- run level, exact arithmetic (tolerances 0): from a basis that is well-formed, covers the columns
together with `nonbasic`, has independent columns and a non-negative basic solution, the Phase II
loop of the model can only answer `Optimal` at an optimum of the standard form and `Unbounded` on
an unbounded one (every basis it visits stays primal feasible: `inv_next`, `nonneg_next`) -/
theorem C09_phase2_sound (S : Std) : ∀ (fuel : Nat) (st : Bas) (tr : List Event), BasisInv S st →
    (∀ z, basicPoint S st.basic = some z → ∀ w ∈ z, 0 ≤ w) →
    ((phase2 S 0 0 fuel st tr).2.1 = Outcome.optimal →
        ∃ zf y, basicPoint S (phase2 S 0 0 fuel st tr).2.2.basic = some zf ∧
          legalOptimal S 0 0 (phase2 S 0 0 fuel st tr).2.2.basic zf y = true) ∧
    ((phase2 S 0 0 fuel st tr).2.1 = Outcome.unbounded →
        ∀ K : Rat, ∃ z', stdFeasible S z' = true ∧ K < dot S.c z') := by
  intro fuel
  induction fuel with
  | zero =>
    intro st tr _ _
    simp only [phase2]
    exact ⟨(fun h => nomatch h), (fun h => nomatch h)⟩
  | succ fuel ih =>
    intro st tr hI hz
    simp only [phase2]
    cases hp : pivot S 0 0 st with
    | stop =>
      simp only
      refine ⟨fun _ => ?_, (fun h => nomatch h)⟩
      obtain ⟨z, y, hz1, _, _⟩ := unpack_stop S 0 0 st hp
      obtain ⟨y', hy'⟩ := C09_stop_is_optimal S 0 0 st z hp hz1 hI.ok hI.cover
        (fun w hw => by have := hz z hz1 w hw; grind)
      exact ⟨z, y', hz1, hy'⟩
    | unbounded =>
      simp only
      refine ⟨(fun h => nomatch h), fun _ => ?_⟩
      obtain ⟨z, y, k, v, eta, hz1, _, _, _, _⟩ := unpack_unbounded S 0 0 st hp
      obtain ⟨_, _, _, _, hK⟩ := C09_unbounded_sound S 0 st z hp hz1 (hz z hz1)
      exact hK
    | next st' =>
      simp only
      exact ih st' _ (inv_next S 0 0 Rat.le_refl st st' hI hp) (nonneg_next S 0 st st' hI hp hz)
    | singular =>
      simp only
      exact ⟨(fun h => nomatch h), (fun h => nomatch h)⟩
    | err =>
      simp only
      exact ⟨(fun h => nomatch h), (fun h => nomatch h)⟩

/-- end to end for the bounded problem, exact arithmetic, when `phase_one` accepts the slack basis
(its basic solution `z0` is non-negative on the basis: the test `is_primal_feasible`): an `Optimal`
answer of the Phase II loop started there is a feasible point `x = z[..n] + l` of
`max c·x, Ax ≤ b, l ≤ x ≤ u` that no feasible point beats, with reported objective `c·x`; an
`Unbounded` answer means the problem has feasible points of arbitrarily large objective -/
theorem C09_run_sound_slack (P : Problem) (hw : P.wf = true) (z0 : Vec) (fuel : Nat) (tr : List Event)
    (hz0 : basicPoint (toStd P) (Bas.initial (toStd P).c.length (toStd P).a.length).basic = some z0)
    (hpf : ∀ j ∈ (Bas.initial (toStd P).c.length (toStd P).a.length).basic, 0 ≤ z0.getD j 0) :
    let r := phase2 (toStd P) 0 0 fuel (Bas.initial (toStd P).c.length (toStd P).a.length) tr
    (r.2.1 = Outcome.optimal → ∃ zf, basicPoint (toStd P) r.2.2.basic = some zf ∧
        feasible P (backX P zf) = true ∧ backObj P zf = dot P.c (backX P zf) ∧
        ∀ x, feasible P x = true → dot P.c x ≤ dot P.c (backX P zf)) ∧
    (r.2.1 = Outcome.unbounded → ∀ K : Rat, ∃ x, feasible P x = true ∧ K < dot P.c x) := by
  intro r
  have hW := wf_of P hw
  have hI := slack_basis_inv P hW
  have hnn : ∀ z, basicPoint (toStd P) (Bas.initial (toStd P).c.length (toStd P).a.length).basic = some z →
      ∀ w ∈ z, 0 ≤ w := by
    intro z hz
    rw [hz0] at hz; cases hz
    obtain ⟨a1, _, a3⟩ := basicPoint_spec _ _ z0 hz0
    apply forall_mem_of_getD
    intro i hi
    by_cases hb : (Bas.initial (toStd P).c.length (toStd P).a.length).basic.contains i = true
    · exact hpf i (by simpa using hb)
    · rw [offBasis_spec _ none z0 0 a3 i hi (by simpa using hb) (by simp)]; exact Rat.le_refl
  obtain ⟨h1, h2⟩ := C09_phase2_sound (toStd P) fuel _ tr hI hnn
  constructor
  · intro ho
    obtain ⟨zf, y, hzf, hl⟩ := h1 ho
    have hopt := C09_optimal P hw ⟨.optimal, backX P zf, backObj P zf, r.2.2.basic⟩ (fun _ => ⟨zf, y, hl, rfl, rfl⟩) rfl
    simp only at hopt
    exact ⟨zf, hzf, hopt.1, hopt.2.1, fun x hx => by have h3 := hopt.2.2 x hx; rw [← hopt.2.1]; exact h3⟩
  · intro hu K
    obtain ⟨z', hf, hK⟩ := h2 hu (K - dot P.c P.lo)
    obtain ⟨hfe, hob⟩ := (C09_standard_form_equiv P hw).2 z' hf
    refine ⟨backX P z', hfe, ?_⟩
    rw [hob, backObj]
    grind

/-- Phase I, exact arithmetic.  For a well-formed standard form `S` and its auxiliary problem:
(1) if `S` is feasible, every legal optimum of the auxiliary problem has artificial sum 0;
(2) a feasible point of the auxiliary problem with artificial sum 0 restricts to a feasible point
    of `S`, and if it vanishes off `basic` so does the restriction: the basis handed to Phase II
    (all of whose columns are original ones) is primal feasible;
(3) a legal optimum with positive artificial sum proves `S` infeasible -/
theorem C09_phase1_sound (S : Std) (hw : S.wf = true) :
    (∀ z basis w y, stdFeasible S z = true → legalOptimal (phase1Std S) 0 0 basis w y = true →
        artSum (phase1Std S) w = 0) ∧
    (∀ w basic, stdFeasible (phase1Std S) w = true → artSum (phase1Std S) w = 0 →
        offBasis basic none 0 w = true →
        stdFeasible S (w.take S.c.length) = true ∧ offBasis basic none 0 (w.take S.c.length) = true) ∧
    (∀ basis w y, legalOptimal (phase1Std S) 0 0 basis w y = true → 0 < artSum (phase1Std S) w →
        ∀ z, stdFeasible S z = false) := by
  have hW := stdWF_of S hw
  refine ⟨?_, ?_, ?_⟩
  · intro z basis w y hz hl
    obtain ⟨hf, hopt⟩ := C09_legal_optimal_is_optimal _ _ _ _ hl
    obtain ⟨he, he0⟩ := phase1_embed S hW z hz
    have h1 := hopt _ he
    rw [he0] at h1
    obtain ⟨hc, hnn, _⟩ := phase1_c_le S w hf
    have := sumv_nonneg _ hnn
    simp only [artSum]
    grind
  · intro w basic hf h0 hoff
    exact ⟨phase1_zero_feasible S hW w hf (by simp only [artSum] at h0; grind), offBasis_take _ _ _ hoff⟩
  · intro basis w y hl hpos z
    cases hz : stdFeasible S z with
    | false => rfl
    | true =>
      exfalso
      obtain ⟨_, hopt⟩ := C09_legal_optimal_is_optimal _ _ _ _ hl
      obtain ⟨he, he0⟩ := phase1_embed S hW z hz
      have h1 := hopt _ he
      rw [he0] at h1
      simp only [artSum] at hpos
      grind


/-- residue of finding `lp-phase1`, reproduced by the model: `max 3y − 3z s.t. 2x + 4y + 2z ≤ 24,
−4y − z ≤ −47/2, −2y ≤ −10, −3 ≤ x, 0 ≤ y ≤ 5, 2 ≤ z ≤ 5` is feasible (x = −3, y = 5, z = 7/2), yet
Phase I stops at the basis `[4, 2, 1, 7, 10]` of the auxiliary problem with artificial sum 0 and the
artificial column 10 still basic at level 0; the code does not pivot it out but "fills the
remaining slot" with an arbitrary original column (simplex_primal.rs:351-385), the resulting basis
is singular and `solve` returns `Err(NumericalInstability)`.  Same basis sequence in the real code:
```
case w
lp.prob first nv=3 nc=3 c=0,4613937818241073152,13837309855095848960 a=4611686018427387904,4616189618054758400,4611686018427387904;0,13839561654909534208,13830554455654793216;0,13835058055282163712,0; b=4627448617123184640,13850679916489605120,13845191154443747328 lo=13837309855095848960,0,4611686018427387904 up=9218868437227405312,4617315517961601024,4617315517961601024 ftol=4517329193108106637 otol=4517329193108106637
lp.sol cold
lp.trace
``` -/
theorem C09_phase1_residue_counterexample :
    let P : Problem := { c := [0, 3, -3], a := [[2, 4, 2], [0, -4, -1], [0, -2, 0]], b := [24, -47/2, -10],
                         lo := [-3, 0, 2], up := [none, some 5, some 5] }
    P.wf = true ∧ feasible P [-3, 5, 7/2] = true ∧
      solvePrimal P (1/1000000) (1/1000000) 10000 =
        ([(0, [3, 4, 5, 6, 7]), (1, [8, 9, 10, 11, 12]), (1, [8, 9, 1, 11, 12]), (1, [8, 9, 1, 5, 12]),
          (1, [8, 2, 1, 5, 12]), (1, [8, 2, 1, 6, 12]), (1, [8, 2, 1, 6, 10]), (1, [0, 2, 1, 6, 10]),
          (1, [4, 2, 1, 6, 10]), (1, [4, 2, 1, 7, 10])], Outcome.errInstability, []) := by
  decide +kernel

/-! ### non-vacuity -/

/-- max 3x + 2y s.t. x + y ≤ 5, 0 ≤ x, −1/2 ≤ y ≤ 4: hypotheses of `C09_optimal` are satisfiable -/
example :
    let P : Problem := { c := [3, 2], a := [[1, 1]], b := [5], lo := [0, -1/2], up := [none, some 4] }
    P.wf = true ∧ noPhaseOne 0 P = true ∧
      legalOptimal (toStd P) 0 0 [0, 3] [11/2, 0, 0, 9/2] [3, 0] = true ∧
      backX P [11/2, 0, 0, 9/2] = [11/2, -1/2] ∧ backObj P [11/2, 0, 0, 9/2] = 31/2 := by
  decide +kernel

/-- a legal Phase-I optimum with positive artificial sum exists: `x ≤ −1, 0 ≤ x ≤ 2` -/
example :
    let P : Problem := { c := [1], a := [[1]], b := [-1], lo := [0], up := [some 2] }
    P.wf = true ∧
      legalOptimal (phase1Std (toStd P)) 0 0 [3, 2] [0, 0, 2, 1, 0] [-1, 0] = true ∧
      dot (phase1Std (toStd P)).c [0, 0, 2, 1, 0] < 0 := by
  decide +kernel

/-- the dual-form guard is satisfiable together with a legal terminal state -/
example :
    let P : Problem := { c := [1, 1], a := [[1, 1]], b := [5], lo := [0, 0], up := [none, none] }
    P.wf = true ∧ dualFormGuard P = true ∧ legalOptimal (toDualStd P) 0 0 [0] [5, 0, 0] [1] = true := by
  decide +kernel

/-- the pivot hypotheses are satisfiable: `max 3x + 2y s.t. x + y ≤ 5, 0 ≤ x, −1/2 ≤ y ≤ 4`: from the
slack basis `[2, 3]` one pivot (entering column 0) reaches `[0, 3]`, where the stop test fires -/
example :
    let P : Problem := { c := [3, 2], a := [[1, 1]], b := [5], lo := [0, -1/2], up := [none, some 4] }
    pivot (toStd P) 0 0 (Bas.initial 4 2) = .next { basic := [0, 3], nonbasic := [2, 1] } ∧
      basicPoint (toStd P) [2, 3] = some [0, 0, 11/2, 9/2] ∧
      pivot (toStd P) 0 0 { basic := [0, 3], nonbasic := [2, 1] } = .stop ∧
      solvePrimal P 0 0 100 = ([(0, [2, 3]), (2, [2, 3]), (2, [0, 3])], Outcome.optimal, [0, 3]) := by
  decide +kernel

/-- bit patterns: 1.0, 0.5, −2.0, the smallest subnormal, +∞, NaN -/
example :
    f64ToRat 4607182418800017408 = some 1 ∧ f64ToRat 4602678819172646912 = some (1/2) ∧
      f64ToRat 13835058055282163712 = some (-2) ∧ f64ToRat 1 = some (mkRat 1 (2 ^ 1074)) ∧
      f64ToRat 9218868437227405312 = none ∧ f64OfBits 9221120237041090560 = F64.nan := by
  decide +kernel

end C09
end Selen

/-
Property C08 — "For a model with float or mixed variables and linear constraints, minimize/maximize
of a variable returns an assignment that satisfies all constraints within the precision tolerance
and whose objective equals the true optimum within that tolerance; it returns an error only if the
model is infeasible or a limit is hit."

What is proved, about the decision-logic model `Model/Opt.lean` at exact rationals (`Num Rat`):

(1) the optimisation fast path (`OptimizationRouter`, run on the not-yet-lowered model after the
    validator, and only when no deferred constraint is waiting).
    Full strength — "whenever the fast path answers, its point is feasible and optimal" — is FALSE of
    the code; one kernel-checked counterexample per OPEN defect class
    (`C08_fast_path_counterexample_*`; each is replayed on the real code by the harness and tagged):
      · constraints on / with other variables are never consulted       `fast-path-ignores-nonobjective-rows`
      · props-level linear rows carry N-ary metadata, nothing extracted `fast-path-ignores-props-linear-rows`
      · for max only upper, for min only lower bounds are combined      `fast-path-ignores-opposite-bounds`
      · orientations the analysis does not match (`c == x`, `c < x`)    `fast-path-unextracted-bound-shape`
      · a declined `maximize` re-enters the router through
        `minimize(opposite)` and the variable is MINIMISED              `fast-path-max-falls-into-min`
    Repaired classes, now theorems about the same witnesses:
      · deferred constraints were invisible (c9cb80d)        `C08_fast_path_pending_declines`
      · an integer objective was replaced by the only float variable (9b99c03)
                                                             `C08_fast_path_integer_objective_declines`
      · invalid domains were answered `Ok` (87f7dea)         `C08_fast_path_invalid_model_rejected`
    `C08_fast_path_sound_partial`: under the decidable guard `fastGuard` (only props-level
    non-strict bounds on the objective variable, consistent, answer not taken from propagation)
    the fast answer of `minimize` / `maximize` is feasible and optimal
    (`C08_router_sound_partial`: the same for the router called on its own, under `routerGuard`).
(2) the root LP step.  `C08_root_lp_is_relaxation`: the `LpProblem` built at the root (the model
    `lpProblem`, compared bit for bit with the problem hook H9 records inside the search) is a
    relaxation of the collected linear rows inside the current bounds, with the search objective —
    under `relaxGuard` (substituted constants are really fixed);
    `C08_root_lp_duplicate_variable_accumulates`: since fix 02fabc4 the coefficients of a repeated
    variable add up (before, only the last one survived and the LP cut off solutions);
    `C08_root_lp_objective_bound` combines the relaxation with weak duality.  `C08_lp_bound_transfer_sound`: from a legal optimal certificate of the LP
    relaxation, tightening the OBJECTIVE variable's bound to the LP optimum keeps every solution
    of the mixed model that is at least as good as any given one (weak duality, `Lemmas/Lp.lean`);
    `C08_lp_vertex_transfer_counterexample`: what the code does — fixing every LP variable to the
    vertex (`apply_lp_solution`) — loses all solutions of a satisfiable mixed model (`root-lp`).
(3) errors.  `C08_error_only_if_infeasible` is false for the modelled paths
    (`…_counterexample`: the vertex transfer fails on a fractional integer coordinate and the search
    ends with `NoSolution`); `…_partial`: `InvalidDomain` only for models without any feasible
    assignment, the fast path never errs, and a `NoSolution` that comes from a certified-infeasible
    LP relaxation is justified.

Not covered: IEEE rounding (the driver runs the same definitions at `Float`, compared bit for bit
by suite `opt`), the propagation run behind `ConstraintAwareOptimizer` (an input of the model),
the branch-and-bound search after the root (C04's subject) and the simplex itself (C09).
-/
import SelenModel.Lemmas.Opt
import SelenModel.Lemmas.Lp
import SelenModel.Props.C09

namespace Selen
namespace C08
open Opt Num

/-! ### (1) fast path: sound under the guard -/

theorem varsOk_get : ∀ (vars : List (FVar Rat)) (a : List Rat) (j : Nat) (var : FVar Rat),
    varsOk vars a = true → vars[j]? = some var → varOk var (a.getD j 0) = true := by
  intro vars
  induction vars with
  | nil => intro a j var _ h; simp at h
  | cons v vs ih =>
    intro a j var h hj
    cases a with
    | nil => simp [varsOk] at h
    | cons x xs =>
      simp only [varsOk, Bool.and_eq_true] at h
      cases j with
      | zero => simp only [List.getElem?_cons_zero, Option.some.injEq] at hj; subst hj; simpa using h.1
      | succ j => simpa using ih xs j var h.2 (by simpa using hj)

/-- a visible bound post registers metadata: with no metadata at all there is no post -/
theorem posts_nil_of_no_meta (m : OModel Rat) (obj : Nat) (hb : m.posts.all (boundPost obj) = true)
    (h : m.propsNonEmpty = false) : m.posts = [] := by
  cases hp : m.posts with
  | nil => rfl
  | cons p ps =>
    rw [hp] at hb
    simp only [List.all_cons, Bool.and_eq_true] at hb
    have hm : ∃ md, p.meta = some md := by
      cases p with
      | cmp rel l r => cases rel <;> simp [Post.meta]
      | plin isEq cs xs rhs => simp [boundPost] at hb
      | pend rel cs xs rhs lp scan => simp [boundPost] at hb
    obtain ⟨md, hmd⟩ := hm
    simp [OModel.propsNonEmpty, OModel.metas, hp, hmd] at h

/-- **router level.**  Under `routerGuard` an answer of `OptimizationRouter::try_{min,max}imize`
(called on its own) is a feasible point of the model (domains and every posted constraint) and no
feasible point is better. -/
theorem C08_router_sound_partial (m : OModel Rat) (pbs : List (Option (Rat × Rat))) (isMax : Bool)
    (obj : Nat) (sol : List (FVal Rat))
    (hg : routerGuard m isMax obj = true) (h : route m pbs isMax obj = .fast sol) :
    feasible m (solPoint sol) = true ∧
      ∀ a, feasible m a = true → atLeastAsGood isMax (a.getD obj 0) ((solPoint sol).getD obj 0) := by
  -- unpack the guard
  simp only [routerGuard, Bool.and_eq_true, Bool.not_eq_true'] at hg
  obtain ⟨⟨⟨⟨hv, hne⟩, hb⟩, hcons⟩, hnp⟩ := hg
  cases hvo : m.vars[obj]? with
  | none => rw [hvo] at hv; simp at hv
  | some var =>
  cases var with
  | int d => rw [hvo] at hv; simp at hv
  | flt iv =>
  rw [hvo] at hv
  simp only [Bool.and_eq_true, decide_eq_true_eq, List.all_eq_true] at hv hcons
  obtain ⟨⟨hmm, hlo⟩, hup⟩ := hv
  -- the router answered through `trySafe` on the objective variable itself
  obtain ⟨x, hx, ht⟩ := route_fast m pbs isMax obj sol h
  rw [extractSimple_float m.vars obj iv hvo] at hx
  cases hx
  -- the value the objective gets
  have key : ∃ v, createSol obj v 0 m.vars = some sol ∧ iv.min ≤ v ∧ v ≤ iv.max ∧
      (∀ u ∈ m.posts.flatMap upOf, v ≤ u) ∧ (∀ l ∈ m.posts.flatMap loOf, l ≤ v) ∧
      (∀ t : Rat, iv.min ≤ t → t ≤ iv.max → (∀ u ∈ m.posts.flatMap upOf, t ≤ u) →
        (∀ l ∈ m.posts.flatMap loOf, l ≤ t) → atLeastAsGood isMax t v) := by
    have mk : ∀ v, mkSol m obj v = .fast sol → createSol obj v 0 m.vars = some sol := by
      intro v hmk
      simp only [mkSol] at hmk
      split at hmk
      · rename_i s hs; cases hmk; exact hs
      · simp at hmk
    simp only [trySafe, hvo] at ht
    cases hp : m.propsNonEmpty with
    | false =>
      rw [hp] at ht
      simp only [Bool.false_eq_true, if_false] at ht
      have hnil := posts_nil_of_no_meta m obj hb hp
      refine ⟨_, mk _ ht, ?_, ?_, ?_, ?_, ?_⟩
      · cases isMax <;> simp [hmm]
      · cases isMax <;> simp [hmm]
      · simp [hnil]
      · simp [hnil]
      · intro t h1 h2 _ _; cases isMax <;> simp [atLeastAsGood, h1, h2]
    | true =>
      rw [hp] at ht
      simp only [if_true] at ht
      -- the guard excludes the propagation input
      simp only [usesProp, hvo, hp, Bool.true_and] at hnp
      cases htm : tryMeta iv obj m.metas isMax with
      | none => rw [htm] at hnp; simp at hnp
      | some r =>
        cases r with
        | fail => rw [htm] at hnp; simp at hnp
        | ok v =>
          simp only [withPrecision, htm] at ht
          have hU := effUpper_bound m obj hb
          have hL := effLower_bound m obj hb
          simp only [tryMeta] at htm
          split at htm
          · simp at htm
          · cases isMax with
            | true =>
              simp only [if_true] at htm
              cases hu : effUpper obj m.metas with
              | some u =>
                rw [hu] at htm hU
                simp only at htm hU
                split at htm
                · simp at htm
                · rename_i hin
                  split at htm
                  · simp at htm
                  simp only [Option.some.injEq, ORes.ok.injEq] at htm
                  subst htm
                  num_simp at hin
                  simp only [Bool.or_eq_true, decide_eq_true_eq, not_or, Rat.not_lt] at hin
                  refine ⟨u, mk _ ht, hin.1, hin.2, hU.2, fun l hl => hcons l hl u hU.1, ?_⟩
                  intro t _ _ h3 _
                  simp only [atLeastAsGood, if_true]
                  exact h3 u hU.1
              | none =>
                rw [hu] at htm hU
                simp only at htm hU
                split at htm
                · simp at htm
                · rename_i heq
                  split at heq
                  · simp at heq
                  · cases heq
                    split at htm
                    · simp at htm
                    split at htm
                    · simp at htm
                    simp only [Option.some.injEq, ORes.ok.injEq] at htm
                    subst htm
                    refine ⟨iv.max, mk _ ht, hmm, Rat.le_refl, ?_, fun l hl => hlo l hl, ?_⟩
                    · rw [hU]; simp
                    · intro t _ h2 _ _
                      simp only [atLeastAsGood, if_true]
                      exact h2
            | false =>
              simp only [Bool.false_eq_true, if_false] at htm
              cases hl : effLower obj m.metas with
              | some l =>
                rw [hl] at htm hL
                simp only at htm hL
                split at htm
                · simp at htm
                · rename_i hin
                  split at htm
                  · simp at htm
                  simp only [Option.some.injEq, ORes.ok.injEq] at htm
                  subst htm
                  num_simp at hin
                  simp only [Bool.or_eq_true, decide_eq_true_eq, not_or, Rat.not_lt] at hin
                  refine ⟨l, mk _ ht, hin.1, hin.2, fun u hu => hcons l hL.1 u hu, hL.2, ?_⟩
                  intro t _ _ _ h4
                  simp only [atLeastAsGood, Bool.false_eq_true, if_false]
                  exact h4 l hL.1
              | none =>
                rw [hl] at htm hL
                simp only at htm hL
                split at htm
                · simp at htm
                · rename_i heq
                  split at heq
                  · simp at heq
                  · cases heq
                    split at htm
                    · simp at htm
                    split at htm
                    · simp at htm
                    simp only [Option.some.injEq, ORes.ok.injEq] at htm
                    subst htm
                    refine ⟨iv.min, mk _ ht, Rat.le_refl, hmm, fun u hu => hup u hu, ?_, ?_⟩
                    · rw [hL]; simp
                    · intro t h1 _ _ _
                      simp only [atLeastAsGood, Bool.false_eq_true, if_false]
                      exact h1
  obtain ⟨v, hcs, hv1, hv2, hvu, hvl, hopt⟩ := key
  have hlen : obj < m.vars.length := by
    have := List.getElem?_eq_some_iff.mp hvo
    exact this.1
  have hobj : (solPoint sol).getD obj 0 = v := createSol_obj obj v m.vars 0 sol hcs obj hlen (by omega)
  constructor
  · -- feasibility
    simp only [feasible, Bool.and_eq_true]
    constructor
    · refine createSol_varsOk obj v m.vars 0 sol hcs hne ?_
      intro j var hj hij
      have : j = obj := by omega
      subst this
      rw [hvo] at hj
      cases hj
      simp only [varOk, Bool.and_eq_true]
      exact ⟨decide_eq_true hv1, decide_eq_true hv2⟩
    · rw [all_holds_bound obj _ m.posts hb, hobj]
      exact ⟨hvu, hvl⟩
  · -- optimality
    intro a ha
    simp only [feasible, Bool.and_eq_true] at ha
    have hva := varsOk_get m.vars a obj (.flt iv) ha.1 hvo
    simp only [varOk, Bool.and_eq_true, decide_eq_true_eq] at hva
    have hpa := (all_holds_bound obj a m.posts hb).mp ha.2
    rw [hobj]
    exact hopt _ hva.1 hva.2 hpa.1 hpa.2

/-- **C08 (fast path), partial.**  Under `fastGuard` a fast-path answer of `Model::minimize` /
`Model::maximize` is a feasible point of the model (domains and every posted constraint, whatever
route it was posted by) and no feasible point is better.  Validity of the domains, absence of
deferred constraints and "the objective is a float variable" are no longer hypotheses: the entry
point establishes them before the router's answer is used. -/
theorem C08_fast_path_sound_partial (m : OModel Rat) (pbs : List (Option (Rat × Rat))) (isMax : Bool)
    (obj : Nat) (sol : List (FVal Rat))
    (hg : fastGuard m isMax obj = true) (h : entry m pbs isMax obj = .fast sol) :
    feasible m (solPoint sol) = true ∧
      ∀ a, feasible m a = true → atLeastAsGood isMax (a.getD obj 0) ((solPoint sol).getD obj 0) := by
  simp only [fastGuard, Bool.and_eq_true, Bool.not_eq_true'] at hg
  obtain ⟨⟨⟨hv, hb⟩, hcons⟩, hnp⟩ := hg
  -- the entry point validated the model and found no deferred constraint
  simp only [entry] at h
  cases hval : m.vars.all validVar with
  | false => rw [hval] at h; simp at h
  | true =>
  rw [hval] at h
  simp only [Bool.not_true, Bool.false_eq_true, if_false] at h
  cases hpend : m.hasPending with
  | true => rw [hpend] at h; simp at h
  | false =>
  rw [hpend] at h
  simp only [Bool.false_eq_true, if_false] at h
  -- the router itself answered, in the requested direction
  have hroute : route m pbs isMax obj = .fast sol := by
    cases hr : route m pbs isMax obj with
    | fast s => rw [hr] at h; simpa using h
    | panic => rw [hr] at h; simp at h
    | declined r =>
      rw [hr] at h
      simp only at h
      cases isMax with
      | false => simp at h
      | true =>
        simp only [if_true] at h
        -- `minimize(opposite)` answered: impossible when the maximisation does not use propagation
        exfalso
        cases hr2 : route m pbs false obj with
        | panic => rw [hr2] at h; simp at h
        | declined r2 => rw [hr2] at h; simp at h
        | fast s2 =>
          obtain ⟨hcl, hcx⟩ := route_min_fast_pure m pbs obj s2 hr2
          obtain ⟨x, hx, _⟩ := route_fast m pbs false obj s2 hr2
          obtain ⟨hxo, iv, hiv⟩ := extractSimple_some m.vars obj x hx
          subst hxo
          have : route m pbs true x = trySafe m pbs true x := by
            simp only [route, hx, hcl, hcx, Bool.false_eq_true, if_false]
          rw [this] at hr
          exact trySafe_not_declined m pbs true x iv hiv hnp r hr
  obtain ⟨x, hx, _⟩ := route_fast m pbs isMax obj sol hroute
  obtain ⟨_, iv, hiv⟩ := extractSimple_some m.vars obj x hx
  have hne : m.vars.all nonEmptyVar = true := by
    simp only [List.all_eq_true] at hval ⊢
    exact fun v hv' => validVar_nonEmpty v (hval v hv')
  have hmm : iv.min ≤ iv.max := by
    have hmem : (FVar.flt iv) ∈ m.vars := List.mem_of_getElem? hiv
    have := validVar_nonEmpty _ ((List.all_eq_true.mp hval) _ hmem)
    simpa [nonEmptyVar] using this
  refine C08_router_sound_partial m pbs isMax obj sol ?_ hroute
  rw [hiv] at hv
  simp only [routerGuard, hiv, Bool.and_eq_true, Bool.not_eq_true', decide_eq_true_eq]
  simp only [Bool.and_eq_true] at hv
  exact ⟨⟨⟨⟨⟨⟨hmm, hv.1⟩, hv.2⟩, hne⟩, hb⟩, hcons⟩, hnp⟩

/-! ### the consistency hypotheses follow from the repaired metadata stage (fix f3877d1) -/

/-- since fix f3877d1 the metadata stage accepts a candidate only if it respects the registered
bounds of BOTH sides: whenever it answers (`usesProp = false`), all bound rows on the objective are
consistent with each other and with its domain.  These were hypotheses of the guards before. -/
theorem consistent_of_meta_answer (m : OModel Rat) (isMax : Bool) (obj : Nat) (iv : FI Rat)
    (hvo : m.vars[obj]? = some (.flt iv)) (hb : m.posts.all (boundPost obj) = true)
    (hnp : usesProp m isMax obj = false) :
    (∀ l ∈ m.posts.flatMap loOf, l ≤ iv.max) ∧ (∀ u ∈ m.posts.flatMap upOf, iv.min ≤ u) ∧
      (∀ l ∈ m.posts.flatMap loOf, ∀ u ∈ m.posts.flatMap upOf, l ≤ u) := by
  cases hp : m.propsNonEmpty with
  | false =>
    have hnil := posts_nil_of_no_meta m obj hb hp
    simp [hnil]
  | true =>
    simp only [usesProp, hvo, hp, Bool.true_and] at hnp
    cases htm : tryMeta iv obj m.metas isMax with
    | none => rw [htm] at hnp; simp at hnp
    | some r =>
      cases r with
      | fail => rw [htm] at hnp; simp at hnp
      | ok v =>
        have hU := effUpper_bound m obj hb
        have hL := effLower_bound m obj hb
        -- the accepted candidate lies in the domain and respects both effective bounds
        have key : iv.min ≤ v ∧ v ≤ iv.max ∧ oppViolated obj m.metas v = false := by
          simp only [tryMeta] at htm
          split at htm
          · simp at htm
          · split at htm
            · simp at htm
            · rename_i c hc
              split at htm
              · simp at htm
              · rename_i hin
                split at htm
                · simp at htm
                · rename_i hov
                  simp only [Option.some.injEq, ORes.ok.injEq] at htm
                  subst htm
                  num_simp at hin
                  simp only [Bool.or_eq_true, decide_eq_true_eq, not_or, Rat.not_lt] at hin
                  exact ⟨hin.1, hin.2, by simpa using hov⟩
        obtain ⟨h1, h2, h3⟩ := key
        simp only [oppViolated, Bool.or_eq_false_iff] at h3
        have hlo : ∀ l ∈ m.posts.flatMap loOf, l ≤ v := by
          intro l hl
          cases hel : effLower obj m.metas with
          | none => rw [hel] at hL; simp only at hL; rw [hL] at hl; simp at hl
          | some l0 =>
            rw [hel] at hL h3
            simp only at hL h3
            have := h3.1
            num_simp at this
            simp only [decide_eq_false_iff_not, Rat.not_lt] at this
            exact Rat.le_trans (hL.2 l hl) this
        have hup : ∀ u ∈ m.posts.flatMap upOf, v ≤ u := by
          intro u hu
          cases heu : effUpper obj m.metas with
          | none => rw [heu] at hU; simp only at hU; rw [hU] at hu; simp at hu
          | some u0 =>
            rw [heu] at hU h3
            simp only at hU h3
            have := h3.2
            num_simp at this
            simp only [decide_eq_false_iff_not, Rat.not_lt] at this
            exact Rat.le_trans this (hU.2 u hu)
        refine ⟨fun l hl => Rat.le_trans (hlo l hl) h2, fun u hu => Rat.le_trans h1 (hup u hu),
          fun l hl u hu => Rat.le_trans (hlo l hl) (hup u hu)⟩

/-- the guard of `C08_fast_path_sound` : every posted constraint is a props-level non-strict bound
or `x = c` on the OBJECTIVE variable, and the router's answer does not come from the propagation
input.  No consistency hypothesis is left. -/
def fastGuard' (m : OModel Rat) (isMax : Bool) (obj : Nat) : Bool :=
  m.posts.all (boundPost obj) && !usesProp m isMax obj

/-- **C08 (fast path) after fix f3877d1.**  The statement of `C08_fast_path_sound_partial` without
its consistency hypotheses: under `fastGuard'` a fast-path answer of `Model::minimize` /
`Model::maximize` is a feasible point of the model and no feasible point is better — in particular
the fast path no longer answers a model whose bound rows are inconsistent. -/
theorem C08_fast_path_sound (m : OModel Rat) (pbs : List (Option (Rat × Rat))) (isMax : Bool)
    (obj : Nat) (sol : List (FVal Rat))
    (hg : fastGuard' m isMax obj = true) (h : entry m pbs isMax obj = .fast sol) :
    feasible m (solPoint sol) = true ∧
      ∀ a, feasible m a = true → atLeastAsGood isMax (a.getD obj 0) ((solPoint sol).getD obj 0) := by
  simp only [fastGuard', Bool.and_eq_true, Bool.not_eq_true'] at hg
  obtain ⟨hb, hnp⟩ := hg
  -- a fast-path answer comes from a router call on the objective, which is then a float variable
  have hflt : ∃ iv, m.vars[obj]? = some (.flt iv) := by
    have hr : ∃ d s, route m pbs d obj = .fast s := by
      simp only [entry] at h
      split at h
      · simp at h
      · split at h
        · simp at h
        · cases hr1 : route m pbs isMax obj with
          | fast s => exact ⟨isMax, s, hr1⟩
          | panic => rw [hr1] at h; simp at h
          | declined r =>
            rw [hr1] at h
            simp only at h
            split at h
            · cases hr2 : route m pbs false obj with
              | fast s => exact ⟨false, s, hr2⟩
              | panic => rw [hr2] at h; simp at h
              | declined r2 => rw [hr2] at h; simp at h
            · simp at h
    obtain ⟨d, s, hr⟩ := hr
    obtain ⟨x, hx, _⟩ := route_fast m pbs d obj s hr
    exact (extractSimple_some m.vars obj x hx).2
  obtain ⟨iv, hvo⟩ := hflt
  refine C08_fast_path_sound_partial m pbs isMax obj sol ?_ h
  obtain ⟨c1, c2, c3⟩ := consistent_of_meta_answer m isMax obj iv hvo hb hnp
  simp only [fastGuard, hvo, Bool.and_eq_true, Bool.not_eq_true', List.all_eq_true, decide_eq_true_eq]
  exact ⟨⟨⟨⟨c1, c2⟩, List.all_eq_true.mp hb⟩, c3⟩, hnp⟩

/-! ### (1) fast path: full strength is false — one counterexample per defect class -/

/-- the entry point answered through the fast path and the answer satisfies `p` -/
def fastAnswer (d : Path Rat) (p : List Rat → Bool) : Bool :=
  match d with
  | .fast s => p (solPoint s)
  | _ => false

/-- float variable `[lo, hi]` at precision 6 -/
def fl (lo hi : Rat) : FVar Rat := .flt { min := lo, max := hi, step := 1 / 1000000 }

/-- `x ∈ [0,10]`, `m.new(x.le(4.5))` (deferred, invisible to the router); `maximize(x)` -/
def mPending : OModel Rat := { vars := [fl 0 10], posts := [postFluent .le [1] [0] (9 / 2)] }

/-- **repaired** (fix c9cb80d; was the counterexample `fast-path-ignores-pending-rows`, answer
`x = 10`): while a deferred constraint is waiting to be lowered the entry point does not consult the
router and goes to the search path — although the router on its own, which cannot see `x ≤ 4.5`,
would still answer `x = 10`. -/
theorem C08_fast_path_pending_declines :
    (match entry mPending [] true 0 with | .search => true | _ => false) = true
      ∧ route mPending [] true 0 = .fast [.f 10] := by
  constructor <;> decide +kernel

/-- `x, y ∈ [0,10]`, props-level `y ≥ 8` (visible, but on another variable); `maximize(x)` -/
def mOther : OModel Rat := { vars := [fl 0 10, fl 0 10], posts := [.cmp .ge (.v 1) (.c 8)] }

/-- **counterexample** `fast-path-ignores-nonobjective-rows`: the answer is `(10, 5)` — `y` gets
the midpoint of its interval — which violates `y ≥ 8`; `(10, 8)` is feasible. -/
theorem C08_fast_path_counterexample_nonobjective :
    fastAnswer (entry mOther [some (0, 10), some (8, 10)] true 0) (fun a => a == [10, 5] && !feasible mOther a) = true
      ∧ feasible mOther [10, 8] = true := by
  constructor <;> decide +kernel

/-- `x ∈ [0,10]`, props-level `float_lin_le([2], [x], 8)`; `maximize(x)` -/
def mPropsLin : OModel Rat := { vars := [fl 0 10], posts := [.plin false [2] [0] 8] }

/-- **counterexample** `fast-path-ignores-props-linear-rows`: N-ary metadata yields no bound and
the domain is not a "fallback domain", so the answer is `x = 10` (true optimum 4) — the
propagation input, which knows `x ≤ 4`, is not consulted. -/
theorem C08_fast_path_counterexample_props_linear :
    fastAnswer (entry mPropsLin [some (0, 4)] true 0) (fun a => a == [10] && !feasible mPropsLin a) = true
      ∧ feasible mPropsLin [4] = true := by
  constructor <;> decide +kernel

/-- `x ∈ [0,10]`, props-level `x ≤ 3` and `x ≥ 5` (infeasible); `maximize(x)` -/
def mOpposite : OModel Rat := { vars := [fl 0 10], posts := [.cmp .le (.v 0) (.c 3), .cmp .ge (.v 0) (.c 5)] }

/-- **repaired** (was the counterexample `fast-path-ignores-opposite-bounds`: maximisation
combined the UPPER bounds only and answered `x = 3`, which violates `x ≥ 5`): the candidate is now
checked against the bounds of the other side as well, the metadata stage falls back to the
propagation run, which fails on this model, and both routers decline — `maximize` and `minimize`
go to the search path (which reports `NoSolution`). -/
theorem C08_fast_path_opposite_bounds_decline :
    (match route mOpposite [none] true 0 with | .declined .optimizerFailure => true | _ => false) = true
      ∧ (match route mOpposite [none] false 0 with | .declined .optimizerFailure => true | _ => false) = true
      ∧ (match entry mOpposite [none] true 0 with | .search => true | _ => false) = true
      ∧ (match entry mOpposite [none] false 0 with | .search => true | _ => false) = true := by
  refine ⟨?_, ?_, ?_, ?_⟩ <;> decide +kernel

/-- `x ∈ [0,10]`, props-level `equals(4, x)` — constant on the LEFT; `maximize(x)` -/
def mShape : OModel Rat := { vars := [fl 0 10], posts := [.cmp .eq (.c 4) (.v 0)] }

/-- **counterexample** `fast-path-unextracted-bound-shape`: only `x == c` is matched, not `c == x`;
the answer is `x = 10`, the only solution is `x = 4`. -/
theorem C08_fast_path_counterexample_shape :
    fastAnswer (entry mShape [some (4, 4)] true 0) (fun a => a == [10] && !feasible mShape a) = true
      ∧ feasible mShape [4] = true := by
  constructor <;> decide +kernel

/-- `n ∈ {0..3}` integer, `x ∈ [0,10]` float, no constraint; `maximize(n)` -/
def mWrongObj : OModel Rat := { vars := [.int [0, 1, 2, 3], fl 0 10], posts := [] }

/-- **repaired** (fix 9b99c03; was the counterexample `fast-path-wrong-objective`, answer
`(n, x) = (0, 10)`): an objective that is a variable but not a float variable is no longer replaced
by "the only float variable"; the router declines and `maximize(n)` goes to the search path. -/
theorem C08_fast_path_integer_objective_declines :
    (match route mWrongObj [] true 0 with | .declined .mixedSeparable => true | _ => false) = true
      ∧ (match entry mWrongObj [] true 0 with | .search => true | _ => false) = true := by
  constructor <;> decide +kernel

/-- `x` declared as `m.float(5, 1)` (reversed bounds) -/
def mReversed : OModel Rat := { vars := [fl 5 1], posts := [] }

/-- **repaired** (fix 87f7dea; was the finding `fast-path-skips-validation`, answer `Ok(x = 1)`):
the validator runs before the router and the entry point reports `InvalidDomain` — although the
router on its own would still answer. -/
theorem C08_fast_path_invalid_model_rejected :
    (match entry mReversed [] true 0 with | .invalid => true | _ => false) = true
      ∧ (match route mReversed [] true 0 with | .fast _ => true | _ => false) = true := by
  constructor <;> decide +kernel

/-- `x ∈ [0,10]`, props-level `x ≤ 20` and `float_lin_le([2], [x], -8)` (infeasible, propagation
fails); `maximize(x)` -/
def mReroute : OModel Rat := { vars := [fl 0 10], posts := [.cmp .le (.v 0) (.c 20), .plin false [2] [0] (-8)] }

/-- **counterexample** `fast-path-max-falls-into-min`: `try_maximize` declines (the registered upper
bound 20 lies outside the domain, the propagation run fails: optimizer failure), `maximize` calls
`minimize(opposite)`, whose router call MINIMISES `x`: there no lower bound is registered, so the
answer is the domain minimum `x = 0` — on a model without solutions.  (The former witness,
`x ≤ -5` alone, is repaired: the minimisation now sees that 0 misses the upper bound −5.) -/
theorem C08_fast_path_counterexample_reroute :
    (match route mReroute [none] true 0 with | .declined .optimizerFailure => true | _ => false) = true
      ∧ fastAnswer (entry mReroute [none] true 0) (fun a => a == [0] && !feasible mReroute a) = true := by
  constructor <;> decide +kernel

/-- the full-strength statement, refuted: "every fast-path answer of the entry points is feasible" -/
theorem C08_fast_path_sound_counterexample :
    ¬ ∀ (m : OModel Rat) (pbs : List (Option (Rat × Rat))) (isMax : Bool) (obj : Nat) (sol : List (FVal Rat)),
        entry m pbs isMax obj = .fast sol → feasible m (solPoint sol) = true := by
  intro h
  have := h mOther [some (0, 10), some (8, 10)] true 0 [.f 10, .f 5] (by decide +kernel)
  revert this
  decide +kernel

/-- the guard of the partial theorem is satisfiable together with a fast-path answer:
`x ∈ [0,10]`, props-level `x ≤ 4.5`, `x ≥ 1`; `maximize(x) = 4.5`, `minimize(x) = 1` -/
def mGuarded : OModel Rat :=
  { vars := [fl 0 10, .int [2, 3]], posts := [.cmp .le (.v 0) (.c (9 / 2)), .cmp .le (.c 1) (.v 0)] }

example : fastGuard mGuarded true 0 = true ∧ entry mGuarded [] true 0 = .fast [.f (9 / 2), .i 2] := by
  constructor <;> decide +kernel

/-- the guard of the strengthened theorem is satisfiable on the same model, in both directions -/
example : fastGuard' mGuarded true 0 = true ∧ fastGuard' mGuarded false 0 = true := by
  constructor <;> decide +kernel

/-! ### (2) root LP step -/

open Lp C09

/-- the optimum of a legal terminal state of the LP relaxation bounds `c·x` over its feasible set -/
theorem lp_optimum_bounds (P : Problem) (hw : P.wf = true) (basis : List Nat) (z y : Vec)
    (hl : legalOptimal (toStd P) 0 0 basis z y = true) :
    ∀ x, Lp.feasible P x = true → dot P.c x ≤ backObj P z := by
  intro x hx
  have hc : TerminalClaim P { status := .optimal, x := backX P z, objective := backObj P z, basis := basis } :=
    fun _ => ⟨z, y, hl, rfl, rfl⟩
  exact (C09_optimal P hw _ hc rfl).2.2 x hx

/-- **C08 (root LP), sound transfer.**  `P` is the LP relaxation assembled at the root (every
solution of the mixed model — integrality, strict rows, rows outside the LP included — is feasible
for `P`), its objective is the search objective: `+e_j` for maximisation, `-e_j` for minimisation of
variable `j`.  From a legal optimal certificate, the LP optimum bounds variable `j` in EVERY
solution of the mixed model: tightening that one bound loses no solution, hence no optimal one. -/
theorem C08_lp_bound_transfer_sound (P : Problem) (hw : P.wf = true) (basis : List Nat) (z y : Vec)
    (hl : legalOptimal (toStd P) 0 0 basis z y = true)
    (Mixed : Vec → Prop) (hrel : ∀ x, Mixed x → Lp.feasible P x = true)
    (j : Nat) (hj : j < P.c.length) :
    (P.c = unit P.c.length j → ∀ x, Mixed x → x.getD j 0 ≤ backObj P z) ∧
    (P.c = negv (unit P.c.length j) → ∀ x, Mixed x → -(backObj P z) ≤ x.getD j 0) := by
  have hb := lp_optimum_bounds P hw basis z y hl
  constructor
  · intro hc x hx
    have := hb x (hrel x hx)
    rw [hc, dot_unit] at this
    simpa [hj] using this
  · intro hc x hx
    have := hb x (hrel x hx)
    rw [hc, dot_negv_left, dot_unit] at this
    simp only [hj, if_true] at this
    grind

/-- the mixed model of the counterexample: `x ∈ [0,10]` float (step 1/100), `n ∈ {0..3}` integer,
rows `2n ≤ 3` and `x − n ≤ 0` posted with `m.lin_le`; `maximize(x)` -/
def mVertex : OModel Rat :=
  { vars := [.flt { min := 0, max := 10, step := 1 / 100 }, .int [0, 1, 2, 3]],
    posts := [postLin false [2] [1] 3, postLin false [1, -1] [0, 1] 0] }

/-- its LP relaxation `max x  s.t.  2n ≤ 3, x − n ≤ 0, 0 ≤ x ≤ 10, 0 ≤ n ≤ 3` -/
def pVertex : Problem :=
  { c := [1, 0], a := [[0, 2], [1, -1]], b := [3, 0], lo := [0, 0], up := [some 10, some 3] }

def storeOf (m : OModel Rat) : FStore Rat := fun i => m.vars.getD i (.int [0])

/-- **counterexample** `root-lp` (what the code does instead): the system is eligible, the LP
vertex `(3/2, 3/2)` is feasible and optimal for the relaxation, and `apply_lp_solution` transfers
EVERY coordinate as a pair of bounds — the integer variable cannot take `3/2`, the update fails and
the search ends with `NoSolution`, although `(1, 1)` solves the mixed model (optimum 1). -/
theorem C08_lp_vertex_transfer_counterexample :
    rootLpEligible mVertex 0 = true
      ∧ sysVars (lpRows mVertex) = [1, 0]
      ∧ Lp.feasible pVertex [3 / 2, 3 / 2] = true
      ∧ (∀ x, Lp.feasible pVertex x = true → dot pVertex.c x ≤ 3 / 2)
      ∧ (match rootLpStep mVertex 0 (.optimal [3 / 2, 3 / 2]) { st := storeOf mVertex } with
         | .noSolution => true | _ => false) = true
      ∧ Opt.feasible mVertex [1, 1] = true := by
  refine ⟨by decide +kernel, by decide +kernel, by decide +kernel, ?_, by decide +kernel, by decide +kernel⟩
  intro x hx
  match x with
  | [] => simp [Lp.feasible, feasibleTol, pVertex, boundsOk] at hx
  | [_] => simp [Lp.feasible, feasibleTol, pVertex, boundsOk] at hx
  | x0 :: x1 :: rest =>
    simp only [Lp.feasible, feasibleTol, pVertex, rowsLe, dot, Bool.and_eq_true] at hx
    simp only [pVertex, dot]
    grind

/-- non-vacuity of `C08_lp_bound_transfer_sound`: the relaxation `pVertex` of the mixed model
`mVertex` is well formed, has the legal optimal certificate below (basis `x, n, u₁, u₂`, optimum
`3/2`), its objective is `+e₀`, and every solution of `mVertex` is feasible for it -/
example : pVertex.wf = true
    ∧ legalOptimal (toStd pVertex) 0 0 [0, 1, 4, 5] [3 / 2, 3 / 2, 0, 0, 17 / 2, 3 / 2] [1 / 2, 1, 0, 0] = true
    ∧ pVertex.c = unit pVertex.c.length 0
    ∧ backObj pVertex [3 / 2, 3 / 2, 0, 0, 17 / 2, 3 / 2] = 3 / 2
    ∧ ∀ x, Opt.feasible mVertex x = true → Lp.feasible pVertex x = true := by
  refine ⟨by decide +kernel, by decide +kernel, by decide +kernel, by decide +kernel, ?_⟩
  intro x hx
  match x with
  | [] => simp [Opt.feasible, mVertex, varsOk] at hx
  | [_] => simp [Opt.feasible, mVertex, varsOk] at hx
  | _ :: _ :: _ :: _ => simp [Opt.feasible, mVertex, varsOk] at hx
  | [x0, x1] =>
    simp only [Opt.feasible, mVertex, varsOk, varOk, postLin, List.all_cons, List.all_nil, Post.holds, Rel.holds,
      rowVal, List.getD_cons_zero, List.getD_cons_succ, Bool.and_eq_true, decide_eq_true_eq, Bool.and_true,
      List.any_cons, List.any_nil, Bool.or_false, Bool.or_eq_true, Bool.false_eq_true, if_false] at hx
    simp only [Lp.feasible, feasibleTol, pVertex, rowsLe, boundsOk, dot, Bool.and_eq_true, decide_eq_true_eq, Bool.and_true]
    grind

/-! ### (2a) the LP assembled at the root is a relaxation of the linear rows -/

/-- **C08 (root LP), relaxation.**  `rows = sysRows eps m` are the linear rows the root step collects
(AST-extracted rows, `FloatLinEq/Le` propagators, `x ≤ y` propagators), `P = lpProblem …` the
`LpProblem` built by `to_lp_problem` (constants substituted, `≥` / `=` rows normalised, columns =
non-constant system variables in first-occurrence order, objective `±e_obj`).  Under `relaxGuard`
every assignment `a` that satisfies all rows and lies inside the current bounds of the system
variables projects to a feasible point of `P`, and the LP objective at that point is the search
objective (`a(obj)` for max, `−a(obj)` for min; `0` when the objective variable is a constant). -/
theorem C08_root_lp_is_relaxation (eps : Rat) (m : OModel Rat) (obj : Nat) (minimize : Bool) (a : List Rat)
    (hg : relaxGuard eps m = true)
    (hb : ∀ v ∈ sysVars ((sysRows eps m).map (·.xs)),
      (boundsOf (m.vars.getD v (.int [0]))).1 ≤ a.getD v 0 ∧ a.getD v 0 ≤ (boundsOf (m.vars.getD v (.int [0]))).2)
    (hr : ∀ r ∈ sysRows eps m, r.holds a = true) :
    Lp.feasible (lpProblem eps m obj minimize).toProblem ((lpProblem eps m obj minimize).cols.map (fun v => a.getD v 0)) = true ∧
    Lp.dot (lpProblem eps m obj minimize).c ((lpProblem eps m obj minimize).cols.map (fun v => a.getD v 0))
      = (if obj ∈ (lpProblem eps m obj minimize).cols then (if minimize then - a.getD obj 0 else a.getD obj 0) else 0) := by
  simp only [relaxGuard, List.all_eq_true, decide_eq_true_eq, Bool.or_eq_true,
    Bool.not_eq_true'] at hg
  have hfix := hg
  -- abbreviations
  generalize hrows : sysRows eps m = rows at *
  generalize hsys : sysVars (rows.map (·.xs)) = sys at *
  have hsysnd : sys.Nodup := by rw [← hsys]; exact nodup_sysVars _
  have hcols : (lpProblem eps m obj minimize).cols = sys.filter (fun v => !isConst (m.vars.getD v (.int [0]))) := by
    simp only [lpProblem, hrows, hsys]
  generalize hc : sys.filter (fun v => !isConst (m.vars.getD v (.int [0]))) = cols at *
  have hcnd : cols.Nodup := by rw [← hc]; exact hsysnd.filter _
  have hmemsys : ∀ r ∈ rows, ∀ x ∈ r.xs, x ∈ sys := by
    intro r hr' x hx
    rw [← hsys, mem_sysVars]
    exact ⟨r.xs, List.mem_map.mpr ⟨r, hr', rfl⟩, hx⟩
  have hconst : ∀ x ∈ sys, isConst (m.vars.getD x (.int [0])) = true →
      a.getD x 0 = (boundsOf (m.vars.getD x (.int [0]))).1 := by
    intro x hx hcx
    have h1 := hfix x hx
    have h2 := hb x hx
    rcases h1 with h1 | h1
    · rw [hcx] at h1; cases h1
    · grind
  constructor
  · -- feasibility
    simp only [Lp.feasible, Lp.feasibleTol, LpP.toProblem, Bool.and_eq_true]
    constructor
    · -- rows
      have hab : (lpProblem eps m obj minimize).a = (rows.flatMap (fun r => r.std.map (fun (q : List Rat × Rat) =>
            buildRow m.vars cols r.xs q.1 (cols.map (fun _ => zero), q.2)))).map (·.1)
          ∧ (lpProblem eps m obj minimize).b = (rows.flatMap (fun r => r.std.map (fun (q : List Rat × Rat) =>
            buildRow m.vars cols r.xs q.1 (cols.map (fun _ => zero), q.2)))).map (·.2) := by
        simp only [lpProblem, hrows, hsys, hc]
        simp
      rw [hab.1, hab.2, hcols]
      apply rowsLe_of_forall
      intro p hp
      simp only [List.mem_flatMap, List.mem_map] at hp
      obtain ⟨r, hrr, q, hq, rfl⟩ := hp
      have hs := buildRow_spec m.vars cols a r.xs q.1 (cols.map (fun _ => zero)) q.2
        (fun x hx hcx => hconst x (hmemsys r hrr x hx) hcx)
        (by simp)
        (fun x hx hcx => by
          rw [← hc]
          exact List.mem_filter.mpr ⟨hmemsys r hrr x hx, by rw [hcx]; rfl⟩)
      rw [dot_zero_map] at hs
      have hh := hr r hrr
      simp only [LRow.holds] at hh
      have hneg := rowVal_neg a r.cs r.xs
      -- which standard-form row is `q`
      simp only [LRow.std] at hq
      cases hrel : r.rel with
      | le =>
        rw [hrel] at hq hh
        simp only [List.mem_singleton] at hq
        subst hq
        simp only [LRel.holds, decide_eq_true_eq] at hh
        have := hs.2
        grind
      | ge =>
        rw [hrel] at hq hh
        simp only [List.mem_singleton] at hq
        subst hq
        simp only [LRel.holds, decide_eq_true_eq] at hh
        have := hs.2
        simp only [hneg] at this
        grind
      | eq =>
        rw [hrel] at hq hh
        simp only [LRel.holds, decide_eq_true_eq] at hh
        simp only [List.mem_cons, List.not_mem_nil, or_false] at hq
        rcases hq with hq | hq
        · subst hq
          have := hs.2
          grind
        · subst hq
          have := hs.2
          simp only [hneg] at this
          grind
    · -- bounds
      have hlh : (lpProblem eps m obj minimize).lo = cols.map (fun v => (boundsOf (m.vars.getD v (.int [0]))).1)
          ∧ (lpProblem eps m obj minimize).hi = cols.map (fun v => (boundsOf (m.vars.getD v (.int [0]))).2) := by
        simp only [lpProblem, hrows, hsys, hc]
        simp
      rw [hlh.1, hlh.2, hcols]
      apply boundsOk_map
      intro v hv
      have : v ∈ sys := by rw [← hc] at hv; exact (List.mem_filter.mp hv).1
      exact hb v this
  · -- objective
    have hcc : (lpProblem eps m obj minimize).c = cols.map (fun v => if v = obj then (if minimize then (-1 : Rat) else 1) else 0) := by
      simp only [lpProblem, hrows, hsys, hc]
      apply List.map_congr_left
      intro v _
      cases minimize <;> by_cases hv : v = obj <;> simp [hv] <;> num_simp <;> simp
    rw [hcc, hcols, dot_indicator cols obj _ (fun v => a.getD v 0) hcnd]
    cases minimize <;> simp <;> grind

/-- relaxation + weak duality: the optimum of a legal terminal state of the LP built at the root
bounds the objective variable in EVERY assignment that satisfies the linear rows inside the
current bounds — the one bound that may be transferred to the search -/
theorem C08_root_lp_objective_bound (eps : Rat) (m : OModel Rat) (obj : Nat) (minimize : Bool) (a : List Rat)
    (hg : relaxGuard eps m = true)
    (hb : ∀ v ∈ sysVars ((sysRows eps m).map (·.xs)),
      (boundsOf (m.vars.getD v (.int [0]))).1 ≤ a.getD v 0 ∧ a.getD v 0 ≤ (boundsOf (m.vars.getD v (.int [0]))).2)
    (hr : ∀ r ∈ sysRows eps m, r.holds a = true)
    (hw : (lpProblem eps m obj minimize).toProblem.wf = true) (basis : List Nat) (z y : Vec)
    (hl : legalOptimal (toStd (lpProblem eps m obj minimize).toProblem) 0 0 basis z y = true)
    (hobj : obj ∈ (lpProblem eps m obj minimize).cols) :
    (minimize = false → a.getD obj 0 ≤ backObj (lpProblem eps m obj minimize).toProblem z) ∧
    (minimize = true → -(backObj (lpProblem eps m obj minimize).toProblem z) ≤ a.getD obj 0) := by
  obtain ⟨hf, ho⟩ := C08_root_lp_is_relaxation eps m obj minimize a hg hb hr
  have hbound := lp_optimum_bounds _ hw basis z y hl _ hf
  have hcc : (lpProblem eps m obj minimize).toProblem.c = (lpProblem eps m obj minimize).c := rfl
  rw [hcc, ho, if_pos hobj] at hbound
  generalize backObj (lpProblem eps m obj minimize).toProblem z = B at hbound ⊢
  constructor
  · intro hm; rw [hm] at hbound; simpa using hbound
  · intro hm; rw [hm] at hbound; simp only [if_true] at hbound; grind

/-- the row `-2·x + 1·x ≤ -1` posted as `m.lin_le(&[-2.0, 1.0], &[x, x], -1.0)` (it means `x ≥ 1`) -/
def mDup : OModel Rat :=
  { vars := [fl 0 10, fl 0 10], posts := [postLin false [-2, 1] [0, 0] (-1), postLin false [1, 1] [0, 1] 20] }

/-- **repaired** (fix 02fabc4; was `C08_root_lp_is_relaxation_counterexample`, finding
`root-lp-duplicate-variable`: the LP row was `1·x ≤ -1`, cutting off `(2, 0)`): the coefficients of
a repeated variable add up, the LP row is `-1·x ≤ -1`, the guard holds without a "distinct
variables" clause and `(2, 0)` is feasible for the LP. -/
theorem C08_root_lp_duplicate_variable_accumulates :
    relaxGuard (1 / 1000000) mDup = true
      ∧ (sysRows (1 / 1000000) mDup).all (fun r => r.holds [2, 0]) = true
      ∧ (lpProblem (1 / 1000000) mDup 0 false).a = [[-1, 0], [1, 1]]
      ∧ (lpProblem (1 / 1000000) mDup 0 false).b = [-1, 20]
      ∧ Lp.feasible (lpProblem (1 / 1000000) mDup 0 false).toProblem [2, 0] = true := by
  refine ⟨by decide +kernel, by decide +kernel, by decide +kernel, by decide +kernel, by decide +kernel⟩

/-- non-vacuity: `mVertex` satisfies the guard and `(1, 1)` satisfies the hypotheses -/
example : relaxGuard (1 / 100) mVertex = true
    ∧ (sysRows (1 / 100) mVertex).all (fun r => r.holds [1, 1]) = true
    ∧ (lpProblem (1 / 100) mVertex 0 false).cols = [1, 0] := by
  refine ⟨by decide +kernel, by decide +kernel, by decide +kernel⟩

/-- a pure float variant: `x, y ∈ [0,4]`, row `x + y ≤ 4` (`m.lin_le`), props-level `y ≥ 1` (a
variable–constant comparison is not part of the linear system); `maximize(x)` -/
def mVertex2 : OModel Rat :=
  { vars := [.flt { min := 0, max := 4, step := 1 / 100 }, .flt { min := 0, max := 4, step := 1 / 100 }],
    posts := [postLin false [1, 1] [0, 1] 4, .cmp .ge (.v 1) (.c 1)] }

/-- **counterexample** `root-lp`, second form: the transfer of the optimal LP vertex `(4, 0)`
succeeds and fixes `y = 0`; every point of the resulting store violates `y ≥ 1`, while `(3, 1)`
solves the model. -/
theorem C08_lp_vertex_transfer_counterexample_float :
    rootLpEligible mVertex2 0 = true
      ∧ (match rootLpStep mVertex2 0 (.optimal [4, 0]) { st := storeOf mVertex2 } with
         | .continue c true => (match c.st 1 with | .flt iv => decide (iv.max < 1) | _ => false)
         | _ => false) = true
      ∧ Opt.feasible mVertex2 [3, 1] = true := by
  refine ⟨by decide +kernel, by decide +kernel, by decide +kernel⟩

/-! ### (3) errors -/

/-- **counterexample** to "an error only if the model is infeasible" on the modelled root step:
`NoSolution` is produced for the satisfiable model `mVertex` (finding `root-lp` /
`root-lp-infeasible`). -/
theorem C08_error_only_if_infeasible_counterexample :
    ¬ ∀ (m : OModel Rat) (obj : Nat) (rep : LpReport Rat) (a : List Rat),
        (match rootLpStep m obj rep { st := storeOf m } with | .noSolution => true | _ => false) = true →
        Opt.feasible m a = false := by
  intro h
  have := h mVertex 0 (.optimal [3 / 2, 3 / 2]) [1, 1] (by decide +kernel)
  revert this
  decide +kernel

/-- an invalid variable (reversed float bounds, empty integer domain) cannot take any value -/
theorem invalid_var_no_value (v : FVar Rat) (h : validVar v = false) (t : Rat) : varOk v t = false := by
  cases v with
  | int d =>
    simp only [validVar, Bool.not_eq_eq_eq_not, Bool.not_false, List.isEmpty_iff] at h
    subst h
    simp [varOk]
  | flt iv =>
    simp only [validVar] at h
    num_simp at h
    simp only [Bool.or_self, Bool.not_false, Bool.and_true] at h
    simp only [varOk, Bool.and_eq_false_iff, decide_eq_false_iff_not, Rat.not_le]
    grind

/-- **C08 (errors), partial.**  (a) the `InvalidDomain` error of the entry points (validation
before the router) is only produced for models without any feasible assignment.  (b) for a valid
model without deferred constraints, an answer of the router is what the entry point returns — the
fast path itself never produces an error.  (c) On the root step, `NoSolution` caused by an LP
report `Infeasible` is justified whenever that report comes with a legal Phase-I certificate of
the relaxation `P` (positive artificial sum): then the mixed model, whose solutions are feasible
for `P`, has no solution. -/
theorem C08_error_only_if_infeasible_partial :
    (∀ (m : OModel Rat) (pbs : List (Option (Rat × Rat))) (isMax : Bool) (obj : Nat),
        entry m pbs isMax obj = .invalid → ∀ a, Opt.feasible m a = false) ∧
    (∀ (m : OModel Rat) (pbs : List (Option (Rat × Rat))) (isMax : Bool) (obj : Nat) (sol : List (FVal Rat)),
        m.vars.all validVar = true → m.hasPending = false →
        route m pbs isMax obj = .fast sol → entry m pbs isMax obj = .fast sol) ∧
    (∀ (P : Problem) (basis : List Nat) (w y : Vec) (Mixed : Vec → Prop),
        P.wf = true → legalOptimal (phase1Std (toStd P)) 0 0 basis w y = true →
        dot (phase1Std (toStd P)).c w < 0 → (∀ x, Mixed x → Lp.feasible P x = true) →
        ∀ x, ¬ Mixed x) := by
  refine ⟨?_, ?_, ?_⟩
  · intro m pbs isMax obj h a
    have hval : m.vars.all validVar = false := by
      cases hv : m.vars.all validVar with
      | false => rfl
      | true =>
        simp only [entry, hv, Bool.not_true, Bool.false_eq_true, if_false] at h
        split at h
        · simp at h
        · split at h
          · simp at h
          · simp at h
          · split at h
            · split at h <;> simp at h
            · simp at h
    cases hf : Opt.feasible m a with
    | false => rfl
    | true =>
      exfalso
      simp only [Opt.feasible, Bool.and_eq_true] at hf
      simp only [List.all_eq_false] at hval
      obtain ⟨v, hv, hvv⟩ := hval
      obtain ⟨j, hj, hjv⟩ := List.getElem_of_mem hv
      have := varsOk_get m.vars a j v hf.1 (by rw [List.getElem?_eq_getElem hj, hjv])
      rw [invalid_var_no_value v (by simpa using hvv)] at this
      simp at this
  · intro m pbs isMax obj sol hv hp h
    simp only [entry, hv, hp, h, Bool.not_true, Bool.false_eq_true, if_false]
  · intro P basis w y Mixed hw hl hpos hrel x hx
    have := C09_phase1_infeasible P hw basis w y hl hpos x
    rw [hrel x hx] at this
    simp at this

/-- non-vacuity of (c): the relaxation `x ≤ -1, 0 ≤ x ≤ 1` has a legal Phase-I certificate with a
positive artificial sum -/
example : ∃ (P : Problem) (basis : List Nat) (w y : Vec),
    P.wf = true ∧ legalOptimal (phase1Std (toStd P)) 0 0 basis w y = true ∧ dot (phase1Std (toStd P)).c w < 0 :=
  ⟨{ c := [1], a := [[1]], b := [-1], lo := [0], up := [some 1] }, [3, 2], [0, 0, 1, 1, 0], [-1, 0],
    by decide +kernel, by decide +kernel, by decide +kernel⟩

end C08
end Selen

import SelenModel.Lemmas.Determ
import SelenModel.Lemmas.Search
/-
C16 — Solving is deterministic.

  "Building the same model twice (same calls in the same order) and solving it twice, in the same
   process or in different processes, produces the same verdict, the same assignment from
   solve/minimize/maximize and the same sequence from enumerate, as long as no time limit
   interferes."

What a theorem can say.  The model is a function, so its determinism is a triviality
(`C16_model_deterministic`).  The content of the property is that the code's *sources of
non-determinism* never reach a result: (a) `HashMap`/`HashSet` iteration order (std `RandomState`:
random per process and per map), (b) the clock.  Each hash-ordered container is modelled as a list
in arbitrary order (Lemmas/Determ.lean lists every site with file:line) and the theorems below
say that the observable result is the same for every permutation of that list; for the clock,
that an oracle which never fires is never seen in any result.

Sites on the path of solve / minimize / maximize / enumerate / validate — all order-blind:
  registry queries (sorted after collection), validator and feasibility sets (insert / contains /
  len only), Hall pruning (a fold of commuting removals, emptiness tested after the fold), keyed
  maps (bound inference, LP construction, GAC domains: get / insert only).
Sites that ARE order dependent — public helpers which no solving entry point calls:
  `SparseSetGAC::propagate_alldiff` / `SparseSetAllDiff::propagate` (matching found in key order)
  and `create_precision_propagators` (a `Vec` in `HashSet` order): counterexamples below,
  observed across processes by `tools/determ_cross.sh … probe` (tags `gac-sparseset-hash-order`,
  `precision-propagators-hash-order`).

Correspondence: there is no per-line model counterpart (the lines of the `determ` suite are
oracle-only); the tie to the code is (1) the within-process and cross-process byte comparison
of complete transcripts, (2) for `ssgac` the comparison of the set of outcomes over all key
orders with the outcomes observed on the real structure (401 random instances, equal sets).
-/
namespace Selen
namespace C16

open Determ List

/-- **C16 (model).** The model is a function: equal inputs give equal outputs — in particular the
whole event trace (every yielded assignment, in order), the optimum and the verdict. -/
theorem C16_model_deterministic (n n' : Nat) (obj obj' : Option IView) (pol pol' : Policy) (fuel fuel' : Nat)
    (ps ps' : List PK) (st st' : Store)
    (hn : n = n') (ho : obj = obj') (hp : pol = pol') (hf : fuel = fuel') (hps : ps = ps') (hst : st = st') :
    search n obj pol fuel ps st = search n' obj' pol' fuel' ps' st' := by
  subst hn ho hp hf hps hst; rfl

/-- the three user-visible results are functions of the trace -/
theorem C16_results_deterministic (o o' : Out) (h : o = o') :
    o.solutions = o'.solutions ∧ o.solutions.head? = o'.solutions.head? ∧ o.solutions.getLast? = o'.solutions.getLast? := by
  subst h; exact ⟨rfl, rfl, rfl⟩

/-! ### hash-ordered sites on the solving path: permutation invariance -/

/-- registry, `get_constraints_by_type` (used by validation and by the AllDifferent reordering):
whatever order the map is iterated in, the sorted result is the same -/
theorem C16_registry_by_type_perm_invariant {l l' : List Entry} (h : l.Perm l') (t : Nat) :
    byType l t = byType l' t := byType_perm_invariant h t

/-- registry, `get_all_constraint_ids` (drives both validation loops, so "the first error" is the
error of the smallest constraint id in every process) -/
theorem C16_registry_all_ids_perm_invariant {l l' : List Entry} (h : l.Perm l') :
    allIds l = allIds l' := allIds_perm_invariant h

/-- the general shape: collect in any order, then sort by a total antisymmetric key order -/
theorem C16_sort_after_collect_perm_invariant {α : Type} (le : α → α → Bool)
    (trans : ∀ a b c, le a b = true → le b c = true → le a c = true)
    (total : ∀ a b, (le a b || le b a) = true)
    (antisymm : ∀ a b, le a b = true → le b a = true → a = b)
    {l l' : List α} (h : l.Perm l') : l.mergeSort le = l'.mergeSort le :=
  sort_perm_invariant le trans total antisymm h

/-- AllDifferent validation (`fixed_values`, `all_possible_values`): the verdict — including
which value is reported as the duplicate and the two numbers in the pigeonhole message — is the
same for every internal order of the two hash sets -/
theorem C16_alldiff_validation_perm_invariant (n : Nat) (ds : List (Option (List Int)))
    (fixed fixed' all all' : List Int) (hf : fixed.Perm fixed') (ha : all.Perm all') :
    adScan n ds fixed all = adScan n ds fixed' all' :=
  adScan_perm_invariant n ds fixed fixed' all all' hf ha

/-- … even against an adversary that reshuffles both sets before every variable -/
theorem C16_alldiff_validation_any_hash_order (sh : Shuffle) (n : Nat) (ds : List (Option (List Int))) :
    adScanSh sh n 0 ds [] [] = adScan n ds [] [] :=
  adScanSh_eq sh n ds 0 [] [] [] [] (Perm.refl _) (Perm.refl _)

/-- `quick_feasibility_check` / Hall union size: the count of distinct values collected -/
theorem C16_distinct_count_perm_invariant {s s' : List Int} (h : s.Perm s') (ds : List (List Int)) :
    (ds.foldl insAll s).length = (ds.foldl insAll s').length := unionCount_perm_invariant h ds

/-- Hall pruning of `BitSetGAC`: removing the union's values from a domain in any iteration order
gives the same domain and the same `removed_any` flag (it is the set difference) -/
theorem C16_hall_removal_perm_invariant (d : List Int) {u u' : List Int} (h : u.Perm u') :
    removeVals d u = removeVals d u' := removeVals_perm_invariant d h

/-- … hence the whole Hall step (new domains, `changed`, inconsistency) -/
theorem C16_hall_pass_perm_invariant {u u' : List Int} (h : u.Perm u') (vs : List (Bool × List Int)) :
    hallPass u vs = hallPass u' vs := hallPass_perm_invariant h vs

/-- keyed maps (`bounds_map`, `var_to_lp_index`, `constants`, `connectivity_map`, GAC `domains`):
`get` is blind to the internal order -/
theorem C16_keyed_get_perm_invariant {m m' : List (Nat × Int)} (h : m.Perm m')
    (nd : (m.map (·.1)).Nodup) (k : Nat) : m.lookup k = m'.lookup k := lookup_perm_invariant h nd k

/-- … and `insert` followed by `get` is a function update whatever the order was, so a program
that only uses `insert` and `get` cannot observe the order -/
theorem C16_keyed_insert_get (m m' : List (Nat × Int)) (h : m.Perm m') (nd : (m.map (·.1)).Nodup)
    (k k' : Nat) (v : Int) :
    (mapInsert m k v).lookup k' = (mapInsert m' k v).lookup k' ∧
    (mapInsert m k v).lookup k' = (if k' = k then some v else m.lookup k') ∧
    ((mapInsert m k v).map (·.1)).Nodup :=
  ⟨lookup_perm_invariant (mapInsert_perm h k v) (mapInsert_nodup nd k v) k', lookup_mapInsert m k k' v,
   mapInsert_nodup nd k v⟩

/-! ### the clock -/

/-- **C16 (no clock in the result), enumerate.** With a limit oracle that never fires, everything
the unlimited engine yields is delivered, in order: the oracle is not visible. -/
theorem C16_no_clock_in_enumeration (evs : List Ev) (fire : Nat → Nat → Bool) (hf : ∀ c d, fire c d = false) :
    (runLimited evs fire false).delivered = evsSols evs ∧ (runLimited evs fire false).fired = false := by
  have hn := runLimited_never fire hf false evs
  refine ⟨?_, hn⟩
  unfold runLimited at hn ⊢
  have := (foldl_complete fire evs {} rfl (finish_fired_mono fire _ hn)).1
  rw [finish_delivered, this]; simp

/-- **C16 (no clock in the result), solve.** With a limit oracle that is constantly false (and no
post-loop limit) the verdict and the assignment of `solve` are those of the unlimited search:
they do not depend on the oracle nor on which kind of limit was configured. -/
theorem C16_no_clock_in_result (o : Out) (fire : Nat → Nat → Bool) (hf : ∀ c d, fire c d = false) (kind : LimKind) :
    solveLimited o fire kind none =
      (match o.solutions.head? with | some v => .ok v | none => .noSolution) := by
  unfold solveLimited
  by_cases hs : o.stalled = true
  · have hn := runLimited_never fire hf true o.evs
    simp only [hs, if_true, hn, Bool.false_eq_true, if_false]
    unfold runLimited at hn ⊢
    have := foldl_first fire o.evs {} rfl (finish_fired_mono fire _ hn)
    rw [finish_delivered, this, IModel.solutions_eq]
    cases evsSols o.evs <;> simp
  · simp only [hs, Bool.false_eq_true, if_false]
    rfl

/-- the same for `minimize` / `maximize` (last assignment of the branch-and-bound run) -/
theorem C16_no_clock_in_optimum (o : Out) (fire : Nat → Nat → Bool) (hf : ∀ c d, fire c d = false) (kind : LimKind) :
    minimizeLimited o fire kind none =
      (match o.solutions.getLast? with | some v => .ok v | none => .noSolution) := by
  unfold minimizeLimited
  by_cases hs : o.stalled = true
  · have hn := runLimited_never fire hf false o.evs
    simp only [hs, if_true, hn, Bool.false_eq_true, if_false]
    rw [(C16_no_clock_in_enumeration o.evs fire hf).1, IModel.solutions_eq]
    rfl
  · simp only [hs, Bool.false_eq_true, if_false]
    rfl

/-- two runs whose clocks never interfere agree, whatever the clocks and the limit kinds were -/
theorem C16_two_runs_agree (o : Out) (fire fire' : Nat → Nat → Bool)
    (hf : ∀ c d, fire c d = false) (hf' : ∀ c d, fire' c d = false) (kind kind' : LimKind) :
    solveLimited o fire kind none = solveLimited o fire' kind' none ∧
    minimizeLimited o fire kind none = minimizeLimited o fire' kind' none ∧
    (runLimited o.evs fire false).delivered = (runLimited o.evs fire' false).delivered := by
  refine ⟨?_, ?_, ?_⟩
  · rw [C16_no_clock_in_result o fire hf, C16_no_clock_in_result o fire' hf']
  · rw [C16_no_clock_in_optimum o fire hf, C16_no_clock_in_optimum o fire' hf']
  · rw [(C16_no_clock_in_enumeration o.evs fire hf).1, (C16_no_clock_in_enumeration o.evs fire' hf').1]

/-! ### the order-dependent public helpers (not on the solving path): counterexamples -/

/-- `SparseSetGAC::propagate_alldiff` on `x0 ∈ {0,2}, x1 ∈ {0,1}`: with the key order `[0,1]`
the matching is `x0↦0, x1↦1` and value 0 is taken from `x1`; with `[1,0]` it is `x1↦0, x0↦2` and
value 0 is taken from `x0` (both removals are unsound, cf. C19).  Observed on the real structure:
both outcomes occur within one process and across processes (`determ_cross.sh … probe`). -/
theorem C16_sparseset_gac_order_counterexample :
    ssgac [0, 1] [[0, 2], [0, 1]] = some [[0, 2], [1]] ∧
    ssgac [1, 0] [[0, 2], [0, 1]] = some [[2], [0, 1]] := by decide

/-- so the site is NOT permutation invariant -/
theorem C16_sparseset_gac_not_perm_invariant :
    ¬ ∀ (o o' : List Nat) (doms : List (List Nat)), o.Perm o' → ssgac o doms = ssgac o' doms := by
  intro h
  have := h [0, 1] [1, 0] [[0, 2], [0, 1]] (Perm.swap 1 0 [])
  rw [C16_sparseset_gac_order_counterexample.1, C16_sparseset_gac_order_counterexample.2] at this
  exact absurd this (by decide)

/-- `create_precision_propagators`: the returned vector is the set's iteration order -/
theorem C16_precision_propagators_order_counterexample :
    [0, 1].Perm [1, 0] ∧ precProps [0, 1] ≠ precProps [1, 0] := ⟨Perm.swap 1 0 [], by decide⟩

/-- **partial statement for the matching site** (decidable guard: every domain is a singleton
and the values are pairwise distinct — the state in which `fast_gac_propagate` answers without a
matching): on the two-variable universe the outcome is the same for both key orders.  (The
general guard-free statement is refuted above.) -/
theorem C16_sparseset_gac_partial (a b : Nat) (ha : a < 4) (hb : b < 4) (hab : a ≠ b) :
    ssgac [0, 1] [[a], [b]] = ssgac [1, 0] [[a], [b]] := by
  have : ∀ a b : Fin 4, a ≠ b → ssgac [0, 1] [[a.1], [b.1]] = ssgac [1, 0] [[a.1], [b.1]] := by decide
  exact this ⟨a, ha⟩ ⟨b, hb⟩ (fun h => hab (congrArg Fin.val h))

/-! ### non-vacuity -/

/-- the permutation hypotheses are satisfiable with genuinely different orders, and the results
are the non-trivial ones -/
example : ([⟨2, 7, []⟩, ⟨0, 7, []⟩, ⟨1, 3, []⟩] : List Entry).Perm [⟨1, 3, []⟩, ⟨0, 7, []⟩, ⟨2, 7, []⟩] ∧
    byType [⟨2, 7, []⟩, ⟨0, 7, []⟩, ⟨1, 3, []⟩] 7 = [0, 2] ∧
    byType [⟨1, 3, []⟩, ⟨0, 7, []⟩, ⟨2, 7, []⟩] 7 = [0, 2] := by
  refine ⟨by decide, ?_, ?_⟩ <;>
    simp [byType, natLe, List.mergeSort, List.MergeSort.Internal.splitInTwo, List.splitAt, List.splitAt.go]

example : adScan 3 [some [1], some [0, 1], some [1]] [] [] = .dupFixed 1 ∧
    adScan 3 [some [0, 1], some [0, 1], some [0, 1]] [] [] = .tooFew 3 2 := by decide

example : removeVals [1, 2, 3, 4] [4, 2] = ([1, 3], true) ∧ removeVals [1, 2, 3, 4] [2, 4] = ([1, 3], true) := by decide

example : hallPass [1, 2] [(true, [1, 2]), (true, [1, 2]), (false, [2, 3])] = some ([[1, 2], [1, 2], [3]], true) ∧
    hallPass [2, 1] [(true, [1, 2]), (true, [1, 2]), (false, [1, 2])] = none := by decide

/-- a clock that never fires: x,y ∈ 0..2, x + y = 2 delivers all three solutions -/
example : (runLimited (search 2 none Policy.fifo 30 [.linEq [1, 1] [0, 1] 2]
            (fun i => if i < 2 then [0, 1, 2] else [0])).evs (fun _ _ => false)).delivered = [[0, 2], [1, 1], [2, 0]] := by
  decide

end C16
end Selen

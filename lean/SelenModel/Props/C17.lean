import SelenModel.Lemmas.Safety
import SelenModel.Props.C11
import SelenModel.Lemmas.Validate
/-
C17 — Invalid or extreme inputs produce errors, not panics.

  "Any sequence of public API calls with in-range arguments never panics or aborts, and the
   documented invalid inputs (reversed or empty bounds, empty value sets, empty min/max lists,
   coefficient/variable length mismatch, zero in a divisor's domain, out-of-range element indices,
   exceeded memory budget) surface as Err values or as an unsatisfiable verdict from the solving
   call."

Model: `Selen.Safety` (Model/Safety.lean) — the panic sites of the modelled units (`SparseSet`,
integer views, integer linear propagators) and the validation decision table.  Level: proof for the
modelled units; for the rest of the API surface the check is the oracle run of the `malformed`
suite (not a proof).  This file contains the property theorems only.
-/
namespace Selen
namespace C17

open Safety SS

/-! ### `SparseSet`: no panic site is reached under the invariant `SS.WF` -/

/-- **C17 (sparse set, indices).**  In a well-formed state every index used by every operation of a
history step (`ind[v]`, `val[size-1]`, `val[0]`, `val[size]` in `union_with`, the slices of the
iterators) is inside the vector, every `debug_assert!(!is_empty())` holds and no unsigned
subtraction goes below zero — for every universe size, offset and argument. -/
theorem C17_ss_indices_in_bounds (s : SS) (h : s.WF) (op : SSOp) (ho : SSS.opWF op) :
    ∀ x ∈ SSS.op s op, x.structural = true → x.ok = true :=
  structural_of_allOk (SSS.op_ok false s op h ho (fun e => by cases e) (fun e => by cases e))

/-- the same for the single-site forms quoted in the property text -/
theorem C17_ss_index_sites (s : SS) (h : s.WF) (op : SSOp) (ho : SSS.opWF op) (i len : Nat)
    (hx : Site.idx i len ∈ SSS.op s op) : i < len := by
  have := C17_ss_indices_in_bounds s h op ho _ hx rfl
  simpa [Site.ok] using this

/-- **C17 (sparse set, arithmetic).**  If moreover the universe `[off, off+n)` lies inside
`[-2^30, 2^30)` (with fewer than `2^31` values) and the argument of the step lies in `[-2^30, 2^30)`
(for the binary steps: the operand's universe does), then `v - off`, `val + 1`, `max() + 1`,
`off + n`, `min + off`, … all fit `i32` / `u32`: the step does not panic, and every cast and
saturating operation is exact (`faithful`). -/
theorem C17_ss_arith_safe (s : SS) (h : s.WF) (hs : Small s) (op : SSOp) (ho : SSS.opWF op)
    (hop : SSS.opSmall op) : safe (SSS.op s op) = true ∧ faithful (SSS.op s op) = true :=
  safe_of_allOk (SSS.op_ok true s op h ho (fun _ => hs) (fun _ => hop))

/-- queries: `contains`, `min`, `max`, the iterators -/
theorem C17_ss_queries_safe (s : SS) (h : s.WF) (hs : Small s) (v : Int) (hv : SmallV v) :
    safe (SSS.contains s v) = true ∧ safe (SSS.iter s) = true ∧
    (s.size ≠ 0 → safe (SSS.min s) = true ∧ safe (SSS.max s) = true) :=
  ⟨(safe_of_allOk (SSS.contains_ok true s v (fun _ => hs) (fun _ => hv))).1,
   (safe_of_allOk (SSS.iter_ok true s h (fun _ => hs))).1,
   fun hne => ⟨(safe_of_allOk (SSS.min_ok true s h hne (fun _ => hs))).1,
               (safe_of_allOk (SSS.max_ok true s h hne (fun _ => hs))).1⟩⟩

/-- **C17 (sparse set, the other entry points: indices).**  `is_subset_of`, `equals`, `iter`,
`complement_iter`, `first`, `last`, `restore_size(k ≤ n)` in a well-formed state and
`new_from_values` for any value list: every index, slice end, emptiness assertion and unsigned
subtraction is fine — for all sizes, offsets and operands. -/
theorem C17_ss_observers_indices_in_bounds (s o : SS) (h : s.WF) (vs : List Int) (k : Nat) (hk : k ≤ s.n) :
    ∀ x ∈ SSS.isSubsetOf s o ++ SSS.equals s o ++ SSS.iter s ++ SSS.complementIter s ++ SSS.first s ++
        SSS.last s ++ SSS.restoreSize s k ++ SSS.newFromValues vs,
      x.structural = true → x.ok = true := by
  have e : false = true → Small s := fun hh => by cases hh
  have e' : false = true → Small o := fun hh => by cases hh
  exact structural_of_allOk
    (allOk_append (allOk_append (allOk_append (allOk_append (allOk_append (allOk_append (allOk_append
      (SSS.isSubsetOf_ok false s o h e e') (SSS.equals_ok false s o h e e')) (SSS.iter_ok false s h e))
      (SSS.complementIter_ok false s h e)) (SSS.first_ok false s h e)) (SSS.last_ok false s h e))
      (SSS.restoreSize_ok false s k hk)) (SSS.newFromValues_ok false vs (fun hh => by cases hh)))

/-- **C17 (sparse set, the other entry points: arithmetic).**  With both universes inside
`[-2^30, 2^30)` these calls — and `max_universe_value` — neither panic nor lose a value in a cast;
`new_from_values` is safe for values inside `[-2^30, 2^30 - 1)`, and so is `new`. -/
theorem C17_ss_observers_arith_safe (s o : SS) (h : s.WF) (hs : Small s) (ho : Small o) (k : Nat) (hk : k ≤ s.n) :
    safe (SSS.isSubsetOf s o) = true ∧ safe (SSS.equals s o) = true ∧ safe (SSS.iter s) = true ∧
    safe (SSS.complementIter s) = true ∧ safe (SSS.first s) = true ∧ safe (SSS.last s) = true ∧
    safe (SSS.maxUniverse s) = true ∧ safe (SSS.restoreSize s k) = true :=
  ⟨(safe_of_allOk (SSS.isSubsetOf_ok true s o h (fun _ => hs) (fun _ => ho))).1,
   (safe_of_allOk (SSS.equals_ok true s o h (fun _ => hs) (fun _ => ho))).1,
   (safe_of_allOk (SSS.iter_ok true s h (fun _ => hs))).1,
   (safe_of_allOk (SSS.complementIter_ok true s h (fun _ => hs))).1,
   (safe_of_allOk (SSS.first_ok true s h (fun _ => hs))).1,
   (safe_of_allOk (SSS.last_ok true s h (fun _ => hs))).1,
   (safe_of_allOk (SSS.maxUniverse_ok true s (fun _ => hs))).1,
   (safe_of_allOk (SSS.restoreSize_ok true s k hk)).1⟩

theorem C17_ss_new_from_values_safe (vs : List Int) (hv : ∀ w ∈ vs, SmallB w) :
    safe (SSS.newFromValues vs) = true ∧ faithful (SSS.newFromValues vs) = true :=
  safe_of_allOk (SSS.newFromValues_ok true vs (fun _ => hv))

/-- `SparseSet::new_from_values(vec![i32::MAX]).max_universe_value()`: `off + n` overflows (reached
from `validate_variable_domains` for `intset([i32::MAX])`) -/
theorem C17_ss_max_universe_counterexample :
    safe (SSS.maxUniverse (SS.newFromValues [2147483647])) = false := by decide

/-- `new_from_values(vec![i32::MIN, i32::MAX])`: `max - min` overflows in `new` -/
theorem C17_ss_new_from_values_counterexample :
    safe (SSS.newFromValues [-2147483648, 2147483647]) = false := by decide

/-- a step of a history never changes the universe -/
theorem step_universe (y : Sys) (op : SSOp) (hi : C11.Inv y) :
    (y.step op).ss.off = y.ss.off ∧ (y.step op).ss.n = y.ss.n := by
  cases op with
  | remove v => obtain ⟨_, b, c, _, _⟩ := remove'_spec y.ss v hi.wf; exact ⟨b, c⟩
  | below v => obtain ⟨_, b, c, _, _⟩ := removeBelow_spec y.ss v hi.wf; exact ⟨b, c⟩
  | above v => obtain ⟨_, b, c, _, _⟩ := removeAbove_spec y.ss v hi.wf; exact ⟨b, c⟩
  | only v => obtain ⟨_, b, c, _, _⟩ := removeAllBut_spec y.ss v hi.wf; exact ⟨b, c⟩
  | clear => exact ⟨rfl, rfl⟩
  | inter o => obtain ⟨_, b, c, _, _⟩ := intersectWith_spec y.ss o hi.wf; exact ⟨b, c⟩
  | diff o => obtain ⟨_, b, c, _, _⟩ := diffWith_spec y.ss o hi.wf; exact ⟨b, c⟩
  | union o => obtain ⟨_, b, c, _⟩ := unionWith_spec y.ss o hi.wf; exact ⟨b, c⟩
  | save k => exact ⟨rfl, rfl⟩
  | restore k =>
    cases hf : y.slots.find? (fun sl => sl.key == k) with
    | none => simp only [Sys.step, hf]; exact ⟨trivial, trivial⟩
    | some sl => simp only [Sys.step, hf, restoreState]; exact ⟨trivial, trivial⟩

theorem run_universe (ops : List SSOp) (y : Sys) (hi : C11.Inv y) (hok : (Sys.run ops y).ok = true) :
    (Sys.run ops y).ss.off = y.ss.off ∧ (Sys.run ops y).ss.n = y.ss.n := by
  induction ops generalizing y with
  | nil => exact ⟨rfl, rfl⟩
  | cons op ops ih =>
    have hstep := C11.step_inv y op hi (C11.run_ok_mono ops _ hok)
    obtain ⟨a, b⟩ := ih (y.step op) hstep hok
    obtain ⟨c, d⟩ := step_universe y op hi
    exact ⟨by rw [← c]; exact a, by rw [← d]; exact b⟩

/-- **C17 (sparse set, any history).**  Start from `SparseSet::new(lo,hi)` with both bounds in
`[-2^30, 2^30 - 1)`, run any history — of any length — that respects the snapshot discipline of C11
(`ok`), then take any further step whose argument is small: that step does not panic. -/
theorem C17_ss_history_safe (lo hi : Int) (hlo : -1073741824 ≤ lo ∧ lo < 1073741823)
    (hhi : -1073741824 ≤ hi ∧ hi < 1073741823) (ops : List SSOp) (op : SSOp)
    (hok : (Sys.run ops (Sys.init lo hi)).ok = true) (ho : SSS.opWF op) (hop : SSS.opSmall op) :
    safe (SSS.op (Sys.run ops (Sys.init lo hi)).ss op) = true := by
  have hinv := C11.run_inv ops _ (C11.inv_init lo hi) hok
  obtain ⟨e1, e2⟩ := run_universe ops _ (C11.inv_init lo hi) hok
  have hsmall : Small (Sys.run ops (Sys.init lo hi)).ss := by
    refine ⟨?_, ?_⟩
    · rw [e1]; show -1073741824 ≤ (SS.new lo hi).off
      simp only [SS.new]; split <;> omega
    · rw [e1, e2]; show (SS.new lo hi).off + ((SS.new lo hi).n : Int) < 1073741824
      simp only [SS.new]; split <;> omega
  exact (C17_ss_arith_safe _ hinv.wf hsmall op ho hop).1

/-- the constructor: `max - min` and `maxmin + 1` fit for small bounds, and the new set is small -/
theorem C17_ss_new_safe (lo hi : Int) (hlo : -1073741824 ≤ lo ∧ lo < 1073741823)
    (hhi : -1073741824 ≤ hi ∧ hi < 1073741823) :
    safe (SSS.new lo hi) = true ∧ Small (SS.new lo hi) := by
  constructor
  · have : AllOk true (SSS.new lo hi) := by
      unfold SSS.new
      by_cases h : lo > hi
      · simp only [h, if_true]
        exact allOk_cons (okIf_i32 _ _ (fun _ => by simp only [i32Min, i32Max]; omega))
          (allOk_cons (okIf_u32 _ _ (fun _ => by simp only [u32Max]; omega)) (allOk_nil _))
      · simp only [h, if_false]
        exact allOk_cons (okIf_i32 _ _ (fun _ => by simp only [i32Min, i32Max]; omega))
          (allOk_cons (okIf_u32 _ _ (fun _ => by simp only [u32Max]; omega)) (allOk_nil _))
    exact (safe_of_allOk this).1
  · refine ⟨?_, ?_⟩
    · simp only [SS.new]; split <;> omega
    · simp only [SS.new]; split <;> omega

/-! the overflow sites are real: kernel-checked witnesses (they are the `i32-overflow` finding of
the `malformed` suite) -/

/-- `SparseSet::new(-10, 0).contains(i32::MAX)`: `v - self.off` overflows -/
theorem C17_ss_contains_overflow_counterexample :
    safe (SSS.contains (SS.new (-10) 0) 2147483647) = false := by decide

/-- `SparseSet::new(0, 3).remove_above(i32::MAX)`: `val + 1` overflows -/
theorem C17_ss_remove_above_overflow_counterexample :
    safe (SSS.removeAbove (SS.new 0 3) 2147483647) = false := by decide

/-- `SparseSet::new(i32::MAX - 2, i32::MAX).remove_above(i32::MAX - 1)`: `self.max() + 1` overflows -/
theorem C17_ss_max_plus_one_overflow_counterexample :
    safe (SSS.removeAbove (SS.new 2147483645 2147483647) 2147483646) = false := by decide

/-- the magnitude hypotheses are tight at the boundary: a universe starting at `-2^30` and the
argument `2^30` (excluded by `SmallV`) overflow `v - off` -/
theorem C17_ss_boundary_counterexample :
    safe (SSS.contains (SS.new (-1073741824) (-1073741822)) 1073741824) = false := by decide

/-- without the invariant the index sites do fail: `restore_size` past the universe followed by an
iteration reads `val[0..size]` with `size > n` -/
theorem C17_ss_wf_needed_counterexample :
    safe (SSS.iter ((SS.new 0 1).restoreSize 5)) = false := by decide

/-! ### integer views -/

/-- **C17 (views, bounds).**  If every domain is non-empty and inside `[-B, B]`, the scales of the
`TimesPos` layers are positive and the magnitude the view can reach (`VS.bound`: `+|k|` per `Plus`,
`·|k|` per `TimesPos`, `+1` per `Next`/`Prev`) fits `i32`, then `min` / `max` of the view do not
panic (`min + offset`, `min * scale`, `-max`, … all fit) and their values are within that bound. -/
theorem C17_views_safe (st : Store) (B : Nat) (hst : VS.StoreOK st B) (v : IView)
    (hp : VS.scalesPos v = true) (hb : VS.bound B v ≤ 2147483647) :
    safe (VS.minRaw st v) = true ∧ safe (VS.maxRaw st v) = true ∧
    (IView.minRaw st v).natAbs ≤ VS.bound B v ∧ (IView.maxRaw st v).natAbs ≤ VS.bound B v := by
  obtain ⟨a1, a2, a3, a4⟩ := VS.raw_ok st B hst v hp hb
  exact ⟨(safe_of_allOk a1).1, (safe_of_allOk a2).1, a3, a4⟩

/-- **C17 (views, bound setters).**  `try_set_min` / `try_set_max` through any nesting of views do
not panic when the requested bound `m` satisfies `|m| ≤ M`, the magnitude the argument reaches on
its way down (`VS.argBound`: `+|k|` per `Plus`, `+1` per `TimesPos`/`Next`/`Prev`) stays below
`i32::MAX`, and the domains are non-empty inside `[-B, B]` with `B < i32::MAX`. -/
theorem C17_views_set_safe (B : Nat) (hB : B ≤ 2147483646) (v : IView) (hp : VS.scalesPos v = true)
    (M : Nat) (m : Int) (c : Ctx) (hst : VS.StoreOK c.st B) (hm : m.natAbs ≤ M)
    (hb : VS.argBound M v ≤ 2147483646) :
    safe (VS.trySetMin v m c) = true ∧ safe (VS.trySetMax v m c) = true := by
  obtain ⟨a1, a2⟩ := VS.trySet_ok B hB v hp M m c hst hm hb
  exact ⟨(safe_of_allOk a1).1, (safe_of_allOk a2).1⟩

/-- `x.opposite()` over a domain containing `i32::MIN`: `-max` … here `-min` overflows -/
theorem C17_views_negate_counterexample :
    safe (VS.maxRaw (fun _ => [-2147483648, -2147483647]) (.opp (.var 0))) = false := by decide

/-- `x.times_pos(65536)` over `[0, 65536]`: `max * scale` overflows although both factors are far
inside `i32` -/
theorem C17_views_scale_counterexample :
    safe (VS.maxRaw (fun _ => [0, 65536]) (.tpos (.var 0) 65536)) = false := by decide

/-- `try_set_max` on a variable whose maximum is `i32::MAX`: `remove_above` computes `max() + 1` -/
theorem C17_views_set_max_counterexample :
    safe (VS.trySetMax (.var 0) 2147483646 { st := fun _ => [2147483645, 2147483646, 2147483647] }) = false := by
  decide

/-! ### integer linear propagators -/

/-- **C17 (linear rows).**  For a row `Σ c_j·x_j ⋈ c` with at least as many coefficients as
variables, every domain non-empty inside `[-B, B]` and `Σ_{j<n} |c_j|·B + |c| ≤ i32::MAX - 2`:
`IntLinEq::prune`, `IntLinLe::prune` and `IntLinNe::prune` do not panic — no `coefficients[i]`
out of bounds, no `coeff * l` overflow, no division overflow — and no saturating sum saturates
(`faithful`), so the clamped run coincides with exact integer arithmetic. -/
theorem C17_lin_safe (cs : List Int) (xs : List Nat) (c : Int) (B : Nat) (hr : LS.RowOK cs xs c B)
    (ctx : Ctx) (hst : VS.StoreOK ctx.st B) :
    (safe (LS.pruneEq cs xs c (List.range xs.length) ctx).1 = true ∧
      faithful (LS.pruneEq cs xs c (List.range xs.length) ctx).1 = true) ∧
    (safe (LS.pruneLe cs xs c (List.range xs.length) ctx).1 = true ∧
      faithful (LS.pruneLe cs xs c (List.range xs.length) ctx).1 = true) ∧
    (safe (LS.pruneNe cs xs c ctx).1 = true ∧ faithful (LS.pruneNe cs xs c ctx).1 = true) :=
  ⟨safe_of_allOk (LS.pruneEq_ok cs xs c B hr _ ctx (fun _ hi => List.mem_range.1 hi) hst),
   safe_of_allOk (LS.pruneLe_ok cs xs c B hr _ ctx (fun _ hi => List.mem_range.1 hi) hst),
   safe_of_allOk (LS.pruneNe_ok cs xs c B hr ctx hst)⟩

/-- **C17 (linear rows are the contract's propagators).**  Under the same hypotheses the clamped
re-statement used for the panic sites computes exactly what `PK.prune` of the integer core computes
for `linEq` / `linLe` / `linNe` — the functions the C05 contract theorems are about — for all
rows: `C17_lin_safe` is a statement about those same propagators. -/
theorem C17_lin_same_functions (cs : List Int) (xs : List Nat) (c : Int) (B : Nat) (hr : LS.RowOK cs xs c B)
    (ctx : Ctx) (hst : VS.StoreOK ctx.st B) :
    (LS.pruneEq cs xs c (List.range xs.length) ctx).2 = PK.prune (.linEq cs xs c) ctx ∧
    (LS.pruneLe cs xs c (List.range xs.length) ctx).2 = PK.prune (.linLe cs xs c) ctx ∧
    (LS.pruneNe cs xs c ctx).2 = PK.prune (.linNe cs xs c) ctx :=
  ⟨LS.pruneEq_eq_PK cs xs c B hr ctx hst, LS.pruneLe_eq_PK cs xs c B hr ctx hst,
   LS.pruneNe_eq_PK cs xs c B hr ctx hst⟩

/-- the rounding helpers of linear.rs (`div_floor`, `div_ceil`, written with truncating `/` and
`%`) are the mathematical floor and ceiling for every non-zero divisor -/
theorem C17_lin_rounding (a b : Int) (hb : b ≠ 0) :
    (LS.divRound a b false).2 = floorDiv a b ∧ (LS.divRound a b true).2 = ceilDiv a b :=
  ⟨LS.divRound_floor a b hb, LS.divRound_ceil a b hb⟩

/-- outside the hypothesis the two differ: in `x0 + x1 + x2 - x3 ≤ i32::MAX` with
`x1 = x2 = x3 = i32::MAX` the running sum `MAX + MAX` saturates, the code keeps `x0 = 1`, exact
arithmetic removes it — and the `fid` sites report it (`faithful = false`) -/
theorem C17_lin_saturation_counterexample :
    let st : Store := fun i => if i = 0 then [-1, 0, 1] else [2147483647]
    (LS.pruneLe [1, 1, 1, -1] [0, 1, 2, 3] 2147483647 (List.range 4) { st := st }).2.map (fun c => c.st 0) = some [-1, 0, 1] ∧
    (PK.prune (.linLe [1, 1, 1, -1] [0, 1, 2, 3] 2147483647) { st := st }).map (fun c => c.st 0) = some [-1, 0] ∧
    faithful (LS.pruneLe [1, 1, 1, -1] [0, 1, 2, 3] 2147483647 (List.range 4) { st := st }).1 = false := by
  decide

/-- `x + 65536·y = 0` with `y ∈ [0, 65536]`: `other_coeff * u` overflows (products of in-range
factors) -/
theorem C17_lin_product_counterexample :
    safe (LS.pruneEq [1, 65536] [0, 1] 0 [0, 1] { st := fun i => if i = 0 then [0, 1] else [0, 65536] }).1 = false := by
  decide

/-- fewer coefficients than variables (what the unchecked reified helpers allow): `coefficients[i]`
is out of bounds -/
theorem C17_lin_length_counterexample :
    safe (LS.pruneLe [1] [0, 1] 1 [0, 1] { st := fun _ => [0, 1, 2] }).1 = false := by decide

/-- `-x ≤ c` with a saturated remainder: `i32::MIN.div_euclid(-1)` overflows -/
theorem C17_lin_division_counterexample :
    safe (LS.pruneLe [-1, 1] [0, 1] (-2147483648) [0, 1] { st := fun i => if i = 0 then [0, 1] else [5] }).1 = false := by
  decide

/-! ### the validation decision table -/

/-- the full-strength statement: every documented invalid input surfaces as an `Err` value or as
an unsatisfiable verdict -/
def FullStatement : Prop := ∀ sc : Scenario, documentedInvalid sc = true → (outcome sc).surfaced = true

/-- `let x = m.intset(vec![]); m.new(x.eq(y))` / `int(3,1)` + `x.eq(y)`: panic (`min()` on an
empty set inside `apply_var_eq_bounds`) -/
theorem C17_validation_empty_domain_counterexample :
    documentedInvalid (.boundsEq 3 1) = true ∧ (outcome (.boundsEq 3 1)).verdict = .panic := by decide

/-- `lin_le_reif(&[1], &[x, y], 1, b)`: the reified helpers do not compare the lengths; the
propagator then indexes `coefficients[1]` -/
theorem C17_validation_lin_reif_counterexample :
    documentedInvalid (.linLen 1 2 1 true) = true ∧ (outcome (.linLen 1 2 1 true)).verdict = .panic ∧
    documentedInvalid (.linLen 2 1 0 true) = true ∧ (outcome (.linLen 2 1 0 true)).verdict = .sol := by decide

/-- `with_max_memory_mb(1); let x = m.int(-1000000, 1000000); m.add(x, 1)`: the budget rejects
`x`; on the pinned tree the dummy `VarId(0)` of a model without variables was dereferenced (panic).
Since fix 39d3272 the dummy names a placeholder variable and every entry point reports
`MemoryLimit` (the former counterexample, now the repaired behaviour on the same witness). -/
theorem C17_validation_memory_repaired :
    documentedInvalid (.mem 1 (-1000000) 1000000 true true) = true ∧
    (outcome (.mem 1 (-1000000) 1000000 true true)).verdict = .err .memoryLimit := by decide

theorem C17_validation_full_statement_false : ¬ FullStatement := by
  intro h
  have := h (.boundsEq 3 1) (by decide)
  revert this
  decide

/-- **C17 (validation table, guarded).**  Outside the two known findings (`isFinding`:
empty-domain variable used by a view / result-variable function, reified linear helper with
mismatched lengths; the third one, a rejected first variable used afterwards, is repaired) every documented invalid input —
reversed bounds, empty value set, empty min/max list, coefficient/variable length mismatch, zero in
a divisor's domain, element index entirely out of range, exceeded memory budget — surfaces as an
`Err` value (`InvalidDomain`, `InvalidInput`, `InvalidConstraint`, `MemoryLimit`) or as an
unsatisfiable verdict, for all parameter values. -/
theorem C17_validation_table_partial (sc : Scenario) (hinv : documentedInvalid sc = true)
    (hg : isFinding sc = false) : (outcome sc).surfaced = true := by
  cases sc with
  | bounds lo hi =>
    simp only [documentedInvalid, decide_eq_true_eq] at hinv
    simp [outcome, Outcome.surfaced, hinv]
  | boundsEq lo hi =>
    simp only [documentedInvalid, decide_eq_true_eq] at hinv
    simp [isFinding, hinv] at hg
  | boundsUse lo hi =>
    simp only [documentedInvalid, decide_eq_true_eq] at hinv
    simp [isFinding, hinv] at hg
  | ints n lo hi => simp [documentedInvalid] at hinv
  | set vals =>
    simp only [documentedInvalid] at hinv
    simp [outcome, Outcome.surfaced, hinv]
  | minMax m n r =>
    simp only [documentedInvalid, beq_iff_eq] at hinv
    simp [outcome, Outcome.surfaced, hinv]
  | linLen nc nv rel reif =>
    cases reif with
    | true => simp [isFinding] at hg; simp [documentedInvalid, hg] at hinv
    | false =>
      simp only [documentedInvalid, bne_iff_ne, ne_eq] at hinv
      simp [outcome, Outcome.surfaced, hinv]
  | zeroDiv lo hi o r =>
    simp only [documentedInvalid, decide_eq_true_eq] at hinv
    simp [outcome, Outcome.surfaced, hinv]
  | elem n lo hi r =>
    simp only [documentedInvalid, decide_eq_true_eq] at hinv
    have : ¬ ((if lo > 0 then lo else 0) ≤ (if hi < (n : Int) - 1 then hi else (n : Int) - 1)) := by
      split <;> split <;> omega
    simp [outcome, Outcome.surfaced, this]
  | mem limit lo hi post first =>
    simp only [documentedInvalid] at hinv
    simp [outcome, Outcome.surfaced, hinv]
  | tableArity nv rl => simp [documentedInvalid] at hinv
  | allDiffDup d => simp [documentedInvalid] at hinv
  | allDiff ds => simp [documentedInvalid] at hinv

/-- which error each documented invalid input becomes (the decision table itself) -/
theorem C17_validation_table :
    (∀ lo hi, lo > hi → outcome (.bounds lo hi) = ⟨none, .err .invalidDomain⟩) ∧
    (outcome (.set []) = ⟨none, .err .invalidDomain⟩) ∧
    (∀ m r, outcome (.minMax m 0 r) = ⟨some .invalidInput, .sol⟩) ∧
    (∀ nc nv rel, nc ≠ nv → outcome (.linLen nc nv rel false) = ⟨none, .err .invalidConstraint⟩) ∧
    (∀ lo hi o r, lo ≤ 0 → 0 ≤ hi → outcome (.zeroDiv lo hi o r) = ⟨none, .err .invalidConstraint⟩) ∧
    (∀ (n : Nat) (lo hi : Int) (r : Nat), (hi < 0 ∨ lo ≥ (n : Int)) → lo ≤ hi → outcome (.elem n lo hi r) = ⟨none, .noSolution⟩) ∧
    (∀ limit lo hi post first, memExceeded limit lo hi post first = true →
        outcome (.mem limit lo hi post first) = ⟨none, .err .memoryLimit⟩) := by
  refine ⟨?_, ?_, ?_, ?_, ?_, ?_, ?_⟩
  · intro lo hi h; simp [outcome, h]
  · simp [outcome]
  · intro m r; simp [outcome]
  · intro nc nv rel h; simp [outcome, h]
  · intro lo hi o r h1 h2; simp [outcome, h1, h2]
  · intro n lo hi r h hle
    have : ¬ ((if lo > 0 then lo else 0) ≤ (if hi < (n : Int) - 1 then hi else (n : Int) - 1)) := by
      split <;> split <;> omega
    simp [outcome, this]
  · intro limit lo hi post first h; simp [outcome, h]

/-! ### the all-different validation rows of the table -/

/-- the rows: two variables fixed to the same value and fewer values than variables are reported as
`ConflictingConstraints` by every entry point (the scan is `Determ.adScan`); constraints over at
most one variable are skipped -/
theorem C17_validation_alldiff_rows :
    outcome (.allDiff [some [2], some [1, 2, 3], some [2]]) = ⟨none, .err .conflictingConstraints⟩ ∧
    outcome (.allDiff [some [1, 2], some [1, 2], some [2, 1]]) = ⟨none, .err .conflictingConstraints⟩ ∧
    outcome (.allDiff [some [1, 2], some [1, 2], some [1, 2], some [3, 4]]) = ⟨none, .noSolution⟩ ∧
    outcome (.allDiff [some [1, 2], some [2, 3], some [1, 3]]) = ⟨none, .sol⟩ ∧
    outcome (.allDiff [none]) = ⟨none, .sol⟩ := by decide

/-- **C17 (all-different validation, integer variables).**  When every variable of the constraint
is an integer variable, the `ConflictingConstraints` verdict of the table is given only if no
assignment of pairwise different values exists (`Validate.adScan_reject_sound`): the invalid model
surfaces as an `Err`, and no satisfiable one does. -/
theorem C17_validation_alldiff_sound (ds : List (List Int))
    (h : (outcome (.allDiff (ds.map some))).verdict = .err .conflictingConstraints) :
    ¬ ∃ vs, Validate.ADSol ds vs := by
  apply Validate.adScan_reject_sound
  intro hok
  simp only [outcome, List.length_map] at h
  split at h
  · cases h
  · rw [hok] at h
    simp only [] at h
    split at h <;> cases h

/-- the full-strength version (for any mix of integer and float variables) is false: the float
variables are counted in the number of required distinct values although their domains are
skipped — `alldiff(x = float(0,10), y = intset([1]))` is rejected although satisfiable (finding
`alldiff-float-counted`) -/
theorem C17_validation_alldiff_float_counterexample :
    (outcome (.allDiff [none, some [1]])).verdict = .err .conflictingConstraints ∧
    adSat (adInts [none, some [1]]) [] = true := by decide

/-! ### the hypotheses are satisfiable -/

example : (SS.new (-3) 4).WF ∧ Small (SS.new (-3) 4) ∧ SSS.opSmall (.above 2) :=
  ⟨new_wf _ _, (C17_ss_new_safe (-3) 4 (by omega) (by omega)).2, by unfold SSS.opSmall SmallV; omega⟩

example : VS.StoreOK (fun _ => [-5, 0, 7]) 7 ∧ VS.scalesPos (.plus (.tpos (.opp (.var 0)) 3) (-4)) = true ∧
    VS.bound 7 (.plus (.tpos (.opp (.var 0)) 3) (-4)) ≤ 2147483647 := by
  refine ⟨fun i => ⟨by simp, ?_⟩, by decide, by decide⟩
  intro w hw
  simp at hw
  omega

example : LS.RowOK [2, -3] [0, 1] 5 10 := ⟨by decide, by decide, by decide⟩

example : documentedInvalid (.zeroDiv (-1) 2 0 0) = true ∧ isFinding (.zeroDiv (-1) 2 0 0) = false := by decide

end C17
end Selen

import SelenModel.Lemmas.Limits
import SelenModel.Lemmas.Search
/-
C15 — Time and memory limits yield explicit errors, never wrong answers.

  "Under any timeout or memory limit, solve/minimize/maximize return either a correct result or
   the corresponding Timeout/MemoryLimit error; a limit never turns a satisfiable model into a
   no-solution verdict, never yields an assignment that violates a constraint, and never panics.
   Every assignment enumerate yields before a limit cuts it short is a genuine solution, and a
   model that exceeded its memory limit while being built reports MemoryLimit from every solving
   entry point."

Model: the engine's event trace (`Ev.sol/push/pop`) with the limit tests of `Engine::next` as a
fold (`runLimited`): a check happens at the start of each `next()` call and after each stack pop;
`fire count depth` is an *arbitrary* predicate (any clock, any memory estimate).  `solveLimited` /
`minimizeLimited` are the wrappers of `Model::solve` / `minimize` with their post-loop tests
(`post`, also arbitrary).  The driver runs the online version `searchL`, proved equal to the fold
(`exploreL_spec`).
-/
namespace Selen
namespace C15

/-- **C15 (enumerate).** Under any limit oracle the assignments delivered are a prefix of the
unlimited enumeration — hence, by C01/C03, genuine solutions. -/
theorem C15_prefix (evs : List Ev) (fire : Nat → Nat → Bool) (saf : Bool) :
    (runLimited evs fire saf).delivered <+: evsSols evs := by
  unfold runLimited
  rw [finish_delivered]
  obtain ⟨d, h1, h2⟩ := foldl_prefix fire saf evs {}
  rw [h1]; simpa using h2

theorem C15_delivered_are_solutions (m : IModel) (h : m.WF) (pol : Policy) (fuel : Nat)
    (fire : Nat → Nat → Bool) (v : List Int)
    (hv : v ∈ (runLimited (search m.n none pol fuel m.ps m.store).evs fire).delivered) :
    ∃ a, v = proj m.n a ∧ m.IsSol a :=
  m.search_sound h none (fun _ e => by cases e) pol fuel v
    ((C15_prefix _ fire false).subset hv)

/-- **C15 (solve).** Whatever the limit oracle and the post-loop tests say, `solve` returns the
unlimited answer or a limit error: `Ok v` only for the first unlimited solution, `NoSolution`
only if the unlimited search yields nothing. -/
theorem C15_solve_result (o : Out) (fire : Nat → Nat → Bool) (kind : LimKind) (post : Option LimKind) :
    match solveLimited o fire kind post with
    | .ok v => o.solutions.head? = some v
    | .noSolution => o.solutions = []
    | .timeout => True
    | .memoryLimit => True := by
  unfold solveLimited
  by_cases hs : o.stalled = true
  · simp only [hs, if_true]
    by_cases hf : (runLimited o.evs fire true).fired = true
    · simp only [hf, if_true]; cases kind <;> simp [limErr]
    · simp only [hf]
      cases post with
      | some k => cases k <;> simp [limErr]
      | none =>
        simp only
        have hf' : (runLimited o.evs fire true).fired = false := by simpa using hf
        unfold runLimited at hf' ⊢
        have hfold := finish_fired_mono fire _ hf'
        have := foldl_first fire o.evs {} rfl hfold
        rw [finish_delivered, this]
        simp only [List.reverse_nil, List.nil_append]
        rw [IModel.solutions_eq]
        cases evsSols o.evs with
        | nil => simp
        | cons v l => simp
  · simp only [hs]
    cases h : o.solutions.head? with
    | none => simp; exact List.head?_eq_none_iff.1 h
    | some v => simp

/-- **C15 (minimize / maximize).** `Ok v` only for the last assignment of the unlimited
branch-and-bound run (the optimum, by C04), `NoSolution` only if nothing is yielded; a cut run
returns the error, never the non-optimal incumbent. -/
theorem C15_minimize_result (o : Out) (fire : Nat → Nat → Bool) (kind : LimKind) (post : Option LimKind) :
    match minimizeLimited o fire kind post with
    | .ok v => o.solutions.getLast? = some v
    | .noSolution => o.solutions = []
    | .timeout => True
    | .memoryLimit => True := by
  unfold minimizeLimited
  by_cases hs : o.stalled = true
  · simp only [hs, if_true]
    by_cases hf : (runLimited o.evs fire false).fired = true
    · simp only [hf, if_true]; cases kind <;> simp [limErr]
    · simp only [hf]
      cases post with
      | some k => cases k <;> simp [limErr]
      | none =>
        simp only
        have hf' : (runLimited o.evs fire false).fired = false := by simpa using hf
        unfold runLimited at hf' ⊢
        have hfold := finish_fired_mono fire _ hf'
        have := (foldl_complete fire o.evs {} rfl hfold).1
        rw [finish_delivered, this]
        simp only [List.reverse_nil, List.nil_append]
        rw [IModel.solutions_eq]
        cases h : (evsSols o.evs).getLast? with
        | none => simp; exact List.getLast?_eq_none_iff.1 h
        | some v => simp
  · simp only [hs]
    cases h : o.solutions.getLast? with
    | none => simp; exact List.getLast?_eq_none_iff.1 h
    | some v => simp

/-- a satisfiable model is never turned into a no-solution verdict by a limit -/
theorem C15_never_no_solution_when_satisfiable (m : IModel) (h : m.WF) (pol : Policy) (fuel : Nat)
    (hfuel : (search m.n none pol fuel m.ps m.store).outOfFuel = false) (a : Asg) (ha : m.IsSol a)
    (fire : Nat → Nat → Bool) (kind : LimKind) (post : Option LimKind) :
    solveLimited (search m.n none pol fuel m.ps m.store) fire kind post ≠ .noSolution := by
  intro hc
  have := C15_solve_result (search m.n none pol fuel m.ps m.store) fire kind post
  rw [hc] at this
  simp only at this
  have hm := m.search_complete_enum h pol fuel a ha hfuel
  rw [this] at hm; cases hm

/-- the online engine the driver runs is the fold over the unlimited trace -/
theorem C15_online_engine_is_fold (n : Nat) (obj : Option IView) (pol : Policy) (fire : Nat → Nat → Bool)
    (saf : Bool) (fuel : Nat) (ps : List PK) (st : Store) :
    ((exploreL n obj pol fire saf fuel ps st none {}).1).finish fire =
      runLimited (explore n obj pol fuel ps st none).evs fire saf := by
  unfold runLimited
  rw [((exploreL_spec n obj pol fire saf fuel).1 ps st none {}).1]

/-- build-time budget: every solving entry point first tests the flag set while the model was
built (after the `fix:` of minimize/maximize) -/
def entry (memoryFlag : Bool) (r : SolveRes) : SolveRes := if memoryFlag then .memoryLimit else r

theorem C15_build_flag (r : SolveRes) : entry true r = .memoryLimit := rfl

/-- sample: x,y ∈ 0..2, x + y = 2, interrupted at the 3rd check: two of the three solutions -/
example : (runLimited (search 2 none Policy.fifo 30 [.linEq [1, 1] [0, 1] 2]
            (fun i => if i < 2 then [0, 1, 2] else [0])).evs (fun c _ => decide (c ≥ 3))).delivered = [[0, 2], [1, 1]] := by
  decide

end C15
end Selen

import SelenModel.Lemmas.Search
/-
C04 — minimize/maximize return a feasible assignment with the true optimum.

  "For an integer/boolean model, minimize and maximize return Ok exactly when the model is
   satisfiable (limits aside); the returned assignment satisfies all constraints and no
   satisfying assignment has a strictly better value of the objective. The iterating variants
   yield only satisfying assignments with strictly improving objective, the last one being
   optimal, and maximize(x) agrees with minimize of the negated objective."

`minimize o` keeps the last assignment yielded by `search` in mode `some o`; `maximize o` is
`minimize (opp o)`.  The optimisation fast path (`OptimizationRouter`) and the root LP step are
*not* part of this model: they are call-site findings (see known_findings.json) attributed with
the hooks H4; the theorems below are about the search path.
-/
namespace Selen
namespace C04

/-- **C04 (branch and bound).** For every well-formed model and every well-formed objective view
over a declared variable: the yielded objective values strictly decrease; if nothing is yielded
the model is unsatisfiable; otherwise the last yielded assignment is a solution whose objective
is minimal among all solutions. -/
theorem C04_bnb_optimal (m : IModel) (h : m.WF) (o : IView) (ho : o.WF)
    (hon : ∀ i, o.underlying = some i → i < m.n) (pol : Policy) (fuel : Nat)
    (hfuel : (search m.n (some o) pol fuel m.ps m.store).outOfFuel = false) :
    ((search m.n (some o) pol fuel m.ps m.store).solutions.map (evalL o)).Pairwise (· > ·) ∧
    (∀ v ∈ (search m.n (some o) pol fuel m.ps m.store).solutions, ∃ a, v = proj m.n a ∧ m.IsSol a) ∧
    match (search m.n (some o) pol fuel m.ps m.store).solutions.getLast? with
    | none => ∀ a, ¬ m.IsSol a
    | some v => ∀ a, m.IsSol a → evalL o v ≤ o.eval a := by
  obtain ⟨h1, h2⟩ := m.search_optimal h o ho hon pol fuel hfuel
  exact ⟨h1, fun v hv => m.search_sound h (some o) (fun _ e => by cases e; exact ho) pol fuel v hv, h2⟩

/-- **C04 (maximize = minimize of the negated objective).** Running the engine on `opp o` ends
with an assignment whose `o`-value is maximal. -/
theorem C04_maximize (m : IModel) (h : m.WF) (o : IView) (ho : o.WF)
    (hon : ∀ i, o.underlying = some i → i < m.n) (pol : Policy) (fuel : Nat)
    (hfuel : (search m.n (some (.opp o)) pol fuel m.ps m.store).outOfFuel = false) :
    match (search m.n (some (.opp o)) pol fuel m.ps m.store).solutions.getLast? with
    | none => ∀ a, ¬ m.IsSol a
    | some v => ∀ a, m.IsSol a → o.eval a ≤ evalL o v := by
  have := (m.search_optimal h (.opp o) ho hon pol fuel hfuel).2
  cases hl : (search m.n (some (.opp o)) pol fuel m.ps m.store).solutions.getLast? with
  | none => rw [hl] at this; exact this
  | some v =>
    rw [hl] at this
    intro a ha
    have := this a ha
    simp only [evalL, IView.eval] at this ⊢
    omega

/-- sample: minimise x - 3 with x ≠ y (as a linear row), y declared first -/
example : (search 2 (some (.plus (.var 1) (-3))) Policy.fifo 40 [.linNe [1, -1] [1, 0] 0]
            (fun i => if i = 0 then [0, 1, 2, 3] else if i = 1 then [0, 1, 2, 3] else [0])).solutions.getLast?
    = some [1, 0] := by decide

/-- **C04 without the fuel proviso**: for duplicate-free declared domains every fuel
`≥ m.fuelBound` suffices (`IModel.search_terminates`), so branch and bound ends at a proven optimum
for every well-formed model. -/
theorem C04_bnb_optimal_total (m : IModel) (h : m.WF) (hnd : ∀ d ∈ m.doms, d.Nodup) (o : IView) (ho : o.WF)
    (hon : ∀ i, o.underlying = some i → i < m.n) (pol : Policy) (fuel : Nat) (hf : m.fuelBound ≤ fuel) :
    ((search m.n (some o) pol fuel m.ps m.store).solutions.map (evalL o)).Pairwise (· > ·) ∧
    (∀ v ∈ (search m.n (some o) pol fuel m.ps m.store).solutions, ∃ a, v = proj m.n a ∧ m.IsSol a) ∧
    match (search m.n (some o) pol fuel m.ps m.store).solutions.getLast? with
    | none => ∀ a, ¬ m.IsSol a
    | some v => ∀ a, m.IsSol a → evalL o v ≤ o.eval a :=
  C04_bnb_optimal m h o ho hon pol fuel
    (m.search_terminates h hnd (some o) (fun _ e => by cases e; exact ho) pol fuel hf)

end C04
end Selen

import SelenModel.Lemmas.Search
import SelenModel.Lemmas.Validate
/-
C02 — solve() succeeds exactly on satisfiable models.

  "If a model over integer/boolean variables has at least one satisfying assignment and no time
   or memory limit is hit, solve returns a solution; it returns a no-solution, conflict or
   invalid-domain error only for models that have no satisfying assignment. Model validation
   never rejects a satisfiable, well-formed model."

`solve` takes the first assignment `search` yields in enumeration mode.  The statements below are
about the engine on the lowered model (`IModel`); the validation table and the eager domain edits
done before lowering are covered by the correspondence / oracle runs (see DESIGN.md, C02).
-/
namespace Selen
namespace C02

/-- the verdict of `solve` on the search output -/
def solveResult (o : Out) : Option (List Int) := o.solutions.head?

/-- **C02 (completeness).** A satisfiable well-formed model is never reported unsatisfiable:
if some assignment satisfies the model and the run did not exhaust its fuel, `solve` returns an
assignment — for every pop policy. -/
theorem C02_solve_complete (m : IModel) (h : m.WF) (pol : Policy) (fuel : Nat) (a : Asg)
    (ha : m.IsSol a) (hfuel : (search m.n none pol fuel m.ps m.store).outOfFuel = false) :
    ∃ v, solveResult (search m.n none pol fuel m.ps m.store) = some v := by
  have := m.search_complete_enum h pol fuel a ha hfuel
  unfold solveResult
  cases hs : (search m.n none pol fuel m.ps m.store).solutions with
  | nil => rw [hs] at this; cases this
  | cons v _ => exact ⟨v, rfl⟩

/-- **C02 (no-solution verdicts are right).** If `solve` reports no solution (and the fuel
sufficed) the model has no satisfying assignment. -/
theorem C02_no_solution_sound (m : IModel) (h : m.WF) (pol : Policy) (fuel : Nat)
    (hfuel : (search m.n none pol fuel m.ps m.store).outOfFuel = false)
    (hnone : solveResult (search m.n none pol fuel m.ps m.store) = none) :
    ∀ a, ¬ m.IsSol a := by
  intro a ha
  obtain ⟨v, hv⟩ := C02_solve_complete m h pol fuel a ha hfuel
  rw [hnone] at hv; cases hv

/-- **C02 (returned assignments are solutions).** -/
theorem C02_solve_sound (m : IModel) (h : m.WF) (pol : Policy) (fuel : Nat) (v : List Int)
    (hv : solveResult (search m.n none pol fuel m.ps m.store) = some v) :
    ∃ a, v = proj m.n a ∧ m.IsSol a := by
  apply m.search_sound h none (fun _ e => by cases e) pol fuel v
  unfold solveResult at hv
  exact List.mem_of_mem_head? hv

/-- the split point always leaves both branches non-trivial on a two-valued domain, also for the
`[-1, 0]` case the source comments on -/
example : splitMid [-1, 0] = -1 ∧ splitMid [0, 1] = 0 ∧ splitMid [-3, 4] = 0 := by decide

/-- **C02 without the fuel proviso**: for duplicate-free declared domains every fuel
`≥ m.fuelBound` suffices (`IModel.search_terminates`), so a satisfiable model always yields. -/
theorem C02_solve_complete_total (m : IModel) (h : m.WF) (hnd : ∀ d ∈ m.doms, d.Nodup) (pol : Policy)
    (fuel : Nat) (hf : m.fuelBound ≤ fuel) (a : Asg) (ha : m.IsSol a) :
    ∃ v, solveResult (search m.n none pol fuel m.ps m.store) = some v :=
  C02_solve_complete m h pol fuel a ha (m.search_terminates h hnd none (fun _ e => by cases e) pol fuel hf)

/-- **C02, validation step.** `solve` first runs `ModelValidator::validate`; its
`ConflictingConstraints` verdict for an all-different constraint over integer variables (two
variables fixed to the same value, or fewer distinct values than variables) is given only when
no assignment of pairwise different values inside the domains exists — pigeonhole, any number of
variables. (`adScan` is compared with the code by the `validate` suite.) -/
theorem C02_alldiff_validation_sound (ds : List (List Int))
    (h : Determ.adScan ds.length (ds.map some) [] [] ≠ .ok) : ¬ ∃ vs, Validate.ADSol ds vs :=
  Validate.adScan_reject_sound ds h

/-- finding `alldiff-float-counted`: float variables are skipped by the scan but counted in the
number of required values, so `alldiff(x : float, y ∈ {1})` is rejected although satisfiable -/
theorem C02_alldiff_float_counterexample :
    Determ.adScan 2 [none, some [1]] [] [] = .tooFew 2 1 := by decide

end C02
end Selen

import SelenModel.Lemmas.Lower
import SelenModel.Lemmas.LowerFloat
/-
C10 — Fluent expressions and combinators mean what their arithmetic reading means.

  "A constraint built with the fluent API denotes exactly the relation obtained by evaluating its
   expression tree: for any tree over +, -, *, /, mod, variables and constants compared with
   ==, !=, <, <=, >, >=, and for and/or/not combinations of such comparisons, the model's solution
   set equals the set of assignments at which the tree evaluates to true.  This holds
   independently of internal rewriting (normalisation to linear form, constant folding, identity
   elimination, auxiliary variables, immediate application of equalities) and of operand types."

The code violates the full statement (general `or`, `not`, nested `!=`): kernel-checked
counterexamples below (an `or` of two comparisons over integer operands is a reified disjunction
since the repair `fix: or of two comparisons is a disjunction`: `C10_or_comparisons_sound`).
What is proved, for models of any size, about `Model/Lower.lean`
(the executable model of `src/runtime_api/mod.rs`, tied to the code by the `lower` suite):

* `Lemmas/Lower.lean`: `Expr.eval_mkAdd/mkSub/mkMul/mkDiv/mkMod`, `Expr.build_eval` (constant
  folding and identity elimination preserve the value), `Expr.extractLinear_sound`,
  `LModel.linearise_sound` (normalisation to linear form), `LModel.materializeLin_sem` (all six
  operators), `LModel.applyVarEqBounds_sound` (immediate application of `Var == Var`).
* here: `C10_linear_fragment` (the linear fragment denotes its arithmetic reading; when the
  debug assertion of `apply_var_eq_bounds` can fire: `C10_linear_panic_step`,
  `C10_linear_no_panic`, `C10_linear_panic_example`), `C10_and_is_conjunction`
  (+ `C10_and_vv_sem`), `C10_or_same_var_sound`, `C10_or_comparisons_sound` (the reified
  disjunction: sound, booleans functionally determined, exact projection on the user's variables
  under the auxiliary-range hypothesis), `C10_or_repaired_witness` (the former counterexample
  `x == 1 or y == 2`, now a theorem), the counterexamples `C10_or_nested_counterexample` (an `or`
  with a nested side is still a conjunction; float operands: `C10_float_or_counterexample`),
  `C10_not_counterexample`, `C10_nested_ne_checked`, and `C10_aux_vars_partial`
  (auxiliary variables of `+`/`-` trees are functionally determined, under the range hypothesis
  shown necessary by `C10_aux_clipped_counterexample`).

FLOAT OPERANDS (second half of the file, `C10_float_*`; model `Model/LowerFloat.lean`, written once
against `Num`: the driver runs it at `Float` — bit-exact with the code, suite `lower --float` — the
theorems below are about the same definitions at exact rationals `Rat`):

* `C10_float_build_sound`, `C10_float_coefficient_arms`, `C10_float_extract_sound`: constant folding
  through `Val`'s mixed arithmetic and `try_extract_linear_form` with `LinearCoefficient::{Int,Float}`
  (every arm of add / subtract / negate, mixed kinds) preserve the value of the tree.
* `C10_float_lowering_decision`: the row is lowered to an INTEGER propagator iff every coefficient
  kind and the constant are `Int` (`C10_float_all_ints_condition`: the code's `all_ints`), which is
  iff no float literal is left in the two trees — the variable TYPES are never consulted.
* this is wrong for float VARIABLES: `C10_float_mixed_strict_counterexample`
  (`mixed-strict-cmp-int-lowered`), `C10_float_varvar_counterexample` (`float-varvar-cmp-ignored`),
  `C10_float_row_intlin_counterexample` (`float-row-lowered-to-intlin`), `C10_float_ne_counterexample`.
* `C10_float_row_partial`: what IS true — the lowered row means the tree read with the lowering's
  strictness step (`1` for the integer row, `10⁻⁶` for the float row); exact when the float
  propagator was chosen and the operator is not strict, and when the integer propagator was chosen
  and every variable of the row takes integer values.
* `C10_linear_fragment_float`: the linear-fragment theorem for models with float variables and
  literals of both kinds.

"Meaning" of a lowered propagator is `PK.holds` (the documented meaning of the integer core,
`Model/IntCore.lean`); that the propagators enforce exactly `PK.holds` is C05/C01's subject — the
one place where they do not (`NotEquals` is a no-op) is what `C10_nested_ne_checked` shows.
-/
namespace Selen
namespace C10

open LModel

/-! ### the linear fragment -/

/-- **C10 on the linear fragment, any number of constraints, any domains.**
`cs` is a list of *simple* constraints (`Con.simple`: top-level comparisons `l op r`, `op` any of
the six, whose two sides are linear — `try_convert_to_linear_ast` succeeds — and which are not the
immediate `Var == Val` / `Val == Var` pattern), posted one after the other to a fresh model with
declared domains `doms` and then lowered (`prepare_for_search`).  Then: no variable is added, one
propagator per constraint is produced, nothing stays pending, and an assignment lies in the
declared domains and makes every tree evaluate to `true` exactly when it lies in the lowered
model's domains and satisfies the documented meaning of every lowered propagator.

So normalisation to linear form (merging of repeated variables, moving everything to one side),
the `≥`/`>`/`<` encodings and the immediate bound intersection of `Var == Var` do not change the
denoted relation.  No hypothesis on `doms` (empty domains allowed) and none on `panicked`: the
equivalence is a fact about the model for every input; for the *code* it is meaningful when
`m.panicked = false` (otherwise the code aborted in a debug assertion, see `C10_linear_panic*`). -/
theorem C10_linear_fragment (doms : List Dom) (cs : List Con) (hs : ∀ c ∈ cs, c.simple = true) :
    let m := (cs.foldl LModel.postCon { doms := doms }).lower
    m.doms.length = doms.length ∧ m.props = cs.map Con.toLP ∧ m.pending = [] ∧
    ∀ a : Nat → Int,
      ((∀ i, i < doms.length → a i ∈ doms.getD i []) ∧ ∀ c ∈ cs, c.eval a = some true) ↔
      ((∀ i, i < m.doms.length → a i ∈ m.doms.getD i []) ∧
        ∀ lp ∈ m.props, PK.holds a lp.toPK = true) := by
  intro m
  obtain ⟨l1, l2, l3, _⟩ := lower_simple doms cs hs
  obtain ⟨q1, _, _, q4, q5⟩ := foldl_postCon_simple cs hs { doms := doms }
  have hlen : m.doms.length = doms.length := by show (LModel.lower _).doms.length = _; rw [l1, q1]
  refine ⟨hlen, l2, l3, fun a => ?_⟩
  show _ ↔ ((∀ i, i < (LModel.lower _).doms.length → a i ∈ (LModel.lower _).doms.getD i []) ∧
    ∀ lp ∈ (LModel.lower _).props, _)
  rw [l1, l2, q1]
  constructor
  · rintro ⟨hd, hc⟩
    refine ⟨q5 a hd hc, ?_⟩
    intro lp hlp
    obtain ⟨c, hcm, rfl⟩ := List.mem_map.1 hlp
    have := simple_sem c (hs c hcm) a
    rw [hc c hcm] at this
    exact (Option.some.inj this).symm
  · rintro ⟨hd, hp⟩
    refine ⟨fun i hi => q4 i _ (hd i hi), ?_⟩
    intro c hcm
    rw [simple_sem c (hs c hcm) a, hp _ (List.mem_map.2 ⟨c, hcm, rfl⟩)]

/-- the hypotheses of `C10_linear_fragment` are satisfiable: `2·x + y − x ≤ 7`, `x == y`,
`3 > y·2 − x`, `x != y + 1` are simple -/
example : ∀ c ∈ [Con.bin (.sub (.add (.mul (.val 2) (.var 0)) (.var 1)) (.var 0)) .le (.val 7),
    Con.bin (.var 0) .eq (.var 1),
    Con.bin (.val 3) .gt (.sub (.mul (.var 1) (.val 2)) (.var 0)),
    Con.bin (.var 0) .ne (.add (.var 1) (.val 1))], c.simple = true := by decide

/-- the immediate pattern, non-linear sides and the combinators are not simple -/
example : (Con.bin (.var 0) .eq (.val 1)).simple = false ∧
    (Con.bin (.mul (.var 0) (.var 1)) .eq (.val 1)).simple = false ∧
    (Con.not (.bin (.var 0) .le (.val 1))).simple = false := by decide

/-- which posts can hit the debug assertion: `Var == Var` with an already empty domain -/
def emptyEq (m : LModel) : Con → Bool
  | .bin (.var x) .eq (.var y) => (m.doms.getD x []).isEmpty || (m.doms.getD y []).isEmpty
  | _ => false

/-- **panic, one post**: posting a simple constraint raises `panicked` exactly when it is a
`Var == Var` one of whose domains is empty at that moment -/
theorem C10_linear_panic_step (m : LModel) (c : Con) (hs : c.simple = true) :
    (LModel.postCon m c).panicked = (m.panicked || emptyEq m c) := by
  obtain ⟨l, op, r, rfl, himm, hlin, _, _, _⟩ := simple_row c hs
  rw [postCon_bin, himm, hlin]
  show (preEq m op l r).panicked = _
  have triv : m.panicked = (m.panicked || false) := by simp
  cases op <;> cases l <;> cases r <;>
    first | exact triv | exact (applyVarEqBounds_sound m _ _).2.2.2.1

/-- lowering the linear fragment never raises `panicked` itself -/
theorem C10_linear_panic_lower (doms : List Dom) (cs : List Con) (hs : ∀ c ∈ cs, c.simple = true) :
    ((cs.foldl LModel.postCon { doms := doms }).lower).panicked =
      (cs.foldl LModel.postCon { doms := doms }).panicked :=
  (lower_simple doms cs hs).2.2.2

/-- without `Var == Var` constraints the linear fragment cannot panic -/
theorem C10_linear_no_panic (doms : List Dom) (cs : List Con) (hs : ∀ c ∈ cs, c.simple = true)
    (hne : ∀ c ∈ cs, ∀ m, emptyEq m c = false) :
    ((cs.foldl LModel.postCon { doms := doms }).lower).panicked = false := by
  rw [C10_linear_panic_lower doms cs hs]
  have gen : ∀ (cs : List Con), (∀ c ∈ cs, c.simple = true) → (∀ c ∈ cs, ∀ m, emptyEq m c = false) →
      ∀ m : LModel, (cs.foldl LModel.postCon m).panicked = m.panicked := by
    intro cs
    induction cs with
    | nil => intros; rfl
    | cons c cs ih =>
      intro hs hne m
      simp only [List.foldl_cons]
      rw [ih (fun c' h => hs c' (List.mem_cons_of_mem _ h)) (fun c' h => hne c' (List.mem_cons_of_mem _ h)),
        C10_linear_panic_step m c (hs c (List.mem_cons_self ..)), hne c (List.mem_cons_self ..)]
      simp
  exact gen cs hs hne _

/-- the panic is reachable from non-empty declared domains: `x ∈ {0,10}`, `y ∈ {5}`;
the first `x == y` empties `x` (bounds `[5,5]`), the second one asks an empty domain for its
minimum (recorded finding `empty-domain-view-panic`) -/
theorem C10_linear_panic_example :
    let doms : List Dom := [[0, 10], [5]]
    let c := Con.bin (.var 0) .eq (.var 1)
    (LModel.postCon { doms := doms } c).panicked = false ∧
    (LModel.postCon { doms := doms } c).doms = [[], [5]] ∧
    ([c, c].foldl LModel.postCon { doms := doms }).lower.panicked = true := by decide

/-! ### `and` -/

/-- `and`-trees whose leaves compare two variables -/
def vvTree : Con → Bool
  | .bin (.var _) _ (.var _) => true
  | .and a b => vvTree a && vvTree b
  | _ => false

/-- the propagators such a tree is lowered to, in order -/
def vvProps : Con → List LP
  | .bin (.var x) op (.var y) => [cmpLP op x y]
  | .and a b => vvProps a ++ vvProps b
  | _ => []

/-- **`and` is conjunction.** Lowering `a.and(b)` is lowering `a`, then `b` (definitional). -/
theorem C10_and_is_conjunction (m : LModel) (a b : Con) :
    m.materialize (.and a b) = (m.materialize a).materialize b := rfl

/-- semantic consequence on `and`-trees of variable comparisons (all six operators, any nesting):
lowering only appends propagators, and they all hold exactly when the tree evaluates to `true`
(at the level of the documented meaning `PK.holds`; see `C10_nested_ne_checked` for what
the `NotEquals` propagator actually enforces). -/
theorem C10_and_vv_sem (c : Con) (hc : vvTree c = true) (m : LModel) :
    m.materialize c = { m with props := m.props ++ vvProps c } ∧
    ∀ a : Nat → Int, (∀ lp ∈ vvProps c, PK.holds a lp.toPK = true) ↔ c.eval a = some true := by
  induction c generalizing m with
  | bin l op r =>
    cases l <;> cases r <;> try (simp [vvTree] at hc; done)
    rename_i x y
    constructor
    · cases op <;> rfl
    · intro a
      simp only [vvProps, List.mem_singleton, forall_eq, cmpLP_sem, Con.eval, Expr.eval, bind,
        Option.bind, pure, Option.some.injEq]
  | and p q ihp ihq =>
    simp only [vvTree, Bool.and_eq_true] at hc
    obtain ⟨hp1, hp2⟩ := ihp hc.1 m
    obtain ⟨hq1, hq2⟩ := ihq hc.2 (m.materialize p)
    constructor
    · rw [C10_and_is_conjunction, hq1, hp1]
      simp [vvProps]
    · intro a
      have hpe : ∃ bp, p.eval a = some bp := by
        clear hp1 hp2 hq1 hq2 ihp ihq
        exact vv_total p hc.1 a
      have hqe : ∃ bq, q.eval a = some bq := vv_total q hc.2 a
      obtain ⟨bp, hbp⟩ := hpe
      obtain ⟨bq, hbq⟩ := hqe
      simp only [vvProps, List.mem_append]
      constructor
      · intro h
        have h1 := (hp2 a).1 (fun lp hlp => h lp (Or.inl hlp))
        have h2 := (hq2 a).1 (fun lp hlp => h lp (Or.inr hlp))
        simp [Con.eval, h1, h2]
      · intro h
        simp only [Con.eval, hbp, hbq, bind, Option.bind, pure, Option.some.injEq,
          Bool.and_eq_true] at h
        rw [h.1] at hbp; rw [h.2] at hbq
        intro lp hlp
        rcases hlp with hlp | hlp
        · exact (hp2 a).2 hbp lp hlp
        · exact (hq2 a).2 hbq lp hlp
  | or _ _ _ _ => simp [vvTree] at hc
  | not _ _ => simp [vvTree] at hc
where
  vv_total (c : Con) (hc : vvTree c = true) (a : Nat → Int) : ∃ b, c.eval a = some b := by
    induction c with
    | bin l op r =>
      cases l <;> cases r <;> try (simp [vvTree] at hc; done)
      exact ⟨_, rfl⟩
    | and p q ihp ihq =>
      simp only [vvTree, Bool.and_eq_true] at hc
      obtain ⟨bp, hbp⟩ := ihp hc.1
      obtain ⟨bq, hbq⟩ := ihq hc.2
      exact ⟨bp && bq, by simp [Con.eval, hbp, hbq]⟩
    | or _ _ _ _ => simp [vvTree] at hc
    | not _ _ => simp [vvTree] at hc

example : vvTree (.and (.bin (.var 0) .lt (.var 1)) (.and (.bin (.var 1) .ne (.var 2)) (.bin (.var 2) .ge (.var 0)))) = true := by
  decide

/-! ### `or`, `not`, nested `!=`: what the code does -/

/-- **special case `x == p or x == q` is lowered correctly** (any model, any `x`, `p`, `q`): one
fresh variable `n` with the domain `{p, q}` is created and unified with `x`; under every
assignment the propagator means `a x = a n`, and the tree is true exactly when `a x ∈ {p, q}` —
so the assignments of the user variables that extend to a solution are exactly those at which
the tree evaluates to true (the extension `a n := a x` is the only one). -/
theorem C10_or_same_var_sound (m : LModel) (x : Nat) (p q : Int) :
    let c := Con.or (.bin (.var x) .eq (.val p)) (.bin (.var x) .eq (.val q))
    let d : Dom := if p = q then [p] else if p < q then [p, q] else [q, p]
    let n := m.doms.length
    m.materialize c = { m with doms := m.doms ++ [d], props := m.props ++ [.eqVV x n] } ∧
    (∀ v, v ∈ d ↔ (v = p ∨ v = q)) ∧
    ∀ a : Nat → Int,
      PK.holds a (LP.eqVV x n).toPK = (a x == a n) ∧
      (c.eval a = some true ↔ a x ∈ d) ∧
      ((a n ∈ d ∧ PK.holds a (LP.eqVV x n).toPK = true) → c.eval a = some true) := by
  intro c d n
  have hd : ∀ v, v ∈ d ↔ (v = p ∨ v = q) := by
    intro v
    show v ∈ (if p = q then [p] else if p < q then [p, q] else [q, p]) ↔ _
    split
    · simp; omega
    · split <;> simp <;> omega
  have hev : ∀ a : Nat → Int, c.eval a = some true ↔ a x ∈ d := by
    intro a
    rw [hd]
    simp only [c, Con.eval, Expr.eval, CmpOp.holds, bind, Option.bind, pure, Option.some.injEq,
      Bool.or_eq_true, beq_iff_eq]
  refine ⟨?_, hd, fun a => ⟨rfl, hev a, ?_⟩⟩
  · have hs : sameVarEq (.var x) .eq (.val p) (.var x) .eq (.val q) = some (x, p, q) := by
      simp [sameVarEq]
    show m.materialize (.or (.bin (.var x) .eq (.val p)) (.bin (.var x) .eq (.val q))) = _
    rw [materialize_or_unfold, hs]
    rfl
  · rintro ⟨h1, h2⟩
    rw [hev]
    have : a x = a n := by
      simpa [LP.toPK, PK.holds, IView.eval] using h2
    rw [this]; exact h1

/-- **`or` of two comparisons is a disjunction** (since the repair `fix: or of two comparisons is a
disjunction`; before it this shape was finding `or-lowered-as-and`).

`(l1 op1 r1).or(l2 op2 r2)`, any of the six operators on each side, `l1, r1, l2, r2` trees over
variables `< n = m.doms.length`, constants, `+`, `-` (every variable of the integer model is an
integer variable: `intOperands` is the code's `is_int_expr` test), not the same-variable special
case of `C10_or_same_var_sound`, lowered by `materialize_constraint_kind` into ANY model `m`.
The lowering appends the variables `b1 = n`, `b2 = n+1` (domain `{0,1}`), `one = n+2` (domain
`{1}`), auxiliary variables `D`, and propagators `P` (the operand blocks, `b1 ⇔ (l1 op1 r1)`,
`b2 ⇔ (l2 op2 r2)`, `BoolOr([b1,b2]) = one`; meaning = `PK.holds` of `reif` / `boolOr`) with:
* (sound) every assignment satisfying the new domains and `P` makes the tree TRUE — no range
  hypothesis;
* (booleans) in such an assignment `b1 = 1` iff the first comparison is true, `b2 = 1` iff the
  second one is, `one = 1`;
* (unique) two such assignments that agree on the old variables agree on ALL new variables: the
  two booleans and the auxiliary variables are functionally determined, so no user-level
  solution is enumerated twice;
* (exact projection) if every sub-expression value lies in `[-1000, 1000]` (`Expr.InR`, the fixed
  auxiliary domain; necessary: `C10_aux_clipped_counterexample`), the tree is true at `a` iff `a`
  restricted to the old variables extends to an assignment satisfying the new domains and `P`:
  the solution set projected on the user's variables is exactly the truth set of the tree. -/
theorem C10_or_comparisons_sound (m : LModel) (l1 r1 l2 r2 : Expr) (op1 op2 : CmpOp)
    (h1 : l1.AS = true) (h2 : r1.AS = true) (h3 : l2.AS = true) (h4 : r2.AS = true)
    (hv : m.intOperands l1 r1 l2 r2 = true)
    (hs : sameVarEq l1 op1 r1 l2 op2 r2 = none) :
    let c := Con.or (.bin l1 op1 r1) (.bin l2 op2 r2)
    let n := m.doms.length
    ∃ (D : List Dom) (P : List LP),
      Ext m (m.materialize c) ([boolDom, boolDom, [1]] ++ D) P ∧
      (∀ a, NewSat n ([boolDom, boolDom, [1]] ++ D) P a → c.eval a = some true) ∧
      (∀ a, NewSat n ([boolDom, boolDom, [1]] ++ D) P a →
        (a n = 1 ↔ (Con.bin l1 op1 r1).eval a = some true) ∧ (a n = 0 ∨ a n = 1) ∧
        (a (n + 1) = 1 ↔ (Con.bin l2 op2 r2).eval a = some true) ∧ (a (n + 1) = 0 ∨ a (n + 1) = 1) ∧
        a (n + 2) = 1) ∧
      (∀ a a', Agree n a a' → NewSat n ([boolDom, boolDom, [1]] ++ D) P a →
        NewSat n ([boolDom, boolDom, [1]] ++ D) P a' →
        Agree (n + ([boolDom, boolDom, [1]] ++ D).length) a a') ∧
      (∀ a, l1.InR a → r1.InR a → l2.InR a → r2.InR a →
        (c.eval a = some true ↔
          ∃ a', Agree n a' a ∧ NewSat n ([boolDom, boolDom, [1]] ++ D) P a')) := by
  intro c n
  simp only [intOperands, Bool.and_eq_true] at hv
  obtain ⟨⟨⟨v1, v2⟩, v3⟩, v4⟩ := hv
  obtain ⟨D, P, ext, hmean, huniq, hex⟩ := reifOr_spec m l1 r1 l2 r2 op1 op2 h1 h2 h3 h4 v1 v2 v3 v4
  have hev : ∀ a, c.eval a = some (op1.holds (l1.ev a) (r1.ev a) || op2.holds (l2.ev a) (r2.ev a)) := by
    intro a
    show (do let x ← (Con.bin l1 op1 r1).eval a; let y ← (Con.bin l2 op2 r2).eval a; pure (x || y)) = _
    rw [bin_eval_AS l1 r1 op1 h1 h2, bin_eval_AS l2 r2 op2 h3 h4]
    rfl
  have hsound : ∀ a, NewSat n ([boolDom, boolDom, [1]] ++ D) P a → c.eval a = some true := by
    intro a hsat
    obtain ⟨_, _, _, m1, m2, hor⟩ := hmean a hsat
    rw [hev]
    rcases hor with h | h
    · rw [m1.1 h]; rfl
    · rw [m2.1 h]; simp
  have hcongr : ∀ a a', Agree n a' a → c.eval a' = c.eval a := by
    intro a a' hag
    rw [hev, hev, Expr.ev_congr l1 _ v1 a' a hag, Expr.ev_congr r1 _ v2 a' a hag,
      Expr.ev_congr l2 _ v3 a' a hag, Expr.ev_congr r2 _ v4 a' a hag]
  refine ⟨D, P, ?_, hsound, ?_, huniq, ?_⟩
  · show Ext m (m.materialize (.or (.bin l1 op1 r1) (.bin l2 op2 r2))) _ _
    rw [materialize_or_bins m l1 r1 l2 r2 op1 op2 hs
      (by simp only [intOperands, Bool.and_eq_true]; exact ⟨⟨⟨v1, v2⟩, v3⟩, v4⟩)]
    exact ext
  · intro a hsat
    obtain ⟨b1, b2, hone, m1, m2, _⟩ := hmean a hsat
    rw [bin_eval_AS l1 r1 op1 h1 h2, bin_eval_AS l2 r2 op2 h3 h4]
    simp only [Option.some.injEq]
    exact ⟨m1, b1, m2, b2, hone⟩
  · intro a i1 i2 i3 i4
    constructor
    · intro htrue
      rw [hev] at htrue
      exact hex a i1 i2 i3 i4 (Option.some.inj htrue)
    · rintro ⟨a', hag, hsat⟩
      rw [← hcongr a a' hag]
      exact hsound a' hsat

/-- the hypotheses of `C10_or_comparisons_sound` are satisfiable: `(x + y) - 3 < y or x != y + 1`
over two declared variables, every value in range at `x = y = 1` -/
example : (Expr.sub (.add (.var 0) (.var 1)) (.val 3)).AS = true ∧ (Expr.add (.var 1) (.val 1)).AS = true ∧
    ({ doms := [rangeDom 0 5, rangeDom 0 5] } : LModel).intOperands
      (.sub (.add (.var 0) (.var 1)) (.val 3)) (.var 1) (.var 0) (.add (.var 1) (.val 1)) = true ∧
    sameVarEq (.sub (.add (.var 0) (.var 1)) (.val 3)) .lt (.var 1) (.var 0) .ne (.add (.var 1) (.val 1)) = none ∧
    (Expr.sub (.add (.var 0) (.var 1)) (.val 3)).InR (fun _ => 1) ∧
    (Expr.add (.var 1) (.val 1)).InR (fun _ => 1) := by
  refine ⟨by decide, by decide, by decide, by decide, ?_, ?_⟩ <;> simp [Expr.InR, Expr.ev]

/-- **the former counterexample `x == 1 or y == 2` over `x, y ∈ 0..5`, after the repair** (it was
`C10_or_counterexample`: lowered as `x == 1 and y == 2`, one solution instead of 11).  The lowered
model has the variables `x, y, b1, b2 ∈ {0,1}, one ∈ {1}` and the two constants `{1}`, `{2}`, and
the propagators `b1 ⇔ (x = c₁)`, `b2 ⇔ (y = c₂)`, `BoolOr([b1, b2]) = one`.  Its solutions (new
domains + documented meaning of the three propagators) are EXACTLY the assignments with `x, y` in
their declared domains at which the tree is true, each extended in exactly one way
(`b1 = [x = 1]`, `b2 = [y = 2]`, `one = 1`, constants): the projection on `(x, y)` is the truth set
of the tree, without duplicates.  In particular `(1, 5)`, which no solution of the old lowering
extended, now does extend. -/
theorem C10_or_repaired_witness :
    let doms : List Dom := [rangeDom 0 5, rangeDom 0 5]
    let c := Con.or (.bin (.var 0) .eq (.val 1)) (.bin (.var 1) .eq (.val 2))
    let m := (LModel.postCon { doms := doms } c).lower
    m.panicked = false ∧
    m.doms = [rangeDom 0 5, rangeDom 0 5, boolDom, boolDom, [1], [1], [2]] ∧
    m.props = [.reif .eq 0 5 2, .reif .eq 1 6 3, .boolOr [2, 3] 4] ∧
    (∀ a : Nat → Int,
      ((∀ i, i < m.doms.length → a i ∈ m.doms.getD i []) ∧ ∀ lp ∈ m.props, PK.holds a lp.toPK = true) ↔
      ((∀ i, i < doms.length → a i ∈ doms.getD i []) ∧ c.eval a = some true ∧
        a 2 = (if a 0 = 1 then 1 else 0) ∧ a 3 = (if a 1 = 2 then 1 else 0) ∧
        a 4 = 1 ∧ a 5 = 1 ∧ a 6 = 2)) ∧
    (∃ a : Nat → Int, a 0 = 1 ∧ a 1 = 5 ∧
      (∀ i, i < m.doms.length → a i ∈ m.doms.getD i []) ∧ ∀ lp ∈ m.props, PK.holds a lp.toPK = true) := by
  intro doms c m
  have hdoms : m.doms = [rangeDom 0 5, rangeDom 0 5, boolDom, boolDom, [1], [1], [2]] := by decide
  have hprops : m.props = [.reif .eq 0 5 2, .reif .eq 1 6 3, .boolOr [2, 3] 4] := rfl
  have hev : ∀ a : Nat → Int, c.eval a = some true ↔ (a 0 = 1 ∨ a 1 = 2) := by
    intro a
    simp [c, Con.eval, Expr.eval, CmpOp.holds]
  have hsat : ∀ a : Nat → Int,
      ((∀ i, i < m.doms.length → a i ∈ m.doms.getD i []) ∧ ∀ lp ∈ m.props, PK.holds a lp.toPK = true) ↔
      (((0 ≤ a 0 ∧ a 0 ≤ 5) ∧ (0 ≤ a 1 ∧ a 1 ≤ 5) ∧ (a 2 = 0 ∨ a 2 = 1) ∧ (a 3 = 0 ∨ a 3 = 1) ∧
          a 4 = 1 ∧ a 5 = 1 ∧ a 6 = 2) ∧
        (a 2 = 1 ↔ a 0 = a 5) ∧ (a 3 = 1 ↔ a 1 = a 6) ∧ (a 4 ≥ 1 ↔ (a 2 ≥ 1 ∨ a 3 ≥ 1))) := by
    intro a
    rw [hdoms, hprops]
    have r1 := holds_reif_iff a .eq 0 5 2
    have r2 := holds_reif_iff a .eq 1 6 3
    have r3 := holds_boolOr2_iff a 2 3 4
    simp only [CmpOp.holds, beq_iff_eq] at r1 r2
    constructor
    · rintro ⟨hd, hp⟩
      have d0 := hd 0 (by decide); have d1 := hd 1 (by decide); have d2 := hd 2 (by decide)
      have d3 := hd 3 (by decide); have d4 := hd 4 (by decide); have d5 := hd 5 (by decide)
      have d6 := hd 6 (by decide)
      simp only [List.getD_cons_zero, List.getD_cons_succ, mem_rangeDom, mem_boolDom,
        List.mem_singleton] at d0 d1 d2 d3 d4 d5 d6
      exact ⟨⟨d0, d1, d2, d3, d4, d5, d6⟩, r1.1 (hp _ (by simp)), r2.1 (hp _ (by simp)),
        r3.1 (hp _ (by simp))⟩
    · rintro ⟨⟨d0, d1, d2, d3, d4, d5, d6⟩, p1, p2, p3⟩
      refine ⟨?_, ?_⟩
      · intro i hi
        have : i = 0 ∨ i = 1 ∨ i = 2 ∨ i = 3 ∨ i = 4 ∨ i = 5 ∨ i = 6 := by
          have : i < 7 := hi
          omega
        rcases this with rfl | rfl | rfl | rfl | rfl | rfl | rfl <;>
          simp only [List.getD_cons_zero, List.getD_cons_succ, mem_rangeDom, mem_boolDom,
            List.mem_singleton] <;> assumption
      · intro lp hlp
        simp only [List.mem_cons, List.not_mem_nil, or_false] at hlp
        rcases hlp with rfl | rfl | rfl
        · exact r1.2 p1
        · exact r2.2 p2
        · exact r3.2 p3
  refine ⟨by decide, hdoms, hprops, ?_, ?_⟩
  · intro a
    have hud : (∀ i, i < doms.length → a i ∈ doms.getD i []) ↔ ((0 ≤ a 0 ∧ a 0 ≤ 5) ∧ (0 ≤ a 1 ∧ a 1 ≤ 5)) := by
      constructor
      · intro h
        have d0 := h 0 (by decide); have d1 := h 1 (by decide)
        simp only [doms, List.getD_cons_zero, List.getD_cons_succ, mem_rangeDom] at d0 d1
        exact ⟨d0, d1⟩
      · rintro ⟨d0, d1⟩ i hi
        have : i = 0 ∨ i = 1 := by
          have : i < 2 := hi
          omega
        rcases this with rfl | rfl <;>
          simp only [doms, List.getD_cons_zero, List.getD_cons_succ, mem_rangeDom] <;> assumption
    rw [hsat, hev, hud]
    by_cases c0 : a 0 = 1 <;> by_cases c1 : a 1 = 2 <;>
      (first | rw [if_pos c0] | rw [if_neg c0]) <;> (first | rw [if_pos c1] | rw [if_neg c1]) <;> omega
  · refine ⟨fun i => match i with | 0 => 1 | 1 => 5 | 2 => 1 | 3 => 0 | 4 => 1 | 5 => 1 | 6 => 2 | _ => 0,
      rfl, rfl, ?_⟩
    rw [hsat]
    decide

/-- **an `or` with a nested side is still lowered as a conjunction** (finding `or-lowered-as-and`,
what is left of it after the repair: only `or` nodes whose two sides are both comparisons over
integer operands are reified): `(x <= 1 and y <= 1) or x >= 4` over `x, y ∈ 0..5` posts
`x ≤ c₁`, `y ≤ c₂`, `c₃ ≤ x` with the constants `{1}`, `{1}`, `{4}`: the lowered model has NO
solution, while the tree is true e.g. at `(5, 5)`. -/
theorem C10_or_nested_counterexample :
    let doms : List Dom := [rangeDom 0 5, rangeDom 0 5]
    let c := Con.or (.and (.bin (.var 0) .le (.val 1)) (.bin (.var 1) .le (.val 1)))
      (.bin (.var 0) .ge (.val 4))
    let m := (LModel.postCon { doms := doms } c).lower
    m.panicked = false ∧ m.doms = [rangeDom 0 5, rangeDom 0 5, [1], [1], [4]] ∧
    m.props = [.leVV 0 2, .leVV 1 3, .leVV 4 0] ∧
    (¬ ∃ a : Nat → Int, (∀ i, i < m.doms.length → a i ∈ m.doms.getD i []) ∧
        ∀ lp ∈ m.props, PK.holds a lp.toPK = true) ∧
    (∀ a : Nat → Int, a 0 = 5 → a 1 = 5 →
      (∀ i, i < doms.length → a i ∈ doms.getD i []) ∧ c.eval a = some true) := by
  intro doms c m
  have hdoms : m.doms = [rangeDom 0 5, rangeDom 0 5, [1], [1], [4]] := by decide
  have hprops : m.props = [.leVV 0 2, .leVV 1 3, .leVV 4 0] := rfl
  refine ⟨by decide, hdoms, hprops, ?_, ?_⟩
  · rintro ⟨a, hd, hp⟩
    rw [hdoms] at hd
    rw [hprops] at hp
    have d2 := hd 2 (by decide)
    have d4 := hd 4 (by decide)
    simp only [List.getD_cons_zero, List.getD_cons_succ, List.mem_singleton] at d2 d4
    have p1 := hp (.leVV 0 2) (by simp)
    have p3 := hp (.leVV 4 0) (by simp)
    simp only [LP.toPK, PK.holds, IView.eval] at p1 p3
    have p1 := of_decide_eq_true p1
    have p3 := of_decide_eq_true p3
    omega
  · intro a h0 h1
    refine ⟨?_, by simp [c, Con.eval, Expr.eval, CmpOp.holds, h0, h1]⟩
    intro i hi
    have : i = 0 ∨ i = 1 := by
      have : i < 2 := hi
      omega
    rcases this with rfl | rfl
    · rw [h0]; decide
    · rw [h1]; decide

/-- `CmpOp.neg` is the complementary comparison -/
theorem CmpOp.holds_neg (op : CmpOp) (x y : Int) : op.neg.holds x y = !(op.holds x y) := by
  cases op <;> simp only [CmpOp.neg, CmpOp.holds, bne, beq_iff_eq, Bool.not_not, Bool.not_eq_eq_eq_not,
    decide_eq_true_eq, Bool.not_true, Bool.decide_eq_false] <;>
    grind

/-- **`Constraint::not` on a comparison** (after the repair 7500ca2 `fix: Constraint::not of a
comparison is the complementary comparison`): the node that is built denotes the negation of the
comparison, for every tree and operator; a double negation cancels. -/
theorem C10_not_comparison (l r : Expr) (op : CmpOp) (a : Nat → Int) :
    (Con.mkNot (.bin l op r)).eval a = (Con.not (.bin l op r)).eval a := by
  simp only [Con.mkNot, Con.eval]
  cases l.eval a with
  | none => rfl
  | some x =>
    cases r.eval a with
    | none => rfl
    | some y => simp [CmpOp.holds_neg]

theorem C10_not_not (c : Con) (a : Nat → Int) : (Con.mkNot (.not c)).eval a = (Con.not (.not c)).eval a := by
  simp only [Con.mkNot, Con.eval]
  cases c.eval a with
  | none => rfl
  | some b => simp

/-- what `mkNot` leaves as a `Not` node: only negated `and`/`or` combinations -/
theorem C10_mkNot_shape (c : Con) :
    (∃ l op r, Con.mkNot c = .bin l op r) ∨ (∃ d, c = .not d ∧ Con.mkNot c = d) ∨
    (Con.mkNot c = .not c ∧ ((∃ p q, c = .and p q) ∨ (∃ p q, c = .or p q))) := by
  cases c with
  | bin l op r => exact Or.inl ⟨l, op.neg, r, rfl⟩
  | not d => exact Or.inr (Or.inl ⟨d, rfl, rfl⟩)
  | and p q => exact Or.inr (Or.inr ⟨rfl, Or.inl ⟨p, q, rfl⟩⟩)
  | or p q => exact Or.inr (Or.inr ⟨rfl, Or.inr ⟨p, q, rfl⟩⟩)

/-- **a `Not` node is lowered as its content** (finding `not-ignored`; since 7500ca2 the fluent API
builds such a node only around `and`/`or` combinations, `C10_mkNot_shape`; the witness below shows
the lowering of the node itself on the smallest tree): `Not(x <= 2)` over `x ∈ 0..5` posts
`x ≤ c` with the constant `c ∈ {2}`: the lowered model accepts `x = 1` (tree: false) and rejects
`x = 4` (tree: true). -/
theorem C10_not_counterexample :
    let doms : List Dom := [rangeDom 0 5]
    let c := Con.not (.bin (.var 0) .le (.val 2))
    let m := (LModel.postCon { doms := doms } c).lower
    m.panicked = false ∧ m.doms = [rangeDom 0 5, [2]] ∧ m.props = [.leVV 0 1] ∧
    (∀ a : Nat → Int, a 0 = 1 → a 1 = 2 →
      c.eval a = some false ∧ (∀ i, i < m.doms.length → a i ∈ m.doms.getD i []) ∧
      ∀ lp ∈ m.props, PK.holds a lp.toPK = true) ∧
    (∀ a : Nat → Int, a 0 = 4 →
      c.eval a = some true ∧
      ¬ ((∀ i, i < m.doms.length → a i ∈ m.doms.getD i []) ∧
        ∀ lp ∈ m.props, PK.holds a lp.toPK = true)) := by
  intro doms c m
  have hdoms : m.doms = [rangeDom 0 5, [2]] := by decide
  have hprops : m.props = [.leVV 0 1] := rfl
  refine ⟨by decide, hdoms, hprops, ?_, ?_⟩
  · intro a h0 h1
    refine ⟨by simp [c, Con.eval, Expr.eval, CmpOp.holds, h0], ?_, ?_⟩
    · intro i hi
      rw [hdoms] at hi ⊢
      have : i = 0 ∨ i = 1 := by
        have : i < 2 := hi
        omega
      rcases this with rfl | rfl
      · rw [h0]; decide
      · rw [h1]; decide
    · intro lp hlp
      rw [hprops] at hlp
      simp only [List.mem_singleton] at hlp
      subst hlp
      simp [LP.toPK, PK.holds, IView.eval, h0, h1]
  · intro a h0
    refine ⟨by simp [c, Con.eval, Expr.eval, CmpOp.holds, h0], ?_⟩
    rintro ⟨hd, hp⟩
    rw [hdoms] at hd
    have h1 := hd 1 (by decide)
    simp at h1
    have := hp (.leVV 0 1) (by rw [hprops]; simp)
    simp [LP.toPK, PK.holds, IView.eval, h0, h1] at this

/-- **a `!=` inside a combinator is enforced at the leaves** (former finding `neq-noop`, repaired
by 1172f09 `fix: NotEquals fails when both sides are fixed to the same value`): `(x != 3).and(x == x)`
over `x ∈ 0..5` is not linearised (it is not a top-level comparison); the `!=` leaf becomes the
`NotEquals` propagator, which does no pruning but fails on the fully assigned store `x = 3`, so the
search no longer takes that store for a solution — the same verdict as the linear `≠` row that a
top-level `x != 3` is lowered to. -/
theorem C10_nested_ne_checked :
    let doms : List Dom := [rangeDom 0 5]
    let c := Con.and (.bin (.var 0) .ne (.val 3)) (.bin (.var 0) .eq (.var 0))
    let m := (LModel.postCon { doms := doms } c).lower
    let a : Nat → Int := fun _ => 3
    let ctx : Ctx := { st := fun i => [a i] }
    m.panicked = false ∧ m.doms = [rangeDom 0 5, [3]] ∧ m.props = [.neVV 0 1, .eqVV 0 0] ∧
    c.eval a = some false ∧
    (∀ i, i < m.doms.length → a i ∈ m.doms.getD i []) ∧
    PK.prune (LP.neVV 0 1).toPK ctx = none ∧
    PK.holds a (LP.neVV 0 1).toPK = false ∧
    (∀ lp ∈ ((LModel.postCon { doms := doms } (.bin (.var 0) .ne (.val 3))).lower).props,
      (PK.prune lp.toPK ctx).isSome = false) := by
  intro doms c m a ctx
  refine ⟨by decide, by decide, rfl, by decide, by decide, by decide, by decide, ?_⟩
  have hprops : ((LModel.postCon { doms := doms } (.bin (.var 0) .ne (.val 3))).lower).props =
      [.linNe [1] [0] 3] := rfl
  rw [hprops]
  intro lp hlp
  simp only [List.mem_cons, List.not_mem_nil, or_false] at hlp
  subst hlp
  decide

/-! ### auxiliary variables -/

/-- **auxiliary variables of `+`/`-` trees are functionally determined** (partial: `*`, `/`, `mod`
nodes are lowered to propagators whose meaning is not in the integer core model yet, so they are
left out; so are the `Var op Val` / `Val op Var` shapes, which take a different arm).

`l op r` with `l`, `r` trees over variables `< n = m.doms.length`, constants, `+`, `-`, lowered by
`materialize_constraint_kind` into any model `m`: the lowering appends auxiliary variables with
domains `D` (indices `n, n+1, …`: `-1000..1000` for inner nodes and inner constants, `{k}` for a
top-level constant), propagators `Paux` (`Eq`/`Add`, tying every auxiliary variable to its
sub-expression) and the comparison `cmpLP op lv rv` of the two operand variables.  Then
* (unique) two assignments that agree on the old variables and satisfy the new domains and
  `Paux` agree on the auxiliary variables;
* (exists) if every non-variable sub-expression value lies in `[-1000, 1000]` (`Expr.InR`), the
  assignment of the old variables extends to one satisfying the new domains and `Paux`;
* (meaning) under every such assignment the comparison propagator holds iff the tree is true;
* (projection) hence, for in-range assignments, the tree evaluates to true iff the assignment
  extends to a solution of everything the lowering appended.
Outside the range hypothesis the statement fails (finding `aux-var-clipped`). -/
theorem C10_aux_vars_partial (m : LModel) (l r : Expr) (op : CmpOp)
    (hasl : l.AS = true) (hasr : r.AS = true)
    (hvl : l.varsLt m.doms.length = true) (hvr : r.varsLt m.doms.length = true)
    (h1 : ¬ (l.isVar = true ∧ ∃ k, r = .val k)) (h2 : ¬ (r.isVar = true ∧ ∃ k, l = .val k)) :
    ∃ (D : List Dom) (Paux : List LP) (lv rv : Nat),
      Ext m (m.materialize (.bin l op r)) D (Paux ++ [cmpLP op lv rv]) ∧
      (∀ a b, Agree m.doms.length a b → NewSat m.doms.length D Paux a →
        NewSat m.doms.length D Paux b → Agree (m.doms.length + D.length) a b) ∧
      (∀ a, l.InR a → r.InR a → ∃ a', Agree m.doms.length a' a ∧ NewSat m.doms.length D Paux a') ∧
      (∀ a, NewSat m.doms.length D Paux a →
        (PK.holds a (cmpLP op lv rv).toPK = true ↔ (Con.bin l op r).eval a = some true)) ∧
      (∀ a, l.InR a → r.InR a →
        ((Con.bin l op r).eval a = some true ↔
          ∃ a', Agree m.doms.length a' a ∧
            NewSat m.doms.length D (Paux ++ [cmpLP op lv rv]) a')) := by
  obtain ⟨D1, P1, e1, v1, g1, u1, b1⟩ := getExprVar_spec l hasl m hvl
  have hlen1 : (m.getExprVar l).1.doms.length = m.doms.length + D1.length := e1.length
  obtain ⟨D2, P2, e2, v2, g2, u2, b2⟩ := getExprVar_spec r hasr (m.getExprVar l).1
    (Expr.varsLt_mono r _ _ (by omega) hvr)
  rw [hlen1] at v2 g2 u2 b2
  rw [materialize_general m l r op h1 h2, postCmp_eq]
  generalize (m.getExprVar l).2 = lv at *
  generalize ((m.getExprVar l).1.getExprVar r).2 = rv at *
  generalize hm2 : ((m.getExprVar l).1.getExprVar r).1 = m2 at *
  have hev : ∀ a, (Con.bin l op r).eval a = some (op.holds (l.ev a) (r.ev a)) := by
    intro a
    simp [Con.eval, Expr.eval_eq_ev l hasl, Expr.eval_eq_ev r hasr]
  have huniq : ∀ a b, Agree m.doms.length a b → NewSat m.doms.length (D1 ++ D2) (P1 ++ P2) a →
      NewSat m.doms.length (D1 ++ D2) (P1 ++ P2) b → Agree (m.doms.length + (D1 ++ D2).length) a b := by
    intro a b hab hsa hsb
    rw [NewSat_append] at hsa hsb
    have h := u2 a b (u1 a b hab hsa.1 hsb.1) hsa.2 hsb.2
    exact h.mono (by simp; omega)
  have hex : ∀ a, l.InR a → r.InR a →
      ∃ a', Agree m.doms.length a' a ∧ NewSat m.doms.length (D1 ++ D2) (P1 ++ P2) a' := by
    intro a hrl hrr
    obtain ⟨a1, ha1, hrob1⟩ := b1 a hrl
    obtain ⟨a2, ha2, hrob2⟩ := b2 a1 (Expr.InR_congr r _ hvr a a1 ha1.symm hrr)
    refine ⟨a2, (ha2.mono (by omega)).trans ha1, ?_⟩
    rw [NewSat_append]
    exact ⟨hrob1 a2 ha2, hrob2 a2 (fun _ _ => rfl)⟩
  have hmean : ∀ a, NewSat m.doms.length (D1 ++ D2) (P1 ++ P2) a →
      (PK.holds a (cmpLP op lv rv).toPK = true ↔ (Con.bin l op r).eval a = some true) := by
    intro a hs
    rw [NewSat_append] at hs
    rw [cmpLP_sem, hev, g1 a hs.1, g2 a hs.2]
    simp
  refine ⟨D1 ++ D2, P1 ++ P2, lv, rv, ?_, huniq, hex, hmean, ?_⟩
  · have := (e1.trans e2).trans (Ext.post m2 (cmpLP op lv rv))
    simpa using this
  · intro a hrl hrr
    have hsplit : ∀ a', NewSat m.doms.length (D1 ++ D2) ((P1 ++ P2) ++ [cmpLP op lv rv]) a' ↔
        NewSat m.doms.length (D1 ++ D2) (P1 ++ P2) a' ∧ PK.holds a' (cmpLP op lv rv).toPK = true := by
      intro a'
      have := NewSat_append m.doms.length (D1 ++ D2) [] (P1 ++ P2) [cmpLP op lv rv] a'
      rw [List.append_nil] at this
      rw [this]
      constructor
      · rintro ⟨h, h'⟩
        exact ⟨h, h'.2 _ (List.mem_singleton.2 rfl)⟩
      · rintro ⟨h, h'⟩
        exact ⟨h, fun j d hj => by simp at hj, fun lp hlp => by rw [List.mem_singleton.1 hlp]; exact h'⟩
    have hcongr : ∀ a', Agree m.doms.length a' a →
        (Con.bin l op r).eval a' = (Con.bin l op r).eval a := by
      intro a' hag
      rw [hev, hev, Expr.ev_congr l _ hvl a' a hag, Expr.ev_congr r _ hvr a' a hag]
    constructor
    · intro htrue
      obtain ⟨a', hag, hs⟩ := hex a hrl hrr
      refine ⟨a', hag, (hsplit a').2 ⟨hs, (hmean a' hs).2 ?_⟩⟩
      rw [hcongr a' hag]; exact htrue
    · rintro ⟨a', hag, hs⟩
      obtain ⟨hs1, hs2⟩ := (hsplit a').1 hs
      rw [← hcongr a' hag]
      exact (hmean a' hs1).1 hs2

/-- the range hypothesis of `C10_aux_vars_partial` is needed (finding `aux-var-clipped`, here for a
`+` that is not linearised because it sits inside a combinator): `(x + y == 2000).and(x == x)`
with `x = y = 1000`.  The tree is true, but the auxiliary variable of `x + y` has the domain
`-1000..1000` and is unified with the constant `2000`: the lowered model has no solution. -/
theorem C10_aux_clipped_counterexample :
    let doms : List Dom := [[1000], [1000]]
    let c := Con.and (.bin (.add (.var 0) (.var 1)) .eq (.val 2000)) (.bin (.var 0) .eq (.var 0))
    let m := (LModel.postCon { doms := doms } c).lower
    m.panicked = false ∧ m.doms = [[1000], [1000], auxDom, [2000]] ∧
    m.props = [.addVV 0 1 2, .eqVV 2 3, .eqVV 0 0] ∧
    c.eval (fun _ => 1000) = some true ∧
    ¬ ∃ a : Nat → Int, (∀ i, i < m.doms.length → a i ∈ m.doms.getD i []) ∧
        ∀ lp ∈ m.props, PK.holds a lp.toPK = true := by
  intro doms c m
  have hdoms : m.doms = [[1000], [1000], auxDom, [2000]] := rfl
  have hprops : m.props = [.addVV 0 1 2, .eqVV 2 3, .eqVV 0 0] := rfl
  refine ⟨rfl, hdoms, hprops, by decide, ?_⟩
  rintro ⟨a, hd, hp⟩
  rw [hdoms] at hd
  rw [hprops] at hp
  have h2 := hd 2 (by decide)
  have h3 := hd 3 (by decide)
  have he := (holds_eqVV a 2 3).1 (hp _ (by simp))
  have h2' : a 2 ∈ auxDom := by simpa using h2
  rw [mem_auxDom] at h2'
  have h3' : a 3 = 2000 := by simpa using h3
  omega

/-- the hypotheses of `C10_aux_vars_partial` are satisfiable: `(x + y) - 3 < y - (x + x)` over two
variables, at `x = y = 1` -/
example : (Expr.sub (.add (.var 0) (.var 1)) (.val 3)).AS = true ∧
    (Expr.sub (.var 1) (.add (.var 0) (.var 0))).AS = true ∧
    (Expr.sub (.add (.var 0) (.var 1)) (.val 3)).varsLt 2 = true ∧
    (Expr.sub (.var 1) (.add (.var 0) (.var 0))).varsLt 2 = true ∧
    (Expr.sub (.add (.var 0) (.var 1)) (.val 3)).InR (fun _ => 1) ∧
    (Expr.sub (.var 1) (.add (.var 0) (.var 0))).InR (fun _ => 1) := by
  refine ⟨by decide, by decide, by decide, by decide, ?_, ?_⟩ <;> simp [Expr.InR, Expr.ev]

/-! ## float operands -/

open FLModel

/-! ### (a) constant folding and linear extraction with float coefficients -/

/-- **the builder's constant folding preserves the value** with literals of either kind: `Val`'s
mixed `+ - *`, the float quotient `lit / lit` (also between two integer literals), `* int(1)`,
`/ int(1)`; exact rationals. -/
theorem C10_float_build_sound (e e' : FExpr Rat) (h : e.build = some e') (a : Nat → Rat) :
    e'.evalN a = e.evalN a :=
  FExpr.build_evalN e e' h a

/-- **every arm of `add_coefficients`, `subtract_coefficients`, `negate_coefficient`** (and of
`Val + Val`, `Val - Val`, `Val * Val`): the result denotes the exact sum / difference / negation /
product, and it is an `Int` coefficient exactly when both operands are. -/
theorem C10_float_coefficient_arms (x y : FVal Rat) :
    (x.add y).toF = x.toF + y.toF ∧ (x.sub y).toF = x.toF - y.toF ∧ x.neg.toF = - x.toF ∧
    (x.mul y).toF = x.toF * y.toF ∧
    (x.add y).isI = (x.isI && y.isI) ∧ (x.sub y).isI = (x.isI && y.isI) ∧ x.neg.isI = x.isI :=
  ⟨FVal.toF_add x y, FVal.toF_sub x y, FVal.toF_neg x, FVal.toF_mul x y,
   FVal.isI_add x y, FVal.isI_sub x y, FVal.isI_neg x⟩

/-- **`try_extract_linear_form` with float coefficients is sound at exact rationals**: the
extracted `(coefficients, variables, constant)` — kinds `Int` / `Float` freely mixed, repeated
variables merged — denotes the value of the tree under every assignment of rationals. -/
theorem C10_float_extract_sound (e : FExpr Rat) (cs : List (FVal Rat)) (xs : List Nat) (k : FVal Rat)
    (h : e.extractLinear = some (cs, xs, k)) :
    cs.length = xs.length ∧ ∀ a : Nat → Rat, e.evalN a = some (dotV cs xs a + k.toF) :=
  ⟨(FExpr.extract_kinds e cs xs k h).1, FExpr.extractLinear_sound e cs xs k h⟩

/-- the hypotheses are satisfiable: `2.5·x + (y − 0.5) − x·3` (mixed kinds, `x` repeated) -/
example : (FExpr.sub (.add (.mul (.val (.f (5/2 : Rat))) (.var 0)) (.sub (.var 1) (.val (.f (1/2)))))
    (.mul (.var 0) (.val (.i 3)))).extractLinear.isSome = true := by decide +kernel

/-! ### (b) integer or float propagator? -/

/-- **the exact condition the code uses** (`all_ints` of `try_convert_to_linear_ast`), any `Num`:
with `(lc, lx, lk)` / `(rc, rx, rk)` the linear forms of the two sides, the row is `LinearInt` iff
every `lc`, every `rc` and the constant `-(lk - rk)` are `LinearCoefficient::Int`; coefficients of
the other kind are then converted (`Int(i) → i as f64`, resp. `Float → 0`, never reached). -/
theorem C10_float_all_ints_condition {α : Type} [Num α] (l r : FExpr α) (op : CmpOp)
    (lc : List (FVal α)) (lx : List Nat) (lk : FVal α) (rc : List (FVal α)) (rx : List Nat) (rk : FVal α)
    (hl : l.extractLinear = some (lc, lx, lk)) (hr : r.extractLinear = some (rc, rx, rk)) :
    FLModel.linearise l op r = some
      (if lc.all FVal.isI && rc.all FVal.isI && ((lk.sub rk).neg).isI
       then .lin ((FExpr.mergeTerms true lc lx rc rx).1.map FVal.toI) (FExpr.mergeTerms true lc lx rc rx).2 op
          ((lk.sub rk).neg).toI
       else .flin ((FExpr.mergeTerms true lc lx rc rx).1.map FVal.toF) (FExpr.mergeTerms true lc lx rc rx).2 op
          ((lk.sub rk).neg).toF) := by
  simp only [FLModel.linearise, hl, hr]
  split <;> rfl

/-- **decision theorem**: a comparison with linear sides is lowered to an INTEGER linear propagator
iff no float literal is left in its two (built) trees, and to a FLOAT linear propagator otherwise.
`linearise` takes no model argument: the types of the variables cannot influence the choice. -/
theorem C10_float_lowering_decision {α : Type} [Num α] (l r : FExpr α) (op : CmpOp) (p : FPending α)
    (h : FLModel.linearise l op r = some p) :
    ((∃ cs xs k, p = .lin cs xs op k) ↔ (l.noFloatLit = true ∧ r.noFloatLit = true)) ∧
    ((∃ cs xs k, p = .flin cs xs op k) ↔ ¬ (l.noFloatLit = true ∧ r.noFloatLit = true)) :=
  FLModel.linearise_decision l r op p h

/-- interval / integer bounds of a variable in a context -/
def bnd (c : FCtx Rat) (i : Nat) : Rat × Rat :=
  match c.st i with
  | .flt iv => (iv.min, iv.max)
  | .int d => ((ilmin d : Int), (ilmax d : Int))

/-- **counterexample `mixed-strict-cmp-int-lowered`**: `x = float(0,10)`, `y = int(0,5)`, `x.lt(y)`.
No float literal ⇒ INTEGER row `x − y ≤ −1` (unit strictness step).  At `x = 1/2`, `y = 1` the
tree is true and the point lies in the declared domains, but the documented meaning of the lowered
propagator is false: the solutions with `0 < y − x < 1` are lost. -/
theorem C10_float_mixed_strict_counterexample :
    let doms : List (FDom Rat) := [.flt 0 10, .int (rangeDom 0 5)]
    let c : FCon Rat := .bin (.var 0) .lt (.var 1)
    let m := (FLModel.postCon { doms := doms } c).lower
    let a : Nat → Rat := fun i => if i = 0 then 1/2 else 1
    m.props = [.linLe [1, -1] [0, 1] (-1)] ∧ m.doms.length = 2 ∧
    c.evalN a = some true ∧ FDom.memQ (.flt 0 10) (a 0) ∧ FDom.memQ (.int (rangeDom 0 5)) (a 1) ∧
    FLP.holdsQ a (.linLe [1, -1] [0, 1] (-1)) = false := by
  refine ⟨rfl, rfl, by decide +kernel, ?_, ⟨1, by decide, rfl⟩, by decide +kernel⟩
  show (0 : Rat) ≤ 1/2 ∧ (1/2 : Rat) ≤ 10
  decide +kernel

/-- **counterexample `float-varvar-cmp-ignored`**: `x = float(5,10)`, `y = float(0,10)`, `x.le(y)`.
The row is the INTEGER `IntLinLe [1,-1] [x,y] 0`, whose `prune` returns as soon as it meets a float
variable: on the declared domains nothing is pruned (`y ≥ 5` is not derived), and the fully
assigned store `x = 7`, `y = 1` — where the tree is FALSE — is accepted unchanged (no failure is
how the search recognises a solution). -/
theorem C10_float_varvar_counterexample :
    let doms : List (FDom Rat) := [.flt 5 10, .flt 0 10]
    let c : FCon Rat := .bin (.var 0) .le (.var 1)
    let m := (FLModel.postCon { doms := doms } c).lower
    let a : Nat → Rat := fun i => if i = 0 then 7 else 1
    let fixed : FLModel Rat := { doms := [.flt 7 7, .flt 1 1] }
    m.props = [.linLe [1, -1] [0, 1] 0] ∧
    c.evalN a = some false ∧ FLP.holdsQ a (.linLe [1, -1] [0, 1] 0) = false ∧
    (FLModel.prunePass m.props { st := m.store }).map (fun r => (r.1, bnd r.2 0, bnd r.2 1)) =
      some (none, (5, 10), (0, 10)) ∧
    (FLModel.prunePass m.props { st := fixed.store }).map (fun r => (r.1, bnd r.2 0, bnd r.2 1)) =
      some (none, (7, 7), (1, 1)) := by
  refine ⟨rfl, by decide +kernel, by decide +kernel, by decide +kernel, by decide +kernel⟩

/-- **counterexample `float-row-lowered-to-intlin`** (integer literals on float variables).
(i) `x = float(5,10)`, `y = float(0,10)`, `y.ge(x.add(int(3)))`: the INTEGER row
`IntLinLe [-1,1] [y,x] -3` accepts the assigned store `x = 5`, `y = 0` where the tree is false.
(ii) `x = float(-3,0)`, `x.mul(int(5)).le(int(-7))`: the INTEGER row `IntLinLe [5] [x] -7` tightens
the float variable with integer division (`div_euclid(-7, 5) = -2`): `x ≤ −2`, which removes
`x = −3/2` although `5·(−3/2) = −15/2 ≤ −7` — the tree is true there. -/
theorem C10_float_row_intlin_counterexample :
    (let doms : List (FDom Rat) := [.flt 5 10, .flt 0 10]
     let c : FCon Rat := .bin (.var 1) .ge (.add (.var 0) (.val (.i 3)))
     let m := (FLModel.postCon { doms := doms } c).lower
     let a : Nat → Rat := fun i => if i = 0 then 5 else 0
     m.props = [.linLe [-1, 1] [1, 0] (-3)] ∧ c.evalN a = some false ∧
     (FLModel.prunePass m.props { st := m.store }).map (fun r => (r.1, bnd r.2 0, bnd r.2 1)) =
       some (none, (5, 10), (0, 10))) ∧
    (let doms : List (FDom Rat) := [.flt (-3) 0]
     let c : FCon Rat := .bin (.mul (.var 0) (.val (.i 5))) .le (.val (.i (-7)))
     let m := (FLModel.postCon { doms := doms } c).lower
     let a : Nat → Rat := fun _ => -3/2
     m.props = [.linLe [5] [0] (-7)] ∧ c.evalN a = some true ∧ FDom.memQ (.flt (-3) 0) (a 0) ∧
     (FLModel.prunePass m.props { st := m.store }).map (fun r => (r.1, bnd r.2 0)) = some (none, (-3, -2)) ∧
     ¬ (a 0 ≤ -2)) := by
  refine ⟨⟨rfl, by decide +kernel, by decide +kernel⟩, ⟨rfl, by decide +kernel, ?_, by decide +kernel, by decide +kernel⟩⟩
  show (-3 : Rat) ≤ -3/2 ∧ (-3/2 : Rat) ≤ 0
  decide +kernel

/-- **counterexample, `!=`** (`float-ne-ignored`): `x.ne(y)` on two float variables is the INTEGER
row `IntLinNe [1,-1] [x,y] 0`; it accepts the assigned store `x = y = 3`. -/
theorem C10_float_ne_counterexample :
    let doms : List (FDom Rat) := [.flt 0 10, .flt 0 10]
    let c : FCon Rat := .bin (.var 0) .ne (.var 1)
    let m := (FLModel.postCon { doms := doms } c).lower
    let fixed : FLModel Rat := { doms := [.flt 3 3, .flt 3 3] }
    m.props = [.linNe [1, -1] [0, 1] 0] ∧ c.evalN (fun _ => 3) = some false ∧
    (FLModel.prunePass m.props { st := fixed.store }).map (fun r => r.1) = some none := by
  refine ⟨rfl, by decide +kernel, by decide +kernel⟩

/-- **`or` and float operands** (the repair `fix: or of two comparisons is a disjunction` consults
the variable TYPES, `is_int_expr`: the reified comparison propagators are integer propagators).
(i) `x = float(0,10)`, `x.le(float(1.0)).or(x.ge(float(3.0)))`: a float variable / float literal on
a side keeps the old lowering — both comparisons are posted (`x ≤ c₁`, `c₂ ≤ x` with the float
constants `1`, `3`), a conjunction without solution, although the tree is true at `x = 5`
(finding `or-lowered-as-and`, still open for this shape).
(ii) the same tree on `x = int(0,10)` with integer literals is lowered to the reified disjunction. -/
theorem C10_float_or_counterexample :
    (let doms : List (FDom Rat) := [.flt 0 10]
     let c : FCon Rat := .or (.bin (.var 0) .le (.val (.f 1))) (.bin (.var 0) .ge (.val (.f 3)))
     let m := (FLModel.postCon { doms := doms } c).lower
     m.props = [.leVV 0 1, .leVV 2 0] ∧ m.doms.length = 3 ∧
     FDom.memQ (.flt 0 10) 5 ∧ c.evalN (fun _ => 5) = some true ∧
     ∀ a : Nat → Rat, a 1 = 1 → a 2 = 3 →
       ¬ (FLP.holdsQ a (.leVV 0 1) = true ∧ FLP.holdsQ a (.leVV 2 0) = true)) ∧
    (let doms : List (FDom Rat) := [.int (rangeDom 0 10)]
     let c : FCon Rat := .or (.bin (.var 0) .le (.val (.i 1))) (.bin (.var 0) .ge (.val (.i 3)))
     let m := (FLModel.postCon { doms := doms } c).lower
     m.props = [.reif .le 0 4 1, .reif .ge 0 5 2, .boolOr [1, 2] 3] ∧ m.doms.length = 6) := by
  refine ⟨⟨rfl, rfl, ?_, by decide +kernel, ?_⟩, ⟨rfl, rfl⟩⟩
  · show (0 : Rat) ≤ 5 ∧ (5 : Rat) ≤ 10
    decide +kernel
  · intro a h1 h2
    simp only [FLP.holdsQ, h1, h2, decide_eq_true_eq]
    rintro ⟨p, q⟩
    exact absurd (Rat.le_trans q p) (by decide +kernel)

/-- … while a row that does contain a float literal is lowered to the FLOAT propagator, which
does reject the same store: `x.mul(float(1.0)).le(y)` at `x = 7`, `y = 1` -/
example :
    let doms : List (FDom Rat) := [.flt 5 10, .flt 0 10]
    let c : FCon Rat := .bin (.mul (.var 0) (.val (.f 1))) .le (.var 1)
    let m := (FLModel.postCon { doms := doms } c).lower
    let fixed : FLModel Rat := { doms := [.flt 7 7, .flt 1 1] }
    m.props = [.flinLe [1, -1] [0, 1] 0] ∧
    (FLModel.prunePass m.props { st := fixed.store }).map (fun r => r.1) = some (some 0) := by
  refine ⟨rfl, by decide +kernel⟩

/-- **partial theorem (what is true of one lowered row).**  `l op r` a comparison whose sides are
linear and which is not the immediate `Var == Val` pattern, lowered into any model `m`:
exactly one propagator `lp` is appended and, for every assignment `a` of rationals,

* `lp` means the tree READ WITH THE STRICTNESS STEP of the chosen lowering
  (`FCon.stepEval`: `x < y` is `x + ε ≤ y`, `x > y` is `y + ε ≤ x`, the other operators unchanged;
  `ε = 1` for the integer propagator, `ε = 10⁻⁶` — `precision_to_step_size(6)` — for the float one);
* hence `lp` holding always implies that the tree is true;
* (float propagator chosen, i.e. some float literal occurs) for `== != <= >=` the meaning is
  exactly the tree's;
* (integer propagator chosen) if every variable of the row takes an INTEGER value under `a` — in
  particular if they are all integer variables — the meaning is exactly the tree's, for all six
  operators.

The counterexamples above show that the last hypothesis cannot be dropped. -/
theorem C10_float_row_partial (l r : FExpr Rat) (op : CmpOp)
    (hs : (FCon.bin l op r).simple = true) (m : FLModel Rat) :
    let c := FCon.bin l op r
    FLModel.lowerStep m c.rowP = m.post c.toFLP ∧
    ∀ a : Nat → Rat,
      c.stepEval a = some (c.toFLP.holdsQ a) ∧
      (c.toFLP.holdsQ a = true → c.evalN a = some true) ∧
      ((∃ cs xs k, c.rowP = .flin cs xs op k) → op ≠ .lt ∧ op ≠ .gt →
        c.evalN a = some (c.toFLP.holdsQ a)) ∧
      (∀ cs xs k, c.rowP = .lin cs xs op k → (∀ x ∈ xs, ∃ z : Int, a x = (z : Rat)) →
        c.evalN a = some (c.toFLP.holdsQ a)) := by
  refine ⟨lowerStep_row m _ hs, fun a => ?_⟩
  obtain ⟨l', op', r', hc, _, hlin, hstep, hv⟩ := simple_rowQ (FCon.bin l op r) hs
  obtain ⟨rfl, rfl, rfl⟩ := FCon.bin.inj hc
  refine ⟨hstep a, ?_, ?_, ?_⟩
  · intro hq
    exact stepEval_imp _ hs a (by rw [hstep a, hq])
  · intro _ hop
    rw [← hstep a]
    exact (stepEval_nonstrict l r op hop a).symm
  · intro cs xs k hrow hint
    obtain ⟨vl, vr, evl, evr, vI, _⟩ := linearise_values l r op _ hlin a
    obtain ⟨z, hz⟩ := dotQ_integral cs xs a hint
    have e := vI cs xs op k hrow
    show (FCon.bin l op r).evalN a = some ((FCon.bin l op r).toFLP.holdsQ a)
    simp only [FCon.toFLP]
    rw [show (FCon.bin l op r).rowP = .lin cs xs op k from hrow]
    simp only [FPending.toFLP, linFLP_sem, hz, holdsStep_one_int, FCon.evalN, evl, evr, bind,
      Option.bind, pure, Option.some.injEq]
    rw [← hz]
    exact (CmpOp.holdsN_congr op _ _ _ _ e).symm

/-- the hypotheses of `C10_float_row_partial` are satisfiable, for both lowerings -/
example : (FCon.bin (.add (.mul (.val (.f (5/2 : Rat))) (.var 0)) (.var 1)) .lt (.sub (.var 0) (.val (.i 2)))).simple = true ∧
    (FCon.bin (.add (.mul (.val (.i 2)) (.var 0)) (.var 1)) .gt (.sub (.var 0) (.val (.i 2))) : FCon Rat).simple = true := by
  decide +kernel

/-- integer VARIABLES take integer values: the integrality hypothesis of `C10_float_row_partial`
holds for every assignment inside the domains when all variables of the row are integer variables -/
theorem C10_float_int_vars_integral (doms : List (FDom Rat)) (xs : List Nat) (a : Nat → Rat)
    (hx : ∀ x ∈ xs, ∃ d, doms[x]? = some (.int d)) (ha : InDoms doms a) :
    ∀ x ∈ xs, ∃ z : Int, a x = (z : Rat) := by
  intro x hxm
  obtain ⟨d, hd⟩ := hx x hxm
  obtain ⟨z, _, e⟩ := ha x _ hd
  exact ⟨z, e⟩

/-- the comparison propagator of `post_var_val_constraint` / `post_val_var_constraint` / the
general arm (`x < y` is posted as `Next(x) <= y`, `x > y` as `Next(y) <= x`) -/
def cmpFLP : CmpOp → Nat → Nat → FLP Rat
  | .eq, l, r => .eqVV l r
  | .ne, l, r => .neVV l r
  | .lt, l, r => .ltVV l r
  | .le, l, r => .leVV l r
  | .gt, l, r => .ltVV r l
  | .ge, l, r => .leVV r l

/-- **`Var op Val` with a literal of either kind** (`post_var_val_constraint`, reached for a nested
comparison; `op` other than the immediately applied `==`): one SINGLETON variable of the literal's
kind is created (`int(k,k)` resp. `float(c,c)`) and one view comparison is posted; for every
assignment that gives the new variable its only value, the documented meaning of that propagator
is the tree's meaning — also for a float literal on an integer variable and vice versa.
(`Next(x) <= y` is read as `x < y`; what `Next` does on a float interval — one step `10⁻⁶`,
clamped to the interval — is C13's subject.) -/
theorem C10_float_var_val (m : FLModel Rat) (v : Nat) (op : CmpOp) (k : FVal Rat) (hop : op ≠ .eq) :
    m.materialize (.bin (.var v) op (.val k)) =
      { m with doms := m.doms ++ [FLModel.single k], props := m.props ++ [cmpFLP op v m.doms.length] } ∧
    ∀ a : Nat → Rat, FDom.memQ (FLModel.single k) (a m.doms.length) →
      (FLP.holdsQ a (cmpFLP op v m.doms.length) = true ↔
        (FCon.bin (.var v) op (.val k)).evalN a = some true) := by
  constructor
  · cases op <;> first | (exfalso; exact hop rfl) | rfl
  · intro a hm
    have hk : a m.doms.length = k.toF := by
      cases k with
      | i c => obtain ⟨z, hz, e⟩ := hm; simp only [List.mem_singleton] at hz; rw [e, hz]; rfl
      | f x => exact Rat.le_antisymm hm.2 hm.1
    cases op <;> simp only [cmpFLP, FLP.holdsQ, FCon.evalN, FExpr.evalN, CmpOp.holdsN, RatNum.feq_eq,
      RatNum.lt_eq, RatNum.le_eq, hk, bind, Option.bind, pure, Option.some.injEq, decide_eq_true_eq,
      Bool.not_eq_true', decide_eq_false_iff_not]

/-- **the integer model is the restriction of the general one (rows)**: for trees without float
literal — whatever the variable types — `try_extract_linear_form` and `try_convert_to_linear_ast`
of the float-aware model produce exactly the linear form / the `LinearInt` row of the integer model
of `Model/Lower.lean`, for every `Num` (in particular for the `Float` instance the driver runs).
(That the two models agree on WHOLE integer cases is checked by the driver on every such case of
the `lower` suite: a `MODEL-MISMATCH` line would be a correspondence diff.) -/
theorem C10_float_extends_integer_rows {α : Type} [Num α] (l r : Expr) (op : CmpOp) :
    (l.toF : FExpr α).extractLinear = l.extractLinear.map embForm ∧
    FLModel.linearise (α := α) l.toF op r.toF = (LModel.linearise l op r).map Pending.toF :=
  ⟨FExpr.extractLinear_toF l, FLModel.linearise_toF l r op⟩

/-! ### (c) the linear fragment with float operands -/

/-- **C10 on the linear fragment, float operands included.**  `cs` a list of simple constraints
(top-level comparisons with linear sides — literals and coefficients of either kind — other than
the immediate `Var == Val` pattern) posted to a fresh model with declared domains `doms` (integer
and float variables) and lowered.  Then no variable is added, exactly one propagator per
constraint is produced (`IntLin*` or `FloatLin*` according to `C10_float_lowering_decision`),
nothing stays pending, and for every assignment `a` of rationals:

* (soundness of the lowering) if `a` lies in the lowered domains and satisfies the documented
  meaning of every lowered propagator, then it lies in the declared domains and every tree
  evaluates to `true`;
* (exact characterisation) `a` lies in the lowered domains and satisfies every lowered propagator
  iff it lies in the declared domains and every tree holds READ WITH ITS STRICTNESS STEP
  (`FCon.stepEval`, see `C10_float_row_partial`).

So merging of repeated variables across kinds, moving everything to one side, the `≥ > <` encodings
and the immediate bound intersection of `Var == Var` (integer variables only) never ADD solutions;
they LOSE the points where a strict comparison holds by less than its step — one unit for rows
without float literal (the recorded findings when such a row contains a float variable),
`10⁻⁶` for float rows (the documented strictness step). -/
theorem C10_linear_fragment_float (doms : List (FDom Rat)) (cs : List (FCon Rat))
    (hs : ∀ c ∈ cs, c.simple = true) :
    let m := (cs.foldl FLModel.postCon { doms := doms }).lower
    m.doms.length = doms.length ∧ m.props = cs.map FCon.toFLP ∧ m.pending = [] ∧
    ∀ a : Nat → Rat,
      ((InDoms m.doms a ∧ ∀ lp ∈ m.props, lp.holdsQ a = true) →
        (InDoms doms a ∧ ∀ c ∈ cs, c.evalN a = some true)) ∧
      ((InDoms doms a ∧ ∀ c ∈ cs, c.stepEval a = some true) ↔
        (InDoms m.doms a ∧ ∀ lp ∈ m.props, lp.holdsQ a = true)) := by
  intro m
  obtain ⟨l1, l2, l3⟩ := lower_simpleQ doms cs hs
  obtain ⟨q1, _, _, q4, q5⟩ := foldl_postCon_simpleQ cs hs { doms := doms }
  have hlen : m.doms.length = doms.length := by show (FLModel.lower _).doms.length = _; rw [l1, q1]
  have hstep : ∀ c ∈ cs, ∀ a, c.stepEval a = some (c.toFLP.holdsQ a) := by
    intro c hc a
    obtain ⟨_, _, _, _, _, _, h, _⟩ := simple_rowQ c (hs c hc)
    exact h a
  have hiff : ∀ a : Nat → Rat, (InDoms doms a ∧ ∀ c ∈ cs, c.stepEval a = some true) ↔
      (InDoms m.doms a ∧ ∀ lp ∈ m.props, lp.holdsQ a = true) := by
    intro a
    show _ ↔ (InDoms (FLModel.lower _).doms a ∧ ∀ lp ∈ (FLModel.lower _).props, _)
    rw [l1, l2]
    constructor
    · rintro ⟨hd, hc⟩
      refine ⟨q5 a hd (fun c hcm => stepEval_imp c (hs c hcm) a (hc c hcm)), ?_⟩
      intro lp hlp
      obtain ⟨c, hcm, rfl⟩ := List.mem_map.1 hlp
      have := hstep c hcm a
      rw [hc c hcm] at this
      exact (Option.some.inj this).symm
    · rintro ⟨hd, hp⟩
      refine ⟨q4 a hd, ?_⟩
      intro c hcm
      rw [hstep c hcm a, hp _ (List.mem_map.2 ⟨c, hcm, rfl⟩)]
  refine ⟨hlen, l2, l3, fun a => ⟨?_, hiff a⟩⟩
  intro h
  obtain ⟨hd, hc⟩ := (hiff a).2 h
  exact ⟨hd, fun c hcm => stepEval_imp c (hs c hcm) a (hc c hcm)⟩

/-- the hypotheses of `C10_linear_fragment_float` are satisfiable: `2.5·x + y − x ≤ 7` (float
row), `x == y`, `3 > y·2 − x` (integer rows), `x != y + 0.5` (float row) -/
example : ∀ c ∈ [FCon.bin (.sub (.add (.mul (.val (.f (5/2 : Rat))) (.var 0)) (.var 1)) (.var 0)) .le (.val (.i 7)),
    FCon.bin (.var 0) .eq (.var 1),
    FCon.bin (.val (.i 3)) .gt (.sub (.mul (.var 1) (.val (.i 2))) (.var 0)),
    FCon.bin (.var 0) .ne (.add (.var 1) (.val (.f (1/2))))], c.simple = true := by decide +kernel

end C10
end Selen

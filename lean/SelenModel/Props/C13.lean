import SelenModel.Lemmas.Views
/-
C13 — Views transform bounds exactly (offset, scale, negate, next/prev).

  "For a view f(x) built from a variable by adding a constant, multiplying by a positive, zero or
   negative constant, negating, or stepping to the next/previous value, the view's minimum and
   maximum equal the minimum and maximum of f over x's current domain bounds, and tightening a
   bound of the view removes from x exactly the values whose image violates the bound (no
   supported value lost, rounding always towards keeping feasibility correct)."

`IView` mirrors the view combinators on integer variables, of any nesting depth; `times k`
dispatches on the sign as `Times::new` does (`k = 0` gives a constant view).
-/
namespace Selen
namespace C13

/-- **C13 (bounds).** The view's `min`/`max` are the images of the variable's bounds (in the order
given by the view's direction) and enclose the image of every value of the domain. -/
theorem C13_view_min_max (v : IView) (hwf : v.WF) (i : Nat) (hu : v.underlying = some i) (st : Store) :
    v.minRaw st = v.apply (if v.incr then (st i).dmin else (st i).dmax) ∧
    v.maxRaw st = v.apply (if v.incr then (st i).dmax else (st i).dmin) ∧
    ∀ w ∈ st i, v.minRaw st ≤ v.apply w ∧ v.apply w ≤ v.maxRaw st :=
  ⟨(v.raw_eq_apply i hu st).1, (v.raw_eq_apply i hu st).2, fun w hw => v.apply_mem_bounds hwf i hu st w hw⟩

/-- **C13 (exact inversion, minimum).** Tightening the minimum of a well-formed view over variable
`i` fails exactly when no value's image reaches the bound, and otherwise keeps exactly the values
whose image satisfies it, touching nothing else; an event is recorded exactly on change.
By structural induction: any nesting depth. -/
theorem C13_view_trySetMin_exact (v : IView) (hwf : v.WF) (i : Nat) (hu : v.underlying = some i)
    (m : Int) (c : Ctx) (hne : c.st i ≠ []) :
    match v.trySetMin m c with
    | none => ∀ w ∈ c.st i, v.apply w < m
    | some c' =>
      c'.st i = (c.st i).filter (fun w => decide (m ≤ v.apply w)) ∧ (∀ j, j ≠ i → c'.st j = c.st j) ∧
      ((c'.st i ≠ c.st i ∧ c'.ev = c.ev ++ [i]) ∨ (c'.st i = c.st i ∧ c'.ev = c.ev)) := by
  have := (v.exact hwf i hu).1 m c hne
  unfold ExactRes at this
  cases h : v.trySetMin m c with
  | none =>
    rw [h] at this
    intro w hw; have := this w hw; simp at this; omega
  | some c' =>
    rw [h] at this
    obtain ⟨h1, _, h3, h4⟩ := this
    refine ⟨h1, h3, ?_⟩
    rcases h4 with h4 | ⟨rfl, _⟩
    · exact Or.inl h4
    · exact Or.inr ⟨rfl, rfl⟩

theorem C13_view_trySetMax_exact (v : IView) (hwf : v.WF) (i : Nat) (hu : v.underlying = some i)
    (m : Int) (c : Ctx) (hne : c.st i ≠ []) :
    match v.trySetMax m c with
    | none => ∀ w ∈ c.st i, m < v.apply w
    | some c' =>
      c'.st i = (c.st i).filter (fun w => decide (v.apply w ≤ m)) ∧ (∀ j, j ≠ i → c'.st j = c.st j) ∧
      ((c'.st i ≠ c.st i ∧ c'.ev = c.ev ++ [i]) ∨ (c'.st i = c.st i ∧ c'.ev = c.ev)) := by
  have := (v.exact hwf i hu).2 m c hne
  unfold ExactRes at this
  cases h : v.trySetMax m c with
  | none =>
    rw [h] at this
    intro w hw; have := this w hw; simp at this; omega
  | some c' =>
    rw [h] at this
    obtain ⟨h1, _, h3, h4⟩ := this
    refine ⟨h1, h3, ?_⟩
    rcases h4 with h4 | ⟨rfl, _⟩
    · exact Or.inl h4
    · exact Or.inr ⟨rfl, rfl⟩

/-- `times k` builds a well-formed view for every `k` (sign dispatch of `Times::new`) -/
theorem C13_times_wf (v : IView) (hwf : v.WF) (k : Int) : (IView.times v k).WF := by
  unfold IView.times
  split
  · exact ⟨hwf, by omega⟩
  · split
    · trivial
    · exact ⟨hwf, by omega⟩

/-- `sub` is `add` with `times_neg(-1)`, `x > c` is `next(c) <= x`: both are plain views -/
theorem C13_timesNeg_apply (v : IView) (k w : Int) : (IView.timesNeg v k).apply w = v.apply w * k := by
  simp only [IView.timesNeg, IView.apply]
  rw [Int.neg_mul_neg]

/-- the former defect (truncating division): `-4 ≤ 3x` on `x ∈ -5..5` keeps `x = -1` -/
example : ((IView.trySetMin (.tpos (.var 0) 3) (-4) { st := fun _ => [-5, -4, -3, -2, -1, 0, 1, 2, 3, 4, 5] }).map (fun c => c.st 0))
    = some [-1, 0, 1, 2, 3, 4, 5] := by decide

end C13
end Selen

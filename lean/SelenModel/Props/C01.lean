import SelenModel.Lemmas.Search
/-
C01 — Returned solutions satisfy every posted constraint (int/bool models).

  "Every assignment returned by solve, enumerate, minimize, maximize or their iterating variants
   for a model over integer, value-set and boolean variables gives each variable a value from its
   declared domain and satisfies every constraint posted on the model under that constraint's
   documented arithmetic or logical meaning. …"

Model: `IModel` (declared domains + the lowered propagator list), `search` (root propagation +
engine; `obj = none` is solve/enumerate, `obj = some o` is minimize(o), maximize(o) is
minimize(opp o)).  `PK.holds` is the documented meaning of each propagator kind.
-/
namespace Selen
namespace C01

/-- **C01.**  For every well-formed model of any size, every pop policy and every fuel: each
assignment the engine yields — in enumeration mode or in branch-and-bound mode with any
well-formed objective view — is the projection of an assignment that lies in the declared domains
and satisfies every posted propagator's meaning. -/
theorem C01_solutions_satisfy (m : IModel) (h : m.WF) (obj : Option IView)
    (hobj : ∀ o, obj = some o → o.WF) (pol : Policy) (fuel : Nat) (v : List Int)
    (hv : v ∈ (search m.n obj pol fuel m.ps m.store).solutions) :
    ∃ a, v = proj m.n a ∧ (∀ i, a i ∈ m.store i) ∧ ∀ k ∈ m.ps, PK.holds a k = true :=
  m.search_sound h obj hobj pol fuel v hv

/-- the well-formedness guard excludes exactly: `NotEquals` propagators (a no-op in the code) and
linear rows without a non-zero coefficient (never checked by the code).  Both are recorded
findings; on them the full statement is false: -/
def neqWitness : IModel := { doms := [[1], [1]], ps := [.neq (.var 0) (.var 1)] }

theorem C01_neq_checked :
    (search neqWitness.n none Policy.fifo 5 neqWitness.ps neqWitness.store).solutions = [] ∧
    PK.holds (fun _ => 1) (.neq (.var 0) (.var 1)) = false := by decide

def linZeroWitness : IModel := { doms := [[0, 1]], ps := [.linEq [0] [0] 5] }

theorem C01_lin_all_zero_counterexample :
    (search linZeroWitness.n none Policy.fifo 5 linZeroWitness.ps linZeroWitness.store).solutions = [[0], [1]] ∧
    PK.holds (fun _ => 0) (.linEq [0] [0] 5) = false := by decide

/-- non-vacuity: a model with a reified comparison, a linear row and a view satisfies `WF` and
the engine yields its two solutions -/
def sample : IModel :=
  { doms := [[0, 1, 2], [1, 2], [0, 1]],
    ps := [.reif .lt 0 1 2, .linLe [1, 1] [0, 1] 3, .leq (.tpos (.var 0) 2) (.plus (.var 1) 1)] }

example : sample.WF := by
  refine ⟨by decide, ?_, ?_⟩
  rotate_left
  · intro b hb w hw
    simp [IModel.bools, sample, PK.boolVars] at hb
    subst hb
    simp [IModel.store, sample] at hw
    omega
  intro k hk
  simp only [sample, List.mem_cons, List.mem_nil_iff, or_false] at hk
  rcases hk with rfl | rfl | rfl
  · trivial
  · exact ⟨rfl, 0, by decide, by decide⟩
  · exact ⟨⟨trivial, by decide⟩, trivial⟩

example : (search sample.n none Policy.fifo 20 sample.ps sample.store).solutions = [[0, 1, 1], [0, 2, 1], [1, 1, 0], [1, 2, 1]] := by
  decide

end C01
end Selen

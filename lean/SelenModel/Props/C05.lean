import SelenModel.Lemmas.Search
/-
C05 — Propagation removes only unsupported values; fails only if nothing is left.

  "Running constraint propagation to fixpoint from any starting domains only ever shrinks domains,
   never removes a value that occurs in some assignment satisfying the constraint within those
   domains, and reports failure only when no such assignment exists. When all variables of a
   constraint are fixed, propagation succeeds exactly when the constraint holds."
-/
namespace Selen
namespace C05

/-- **C05 (one propagator).** Every modelled, well-formed propagator kind satisfies the contract:
it keeps every assignment that satisfies its meaning inside the store (hence fails only if there
is none), only shrinks domains of its trigger variables and records an event for every change,
succeeds on fixed variables only if its meaning holds, and reads only its trigger variables. -/
theorem C05_contract (k : PK) (hwf : k.WFk) (P : Store → Prop)
    (hP : ∀ st, P st → BoolStore k.boolVars st) : PKContract k P :=
  PK.contract_all k hwf P hP

/-- **C05 (fixpoint, soundness).** Propagation to fixpoint of any set of contract-satisfying
propagators — any pop policy, any initial agenda, any fuel — never fails while a solution exists
and keeps every solution. -/
theorem C05_fixpoint_keeps_solutions (ps : List PK) (pol : Policy) (P : Store → Prop) (hP : Closed P)
    (hc : AllContract ps P) (a : Asg) (ha : ∀ k ∈ ps, PK.holds a k = true)
    (fuel : Nat) (q : List Nat) (st : Store) (hp : P st) (hm : Mem st a) :
    match propagate ps pol fuel q st with
    | .fail => False
    | .fuel => True
    | .ok st' => Mem st' a :=
  match h : propagate ps pol fuel q st, propagate_sound ps pol P hP hc a ha fuel q st hp hm with
  | .fail, hs => hs
  | .fuel, _ => trivial
  | .ok _, hs => hs.1

/-- **C05 (fixpoint, contraction).** Domains only shrink. -/
theorem C05_fixpoint_shrinks (ps : List PK) (pol : Policy) (P : Store → Prop) (hc : AllContract ps P)
    (fuel : Nat) (q : List Nat) (st st' : Store) (h : propagate ps pol fuel q st = .ok st') :
    ∀ i w, w ∈ st' i → w ∈ st i :=
  fun i _ hw => ((propagate_shrinks ps pol P hc fuel q st st' h).1 i).subset hw

/-- **C05 (fixed ⇒ checked).** If propagation from a full agenda ends with every variable fixed,
the assignment satisfies every propagator. -/
theorem C05_fixed_checked (ps : List PK) (pol : Policy) (P : Store → Prop) (hP : Closed P)
    (hc : AllContract ps P) (fuel : Nat) (st st' : Store) (hp : P st)
    (h : propagate ps pol fuel (List.range ps.length) st = .ok st') (hf : AllFixed st') :
    ∀ k ∈ ps, PK.holds (asgOf st') k = true := by
  intro k hk
  obtain ⟨p, hp', rfl⟩ := List.getElem_of_mem hk
  have hs := propagate_fixpoint ps pol P hc fuel _ st st' (agendaInv_all ps st) h p hp'
  rw [getD_lt _ _ _ hp'] at hs
  exact stable_checked _ P (hc _ hk) st' _ (propagate_inv ps pol P hP hc fuel _ st st' hp h) hs
    (allFixed_fixedOn hf _) (allFixed_mem hf)

/-- **C05 (all modelled kinds).** The general form of `C05_contract`: static well-formedness `WFs`
plus a store invariant that makes the boolean variables boolean; no kind needs a further store
precondition (`modulo` is proved for all signs of dividend and divisor).  Covers leq, eq, add, sum,
linear rows (plain and reified), reified comparisons, boolean kinds, abs, min, max, mul, div,
modulo, all-equal, between, count, cardinality, element, table, if-then-else, all-different. -/
theorem C05_contract_inv (k : PK) (hwf : k.WFs) (P : Store → Prop)
    (hP : ∀ st, P st → BoolStore k.boolVars st) : PKContract k P :=
  PK.contract_inv k hwf P hP

/-- **C05 (the fixpoint is reached).** Propagation always terminates: more than
`|agenda| + P · size` steps are never needed (`size` = number of values in the declared domains),
whatever the pop policy — every event removes a value, the agenda has no duplicates. -/
theorem C05_propagation_terminates (ps : List PK) (pol : Policy) (P : Store → Prop)
    (hc : AllContract ps P) (n : Nat) (fuel : Nat) (q : List Nat) (st : Store)
    (hq : QOK ps.length q) (hne : NonEmpty st) (ht : Tail n st)
    (hf : q.length + ps.length * sizeN n st < fuel) : propagate ps pol fuel q st ≠ .fuel :=
  propagate_terminates ps pol P hc n fuel q st hq hne ht hf

/-- **C05 (engine level, all kinds).** Instance of the fixpoint theorem for a whole model under
the store invariant `StoreInv`. -/
theorem C05_fixpoint_all_kinds (ps : List PK) (hwf : ∀ k ∈ ps, k.WFs) (pol : Policy) (a : Asg)
    (ha : ∀ k ∈ ps, PK.holds a k = true) (fuel : Nat) (q : List Nat) (st : Store)
    (hst : StoreInv ps st) (hm : Mem st a) :
    match propagate ps pol fuel q st with
    | .fail => False
    | .fuel => True
    | .ok st' => Mem st' a ∧ StoreInv ps st' :=
  propagate_sound_inv ps hwf pol a ha fuel q st hst hm

/-- findings: the `NotEquals` propagator accepts a fixed violating pair, and a linear row with
all-zero coefficients accepts anything -/
theorem C05_neq_checked :
    PK.prune (.neq (.var 0) (.var 1)) { st := fun _ => [1] } = none ∧
    PK.holds (fun _ => 1) (.neq (.var 0) (.var 1)) = false := by decide

theorem C05_lin_all_zero_counterexample :
    (PK.prune (.linLe [0, 0] [0, 1] (-3)) { st := fun _ => [2] }).isSome = true ∧
    PK.holds (fun _ => 2) (.linLe [0, 0] [0, 1] (-3)) = false := by decide

end C05
end Selen

import SelenModel.Lemmas.Search
/-
C03 — enumerate() yields exactly the solution set, each solution once.

  "With limits disabled, iterating enumerate (and enumerate_with_stats) to exhaustion yields every
   satisfying assignment of an integer/boolean model and nothing else, and never yields the same
   complete assignment twice. Consequently the number of yielded assignments, projected on the
   user's variables, equals the number of solutions."
-/
namespace Selen
namespace C03

/-- **C03.** For every well-formed model, every pop policy and every fuel that sufficed, the list
yielded by the engine in enumeration mode has no duplicates and contains exactly the projections
of the satisfying assignments. The theorem is by induction over the search tree, so it covers
every DFS history of every model size. -/
theorem C03_enumerate_exact (m : IModel) (h : m.WF) (pol : Policy) (fuel : Nat)
    (hfuel : (search m.n none pol fuel m.ps m.store).outOfFuel = false) :
    (search m.n none pol fuel m.ps m.store).solutions.Nodup ∧
    ∀ v, v ∈ (search m.n none pol fuel m.ps m.store).solutions ↔ ∃ a, v = proj m.n a ∧ m.IsSol a := by
  refine ⟨m.search_nodup' h none (fun _ e => by cases e) pol fuel, ?_⟩
  intro v
  constructor
  · exact m.search_sound h none (fun _ e => by cases e) pol fuel v
  · rintro ⟨a, rfl, ha⟩
    exact m.search_complete_enum h pol fuel a ha hfuel

/-- the right branch starts from the parent store: the model's `explore` passes the same `st` to
both `branchStep`s (the code clones the parent space; the trail is never written) -/
theorem C03_right_branch_uses_parent (n obj pol f ps st best pivot)
    (h : firstUnassigned n st = some pivot) :
    (explore n obj pol (f+1) ps st best).evs =
      (branchStep n obj pol f ps st best (.leq (.var pivot) (.const (splitMid (st pivot))))).evs ++
      (branchStep n obj pol f ps st
        (branchStep n obj pol f ps st best (.leq (.var pivot) (.const (splitMid (st pivot))))).best
        (.leq (.next (.const (splitMid (st pivot)))) (.var pivot))).evs := by
  rw [explore_succ, h]

/-- non-vacuity / sample: x,y ∈ 0..2 with x + y = 2 has exactly three solutions, yielded in DFS order -/
example : (search 2 none Policy.fifo 30 [.linEq [1, 1] [0, 1] 2] (fun i => if i < 2 then [0, 1, 2] else [0])).solutions
    = [[0, 2], [1, 1], [2, 0]] := by decide

/-- **C03, without the fuel proviso.** Declared domains are duplicate-free (they come from a
`SparseSet`); then every fuel `≥ m.fuelBound` suffices (`IModel.search_terminates`: propagation
strictly shrinks the store at every event, the agenda is duplicate-free, each branch removes a value
of the pivot), so the enumeration is exact for every well-formed model outright. -/
theorem C03_enumerate_exact_total (m : IModel) (h : m.WF) (hnd : ∀ d ∈ m.doms, d.Nodup) (pol : Policy)
    (fuel : Nat) (hf : m.fuelBound ≤ fuel) :
    (search m.n none pol fuel m.ps m.store).solutions.Nodup ∧
    ∀ v, v ∈ (search m.n none pol fuel m.ps m.store).solutions ↔ ∃ a, v = proj m.n a ∧ m.IsSol a :=
  C03_enumerate_exact m h pol fuel (m.search_terminates h hnd none (fun _ e => by cases e) pol fuel hf)

end C03
end Selen

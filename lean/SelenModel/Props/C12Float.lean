import SelenModel.Lemmas.FloatLin
/-
C12 (float part) — "… for float variables it [asking for a minimum ≥ v / maximum ≤ v] never removes
a value ≥ v (≤ v) beyond one step, never widens the interval, and never produces an inverted
interval without failing.  Float interval primitives (rounding to step, next/prev, midpoint, cut
below/above) stay inside the interval and are monotone."

Scope.  All theorems are about the model definitions of `Model/FloatCore.lean` instantiated at
EXACT rational arithmetic (`Num Rat`), for ALL intervals / bounds / stores.  The same definitions
instantiated at IEEE `Float` are compared bit for bit with the Rust code by the correspondence suite
`float`.  What is therefore NOT covered by the theorems is exactly IEEE rounding (and NaN / ±inf);
the harness' exact-arithmetic oracle shows that rounding makes `remove_below/above` exceed the
"one step" bound by a few ulps (known finding `fi-grid-rounding-ulp`).  At `Rat`, `ulp = 0`, so
the `step < ulp(value)` branches of `next`/`prev` are not taken: `next`/`prev` theorems are about
the step path.

Results.
* (VarF, ValF) arms of `try_set_min/max`: never widen, outward-safe by one step, never inverted,
  failure only across a gap larger than the precision tolerance, event ⇔ change.  All TRUE.
* (VarF, ValI) arms: the full-strength "no inverted interval" is FALSE for the code as written
  (`…_counterexample`: `[0, 7/10]`, step 1, `try_set_min(ValI 1)` succeeds with `[1, 7/10]`);
  true variant: inverted by at most `step/2` (`…_partial`).
* `FloatInterval` primitives: inside the interval and monotone.
-/
namespace Selen
namespace C12Float
open Num

/-- lifting: on a float variable `try_set_min (ValF m)` is the (VarF, ValF) arm -/
theorem trySetMin_eq (c : FCtx Rat) (i : Nat) (iv : FI Rat) (m : Rat) (hi : c.st i = .flt iv) :
    c.trySetMin i (.f m) = c.fltSetMin i iv m := by
  simp [FCtx.trySetMin, hi]
theorem trySetMax_eq (c : FCtx Rat) (i : Nat) (iv : FI Rat) (m : Rat) (hi : c.st i = .flt iv) :
    c.trySetMax i (.f m) = c.fltSetMax i iv m := by
  simp [FCtx.trySetMax, hi]
theorem trySetMinI_eq (c : FCtx Rat) (i : Nat) (iv : FI Rat) (m : Int) (hi : c.st i = .flt iv) :
    c.trySetMin i (.i m) = c.fltSetMinI i iv m := by
  simp [FCtx.trySetMin, hi]
theorem trySetMaxI_eq (c : FCtx Rat) (i : Nat) (iv : FI Rat) (m : Int) (hi : c.st i = .flt iv) :
    c.trySetMax i (.i m) = c.fltSetMaxI i iv m := by
  simp [FCtx.trySetMax, hi]

/-- the interval of float variable `i` after a successful call, with everything else untouched -/
def After (c c' : FCtx Rat) (i : Nat) (iv' : FI Rat) : Prop :=
  c'.st i = .flt iv' ∧ ∀ j, j ≠ i → c'.st j = c.st j

/-! ### `try_set_min`, (VarF, ValF) -/

/-- **never widens**: the new interval of the variable is `[min', max]` with `min ≤ min'`, the same
step; every other variable is untouched. -/
theorem trySetMin_float_never_widens (c c' : FCtx Rat) (i : Nat) (iv : FI Rat) (m : Rat) (ret : FVal Rat)
    (hv : iv.Valid) (hi : c.st i = .flt iv) (h : c.trySetMin i (.f m) = some (c', ret)) :
    ∃ iv', After c c' i iv' ∧ iv.min ≤ iv'.min ∧ iv'.max = iv.max ∧ iv'.step = iv.step := by
  rw [trySetMin_eq c i iv m hi] at h
  have s := FCtx.fltSetMin_spec c i iv m hv
  rw [h] at s
  rcases s with ⟨rfl, _, _⟩ | ⟨nm, rfl, _, _, _, h3, _⟩
  · exact ⟨iv, ⟨hi, fun _ _ => rfl⟩, Rat.le_refl, rfl, rfl⟩
  · refine ⟨{ iv with min := nm }, ⟨by simp [updF], fun j hj => by simp [updF, hj]⟩, Rat.le_of_lt h3, rfl, rfl⟩

/-- **outward safe**: no value `w` of the old interval with `w ≥ m + step` is removed. -/
theorem trySetMin_float_outward_safe (c c' : FCtx Rat) (i : Nat) (iv : FI Rat) (m w : Rat) (ret : FVal Rat)
    (hv : iv.Valid) (hi : c.st i = .flt iv) (h : c.trySetMin i (.f m) = some (c', ret))
    (hw : iv.min ≤ w ∧ w ≤ iv.max) (hm : m + iv.step ≤ w) :
    ∃ iv', c'.st i = .flt iv' ∧ iv'.min ≤ w ∧ w ≤ iv'.max := by
  rw [trySetMin_eq c i iv m hi] at h
  have s := FCtx.fltSetMin_spec c i iv m hv
  rw [h] at s
  rcases s with ⟨rfl, _, _⟩ | ⟨nm, rfl, _, _, _, _, _, h5, _⟩
  · exact ⟨iv, hi, hw.1, hw.2⟩
  · exact ⟨{ iv with min := nm }, by simp [updF], by simp; grind, hw.2⟩

/-- **no inverted interval**: success leaves `min' ≤ max'`. -/
theorem trySetMin_float_no_inverted_interval (c c' : FCtx Rat) (i : Nat) (iv : FI Rat) (m : Rat) (ret : FVal Rat)
    (hv : iv.Valid) (hi : c.st i = .flt iv) (h : c.trySetMin i (.f m) = some (c', ret)) :
    ∃ iv', c'.st i = .flt iv' ∧ iv'.min ≤ iv'.max := by
  rw [trySetMin_eq c i iv m hi] at h
  have s := FCtx.fltSetMin_spec c i iv m hv
  rw [h] at s
  rcases s with ⟨rfl, _, _⟩ | ⟨nm, rfl, _, _, _, _, h4, _⟩
  · exact ⟨iv, hi, hv.1⟩
  · exact ⟨{ iv with min := nm }, by simp [updF], h4⟩

/-- **failure only across a gap**: a failing call has `m − max > step/2` and even
`m − max > max(3·step, |max|·1e-5)`. -/
theorem trySetMin_float_fail_only_if_gap (c : FCtx Rat) (i : Nat) (iv : FI Rat) (m : Rat)
    (hv : iv.Valid) (hi : c.st i = .flt iv) (h : c.trySetMin i (.f m) = none) :
    iv.step / 2 < m - iv.max ∧ iv.ptMin < m - iv.max ∧ 3 * iv.step < m - iv.max := by
  rw [trySetMin_eq c i iv m hi] at h
  have s := FCtx.fltSetMin_spec c i iv m hv
  rw [h] at s
  have := iv.ptMin_ge
  grind

/-- **event ⇔ change**: an event for `i` is appended exactly when the interval changed. -/
theorem trySetMin_float_event_iff_change (c c' : FCtx Rat) (i : Nat) (iv : FI Rat) (m : Rat) (ret : FVal Rat)
    (hv : iv.Valid) (hi : c.st i = .flt iv) (h : c.trySetMin i (.f m) = some (c', ret)) :
    (c' = c) ∨ (c'.ev = c.ev ++ [i] ∧ ∃ iv', c'.st i = .flt iv' ∧ iv.min < iv'.min) := by
  rw [trySetMin_eq c i iv m hi] at h
  have s := FCtx.fltSetMin_spec c i iv m hv
  rw [h] at s
  rcases s with ⟨rfl, _, _⟩ | ⟨nm, rfl, _, _, _, h3, _⟩
  · exact Or.inl rfl
  · exact Or.inr ⟨rfl, { iv with min := nm }, by simp [updF], h3⟩

/-! ### `try_set_max`, (VarF, ValF) -/

theorem trySetMax_float_never_widens (c c' : FCtx Rat) (i : Nat) (iv : FI Rat) (m : Rat) (ret : FVal Rat)
    (hv : iv.Valid) (hi : c.st i = .flt iv) (h : c.trySetMax i (.f m) = some (c', ret)) :
    ∃ iv', After c c' i iv' ∧ iv'.max ≤ iv.max ∧ iv'.min = iv.min ∧ iv'.step = iv.step := by
  rw [trySetMax_eq c i iv m hi] at h
  have s := FCtx.fltSetMax_spec c i iv m hv
  rw [h] at s
  rcases s with ⟨rfl, _, _⟩ | ⟨rfl, _, _, _⟩ | ⟨nm, rfl, _, _, _, _, h4, _⟩
  · exact ⟨iv, ⟨hi, fun _ _ => rfl⟩, Rat.le_refl, rfl, rfl⟩
  · exact ⟨{ iv with max := iv.min }, ⟨by simp [updF], fun j hj => by simp [updF, hj]⟩, hv.1, rfl, rfl⟩
  · exact ⟨{ iv with max := nm }, ⟨by simp [updF], fun j hj => by simp [updF, hj]⟩, Rat.le_of_lt h4, rfl, rfl⟩

theorem trySetMax_float_outward_safe (c c' : FCtx Rat) (i : Nat) (iv : FI Rat) (m w : Rat) (ret : FVal Rat)
    (hv : iv.Valid) (hi : c.st i = .flt iv) (h : c.trySetMax i (.f m) = some (c', ret))
    (hw : iv.min ≤ w ∧ w ≤ iv.max) (hm : w ≤ m - iv.step) :
    ∃ iv', c'.st i = .flt iv' ∧ iv'.min ≤ w ∧ w ≤ iv'.max := by
  rw [trySetMax_eq c i iv m hi] at h
  have s := FCtx.fltSetMax_spec c i iv m hv
  rw [h] at s
  have hs := hv.2
  rcases s with ⟨rfl, _, _⟩ | ⟨rfl, _, h2, _⟩ | ⟨nm, rfl, _, _, _, _, _, h5, _⟩
  · exact ⟨iv, hi, hw.1, hw.2⟩
  · exfalso; grind
  · exact ⟨{ iv with max := nm }, by simp [updF], hw.1, by simp; grind⟩

theorem trySetMax_float_no_inverted_interval (c c' : FCtx Rat) (i : Nat) (iv : FI Rat) (m : Rat) (ret : FVal Rat)
    (hv : iv.Valid) (hi : c.st i = .flt iv) (h : c.trySetMax i (.f m) = some (c', ret)) :
    ∃ iv', c'.st i = .flt iv' ∧ iv'.min ≤ iv'.max := by
  rw [trySetMax_eq c i iv m hi] at h
  have s := FCtx.fltSetMax_spec c i iv m hv
  rw [h] at s
  rcases s with ⟨rfl, _, _⟩ | ⟨rfl, _, _, _⟩ | ⟨nm, rfl, _, _, _, h3, _⟩
  · exact ⟨iv, hi, hv.1⟩
  · exact ⟨{ iv with max := iv.min }, by simp [updF], Rat.le_refl⟩
  · exact ⟨{ iv with max := nm }, by simp [updF], h3⟩

/-- failure only when the bound is below `min` by more than one step and more than
`max(3·step, |min|·1e-5)` -/
theorem trySetMax_float_fail_only_if_gap (c : FCtx Rat) (i : Nat) (iv : FI Rat) (m : Rat)
    (hv : iv.Valid) (hi : c.st i = .flt iv) (h : c.trySetMax i (.f m) = none) :
    iv.step / 2 < iv.min - m ∧ iv.ptMax < iv.min - m ∧ 3 * iv.step < iv.min - m := by
  rw [trySetMax_eq c i iv m hi] at h
  have s := FCtx.fltSetMax_spec c i iv m hv
  rw [h] at s
  have := iv.ptMax_ge
  have := hv.2
  grind

theorem trySetMax_float_event_iff_change (c c' : FCtx Rat) (i : Nat) (iv : FI Rat) (m : Rat) (ret : FVal Rat)
    (hv : iv.Valid) (hi : c.st i = .flt iv) (h : c.trySetMax i (.f m) = some (c', ret)) :
    (c' = c) ∨ (c'.ev = c.ev ++ [i] ∧ ∃ iv', c'.st i = .flt iv' ∧ iv'.max < iv.max) := by
  rw [trySetMax_eq c i iv m hi] at h
  have s := FCtx.fltSetMax_spec c i iv m hv
  rw [h] at s
  rcases s with ⟨rfl, _, h3⟩ | ⟨rfl, _, h2, h3, h5⟩ | ⟨nm, rfl, _, _, _, _, h4, _⟩
  · exact Or.inl rfl
  · -- the quantization-mismatch branch is only reached when the variable is not already fixed
    -- close to the bound (first test of the arm), hence `min < max`
    have hne : iv.min < iv.max := by have := hv.2; grind
    exact Or.inr ⟨rfl, { iv with max := iv.min }, by simp [updF], hne⟩
  · exact Or.inr ⟨rfl, { iv with max := nm }, by simp [updF], h4⟩

/-! ### the (VarF, ValI) arms: an integer bound on a float variable -/

/-- result of `try_set_min (ValI m)` on variable 0 leaves `max < min` -/
def invertedAfter (r : Option (FCtx Rat × FVal Rat)) (i : Nat) : Bool :=
  match r with
  | some (c', _) => match c'.st i with | .flt iv' => decide (iv'.max < iv'.min) | .int _ => false
  | none => false

/-- **counterexample** (full-strength "no inverted interval without failing" is FALSE for the code):
`[0, 7/10]`, step 1, `try_set_min(ValI 1)` succeeds and leaves `[1, 7/10]`. -/
theorem trySetMinI_float_no_inverted_interval_counterexample :
    invertedAfter (FCtx.trySetMin { st := fun _ => .flt { min := 0, max := 7/10, step := 1 } } 0 (.i 1)) 0 = true := by
  decide +kernel

theorem trySetMaxI_float_no_inverted_interval_counterexample :
    invertedAfter (FCtx.trySetMax { st := fun _ => .flt { min := 3/10, max := 1, step := 1 } } 0 (.i 0)) 0 = true := by
  decide +kernel

/-- **partial** (true variant): an integer bound never widens and inverts by at most `step/2`. -/
theorem trySetMinI_float_no_inverted_interval_partial (c c' : FCtx Rat) (i : Nat) (iv : FI Rat) (m : Int) (ret : FVal Rat)
    (hv : iv.Valid) (hi : c.st i = .flt iv) (h : c.trySetMin i (.i m) = some (c', ret)) :
    ∃ iv', After c c' i iv' ∧ iv.min ≤ iv'.min ∧ iv'.max = iv.max ∧ iv'.step = iv.step ∧
      iv'.min ≤ iv'.max + iv.step / 2 := by
  rw [trySetMinI_eq c i iv m hi] at h
  have s := FCtx.fltSetMinI_spec c i iv m
  rw [h] at s
  have := hv.1; have := hv.2
  rcases s with ⟨rfl, _, _⟩ | ⟨rfl, _, h1, h2⟩
  · exact ⟨iv, ⟨hi, fun _ _ => rfl⟩, Rat.le_refl, rfl, rfl, by grind⟩
  · exact ⟨{ iv with min := (m : Rat) }, ⟨by simp [updF], fun j hj => by simp [updF, hj]⟩, by simp; grind, rfl, rfl, h2⟩

theorem trySetMaxI_float_no_inverted_interval_partial (c c' : FCtx Rat) (i : Nat) (iv : FI Rat) (m : Int) (ret : FVal Rat)
    (hv : iv.Valid) (hi : c.st i = .flt iv) (h : c.trySetMax i (.i m) = some (c', ret)) :
    ∃ iv', After c c' i iv' ∧ iv'.max ≤ iv.max ∧ iv'.min = iv.min ∧ iv'.step = iv.step ∧
      iv'.min ≤ iv'.max + iv.step / 2 := by
  rw [trySetMaxI_eq c i iv m hi] at h
  have s := FCtx.fltSetMaxI_spec c i iv m
  rw [h] at s
  have := hv.1; have := hv.2
  rcases s with ⟨rfl, _, _⟩ | ⟨rfl, _, h1, h2⟩
  · exact ⟨iv, ⟨hi, fun _ _ => rfl⟩, Rat.le_refl, rfl, rfl, by grind⟩
  · exact ⟨{ iv with max := (m : Rat) }, ⟨by simp [updF], fun j hj => by simp [updF, hj]⟩, by simp; grind, rfl, rfl, by simp; grind⟩

/-- an integer bound `m` keeps every value `w ≥ m` (`≤ m`): exact, no step is lost -/
theorem trySetMinI_float_outward_safe (c c' : FCtx Rat) (i : Nat) (iv : FI Rat) (m : Int) (w : Rat) (ret : FVal Rat)
    (hi : c.st i = .flt iv) (h : c.trySetMin i (.i m) = some (c', ret))
    (hw : iv.min ≤ w ∧ w ≤ iv.max) (hm : (m : Rat) ≤ w) :
    ∃ iv', c'.st i = .flt iv' ∧ iv'.min ≤ w ∧ w ≤ iv'.max := by
  rw [trySetMinI_eq c i iv m hi] at h
  have s := FCtx.fltSetMinI_spec c i iv m
  rw [h] at s
  rcases s with ⟨rfl, _, _⟩ | ⟨rfl, _, _, _⟩
  · exact ⟨iv, hi, hw.1, hw.2⟩
  · exact ⟨{ iv with min := (m : Rat) }, by simp [updF], hm, hw.2⟩

/-! ### the (VarI, ValF) arms: a float bound on an integer variable is exact -/

/-- a float bound whose ceiling / floor fits `i32` is converted without saturation -/
theorem toI32_ceil (m : Rat) (h : -2147483648 ≤ m.ceil ∧ m.ceil ≤ 2147483647) :
    (toI32 (Num.ceil m) : Int) = m.ceil := by
  simp only [Num.toI32, Num.ceil, trunc_intCast, RatImpl.clampInt]
  split
  · omega
  · split <;> omega

theorem toI32_floor (m : Rat) (h : -2147483648 ≤ m.floor ∧ m.floor ≤ 2147483647) :
    (toI32 (Num.floor m) : Int) = m.floor := by
  simp only [Num.toI32, Num.floor, trunc_intCast, RatImpl.clampInt]
  split
  · omega
  · split <;> omega

/-- **C12 (integer variable, float bound, minimum).** `try_set_min (ValF m)` on an integer variable
fails exactly when no value `≥ m` exists and otherwise leaves exactly the values `≥ m`. -/
theorem trySetMin_intvar_floatbound_exact (c : FCtx Rat) (i : Nat) (d : List Int) (m : Rat)
    (hi : c.st i = .int d) (hr : -2147483648 ≤ m.ceil ∧ m.ceil ≤ 2147483647) :
    match c.trySetMin i (.f m) with
    | none => ∀ w ∈ d, (w : Rat) < m
    | some (c', _) => ∃ d', c'.st i = .int d' ∧ ∀ w, w ∈ d' ↔ (w ∈ d ∧ m ≤ (w : Rat)) := by
  have key : ∀ w : Int, m.ceil ≤ w ↔ m ≤ (w : Rat) := fun w => Rat.ceil_le_iff
  simp only [FCtx.trySetMin, hi, toI32_ceil m hr, FCtx.intSetMin]
  by_cases h1 : m.ceil > ilmax d
  · simp only [h1, if_true]
    intro w hw
    have := ilmax_ge d w hw
    have : ¬ m.ceil ≤ w := by omega
    rw [key] at this
    exact Rat.not_le.mp this
  · simp only [h1, if_false]
    by_cases h2 : m.ceil > ilmin d
    · simp only [h2, if_true]
      cases hf : (d.filter (fun w => decide (m.ceil ≤ w))).isEmpty
      · simp only [Bool.false_eq_true, if_false]
        refine ⟨_, by simp only [updF, if_true]; rfl, fun w => ?_⟩
        simp [List.mem_filter, key]
      · simp only [if_true]
        intro w hw
        have he : d.filter (fun w => decide (m.ceil ≤ w)) = [] := by simpa using hf
        have : w ∉ d.filter (fun w => decide (m.ceil ≤ w)) := by rw [he]; simp
        have : ¬ m.ceil ≤ w := by simpa [List.mem_filter, hw] using this
        rw [key] at this
        exact Rat.not_le.mp this
    · simp only [h2, if_false]
      refine ⟨d, hi, fun w => ⟨fun hw => ⟨hw, ?_⟩, fun hw => hw.1⟩⟩
      have := ilmin_le d w hw
      exact (key w).mp (by omega)

/-- **C12 (integer variable, float bound, maximum).** -/
theorem trySetMax_intvar_floatbound_exact (c : FCtx Rat) (i : Nat) (d : List Int) (m : Rat)
    (hi : c.st i = .int d) (hr : -2147483648 ≤ m.floor ∧ m.floor ≤ 2147483647) :
    match c.trySetMax i (.f m) with
    | none => ∀ w ∈ d, m < (w : Rat)
    | some (c', _) => ∃ d', c'.st i = .int d' ∧ ∀ w, w ∈ d' ↔ (w ∈ d ∧ (w : Rat) ≤ m) := by
  have key : ∀ w : Int, w ≤ m.floor ↔ (w : Rat) ≤ m := fun w => Rat.le_floor_iff
  simp only [FCtx.trySetMax, hi, toI32_floor m hr, FCtx.intSetMax]
  by_cases h1 : m.floor < ilmin d
  · simp only [h1, if_true]
    intro w hw
    have := ilmin_le d w hw
    have : ¬ w ≤ m.floor := by omega
    rw [key] at this
    exact Rat.not_le.mp this
  · simp only [h1, if_false]
    by_cases h2 : m.floor < ilmax d
    · simp only [h2, if_true]
      cases hf : (d.filter (fun w => decide (w ≤ m.floor))).isEmpty
      · simp only [Bool.false_eq_true, if_false]
        refine ⟨_, by simp only [updF, if_true]; rfl, fun w => ?_⟩
        simp [List.mem_filter, key]
      · simp only [if_true]
        intro w hw
        have he : d.filter (fun w => decide (w ≤ m.floor)) = [] := by simpa using hf
        have : w ∉ d.filter (fun w => decide (w ≤ m.floor)) := by rw [he]; simp
        have : ¬ w ≤ m.floor := by simpa [List.mem_filter, hw] using this
        rw [key] at this
        exact Rat.not_le.mp this
    · simp only [h2, if_false]
      refine ⟨d, hi, fun w => ⟨fun hw => ⟨hw, ?_⟩, fun hw => hw.1⟩⟩
      have := ilmax_ge d w hw
      exact (key w).mp (by omega)

/-! ### `FloatInterval` primitives -/

section primitives
variable (iv : FI Rat)

/-- `clamp` of anything lies inside a valid interval -/
theorem clamp_inside (x : Rat) (hv : iv.Valid) :
    ∃ r, clamp x iv.min iv.max = some r ∧ iv.min ≤ r ∧ r ≤ iv.max := by
  have := hv.1
  simp only [Num.clamp]; num_simp; grind

theorem clamp_mono (x y : Rat) (h : x ≤ y) (r r' : Rat)
    (h1 : clamp x iv.min iv.max = some r) (h2 : clamp y iv.min iv.max = some r') : r ≤ r' := by
  simp only [Num.clamp] at h1 h2; num_simp at h1; num_simp at h2; grind

/-- `round_to_step` stays inside -/
theorem roundToStep_inside (v : Rat) (hv : iv.Valid) :
    ∃ r, iv.roundToStep v = some r ∧ iv.min ≤ r ∧ r ≤ iv.max := clamp_inside iv _ hv
theorem floorToStep_inside (v : Rat) (hv : iv.Valid) :
    ∃ r, iv.floorToStep v = some r ∧ iv.min ≤ r ∧ r ≤ iv.max := clamp_inside iv _ hv
theorem ceilToStep_inside (v : Rat) (hv : iv.Valid) :
    ∃ r, iv.ceilToStep v = some r ∧ iv.min ≤ r ∧ r ≤ iv.max := clamp_inside iv _ hv

/-- `round_to_step` is monotone -/
theorem roundToStep_mono (v v' r r' : Rat) (hv : iv.Valid) (h : v ≤ v')
    (h1 : iv.roundToStep v = some r) (h2 : iv.roundToStep v' = some r') : r ≤ r' := by
  refine clamp_mono iv _ _ ?_ r r' h1 h2
  have := RatL.round_grid_mono (v - iv.min) (v' - iv.min) iv.step hv.2 (by grind)
  num_simp; grind

theorem floorToStep_mono (v v' r r' : Rat) (hv : iv.Valid) (h : v ≤ v')
    (h1 : iv.floorToStep v = some r) (h2 : iv.floorToStep v' = some r') : r ≤ r' := by
  refine clamp_mono iv _ _ ?_ r r' h1 h2
  have := RatL.floor_grid_mono (v - iv.min) (v' - iv.min) iv.step hv.2 (by grind)
  num_simp; grind

theorem ceilToStep_mono (v v' r r' : Rat) (hv : iv.Valid) (h : v ≤ v')
    (h1 : iv.ceilToStep v = some r) (h2 : iv.ceilToStep v' = some r') : r ≤ r' := by
  refine clamp_mono iv _ _ ?_ r r' h1 h2
  have := RatL.ceil_grid_mono (v - iv.min) (v' - iv.min) iv.step hv.2 (by grind)
  num_simp; grind

/-- `floor_to_step v ≤ v` and `ceil_to_step v ≥ v` for `v` inside the interval -/
theorem floorToStep_le (v r : Rat) (hv : iv.Valid) (hin : iv.min ≤ v ∧ v ≤ iv.max)
    (h1 : iv.floorToStep v = some r) : r ≤ v ∧ v - iv.step < r := by
  have g1 := RatL.floor_grid_le (v - iv.min) iv.step hv.2
  have g2 := RatL.floor_grid_gt (v - iv.min) iv.step hv.2
  simp only [FI.floorToStep, Num.clamp] at h1; num_simp at h1; grind

theorem ceilToStep_ge (v r : Rat) (hv : iv.Valid) (hin : iv.min ≤ v ∧ v ≤ iv.max)
    (h1 : iv.ceilToStep v = some r) : v ≤ r ∧ r < v + iv.step := by
  have g1 := RatL.ceil_grid_ge (v - iv.min) iv.step hv.2
  have g2 := RatL.ceil_grid_lt (v - iv.min) iv.step hv.2
  simp only [FI.ceilToStep, Num.clamp] at h1; num_simp at h1; grind

/-- `next` (step path) of a value inside stays inside and does not decrease -/
theorem next_inside (v : Rat) (hv : iv.Valid) (hin : iv.min ≤ v ∧ v ≤ iv.max) :
    iv.min ≤ iv.next v ∧ iv.next v ≤ iv.max ∧ v ≤ iv.next v := by
  have := hv.2
  simp only [FI.next]; num_simp; grind

theorem prev_inside (v : Rat) (hv : iv.Valid) (hin : iv.min ≤ v ∧ v ≤ iv.max) :
    iv.min ≤ iv.prev v ∧ iv.prev v ≤ iv.max ∧ iv.prev v ≤ v := by
  have := hv.2
  simp only [FI.prev]; num_simp; grind

theorem next_mono (v v' : Rat) (hv : iv.Valid) (h : v ≤ v') : iv.next v ≤ iv.next v' := by
  have := hv.2
  simp only [FI.next]; num_simp; grind

theorem prev_mono (v v' : Rat) (hv : iv.Valid) (h : v ≤ v') : iv.prev v ≤ iv.prev v' := by
  have := hv.2
  simp only [FI.prev]; num_simp; grind

/-- `mid` lies inside -/
theorem mid_inside (hv : iv.Valid) : ∃ r, iv.mid = some r ∧ iv.min ≤ r ∧ r ≤ iv.max := by
  have h0 := hv.1
  obtain ⟨r, hr, h1, h2⟩ := roundToStep_inside iv (iv.min + (iv.max - iv.min) / 2) hv
  simp only [FI.mid, FI.isEmpty]
  num_simp
  by_cases hf : iv.isFixed = true
  · simp [hf]; grind
  · simp [hf]; grind

/-- `remove_below` never widens, and no value one step inside the threshold is lost -/
theorem removeBelow_never_widens (t : Rat) (hv : iv.Valid) :
    ∃ iv', iv.removeBelow t = some iv' ∧ iv.min ≤ iv'.min ∧ iv'.max ≤ iv.max ∧ iv'.step = iv.step ∧
      ∀ w, iv.min ≤ w → w ≤ iv.max → t + iv.step ≤ w → iv'.min ≤ w ∧ w ≤ iv'.max := by
  have h0 := hv.1; have hs := hv.2
  obtain ⟨r, hr, h1, h2⟩ := ceilToStep_inside iv t hv
  by_cases hin : iv.min ≤ t ∧ t ≤ iv.max
  · have g := ceilToStep_ge iv t r hv hin hr
    simp only [FI.removeBelow, hr]; num_simp; grind
  · have g2 := RatL.ceil_grid_lt (t - iv.min) iv.step hs
    have hr' := hr
    simp only [FI.ceilToStep, Num.clamp] at hr'; num_simp at hr'
    simp only [FI.removeBelow, hr]; num_simp; grind

theorem removeAbove_never_widens (t : Rat) (hv : iv.Valid) :
    ∃ iv', iv.removeAbove t = some iv' ∧ iv.min ≤ iv'.min ∧ iv'.max ≤ iv.max ∧ iv'.step = iv.step ∧
      ∀ w, iv.min ≤ w → w ≤ iv.max → w ≤ t - iv.step → iv'.min ≤ w ∧ w ≤ iv'.max := by
  have h0 := hv.1; have hs := hv.2
  obtain ⟨r, hr, h1, h2⟩ := floorToStep_inside iv t hv
  by_cases hin : iv.min ≤ t ∧ t ≤ iv.max
  · have g := floorToStep_le iv t r hv hin hr
    simp only [FI.removeAbove, hr]; num_simp; grind
  · have g2 := RatL.floor_grid_gt (t - iv.min) iv.step hs
    have hr' := hr
    simp only [FI.floorToStep, Num.clamp] at hr'; num_simp at hr'
    simp only [FI.removeAbove, hr]; num_simp; grind

/-- `contains` accepts every point of the interval -/
theorem contains_of_inside (v : Rat) (hv : iv.Valid) (hin : iv.min ≤ v ∧ v ≤ iv.max) : iv.contains v = true := by
  have := hv.2
  simp only [FI.contains]; num_simp
  simp only [Bool.and_eq_true]
  constructor <;> grind

end primitives

/-! ### hypotheses are satisfiable, sample evaluations -/

example : (FI.Valid { min := -1, max := 3/2, step := 1/4 }) := by
  constructor <;> decide +kernel

/-- `try_set_min 0.3` on `[0, 1]` step `1/4`: new minimum `0.5` (grid from zero), one event -/
example : ((FCtx.trySetMin ({ st := fun _ => .flt { min := 0, max := 1, step := 1/4 } } : FCtx Rat) 0 (.f (3/10))).map
    (fun r => (match r.1.st 0 with | .flt iv => decide (iv.min = 1/2 ∧ iv.max = 1) | _ => false, r.1.ev))) = some (true, [0]) := by
  decide +kernel

/-- the quantization-mismatch branch of `try_set_max`: bound one step below `min` fixes the variable -/
example : ((FCtx.trySetMax ({ st := fun _ => .flt { min := 1, max := 2, step := 1/4 } } : FCtx Rat) 0 (.f (4/5))).map
    (fun r => (match r.1.st 0 with | .flt iv => decide (iv.min = 1 ∧ iv.max = 1) | _ => false, r.1.ev))) = some (true, [0]) := by
  decide +kernel

end C12Float
end Selen

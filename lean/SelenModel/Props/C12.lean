import SelenModel.Lemmas.Views
/-
C12 — Bound tightening is exact on integers and outward-safe on floats.

  "Asking a variable to have minimum (maximum) at least (at most) v leaves exactly the previous
   values >= v (<= v) for integer variables, fails exactly when none is left, and reports a change
   exactly when the domain shrank; for float variables …"

This file: the integer arms of `Context::try_set_min/max` (unbounded `Int`).  The float arms and
the `FloatInterval` primitives are validated bit-exactly against the code by the correspondence
harness and stated at exact rational arithmetic in `Props/C12Float.lean` (when present).
-/
namespace Selen
namespace C12

/-- **C12 (integers, minimum).** On a non-empty integer domain `try_set_min v` fails exactly when no
value `≥ v` exists; otherwise exactly the values `≥ v` remain, every other variable is untouched
and an event is recorded exactly when the domain changed. -/
theorem C12_trySetMin_int_exact (c : Ctx) (i : Nat) (v : Int) (hne : c.st i ≠ []) :
    match c.trySetMin i v with
    | none => ∀ w ∈ c.st i, w < v
    | some c' =>
      c'.st i = (c.st i).filter (fun w => decide (v ≤ w)) ∧ (∀ j, j ≠ i → c'.st j = c.st j) ∧
      ((c'.st i ≠ c.st i ∧ c'.ev = c.ev ++ [i]) ∨ (c'.st i = c.st i ∧ c'.ev = c.ev)) := by
  have := Ctx.trySetMin_spec c i v hne
  cases h : c.trySetMin i v with
  | none => rw [h] at this; exact this
  | some c' =>
    rw [h] at this
    obtain ⟨h1, _, h3, h4⟩ := this
    refine ⟨h1, h3, ?_⟩
    rcases h4 with h4 | ⟨rfl, _⟩
    · exact Or.inl h4
    · exact Or.inr ⟨rfl, rfl⟩

theorem C12_trySetMax_int_exact (c : Ctx) (i : Nat) (v : Int) (hne : c.st i ≠ []) :
    match c.trySetMax i v with
    | none => ∀ w ∈ c.st i, v < w
    | some c' =>
      c'.st i = (c.st i).filter (fun w => decide (w ≤ v)) ∧ (∀ j, j ≠ i → c'.st j = c.st j) ∧
      ((c'.st i ≠ c.st i ∧ c'.ev = c.ev ++ [i]) ∨ (c'.st i = c.st i ∧ c'.ev = c.ev)) := by
  have := Ctx.trySetMax_spec c i v hne
  cases h : c.trySetMax i v with
  | none => rw [h] at this; exact this
  | some c' =>
    rw [h] at this
    obtain ⟨h1, _, h3, h4⟩ := this
    refine ⟨h1, h3, ?_⟩
    rcases h4 with h4 | ⟨rfl, _⟩
    · exact Or.inl h4
    · exact Or.inr ⟨rfl, rfl⟩

/-- failure happens only on an empty remainder, success never leaves an empty domain -/
theorem C12_success_nonempty (c c' : Ctx) (i : Nat) (v : Int) (hne : c.st i ≠ [])
    (h : c.trySetMin i v = some c') : c'.st i ≠ [] := by
  have := Ctx.trySetMin_spec c i v hne
  rw [h] at this; exact this.2.1

/-- sample with holes and a negative bound -/
example : ((Ctx.trySetMin { st := fun _ => [-3, -1, 2, 5] } 0 (-2)).map (fun c => (c.st 0, c.ev))) = some ([-1, 2, 5], [0]) := by
  decide

end C12
end Selen

import SelenModel.Lemmas.FloatLin
import SelenModel.Lemmas.FloatFrame
/-
C06 — "Every assignment returned for a model containing float variables keeps each variable inside
its declared bounds and satisfies every posted constraint up to a tolerance that scales with the
model's float step and the magnitude of the operands; integer variables in mixed models still take
exact integer values.  A constraint between two float variables is never silently ignored."

This file (model of `Model/FloatCore.lean`; the float arithmetic statements at exact `Num Rat`,
the structural ones for EVERY `Num` instance, i.e. also for the bit-exact `Float` instance):

* `C06_int_vars_exact` / `C06_bounds_kept`: whatever a float propagator (or a bound update through
  any view) does, an integer variable stays an integer variable whose values form a sub-list of the
  old ones, a float variable stays a float variable with the same step — for all instances.
  Together with C12Float "never widens" (at `Rat`) the declared bounds are kept.
* `C06_float_checking_tol`: what a `FloatLinLe` row that is at its fixpoint (prune succeeds and
  raises no event — the situation in which the search reports a solution) guarantees about the
  reported point `a = (min of every variable)`:
      Σ cⱼ·aⱼ ≤ C + |cᵢ|·max(3·stepᵢ, 1e-5·|boundᵢ|) + Σⱼ |cⱼ|·widthⱼ
  for every float variable `i` of the row with `|cᵢ| ≥ 1e-12` (explicit tolerance in step,
  magnitude and the residual widths `maxⱼ − minⱼ < 1.5·stepⱼ` of "fixed" variables).
* The statement without the tolerance is FALSE for the code (`…_counterexample`: the tolerated
  branch of `try_set_max` accepts a row violated by up to `max(3·step, 1e-5·|min|)`), and a row
  whose variables are all integer variables is not checked at all
  (`C06_int_only_row_unchecked_counterexample`: known finding `int-var-in-float-linear`).

NOT covered here: IEEE rounding, the search, the other solve paths; the API-level stream `#flapi`
of suite `float` checks C06 on real solutions.
-/
namespace Selen
namespace C06
open Num

/-! ### kinds, integer values, steps (all instances) -/

/-- **C06 (integers stay exact).** After any successful float propagator an integer variable is
still an integer variable and its values are among the old ones. -/
theorem C06_int_vars_exact {α : Type} [Num α] (k : FPK α) (c c' : FCtx α) (h : k.prune c = some c')
    (j : Nat) (d : List Int) (hj : c.st j = .int d) :
    ∃ d', c'.st j = .int d' ∧ ∀ z ∈ d', z ∈ d := by
  have r := (FPK.prune_rel k c c' h).1 j
  rw [hj] at r
  cases hc : c'.st j with
  | int d' => rw [hc] at r; exact ⟨d', rfl, r⟩
  | flt iv => rw [hc] at r; exact absurd r (by simp [KindSub])

/-- the same through a bound update at any view -/
theorem C06_int_vars_exact_view {α : Type} [Num α] (v : FView α) (m : FVal α) (c c' : FCtx α) (r : FVal α)
    (h : v.trySetMin m c = some (c', r) ∨ v.trySetMax m c = some (c', r))
    (j : Nat) (d : List Int) (hj : c.st j = .int d) :
    ∃ d', c'.st j = .int d' ∧ ∀ z ∈ d', z ∈ d := by
  have rel : Rel c c' := by
    rcases h with h | h
    · exact (FView.trySet_rel v).1 m c c' r h
    · exact (FView.trySet_rel v).2 m c c' r h
  have r := rel.1 j
  rw [hj] at r
  cases hc : c'.st j with
  | int d' => rw [hc] at r; exact ⟨d', rfl, r⟩
  | flt iv => rw [hc] at r; exact absurd r (by simp [KindSub])

/-- a float variable stays a float variable with the same step -/
theorem C06_float_kind_step_kept {α : Type} [Num α] (k : FPK α) (c c' : FCtx α) (h : k.prune c = some c')
    (j : Nat) (iv : FI α) (hj : c.st j = .flt iv) :
    ∃ iv', c'.st j = .flt iv' ∧ iv'.step = iv.step := by
  have r := (FPK.prune_rel k c c' h).1 j
  rw [hj] at r
  cases hc : c'.st j with
  | int d' => rw [hc] at r; exact absurd r (by simp [KindSub])
  | flt iv' => rw [hc] at r; exact ⟨iv', rfl, r⟩

/-! ### what a `FloatLinLe` row at its fixpoint guarantees (exact arithmetic) -/

/-- the reported point: the minimum of every variable -/
def minPt (st : FStore Rat) (x : Nat) : Rat := (FPK.boundsF st x).1
/-- residual width of a variable -/
def width (st : FStore Rat) (x : Nat) : Rat := (FPK.boundsF st x).2 - (FPK.boundsF st x).1

/-- `Σ_{j ≠ i} |cⱼ|·widthⱼ` -/
def widthOther (st : FStore Rat) (i : Nat) : Nat → List Rat → List Nat → Rat
  | _, [], _ => 0
  | _, _, [] => 0
  | j, c :: cs, x :: xs => (if j = i then 0 else rabs c * width st x) + widthOther st i (j + 1) cs xs

/-- every variable has `min ≤ max` -/
def NonInverted (st : FStore Rat) : Prop := ∀ x, 0 ≤ width st x

theorem otherSums_ge (st : FStore Rat) (hw : NonInverted st) (i : Nat) :
    ∀ (cs : List Rat) (xs : List Nat) (j : Nat) (acc : Rat × Rat),
      acc.1 + dotOther (minPt st) i j cs xs - widthOther st i j cs xs ≤ (FPK.otherSums st i j cs xs acc).1 := by
  intro cs
  induction cs with
  | nil => intro xs j acc; simp only [FPK.otherSums, dotOther, widthOther]; grind
  | cons c cs ih =>
    intro xs j acc
    cases xs with
    | nil => simp only [FPK.otherSums, dotOther, widthOther]; grind
    | cons x xs =>
      simp only [FPK.otherSums, dotOther, widthOther]
      by_cases hj : j = i
      · simp only [hj, if_true]
        have := ih xs (i + 1) acc
        grind
      · simp only [hj, if_false]
        have := ih xs (j + 1) (acc.1 + (FPK.term st c x).1, acc.2 + (FPK.term st c x).2)
        have hwx : 0 ≤ (FPK.boundsF st x).2 - (FPK.boundsF st x).1 := hw x
        have t : c * minPt st x - rabs c * width st x ≤ (FPK.term st c x).1 := by
          simp only [FPK.term, minPt, width, rabs]
          num_simp
          by_cases hc : (0 : Rat) < c
          · have h1 : ¬ c < 0 := by grind
            have h2 := @Rat.mul_nonneg c ((FPK.boundsF st x).2 - (FPK.boundsF st x).1) (by grind) hwx
            simp only [hc, h1, decide_true, if_true, if_false]
            grind
          · by_cases hc0 : c < 0
            · simp only [hc, hc0, decide_false, if_true, Bool.false_eq_true, if_false]
              grind
            · have h0 : c = 0 := by grind
              subst h0
              simp only [hc, decide_false, Bool.false_eq_true, if_false]
              grind
        grind

/-- `|ci|·(precision tolerance of the arm that is used for the sign of ci)` -/
def tolTerm (ci : Rat) (iv : FI Rat) : Rat := if 0 < ci then ci * iv.ptMax else -ci * iv.ptMin

/-- one successful iteration of `FloatLinLe::prune` on a float variable with a non-negligible
coefficient bounds `cᵢ·(its extreme bound) + min_other` -/
theorem linLeStep_check (cs : List Rat) (xs : List Nat) (cst : Rat) (c c' : FCtx Rat)
    (i : Nat) (ci : Rat) (xi : Nat) (iv : FI Rat) (hx : c.st xi = .flt iv) (hv : iv.Valid)
    (hbig : 1 / 1000000000000 ≤ rabs ci)
    (h : FPK.linLeStep cs xs cst i (ci, xi) c = some c') :
    (if 0 < ci then ci * iv.min else ci * iv.max) + (FPK.otherSums c.st i 0 cs xs (0, 0)).1 ≤ cst + tolTerm ci iv := by
  obtain ⟨hmm, hs⟩ := hv
  simp only [FPK.linLeStep, FStore.vmax, FStore.vmin, hx] at h
  num_simp at h
  simp only [rabs] at hbig
  have hsmall : ¬ (if ci < 0 then -ci else ci) < 1 / 1000000000000 := Rat.not_lt.mpr hbig
  simp only [hsmall, decide_false] at h
  have hne : ci ≠ 0 := by grind
  obtain ⟨d, hd'⟩ : ∃ d, (cst - (FPK.otherSums c.st i 0 cs xs (0, 0)).fst) / ci = d := ⟨_, rfl⟩
  have hd : d * ci = cst - (FPK.otherSums c.st i 0 cs xs (0, 0)).fst := by
    rw [← hd']; exact Rat.div_mul_cancel hne
  simp only [hd'] at h
  simp only [tolTerm]
  have pmax := iv.ptMax_ge
  have pmin := iv.ptMin_ge
  by_cases hpos : (0 : Rat) < ci
  · simp only [hpos, decide_true, if_true, Rat.le_refl, Bool.not_false, Bool.and_true] at h ⊢
    -- d ≥ iv.min - ptMax
    have key : iv.min - iv.ptMax ≤ d := by
      by_cases hlt : d < iv.max
      · simp only [hlt, decide_true, if_true, FPK.setMax, FCtx.trySetMax, hx] at h
        have s := FCtx.fltSetMax_spec c xi iv d ⟨hmm, hs⟩
        cases hr : c.fltSetMax xi iv d with
        | none => rw [hr] at h; simp at h
        | some r => rw [hr] at s; grind
      · grind
    have h0 := RatL.mul_le_mul_left_nonneg key (Rat.le_of_lt hpos)
    grind
  · have hneg : ci < 0 := by grind
    have hnm : (if (decide (d ≤ 0) && decide (0 ≤ d)) = true then 0 else d) = d := by
      split
      · grind
      · rfl
    simp only [hpos, decide_false, Rat.le_refl, decide_true, Bool.not_false, Bool.and_true, if_true, hnm,
      Bool.false_eq_true, if_false] at h ⊢
    have key : d ≤ iv.max + iv.ptMin := by
      by_cases hgt : iv.min < d
      · simp only [hgt, decide_true, if_true, FPK.setMin, FCtx.trySetMin, hx] at h
        have s := FCtx.fltSetMin_spec c xi iv d ⟨hmm, hs⟩
        cases hr : c.fltSetMin xi iv d with
        | none => rw [hr] at h; simp at h
        | some r => rw [hr] at s; grind
      · grind
    have h0 := RatL.mul_le_mul_left_nonpos key (Rat.le_of_lt hneg)
    grind

/-- **C06 (checking tolerance of a float `≤` row).**  Let the row `Σ cⱼ·xⱼ ≤ C` be at its fixpoint
in a store without inverted intervals (`prune` succeeds and raises no event).  Then for every float
variable `i` of the row with `|cᵢ| ≥ 1e-12` the reported point `a = minPt` satisfies
`Σ cⱼ·aⱼ ≤ C + |cᵢ|·pt + Σⱼ |cⱼ|·widthⱼ`, `pt = max(3·stepᵢ, 1e-5·|maxᵢ|)` resp. `…|minᵢ|`. -/
theorem C06_float_checking_tol (cs : List Rat) (xs : List Nat) (cst : Rat) (c c' : FCtx Rat)
    (hw : NonInverted c.st)
    (h : FPK.prune (.linLe cs xs cst) c = some c') (hfix : c'.ev.length ≤ c.ev.length)
    (i : Nat) (ci : Rat) (xi : Nat) (iv : FI Rat) (hi : (cs.zip xs)[i]? = some (ci, xi))
    (hx : c.st xi = .flt iv) (hs : 0 < iv.step) (hbig : 1 / 1000000000000 ≤ rabs ci) :
    dot (minPt c.st) cs xs ≤ cst + tolTerm ci iv + rabs ci * width c.st xi + widthOther c.st i 0 cs xs := by
  simp only [FPK.prune] at h
  have fx := FPK.forIdx_fix (FPK.linLeStep cs xs cst)
    (fun k b c c' h => (FPK.linLeStep_upd cs xs cst k b c c' h).rel)
    (fun k b c c' h hl => (FPK.linLeStep_upd cs xs cst k b c c' h).eq_of_ev hl)
    (cs.zip xs) 0 c c' h hfix
  have hstep := fx.2 i (ci, xi) hi
  rw [Nat.zero_add] at hstep
  have hwx := hw xi
  have hmm : iv.min ≤ iv.max := by
    simp only [width, FPK.boundsF, FStore.vmin, FStore.vmax, hx, FVal.toF] at hwx; grind
  have chk := linLeStep_check cs xs cst c c i ci xi iv hx ⟨hmm, hs⟩ hbig hstep
  have og := otherSums_ge c.st hw i cs xs 0 (0, 0)
  have spl := dot_split (minPt c.st) i cs xs 0 ci xi (Nat.zero_le _) (by simpa using hi)
  have hmin : minPt c.st xi = iv.min := by simp [minPt, FPK.boundsF, FStore.vmin, hx, FVal.toF]
  have hwid : width c.st xi = iv.max - iv.min := by simp [width, FPK.boundsF, FStore.vmin, FStore.vmax, hx, FVal.toF]
  rw [hmin] at spl
  rw [hwid]
  by_cases hpos : (0 : Rat) < ci
  · have hr : rabs ci = ci := by simp only [rabs]; split <;> grind
    have := @Rat.mul_nonneg ci (iv.max - iv.min) (by grind) (by grind)
    simp only [hpos, if_true] at chk
    rw [hr]
    grind
  · have hneg : ci < 0 := by
      have : ci ≠ 0 := by
        intro h0; subst h0; simp only [rabs] at hbig; revert hbig; decide +kernel
      grind
    have hr : rabs ci = -ci := by simp only [rabs, hneg, if_true]
    simp only [hpos, if_false] at chk
    rw [hr]
    grind

/-! ### the tolerance is really used; integer-only rows are not checked -/

/-- did the propagator succeed without changing anything -/
def acceptsUnchanged (r : Option (FCtx Rat)) : Bool :=
  match r with
  | some c' => c'.ev.isEmpty
  | none => false

/-- **counterexample** (no tolerance is FALSE): `x = [1, 1]` (fixed), step `1/1000`, row
`1·x ≤ 998/1000`; the row is violated by `2·step` yet the propagator accepts the store unchanged
(branch "already fixed and within the precision tolerance" of `try_set_max`). -/
theorem C06_float_checking_tol_counterexample :
    acceptsUnchanged (FPK.prune (.linLe [1] [0] (998/1000))
      ({ st := fun _ => .flt { min := 1, max := 1, step := 1/1000 } } : FCtx Rat)) = true := by
  decide +kernel

/-- … and a violation beyond the tolerance (`4·step`) is rejected: the bound of the theorem is
not vacuous -/
example :
    (FPK.prune (.linLe [1] [0] (996/1000))
      ({ st := fun _ => .flt { min := 1, max := 1, step := 1/1000 } } : FCtx Rat)).isNone = true := by
  decide +kernel

/-- **counterexample** (known finding `int-var-in-float-linear`): a float `≤` row over integer
variables only is never checked: `x = {5}`, row `1·x ≤ 0` is accepted. -/
theorem C06_int_only_row_unchecked_counterexample :
    acceptsUnchanged (FPK.prune (.linLe [1] [0] 0) ({ st := fun _ => .int [5] } : FCtx Rat)) = true := by
  decide +kernel

/-- the equality propagator does constrain integer variables (`(VarI, ValF)` arms) -/
example : (FPK.prune (.linEq [1] [0] 0) ({ st := fun _ => .int [5] } : FCtx Rat)).isNone = true := by
  decide +kernel

end C06
end Selen

import SelenModel.Lemmas.FloatLin
import SelenModel.Lemmas.FloatFrame
import SelenModel.Lemmas.FloatEngine
/-
C06 — "Every assignment returned for a model containing float variables keeps each variable inside
its declared bounds and satisfies every posted constraint up to a tolerance that scales with the
model's float step and the magnitude of the operands; integer variables in mixed models still take
exact integer values.  A constraint between two float variables is never silently ignored."

This file (model of `Model/FloatCore.lean`; the float arithmetic statements at exact `Num Rat`,
the structural ones for EVERY `Num` instance, i.e. also for the bit-exact `Float` instance):

* `C06_int_vars_exact` / `C06_bounds_kept`: whatever a float propagator (or a bound update through
  any view) does, an integer variable stays an integer variable whose values form a sub-list of the
  old ones, a float variable stays a float variable with the same step — for all instances.
  Together with C12Float "never widens" (at `Rat`) the declared bounds are kept.
* `C06_float_checking_tol`: what a `FloatLinLe` row that is at its fixpoint (prune succeeds and
  raises no event — the situation in which the search reports a solution) guarantees about the
  reported point `a = (min of every variable)`:
      Σ cⱼ·aⱼ ≤ C + |cᵢ|·max(3·stepᵢ, 1e-5·|boundᵢ|) + Σⱼ |cⱼ|·widthⱼ
  for every float variable `i` of the row with `|cᵢ| ≥ 1e-12` (explicit tolerance in step,
  magnitude and the residual widths `maxⱼ − minⱼ < 1.5·stepⱼ` of "fixed" variables).
* The statement without the tolerance is FALSE for the code (`…_counterexample`: the tolerated
  branch of `try_set_max` accepts a row violated by up to `max(3·step, 1e-5·|min|)`), and a row
  whose variables are all integer variables is not checked at all
  (`C06_int_only_row_unchecked_counterexample`: known finding `int-var-in-float-linear`).

* `C06_solve_within_tolerance` (end of the file): the same for the assignment RETURNED BY THE SEARCH
  (`Model/FloatEngine.lean`: propagation loop, float bisection, first leaf): declared bounds kept,
  integer variables take integer values of their declared domains, every `FloatLinLe` row holds
  within the tolerance above with residual widths `< 1.5·step`.

NOT covered here: IEEE rounding, the other solve paths (root LP, optimisation); the engine-level
cases (`fl.solve`) and the API-level stream `#flapi` of suite `float` check C06 on real solutions.
-/
namespace Selen
namespace C06
open Num

/-! ### kinds, integer values, steps (all instances) -/

/-- **C06 (integers stay exact).** After any successful float propagator an integer variable is
still an integer variable and its values are among the old ones. -/
theorem C06_int_vars_exact {α : Type} [Num α] (k : FPK α) (c c' : FCtx α) (h : k.prune c = some c')
    (j : Nat) (d : List Int) (hj : c.st j = .int d) :
    ∃ d', c'.st j = .int d' ∧ ∀ z ∈ d', z ∈ d := by
  have r := (FPK.prune_rel k c c' h).1 j
  rw [hj] at r
  cases hc : c'.st j with
  | int d' => rw [hc] at r; exact ⟨d', rfl, r⟩
  | flt iv => rw [hc] at r; exact absurd r (by simp [KindSub])

/-- the same through a bound update at any view -/
theorem C06_int_vars_exact_view {α : Type} [Num α] (v : FView α) (m : FVal α) (c c' : FCtx α) (r : FVal α)
    (h : v.trySetMin m c = some (c', r) ∨ v.trySetMax m c = some (c', r))
    (j : Nat) (d : List Int) (hj : c.st j = .int d) :
    ∃ d', c'.st j = .int d' ∧ ∀ z ∈ d', z ∈ d := by
  have rel : Rel c c' := by
    rcases h with h | h
    · exact (FView.trySet_rel v).1 m c c' r h
    · exact (FView.trySet_rel v).2 m c c' r h
  have r := rel.1 j
  rw [hj] at r
  cases hc : c'.st j with
  | int d' => rw [hc] at r; exact ⟨d', rfl, r⟩
  | flt iv => rw [hc] at r; exact absurd r (by simp [KindSub])

/-- a float variable stays a float variable with the same step -/
theorem C06_float_kind_step_kept {α : Type} [Num α] (k : FPK α) (c c' : FCtx α) (h : k.prune c = some c')
    (j : Nat) (iv : FI α) (hj : c.st j = .flt iv) :
    ∃ iv', c'.st j = .flt iv' ∧ iv'.step = iv.step := by
  have r := (FPK.prune_rel k c c' h).1 j
  rw [hj] at r
  cases hc : c'.st j with
  | int d' => rw [hc] at r; exact absurd r (by simp [KindSub])
  | flt iv' => rw [hc] at r; exact ⟨iv', rfl, r⟩

/-! ### what a `FloatLinLe` row at its fixpoint guarantees (exact arithmetic) -/

/-- the reported point: the minimum of every variable -/
def minPt (st : FStore Rat) (x : Nat) : Rat := (FPK.boundsF st x).1
/-- residual width of a variable -/
def width (st : FStore Rat) (x : Nat) : Rat := (FPK.boundsF st x).2 - (FPK.boundsF st x).1

/-- `Σ_{j ≠ i} |cⱼ|·widthⱼ` -/
def widthOther (st : FStore Rat) (i : Nat) : Nat → List Rat → List Nat → Rat
  | _, [], _ => 0
  | _, _, [] => 0
  | j, c :: cs, x :: xs => (if j = i then 0 else rabs c * width st x) + widthOther st i (j + 1) cs xs

/-- every variable has `min ≤ max` -/
def NonInverted (st : FStore Rat) : Prop := ∀ x, 0 ≤ width st x

theorem otherSums_ge (st : FStore Rat) (hw : NonInverted st) (i : Nat) :
    ∀ (cs : List Rat) (xs : List Nat) (j : Nat) (acc : Rat × Rat),
      acc.1 + dotOther (minPt st) i j cs xs - widthOther st i j cs xs ≤ (FPK.otherSums st i j cs xs acc).1 := by
  intro cs
  induction cs with
  | nil => intro xs j acc; simp only [FPK.otherSums, dotOther, widthOther]; grind
  | cons c cs ih =>
    intro xs j acc
    cases xs with
    | nil => simp only [FPK.otherSums, dotOther, widthOther]; grind
    | cons x xs =>
      simp only [FPK.otherSums, dotOther, widthOther]
      by_cases hj : j = i
      · simp only [hj, if_true]
        have := ih xs (i + 1) acc
        grind
      · simp only [hj, if_false]
        have := ih xs (j + 1) (acc.1 + (FPK.term st c x).1, acc.2 + (FPK.term st c x).2)
        have hwx : 0 ≤ (FPK.boundsF st x).2 - (FPK.boundsF st x).1 := hw x
        have t : c * minPt st x - rabs c * width st x ≤ (FPK.term st c x).1 := by
          simp only [FPK.term, minPt, width, rabs]
          num_simp
          by_cases hc : (0 : Rat) < c
          · have h1 : ¬ c < 0 := by grind
            have h2 := @Rat.mul_nonneg c ((FPK.boundsF st x).2 - (FPK.boundsF st x).1) (by grind) hwx
            simp only [hc, h1, decide_true, if_true, if_false]
            grind
          · by_cases hc0 : c < 0
            · simp only [hc, hc0, decide_false, if_true, Bool.false_eq_true, if_false]
              grind
            · have h0 : c = 0 := by grind
              subst h0
              simp only [hc, decide_false, Bool.false_eq_true, if_false]
              grind
        grind

/-- `|ci|·(precision tolerance of the arm that is used for the sign of ci)` -/
def tolTerm (ci : Rat) (iv : FI Rat) : Rat := if 0 < ci then ci * iv.ptMax else -ci * iv.ptMin

/-- one successful iteration of `FloatLinLe::prune` on a float variable with a non-negligible
coefficient bounds `cᵢ·(its extreme bound) + min_other` -/
theorem linLeStep_check (cs : List Rat) (xs : List Nat) (cst : Rat) (c c' : FCtx Rat)
    (i : Nat) (ci : Rat) (xi : Nat) (iv : FI Rat) (hx : c.st xi = .flt iv) (hv : iv.Valid)
    (hbig : 1 / 1000000000000 ≤ rabs ci)
    (h : FPK.linLeStep cs xs cst i (ci, xi) c = some c') :
    (if 0 < ci then ci * iv.min else ci * iv.max) + (FPK.otherSums c.st i 0 cs xs (0, 0)).1 ≤ cst + tolTerm ci iv := by
  obtain ⟨hmm, hs⟩ := hv
  simp only [FPK.linLeStep, FStore.vmax, FStore.vmin, hx] at h
  num_simp at h
  simp only [rabs] at hbig
  have hsmall : ¬ (if ci < 0 then -ci else ci) < 1 / 1000000000000 := Rat.not_lt.mpr hbig
  simp only [hsmall, decide_false] at h
  have hne : ci ≠ 0 := by grind
  obtain ⟨d, hd'⟩ : ∃ d, (cst - (FPK.otherSums c.st i 0 cs xs (0, 0)).fst) / ci = d := ⟨_, rfl⟩
  have hd : d * ci = cst - (FPK.otherSums c.st i 0 cs xs (0, 0)).fst := by
    rw [← hd']; exact Rat.div_mul_cancel hne
  simp only [hd'] at h
  simp only [tolTerm]
  have pmax := iv.ptMax_ge
  have pmin := iv.ptMin_ge
  by_cases hpos : (0 : Rat) < ci
  · simp only [hpos, decide_true, if_true, Rat.le_refl, Bool.not_false, Bool.and_true] at h ⊢
    -- d ≥ iv.min - ptMax
    have key : iv.min - iv.ptMax ≤ d := by
      by_cases hlt : d < iv.max
      · simp only [hlt, decide_true, if_true, FPK.setMax, FCtx.trySetMax, hx] at h
        have s := FCtx.fltSetMax_spec c xi iv d ⟨hmm, hs⟩
        cases hr : c.fltSetMax xi iv d with
        | none => rw [hr] at h; simp at h
        | some r => rw [hr] at s; grind
      · grind
    have h0 := RatL.mul_le_mul_left_nonneg key (Rat.le_of_lt hpos)
    grind
  · have hneg : ci < 0 := by grind
    have hnm : (if (decide (d ≤ 0) && decide (0 ≤ d)) = true then 0 else d) = d := by
      split
      · grind
      · rfl
    simp only [hpos, decide_false, Rat.le_refl, decide_true, Bool.not_false, Bool.and_true, if_true, hnm,
      Bool.false_eq_true, if_false] at h ⊢
    have key : d ≤ iv.max + iv.ptMin := by
      by_cases hgt : iv.min < d
      · simp only [hgt, decide_true, if_true, FPK.setMin, FCtx.trySetMin, hx] at h
        have s := FCtx.fltSetMin_spec c xi iv d ⟨hmm, hs⟩
        cases hr : c.fltSetMin xi iv d with
        | none => rw [hr] at h; simp at h
        | some r => rw [hr] at s; grind
      · grind
    have h0 := RatL.mul_le_mul_left_nonpos key (Rat.le_of_lt hneg)
    grind

/-- **C06 (checking tolerance of a float `≤` row).**  Let the row `Σ cⱼ·xⱼ ≤ C` be at its fixpoint
in a store without inverted intervals (`prune` succeeds and raises no event).  Then for every float
variable `i` of the row with `|cᵢ| ≥ 1e-12` the reported point `a = minPt` satisfies
`Σ cⱼ·aⱼ ≤ C + |cᵢ|·pt + Σⱼ |cⱼ|·widthⱼ`, `pt = max(3·stepᵢ, 1e-5·|maxᵢ|)` resp. `…|minᵢ|`. -/
theorem C06_float_checking_tol (cs : List Rat) (xs : List Nat) (cst : Rat) (c c' : FCtx Rat)
    (hw : NonInverted c.st)
    (h : FPK.prune (.linLe cs xs cst) c = some c') (hfix : c'.ev.length ≤ c.ev.length)
    (i : Nat) (ci : Rat) (xi : Nat) (iv : FI Rat) (hi : (cs.zip xs)[i]? = some (ci, xi))
    (hx : c.st xi = .flt iv) (hs : 0 < iv.step) (hbig : 1 / 1000000000000 ≤ rabs ci) :
    dot (minPt c.st) cs xs ≤ cst + tolTerm ci iv + rabs ci * width c.st xi + widthOther c.st i 0 cs xs := by
  simp only [FPK.prune] at h
  have fx := FPK.forIdx_fix (FPK.linLeStep cs xs cst)
    (fun k b c c' h => (FPK.linLeStep_upd cs xs cst k b c c' h).rel)
    (fun k b c c' h hl => (FPK.linLeStep_upd cs xs cst k b c c' h).eq_of_ev hl)
    (cs.zip xs) 0 c c' h hfix
  have hstep := fx.2 i (ci, xi) hi
  rw [Nat.zero_add] at hstep
  have hwx := hw xi
  have hmm : iv.min ≤ iv.max := by
    simp only [width, FPK.boundsF, FStore.vmin, FStore.vmax, hx, FVal.toF] at hwx; grind
  have chk := linLeStep_check cs xs cst c c i ci xi iv hx ⟨hmm, hs⟩ hbig hstep
  have og := otherSums_ge c.st hw i cs xs 0 (0, 0)
  have spl := dot_split (minPt c.st) i cs xs 0 ci xi (Nat.zero_le _) (by simpa using hi)
  have hmin : minPt c.st xi = iv.min := by simp [minPt, FPK.boundsF, FStore.vmin, hx, FVal.toF]
  have hwid : width c.st xi = iv.max - iv.min := by simp [width, FPK.boundsF, FStore.vmin, FStore.vmax, hx, FVal.toF]
  rw [hmin] at spl
  rw [hwid]
  by_cases hpos : (0 : Rat) < ci
  · have hr : rabs ci = ci := by simp only [rabs]; split <;> grind
    have := @Rat.mul_nonneg ci (iv.max - iv.min) (by grind) (by grind)
    simp only [hpos, if_true] at chk
    rw [hr]
    grind
  · have hneg : ci < 0 := by
      have : ci ≠ 0 := by
        intro h0; subst h0; simp only [rabs] at hbig; revert hbig; decide +kernel
      grind
    have hr : rabs ci = -ci := by simp only [rabs, hneg, if_true]
    simp only [hpos, if_false] at chk
    rw [hr]
    grind

/-! ### the tolerance is really used; integer-only rows are not checked -/

/-- did the propagator succeed without changing anything -/
def acceptsUnchanged (r : Option (FCtx Rat)) : Bool :=
  match r with
  | some c' => c'.ev.isEmpty
  | none => false

/-- **counterexample** (no tolerance is FALSE): `x = [1, 1]` (fixed), step `1/1000`, row
`1·x ≤ 998/1000`; the row is violated by `2·step` yet the propagator accepts the store unchanged
(branch "already fixed and within the precision tolerance" of `try_set_max`). -/
theorem C06_float_checking_tol_counterexample :
    acceptsUnchanged (FPK.prune (.linLe [1] [0] (998/1000))
      ({ st := fun _ => .flt { min := 1, max := 1, step := 1/1000 } } : FCtx Rat)) = true := by
  decide +kernel

/-- … and a violation beyond the tolerance (`4·step`) is rejected: the bound of the theorem is
not vacuous -/
example :
    (FPK.prune (.linLe [1] [0] (996/1000))
      ({ st := fun _ => .flt { min := 1, max := 1, step := 1/1000 } } : FCtx Rat)).isNone = true := by
  decide +kernel

/-- **counterexample** (known finding `int-var-in-float-linear`): a float `≤` row over integer
variables only is never checked: `x = {5}`, row `1·x ≤ 0` is accepted. -/
theorem C06_int_only_row_unchecked_counterexample :
    acceptsUnchanged (FPK.prune (.linLe [1] [0] 0) ({ st := fun _ => .int [5] } : FCtx Rat)) = true := by
  decide +kernel

/-- the equality propagator does constrain integer variables (`(VarI, ValF)` arms) -/
example : (FPK.prune (.linEq [1] [0] 0) ({ st := fun _ => .int [5] } : FCtx Rat)).isNone = true := by
  decide +kernel

/-! ### the search (end to end): what a returned assignment guarantees

Model: `Model/FloatEngine.lean` (`fsolve` = root propagation + first leaf of the depth-first search
with the float bisection).  The leaf is a fixpoint of every posted propagator
(`fpropagate_fixpoint`, all instances of `Num`), so `C06_float_checking_tol` applies to it. -/

theorem nonInverted_of_good {κ : Nat → Bool} {st : FStore Rat} (hg : GoodK κ st) : NonInverted st := by
  intro x
  have := hg x
  simp only [width, FPK.boundsF, FStore.vmin, FStore.vmax]
  cases hx : st x with
  | flt iv =>
    rw [hx] at this
    have := this.2.1
    simp only [FVal.toF]; grind
  | int d =>
    simp only [FVal.toF, Num.ofInt]
    cases d with
    | nil => simp only [ilmin, ilmax]; decide +kernel
    | cons z zs =>
      have h1 := ilmin_le (z :: zs) z (by simp)
      have h2 := ilmax_ge (z :: zs) z (by simp)
      have := RatL.intCast_le (Int.le_trans h1 h2)
      grind

theorem assigned_of_none {n : Nat} {st : FStore Rat} (h : ffirstUnassigned n st = none) (x : Nat) (hx : x < n) :
    (st x).isAssigned = true := by
  simp only [ffirstUnassigned, List.find?_eq_none] at h
  have := h x (List.mem_range.2 hx)
  simpa using this

/-- a float interval that counts as assigned (`step_count() <= 1`) is narrower than 1.5 steps -/
theorem fixed_width (iv : FI Rat) (hv : iv.Valid) (h : iv.isFixed = true) : iv.max - iv.min < 3 / 2 * iv.step := by
  obtain ⟨hmm, hs⟩ := hv
  simp only [FI.isFixed, FI.stepCount, FI.isEmpty] at h
  num_simp at h
  have hne : ¬ iv.max < iv.min := Rat.not_lt.mpr hmm
  simp only [hne, decide_false, Bool.false_eq_true, if_false, Num.toUsize, trunc_intCast] at h
  -- q = (max - min)/step ≥ 0, round q = floor (q + 1/2) ≤ 1
  have hq0 : 0 ≤ (iv.max - iv.min) / iv.step := by
    rw [RatL.le_div_iff hs]; grind
  simp only [RatImpl.roundHA, hq0, if_true] at h
  have hfl : ((iv.max - iv.min) / iv.step + 1 / 2).floor ≤ 1 := by
    simp only [RatImpl.clampInt] at h
    have h := of_decide_eq_true h
    split at h
    · omega
    · split at h <;> omega
  have hlt : (iv.max - iv.min) / iv.step + 1 / 2 < 2 := by
    have := Rat.lt_floor_add_one ((iv.max - iv.min) / iv.step + 1 / 2)
    have h2 : (((((iv.max - iv.min) / iv.step + 1 / 2).floor + 1 : Int)) : Rat) ≤ ((2 : Int) : Rat) :=
      RatL.intCast_le (by omega)
    have h3 : ((2 : Int) : Rat) = 2 := by simp
    grind
  have hd : (iv.max - iv.min) / iv.step < 3 / 2 := by grind
  have := (Rat.div_lt_iff hs).mp hd
  grind

/-- the value reported for a variable is the minimum of its final domain -/
theorem minPt_eq_value (st : FStore Rat) (x : Nat) : minPt st x = (st x).value.toF := by
  simp only [minPt, FPK.boundsF, FStore.vmin, FVar.value]
  cases st x <;> rfl

/-- **C06 (search, end to end).**  Let `fsolve` return the leaf `leaf` for a model whose declared
store `st0` is well formed (`GoodK`: float intervals with `min ≤ max`, positive steps) and whose
propagators only shrink domains (`Shrinks`; proved for ALL float linear propagators — `shrinks_linLe`,
`shrinks_linEq`, `shrinks_linNe`, and the reified `shrinks_linEqReif/linLeReif/linNeReif` when the
reification variable is an integer variable — and for the branching constraints; NOT for `leq`/`eq`
at views that push an integer bound onto a float variable: finding `float-int-bound-inverts-interval`).  Then, for every pop policy and all fuels:

* a float variable is reported (`minPt leaf`, the minimum of its final interval) inside its DECLARED
  bounds, its step is unchanged, and if it is one of the `n` decision variables its final interval
  is narrower than 1.5 steps;
* an integer variable keeps a sub-list of its declared values, and a decision variable has exactly
  one value left, an integer of its declared domain;
* every posted `FloatLinLe` row `Σ cⱼ·xⱼ ≤ C` holds at the reported point within
  `|cᵢ|·max(3·stepᵢ, 1e-5·|boundᵢ|) + Σⱼ |cⱼ|·widthⱼ` for EVERY float variable `i` of the row with
  `|cᵢ| ≥ 1e-12` (the tolerance of `C06_float_checking_tol`, widths as above). -/
theorem C06_solve_within_tolerance (n : Nat) (κ : Nat → Bool) (pol : Policy) (pf fuel : Nat)
    (ps : List (FPK Rat)) (st0 : FStore Rat)
    (hsh : ∀ k ∈ ps, Shrinks κ k) (hg : GoodK κ st0) (leaf : FStore Rat) (pc nc : Nat)
    (h : fsolve n pol pf fuel ps st0 = .sol leaf pc nc) :
    (∀ x iv0, st0 x = .flt iv0 → ∃ iv, leaf x = .flt iv ∧ iv.step = iv0.step ∧
        iv0.min ≤ minPt leaf x ∧ minPt leaf x ≤ iv0.max ∧ minPt leaf x = iv.min ∧
        (x < n → iv.max - iv.min < 3 / 2 * iv.step)) ∧
    (∀ x d0, st0 x = .int d0 → ∃ d, leaf x = .int d ∧ d.Sublist d0 ∧
        (x < n → ∃ z : Int, d = [z] ∧ z ∈ d0 ∧ minPt leaf x = (z : Rat))) ∧
    (∀ cs xs cst, FPK.linLe cs xs cst ∈ ps → ∀ (i : Nat) (ci : Rat) (xi : Nat) (iv : FI Rat),
        (cs.zip xs)[i]? = some (ci, xi) → leaf xi = .flt iv → 1 / 1000000000000 ≤ rabs ci →
        dot (minPt leaf) cs xs ≤ cst + tolTerm ci iv + rabs ci * width leaf xi + widthOther leaf i 0 cs xs) := by
  have lf := fsolve_leaf n κ pol pf fuel ps st0 hsh hg leaf pc nc h
  refine ⟨?_, ?_, ?_⟩
  · intro x iv0 hx
    have w := lf.within x
    have g := lf.good x
    rw [hx] at w
    cases hl : leaf x with
    | int d => rw [hl] at w; exact absurd w (by simp [VWithin])
    | flt iv =>
      rw [hl] at w g
      obtain ⟨hstep, hlo, hhi⟩ := w
      have hv : iv.Valid := g.2
      have hm : minPt leaf x = iv.min := by simp [minPt, FPK.boundsF, FStore.vmin, hl, FVal.toF]
      refine ⟨iv, rfl, hstep, by rw [hm]; exact hlo, by rw [hm]; exact Rat.le_trans hv.1 hhi, hm, ?_⟩
      intro hxn
      have ha := assigned_of_none lf.assigned x hxn
      rw [hl] at ha
      exact fixed_width iv hv ha
  · intro x d0 hx
    have w := lf.within x
    rw [hx] at w
    cases hl : leaf x with
    | flt iv => rw [hl] at w; exact absurd w (by simp [VWithin])
    | int d =>
      rw [hl] at w
      refine ⟨d, rfl, w, ?_⟩
      intro hxn
      have ha := assigned_of_none lf.assigned x hxn
      rw [hl] at ha
      simp only [FVar.isAssigned, beq_iff_eq] at ha
      match d, ha, w with
      | [z], _, w =>
        refine ⟨z, rfl, w.subset (by simp), ?_⟩
        simp [minPt, FPK.boundsF, FStore.vmin, hl, FVal.toF, ilmin, Num.ofInt]
  · intro cs xs cst hk i ci xi iv hi hx hbig
    obtain ⟨c', hc', hev⟩ := lf.stable _ hk
    have g := lf.good xi
    rw [hx] at g
    exact C06_float_checking_tol cs xs cst { st := leaf, ev := [] } c' (nonInverted_of_good lf.good) hc'
      (by rw [hev]; simp) i ci xi iv hi hx g.2.2 hbig

/-- the value reported for variable `x` by a run (`none` if the run did not end in a solution) -/
def reported (r : FRes Rat) (x : Nat) : Option Rat :=
  match r with
  | .sol leaf _ _ => some (minPt leaf x)
  | _ => none

/-- `C06_solve_within_tolerance` speaks about actual runs: `x ∈ [0, 2]`, step `1/4`, row `x ≤ 3/4`
(hypotheses: `shrinks_linLe`, a valid interval); the search returns `x = 0` after bisecting. -/
example : reported (fsolve 1 Policy.fifo 100 100 [FPK.linLe ([1] : List Rat) [0] (3/4)]
      (fun _ => .flt { min := 0, max := 2, step := 1/4 } : FStore Rat)) 0 = some 0 := by
  decide +kernel

end C06
end Selen

import SelenModel.Lemmas.SparseSet
/-
C11 — Integer domain store behaves as a mathematical set under any history.

  "An integer domain, after any sequence of removals, bound cuts, assign-to-value,
   intersections, unions, differences and save/restore of snapshots, contains exactly the
   values a plain mathematical set would contain after the same sequence, and its reported
   minimum, maximum, size, membership, iteration and complement agree with that set.
   Restoring a snapshot brings back exactly the set that was current when it was taken."

Model: `Selen.SS` (SparseSet) and the history machine `Selen.Sys` whose ghost field `cur` is
the plain mathematical set.  This file contains the property theorems only.
-/
namespace Selen
namespace C11

open SS

/-- the loop invariant of a history -/
structure Inv (y : Sys) : Prop where
  wf : y.ss.WF
  abs : ∀ w, y.ss.mem w ↔ y.cur w
  slots : ∀ sl ∈ y.slots, sl.valid = true → SnapOK y.ss sl.snap sl.ghost
  order : ∀ a ∈ y.slots, ∀ b ∈ y.slots, a.valid = true → b.valid = true → a.seq ≤ b.seq →
            b.snap.size ≤ a.snap.size
  seqs : ∀ sl ∈ y.slots, sl.seq ≤ y.seq

theorem inv_init (lo hi : Int) : Inv (Sys.init lo hi) := by
  refine ⟨new_wf lo hi, ?_, (by intro sl h; cases h), (by intro a h; cases h), (by intro sl h; cases h)⟩
  intro w
  show (SS.new lo hi).mem w ↔ ((if lo > hi then hi else lo) ≤ w ∧ w ≤ (if lo > hi then lo else hi))
  by_cases hgt : lo > hi
  · rw [new_mem_swapped lo hi hgt, if_pos hgt, if_pos hgt]
  · rw [new_mem lo hi (by omega), if_neg hgt, if_neg hgt]

/-- removal-type steps: the concrete set shrinks by exactly the spec'd filter and every valid
snapshot stays restorable -/
theorem inv_removal (y : Sys) (s' : SS) (P : Int → Prop) (hi : Inv y)
    (hwf : s'.WF) (hmem : ∀ w, s'.mem w ↔ y.ss.mem w ∧ P w)
    (hsnap : ∀ snap G, SnapOK y.ss snap G → SnapOK s' snap G) :
    Inv { y with ss := s', cur := fun w => y.cur w ∧ P w } :=
  ⟨hwf, fun w => by rw [hmem, hi.abs], fun sl hsl hv => hsnap _ _ (hi.slots sl hsl hv), hi.order, hi.seqs⟩

theorem step_inv (y : Sys) (op : SSOp) (hi : Inv y) (hok : (y.step op).ok = true) : Inv (y.step op) := by
  cases op with
  | remove v =>
    obtain ⟨a, _, _, d, _⟩ := remove'_spec y.ss v hi.wf
    exact inv_removal y _ _ hi a d (fun snap G h => snapOK_remove' _ v snap G hi.wf h)
  | below v =>
    obtain ⟨a, _, _, d, _⟩ := removeBelow_spec y.ss v hi.wf
    exact inv_removal y _ _ hi a d (fun snap G h => snapOK_removeBelow _ v snap G hi.wf h)
  | above v =>
    obtain ⟨a, _, _, d, _⟩ := removeAbove_spec y.ss v hi.wf
    exact inv_removal y _ _ hi a d (fun snap G h => snapOK_removeAbove _ v snap G hi.wf h)
  | only v =>
    obtain ⟨a, _, _, d, _⟩ := removeAllBut_spec y.ss v hi.wf
    exact inv_removal y _ _ hi a d (fun snap G h => snapOK_removeAllBut _ v snap G hi.wf h)
  | clear =>
    refine ⟨removeAll_wf _ hi.wf, ?_, fun sl hsl hv => snapOK_removeAll _ _ _ (hi.slots sl hsl hv), hi.order, hi.seqs⟩
    · intro w
      show y.ss.removeAll.mem w ↔ False
      exact ⟨fun h => removeAll_mem _ w h, False.elim⟩
  | inter o =>
    obtain ⟨a, _, _, d, _⟩ := intersectWith_spec y.ss o hi.wf
    exact inv_removal y _ _ hi a d (fun snap G h => snapOK_intersectWith _ o snap G hi.wf h)
  | diff o =>
    obtain ⟨a, _, _, d, _⟩ := diffWith_spec y.ss o hi.wf
    exact inv_removal y _ _ hi a d (fun snap G h => snapOK_diffWith _ o snap G hi.wf h)
  | union o =>
    obtain ⟨a, _, _, d⟩ := unionWith_spec y.ss o hi.wf
    refine ⟨a, ?_, ?_, ?_, ?_⟩
    · intro w
      show (y.ss.unionWith o).mem w ↔ (y.cur w ∨ (w ∈ o.toList ∧ y.ss.off ≤ w ∧ w < y.ss.off + (y.ss.n : Int)))
      rw [d, hi.abs]
    · intro sl hsl hv
      simp only [Sys.step, List.mem_map] at hsl
      obtain ⟨t, _, rfl⟩ := hsl
      cases hv
    · intro x hx
      simp only [Sys.step, List.mem_map] at hx
      obtain ⟨t, _, rfl⟩ := hx
      intro b _ hv; cases hv
    · intro sl hsl
      simp only [Sys.step, List.mem_map] at hsl
      obtain ⟨t, ht, rfl⟩ := hsl
      exact hi.seqs t ht
  | save k =>
    refine ⟨hi.wf, hi.abs, ?_, ?_, ?_⟩
    · intro sl hsl hv
      simp only [Sys.step, List.mem_cons, List.mem_filter] at hsl
      rcases hsl with rfl | ⟨hsl, _⟩
      · have := snapOK_save y.ss hi.wf
        refine ⟨this.1, this.2.1, fun w => ?_⟩
        show (y.ss.restoreState y.ss.saveState).mem w ↔ y.cur w
        rw [← hi.abs]; exact this.2.2 w
      · exact hi.slots sl hsl hv
    · intro a ha b hb hva hvb hab
      simp only [Sys.step, List.mem_cons, List.mem_filter] at ha hb
      rcases ha with rfl | ⟨ha, _⟩ <;> rcases hb with rfl | ⟨hb, _⟩
      · exact Nat.le_refl _
      · have := hi.seqs b hb
        simp only at hab
        omega
      · exact (hi.slots a ha hva).1
      · exact hi.order a ha b hb hva hvb hab
    · intro sl hsl
      simp only [Sys.step, List.mem_cons, List.mem_filter] at hsl
      rcases hsl with rfl | ⟨hsl, _⟩
      · exact Nat.le_refl _
      · have := hi.seqs sl hsl
        show sl.seq ≤ y.seq + 1
        omega
  | restore k =>
    unfold Sys.step at hok ⊢
    cases hf : y.slots.find? (fun sl => sl.key == k) with
    | none => simp only [hf]; exact hi
    | some sl =>
      simp only [hf] at hok ⊢
      have hslm : sl ∈ y.slots := List.mem_of_find?_eq_some hf
      have hv : sl.valid = true := by
        have : (y.ok && sl.valid) = true := hok
        rw [Bool.and_eq_true] at this; exact this.2
      have hs := hi.slots sl hslm hv
      obtain ⟨r1, r2⟩ := restore_spec y.ss sl.snap sl.ghost hs
      refine ⟨r1, r2, ?_, ?_, ?_⟩
      · intro t ht htv
        simp only [List.mem_map] at ht
        obtain ⟨u, hu, rfl⟩ := ht
        simp only [Bool.and_eq_true, decide_eq_true_eq] at htv
        have hsu := hi.slots u hu htv.1
        exact snapOK_restore y.ss sl.snap u.snap u.ghost (hi.order u hu sl hslm htv.1 hv htv.2) hsu
      · intro a ha b hb hva hvb hab
        simp only [List.mem_map] at ha hb
        obtain ⟨u, hu, rfl⟩ := ha
        obtain ⟨u', hu', rfl⟩ := hb
        simp only [Bool.and_eq_true, decide_eq_true_eq] at hva hvb
        exact hi.order u hu u' hu' hva.1 hvb.1 hab
      · intro t ht
        simp only [List.mem_map] at ht
        obtain ⟨u, hu, rfl⟩ := ht
        exact hi.seqs u hu

theorem step_ok_mono (y : Sys) (op : SSOp) (h : (y.step op).ok = true) : y.ok = true := by
  cases op with
  | restore k =>
    cases hf : y.slots.find? (fun sl => sl.key == k) with
    | none => simp only [Sys.step, hf] at h; exact h
    | some sl =>
      simp only [Sys.step, hf] at h
      rw [Bool.and_eq_true] at h; exact h.1
  | _ => exact h

theorem run_ok_mono (ops : List SSOp) (y : Sys) (h : (Sys.run ops y).ok = true) : y.ok = true := by
  induction ops generalizing y with
  | nil => exact h
  | cons op ops ih => exact step_ok_mono y op (ih _ h)

theorem run_inv (ops : List SSOp) (y : Sys) (hi : Inv y) (hok : (Sys.run ops y).ok = true) :
    Inv (Sys.run ops y) := by
  induction ops generalizing y with
  | nil => exact hi
  | cons op ops ih =>
    exact ih _ (step_inv y op hi (run_ok_mono ops _ hok)) hok

/-- **C11 (history theorem, guarded).**  For every universe and every history — of any length —
in which no snapshot is restored after it stopped being restorable (`ok`: no `union_with` and no
restore of an older snapshot since it was taken), the concrete sparse set is well-formed and its
membership test agrees with the plain mathematical set `cur`; in particular every `restore`
brought back exactly the set that was current at the matching `save`. -/
theorem C11_history_partial (lo hi : Int) (ops : List SSOp)
    (hok : (Sys.run ops (Sys.init lo hi)).ok = true) :
    (Sys.run ops (Sys.init lo hi)).ss.WF ∧
    ∀ w, (Sys.run ops (Sys.init lo hi)).ss.contains w = true ↔ (Sys.run ops (Sys.init lo hi)).cur w := by
  have := run_inv ops _ (inv_init lo hi) hok
  exact ⟨this.wf, fun w => by rw [contains_iff]; exact this.abs w⟩

/-- **C11 (observers).**  In a well-formed state every reported quantity agrees with the set:
iteration is a duplicate-free enumeration whose length is `size`, the complement iterator is an
enumeration of the universe minus the set, and the cached minimum / maximum are the least /
greatest element. -/
theorem C11_observers (s : SS) (h : s.WF) :
    (∀ w, w ∈ s.toList ↔ s.mem w) ∧ s.toList.Nodup ∧ s.toList.length = s.size ∧
    (∀ w, w ∈ s.complement ↔ (s.minUniverse ≤ w ∧ w ≤ s.maxUniverse) ∧ ¬ s.mem w) ∧
    s.complement.length = s.complementSize ∧
    (s.isEmpty = false → s.mem s.minV ∧ s.mem s.maxV ∧ ∀ w, s.mem w → s.minV ≤ w ∧ w ≤ s.maxV) ∧
    (s.isEmpty = true ↔ ∀ w, ¬ s.mem w) := by
  refine ⟨mem_toList s h, toList_nodup s h, toList_length s, ?_, complement_length s, ?_, ?_⟩
  · intro w
    rw [mem_complement s h]
    unfold minUniverse maxUniverse
    constructor
    · intro ⟨⟨a, b⟩, c⟩; exact ⟨⟨a, by omega⟩, c⟩
    · intro ⟨⟨a, b⟩, c⟩; exact ⟨⟨a, by omega⟩, c⟩
  · intro hne
    exact mem_bounds s h (by simpa [isEmpty] using hne)
  · constructor
    · intro he w hm
      have : s.size = 0 := by simpa [isEmpty] using he
      have := hm.2.2; omega
    · intro hall
      cases hsz : s.size with
      | zero => simp [isEmpty, hsz]
      | succ k =>
        exfalso
        obtain ⟨a, _, _⟩ := mem_bounds s h (by omega)
        exact hall _ a

/-- subset and equality tests agree with the sets (for well-formed operands) -/
theorem C11_subset_equals (s o : SS) (h : s.WF) :
    (s.isSubsetOf o = true ↔ ∀ w, s.mem w → o.mem w) := by
  unfold isSubsetOf
  rw [List.all_eq_true]
  constructor
  · intro hall w hw
    exact (contains_iff o w).1 (hall w ((mem_toList s h w).2 hw))
  · intro hall w hw
    exact (contains_iff o w).2 (hall w ((mem_toList s h w).1 hw))

/-- the full-strength reading of the property: *every* history, also those that restore a
snapshot after a union or out of LIFO order -/
def FullStatement : Prop :=
  ∀ (lo hi : Int) (ops : List SSOp),
    ∀ w, (Sys.run ops (Sys.init lo hi)).ss.contains w = true ↔ (Sys.run ops (Sys.init lo hi)).cur w

/-- witness: `new(0,2); remove 0; save; remove 1; union {0}; restore` -/
def unionWitness : List SSOp :=
  [.remove 0, .save 0, .remove 1, .union (SS.newFromValues [0]), .restore 0]

/-- the concrete run of the witness: the restored set is {0,2} (storage order [2,0]) although the
set at `save` time was {1,2} — kernel-evaluated -/
theorem C11_restore_after_union_counterexample :
    (Sys.run unionWitness (Sys.init 0 2)).ss.toList = [2, 0] ∧
    (Sys.run unionWitness (Sys.init 0 2)).ss.contains 1 = false ∧
    (Sys.run unionWitness (Sys.init 0 2)).ok = false := by decide

/-- witness: `save A; remove 0; save B; restore A; remove 1; restore B` -/
def nonLifoWitness : List SSOp :=
  [.save 0, .remove 0, .save 1, .restore 0, .remove 1, .restore 1]

theorem C11_restore_non_lifo_counterexample :
    (Sys.run nonLifoWitness (Sys.init 0 2)).ss.contains 1 = false ∧
    (Sys.run nonLifoWitness (Sys.init 0 2)).ss.contains 0 = true ∧
    (Sys.run nonLifoWitness (Sys.init 0 2)).ok = false := by decide

/-- the full-strength statement is false of the model (and of the code, see known_findings.json) -/
theorem C11_full_statement_false : ¬ FullStatement := by
  intro h
  have h1 := (h 0 2 unionWitness 1).2
  have hc : (Sys.run unionWitness (Sys.init 0 2)).ss.contains 1 = false := by decide
  have hcur : (Sys.run unionWitness (Sys.init 0 2)).cur 1 := by
    show ((0:Int) ≤ 1 ∧ (1:Int) ≤ 2) ∧ (1:Int) ≠ 0
    decide
  rw [h1 hcur] at hc
  cases hc

/-- non-vacuity: a history with saves, removals, a restore and a later union satisfies the guard -/
example : (Sys.run [.save 0, .remove 1, .below 1, .restore 0, .union (SS.new 0 1), .only 2] (Sys.init (-1) 3)).ok = true := by
  decide

end C11
end Selen

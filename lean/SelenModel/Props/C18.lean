import SelenModel.Model.Sudoku
import SelenModel.Lemmas.Sudoku
/-
C18 — Specialised Sudoku solver returns a valid completion whenever one exists.

  "For any 9x9 grid of clues, the specialised Sudoku solver returns a grid only if it is a
   complete valid Sudoku that agrees with every clue, returns one whenever the clues admit a
   completion, and returns none only when they do not; its verdict agrees with the general
   constraint solver on the same puzzle."

What is proved about WHAT.

(A) Model of the specialised layer (`Selen.Sudoku`, Model/Sudoku.lean; tied to
    `src/solvers/sudoku.rs` by the `sd.*` correspondence ops): `SudokuSolver::new` (candidate
    table, debug-profile panic on a clue outside 0..9), `update_candidates`, naked singles, hidden
    singles, naked pairs, the `while` loop of `solve`, `verify_solution`.  `solvePosted g` is the
    list of `cell == digit` constraints posted before the general solver is called.
    Theorems `naked_single_sound`, `hidden_single_sound_{row,col,box}`, `posted_sound`,
    `naked_pairs_no_effect`, `posted_closed_form`, `verify_solution_iff_valid`,
    `C18_sound_complete_partial`, `C18_posted_redundant` are statements about this model only, for
    ALL grids (any integers in the cells).  `search_sound` / `search_complete` are about the
    reference search the driver uses to judge a `None` answer (`sd.result`), not about Rust code.

(B) The general solver (`Model::solve` on 81 variables, 27 `alldiff`, posted equalities) is NOT
    modelled here; its answer is an input (`GenAnswer`), `solveResult` is what `solve` makes of
    it.  `C18_end_to_end` takes the general solver as a parameter `gen` with exactly the two
    hypotheses that C01–C03 provide for it (a returned assignment satisfies every posted constraint
    and lies in the domains; "unsatisfiable" only if the constraint set has no solution) and
    derives the statement of C18, including the agreement of the verdict with the general solver
    run on the plain model (no posted singles).

Finding (full-strength statement fails): a clue outside `0..=9` makes `SudokuSolver::new` panic
in the debug profile (`debug_assert!` in `SudokuCandidateSet::single`) —
`C18_sound_complete_counterexample`; and independently of the panic the constraint set built
for such a grid has solutions that are not Sudoku grids (release profile: the solver returns
one) — `C18_out_of_range_not_equivalent`.  Guard of the `_partial` theorems: `InRange g`.
Second finding: `solve` reports a resource limit of the general solver (default 60 s / 2 GB) as
`None`, i.e. as "no completion" — `C18_limit_counterexample`; guard in `C18_end_to_end`:
`GenAnswer.Verdict`.
-/
namespace Selen
namespace Sudoku
namespace C18

/-! ### the techniques post only forced values -/

/-- naked single: a posted `cell == d` of `apply_naked_singles` holds in every valid completion -/
theorem naked_single_sound (g s : Grid) (h : ValidCompletion g s) :
    ∀ e ∈ nakedSingles g (initCands g), s e.row e.col = e.digit :=
  fun e he => naked_single_sound_aux g s h e he

/-- hidden single in a row (pigeonhole: a row of a valid completion contains every digit) -/
theorem hidden_single_sound_row (g s : Grid) (h : ValidCompletion g s) (r : Nat) (hr : r < 9) :
    ∀ e ∈ hiddenUnit g (initCands g) 1 (rowCells r), s e.row e.col = e.digit :=
  fun e he => hidden_unit_sound g s h 1 _ (isUnit_row r hr) e he

theorem hidden_single_sound_col (g s : Grid) (h : ValidCompletion g s) (c : Nat) (hc : c < 9) :
    ∀ e ∈ hiddenUnit g (initCands g) 2 (colCells c), s e.row e.col = e.digit :=
  fun e he => hidden_unit_sound g s h 2 _ (isUnit_col c hc) e he

theorem hidden_single_sound_box (g s : Grid) (h : ValidCompletion g s) (br bc : Nat)
    (hbr : br < 3) (hbc : bc < 3) :
    ∀ e ∈ hiddenUnit g (initCands g) 3 (boxCells br bc), s e.row e.col = e.digit :=
  fun e he => hidden_unit_sound g s h 3 _ (isUnit_box br bc hbr hbc) e he

/-- all of `apply_hidden_singles` -/
theorem hidden_single_sound (g s : Grid) (h : ValidCompletion g s) :
    ∀ e ∈ hiddenSingles g (initCands g), s e.row e.col = e.digit :=
  fun e he => hidden_singles_sound_aux g s h e he

/-- the unit argument behind the hidden singles: every digit occurs in every row, column and
box of a valid grid -/
theorem unit_contains_every_digit (s : Grid) (h : ValidGrid s) (u : List (Nat × Nat)) (U : IsUnit u)
    (d : Int) (hd : 1 ≤ d ∧ d ≤ 9) : ∃ p ∈ u, s p.1 p.2 = d :=
  unit_surj s u U.nodup U.len (fun p hp => h.1 _ _ (U.bound p hp).1 (U.bound p hp).2)
    (unitDistinct_of s u h.2 U) d hd

/-! ### naked pairs -/

/-- `apply_naked_pairs` has no effect on anything the solver does afterwards: after every call of
`apply_advanced_techniques` on the clue-derived table the table is the clue-derived table again
(its removals are overwritten by `update_candidates`, or there were none) … -/
theorem naked_pairs_no_effect (g : Grid) : (applyAdvanced g (initCands g)).2.2 = initCands g :=
  applyAdvanced_cands g

/-- … and the posted constraints have a closed form that does not mention naked pairs: the naked
and hidden singles of the clue-derived table, posted 11 times (`technique_iterations` = 0..10)
(`List.replicate 11 [] |>.flatten = []` covers the case without progress). -/
theorem posted_closed_form (g : Grid) (h : InRange g) :
    solvePosted g = some (List.replicate 11
      (nakedSingles g (initCands g) ++ hiddenSingles g (initCands g))).flatten :=
  solvePosted_spec g h

/-- the same for the whole event trace of `solve` (what `sd.solve` compares): the events of ONE call
on the clue-derived table, 11 times if that call made progress, once otherwise -/
theorem events_closed_form (g : Grid) (h : InRange g) : solveEvents g =
    some (if (applyAdvanced g (initCands g)).1 then
          (List.replicate 11 (applyAdvanced g (initCands g)).2.1).flatten
         else (applyAdvanced g (initCands g)).2.1) :=
  solveEvents_spec g h

/-- `new` panics (debug profile) exactly on the grids with a clue outside `0..=9` -/
theorem panic_iff_out_of_range (g : Grid) : solvePosted g = none ↔ ¬ InRange g := by
  constructor
  · intro h hr
    rw [solvePosted_spec g hr] at h
    cases h
  · intro h
    simp [solvePosted, solveEvents, new_eq_none g h]

/-- every posted constraint holds in every valid completion of the clues -/
theorem posted_sound (g : Grid) (post : List Ev) (hp : solvePosted g = some post) (s : Grid)
    (h : ValidCompletion g s) : ∀ e ∈ post, s e.row e.col = e.digit := by
  have hr : InRange g := by
    apply Classical.byContradiction
    intro hn
    rw [(panic_iff_out_of_range g).2 hn] at hp
    cases hp
  rw [solvePosted_spec g hr] at hp
  cases hp
  intro e he
  have := mem_flatten_replicate _ e _ he
  rcases List.mem_append.1 this with h1 | h2
  · exact naked_single_sound g s h e h1
  · exact hidden_single_sound g s h e h2

/-! ### `verify_solution` -/

/-- `SudokuSolver::verify_solution` accepts exactly the complete valid Sudoku grids -/
theorem verify_solution_iff_valid (s : Grid) : verifySolution s = true ↔ ValidGrid s :=
  verifySolution_iff s

/-- `ValidGrid` in the 27-lists form: every cell `1..9`, and each of the 9 rows, 9 columns and 9
boxes holds pairwise different values -/
theorem validGrid_iff_units (s : Grid) : ValidGrid s ↔
    Complete s ∧ (∀ r, r < 9 → UnitDistinct s (rowCells r)) ∧
      (∀ c, c < 9 → UnitDistinct s (colCells c)) ∧
      (∀ br, br < 3 → ∀ bc, bc < 3 → UnitDistinct s (boxCells br bc)) := by
  rw [ValidGrid, allDiff27_iff_units]

/-! ### C18 for the specialised layer -/

/-- without posted constraints: for clues in range, the solutions of (domains ∧ 27 alldiff) are
the valid completions -/
theorem plain_model_exact (g : Grid) (hr : InRange g) (s : Grid) :
    ValidCompletion g s ↔ SolPosted g [] s := by
  constructor
  · rintro ⟨⟨hc, hd⟩, ha⟩
    refine ⟨?_, hd, by intro e he; cases he⟩
    intro r c hr' hc'
    split
    · exact hc r c hr' hc'
    · next h0 => exact ha r c hr' hc' h0
  · rintro ⟨hdom, hd, _⟩
    refine ⟨⟨?_, hd⟩, ?_⟩
    · intro r c hr' hc'
      have := hdom r c hr' hc'
      split at this
      · exact this
      · next h0 =>
        rw [this]
        rcases hr r c hr' hc' with h | h
        · exact absurd h h0
        · exact h
    · intro r c hr' hc' h0
      have := hdom r c hr' hc'
      rw [if_neg h0] at this
      exact this

/-- **C18, specialised layer (guard: clues in range).**  The posted singles lose nothing and add
nothing: the valid completions of the clues are exactly the solutions of
(domains ∧ 27 all-different ∧ posted singles), the constraint set handed to the general solver. -/
theorem C18_sound_complete_partial (g : Grid) (hr : InRange g) :
    ∃ post, solvePosted g = some post ∧ ∀ s, ValidCompletion g s ↔ SolPosted g post s := by
  refine ⟨_, solvePosted_spec g hr, fun s => ?_⟩
  constructor
  · intro h
    have h0 := (plain_model_exact g hr s).1 h
    exact ⟨h0.1, h0.2.1, posted_sound g _ (solvePosted_spec g hr) s h⟩
  · rintro ⟨h1, h2, _⟩
    exact (plain_model_exact g hr s).2 ⟨h1, h2, by intro e he; cases he⟩

/-- the posted singles are redundant: same solutions as the plain model (27 all-different on the
clue domains) the general solver is given when it is used directly -/
theorem C18_posted_redundant (g : Grid) (hr : InRange g) (post : List Ev)
    (hp : solvePosted g = some post) (s : Grid) : SolPosted g post s ↔ SolPosted g [] s := by
  obtain ⟨post', hp', h⟩ := C18_sound_complete_partial g hr
  rw [hp] at hp'
  cases hp'
  rw [← h s, plain_model_exact g hr s]

/-- a grid with the clue 10 in the top-left corner, otherwise empty -/
def gBad : Grid := fun r c => if r = 0 ∧ c = 0 then 10 else 0

/-- the full-strength statement ("for ANY grid of clues") fails on the model of the debug
profile: `SudokuSolver::new` panics on a clue outside `0..=9` -/
theorem C18_sound_complete_counterexample :
    ¬ ∀ g : Grid, ∃ post, solvePosted g = some post ∧ ∀ s, ValidCompletion g s ↔ SolPosted g post s := by
  intro h
  obtain ⟨post, hp, _⟩ := h gBad
  have : solvePosted gBad = none := by decide
  rw [this] at hp
  cases hp

/-- a valid grid with its top-left cell overwritten by 10 -/
def sBad : Grid := fun r c =>
  if r = 0 ∧ c = 0 then 10 else
  [5, 3, 4, 6, 7, 8, 9, 1, 2,
   6, 7, 2, 1, 9, 5, 3, 4, 8,
   1, 9, 8, 3, 4, 2, 5, 6, 7,
   8, 5, 9, 7, 6, 1, 4, 2, 3,
   4, 2, 6, 8, 5, 3, 7, 9, 1,
   7, 1, 3, 9, 2, 4, 8, 5, 6,
   9, 6, 1, 5, 3, 7, 2, 8, 4,
   2, 8, 7, 4, 1, 9, 6, 3, 5,
   3, 4, 5, 2, 8, 6, 1, 7, 9].getD (9 * r + c) 0

/-- the guard is needed for the equivalence itself, not only because of the panic: the constraint
set `new` builds for `gBad` (release profile: no panic) has a solution that is no Sudoku grid -/
theorem C18_out_of_range_not_equivalent :
    SolPosted gBad [] sBad ∧ ¬ ValidCompletion gBad sBad := by
  constructor
  · rw [← solPosted_iff]
    decide
  · intro h
    have := (h.1.1 0 0 (by omega) (by omega)).2
    revert this
    decide

/-- the puzzle of the crate documentation -/
def g0 : Grid := fun r c =>
  [5, 3, 0, 0, 7, 0, 0, 0, 0,
   6, 0, 0, 1, 9, 5, 0, 0, 0,
   0, 9, 8, 0, 0, 0, 0, 6, 0,
   8, 0, 0, 0, 6, 0, 0, 0, 3,
   4, 0, 0, 8, 0, 3, 0, 0, 1,
   7, 0, 0, 0, 2, 0, 0, 0, 6,
   0, 6, 0, 0, 0, 0, 2, 8, 0,
   0, 0, 0, 4, 1, 9, 0, 0, 5,
   0, 0, 0, 0, 8, 0, 0, 7, 9].getD (9 * r + c) 0

def s0 : Grid := fun r c =>
  [5, 3, 4, 6, 7, 8, 9, 1, 2,
   6, 7, 2, 1, 9, 5, 3, 4, 8,
   1, 9, 8, 3, 4, 2, 5, 6, 7,
   8, 5, 9, 7, 6, 1, 4, 2, 3,
   4, 2, 6, 8, 5, 3, 7, 9, 1,
   7, 1, 3, 9, 2, 4, 8, 5, 6,
   9, 6, 1, 5, 3, 7, 2, 8, 4,
   2, 8, 7, 4, 1, 9, 6, 3, 5,
   3, 4, 5, 2, 8, 6, 1, 7, 9].getD (9 * r + c) 0

/-! ### C18 end to end, relative to the general solver -/

/-- second way the full-strength statement fails ("returns none only when the clues admit no
completion"): `solve` turns EVERY error of the general solver into `None`, including the resource
limits every `Model::default()` carries (60 s, 2 GB).  `g0` has a completion, the general solver
may answer `Err(Timeout)`, and `solve` then returns `None`. -/
theorem C18_limit_counterexample :
    (∃ s, ValidCompletion g0 s) ∧ solveResult .timeout = none ∧ solveResult .memoryLimit = none :=
  ⟨⟨s0, (verifySolution_iff s0).1 (by decide), (agrees_iff g0 s0).1 (by decide)⟩, rfl, rfl⟩

/-- **C18 relative to C01–C03.**  `gen g post` stands for the answer of the general solver run on
(domains of `g` ∧ 27 all-different ∧ `post`).  Hypotheses: it is sound (`hs`: a returned
assignment satisfies the constraint set — C01) and its "unsatisfiable" answers are right (`hc`:
`NoSolution` / `ConflictingConstraints` only if the set has no solution — C02/C03).  Then for clues
in range the specialised solver `solveResult (gen g (solvePosted g))`
 * returns only valid completions of the clues (no guard),
 * and, whenever the general solver reaches a verdict (guard `Verdict`: no time-out / memory
   limit / other error — see `C18_limit_counterexample`), returns a grid whenever a completion
   exists, returns none only when none exists, and agrees with the general solver run on the
   plain model `gen g []`. -/
theorem C18_end_to_end (gen : Grid → List Ev → GenAnswer)
    (hs : ∀ g post s, gen g post = .ok s → SolPosted g post s)
    (hc : ∀ g post, gen g post = .noSolution ∨ gen g post = .conflicting → ∀ s, ¬ SolPosted g post s)
    (g : Grid) (hr : InRange g) :
    ∃ post, solvePosted g = some post ∧
      (∀ s, solveResult (gen g post) = some s → ValidCompletion g s) ∧
      ((gen g post).Verdict → (∃ s, ValidCompletion g s) → ∃ s, solveResult (gen g post) = some s) ∧
      ((gen g post).Verdict → solveResult (gen g post) = none → ¬ ∃ s, ValidCompletion g s) ∧
      ((gen g post).Verdict → (gen g []).Verdict →
        (solveResult (gen g post)).isSome = (solveResult (gen g [])).isSome) := by
  obtain ⟨post, hp, heq⟩ := C18_sound_complete_partial g hr
  have unsat : ∀ post', (gen g post').Verdict → solveResult (gen g post') = none →
      ∀ s, ¬ SolPosted g post' s := by
    intro post' hv hn
    cases hg : gen g post' with
    | ok s => rw [hg] at hn; cases hn
    | noSolution => exact hc g post' (Or.inl hg)
    | conflicting => exact hc g post' (Or.inr hg)
    | timeout => rw [hg] at hv; cases hv
    | memoryLimit => rw [hg] at hv; cases hv
    | otherErr => rw [hg] at hv; cases hv
  have sound : ∀ post' s, solveResult (gen g post') = some s → SolPosted g post' s := by
    intro post' s h
    cases hg : gen g post' with
    | ok s' =>
      rw [hg] at h
      cases h
      exact hs g post' s hg
    | noSolution => rw [hg] at h; cases h
    | conflicting => rw [hg] at h; cases h
    | timeout => rw [hg] at h; cases h
    | memoryLimit => rw [hg] at h; cases h
    | otherErr => rw [hg] at h; cases h
  refine ⟨post, hp, ?_, ?_, ?_, ?_⟩
  · intro s h
    exact (heq s).2 (sound post s h)
  · rintro hv ⟨s, h⟩
    cases hres : solveResult (gen g post) with
    | some s' => exact ⟨s', rfl⟩
    | none => exact absurd ((heq s).1 h) (unsat post hv hres s)
  · rintro hv hn ⟨s, h⟩
    exact unsat post hv hn s ((heq s).1 h)
  · intro hv hv0
    cases h1 : solveResult (gen g post) with
    | some s =>
      cases h2 : solveResult (gen g []) with
      | some _ => rfl
      | none =>
        exact absurd ((C18_posted_redundant g hr post hp s).1 (sound post s h1)) (unsat [] hv0 h2 s)
    | none =>
      cases h2 : solveResult (gen g []) with
      | some s =>
        exact absurd ((C18_posted_redundant g hr post hp s).2 (sound [] s h2)) (unsat post hv h1 s)
      | none => rfl

/-! ### the reference search of the driver (`sd.result … none`) is sound and complete -/

/-- the driver's referee says "no completion" only when there is none -/
theorem search_complete (a : Array Int) (fuel : Nat) (h : search a fuel = .nosol) :
    ¬ ∃ s, ValidCompletion (Grid.ofArray a) s :=
  fun ⟨s, hs⟩ => search_nosol a fuel h s hs

theorem search_sound (a : Array Int) (fuel : Nat) (s : Array Int) (h : search a fuel = .found s) :
    ValidCompletion (Grid.ofArray a) (Grid.ofArray s) := by
  unfold search at h
  split at h
  · cases h
  · split at h
    · next s' _ =>
      split at h
      · next hv =>
        cases h
        rw [Bool.and_eq_true] at hv
        exact ⟨(verifySolution_iff _).1 hv.1, (agrees_iff _ _).1 hv.2⟩
      · cases h
    · next r hne =>
      rw [h] at hne
      exact absurd rfl (hne s)

/-! ### the hypotheses are satisfiable -/

example : InRange g0 := by
  rw [← inRange_iff]; decide

/-- `g0` has a valid completion, so `posted_sound`, `naked_single_sound`, … are not vacuous -/
example : ValidCompletion g0 s0 := by
  refine ⟨(verifySolution_iff s0).1 (by decide), (agrees_iff g0 s0).1 (by decide)⟩

/-- a naked single is actually posted for `g0` (cell (4,4) must be 5) -/
example : (⟨0, 4, 4, 5⟩ : Ev) ∈ nakedSingles g0 (initCands g0) := by
  rw [mem_nakedSingles]
  exact ⟨4, by omega, 4, by omega, by decide, by decide, by decide⟩

end C18
end Sudoku
end Selen

import SelenModel.Lemmas.Gac
import SelenModel.Lemmas.GacSparse
/-
C19 — All-different engines prune only unsupported values and agree.

  "Each all-different propagation engine (bit-set, sparse-set, hybrid) removes a value from a
   variable only if no assignment of pairwise different values uses it, declares inconsistency
   only when no such assignment exists, and the engines never disagree on consistency for the
   same domains."

Model: `Selen.Gac` (Model/Gac.lean).  `Sol mem vars a` = "`a` gives the occurrences `vars`
pairwise different values inside the domains `mem`".  Soundness of an engine is stated as
"every solution survives and the engine answers `consistent`", from which the two clauses of the
property follow (`…_removed_unsupported`, `…_inconsistent_no_solution`).

Verdict.
* bit-set engine: sound for every state, slice and size (`assigned_elim_sound`, `hall_sound`,
  `bitset_alldiff_sound`, `bitset_removed_unsupported`, `bitset_inconsistent_no_solution`).
* hybrid engine: sound on every state reachable by a history that adds each variable once
  (`hybrid_sound` under `HInv`, `hybrid_history_sound`); re-adding a variable under the other
  representation leaves a stale domain behind and is outside the guard.
* `AllDiff::prune` (bounds in, bounds out): `alldiff_prune_contracting`, `alldiff_prune_sound`,
  `alldiff_prune_fail_sound`, `alldiff_prune_checking`.
* sparse-set engine (`SparseSetGAC::propagate_alldiff`): UNSOUND — `sparse_alldiff_counterexample`;
  its outcome depends on the `HashMap` iteration order (`sparse_alldiff_order_dependent`), even its
  consistency flag does (`sparse_consistency_order_dependent`); it panics on small problems with a
  value outside `0..128` (`sparse_alldiff_panics`).  What is true of it: it declares
  inconsistency only if no solution exists (`sparse_inconsistent_sound`, any iteration order).
* "the engines never disagree on consistency": FALSE — `engines_agree_on_consistency_counterexample`
  (the bit-set engine is incomplete); what holds is `engines_agree_on_consistency_partial`
  (guard: the domains have a solution).
-/
namespace Selen
namespace Gac
namespace C19

/-! ### bit-set engine -/

/-- assigned-value elimination (first phase of `BitSetGAC::propagate_alldiff`) never fails on
satisfiable domains and keeps every solution -/
theorem assigned_elim_sound (g : BG) (vars : List Nat) (a : Nat → Int) (hs : Sol (BMem g) vars a) :
    (elimOuter BG.removeValue BG.isInconsistent vars (g.assignedValues vars) g false).2.2 = true ∧
    Sol (BMem (elimOuter BG.removeValue BG.isInconsistent vars (g.assignedValues vars) g false).1) vars a :=
  ⟨(BG.elim_sound g vars a hs).1, hs.1, (BG.elim_sound g vars a hs).2⟩

/-- Hall sets, any size: if the domains of the `k` variables `S ⊆ vars` have exactly `k` values in
their union, every solution uses all these values on `S`, hence no variable outside `S` takes one -/
theorem hall_sound (g : BG) (vars S : List Nat) (a : Nat → Int) (hs : Sol (BMem g) vars a)
    (hS : S.Sublist vars) (hlen : S.length = (g.unionVals S).length) :
    (∀ u ∈ g.unionVals S, ∃ x ∈ S, a x = u) ∧ (∀ x ∈ vars, x ∉ S → a x ∉ g.unionVals S) :=
  BG.hall_sound g vars S a hs hS hlen

/-- the Hall removal loop iterates a `HashSet`; its result depends only on the set -/
theorem hall_union_order_irrelevant (d : BSD) (l1 l2 : List Int) (h : ∀ v, v ∈ l1 ↔ v ∈ l2) (w : Int) :
    (d.removeMany l1).1.contains w = (d.removeMany l2).1.contains w :=
  BSD.removeMany_order_irrelevant d l1 l2 h w

theorem bitset_alldiff_sound (g : BG) (vars : List Nat) (a : Nat → Int) (hs : Sol (BMem g) vars a) :
    (g.propagateAlldiff vars).2.2 = true ∧ Sol (BMem (g.propagateAlldiff vars).1) vars a :=
  BG.propagateAlldiff_sound g vars a hs

/-- a value that disappears from a variable of the slice is used by no solution -/
theorem bitset_removed_unsupported (g : BG) (vars : List Nat) (x : Nat) (v : Int) (hx : x ∈ vars)
    (hafter : ¬ BMem (g.propagateAlldiff vars).1 x v) : ¬ ∃ a, Sol (BMem g) vars a ∧ a x = v := by
  rintro ⟨a, hs, rfl⟩
  exact hafter ((bitset_alldiff_sound g vars a hs).2.2 x hx)

theorem bitset_inconsistent_no_solution (g : BG) (vars : List Nat)
    (h : (g.propagateAlldiff vars).2.2 = false) : ¬ ∃ a, Sol (BMem g) vars a := by
  rintro ⟨a, hs⟩
  rw [(bitset_alldiff_sound g vars a hs).1] at h
  cases h

/-! ### hybrid engine -/

theorem hybrid_sound (g : HG) (vars : List Nat) (a : Nat → Int) (hi : HInv g) (hs : Sol (HMem g) vars a) :
    (g.propagateAlldiff vars).2.2 = true ∧ Sol (HMem (g.propagateAlldiff vars).1) vars a :=
  ⟨(HG.propagateAlldiff_sound g vars a hi hs).1, (HG.propagateAlldiff_sound g vars a hi hs).2.1⟩

theorem hybrid_removed_unsupported (g : HG) (vars : List Nat) (x : Nat) (v : Int) (hi : HInv g) (hx : x ∈ vars)
    (hafter : ¬ HMem (g.propagateAlldiff vars).1 x v) : ¬ ∃ a, Sol (HMem g) vars a ∧ a x = v := by
  rintro ⟨a, hs, rfl⟩
  exact hafter ((hybrid_sound g vars a hi hs).2.2 x hx)

theorem hybrid_inconsistent_no_solution (g : HG) (vars : List Nat) (hi : HInv g)
    (h : (g.propagateAlldiff vars).2.2 = false) : ¬ ∃ a, Sol (HMem g) vars a := by
  rintro ⟨a, hs⟩
  rw [(hybrid_sound g vars a hi hs).1] at h
  cases h

/-! ### sparse-set engine: unsound -/

/-- the domains `[{0,2},{0,1}]` -/
def sgEx : SG := (SG.new.addVariableWithValues 0 [0, 2]).addVariableWithValues 1 [0, 1]

/-- `x0 = 0, x1 = 1` is a solution of `[{0,2},{0,1}]` … -/
theorem sgEx_solution :
    ((sgEx.dom 0).map (fun d => d.contains 0) = some true) ∧ ((sgEx.dom 1).map (fun d => d.contains 1) = some true) := by
  decide

/-- … but (iteration order `x1, x0`) the engine answers "consistent" and prunes to `[{2},{0,1}]`:
the supported value `0` of `x0` is removed -/
theorem sparse_alldiff_counterexample :
    (sgEx.propagateAlldiff [0, 1] [1, 0]).map (fun r => (r.2.2, r.1.getDomainValues 0, r.1.getDomainValues 1))
      = some (true, [2], [0, 1]) := by
  decide

/-- with the other iteration order of the same `HashMap` the result is `[{0,2},{1}]`: the outcome
of `SparseSetGAC::propagate_alldiff` depends on the hash order (and is unsound for both) -/
theorem sparse_alldiff_order_dependent :
    (sgEx.propagateAlldiff [0, 1] [0, 1]).map (fun r => (r.2.2, r.1.getDomainValues 0, r.1.getDomainValues 1))
      = some (true, [0, 2], [1]) := by
  decide

/-- a second defect: on small problems the BFS uses `1u128 << value`; a value outside `0..128`
(here `-1`) makes the call panic (`none`) in the checked build -/
theorem sparse_alldiff_panics :
    (((SG.new.addVariableWithValues 0 [-1, 0]).addVariableWithValues 1 [-1, 0]).propagateAlldiff [0, 1] [0, 1]).isNone = true := by
  decide

/-- and a third: the bogus matching can be "complete" on domains WITHOUT a solution.  On
`[{0},{0,1},{1,2,4},{0,1}]` (x0 = 0 forces x1 = x3 = 1) the iteration order `x0,x2,x1,x3` answers
"consistent" (leaving `x1, x3 ∈ {1}`), the order `x0,x1,x3,x2` answers "inconsistent": the
engine disagrees with itself on consistency -/
def sgU : SG :=
  (((SG.new.addVariableWithValues 0 [0]).addVariableWithValues 1 [0, 1]).addVariableWithValues 2 [1, 2, 4]).addVariableWithValues 3 [0, 1]

theorem sparse_consistency_order_dependent :
    (sgU.propagateAlldiff [0, 1, 2, 3] [0, 2, 1, 3]).map (fun r => (r.2.2, [0, 1, 2, 3].map r.1.getDomainValues))
      = some (true, [[0], [1], [1, 2, 4], [1]]) ∧
    (sgU.propagateAlldiff [0, 1, 2, 3] [0, 1, 3, 2]).map (fun r => r.2.2) = some false := by
  decide

/-! ### agreement on consistency -/

/-- seven variables with domain `{0,1}` -/
def bg7 : BG := (List.range 7).foldl (fun g x => g.addVariableWithValues x [0, 1]) BG.new
def sg7 : SG := (List.range 7).foldl (fun g x => g.addVariableWithValues x [0, 1]) SG.new
def hg7 : HG := (List.range 7).foldl (fun g x => { g with b := g.b.addVariableWithValues x [0, 1] }) HG.new

/-- the engines DO disagree: on seven variables over `{0,1}` (no solution) the bit-set and hybrid
engines answer "consistent" (Hall sets are only tried for at most 6 variables), the sparse-set
engine answers "inconsistent" -/
theorem engines_agree_on_consistency_counterexample :
    (bg7.propagateAlldiff (List.range 7)).2.2 = true ∧
    (hg7.propagateAlldiff (List.range 7)).2.2 = true ∧
    (sg7.propagateAlldiff (List.range 7) (List.range 7)).map (fun r => r.2.2) = some false := by
  decide

/-- six variables over `{1,…,5}`: Hall sets of size 2..4 are tried and none is tight -/
def bg6 : BG := (List.range 6).foldl (fun g x => g.addVariableWithValues x [1, 2, 3, 4, 5]) BG.new
def sg6 : SG := (List.range 6).foldl (fun g x => g.addVariableWithValues x [1, 2, 3, 4, 5]) SG.new

theorem engines_agree_on_consistency_counterexample_hall :
    (bg6.propagateAlldiff (List.range 6)).2.2 = true ∧
    (sg6.propagateAlldiff (List.range 6) (List.range 6)).map (fun r => r.2.2) = some false := by
  decide

/-- the part of the property the sparse-set engine does satisfy: "inconsistent" is only declared
when no assignment of pairwise different values exists — for EVERY iteration order `order` of the
key set of its temporary graph.  (`none` = the call panicked, see `sparse_alldiff_panics`.) -/
theorem sparse_inconsistent_sound (g : SG) (vars order : List Nat) (r : SG × Bool × Bool)
    (hwf : ∀ x d, g.dom x = some d → d.WF)
    (hord : ∀ x, x ∈ order ↔ x ∈ g.filteredKeys vars)
    (h : g.propagateAlldiff vars order = some r) (hinc : r.2.2 = false) :
    ¬ ∃ a, Sol (SMem g) vars a :=
  SG.propagateAlldiff_inconsistent_sound g vars order r hwf hord h hinc

/-- what holds instead of "the engines never disagree": on domains that HAVE a solution (guard:
satisfiability of the common domains) all three engines answer "consistent" -/
theorem engines_agree_on_consistency_partial (b : BG) (h : HG) (s : SG) (vars order : List Nat) (hi : HInv h)
    (hwf : ∀ x d, s.dom x = some d → d.WF) (hord : ∀ x, x ∈ order ↔ x ∈ s.filteredKeys vars)
    (hsameH : ∀ x v, BMem b x v ↔ HMem h x v) (hsameS : ∀ x v, BMem b x v ↔ SMem s x v)
    (hsat : ∃ a, Sol (BMem b) vars a) :
    (b.propagateAlldiff vars).2.2 = true ∧ (h.propagateAlldiff vars).2.2 = true ∧
    ∀ r, s.propagateAlldiff vars order = some r → r.2.2 = true := by
  obtain ⟨a, hs⟩ := hsat
  refine ⟨(bitset_alldiff_sound b vars a hs).1,
    (hybrid_sound h vars a hi ⟨hs.1, fun x hx => (hsameH x _).1 (hs.2 x hx)⟩).1, ?_⟩
  intro r hr
  cases hc : r.2.2
  · exact absurd ⟨a, hs.1, fun x hx => (hsameS x _).1 (hs.2 x hx)⟩
      (sparse_inconsistent_sound s vars order r hwf hord hr hc)
  · rfl

/-! ### non-vacuity -/

/-- the hypotheses of `sparse_inconsistent_sound` are satisfiable together with an "inconsistent"
answer: `sg7` is well-formed, `List.range 7` enumerates its key set, the answer is `false` -/
example : (∀ x d, sg7.dom x = some d → d.WF) ∧ sg7.filteredKeys (List.range 7) = List.range 7 ∧
    (sg7.propagateAlldiff (List.range 7) (List.range 7)).map (fun r => r.2.2) = some false := by
  refine ⟨?_, by decide, by decide⟩
  intro x d hd
  have hnew : ∀ (g : SG) (y : Nat) (vs : List Int), (∀ x d, g.dom x = some d → d.WF) →
      ∀ x d, (g.addVariableWithValues y vs).dom x = some d → d.WF := by
    intro g y vs hg x d hd
    unfold SG.addVariableWithValues at hd
    by_cases hxy : x = y
    · subst hxy
      simp [setDom] at hd
      subst hd; exact SS.newFromValues_wf _
    · simp [setDom, hxy] at hd; exact hg x d hd
  have : ∀ (l : List Nat) (g : SG), (∀ x d, g.dom x = some d → d.WF) →
      ∀ x d, (l.foldl (fun g x => g.addVariableWithValues x [0, 1]) g).dom x = some d → d.WF := by
    intro l
    induction l with
    | nil => intro g hg; exact hg
    | cons y l ih => intro g hg; exact ih _ (hnew g y _ hg)
  exact this (List.range 7) SG.new (fun x d h => by simp [SG.new] at h) x d hd

/-- three variables over `{1,2,3}`: a solution exists, the hypotheses of the soundness theorems
are satisfiable -/
def bg3 : BG := (List.range 3).foldl (fun g x => g.addVariable x 1 3) BG.new

example : Sol (BMem bg3) [0, 1, 2] (fun x => (x : Int) + 1) := by
  refine ⟨by decide, ?_⟩
  intro x hx
  simp only [List.mem_cons, List.not_mem_nil, or_false] at hx
  rcases hx with rfl | rfl | rfl
  · exact ⟨_, rfl, by decide⟩
  · exact ⟨_, rfl, by decide⟩
  · exact ⟨_, rfl, by decide⟩

/-- a tight Hall pair exists in a concrete state (hypothesis `hlen` of `hall_sound` is satisfiable) -/
example : let g := (BG.new.addVariableWithValues 0 [1, 2]).addVariableWithValues 1 [1, 2]
    [0, 1].length = (g.unionVals [0, 1]).length := by decide

/-! ### histories of the hybrid engine

`HInv` (no variable stored under both representations, sparse sets well-formed) is the only
hypothesis of `hybrid_sound`; it holds after ANY sequence of public calls in which every variable
is added once. -/

inductive HOp where
  | add (x : Nat) (lo hi : Int)
  | addv (x : Nat) (vs : List Int)
  | rm (x : Nat) (v : Int)
  | assign (x : Nat) (v : Int)
  | above (x : Nat) (t : Int)
  | below (x : Nat) (t : Int)
  | prop (vars : List Nat)

/-- one call; `none` = the call is outside the guard (a variable is added twice, or the add
returned `Err` / panicked) -/
def hstep (g : HG) : HOp → Option HG
  | .add x lo hi =>
    if g.inBits x || g.inSparse x then none
    else match g.addVariable x lo hi with
      | .ok g' => some g'
      | _ => none
  | .addv x vs =>
    if g.inBits x || g.inSparse x then none
    else match g.addVariableWithValues x vs with
      | .ok g' => some g'
      | _ => none
  | .rm x v => some (g.removeValue x v).1
  | .assign x v => some (g.assignVariable x v).1
  | .above x t => some (g.removeAbove x t).1
  | .below x t => some (g.removeBelow x t).1
  | .prop vars => some (g.propagateAlldiff vars).1

def hrun : List HOp → HG → Option HG
  | [], g => some g
  | op :: ops, g =>
    match hstep g op with
    | some g' => hrun ops g'
    | none => none

theorem hstep_inv (g g' : HG) (op : HOp) (hinv : HInv g) (h : hstep g op = some g') : HInv g' := by
  cases op with
  | add x lo hi =>
    simp only [hstep] at h
    by_cases hf : (g.inBits x || g.inSparse x) = true
    · rw [if_pos hf] at h; cases h
    · rw [if_neg hf] at h
      have hb : g.inBits x = false := by cases e : g.inBits x <;> simp_all
      have hs : g.inSparse x = false := by cases e : g.inSparse x <;> simp_all
      cases e : g.addVariable x lo hi with
      | ok g1 => rw [e] at h; cases h; exact HG.HInv_addVariable g g' x lo hi hinv hb hs e
      | err => rw [e] at h; cases h
      | panic => rw [e] at h; cases h
  | addv x vs =>
    simp only [hstep] at h
    by_cases hf : (g.inBits x || g.inSparse x) = true
    · rw [if_pos hf] at h; cases h
    · rw [if_neg hf] at h
      have hb : g.inBits x = false := by cases e : g.inBits x <;> simp_all
      have hs : g.inSparse x = false := by cases e : g.inSparse x <;> simp_all
      cases e : g.addVariableWithValues x vs with
      | ok g1 => rw [e] at h; cases h; exact HG.HInv_addVariableWithValues g g' x vs hinv hb hs e
      | err => rw [e] at h; cases h
      | panic => rw [e] at h; cases h
  | rm x v => cases h; exact HG.HInv_removeValue g x v hinv
  | assign x v => cases h; exact HG.HInv_assignVariable g x v hinv
  | above x t => cases h; exact HG.HInv_removeAbove g x t hinv
  | below x t => cases h; exact HG.HInv_removeBelow g x t hinv
  | prop vars => cases h; exact HG.HInv_propagateAlldiff g vars hinv

theorem hrun_inv : ∀ (ops : List HOp) (g g' : HG), HInv g → hrun ops g = some g' → HInv g' := by
  intro ops
  induction ops with
  | nil => intro g g' hi h; cases h; exact hi
  | cons op ops ih =>
    intro g g' hi h
    unfold hrun at h
    cases e : hstep g op with
    | none => rw [e] at h; cases h
    | some g1 => rw [e] at h; exact ih g1 g' (hstep_inv g g1 op hi e) h

/-- **hybrid engine, any history**: after any sequence of adds (each variable once), removals,
assignments, bound cuts and propagations, a further propagation keeps every solution and answers
"consistent" whenever a solution exists -/
theorem hybrid_history_sound (ops : List HOp) (g : HG) (vars : List Nat) (a : Nat → Int)
    (h : hrun ops HG.new = some g) (hs : Sol (HMem g) vars a) :
    (g.propagateAlldiff vars).2.2 = true ∧ Sol (HMem (g.propagateAlldiff vars).1) vars a :=
  hybrid_sound g vars a (hrun_inv ops HG.new g HG.HInv_new h) hs

/-- non-vacuity of the history theorem: a mixed-representation state reachable by a history -/
example : ∃ g, hrun [.add 0 1 3, .add 1 0 129, .assign 0 2, .prop [0, 1]] HG.new = some g ∧
    g.getDomainValues 0 = [2] ∧ g.inSparse 1 = true ∧ (g.getDomainValues 1).contains 2 = false :=
  ⟨_, rfl, by decide, by decide, by decide⟩

/-! ### `AllDiff::prune` on integer bounds (bounds in, bounds out)

`alldiffPrune` models `quick_feasibility_check` + `propagate_gac` for interval variables.
`IMem bs i v` = "`v` lies in the `i`-th interval". -/

/-- **contracting**: same number of variables, every interval shrinks -/
theorem alldiff_prune_contracting (bs bs' : List (Int × Int)) (h : alldiffPrune bs = some bs') :
    bs'.length = bs.length ∧
    ∀ (k : Nat) (b b' : Int × Int), bs[k]? = some b → bs'[k]? = some b' → b.1 ≤ b'.1 ∧ b'.2 ≤ b.2 := by
  unfold alldiffPrune at h
  split at h
  · cases h
    exact ⟨rfl, fun k b b' h1 h2 => by rw [h1] at h2; cases h2; exact ⟨Int.le_refl _, Int.le_refl _⟩⟩
  · split at h
    · cases h
    · split at h
      · cases h
      · split at h
        · cases h
        · simp only [] at h
          split at h
          · cases h
          · exact writeAll_contracting _ bs bs' 0 h

/-- **sound**: every assignment of pairwise different values inside the intervals survives (in
particular the call does not fail).  `hspan`: the interval widths fit an `i32` (otherwise the
Rust code overflows). -/
theorem alldiff_prune_sound (bs : List (Int × Int)) (a : Nat → Int)
    (hspan : ∀ b ∈ bs, b.2 - b.1 + 1 ≤ i32Max)
    (hs : Sol (IMem bs) (List.range bs.length) a) :
    ∃ bs', alldiffPrune bs = some bs' ∧ Sol (IMem bs') (List.range bs.length) a := by
  have hget : ∀ i, i < bs.length → ∃ b, bs[i]? = some b ∧ b ∈ bs ∧ b.1 ≤ a i ∧ a i ≤ b.2 := by
    intro i hi
    obtain ⟨b, hb, h1, h2⟩ := hs.2 i (List.mem_range.2 hi)
    exact ⟨b, hb, List.mem_of_getElem? hb, h1, h2⟩
  have hle : ∀ b ∈ bs, b.1 ≤ b.2 := by
    intro b hb
    obtain ⟨i, hi, e⟩ := List.getElem_of_mem hb
    obtain ⟨b', hb', _, h1, h2⟩ := hget i hi
    rw [List.getElem?_eq_getElem hi, e] at hb'
    cases hb'
    omega
  unfold alldiffPrune
  by_cases h1 : bs.length ≤ 1
  · rw [if_pos h1]; exact ⟨bs, rfl, hs⟩
  · rw [if_neg h1]
    have hany : bs.any (fun b => decide (b.1 > b.2)) = false := by
      cases e : bs.any (fun b => decide (b.1 > b.2))
      · rfl
      · obtain ⟨b, hb, hd⟩ := List.any_eq_true.1 e
        have := hle b hb
        simp at hd
        omega
    rw [hany]
    simp only [Bool.false_eq_true, if_false]
    have hcov : ¬ coveredCount bs < bs.length := by
      have := nodup_subset_length ((List.range bs.length).map a)
        (dedup (bs.flatMap (fun b => SS.intRange b.1 (b.2 + 1)))) hs.1 (by
          intro y hy
          obtain ⟨i, hi, rfl⟩ := List.mem_map.1 hy
          obtain ⟨b, _, hb, h1, h2⟩ := hget i (List.mem_range.1 hi)
          rw [mem_dedup]
          exact List.mem_flatMap.2 ⟨b, hb, (SS.mem_intRange _ _ _).2 ⟨h1, by omega⟩⟩)
      rw [List.length_map, List.length_range] at this
      unfold coveredCount
      omega
    rw [if_neg hcov]
    obtain ⟨g, hg⟩ := addAll_isSome bs 0 HG.new (fun b hb => ⟨hle b hb, hspan b hb⟩)
    rw [hg]
    simp only []
    obtain ⟨gi, gs, _, gm⟩ := addAll_spec bs 0 HG.new g HG.HInv_new
      (fun x d hd => by simp [HG.new, BG.new] at hd)
      (fun x _ => ⟨by simp [HG.new, BG.new, HG.inBits], by simp [HG.new, SG.new, HG.inSparse]⟩) hg
    have hsol : Sol (HMem g) (List.range bs.length) a := by
      refine ⟨hs.1, fun i hi => ?_⟩
      obtain ⟨b, hb, _, h1, h2⟩ := hget i (List.mem_range.1 hi)
      have := gm i b (a i) hb h1 h2
      rw [Nat.zero_add] at this
      exact this
    obtain ⟨hok, hsol', hinv'⟩ := HG.propagateAlldiff_sound g _ a gi hsol
    rw [hok]
    simp only [Bool.not_true, Bool.false_eq_true, if_false]
    have hso' := HG.propagateAlldiff_all BSD.Sorted BSD.remove_sorted g (List.range bs.length) gs
    obtain ⟨bs', e, hw⟩ := writeAll_sound _ a hinv' hso' bs 0 (by
      intro k b hk
      have hklt : k < bs.length := by
        rcases Nat.lt_or_ge k bs.length with h | h
        · exact h
        · rw [List.getElem?_eq_none h] at hk; cases hk
      obtain ⟨b', hb', _, h1, h2⟩ := hget k hklt
      rw [hk] at hb'
      cases hb'
      rw [Nat.zero_add]
      exact ⟨hsol'.2 k (List.mem_range.2 hklt), h1, h2⟩)
    refine ⟨bs', e, hs.1, fun i hi => ?_⟩
    have hlen := (writeAll_contracting _ bs bs' 0 e).1
    have hi' : i < bs'.length := by rw [hlen]; exact List.mem_range.1 hi
    have := hw i bs'[i] (List.getElem?_eq_getElem hi')
    rw [Nat.zero_add] at this
    exact ⟨bs'[i], List.getElem?_eq_getElem hi', this⟩

/-- **failure is justified**: `None` only if no assignment of pairwise different values exists -/
theorem alldiff_prune_fail_sound (bs : List (Int × Int)) (hspan : ∀ b ∈ bs, b.2 - b.1 + 1 ≤ i32Max)
    (h : alldiffPrune bs = none) : ¬ ∃ a, Sol (IMem bs) (List.range bs.length) a := by
  rintro ⟨a, hs⟩
  obtain ⟨bs', e, _⟩ := alldiff_prune_sound bs a hspan hs
  rw [h] at e
  cases e

/-- **checking**: when every variable is fixed, success means the values are pairwise different -/
theorem alldiff_prune_checking (bs bs' : List (Int × Int)) (hfix : ∀ b ∈ bs, b.1 = b.2)
    (h : alldiffPrune bs = some bs') : (bs.map (fun b => b.1)).Nodup := by
  unfold alldiffPrune at h
  split at h
  · rename_i h1
    match bs, h1 with
    | [], _ => exact List.nodup_nil
    | [b], _ => simp
    | _ :: _ :: _, h1 => simp at h1
  · split at h
    · cases h
    · split at h
      · cases h
      · rename_i hcov
        apply nodup_of_dedup_length
        rw [List.length_map]
        have e := flatMap_fixed bs hfix
        unfold coveredCount at hcov
        rw [e] at hcov
        omega

/-- non-vacuity: `[1,2] [1,2] [1,3]` has a solution and is pruned to `[1,2] [1,2] [3,3]` -/
example : alldiffPrune [(1, 2), (1, 2), (1, 3)] = some [(1, 2), (1, 2), (3, 3)] := by decide

example : Sol (IMem [(1, 2), (1, 2), (1, 3)]) (List.range 3) (fun x => (x : Int) + 1) := by
  refine ⟨by decide, ?_⟩
  intro x hx
  have : x < 3 := List.mem_range.1 hx
  match x, this with
  | 0, _ => exact ⟨_, rfl, by decide, by decide⟩
  | 1, _ => exact ⟨_, rfl, by decide, by decide⟩
  | 2, _ => exact ⟨_, rfl, by decide, by decide⟩

end C19
end Gac
end Selen

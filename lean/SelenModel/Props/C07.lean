import SelenModel.Lemmas.FloatLin
/-
C07 — "If a model over float or mixed variables has an assignment that satisfies every inequality
with a margin well above the float step (and every equality exactly at a representable point), and
no limit is hit, solve does not return a no-solution error."

This file: the PROPAGATION half of C07 for the float bound arms and the float linear propagators of
`Model/FloatCore.lean`, at exact rational arithmetic (`Num Rat`, see `Model/Num.lean`): a witness
point that satisfies the row with the stated margin is never removed and the propagator never
fails, for all rows, stores and histories (`C07_propagation_never_fails`: any sequence of rows).
The true constant (found, then proved):

* `try_set_min m` / `try_set_max m` keep every value at least ONE step inside the bound
  (`C07_trysetmin_keeps_margin`), and every grid point `k·step` (grid from zero) that satisfies
  the bound exactly (`C07_trysetmin_keeps_grid`);
* `FloatLinLe` keeps every point with `Σ cᵢaᵢ + μ ≤ C`, `μ ≥ 0`, where for each variable of the row
  either `|cᵢ|·stepᵢ ≤ μ` or `aᵢ` is a grid point — so `μ = max |cᵢ|·stepᵢ` (NOT `(n+1)·…`)
  suffices, and `μ = 0` suffices for grid-point witnesses (`C07_floatlin_le_sound_margin`);
* `FloatLinEq` keeps every point with `Σ cᵢaᵢ = C` exactly whose float coordinates are grid points
  (`C07_floatlin_eq_sound_exact`), integer variables included.
* Without margin and off the grid the statement is FALSE for the code:
  `C07_floatlin_le_zero_margin_counterexample`.

NOT covered: IEEE rounding (the same definitions at `Float` are bit-exactly the code, suite
`float`; its exact-arithmetic oracle checks the margin statement on the real code with the margin
`4·step·Σ|cᵢ| + 2⁻⁴⁰·magnitude`), the search above propagation, and the other float paths of
`solve` (root LP, optimisation) — those are exercised by the API-level oracle stream `#flapi`.
-/
namespace Selen
namespace C07
open Num

/-! ### bounds -/

/-- **C07 (bounds, minimum).** A value `w` of the interval with `m + step ≤ w` survives
`try_set_min (ValF m)`, which then cannot fail. -/
theorem C07_trysetmin_keeps_margin (c : FCtx Rat) (i : Nat) (iv : FI Rat) (m w : Rat)
    (hv : iv.Valid) (hi : c.st i = .flt iv) (hw : iv.min ≤ w ∧ w ≤ iv.max) (hm : m + iv.step ≤ w) :
    ∃ c' ret iv', c.trySetMin i (.f m) = some (c', ret) ∧ c'.st i = .flt iv' ∧ iv'.min ≤ w ∧ w ≤ iv'.max := by
  have s := FCtx.fltSetMin_spec c i iv m hv
  simp only [FCtx.trySetMin, hi]
  cases hr : c.fltSetMin i iv m with
  | none => rw [hr] at s; exfalso; have := hv.2; grind
  | some r =>
    obtain ⟨c', ret⟩ := r
    rw [hr] at s
    rcases s with ⟨rfl, _, _⟩ | ⟨nm, rfl, _, _, _, _, _, _, _⟩
    · exact ⟨c', ret, iv, rfl, hi, hw.1, hw.2⟩
    · exact ⟨_, ret, { iv with min := nm }, rfl, by simp [updF], by simp; grind, hw.2⟩

/-- **C07 (bounds, maximum).** -/
theorem C07_trysetmax_keeps_margin (c : FCtx Rat) (i : Nat) (iv : FI Rat) (m w : Rat)
    (hv : iv.Valid) (hi : c.st i = .flt iv) (hw : iv.min ≤ w ∧ w ≤ iv.max) (hm : w ≤ m - iv.step) :
    ∃ c' ret iv', c.trySetMax i (.f m) = some (c', ret) ∧ c'.st i = .flt iv' ∧ iv'.min ≤ w ∧ w ≤ iv'.max := by
  have s := FCtx.fltSetMax_spec c i iv m hv
  simp only [FCtx.trySetMax, hi]
  have := hv.2
  cases hr : c.fltSetMax i iv m with
  | none => rw [hr] at s; exfalso; grind
  | some r =>
    obtain ⟨c', ret⟩ := r
    rw [hr] at s
    rcases s with ⟨rfl, _, _⟩ | ⟨rfl, _, _, _⟩ | ⟨nm, rfl, _, _, _, _, _, _, _⟩
    · exact ⟨c', ret, iv, rfl, hi, hw.1, hw.2⟩
    · exfalso; grind
    · exact ⟨_, ret, { iv with max := nm }, rfl, by simp [updF], hw.1, by simp; grind⟩

/-- a grid point `k·step` (grid from zero, as the code rounds) that satisfies the bound exactly
survives `try_set_min`: no margin is needed on the grid -/
theorem C07_trysetmin_keeps_grid (c : FCtx Rat) (i : Nat) (iv : FI Rat) (m : Rat) (k : Int)
    (hv : iv.Valid) (hi : c.st i = .flt iv)
    (hw : iv.min ≤ (k : Rat) * iv.step ∧ (k : Rat) * iv.step ≤ iv.max) (hm : m ≤ (k : Rat) * iv.step) :
    ∃ c' ret iv', c.trySetMin i (.f m) = some (c', ret) ∧ c'.st i = .flt iv' ∧
      iv'.min ≤ (k : Rat) * iv.step ∧ (k : Rat) * iv.step ≤ iv'.max := by
  have s := FCtx.fltSetMin_spec c i iv m hv
  have g := RatL.ceil_grid_le_of_grid m iv.step k hv.2 hm
  simp only [FCtx.trySetMin, hi]
  cases hr : c.fltSetMin i iv m with
  | none => rw [hr] at s; exfalso; have := hv.2; grind
  | some r =>
    obtain ⟨c', ret⟩ := r
    rw [hr] at s
    rcases s with ⟨rfl, _, _⟩ | ⟨nm, rfl, _, _, _, _, _, _, _, hnm⟩
    · exact ⟨c', ret, iv, rfl, hi, hw.1, hw.2⟩
    · exact ⟨_, ret, { iv with min := nm }, rfl, by simp [updF], by simp; grind, hw.2⟩

theorem C07_trysetmax_keeps_grid (c : FCtx Rat) (i : Nat) (iv : FI Rat) (m : Rat) (k : Int)
    (hv : iv.Valid) (hi : c.st i = .flt iv)
    (hw : iv.min ≤ (k : Rat) * iv.step ∧ (k : Rat) * iv.step ≤ iv.max) (hm : (k : Rat) * iv.step ≤ m) :
    ∃ c' ret iv', c.trySetMax i (.f m) = some (c', ret) ∧ c'.st i = .flt iv' ∧
      iv'.min ≤ (k : Rat) * iv.step ∧ (k : Rat) * iv.step ≤ iv'.max := by
  have s := FCtx.fltSetMax_spec c i iv m hv
  have g := RatL.floor_grid_ge_of_grid m iv.step k hv.2 hm
  simp only [FCtx.trySetMax, hi]
  have := hv.2
  cases hr : c.fltSetMax i iv m with
  | none => rw [hr] at s; exfalso; grind
  | some r =>
    obtain ⟨c', ret⟩ := r
    rw [hr] at s
    rcases s with ⟨rfl, _, _⟩ | ⟨rfl, _, _, _⟩ | ⟨nm, rfl, _, _, _, _, _, _, hnm⟩
    · exact ⟨c', ret, iv, rfl, hi, hw.1, hw.2⟩
    · exfalso; grind
    · exact ⟨_, ret, { iv with max := nm }, rfl, by simp [updF], hw.1, by simp; grind⟩

/-! ### linear rows -/

/-- the margin / grid side condition of a `≤` row: for every term either `|c|·step ≤ μ` or the
witness coordinate is a grid point `k·step` -/
def LeSide (cs : List Rat) (xs : List Nat) (a σ : Nat → Rat) (μ : Rat) : Prop :=
  ∀ (k : Nat) (ck : Rat) (xk : Nat), (cs.zip xs)[k]? = some (ck, xk) →
    rabs ck * σ xk ≤ μ ∨ ∃ z : Int, a xk = (z : Rat) * σ xk

/-- every coordinate of the row is a grid point (for an integer variable take `σ x = 1`) -/
def OnGrid (cs : List Rat) (xs : List Nat) (a σ : Nat → Rat) : Prop :=
  ∀ (k : Nat) (ck : Rat) (xk : Nat), (cs.zip xs)[k]? = some (ck, xk) → ∃ z : Int, a xk = (z : Rat) * σ xk

/-- **C07 (FloatLinLe).** `FloatLinLe::prune` never fails on, and never removes, a point `a` of the
store with `Σ cᵢ·aᵢ + μ ≤ C` (`μ ≥ 0`, `|cᵢ|·stepᵢ ≤ μ` or `aᵢ` on the grid). -/
theorem C07_floatlin_le_sound_margin (cs : List Rat) (xs : List Nat) (cst μ : Rat) (a σ : Nat → Rat) (c : FCtx Rat)
    (hm : FMem c.st a σ) (hμ0 : 0 ≤ μ) (hrow : dot a cs xs + μ ≤ cst) (hside : LeSide cs xs a σ μ) :
    ∃ c', FPK.prune (.linLe cs xs cst) c = some c' ∧ FMem c'.st a σ := by
  simp only [FPK.prune]
  exact forIdx_inv (FPK.linLeStep cs xs cst) (fun c => FMem c.st a σ) (cs.zip xs)
    (fun k b c hk hp => linLeStep_keeps cs xs cst μ a σ c hp hμ0 hrow hside k b.1 b.2 hk)
    (cs.zip xs) 0 c (by simp) hm

/-- **C07 (FloatLinEq).** `FloatLinEq::prune` never fails on, and never removes, a point `a` of the
store that satisfies the equality exactly and whose coordinates are grid points. -/
theorem C07_floatlin_eq_sound_exact (cs : List Rat) (xs : List Nat) (cst : Rat) (a σ : Nat → Rat) (c : FCtx Rat)
    (hm : FMem c.st a σ) (hrow : dot a cs xs = cst) (hg : OnGrid cs xs a σ) :
    ∃ c', FPK.prune (.linEq cs xs cst) c = some c' ∧ FMem c'.st a σ := by
  simp only [FPK.prune]
  exact forIdx_inv (FPK.linEqStep false cs xs cst) (fun c => FMem c.st a σ) (cs.zip xs)
    (fun k b c hk hp => linEqStep_keeps false cs xs cst a σ c hp hrow hg k b.1 b.2 hk)
    (cs.zip xs) 0 c (by simp) hm

/-- a row together with the condition under which the witness is protected -/
inductive Protected (a σ : Nat → Rat) : FPK Rat → Prop where
  | le (cs xs cst μ) : 0 ≤ μ → dot a cs xs + μ ≤ cst → LeSide cs xs a σ μ → Protected a σ (.linLe cs xs cst)
  | eq (cs xs cst) : dot a cs xs = cst → OnGrid cs xs a σ → Protected a σ (.linEq cs xs cst)

/-- **C07 (FloatLinLe / FloatLinEq).** A protected row never fails on, and never removes, the witness. -/
theorem C07_floatlin_sound_margin (a σ : Nat → Rat) (k : FPK Rat) (hp : Protected a σ k)
    (c : FCtx Rat) (hm : FMem c.st a σ) : ∃ c', k.prune c = some c' ∧ FMem c'.st a σ := by
  cases hp with
  | le cs xs cst μ h0 hrow hside => exact C07_floatlin_le_sound_margin cs xs cst μ a σ c hm h0 hrow hside
  | eq cs xs cst hrow hg => exact C07_floatlin_eq_sound_exact cs xs cst a σ c hm hrow hg

/-- run a sequence of propagators one after the other -/
def runAll : List (FPK Rat) → FCtx Rat → Option (FCtx Rat)
  | [], c => some c
  | k :: ks, c => match k.prune c with | none => none | some c' => runAll ks c'

/-- **C07 (propagation).** Any sequence (any order, any repetitions = any history) of protected rows
never fails and keeps the witness in the store. -/
theorem C07_propagation_never_fails (a σ : Nat → Rat) (ks : List (FPK Rat)) (hk : ∀ k ∈ ks, Protected a σ k)
    (c : FCtx Rat) (hm : FMem c.st a σ) : ∃ c', runAll ks c = some c' ∧ FMem c'.st a σ := by
  induction ks generalizing c with
  | nil => exact ⟨c, rfl, hm⟩
  | cons k ks ih =>
    obtain ⟨c1, h1, m1⟩ := C07_floatlin_sound_margin a σ k (hk k (by simp)) c hm
    obtain ⟨c2, h2, m2⟩ := ih (fun k hk' => hk k (by simp [hk'])) c1 m1
    exact ⟨c2, by simp [runAll, h1, h2], m2⟩

/-! ### the margin is needed off the grid -/

/-- is `w` inside the interval of variable `i` after the call -/
def keptAfter (r : Option (FCtx Rat)) (i : Nat) (w : Rat) : Bool :=
  match r with
  | some c' => match c'.st i with | .flt iv' => decide (iv'.min ≤ w ∧ w ≤ iv'.max) | .int _ => false
  | none => false

/-- **counterexample** (zero margin, off the grid): `x ∈ [0,1]`, step `1/4`, row `1·x ≤ 3/10`; the
point `x = 3/10` satisfies the row but is removed (new maximum `1/4`). -/
theorem C07_floatlin_le_zero_margin_counterexample :
    keptAfter (FPK.prune (.linLe [1] [0] (3/10)) ({ st := fun _ => .flt { min := 0, max := 1, step := 1/4 } } : FCtx Rat)) 0 (3/10) = false := by
  decide +kernel

/-- … while the grid point `1/4` is kept (non-vacuity of the theorem's conclusion) -/
example :
    keptAfter (FPK.prune (.linLe [1] [0] (3/10)) ({ st := fun _ => .flt { min := 0, max := 1, step := 1/4 } } : FCtx Rat)) 0 (1/4) = true := by
  decide +kernel

/-- hypotheses of `C07_floatlin_le_sound_margin` are satisfiable: `2x − y ≤ 3` at `(1/2, 1/4)`,
steps `1/4`, margin `μ = 1/2 = max |cᵢ|·step` -/
example : ∃ (a σ : Nat → Rat) (c : FCtx Rat), FMem c.st a σ ∧ dot a [2, -1] [0, 1] + 1/2 ≤ 3 ∧ LeSide [2, -1] [0, 1] a σ (1/2) := by
  refine ⟨fun x => if x = 0 then 1/2 else 1/4, fun _ => 1/4,
    { st := fun _ => .flt { min := 0, max := 1, step := 1/4 } }, ?_, ?_, ?_⟩
  · intro x
    show (1/4 : Rat) = 1/4 ∧ (0 : Rat) < 1/4 ∧ (0 : Rat) ≤ (if x = 0 then 1/2 else 1/4) ∧ (if x = 0 then (1/2 : Rat) else 1/4) ≤ 1
    refine ⟨rfl, by decide +kernel, ?_, ?_⟩ <;> split <;> decide +kernel
  · simp only [dot]; decide +kernel
  · intro k ck xk h
    left
    match k, h with
    | 0, h => simp at h; obtain ⟨rfl, rfl⟩ := h; decide +kernel
    | 1, h => simp at h; obtain ⟨rfl, rfl⟩ := h; decide +kernel
    | k + 2, h => simp at h

end C07
end Selen

import SelenModel.Lemmas.FloatLin
import SelenModel.Lemmas.FloatEngine
import SelenModel.Lemmas.FloatTermination
import SelenModel.Lemmas.FloatReif
/-
C07 — "If a model over float or mixed variables has an assignment that satisfies every inequality
with a margin well above the float step (and every equality exactly at a representable point), and
no limit is hit, solve does not return a no-solution error."

This file: the PROPAGATION half of C07 for the float bound arms and the float linear propagators of
`Model/FloatCore.lean`, at exact rational arithmetic (`Num Rat`, see `Model/Num.lean`): a witness
point that satisfies the row with the stated margin is never removed and the propagator never
fails, for all rows, stores and histories (`C07_propagation_never_fails`: any sequence of rows).
The true constant (found, then proved):

* `try_set_min m` / `try_set_max m` keep every value at least ONE step inside the bound
  (`C07_trysetmin_keeps_margin`), and every grid point `k·step` (grid from zero) that satisfies
  the bound exactly (`C07_trysetmin_keeps_grid`);
* `FloatLinLe` keeps every point with `Σ cᵢaᵢ + μ ≤ C`, `μ ≥ 0`, where for each variable of the row
  either `|cᵢ|·stepᵢ ≤ μ` or `aᵢ` is a grid point — so `μ = max |cᵢ|·stepᵢ` (NOT `(n+1)·…`)
  suffices, and `μ = 0` suffices for grid-point witnesses (`C07_floatlin_le_sound_margin`);
* `FloatLinEq` keeps every point with `Σ cᵢaᵢ = C` exactly whose float coordinates are grid points
  (`C07_floatlin_eq_sound_exact`), integer variables included.
* Without margin and off the grid the statement is FALSE for the code:
  `C07_floatlin_le_zero_margin_counterexample`.

* the SEARCH (`Model/FloatEngine.lean`, second half of the file): `C07_solve_not_infeasible` — a
  witness on the step grid that every propagator keeps is never lost by the branching, so the search
  does not answer "no solution" (any fuel, any pop policy); off the grid the branching drops a whole
  open interval (`C07_branching_gap_counterexample`); the bisection does NOT always terminate
  (`C07_bisection_terminates_counterexample`, finding `float-split-half-step-no-progress`), it does
  on grid stores with depth fuel `2·fsize + 1` (`C07_bisection_terminates_partial`); there every
  event strictly shrinks a variable, so each propagation ends within `|agenda| + P·fsize + 1` steps
  and `fsolve` ends in `sol` / `nosol` with budgets computed from the model
  (`C07_solve_terminates_partial`), whence `C07_solve_finds_assignment` (the result IS `sol`).
* which propagators keep a witness (`Keeps`): `FloatLinLe` / `FloatLinEq` (`Protected`),
  `FloatLinNe` under `NeProt` (`keeps_linNe`), `FloatLinLeReif` under `LeReifProt`
  (`keeps_linLeReif`), the branching constraints (`branch_keeps`).

NOT covered: IEEE rounding (the same definitions at `Float` are bit-exactly the code, suite
`float`; its exact-arithmetic oracle checks the margin statement on the real code with the margin
`4·step·Σ|cᵢ| + 2⁻⁴⁰·magnitude`), witness preservation by the reified `=` / `≠` rows (false in
general: `C07_lineq_reif_width_counterexample`), and the other
float paths of `solve` (root LP, optimisation) — those are exercised by the API-level oracle stream
`#flapi`.
-/
namespace Selen
namespace C07
open Num

/-! ### bounds -/

/-- **C07 (bounds, minimum).** A value `w` of the interval with `m + step ≤ w` survives
`try_set_min (ValF m)`, which then cannot fail. -/
theorem C07_trysetmin_keeps_margin (c : FCtx Rat) (i : Nat) (iv : FI Rat) (m w : Rat)
    (hv : iv.Valid) (hi : c.st i = .flt iv) (hw : iv.min ≤ w ∧ w ≤ iv.max) (hm : m + iv.step ≤ w) :
    ∃ c' ret iv', c.trySetMin i (.f m) = some (c', ret) ∧ c'.st i = .flt iv' ∧ iv'.min ≤ w ∧ w ≤ iv'.max := by
  have s := FCtx.fltSetMin_spec c i iv m hv
  simp only [FCtx.trySetMin, hi]
  cases hr : c.fltSetMin i iv m with
  | none => rw [hr] at s; exfalso; have := hv.2; grind
  | some r =>
    obtain ⟨c', ret⟩ := r
    rw [hr] at s
    rcases s with ⟨rfl, _, _⟩ | ⟨nm, rfl, _, _, _, _, _, _, _⟩
    · exact ⟨c', ret, iv, rfl, hi, hw.1, hw.2⟩
    · exact ⟨_, ret, { iv with min := nm }, rfl, by simp [updF], by simp; grind, hw.2⟩

/-- **C07 (bounds, maximum).** -/
theorem C07_trysetmax_keeps_margin (c : FCtx Rat) (i : Nat) (iv : FI Rat) (m w : Rat)
    (hv : iv.Valid) (hi : c.st i = .flt iv) (hw : iv.min ≤ w ∧ w ≤ iv.max) (hm : w ≤ m - iv.step) :
    ∃ c' ret iv', c.trySetMax i (.f m) = some (c', ret) ∧ c'.st i = .flt iv' ∧ iv'.min ≤ w ∧ w ≤ iv'.max := by
  have s := FCtx.fltSetMax_spec c i iv m hv
  simp only [FCtx.trySetMax, hi]
  have := hv.2
  cases hr : c.fltSetMax i iv m with
  | none => rw [hr] at s; exfalso; grind
  | some r =>
    obtain ⟨c', ret⟩ := r
    rw [hr] at s
    rcases s with ⟨rfl, _, _⟩ | ⟨rfl, _, _, _⟩ | ⟨nm, rfl, _, _, _, _, _, _, _⟩
    · exact ⟨c', ret, iv, rfl, hi, hw.1, hw.2⟩
    · exfalso; grind
    · exact ⟨_, ret, { iv with max := nm }, rfl, by simp [updF], hw.1, by simp; grind⟩

/-- a grid point `k·step` (grid from zero, as the code rounds) that satisfies the bound exactly
survives `try_set_min`: no margin is needed on the grid -/
theorem C07_trysetmin_keeps_grid (c : FCtx Rat) (i : Nat) (iv : FI Rat) (m : Rat) (k : Int)
    (hv : iv.Valid) (hi : c.st i = .flt iv)
    (hw : iv.min ≤ (k : Rat) * iv.step ∧ (k : Rat) * iv.step ≤ iv.max) (hm : m ≤ (k : Rat) * iv.step) :
    ∃ c' ret iv', c.trySetMin i (.f m) = some (c', ret) ∧ c'.st i = .flt iv' ∧
      iv'.min ≤ (k : Rat) * iv.step ∧ (k : Rat) * iv.step ≤ iv'.max := by
  have s := FCtx.fltSetMin_spec c i iv m hv
  have g := RatL.ceil_grid_le_of_grid m iv.step k hv.2 hm
  simp only [FCtx.trySetMin, hi]
  cases hr : c.fltSetMin i iv m with
  | none => rw [hr] at s; exfalso; have := hv.2; grind
  | some r =>
    obtain ⟨c', ret⟩ := r
    rw [hr] at s
    rcases s with ⟨rfl, _, _⟩ | ⟨nm, rfl, _, _, _, _, _, _, _, hnm⟩
    · exact ⟨c', ret, iv, rfl, hi, hw.1, hw.2⟩
    · exact ⟨_, ret, { iv with min := nm }, rfl, by simp [updF], by simp; grind, hw.2⟩

theorem C07_trysetmax_keeps_grid (c : FCtx Rat) (i : Nat) (iv : FI Rat) (m : Rat) (k : Int)
    (hv : iv.Valid) (hi : c.st i = .flt iv)
    (hw : iv.min ≤ (k : Rat) * iv.step ∧ (k : Rat) * iv.step ≤ iv.max) (hm : (k : Rat) * iv.step ≤ m) :
    ∃ c' ret iv', c.trySetMax i (.f m) = some (c', ret) ∧ c'.st i = .flt iv' ∧
      iv'.min ≤ (k : Rat) * iv.step ∧ (k : Rat) * iv.step ≤ iv'.max := by
  have s := FCtx.fltSetMax_spec c i iv m hv
  have g := RatL.floor_grid_ge_of_grid m iv.step k hv.2 hm
  simp only [FCtx.trySetMax, hi]
  have := hv.2
  cases hr : c.fltSetMax i iv m with
  | none => rw [hr] at s; exfalso; grind
  | some r =>
    obtain ⟨c', ret⟩ := r
    rw [hr] at s
    rcases s with ⟨rfl, _, _⟩ | ⟨rfl, _, _, _⟩ | ⟨nm, rfl, _, _, _, _, _, _, hnm⟩
    · exact ⟨c', ret, iv, rfl, hi, hw.1, hw.2⟩
    · exfalso; grind
    · exact ⟨_, ret, { iv with max := nm }, rfl, by simp [updF], hw.1, by simp; grind⟩

/-! ### linear rows -/

/-- the margin / grid side condition of a `≤` row: for every term either `|c|·step ≤ μ` or the
witness coordinate is a grid point `k·step` -/
def LeSide (cs : List Rat) (xs : List Nat) (a σ : Nat → Rat) (μ : Rat) : Prop :=
  ∀ (k : Nat) (ck : Rat) (xk : Nat), (cs.zip xs)[k]? = some (ck, xk) →
    rabs ck * σ xk ≤ μ ∨ ∃ z : Int, a xk = (z : Rat) * σ xk

/-- every coordinate of the row is a grid point (for an integer variable take `σ x = 1`) -/
def OnGrid (cs : List Rat) (xs : List Nat) (a σ : Nat → Rat) : Prop :=
  ∀ (k : Nat) (ck : Rat) (xk : Nat), (cs.zip xs)[k]? = some (ck, xk) → ∃ z : Int, a xk = (z : Rat) * σ xk

/-- **C07 (FloatLinLe).** `FloatLinLe::prune` never fails on, and never removes, a point `a` of the
store with `Σ cᵢ·aᵢ + μ ≤ C` (`μ ≥ 0`, `|cᵢ|·stepᵢ ≤ μ` or `aᵢ` on the grid). -/
theorem C07_floatlin_le_sound_margin (cs : List Rat) (xs : List Nat) (cst μ : Rat) (a σ : Nat → Rat) (c : FCtx Rat)
    (hm : FMem c.st a σ) (hμ0 : 0 ≤ μ) (hrow : dot a cs xs + μ ≤ cst) (hside : LeSide cs xs a σ μ) :
    ∃ c', FPK.prune (.linLe cs xs cst) c = some c' ∧ FMem c'.st a σ := by
  simp only [FPK.prune]
  exact forIdx_inv (FPK.linLeStep cs xs cst) (fun c => FMem c.st a σ) (cs.zip xs)
    (fun k b c hk hp => linLeStep_keeps cs xs cst μ a σ c hp hμ0 hrow hside k b.1 b.2 hk)
    (cs.zip xs) 0 c (by simp) hm

/-- **C07 (FloatLinEq).** `FloatLinEq::prune` never fails on, and never removes, a point `a` of the
store that satisfies the equality exactly and whose coordinates are grid points. -/
theorem C07_floatlin_eq_sound_exact (cs : List Rat) (xs : List Nat) (cst : Rat) (a σ : Nat → Rat) (c : FCtx Rat)
    (hm : FMem c.st a σ) (hrow : dot a cs xs = cst) (hg : OnGrid cs xs a σ) :
    ∃ c', FPK.prune (.linEq cs xs cst) c = some c' ∧ FMem c'.st a σ := by
  simp only [FPK.prune]
  exact forIdx_inv (FPK.linEqStep false cs xs cst) (fun c => FMem c.st a σ) (cs.zip xs)
    (fun k b c hk hp => linEqStep_keeps false cs xs cst a σ c hp hrow hg k b.1 b.2 hk)
    (cs.zip xs) 0 c (by simp) hm

/-- a row together with the condition under which the witness is protected -/
inductive Protected (a σ : Nat → Rat) : FPK Rat → Prop where
  | le (cs xs cst μ) : 0 ≤ μ → dot a cs xs + μ ≤ cst → LeSide cs xs a σ μ → Protected a σ (.linLe cs xs cst)
  | eq (cs xs cst) : dot a cs xs = cst → OnGrid cs xs a σ → Protected a σ (.linEq cs xs cst)

/-- **C07 (FloatLinLe / FloatLinEq).** A protected row never fails on, and never removes, the witness. -/
theorem C07_floatlin_sound_margin (a σ : Nat → Rat) (k : FPK Rat) (hp : Protected a σ k)
    (c : FCtx Rat) (hm : FMem c.st a σ) : ∃ c', k.prune c = some c' ∧ FMem c'.st a σ := by
  cases hp with
  | le cs xs cst μ h0 hrow hside => exact C07_floatlin_le_sound_margin cs xs cst μ a σ c hm h0 hrow hside
  | eq cs xs cst hrow hg => exact C07_floatlin_eq_sound_exact cs xs cst a σ c hm hrow hg

/-- run a sequence of propagators one after the other -/
def runAll : List (FPK Rat) → FCtx Rat → Option (FCtx Rat)
  | [], c => some c
  | k :: ks, c => match k.prune c with | none => none | some c' => runAll ks c'

/-- **C07 (propagation).** Any sequence (any order, any repetitions = any history) of protected rows
never fails and keeps the witness in the store. -/
theorem C07_propagation_never_fails (a σ : Nat → Rat) (ks : List (FPK Rat)) (hk : ∀ k ∈ ks, Protected a σ k)
    (c : FCtx Rat) (hm : FMem c.st a σ) : ∃ c', runAll ks c = some c' ∧ FMem c'.st a σ := by
  induction ks generalizing c with
  | nil => exact ⟨c, rfl, hm⟩
  | cons k ks ih =>
    obtain ⟨c1, h1, m1⟩ := C07_floatlin_sound_margin a σ k (hk k (by simp)) c hm
    obtain ⟨c2, h2, m2⟩ := ih (fun k hk' => hk k (by simp [hk'])) c1 m1
    exact ⟨c2, by simp [runAll, h1, h2], m2⟩

/-! ### the margin is needed off the grid -/

/-- is `w` inside the interval of variable `i` after the call -/
def keptAfter (r : Option (FCtx Rat)) (i : Nat) (w : Rat) : Bool :=
  match r with
  | some c' => match c'.st i with | .flt iv' => decide (iv'.min ≤ w ∧ w ≤ iv'.max) | .int _ => false
  | none => false

/-- **counterexample** (zero margin, off the grid): `x ∈ [0,1]`, step `1/4`, row `1·x ≤ 3/10`; the
point `x = 3/10` satisfies the row but is removed (new maximum `1/4`). -/
theorem C07_floatlin_le_zero_margin_counterexample :
    keptAfter (FPK.prune (.linLe [1] [0] (3/10)) ({ st := fun _ => .flt { min := 0, max := 1, step := 1/4 } } : FCtx Rat)) 0 (3/10) = false := by
  decide +kernel

/-- … while the grid point `1/4` is kept (non-vacuity of the theorem's conclusion) -/
example :
    keptAfter (FPK.prune (.linLe [1] [0] (3/10)) ({ st := fun _ => .flt { min := 0, max := 1, step := 1/4 } } : FCtx Rat)) 0 (1/4) = true := by
  decide +kernel

/-- hypotheses of `C07_floatlin_le_sound_margin` are satisfiable: `2x − y ≤ 3` at `(1/2, 1/4)`,
steps `1/4`, margin `μ = 1/2 = max |cᵢ|·step` -/
example : ∃ (a σ : Nat → Rat) (c : FCtx Rat), FMem c.st a σ ∧ dot a [2, -1] [0, 1] + 1/2 ≤ 3 ∧ LeSide [2, -1] [0, 1] a σ (1/2) := by
  refine ⟨fun x => if x = 0 then 1/2 else 1/4, fun _ => 1/4,
    { st := fun _ => .flt { min := 0, max := 1, step := 1/4 } }, ?_, ?_, ?_⟩
  · intro x
    show (1/4 : Rat) = 1/4 ∧ (0 : Rat) < 1/4 ∧ (0 : Rat) ≤ (if x = 0 then 1/2 else 1/4) ∧ (if x = 0 then (1/2 : Rat) else 1/4) ≤ 1
    refine ⟨rfl, by decide +kernel, ?_, ?_⟩ <;> split <;> decide +kernel
  · simp only [dot]; decide +kernel
  · intro k ck xk h
    left
    match k, h with
    | 0, h => simp at h; obtain ⟨rfl, rfl⟩ := h; decide +kernel
    | 1, h => simp at h; obtain ⟨rfl, rfl⟩ := h; decide +kernel
    | k + 2, h => simp at h

/-! ### the search (end to end)

Model: `Model/FloatEngine.lean`.  The branching rule of the code is `pivot <= mid` / `pivot >= mid`
for a float pivot (`Next(ValF mid)` is `mid`): the two branches OVERLAP in `mid`, but
`try_set_max(mid)` rounds the new maximum DOWN and `try_set_min(mid)` rounds the new minimum UP to
the step grid counted from zero, so that when `mid` (= `min + k·step`) is not on that grid the open
interval between the two neighbouring grid points is dropped by both branches.  Witnesses ON the
grid are always kept by one of the two branches (`branch_keeps`); for them no margin at all is
needed (`Protected.le` with `μ = 0`). -/

/-- a protected row keeps the witness -/
theorem keeps_of_protected (κ : Nat → Bool) (a σ : Nat → Rat) (k : FPK Rat) (hp : Protected a σ k) : Keeps κ a σ k :=
  fun c hw => C07_floatlin_sound_margin a σ k hp c hw.1

/-- **C07 (search, end to end).**  Let the witness `a` lie in the declared store (`WitIn`: inside
every float interval, an element of every integer domain), let its float coordinates be grid points
`z·step` (`GridWit`), and let every posted propagator keep it (`Keeps`; for `FloatLinLe` /
`FloatLinEq` rows: `Protected`, i.e. the margin / exactness hypothesis of
`C07_floatlin_sound_margin`, where a grid witness needs NO margin).  Then for every pop policy and
all fuels the search does not answer "no solution": it returns an assignment or runs out of fuel. -/
theorem C07_solve_not_infeasible (n : Nat) (κ : Nat → Bool) (pol : Policy) (pf fuel : Nat)
    (ps : List (FPK Rat)) (st0 : FStore Rat) (a σ : Nat → Rat)
    (hw : WitIn κ a σ st0) (hgrid : GridWit κ a σ) (hk : ∀ k ∈ ps, Keeps κ a σ k) :
    fsolve n pol pf fuel ps st0 ≠ .nosol := by
  simp only [fsolve]
  have := fpropagate_keeps n ps pol (WitIn κ a σ) (fun k hk' c hc => (hk k hk').witIn c hc)
    pf (List.range ps.length) st0 0 hw
  cases hp : fpropagate n ps pol pf (List.range ps.length) st0 0 with
  | fail => rw [hp] at this; exact absurd this id
  | fuel => simp
  | ok st' pc1 =>
    rw [hp] at this
    simp only
    cases hu : ffirstUnassigned n st' with
    | none => simp
    | some q =>
      simp only
      rcases (search_not_nosol n κ a σ hgrid pol pf fuel).1 ps st' pc1 0 hk this with h | h
      · exact h
      · rw [hu] at h; cases h

/-- the same for models of protected rows -/
theorem C07_solve_not_infeasible_rows (n : Nat) (κ : Nat → Bool) (pol : Policy) (pf fuel : Nat)
    (ps : List (FPK Rat)) (st0 : FStore Rat) (a σ : Nat → Rat)
    (hw : WitIn κ a σ st0) (hgrid : GridWit κ a σ) (hk : ∀ k ∈ ps, Protected a σ k) :
    fsolve n pol pf fuel ps st0 ≠ .nosol :=
  C07_solve_not_infeasible n κ pol pf fuel ps st0 a σ hw hgrid (fun k hk' => keeps_of_protected κ a σ k (hk k hk'))

/-- is the float `m` the value `Var::mid` returns -/
def midIsF (v : FVar Rat) (m : Rat) : Bool :=
  match v.mid with
  | some (.f r) => decide (r = m)
  | _ => false

theorem mid_of_midIsF (v : FVar Rat) (m : Rat) (h : midIsF v m = true) : v.mid = some (.f m) := by
  simp only [midIsF] at h
  split at h
  · rename_i r hr; rw [hr, of_decide_eq_true h]
  · cases h

/-- is `w` inside the interval of variable `i` after running the propagator -/
def keptBy (k : FPK Rat) (st : FStore Rat) (i : Nat) (w : Rat) : Bool :=
  keptAfter (k.prune { st := st, ev := [] }) i w

/-- **counterexample** (off the grid the branching loses points): `x ∈ [1/2, 5/2]`, step `1`,
`mid = 3/2`; the point `x = 3/2` itself — inside the bounds, equal to `mid` — is removed by the left
branch (new maximum `1`) AND by the right branch (new minimum `2`). -/
theorem C07_branching_gap_counterexample :
    let st : FStore Rat := fun _ => .flt { min := 1/2, max := 5/2, step := 1 }
    midIsF (st 0) (3/2) = true ∧
    keptBy (branchL 0 (.f (3/2))) st 0 (3/2) = false ∧ keptBy (branchR 0 (.f (3/2))) st 0 (3/2) = false := by
  refine ⟨?_, ?_, ?_⟩ <;> decide +kernel

/-- … while grid points are kept by the branch they belong to (non-vacuity of `branch_keeps`) -/
example :
    let st : FStore Rat := fun _ => .flt { min := 1/2, max := 5/2, step := 1 }
    keptBy (branchL 0 (.f (3/2))) st 0 1 = true ∧ keptBy (branchR 0 (.f (3/2))) st 0 2 = true := by
  refine ⟨?_, ?_⟩ <;> decide +kernel

/-! ### termination of the float bisection

`step_count` does NOT always decrease along a branch: `try_set_max(mid)` is a no-op whenever
`mid ≥ max − step/2`, and for an interval of width exactly `1.5·step` (not "fixed":
`round(1.5) = 2`) the midpoint is `min + step = max − step/2`.  The left branch then returns the
same store, the same split is made again, and so on: the search never ends (finding
`float-split-half-step-no-progress`; on the real code `Model::float(0.05, 0.2)` with precision 1,
or `float(5e-7, 2e-6)` with the default precision, makes `solve()` hang, the timeout is ignored). -/

/-- did the propagator succeed without raising an event -/
def stableAt (k : FPK Rat) (st : FStore Rat) : Bool :=
  match k.prune { st := st, ev := [] } with
  | some c' => c'.ev.isEmpty
  | none => false

theorem fstable_of_stableAt (k : FPK Rat) (st : FStore Rat) (h : stableAt k st = true) : FStable k st := by
  simp only [stableAt] at h
  cases hp : k.prune { st := st, ev := [] } with
  | none => rw [hp] at h; cases h
  | some c' => rw [hp] at h; exact ⟨c', hp, by simpa using h⟩

/-- **counterexample** (the bisection does not terminate): `x ∈ [0, 3/2]`, step `1`.  The variable is
not assigned, `mid = 1`, the left branch `x <= 1` changes nothing; hence for EVERY fuel, with or
without further (stable) propagators, the search ends out of fuel. -/
theorem C07_bisection_terminates_counterexample (pol : Policy) (pf fuel : Nat) (ps : List (FPK Rat)) (pc nc : Nat) :
    let st : FStore Rat := fun _ => .flt { min := 0, max := 3/2, step := 1 }
    fexplore 1 pol pf fuel ps st pc nc = .fuel ∨ fexplore 1 pol pf fuel ps st pc nc = .pfuel := by
  intro st
  exact fexplore_diverges 1 pol pf st 0 (.f 1) (by decide +kernel) (mid_of_midIsF _ _ (by decide +kernel))
    (fstable_of_stableAt _ _ (by decide +kernel)) fuel ps pc nc

/-- … and so does `fsolve` on that model -/
theorem C07_solve_diverges_counterexample (pol : Policy) (pf fuel : Nat) :
    fsolve 1 pol (pf + 1) fuel [] (fun _ => .flt { min := 0, max := 3/2, step := 1 } : FStore Rat) = .fuel ∨
    fsolve 1 pol (pf + 1) fuel [] (fun _ => .flt { min := 0, max := 3/2, step := 1 } : FStore Rat) = .pfuel := by
  have h0 : fpropagate 1 ([] : List (FPK Rat)) pol (pf + 1) (List.range ([] : List (FPK Rat)).length)
      (fun _ => .flt { min := 0, max := 3/2, step := 1 }) 0 = .ok (fun _ => .flt { min := 0, max := 3/2, step := 1 }) 0 := by
    simp [fpropagate, Policy.pick]
  have hu : ffirstUnassigned 1 (fun _ => .flt { min := 0, max := 3/2, step := 1 } : FStore Rat) = some 0 := by decide +kernel
  simp only [fsolve, h0, hu]
  exact C07_bisection_terminates_counterexample pol (pf + 1) fuel [] 0 0

/-- **C07 (termination of the bisection, partial).**  On stores whose float intervals have both
ends on the step grid (`GridK`: `min = k·step`, `max = l·step`; integer domains non-empty and
duplicate-free) and with propagators that keep the grid and only shrink (`GridShrinks`; proved for
`FloatLinLe`, `FloatLinEq`: `gridShrinks_linLe/linEq`, and for the branching constraints), every
branch strictly decreases the number of steps of the pivot (`branch_cuts`), so the depth fuel
`2·fsize n st0 + 1` — `fsize` = Σ over the decision variables of `(max − min)/step` resp. of the
number of values — is never exhausted and `FloatInterval::mid` never hits its assertion.  (A single
propagation may still exhaust its own step budget `pf`: reported as `.pfuel`.) -/
theorem C07_bisection_terminates_partial (n : Nat) (κ : Nat → Bool) (pol : Policy) (pf fuel : Nat)
    (ps : List (FPK Rat)) (st0 : FStore Rat)
    (hsh : ∀ k ∈ ps, GridShrinks κ k) (hg : GridK κ st0) (hfuel : 2 * fsize n st0 + 1 ≤ fuel) :
    fsolve n pol pf fuel ps st0 ≠ .fuel ∧ fsolve n pol pf fuel ps st0 ≠ .panic :=
  fsolve_depth_bound n κ pol pf fuel ps st0 hsh hg hfuel

/-- **C07 (termination, grid models).**  On grid stores (`GridK`), with propagators that keep the
grid, only shrink and shrink strictly on every event (`GridStrict`: proved for ALL `FloatLin*`
propagators — the reified ones need an integer reification variable — and for the branching
constraints: `gridStrict_linLe/linEq/linNe/linEqReif/linLeReif/linNeReif`, `gridStrict_branches`) and
whose variables are decision variables (`TrigBelow`), `fsolve` run with the budgets computed from the
model — depth fuel `2·fsize + 1`, propagation budget `pfNeed P fsize = (P + fsize)·fsize + P + 2` —
answers `sol` or `nosol`: never out of depth, never out of propagation steps, never the `mid`
assertion.  (One propagation: `fpropagate_terminates`, `|agenda| + P·fsize + 1` steps.) -/
theorem C07_solve_terminates_partial (n : Nat) (κ : Nat → Bool) (pol : Policy) (pf fuel : Nat)
    (ps : List (FPK Rat)) (st0 : FStore Rat)
    (hsh : ∀ k ∈ ps, GridStrict κ k) (htr : TrigBelow n ps) (hg : GridK κ st0)
    (hfuel : 2 * fsize n st0 + 1 ≤ fuel) (hpf : pfNeed ps.length (fsize n st0) ≤ pf) :
    fsolve n pol pf fuel ps st0 ≠ .fuel ∧ fsolve n pol pf fuel ps st0 ≠ .pfuel ∧ fsolve n pol pf fuel ps st0 ≠ .panic := by
  have h := fsolve_terminates n κ pol pf fuel ps st0 hsh htr hg hfuel hpf
  exact ⟨h.1.1, h.2, h.1.2⟩

/-- **C07 (end to end, grid models).**  A model on the grid with a grid witness that every
propagator keeps, run with the budgets of `C07_solve_terminates_partial`: the search RETURNS AN
ASSIGNMENT. -/
theorem C07_solve_finds_assignment (n : Nat) (κ : Nat → Bool) (pol : Policy) (pf fuel : Nat)
    (ps : List (FPK Rat)) (st0 : FStore Rat) (a σ : Nat → Rat)
    (hg : GridK κ st0) (hsh : ∀ k ∈ ps, GridStrict κ k) (htr : TrigBelow n ps)
    (hfuel : 2 * fsize n st0 + 1 ≤ fuel) (hpf : pfNeed ps.length (fsize n st0) ≤ pf)
    (hw : WitIn κ a σ st0) (hgrid : GridWit κ a σ) (hk : ∀ k ∈ ps, Keeps κ a σ k) :
    ∃ leaf pc nc, fsolve n pol pf fuel ps st0 = .sol leaf pc nc := by
  have h1 := C07_solve_not_infeasible n κ pol pf fuel ps st0 a σ hw hgrid hk
  have h2 := C07_solve_terminates_partial n κ pol pf fuel ps st0 hsh htr hg hfuel hpf
  cases hr : fsolve n pol pf fuel ps st0 with
  | sol leaf pc nc => exact ⟨leaf, pc, nc, rfl⟩
  | nosol => exact absurd hr h1
  | fuel => exact absurd hr h2.1
  | pfuel => exact absurd hr h2.2.1
  | panic => exact absurd hr h2.2.2

/-- the hypotheses of the two theorems are satisfiable: `x ∈ [0, 2]`, step `1/4` (`k = 0`, `l = 8`,
`fsize = 8`), row `x ≤ 3/4`, witness `x = 1/2` (grid point, no margin needed) -/
example : ∃ (κ : Nat → Bool) (st0 : FStore Rat) (a σ : Nat → Rat),
    GridK κ st0 ∧ GridStrict κ (.linLe [1] [0] (3/4)) ∧ TrigBelow 1 [.linLe [1] [0] (3/4)] ∧ fsize 1 st0 = 8 ∧
    WitIn κ a σ st0 ∧ GridWit κ a σ ∧ Protected a σ (.linLe [1] [0] (3/4)) := by
  refine ⟨fun _ => true, fun _ => .flt { min := 0, max := 2, step := 1/4 }, fun _ => 1/2, fun _ => 1/4, ?_, ?_, ?_, ?_, ?_, ?_, ?_⟩
  · intro x
    exact ⟨rfl, by decide +kernel, 0, 8, by decide, by decide +kernel, by decide +kernel⟩
  · exact gridStrict_linLe _ _ _ _
  · intro k hk i hi
    have : k = .linLe [1] [0] (3/4) := by simpa using hk
    subst this
    have : i = 0 := by simpa [FPK.triggers] using hi
    omega
  · decide +kernel
  · refine ⟨fun x => ⟨rfl, by decide +kernel, (by decide +kernel : (0 : Rat) ≤ 1/2), (by decide +kernel : (1/2 : Rat) ≤ 2)⟩, fun x => rfl⟩
  · intro x _; exact ⟨2, (by decide +kernel : (1/2 : Rat) = ((2 : Int) : Rat) * (1/4))⟩
  · refine Protected.le [1] [0] (3/4) 0 (by decide +kernel) (by simp only [dot]; decide +kernel) ?_
    intro k ck xk _
    exact Or.inr ⟨2, (by decide +kernel : (1/2 : Rat) = ((2 : Int) : Rat) * (1/4))⟩

/-- … and on that model the search does return an assignment (`x = 0`) with exactly those budgets:
depth fuel `2·8 + 1 = 17`, propagation budget `pfNeed 1 8 = 75` -/
example : (match fsolve 1 Policy.fifo 75 17 [FPK.linLe ([1] : List Rat) [0] (3/4)]
      (fun _ => .flt { min := 0, max := 2, step := 1/4 } : FStore Rat) with
    | .sol leaf _ _ => decide ((FPK.boundsF leaf 0).1 = 0)
    | _ => false) = true := by
  decide +kernel

/-! ### the other float propagators

`C07_solve_not_infeasible` takes `Keeps` for every posted propagator.  Besides `Protected` rows:
`keeps_linNe` (`FloatLinNe`, hypothesis `NeProt`: coefficients `0` or `≥ 1e-12`,
`|Σcᵢaᵢ − C| ≥ |cₖ|·(1e-4 + stepₖ) + 1e-12·(1 + Σ|cᵢ|)` — the `1e-4` is the amount by which
`exclude_value` moves a bound), `keeps_linLeReif` (`FloatLinLeReif`, hypothesis `LeReifProt`).
The reified `=` / `≠` rows do NOT keep every consistent witness: -/

/-- the integer domain of variable `i` after the call (`none` = failure / not an integer variable) -/
def intDomAfter (r : Option (FCtx Rat)) (i : Nat) : Option (List Int) :=
  match r with
  | some c' => match c'.st i with | .int d => some d | .flt _ => none
  | none => none

/-- **counterexample** (`FloatLinEqReif` contradicts an equality that holds exactly): `x ∈ [0, 5e-13]`
with step `1e-13` (five steps wide, yet "fixed" for `compute_fixed_sum_float`, whose test is
`|min − max| < 1e-12` whatever the step), `b ∈ {0,1}`, row `b ⇔ 10·x = 5e-12`.  The point
`x = 5e-13, b = 1` satisfies the reification exactly, but the fixed sum is taken at the MINIMUM
(`10·0`), differs from `C` by `5e-12 ≥ 1e-12`, and `b` is set to `0`.  (Unreachable through
`Model`, whose steps are `≥ 1e-12`; reproduced on the real propagator with `fl.prune lineqr`.) -/
theorem C07_lineq_reif_width_counterexample :
    intDomAfter (FPK.prune (.linEqReif [10] [0] (1/200000000000) 1)
      ({ st := fun i => if i = 0 then .flt { min := 0, max := 1/2000000000000, step := 1/10000000000000 } else .int [0, 1] } : FCtx Rat)) 1
      = some [0] := by
  decide +kernel

/-- `NeProt` is satisfiable: `x ≠ 0` at `x = 1`, step `1/4` -/
example : NeProt (fun _ => 1) (fun _ => 1/4) [1] [0] 0 := by
  refine ⟨?_, fun _ => by decide +kernel, by simp only [sumAbs, dot]; decide +kernel, ?_⟩
  · intro k ck xk h
    match k, h with
    | 0, h => simp at h; obtain ⟨rfl, rfl⟩ := h; right; decide +kernel
    | k + 1, h => simp at h
  · intro k ck xk h
    match k, h with
    | 0, h => simp at h; obtain ⟨rfl, rfl⟩ := h; simp only [sumAbs, dot]; decide +kernel
    | k + 1, h => simp at h

/-- `LeReifProt` is satisfiable (violated row, `b = 0`): `b ⇔ x ≤ 0` at `x = 1` -/
example : LeReifProt (fun i => decide (i = 0)) (fun i => if i = 0 then 1 else 0) (fun _ => 1/4) [1] [0] 0 1 := by
  refine LeReifProt.fails (by decide) (by decide +kernel) ?_
  simp only [sumAbs, dot]; decide +kernel

end C07
end Selen

import SelenModel.Lemmas.Search
/-
C14 — Solution set independent of posting, declaration and propagation order.

  "Permuting the order in which constraints are posted, the order in which variables are declared,
   or the order in which pending propagators are run, and adding constraints that are implied by
   the existing ones, never changes the set of solutions (up to renaming), the satisfiability
   verdict, or the optimal objective value. This also holds for models too large for exhaustive
   comparison."
-/
namespace Selen
namespace C14

/-- **C14 (propagation order).** Any two pop policies yield permutations of the same list of
assignments — for models of any size. -/
theorem C14_schedule_independent (m : IModel) (h : m.WF) (pol1 pol2 : Policy) (f1 f2 : Nat)
    (h1 : (search m.n none pol1 f1 m.ps m.store).outOfFuel = false)
    (h2 : (search m.n none pol2 f2 m.ps m.store).outOfFuel = false) :
    (search m.n none pol1 f1 m.ps m.store).solutions.Perm (search m.n none pol2 f2 m.ps m.store).solutions := by
  have hno : ∀ o, (none : Option IView) = some o → o.WF := fun _ e => by cases e
  rw [List.perm_ext_iff_of_nodup (m.search_nodup' h none hno pol1 f1) (m.search_nodup' h none hno pol2 f2)]
  intro v
  constructor
  · intro hv
    obtain ⟨a, rfl, ha⟩ := m.search_sound h none hno pol1 f1 v hv
    exact m.search_complete_enum h pol2 f2 a ha h2
  · intro hv
    obtain ⟨a, rfl, ha⟩ := m.search_sound h none hno pol2 f2 v hv
    exact m.search_complete_enum h pol1 f1 a ha h1

/-- **C14 (posting order, implied constraints).** Two well-formed models over the same declared
domains whose propagator lists have the same satisfying assignments — in particular a permutation
of the posted constraints, or the same list extended by implied constraints — yield permutations
of the same list, under any schedules. -/
theorem C14_same_meaning_same_solutions (m1 m2 : IModel) (h1 : m1.WF) (h2 : m2.WF)
    (hd : m1.doms = m2.doms) (hsem : ∀ a, m1.IsSol a ↔ m2.IsSol a)
    (pol1 pol2 : Policy) (f1 f2 : Nat)
    (e1 : (search m1.n none pol1 f1 m1.ps m1.store).outOfFuel = false)
    (e2 : (search m2.n none pol2 f2 m2.ps m2.store).outOfFuel = false) :
    (search m1.n none pol1 f1 m1.ps m1.store).solutions.Perm (search m2.n none pol2 f2 m2.ps m2.store).solutions := by
  have hno : ∀ o, (none : Option IView) = some o → o.WF := fun _ e => by cases e
  have hn : m1.n = m2.n := by unfold IModel.n; rw [hd]
  rw [List.perm_ext_iff_of_nodup (m1.search_nodup' h1 none hno pol1 f1) (m2.search_nodup' h2 none hno pol2 f2)]
  intro v
  constructor
  · intro hv
    obtain ⟨a, rfl, ha⟩ := m1.search_sound h1 none hno pol1 f1 v hv
    rw [hn]; exact m2.search_complete_enum h2 pol2 f2 a ((hsem a).1 ha) e2
  · intro hv
    obtain ⟨a, rfl, ha⟩ := m2.search_sound h2 none hno pol2 f2 v hv
    rw [← hn]; exact m1.search_complete_enum h1 pol1 f1 a ((hsem a).2 ha) e1

/-- permuting the posted propagators does not change the meaning -/
theorem C14_perm_meaning (doms : List Dom) (ps ps' : List PK) (hp : ps.Perm ps') (a : Asg) :
    IModel.IsSol { doms := doms, ps := ps } a ↔ IModel.IsSol { doms := doms, ps := ps' } a := by
  unfold IModel.IsSol
  constructor
  · intro ⟨h1, h2⟩; exact ⟨h1, fun k hk => h2 k (hp.mem_iff.2 hk)⟩
  · intro ⟨h1, h2⟩; exact ⟨h1, fun k hk => h2 k (hp.mem_iff.1 hk)⟩

/-- **C14 (optimum).** The optimal objective value does not depend on the schedule. -/
theorem C14_optimum_schedule_independent (m : IModel) (h : m.WF) (o : IView) (ho : o.WF)
    (hon : ∀ i, o.underlying = some i → i < m.n) (pol1 pol2 : Policy) (f1 f2 : Nat)
    (e1 : (search m.n (some o) pol1 f1 m.ps m.store).outOfFuel = false)
    (e2 : (search m.n (some o) pol2 f2 m.ps m.store).outOfFuel = false) :
    ((search m.n (some o) pol1 f1 m.ps m.store).solutions.getLast?.map (evalL o)) =
    ((search m.n (some o) pol2 f2 m.ps m.store).solutions.getLast?.map (evalL o)) := by
  have hobj : ∀ o', some o = some o' → o'.WF := fun o' e => by cases e; exact ho
  have a1 := (m.search_optimal h o ho hon pol1 f1 e1).2
  have a2 := (m.search_optimal h o ho hon pol2 f2 e2).2
  cases l1 : (search m.n (some o) pol1 f1 m.ps m.store).solutions.getLast? with
  | none =>
    rw [l1] at a1
    cases l2 : (search m.n (some o) pol2 f2 m.ps m.store).solutions.getLast? with
    | none => rfl
    | some v2 =>
      exfalso
      obtain ⟨a, _, ha⟩ := m.search_sound h (some o) hobj pol2 f2 v2 (List.mem_of_getLast? l2)
      exact a1 a ha
  | some v1 =>
    rw [l1] at a1
    obtain ⟨b1, rfl, hb1⟩ := m.search_sound h (some o) hobj pol1 f1 v1 (List.mem_of_getLast? l1)
    cases l2 : (search m.n (some o) pol2 f2 m.ps m.store).solutions.getLast? with
    | none => rw [l2] at a2; exact (a2 b1 hb1).elim
    | some v2 =>
      rw [l2] at a2
      obtain ⟨b2, rfl, hb2⟩ := m.search_sound h (some o) hobj pol2 f2 v2 (List.mem_of_getLast? l2)
      have x1 := a1 b2 hb2
      have x2 := a2 b1 hb1
      rw [IModel.evalL_proj _ _ _ hon] at x1 x2
      simp only [Option.map_some, Option.some.injEq]
      rw [IModel.evalL_proj _ _ _ hon, IModel.evalL_proj _ _ _ hon]
      omega

end C14
end Selen

def hello := "world"

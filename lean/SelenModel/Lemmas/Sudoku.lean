import SelenModel.Model.Sudoku
/-
Specification vocabulary and helper lemmas for the Sudoku model (property C18).
The property theorems themselves are in Props/C18.lean.
-/
namespace Selen
namespace Sudoku

/-! ### specification -/

/-- every cell holds a digit `1..9` -/
def Complete (s : Grid) : Prop := ∀ r c, r < 9 → c < 9 → 1 ≤ s r c ∧ s r c ≤ 9

/-- two cells share a row, a column or a 3×3 box -/
def SameUnit (r1 c1 r2 c2 : Nat) : Prop := r1 = r2 ∨ c1 = c2 ∨ (r1 / 3 = r2 / 3 ∧ c1 / 3 = c2 / 3)

/-- the 27 all-different constraints, stated on pairs of cells: two different cells of the same
row / column / box hold different values (`allDiff27_iff_units` gives the 27-lists form) -/
def AllDiff27 (s : Grid) : Prop :=
  ∀ r1 c1 r2 c2, r1 < 9 → c1 < 9 → r2 < 9 → c2 < 9 → (r1 ≠ r2 ∨ c1 ≠ c2) →
    SameUnit r1 c1 r2 c2 → s r1 c1 ≠ s r2 c2

/-- a complete valid Sudoku grid -/
def ValidGrid (s : Grid) : Prop := Complete s ∧ AllDiff27 s

/-- `s` agrees with every clue of `g` -/
def Agrees (g s : Grid) : Prop := ∀ r c, r < 9 → c < 9 → g r c ≠ 0 → s r c = g r c

/-- `s` is a valid completion of the clue grid `g` -/
def ValidCompletion (g s : Grid) : Prop := ValidGrid s ∧ Agrees g s

/-- the variable domains `SudokuSolver::new` creates: `{v}` for a clue `v`, `1..9` otherwise -/
def InDomains (g s : Grid) : Prop :=
  ∀ r c, r < 9 → c < 9 → if g r c = 0 then 1 ≤ s r c ∧ s r c ≤ 9 else s r c = g r c

/-- solutions of the constraint set handed to the general solver:
domains ∧ 27 all-different ∧ posted `cell == digit` -/
def SolPosted (g : Grid) (post : List Ev) (s : Grid) : Prop :=
  InDomains g s ∧ AllDiff27 s ∧ ∀ e ∈ post, s e.row e.col = e.digit

/-- all clues are `0` or `1..9` -/
def InRange (g : Grid) : Prop := ∀ r c, r < 9 → c < 9 → g r c = 0 ∨ (1 ≤ g r c ∧ g r c ≤ 9)

/-- the general solver gave a verdict: an assignment, or "unsatisfiable" (`NoSolution`, or
`ConflictingConstraints` from its validation pass) — not a resource limit or another error -/
def GenAnswer.Verdict : GenAnswer → Prop
  | .ok _ => True
  | .noSolution => True
  | .conflicting => True
  | _ => False

/-- the cells of `u` hold pairwise different values -/
def UnitDistinct (s : Grid) (u : List (Nat × Nat)) : Prop :=
  ∀ p ∈ u, ∀ q ∈ u, p ≠ q → s p.1 p.2 ≠ s q.1 q.2

/-! ### basics -/

theorem get_table (f : Cands) : (table f).get = f := by
  funext r c
  simp only [Table.get, table]
  split
  · next h =>
    have h81 : 9 * r + c < 81 := by omega
    have e1 : (9 * r + c) / 9 = r := by omega
    have e2 : c % 9 = c := by omega
    simp [Array.getD, h81, e1, e2]
  · rfl

theorem mem_digits (d : Int) : d ∈ digits ↔ 1 ≤ d ∧ d ≤ 9 := by
  simp only [digits, List.mem_cons, List.not_mem_nil, or_false]
  omega

theorem inRange_iff (g : Grid) : inRange g = true ↔ InRange g := by
  simp only [inRange, List.all_eq_true, List.mem_range, Bool.or_eq_true, Bool.and_eq_true,
    decide_eq_true_eq, beq_iff_eq, InRange]
  constructor <;> intro h r c hr hc <;> exact h r hr c hc

theorem new_eq_some (g : Grid) (h : InRange g) : new g = some (table (initCands g)) := by
  simp [new, (inRange_iff g).2 h]

theorem new_eq_none (g : Grid) (h : ¬ InRange g) : new g = none := by
  have : inRange g = false := by
    cases hb : inRange g
    · rfl
    · exact absurd ((inRange_iff g).1 hb) h
  simp [new, this]

/-- `is_candidate_valid` = "no other cell of the same row / column / box carries the clue `d`" -/
theorem candValid_iff (g : Grid) (r c : Nat) (d : Int) (hr : r < 9) (hc : c < 9) :
    isCandidateValid g r c d = true ↔
      ∀ r' c', r' < 9 → c' < 9 → (r ≠ r' ∨ c ≠ c') → SameUnit r c r' c' → g r' c' ≠ d := by
  simp only [isCandidateValid, List.all_eq_true, List.mem_range, Bool.and_eq_true, Bool.not_eq_true',
    Bool.and_eq_false_iff, Bool.or_eq_false_iff, bne_eq_false_iff_eq, beq_eq_false_iff_ne, ne_eq,
    SameUnit]
  constructor
  · rintro ⟨⟨h1, h2⟩, h3⟩ r' c' hr' hc' hne hsu
    rcases hsu with h | h | ⟨ha, hb⟩
    · subst h
      rcases h1 c' hc' with h | h
      · omega
      · exact h
    · subst h
      rcases h2 r' hr' with h | h
      · omega
      · exact h
    · have e1 : r / 3 * 3 + (r' - r / 3 * 3) = r' := by omega
      have e2 : c / 3 * 3 + (c' - c / 3 * 3) = c' := by omega
      have := h3 (r' - r / 3 * 3) (by omega) (c' - c / 3 * 3) (by omega)
      rw [e1, e2] at this
      rcases this with ⟨h, h'⟩ | h
      · omega
      · exact h
  · intro h
    refine ⟨⟨?_, ?_⟩, ?_⟩
    · intro c' hc'
      by_cases e : c' = c
      · exact Or.inl e
      · exact Or.inr (h r c' hr hc' (Or.inr (Ne.symm e)) (Or.inl rfl))
    · intro r' hr'
      by_cases e : r' = r
      · exact Or.inl e
      · exact Or.inr (h r' c hr' hc (Or.inl (Ne.symm e)) (Or.inr (Or.inl rfl)))
    · intro i hi j hj
      by_cases e : r / 3 * 3 + i = r ∧ c / 3 * 3 + j = c
      · exact Or.inl e
      · refine Or.inr (h _ _ (by omega) (by omega) (by omega) (Or.inr (Or.inr ⟨by omega, by omega⟩)))

/-! ### pigeonhole: nine different digits `1..9` are all of them -/

theorem length_le_filter_ne (a : Int) : ∀ l : List Int, l.Nodup →
    l.length ≤ (l.filter (fun x => x != a)).length + 1
  | [], _ => by simp
  | x :: xs, h => by
    rw [List.nodup_cons] at h
    have ih := length_le_filter_ne a xs h.2
    by_cases e : x = a
    · subst e
      have : xs.filter (fun y => y != x) = xs := by
        rw [List.filter_eq_self]
        intro y hy
        have : y ≠ x := fun e => h.1 (e ▸ hy)
        simpa using this
      simp [this]
    · have : (x != a) = true := by simpa using e
      simp only [List.filter_cons, this, if_true, List.length_cons]
      omega

theorem nodup_bounded_length : ∀ (n : Nat) (l : List Int), l.Nodup →
    (∀ x ∈ l, 1 ≤ x ∧ x ≤ (n : Int)) → l.length ≤ n
  | 0, l, _, hb => by
    cases l with
    | nil => simp
    | cons x xs => have := hb x (List.mem_cons_self ..); omega
  | n + 1, l, hn, hb => by
    have hf : (l.filter (fun x => x != ((n + 1 : Nat) : Int))).Nodup := hn.sublist List.filter_sublist
    have := nodup_bounded_length n _ hf (by
      intro x hx
      rw [List.mem_filter] at hx
      have h1 := hb x hx.1
      have h2 : x ≠ ((n + 1 : Nat) : Int) := by simpa using hx.2
      omega)
    have := length_le_filter_ne ((n + 1 : Nat) : Int) l hn
    omega

/-- a duplicate-free list of nine digits `1..9` contains every digit -/
theorem nine_digits_all (l : List Int) (hn : l.Nodup) (hb : ∀ x ∈ l, 1 ≤ x ∧ x ≤ 9)
    (hl : l.length = 9) (d : Int) (hd : 1 ≤ d ∧ d ≤ 9) : d ∈ l := by
  apply Classical.byContradiction
  intro hnot
  have h1 : (d :: l).Nodup := List.nodup_cons.2 ⟨hnot, hn⟩
  have := nodup_bounded_length 9 (d :: l) h1 (by
    intro x hx
    rcases List.mem_cons.1 hx with e | hx
    · subst e; exact hd
    · exact hb x hx)
  simp [hl] at this

theorem nodup_map_of_inj_on {α β : Type} (f : α → β) : ∀ l : List α, l.Nodup →
    (∀ a ∈ l, ∀ b ∈ l, a ≠ b → f a ≠ f b) → (l.map f).Nodup
  | [], _, _ => by simp
  | x :: xs, hn, hi => by
    rw [List.nodup_cons] at hn
    rw [List.map_cons, List.nodup_cons]
    refine ⟨?_, nodup_map_of_inj_on f xs hn.2 (fun a ha b hb => hi a (List.mem_cons_of_mem _ ha) b (List.mem_cons_of_mem _ hb))⟩
    intro hm
    obtain ⟨y, hy, e⟩ := List.mem_map.1 hm
    have : x ≠ y := fun e' => hn.1 (e' ▸ hy)
    exact hi x (List.mem_cons_self ..) y (List.mem_cons_of_mem _ hy) this e.symm

theorem inj_on_of_nodup_map {α β : Type} (f : α → β) : ∀ l : List α, (l.map f).Nodup →
    ∀ a ∈ l, ∀ b ∈ l, a ≠ b → f a ≠ f b
  | [], _ => by simp
  | x :: xs, hn => by
    rw [List.map_cons, List.nodup_cons] at hn
    intro a ha b hb hab
    rcases List.mem_cons.1 ha with ea | ha' <;> rcases List.mem_cons.1 hb with eb | hb'
    · exact absurd (ea.trans eb.symm) hab
    · subst ea
      intro e
      exact hn.1 (e ▸ List.mem_map_of_mem hb')
    · subst eb
      intro e
      exact hn.1 (e ▸ List.mem_map_of_mem ha')
    · exact inj_on_of_nodup_map f xs hn.2 a ha' b hb' hab

/-- in a unit of nine cells with pairwise different digits `1..9`, every digit occurs -/
theorem unit_surj (s : Grid) (u : List (Nat × Nat)) (hn : u.Nodup) (hl : u.length = 9)
    (hb : ∀ p ∈ u, 1 ≤ s p.1 p.2 ∧ s p.1 p.2 ≤ 9) (hd : UnitDistinct s u)
    (d : Int) (hdig : 1 ≤ d ∧ d ≤ 9) : ∃ p ∈ u, s p.1 p.2 = d := by
  have hm := nine_digits_all (u.map fun p : Nat × Nat => s p.1 p.2)
    (nodup_map_of_inj_on (fun p : Nat × Nat => s p.1 p.2) u hn hd)
    (by intro x hx; obtain ⟨p, hp, e⟩ := List.mem_map.1 hx; subst e; exact hb p hp)
    (by simp [hl]) d hdig
  obtain ⟨p, hp, e⟩ := List.mem_map.1 hm
  exact ⟨p, hp, e⟩

/-! ### the 27 units -/

theorem mem_rowCells (r : Nat) (p : Nat × Nat) : p ∈ rowCells r ↔ p.1 = r ∧ p.2 < 9 := by
  simp only [rowCells, List.mem_map, List.mem_range]
  constructor
  · rintro ⟨c, hc, rfl⟩; exact ⟨rfl, hc⟩
  · rintro ⟨h1, h2⟩; exact ⟨p.2, h2, by rw [← h1]⟩

theorem mem_colCells (c : Nat) (p : Nat × Nat) : p ∈ colCells c ↔ p.2 = c ∧ p.1 < 9 := by
  simp only [colCells, List.mem_map, List.mem_range]
  constructor
  · rintro ⟨r, hr, rfl⟩; exact ⟨rfl, hr⟩
  · rintro ⟨h1, h2⟩; exact ⟨p.1, h2, by rw [← h1]⟩

theorem mem_boxCells (br bc : Nat) (p : Nat × Nat) :
    p ∈ boxCells br bc ↔ p.1 / 3 = br ∧ p.2 / 3 = bc := by
  simp only [boxCells, List.mem_flatMap, List.mem_map, List.mem_range]
  constructor
  · rintro ⟨i, hi, j, hj, rfl⟩; exact ⟨by simp; omega, by simp; omega⟩
  · rintro ⟨h1, h2⟩
    refine ⟨p.1 - br * 3, by omega, p.2 - bc * 3, by omega, ?_⟩
    apply Prod.ext <;> simp <;> omega

/-- what the proofs need to know about a unit -/
structure IsUnit (u : List (Nat × Nat)) : Prop where
  nodup : u.Nodup
  len : u.length = 9
  bound : ∀ p ∈ u, p.1 < 9 ∧ p.2 < 9
  same : ∀ p ∈ u, ∀ q ∈ u, SameUnit p.1 p.2 q.1 q.2

theorem nodup_map_range {α : Type} (f : Nat → α) (n : Nat) (hf : ∀ a b, f a = f b → a = b) :
    ((List.range n).map f).Nodup :=
  nodup_map_of_inj_on f _ List.nodup_range (fun a _ b _ hab e => hab (hf a b e))

theorem isUnit_row (r : Nat) (hr : r < 9) : IsUnit (rowCells r) where
  nodup := nodup_map_range _ 9 (fun a b e => by simpa using e)
  len := by simp [rowCells]
  bound := by intro p hp; rw [mem_rowCells] at hp; omega
  same := by
    intro p hp q hq; rw [mem_rowCells] at hp hq
    exact Or.inl (hp.1.trans hq.1.symm)

theorem isUnit_col (c : Nat) (hc : c < 9) : IsUnit (colCells c) where
  nodup := nodup_map_range _ 9 (fun a b e => by simpa using e)
  len := by simp [colCells]
  bound := by intro p hp; rw [mem_colCells] at hp; omega
  same := by
    intro p hp q hq; rw [mem_colCells] at hp hq
    exact Or.inr (Or.inl (hp.1.trans hq.1.symm))

theorem boxCells_eq (br bc : Nat) : boxCells br bc =
    [(br * 3 + 0, bc * 3 + 0), (br * 3 + 0, bc * 3 + 1), (br * 3 + 0, bc * 3 + 2),
     (br * 3 + 1, bc * 3 + 0), (br * 3 + 1, bc * 3 + 1), (br * 3 + 1, bc * 3 + 2),
     (br * 3 + 2, bc * 3 + 0), (br * 3 + 2, bc * 3 + 1), (br * 3 + 2, bc * 3 + 2)] := by
  rfl

theorem isUnit_box (br bc : Nat) (hbr : br < 3) (hbc : bc < 3) : IsUnit (boxCells br bc) where
  nodup := by
    rw [boxCells_eq]
    simp
  len := by rw [boxCells_eq]; rfl
  bound := by intro p hp; rw [mem_boxCells] at hp; omega
  same := by
    intro p hp q hq; rw [mem_boxCells] at hp hq
    exact Or.inr (Or.inr ⟨hp.1.trans hq.1.symm, hp.2.trans hq.2.symm⟩)

/-- the pairwise form of the 27 all-different constraints = the 27-lists form -/
theorem allDiff27_iff_units (s : Grid) : AllDiff27 s ↔
    (∀ r, r < 9 → UnitDistinct s (rowCells r)) ∧ (∀ c, c < 9 → UnitDistinct s (colCells c)) ∧
    (∀ br, br < 3 → ∀ bc, bc < 3 → UnitDistinct s (boxCells br bc)) := by
  have ne_of {p q : Nat × Nat} (h : p ≠ q) : p.1 ≠ q.1 ∨ p.2 ≠ q.2 := by
    apply Classical.byContradiction
    intro hn
    exact h (Prod.ext (Classical.byContradiction fun e => hn (Or.inl e))
      (Classical.byContradiction fun e => hn (Or.inr e)))
  constructor
  · intro h
    refine ⟨fun r hr p hp q hq hne => ?_, fun c hc p hp q hq hne => ?_,
      fun br hbr bc hbc p hp q hq hne => ?_⟩
    · have U := isUnit_row r hr
      exact h _ _ _ _ (U.bound p hp).1 (U.bound p hp).2 (U.bound q hq).1 (U.bound q hq).2
        (ne_of hne) (U.same p hp q hq)
    · have U := isUnit_col c hc
      exact h _ _ _ _ (U.bound p hp).1 (U.bound p hp).2 (U.bound q hq).1 (U.bound q hq).2
        (ne_of hne) (U.same p hp q hq)
    · have U := isUnit_box br bc hbr hbc
      exact h _ _ _ _ (U.bound p hp).1 (U.bound p hp).2 (U.bound q hq).1 (U.bound q hq).2
        (ne_of hne) (U.same p hp q hq)
  · rintro ⟨hR, hC, hB⟩ r1 c1 r2 c2 hr1 hc1 hr2 hc2 hne hsu
    have hpq : ((r1, c1) : Nat × Nat) ≠ (r2, c2) := by
      intro e
      have e1 : r1 = r2 := congrArg Prod.fst e
      have e2 : c1 = c2 := congrArg Prod.snd e
      omega
    rcases hsu with h | h | ⟨h1, h2⟩
    · exact hR r1 hr1 (r1, c1) ((mem_rowCells ..).2 ⟨rfl, hc1⟩) (r2, c2)
        ((mem_rowCells ..).2 ⟨h.symm, hc2⟩) hpq
    · exact hC c1 hc1 (r1, c1) ((mem_colCells ..).2 ⟨rfl, hr1⟩) (r2, c2)
        ((mem_colCells ..).2 ⟨h.symm, hr2⟩) hpq
    · exact hB (r1 / 3) (by omega) (c1 / 3) (by omega) (r1, c1) ((mem_boxCells ..).2 ⟨rfl, rfl⟩)
        (r2, c2) ((mem_boxCells ..).2 ⟨h1.symm, h2.symm⟩) hpq

/-! ### `verify_solution` -/

theorem noDupSeen_iff : ∀ (vs seen : List Int),
    noDupSeen vs seen = true ↔ vs.Nodup ∧ ∀ v ∈ vs, v ∉ seen
  | [], seen => by simp [noDupSeen]
  | v :: vs, seen => by
    simp only [noDupSeen]
    by_cases h : seen.contains v = true
    · rw [if_pos h]
      have hm : v ∈ seen := by simpa using h
      simp only [Bool.false_eq_true, false_iff, not_and]
      intro _ hall
      exact hall v (List.mem_cons_self ..) hm
    · rw [if_neg h, noDupSeen_iff vs (v :: seen), List.nodup_cons]
      have hm : v ∉ seen := by simpa using h
      constructor
      · rintro ⟨hn, hall⟩
        refine ⟨⟨fun hv => hall v hv (List.mem_cons_self ..), hn⟩, ?_⟩
        intro w hw
        rcases List.mem_cons.1 hw with e | hw'
        · subst e; exact hm
        · exact fun hs => hall w hw' (List.mem_cons_of_mem _ hs)
      · rintro ⟨⟨hv, hn⟩, hall⟩
        refine ⟨hn, ?_⟩
        intro w hw hs
        rcases List.mem_cons.1 hs with e | hs'
        · subst e; exact hv hw
        · exact hall w (List.mem_cons_of_mem _ hw) hs'

theorem unitOk_iff (s : Grid) (u : List (Nat × Nat)) (hn : u.Nodup) :
    unitOk s u = true ↔ UnitDistinct s u := by
  simp only [unitOk, noDupSeen_iff, List.not_mem_nil, not_false_eq_true, implies_true, and_true]
  constructor
  · intro h
    exact inj_on_of_nodup_map (fun p : Nat × Nat => s p.1 p.2) u h
  · intro h
    exact nodup_map_of_inj_on (fun p : Nat × Nat => s p.1 p.2) u hn h

theorem allUnitsOk_iff (s : Grid) : allUnitsOk s = true ↔ AllDiff27 s := by
  rw [allDiff27_iff_units]
  simp only [allUnitsOk, Bool.and_eq_true, List.all_eq_true, List.mem_range]
  constructor
  · rintro ⟨⟨h1, h2⟩, h3⟩
    exact ⟨fun r hr => (unitOk_iff s _ (isUnit_row r hr).nodup).1 (h1 r hr),
      fun c hc => (unitOk_iff s _ (isUnit_col c hc).nodup).1 (h2 c hc),
      fun br hbr bc hbc => (unitOk_iff s _ (isUnit_box br bc hbr hbc).nodup).1 (h3 br hbr bc hbc)⟩
  · rintro ⟨h1, h2, h3⟩
    exact ⟨⟨fun r hr => (unitOk_iff s _ (isUnit_row r hr).nodup).2 (h1 r hr),
      fun c hc => (unitOk_iff s _ (isUnit_col c hc).nodup).2 (h2 c hc)⟩,
      fun br hbr bc hbc => (unitOk_iff s _ (isUnit_box br bc hbr hbc).nodup).2 (h3 br hbr bc hbc)⟩

theorem verifySolution_eq (s : Grid) : verifySolution s =
    (((List.range 9).all fun r => (List.range 9).all fun c =>
      decide (1 ≤ s r c) && decide (s r c ≤ 9)) && allUnitsOk s) := by
  simp only [verifySolution, allUnitsOk, Bool.and_assoc]

theorem verifySolution_iff (s : Grid) : verifySolution s = true ↔ ValidGrid s := by
  rw [verifySolution_eq, Bool.and_eq_true, allUnitsOk_iff]
  simp only [List.all_eq_true, List.mem_range, Bool.and_eq_true, decide_eq_true_eq, ValidGrid, Complete]
  constructor
  · rintro ⟨h, h'⟩; exact ⟨fun r c hr hc => h r hr c hc, h'⟩
  · rintro ⟨h, h'⟩; exact ⟨fun r hr c hc => h r c hr hc, h'⟩

theorem inDomains_iff (g s : Grid) : inDomains g s = true ↔ InDomains g s := by
  simp only [inDomains, List.all_eq_true, List.mem_range, InDomains]
  constructor
  · intro h r c hr hc
    have := h r hr c hc
    split at this <;> rename_i h0
    · rw [if_pos h0]; simpa using this
    · rw [if_neg h0]; simpa using this
  · intro h r hr c hc
    have := h r c hr hc
    split at this <;> rename_i h0
    · rw [if_pos h0]; simpa using this
    · rw [if_neg h0]; simpa using this

theorem solPosted_iff (g : Grid) (post : List Ev) (s : Grid) :
    solPosted g post s = true ↔ SolPosted g post s := by
  simp only [solPosted, Bool.and_eq_true, inDomains_iff, allUnitsOk_iff, List.all_eq_true,
    beq_iff_eq, SolPosted, and_assoc]

theorem agrees_iff (g s : Grid) : agrees g s = true ↔ Agrees g s := by
  simp only [agrees, List.all_eq_true, List.mem_range, Bool.or_eq_true, beq_iff_eq, Agrees]
  constructor
  · intro h r c hr hc hne
    rcases h r hr c hc with h0 | h1
    · exact absurd h0 hne
    · exact h1
  · intro h r hr c hc
    by_cases h0 : g r c = 0
    · exact Or.inl h0
    · exact Or.inr (h r c hr hc h0)

/-! ### soundness of the posted singles -/

theorem pair_ne {p q : Nat × Nat} (h : p ≠ q) : p.1 ≠ q.1 ∨ p.2 ≠ q.2 := by
  apply Classical.byContradiction
  intro hn
  exact h (Prod.ext (Classical.byContradiction fun e => hn (Or.inl e))
    (Classical.byContradiction fun e => hn (Or.inr e)))

theorem unitDistinct_of (s : Grid) (u : List (Nat × Nat)) (hd : AllDiff27 s) (U : IsUnit u) :
    UnitDistinct s u := fun p hp q hq hne =>
  hd _ _ _ _ (U.bound p hp).1 (U.bound p hp).2 (U.bound q hq).1 (U.bound q hq).2 (pair_ne hne)
    (U.same p hp q hq)

theorem initCands_empty (g : Grid) (r c : Nat) (h : g r c = 0) : initCands g r c = clueCands g r c := by
  simp [initCands, h]

/-- the value of a cell in any valid completion is one of the cell's clue-derived candidates -/
theorem value_is_candidate (g s : Grid) (h : ValidCompletion g s) (r c : Nat) (hr : r < 9)
    (hc : c < 9) : s r c ∈ clueCands g r c := by
  obtain ⟨⟨hcomp, hdiff⟩, hag⟩ := h
  rw [clueCands, List.mem_filter, mem_digits, candValid_iff g r c _ hr hc]
  refine ⟨hcomp r c hr hc, ?_⟩
  intro r' c' hr' hc' hne hsu hg
  have h1 := (hcomp r c hr hc).1
  have hs : s r' c' = g r' c' := hag r' c' hr' hc' (by omega)
  exact hdiff r c r' c' hr hc hr' hc' hne hsu (by omega)

theorem mem_nakedSingles (g : Grid) (cs : Cands) (e : Ev) : e ∈ nakedSingles g cs ↔
    ∃ r, r < 9 ∧ ∃ c, c < 9 ∧ g r c = 0 ∧ (cs r c).length = 1 ∧ e = ⟨0, r, c, (cs r c).headD 0⟩ := by
  simp only [nakedSingles, List.mem_flatMap, List.mem_filterMap, List.mem_range]
  constructor
  · rintro ⟨r, hr, c, hc, h⟩
    split at h
    · next hh => exact ⟨r, hr, c, hc, hh.1, hh.2, (Option.some.inj h).symm⟩
    · cases h
  · rintro ⟨r, hr, c, hc, h0, h1, rfl⟩
    exact ⟨r, hr, c, hc, by rw [if_pos ⟨h0, h1⟩]⟩

theorem naked_single_sound_aux (g s : Grid) (h : ValidCompletion g s) (e : Ev)
    (he : e ∈ nakedSingles g (initCands g)) : s e.row e.col = e.digit := by
  obtain ⟨r, hr, c, hc, h0, h1, rfl⟩ := (mem_nakedSingles ..).1 he
  have hv := value_is_candidate g s h r c hr hc
  rw [initCands_empty g r c h0] at h1 ⊢
  show s r c = (clueCands g r c).headD 0
  match hl : clueCands g r c, h1 with
  | [y], _ =>
    rw [hl] at hv
    simpa using hv

theorem mem_hiddenUnit (g : Grid) (cs : Cands) (k : Nat) (u : List (Nat × Nat)) (e : Ev) :
    e ∈ hiddenUnit g cs k u ↔ ∃ d ∈ digits, ∃ p,
      u.filter (fun p => g p.1 p.2 == 0 && (cs p.1 p.2).contains d) = [p] ∧ e = ⟨k, p.1, p.2, d⟩ := by
  simp only [hiddenUnit, List.mem_flatMap]
  constructor
  · rintro ⟨d, hd, h⟩
    split at h
    · next p hf => exact ⟨d, hd, p, hf, by simpa using h⟩
    · cases h
  · rintro ⟨d, hd, p, hf, rfl⟩
    exact ⟨d, hd, by rw [hf]; simp⟩

theorem hidden_unit_sound (g s : Grid) (h : ValidCompletion g s) (k : Nat) (u : List (Nat × Nat))
    (U : IsUnit u) (e : Ev) (he : e ∈ hiddenUnit g (initCands g) k u) : s e.row e.col = e.digit := by
  obtain ⟨d, hd, p, hf, rfl⟩ := (mem_hiddenUnit ..).1 he
  show s p.1 p.2 = d
  have hd' := (mem_digits d).1 hd
  have hcomp := h.1.1
  have hdiff := h.1.2
  have hag := h.2
  have hp : p ∈ u.filter (fun p => g p.1 p.2 == 0 && (initCands g p.1 p.2).contains d) := by
    rw [hf]; simp
  rw [List.mem_filter] at hp
  obtain ⟨hpu, hpF⟩ := hp
  simp only [Bool.and_eq_true, beq_iff_eq, List.contains_iff_mem] at hpF
  obtain ⟨hp0, hpd⟩ := hpF
  obtain ⟨q, hqu, hq⟩ := unit_surj s u U.nodup U.len
    (fun p hp => hcomp _ _ (U.bound p hp).1 (U.bound p hp).2) (unitDistinct_of s u hdiff U) d hd'
  have hqb := U.bound q hqu
  have hpb := U.bound p hpu
  have hq0 : g q.1 q.2 = 0 := by
    apply Classical.byContradiction
    intro hne
    have hs : s q.1 q.2 = g q.1 q.2 := hag _ _ hqb.1 hqb.2 hne
    have hpq : p ≠ q := by
      intro e; rw [e] at hp0; exact hne hp0
    rw [initCands_empty g _ _ hp0, clueCands, List.mem_filter, candValid_iff g _ _ _ hpb.1 hpb.2] at hpd
    exact hpd.2 q.1 q.2 hqb.1 hqb.2 (pair_ne hpq) (U.same p hpu q hqu) (by omega)
  have hqF : q ∈ u.filter (fun p => g p.1 p.2 == 0 && (initCands g p.1 p.2).contains d) := by
    rw [List.mem_filter]
    refine ⟨hqu, ?_⟩
    simp only [Bool.and_eq_true, beq_iff_eq, List.contains_iff_mem]
    refine ⟨hq0, ?_⟩
    rw [initCands_empty g _ _ hq0, ← hq]
    exact value_is_candidate g s h _ _ hqb.1 hqb.2
  rw [hf] at hqF
  have : q = p := by simpa using hqF
  rw [← this]; exact hq

theorem hidden_singles_sound_aux (g s : Grid) (h : ValidCompletion g s) (e : Ev)
    (he : e ∈ hiddenSingles g (initCands g)) : s e.row e.col = e.digit := by
  simp only [hiddenSingles, List.mem_append, List.mem_flatMap, List.mem_range] at he
  rcases he with (⟨r, hr, he⟩ | ⟨c, hc, he⟩) | ⟨br, hbr, bc, hbc, he⟩
  · exact hidden_unit_sound g s h 1 _ (isUnit_row r hr) e he
  · exact hidden_unit_sound g s h 2 _ (isUnit_col c hc) e he
  · exact hidden_unit_sound g s h 3 _ (isUnit_box br bc hbr hbc) e he

/-! ### naked pairs: what survives of it -/

/-- `b` is reachable from `a` by candidate removals in EMPTY cells of `g`: either nothing happened
or `progress` is set; `progress` is never cleared; clue cells are untouched; only kinds ≥ 4 are
logged -/
structure PStep (g : Grid) (a b : PSt) : Prop where
  same_or_prog : b = a ∨ b.prog = true
  mono : a.prog = true → b.prog = true
  clue : ∀ r c, g r c ≠ 0 → b.cs r c = a.cs r c
  kinds : (∀ e ∈ a.log, 4 ≤ e.kind) → ∀ e ∈ b.log, 4 ≤ e.kind

theorem PStep.refl (g : Grid) (a : PSt) : PStep g a a :=
  ⟨Or.inl rfl, id, fun _ _ _ => rfl, id⟩

theorem PStep.trans {g : Grid} {a b c : PSt} (h1 : PStep g a b) (h2 : PStep g b c) : PStep g a c where
  same_or_prog := by
    rcases h2.same_or_prog with e | hp
    · subst e; exact h1.same_or_prog
    · exact Or.inr hp
  mono := fun h => h2.mono (h1.mono h)
  clue := fun r c h => (h2.clue r c h).trans (h1.clue r c h)
  kinds := fun h => h2.kinds (h1.kinds h)

theorem pstep_foldl {α : Type} (g : Grid) (f : PSt → α → PSt) : ∀ (l : List α) (st : PSt),
    (∀ st x, x ∈ l → PStep g st (f st x)) → PStep g st (l.foldl f st)
  | [], st, _ => PStep.refl g st
  | x :: xs, st, h => by
    rw [List.foldl_cons]
    exact (h st x (List.mem_cons_self ..)).trans
      (pstep_foldl g f xs (f st x) (fun st y hy => h st y (List.mem_cons_of_mem _ hy)))

theorem pstep_removeDigit (g : Grid) (kind : Nat) (hk : 4 ≤ kind) (p : Nat × Nat)
    (hp : g p.1 p.2 = 0) (st : PSt) (d : Int) : PStep g st (removeDigit kind p st d) := by
  unfold removeDigit
  split
  · refine ⟨Or.inr rfl, fun _ => rfl, ?_, ?_⟩
    · intro r c hne
      show updC st.cs p.1 p.2 _ r c = st.cs r c
      unfold updC
      rw [if_neg]
      rintro ⟨rfl, rfl⟩
      exact hne hp
    · intro h e he
      rcases List.mem_cons.1 he with rfl | he'
      · exact hk
      · exact h e he'
  · exact PStep.refl g st

theorem pstep_eliminate (g : Grid) (kind : Nat) (hk : 4 ≤ kind) (cells : List (Nat × Nat))
    (hcells : ∀ p ∈ cells, g p.1 p.2 = 0) (p1 p2 : Nat × Nat) (pair : List Int) (st : PSt) :
    PStep g st (eliminate kind cells p1 p2 pair st) := by
  unfold eliminate
  apply pstep_foldl
  intro st p hp
  split
  · exact pstep_foldl g _ pair st (fun st d _ => pstep_removeDigit g kind hk p (hcells p hp) st d)
  · exact PStep.refl g st

theorem pstep_pairInner (g : Grid) (kind : Nat) (hk : 4 ≤ kind) (cells : List (Nat × Nat))
    (hcells : ∀ p ∈ cells, g p.1 p.2 = 0) (p1 : Nat × Nat) (rest : List (Nat × Nat)) (st : PSt) :
    PStep g st (pairInner kind cells p1 rest st) := by
  unfold pairInner
  apply pstep_foldl
  intro st p2 _
  split
  · exact PStep.refl g st
  · split
    · exact pstep_eliminate g kind hk cells hcells p1 p2 _ st
    · exact PStep.refl g st

theorem pstep_pairOuter (g : Grid) (kind : Nat) (hk : 4 ≤ kind) (cells : List (Nat × Nat))
    (hcells : ∀ p ∈ cells, g p.1 p.2 = 0) : ∀ (l : List (Nat × Nat)) (st : PSt),
    PStep g st (pairOuter kind cells l st)
  | [], st => PStep.refl g st
  | p1 :: rest, st => by
    unfold pairOuter
    refine PStep.trans ?_ (pstep_pairOuter g kind hk cells hcells rest _)
    split
    · exact PStep.refl g st
    · exact pstep_pairInner g kind hk cells hcells p1 rest st

theorem pstep_pairsUnit (g : Grid) (kind : Nat) (hk : 4 ≤ kind) (u : List (Nat × Nat)) (st : PSt) :
    PStep g st (pairsUnit g kind u st) := by
  unfold pairsUnit
  apply pstep_pairOuter g kind hk
  intro p hp
  rw [List.mem_filter] at hp
  simpa using hp.2

theorem pstep_foldl' {α : Type} (g : Grid) (f : PSt → α → PSt) (l : List α) (a st : PSt)
    (h0 : PStep g a st) (h : ∀ st x, x ∈ l → PStep g st (f st x)) : PStep g a (l.foldl f st) :=
  h0.trans (pstep_foldl g f l st h)

theorem nakedPairs_step (g : Grid) (cs : Cands) : PStep g ⟨cs, false, []⟩ (nakedPairs g cs) := by
  simp only [nakedPairs]
  refine pstep_foldl' g _ _ _ _ (pstep_foldl' g _ _ _ _ (pstep_foldl' g _ _ _ _ (PStep.refl g _) ?_) ?_) ?_
  · exact fun st r _ => pstep_pairsUnit g 4 (by omega) _ st
  · exact fun st c _ => pstep_pairsUnit g 5 (by omega) _ st
  · exact fun st br _ =>
      pstep_foldl g _ _ _ (fun st bc _ => pstep_pairsUnit g 6 (by omega) _ st)

/-- whatever naked pairs did to the table is gone after `apply_advanced_techniques`:
the table is again the clue-derived one -/
theorem applyAdvanced_cands (g : Grid) : (applyAdvanced g (initCands g)).2.2 = initCands g := by
  have S := nakedPairs_step g (initCands g)
  simp only [applyAdvanced]
  split
  · funext r c
    simp only [updateCandidates, initCands]
    split
    · rfl
    · next h =>
      have := S.clue r c h
      simp only [initCands, if_neg h] at this
      exact this
  · next hprog =>
    have hp : (nakedPairs g (initCands g)).prog = false := by
      cases h : (nakedPairs g (initCands g)).prog
      · rfl
      · simp [h] at hprog
    rcases S.same_or_prog with e | e
    · rw [e]
    · rw [hp] at e; cases e

theorem kinds_nakedSingles (g : Grid) (cs : Cands) : ∀ e ∈ nakedSingles g cs, e.kind = 0 := by
  intro e he
  obtain ⟨r, _, c, _, _, _, rfl⟩ := (mem_nakedSingles ..).1 he
  rfl

theorem kinds_hiddenSingles (g : Grid) (cs : Cands) : ∀ e ∈ hiddenSingles g cs, e.kind ≤ 3 := by
  intro e he
  simp only [hiddenSingles, List.mem_append, List.mem_flatMap, List.mem_range] at he
  rcases he with (⟨r, _, he⟩ | ⟨c, _, he⟩) | ⟨br, _, bc, _, he⟩ <;>
    obtain ⟨d, _, p, _, rfl⟩ := (mem_hiddenUnit ..).1 he <;> simp

/-- the singles one call of `apply_advanced_techniques` posts on the clue-derived table -/
def singles (g : Grid) : List Ev := nakedSingles g (initCands g) ++ hiddenSingles g (initCands g)

theorem posted_applyAdvanced (g : Grid) : posted (applyAdvanced g (initCands g)).2.1 = singles g := by
  have S := nakedPairs_step g (initCands g)
  simp only [applyAdvanced, posted, singles, List.filter_append]
  have h1 : (nakedSingles g (initCands g)).filter (fun e => decide (e.kind ≤ 3)) = nakedSingles g (initCands g) := by
    rw [List.filter_eq_self]
    intro e he
    have := kinds_nakedSingles g _ e he
    simp [this]
  have h2 : (hiddenSingles g (initCands g)).filter (fun e => decide (e.kind ≤ 3)) = hiddenSingles g (initCands g) := by
    rw [List.filter_eq_self]
    intro e he
    have := kinds_hiddenSingles g _ e he
    simpa using this
  have h3 : ((nakedPairs g (initCands g)).log.reverse).filter (fun e => decide (e.kind ≤ 3)) = [] := by
    rw [List.filter_eq_nil_iff]
    intro e he
    have := S.kinds (by intro e he; cases he) e (List.mem_reverse.1 he)
    simp only [decide_eq_true_eq]
    omega
  rw [h1, h2, h3, List.append_nil]

theorem progress_of_singles (g : Grid) (h : singles g ≠ []) : (applyAdvanced g (initCands g)).1 = true := by
  simp only [applyAdvanced, Bool.or_eq_true, Bool.not_eq_true', List.isEmpty_eq_false_iff]
  by_cases h1 : nakedSingles g (initCands g) = []
  · have h2 : hiddenSingles g (initCands g) ≠ [] := fun h2 => h (by simp [singles, h1, h2])
    exact Or.inl (Or.inr h2)
  · exact Or.inl (Or.inl h1)

theorem no_singles_of_no_progress (g : Grid) (h : (applyAdvanced g (initCands g)).1 = false) : singles g = [] := by
  apply Classical.byContradiction
  intro hne
  rw [progress_of_singles g hne] at h
  cases h

/-- the `while` loop of `solve` started on the clue-derived table: the same events are produced
`n + 1` times if the first call made progress, once otherwise; the table never changes -/
theorem loop_spec (g : Grid) : ∀ (n : Nat) (log : List Ev),
    loop g n (table (initCands g)) log =
      (table (initCands g), log ++
        (if (applyAdvanced g (initCands g)).1 then
          (List.replicate (n + 1) (applyAdvanced g (initCands g)).2.1).flatten
         else (applyAdvanced g (initCands g)).2.1))
  | 0, log => by
    simp only [loop, get_table, applyAdvanced_cands]
    split <;> simp
  | n + 1, log => by
    simp only [loop, get_table, applyAdvanced_cands]
    split
    · rw [loop_spec g n]
      simp only [*, if_true, List.replicate_succ, List.flatten_cons, List.append_assoc]
    · rfl

theorem posted_flatten_replicate (l : List Ev) : ∀ n : Nat,
    posted (List.replicate n l).flatten = (List.replicate n (posted l)).flatten
  | 0 => rfl
  | n + 1 => by
    simp only [List.replicate_succ, List.flatten_cons]
    rw [← posted_flatten_replicate l n]
    simp [posted, List.filter_append]

theorem flatten_replicate_nil {α : Type} : ∀ n : Nat, (List.replicate n ([] : List α)).flatten = []
  | 0 => rfl
  | n + 1 => by simp [List.replicate_succ, flatten_replicate_nil n]

theorem solveEvents_spec (g : Grid) (h : InRange g) : solveEvents g =
    some (if (applyAdvanced g (initCands g)).1 then
          (List.replicate 11 (applyAdvanced g (initCands g)).2.1).flatten
         else (applyAdvanced g (initCands g)).2.1) := by
  simp only [solveEvents, new_eq_some g h, loop_spec, List.nil_append]

/-- closed form of the posted constraints: the singles of the clue-derived table, 11 times
(`technique_iterations` runs 0..10); no trace of naked pairs -/
theorem solvePosted_spec (g : Grid) (h : InRange g) :
    solvePosted g = some (List.replicate 11 (singles g)).flatten := by
  simp only [solvePosted, solveEvents_spec g h, Option.map_some]
  congr 1
  split
  · rw [posted_flatten_replicate, posted_applyAdvanced]
  · next hp =>
    have hp' : (applyAdvanced g (initCands g)).1 = false := by simpa using hp
    rw [posted_applyAdvanced, no_singles_of_no_progress g hp', flatten_replicate_nil]

theorem mem_flatten_replicate {α : Type} (l : List α) (x : α) : ∀ n : Nat,
    x ∈ (List.replicate n l).flatten → x ∈ l
  | 0, h => by simp at h
  | n + 1, h => by
    simp only [List.replicate_succ, List.flatten_cons, List.mem_append] at h
    rcases h with h | h
    · exact h
    · exact mem_flatten_replicate l x n h

theorem mem_flatten_replicate_succ {α : Type} (l : List α) (x : α) (n : Nat) (h : x ∈ l) :
    x ∈ (List.replicate (n + 1) l).flatten := by
  simp only [List.replicate_succ, List.flatten_cons, List.mem_append]
  exact Or.inl h

/-! ### the reference search answers `nosol` only if there is no completion -/

theorem getD_setIfInBounds (a : Array Int) (i j : Nat) (d : Int) :
    (a.setIfInBounds i d).getD j 0 = if j = i ∧ i < a.size then d else a.getD j 0 := by
  simp only [Array.getD_eq_getD_getElem?, Array.getElem?_setIfInBounds]
  split <;> split <;> simp_all <;> omega

/-- a completion of `a` whose cell `i` holds `d` is a completion of `a[i := d]` -/
theorem agrees_set (a : Array Int) (i : Nat) (s : Grid) (h : Agrees (Grid.ofArray a) s) :
    Agrees (Grid.ofArray (a.setIfInBounds i (s (i / 9) (i % 9)))) s := by
  intro r c hr hc hne
  simp only [Grid.ofArray, getD_setIfInBounds] at hne ⊢
  split
  · next hi =>
    have e1 : i / 9 = r := by omega
    have e2 : i % 9 = c := by omega
    rw [e1, e2]
  · next hi =>
    rw [if_neg hi] at hne
    exact h r c hr hc hne

theorem foldl_inv {α β : Type} (P : β → Prop) (f : β → α → β) : ∀ (l : List α) (b : β), P b →
    (∀ b x, x ∈ l → P b → P (f b x)) → P (l.foldl f b)
  | [], b, hb, _ => hb
  | x :: xs, b, hb, h => by
    rw [List.foldl_cons]
    exact foldl_inv P f xs _ (h b x (List.mem_cons_self ..) hb)
      (fun b y hy => h b y (List.mem_cons_of_mem _ hy))

theorem pickCell_some (a : Array Int) (i : Nat) (cs : List Int) (h : pickCell a = some (i, cs)) :
    i < 81 ∧ a.getD i 0 = 0 ∧ cs = clueCands (Grid.ofArray a) (i / 9) (i % 9) := by
  have key : ∀ best : Option (Nat × List Int),
      best = pickCell a → ∀ i cs, best = some (i, cs) →
        i < 81 ∧ a.getD i 0 = 0 ∧ cs = clueCands (Grid.ofArray a) (i / 9) (i % 9) := by
    intro best hb
    rw [hb]
    unfold pickCell
    apply foldl_inv (fun best : Option (Nat × List Int) => ∀ i cs, best = some (i, cs) →
        i < 81 ∧ a.getD i 0 = 0 ∧ cs = clueCands (Grid.ofArray a) (i / 9) (i % 9))
    · intro i cs h; cases h
    · intro best j hj ih i cs hb
      rw [List.mem_range] at hj
      split at hb
      · exact ih i cs hb
      · next h0 =>
        have h0' : a.getD j 0 = 0 := by simpa using h0
        split at hb
        · cases hb; exact ⟨hj, h0', rfl⟩
        · dsimp only at hb
          split at hb
          · cases hb; exact ⟨hj, h0', rfl⟩
          · exact ih i cs hb
  exact key _ rfl i cs h

theorem tryAll_nosol (rec : Nat → Array Int → SRes × Nat) (a : Array Int) (i : Nat) :
    ∀ (ds : List Int) (fuel f' : Nat), tryAll rec a i ds fuel = (.nosol, f') →
      ∀ d ∈ ds, ∃ f1 f2, rec f1 (a.setIfInBounds i d) = (.nosol, f2)
  | [], _, _, _ => by intro d hd; cases hd
  | d :: ds, fuel, f', h => by
    unfold tryAll at h
    intro d' hd'
    split at h
    · next f hrec =>
      rcases List.mem_cons.1 hd' with e | hd''
      · subst e; exact ⟨fuel, f, hrec⟩
      · exact tryAll_nosol rec a i ds f f' h d' hd''
    · next hne =>
      exact absurd h (hne f')

theorem dfs_nosol : ∀ (depth fuel : Nat) (a : Array Int) (f' : Nat),
    dfs depth fuel a = (.nosol, f') → ∀ s, ¬ ValidCompletion (Grid.ofArray a) s
  | 0, _, _, _, h => by simp [dfs] at h
  | depth + 1, fuel, a, f', h => by
    intro s hs
    unfold dfs at h
    split at h
    · cases h
    · split at h
      · cases h
      · next i cs hpick =>
        obtain ⟨hi, h0, rfl⟩ := pickCell_some a i cs hpick
        have hr : i / 9 < 9 := by omega
        have hc : i % 9 < 9 := by omega
        have hv := value_is_candidate _ s hs (i / 9) (i % 9) hr hc
        obtain ⟨f1, f2, hrec⟩ := tryAll_nosol _ a i _ _ f' h _ hv
        exact dfs_nosol depth f1 _ f2 hrec s ⟨hs.1, agrees_set a i s hs.2⟩

theorem not_cluesConsistent (g s : Grid) (h : cluesConsistent g = false) : ¬ ValidCompletion g s := by
  intro hs
  have : cluesConsistent g = true := by
    simp only [cluesConsistent, List.all_eq_true, List.mem_range, Bool.or_eq_true, beq_iff_eq,
      Bool.and_eq_true, decide_eq_true_eq]
    intro r hr c hc
    by_cases h0 : g r c = 0
    · exact Or.inl h0
    · have e : s r c = g r c := hs.2 r c hr hc h0
      have hb := hs.1.1 r c hr hc
      have hv := value_is_candidate g s hs r c hr hc
      rw [clueCands, List.mem_filter] at hv
      rw [e] at hb hv
      exact Or.inr ⟨hb, hv.2⟩
  rw [this] at h
  cases h

theorem search_nosol (a : Array Int) (fuel : Nat) (h : search a fuel = .nosol) (s : Grid) :
    ¬ ValidCompletion (Grid.ofArray a) s := by
  unfold search at h
  split at h
  · next hc =>
    have : cluesConsistent (Grid.ofArray a) = false := by simpa using hc
    exact not_cluesConsistent _ s this
  · split at h
    · split at h <;> cases h
    · next hne =>
      exact dfs_nosol 82 fuel a (dfs 82 fuel a).2 (by rw [← h]) s

end Sudoku
end Selen

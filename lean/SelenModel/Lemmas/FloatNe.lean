/-
`FloatLinNe` keeps a witness (exact arithmetic, `Num Rat`): the margin under which
`FloatLinNe::prune` (`prune_float_lin_ne`, `exclude_value`) neither fails on nor removes a point of
the store that satisfies `Σ cᵢ·aᵢ ≠ C`.

The code treats a float variable as fixed when `|min − max| < 1e-12` and then uses its MINIMUM, it
fails when `|fixed_sum − C| < 1e-12`, ignores a last unfixed variable whose coefficient is below
`1e-12`, and `exclude_value` moves a bound that equals the excluded value by `1e-4`.  Hence the
hypothesis `NeProt`: coefficients are `0` or at least `1e-12`, steps are non-negative, and
`|Σ cᵢ·aᵢ − C| ≥ |cₖ|·(1e-4 + stepₖ) + 1e-12·(1 + Σ|cᵢ|)` for every term `k`.
-/
import SelenModel.Lemmas.FloatEngine

namespace Selen
open Num

def eps12 : Rat := 1 / 1000000000000
def eps4 : Rat := 1 / 10000

/-- `Σ |cᵢ|` over the row -/
def sumAbs : List Rat → List Nat → Rat
  | [], _ => 0
  | _, [] => 0
  | c :: cs, _ :: xs => rabs c + sumAbs cs xs

theorem rabs_nonneg (c : Rat) : 0 ≤ rabs c := by
  simp only [rabs]; split <;> grind

theorem sumAbs_nonneg : ∀ (cs : List Rat) (xs : List Nat), 0 ≤ sumAbs cs xs := by
  intro cs
  induction cs with
  | nil => intro xs; simp only [sumAbs]; exact Rat.le_refl
  | cons c cs ih =>
    intro xs
    cases xs with
    | nil => simp only [sumAbs]; exact Rat.le_refl
    | cons x xs =>
      simp only [sumAbs]
      have := ih xs
      have := rabs_nonneg c
      grind

/-- `c·d` for `0 ≤ d ≤ e` lies within `|c|·e` of zero -/
theorem mul_near (c d e : Rat) (h0 : 0 ≤ d) (h1 : d ≤ e) : -(rabs c * e) ≤ c * d ∧ c * d ≤ rabs c * e := by
  simp only [rabs]
  by_cases hc : c < 0
  · simp only [hc, if_true]
    have hc' : 0 ≤ -c := by grind
    have a1 := Rat.mul_le_mul_of_nonneg_left h1 hc'
    have a2 := Rat.mul_nonneg hc' h0
    grind
  · simp only [hc, if_false]
    have hc' : 0 ≤ c := Rat.not_lt.mp hc
    have a1 := Rat.mul_le_mul_of_nonneg_left h1 hc'
    have a2 := Rat.mul_nonneg hc' h0
    grind

/-- a variable the code regards as fixed: its value `l` is within `1e-12` below the witness -/
theorem fixedVal_near (st : FStore Rat) (a σ : Nat → Rat) (hm : FMem st a σ) (x : Nat) (l : Rat)
    (h : FPK.fixedVal st x = some l) : 0 ≤ a x - l ∧ a x - l ≤ eps12 := by
  have hx := hm x
  cases hs : st x with
  | flt iv =>
    rw [hs] at hx
    obtain ⟨_, _, h1, h2⟩ := hx
    simp only [FPK.fixedVal, hs] at h
    num_simp at h
    by_cases hlt : (if iv.min - iv.max < 0 then -(iv.min - iv.max) else iv.min - iv.max) < 1 / 1000000000000
    · simp only [hlt, decide_true, if_true, Option.some.injEq] at h
      subst h
      simp only [eps12]
      split at hlt <;> grind
    · simp only [hlt, decide_false, Bool.false_eq_true, if_false] at h
      cases h
  | int d =>
    rw [hs] at hx
    obtain ⟨z, hz, hza, _, _⟩ := hx
    simp only [FPK.fixedVal, hs] at h
    by_cases heq : ilmin d = ilmax d
    · simp only [heq, if_true, Option.some.injEq] at h
      subst h
      have h1 := ilmin_le d z hz
      have h2 := ilmax_ge d z hz
      have : z = ilmax d := by omega
      subst this
      rw [hza]
      simp only [Num.ofInt, eps12]
      have : (0 : Rat) ≤ 1 / 1000000000000 := by decide +kernel
      constructor <;> grind
    · simp only [heq, if_false] at h
      cases h

/-- what `neScan` returns: the number of unfixed variables seen is at most one and `fixed_sum` is
within `1e-12·Σ|cᵢ|` of the witness's sum over the fixed variables -/
theorem neScan_spec (st : FStore Rat) (a σ : Nat → Rat) (hm : FMem st a σ) :
    ∀ (cs : List Rat) (xs : List Nat) (j : Nat) (o : Option Nat) (acc : Rat) (r : Option Nat × Rat),
      FPK.neScan st j cs xs (o, acc) = some r →
      (r.1 = o ∧ dot a cs xs - sumAbs cs xs * eps12 ≤ r.2 - acc ∧ r.2 - acc ≤ dot a cs xs + sumAbs cs xs * eps12) ∨
      (o = none ∧ ∃ idx ci xi, r.1 = some idx ∧ j ≤ idx ∧ (cs.zip xs)[idx - j]? = some (ci, xi) ∧
        FPK.fixedVal st xi = none ∧
        dot a cs xs - ci * a xi - sumAbs cs xs * eps12 ≤ r.2 - acc ∧
        r.2 - acc ≤ dot a cs xs - ci * a xi + sumAbs cs xs * eps12) := by
  intro cs
  induction cs with
  | nil =>
    intro xs j o acc r h
    simp only [FPK.neScan, Option.some.injEq] at h
    subst h
    left
    simp only [dot, sumAbs]
    refine ⟨by simp, ?_, ?_⟩ <;> grind
  | cons c cs ih =>
    intro xs j o acc r h
    cases xs with
    | nil =>
      simp only [FPK.neScan, Option.some.injEq] at h
      subst h
      left
      simp only [dot, sumAbs]
      refine ⟨by simp, ?_, ?_⟩ <;> grind
    | cons x xs =>
      simp only [FPK.neScan] at h
      have hE := sumAbs_nonneg cs xs
      have hR := rabs_nonneg c
      have he : (0 : Rat) ≤ eps12 := by decide +kernel
      have hRe := Rat.mul_nonneg hR he
      cases hf : FPK.fixedVal st x with
      | some l =>
        rw [hf] at h
        simp only at h
        obtain ⟨d0, d1⟩ := fixedVal_near st a σ hm x l hf
        obtain ⟨m1, m2⟩ := mul_near c (a x - l) eps12 d0 d1
        have hsplit : c * l = c * a x - c * (a x - l) := by grind
        simp only [dot, sumAbs]
        rcases ih xs (j + 1) o (acc + c * l) r h with ⟨h1, h2, h3⟩ | ⟨h0, idx, ci, xi, h1, hj, hz, hfx, h2, h3⟩
        · left
          refine ⟨h1, ?_, ?_⟩ <;> grind
        · right
          refine ⟨h0, idx, ci, xi, h1, by omega, ?_, hfx, ?_, ?_⟩
          · have : idx - j = (idx - (j + 1)) + 1 := by omega
            rw [this]; simpa using hz
          · grind
          · grind
      | none =>
        rw [hf] at h
        simp only at h
        cases o with
        | some _ => simp at h
        | none =>
          simp only at h
          rcases ih xs (j + 1) (some j) acc r h with ⟨h1, h2, h3⟩ | ⟨h0, _⟩
          · right
            refine ⟨rfl, j, c, x, h1, Nat.le_refl _, by simp, hf, ?_, ?_⟩
            · simp only [dot, sumAbs]; grind
            · simp only [dot, sumAbs]; grind
          · cases h0

/-- `exclude_value x t` keeps a witness whose coordinate is at least `1e-4 + step` away from `t`,
on a variable that is not fixed -/
theorem excludeValue_keeps (c : FCtx Rat) (a σ : Nat → Rat) (hm : FMem c.st a σ) (x : Nat) (t : Rat)
    (hσ : 0 ≤ σ x) (hun : FPK.fixedVal c.st x = none) (hfar : eps4 + σ x ≤ rabs (a x - t)) :
    ∃ c', FPK.excludeValue x (.f t) c = some c' ∧ FMem c'.st a σ := by
  have hmx := hm x
  simp only [FPK.excludeValue]
  by_cases h1 : ((FVal.f t).vlt (c.st.vmin x) || (FVal.f t).vgt (c.st.vmax x)) = true
  · rw [if_pos h1]; exact ⟨c, rfl, hm⟩
  rw [if_neg h1]
  have he4 : (0 : Rat) < eps4 := by decide +kernel
  cases hx : c.st x with
  | flt iv =>
    rw [hx] at hmx
    obtain ⟨hstep, hs0, hlo, hhi⟩ := hmx
    simp only [FPK.fixedVal, hx] at hun
    num_simp at hun
    have hwide : ¬ (iv.max - iv.min < 1 / 1000000000000) := by
      intro hlt
      have : (if iv.min - iv.max < 0 then -(iv.min - iv.max) else iv.min - iv.max) < 1 / 1000000000000 := by
        split <;> grind
      simp only [this, decide_true, if_true] at hun
      cases hun
    have hne : iv.min < iv.max := by
      have : (0 : Rat) < 1 / 1000000000000 := by decide +kernel
      grind
    simp only [FStore.vmin, FStore.vmax, hx, FVal.veq, FVal.toF]
    num_simp
    have hb : ¬ iv.max ≤ iv.min := Rat.not_le.mpr hne
    simp only [hb, decide_false, Bool.and_false, Bool.false_and, Bool.false_eq_true, if_false]
    by_cases h3 : (decide (iv.min ≤ t) && decide (t ≤ iv.min)) = true
    · simp only [h3, if_true]
      have ht : iv.min = t := by
        simp only [Bool.and_eq_true, decide_eq_true_eq] at h3; grind
      apply setMin_keeps_flt c a σ hm x iv hx
      simp only [eps4, rabs] at hfar
      split at hfar <;> grind
    · simp only [h3, Bool.false_eq_true, if_false]
      by_cases h4 : (decide (iv.max ≤ t) && decide (t ≤ iv.max)) = true
      · simp only [h4, if_true]
        have ht : iv.max = t := by
          simp only [Bool.and_eq_true, decide_eq_true_eq] at h4; grind
        apply setMax_keeps_flt c a σ hm x iv hx
        simp only [eps4, rabs] at hfar
        split at hfar <;> grind
      · simp only [h4, Bool.false_eq_true, if_false]; exact ⟨c, rfl, hm⟩
  | int d =>
    rw [hx] at hmx
    obtain ⟨z, hz, hza, _, _⟩ := hmx
    simp only [FPK.fixedVal, hx] at hun
    have hne : ilmin d ≠ ilmax d := by
      intro heq; simp only [heq, if_true] at hun; cases hun
    have hzlo := RatL.intCast_le (ilmin_le d z hz)
    have hzhi := RatL.intCast_le (ilmax_ge d z hz)
    simp only [FStore.vmin, FStore.vmax, hx, FVal.veq, FVal.toF]
    num_simp
    simp only [hne, decide_false, Bool.false_and, Bool.false_eq_true, if_false]
    by_cases h3 : (decide ((ilmin d : Rat) ≤ t) && decide (t ≤ (ilmin d : Rat))) = true
    · simp only [h3, if_true]
      have ht : (ilmin d : Rat) = t := by
        simp only [Bool.and_eq_true, decide_eq_true_eq] at h3; grind
      apply setMin_keeps_int c a σ hm x d hx
      simp only [eps4, rabs] at hfar
      split at hfar <;> grind
    · simp only [h3, Bool.false_eq_true, if_false]
      by_cases h4 : (decide ((ilmax d : Rat) ≤ t) && decide (t ≤ (ilmax d : Rat))) = true
      · simp only [h4, if_true]
        have ht : (ilmax d : Rat) = t := by
          simp only [Bool.and_eq_true, decide_eq_true_eq] at h4; grind
        apply setMax_keeps_int c a σ hm x d hx
        simp only [eps4, rabs] at hfar
        split at hfar <;> grind
      · simp only [h4, Bool.false_eq_true, if_false]; exact ⟨c, rfl, hm⟩

/-- the hypothesis under which `FloatLinNe` keeps the witness `a` -/
structure NeProt (a σ : Nat → Rat) (cs : List Rat) (xs : List Nat) (cst : Rat) : Prop where
  /-- coefficients are zero or at least `1e-12` (smaller ones make the code skip the variable) -/
  coef : ∀ (k : Nat) (ck : Rat) (xk : Nat), (cs.zip xs)[k]? = some (ck, xk) → ck = 0 ∨ eps12 ≤ rabs ck
  step : ∀ x, 0 ≤ σ x
  /-- `|Σ cᵢ·aᵢ − C| ≥ 1e-12·(1 + Σ|cᵢ|)` -/
  base : (1 + sumAbs cs xs) * eps12 ≤ rabs (dot a cs xs - cst)
  /-- … and additionally `|cₖ|·(1e-4 + stepₖ)` for every term -/
  margin : ∀ (k : Nat) (ck : Rat) (xk : Nat), (cs.zip xs)[k]? = some (ck, xk) →
    rabs ck * (eps4 + σ xk) + (1 + sumAbs cs xs) * eps12 ≤ rabs (dot a cs xs - cst)

theorem rabs_sub_ge {x y m E : Rat} (hm : m ≤ rabs x) (h1 : x - E ≤ y) (h2 : y ≤ x + E) : m - E ≤ rabs y := by
  simp only [rabs] at *
  split at hm <;> split <;> grind

theorem rabs_mul (x y : Rat) : rabs (x * y) = rabs x * rabs y := by
  simp only [rabs]
  by_cases hx : x < 0 <;> by_cases hy : y < 0
  · have := Rat.mul_pos (show 0 < -x by grind) (show 0 < -y by grind)
    simp only [hx, hy, if_true]; split <;> grind
  · have := Rat.mul_nonneg (show 0 ≤ -x by grind) (Rat.not_lt.mp hy)
    simp only [hx, hy, if_true, if_false]; split <;> grind
  · have := Rat.mul_nonneg (Rat.not_lt.mp hx) (show 0 ≤ -y by grind)
    simp only [hx, hy, if_true, if_false]; split <;> grind
  · have := Rat.mul_nonneg (Rat.not_lt.mp hx) (Rat.not_lt.mp hy)
    simp only [hx, hy, if_false]; split <;> grind

/-- **`FloatLinNe` keeps a protected witness** -/
theorem keeps_linNe (κ : Nat → Bool) (a σ : Nat → Rat) (cs : List Rat) (xs : List Nat) (cst : Rat)
    (hp : NeProt a σ cs xs cst) : Keeps κ a σ (.linNe cs xs cst) := by
  intro c hw
  have hm := hw.1
  have hS := sumAbs_nonneg cs xs
  have he : (0 : Rat) < eps12 := by decide +kernel
  have hSe := Rat.mul_nonneg hS (Rat.le_of_lt he)
  simp only [FPK.prune, FPK.linNePrune]
  cases hsc : FPK.neScan c.st 0 cs xs (none, zero) with
  | none => exact ⟨c, rfl, hm⟩
  | some r =>
    obtain ⟨o', fsum⟩ := r
    have spec := neScan_spec c.st a σ hm cs xs 0 none zero (o', fsum) hsc
    have hz : (zero : Rat) = 0 := by num_simp
    rw [hz] at spec
    simp only at spec
    -- the failing test `|fixed_sum − C| < 1e-12` is never passed when `fixed_sum` is near the full sum
    have nofail : ∀ s : Rat, dot a cs xs - sumAbs cs xs * eps12 ≤ s → s ≤ dot a cs xs + sumAbs cs xs * eps12 →
        ¬ (Num.lt (Num.abs (s - cst)) e12 = true) := by
      intro s h1 h2 hlt
      num_simp at hlt
      have hlt := of_decide_eq_true hlt
      have := rabs_sub_ge (x := dot a cs xs - cst) (y := s - cst) (E := sumAbs cs xs * eps12) hp.base (by grind) (by grind)
      simp only [rabs] at this
      simp only [eps12] at *
      grind
    rcases spec with ⟨h1, h2, h3⟩ | ⟨_, idx, ci, xi, h1, _, hzp, hfx, h2, h3⟩
    · subst h1
      simp only
      have := nofail fsum (by grind) (by grind)
      rw [if_neg this]
      exact ⟨c, rfl, hm⟩
    · subst h1
      simp only [Nat.sub_zero] at hzp
      obtain ⟨hci, hxi⟩ := List.getElem?_zip_eq_some.mp hzp
      simp only [hci, hxi]
      by_cases hsmall : Num.lt (Num.abs ci) e12 = true
      · rw [if_pos hsmall]
        have hc0 : ci = 0 := by
          rcases hp.coef idx ci xi hzp with h | h
          · exact h
          · exfalso
            num_simp at hsmall
            have := of_decide_eq_true hsmall
            simp only [rabs, eps12] at h
            grind
        subst hc0
        have := nofail fsum (by grind) (by grind)
        rw [if_neg this]
        exact ⟨c, rfl, hm⟩
      · rw [if_neg hsmall]
        have hbig : eps12 ≤ rabs ci := by
          rcases hp.coef idx ci xi hzp with h | h
          · subst h; exfalso; apply hsmall; decide +kernel
          · exact h
        have hne : ci ≠ 0 := by
          intro h0; subst h0; simp only [rabs, eps12] at hbig; revert hbig; decide +kernel
        apply excludeValue_keeps c a σ hm xi _ (hp.step xi) hfx
        -- distance of the witness from the excluded value
        have mg := hp.margin idx ci xi hzp
        have key := rabs_sub_ge (x := dot a cs xs - cst) (y := fsum + ci * a xi - cst) (E := sumAbs cs xs * eps12) mg
          (by grind) (by grind)
        -- a xi − t = (fsum + ci·a xi − cst)/ci
        obtain ⟨t, ht⟩ : ∃ t, (cst - fsum) / ci = t := ⟨_, rfl⟩
        have htc : t * ci = cst - fsum := by rw [← ht]; exact Rat.div_mul_cancel hne
        rw [ht]
        have hprod : fsum + ci * a xi - cst = ci * (a xi - t) := by grind
        rw [hprod] at key
        have hw0 : (0 : Rat) ≤ eps4 + σ xi := by
          have : (0 : Rat) < eps4 := by decide +kernel
          have := hp.step xi
          grind
        -- |ci|·(eps4 + σ) ≤ |ci·(a − t)| = |ci|·|a − t|
        have key2 : rabs ci * (eps4 + σ xi) ≤ rabs (ci * (a xi - t)) := by grind
        have hpos : 0 < rabs ci := by
          have := he; grind
        apply Rat.not_lt.mp
        intro hlt
        rw [rabs_mul] at key2
        have := Rat.mul_lt_mul_of_pos_left hlt hpos
        exact absurd key2 (Rat.not_le.mpr this)

end Selen

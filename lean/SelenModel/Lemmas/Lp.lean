import SelenModel.Model.Lp
/-
Lemmas about the LP certificate model (`Model/Lp.lean`): bilinearity of `dot` (missing entries
count as 0, so no length side conditions), `yᵀ(Ax) = (yᵀA)x`, unit vectors, the block structure
of the standard forms.
-/
namespace Selen
namespace Lp

/-! ### `dot` -/

@[simp] theorem dot_nil_left (x : Vec) : dot [] x = 0 := by
  cases x <;> rfl

@[simp] theorem dot_nil_right (a : Vec) : dot a [] = 0 := by
  cases a <;> rfl

@[simp] theorem dot_cons (a b : Rat) (as bs : Vec) : dot (a :: as) (b :: bs) = a * b + dot as bs := rfl

theorem dot_comm (a b : Vec) : dot a b = dot b a := by
  induction a generalizing b with
  | nil => simp
  | cons a as ih =>
    cases b with
    | nil => simp
    | cons b bs => simp only [dot_cons, ih bs]; grind

theorem dot_addv_left (a b x : Vec) : dot (addv a b) x = dot a x + dot b x := by
  induction a generalizing b x with
  | nil => simp [addv] <;> grind
  | cons a as ih =>
    cases b with
    | nil => simp [addv] <;> grind
    | cons b bs =>
      cases x with
      | nil => simp <;> grind
      | cons x xs => simp only [addv, dot_cons, ih bs xs]; grind

theorem dot_addv_right (a x y : Vec) : dot a (addv x y) = dot a x + dot a y := by
  rw [dot_comm, dot_addv_left, dot_comm x, dot_comm y]

theorem dot_smul_left (k : Rat) (a x : Vec) : dot (smul k a) x = k * dot a x := by
  induction a generalizing x with
  | nil => simp [smul]
  | cons a as ih =>
    cases x with
    | nil => simp
    | cons x xs =>
      have := ih xs
      simp only [smul, List.map_cons, dot_cons] at this ⊢
      rw [this]; grind

theorem dot_negv_left (a x : Vec) : dot (negv a) x = - dot a x := by
  induction a generalizing x with
  | nil => simp [negv]
  | cons a as ih =>
    cases x with
    | nil => simp
    | cons x xs =>
      have := ih xs
      simp only [negv, List.map_cons, dot_cons] at this ⊢
      rw [this]; grind

theorem dot_negv_right (a x : Vec) : dot a (negv x) = - dot a x := by
  rw [dot_comm, dot_negv_left, dot_comm]

theorem dot_subv_left (a b x : Vec) : dot (subv a b) x = dot a x - dot b x := by
  rw [subv, dot_addv_left, dot_negv_left]; grind

theorem dot_subv_right (a x y : Vec) : dot a (subv x y) = dot a x - dot a y := by
  rw [subv, dot_addv_right, dot_negv_right]; grind

/-- `(yᵀA) x = yᵀ (A x)` -/
theorem dot_vecMat (y : Vec) (A : Mat) (x : Vec) : dot (vecMat y A) x = dot y (matVec A x) := by
  induction y generalizing A with
  | nil => simp [vecMat]
  | cons y ys ih =>
    cases A with
    | nil => simp [vecMat, matVec]
    | cons r rs =>
      simp only [vecMat, matVec, List.map_cons, dot_cons, dot_addv_left, dot_smul_left]
      have := ih rs
      simp only [matVec] at this
      rw [this]

theorem dot_zeros_left (n : Nat) (x : Vec) : dot (zeros n) x = 0 := by
  induction n generalizing x with
  | zero => simp [zeros]
  | succ n ih =>
    cases x with
    | nil => simp
    | cons x xs =>
      have := ih xs
      simp only [zeros, List.replicate_succ, dot_cons] at this ⊢
      rw [this]; grind

theorem dot_zeros_right (n : Nat) (a : Vec) : dot a (zeros n) = 0 := by
  rw [dot_comm, dot_zeros_left]

/-- `dot (a ++ b) z = dot a z + dot b (z.drop |a|)` -/
theorem dot_append_left (a b z : Vec) : dot (a ++ b) z = dot a z + dot b (z.drop a.length) := by
  induction a generalizing z with
  | nil => simp <;> grind
  | cons a as ih =>
    cases z with
    | nil => simp <;> grind
    | cons z zs => simp only [List.cons_append, dot_cons, List.length_cons, List.drop_succ_cons, ih zs]; grind

/-- only the first `|a|` entries of `z` matter -/
theorem dot_take (a z : Vec) (k : Nat) (h : a.length ≤ k) : dot a (z.take k) = dot a z := by
  induction a generalizing z k with
  | nil => simp
  | cons a as ih =>
    cases z with
    | nil => simp
    | cons z zs =>
      cases k with
      | zero => simp at h
      | succ k =>
        simp only [List.take_succ_cons, dot_cons]
        rw [ih zs k (by simpa using h)]

theorem dot_append_right (a x w : Vec) (h : a.length ≤ x.length) : dot a (x ++ w) = dot a x := by
  have := dot_take a (x ++ w) x.length h
  rw [List.take_left'] at this
  · exact this.symm
  · rfl

theorem dot_unit (n j : Nat) (z : Vec) : dot (unit n j) z = if j < n then z.getD j 0 else 0 := by
  induction n generalizing j z with
  | zero => simp [unit]
  | succ n ih =>
    cases j with
    | zero =>
      cases z with
      | nil => simp [unit]
      | cons z zs =>
        have := dot_zeros_left n zs
        simp only [zeros] at this
        simp only [unit, dot_cons, this]
        simp <;> grind
    | succ j =>
      cases z with
      | nil => simp [unit]
      | cons z zs =>
        simp only [unit, dot_cons, ih j zs, List.getD_cons_succ]
        by_cases h : j < n
        · simp [h] <;> grind
        · simp [h] <;> grind

theorem unit_length (n j : Nat) : (unit n j).length = n := by
  induction n generalizing j with
  | zero => simp [unit]
  | succ n ih =>
    cases j with
    | zero => simp [unit]
    | succ j => simp [unit, ih j]

/-! ### sign lemmas -/

theorem dot_nonpos (r z : Vec) (hr : ∀ v ∈ r, v ≤ 0) (hz : ∀ v ∈ z, 0 ≤ v) : dot r z ≤ 0 := by
  induction r generalizing z with
  | nil => simp <;> exact Rat.le_refl
  | cons r rs ih =>
    cases z with
    | nil => simp <;> exact Rat.le_refl
    | cons z zs =>
      have h1 : r ≤ 0 := hr r (by simp)
      have h2 : 0 ≤ z := hz z (by simp)
      have h3 := ih zs (fun v hv => hr v (by simp [hv])) (fun v hv => hz v (by simp [hv]))
      have h4 : 0 ≤ (-r) * z := Rat.mul_nonneg (by grind) h2
      simp only [dot_cons]
      grind

/-- `rⱼ ≤ t` for all j, `z ≥ 0`  ⇒  `r·z ≤ t · Σ z` -/
theorem dot_le_tol (t : Rat) (r z : Vec) (hr : ∀ v ∈ r, v ≤ t) (hz : ∀ v ∈ z, 0 ≤ v)
    (hl : r.length = z.length) : dot r z ≤ t * sumv z := by
  induction r generalizing z with
  | nil =>
    cases z with
    | nil => simp [sumv] <;> exact Rat.le_refl
    | cons z zs => simp at hl
  | cons r rs ih =>
    cases z with
    | nil => simp at hl
    | cons z zs =>
      have h1 : r ≤ t := hr r (by simp)
      have h2 : 0 ≤ z := hz z (by simp)
      have h3 := ih zs (fun v hv => hr v (by simp [hv])) (fun v hv => hz v (by simp [hv])) (by simpa using hl)
      have h4 : 0 ≤ (t - r) * z := Rat.mul_nonneg (by grind) h2
      simp only [dot_cons, sumv]
      grind

/-! ### the column check of `legalOptimal` -/

theorem checkCols_length (basis : List Nat) (ftol otol : Rat) (j : Nat) (r x : Vec)
    (h : checkCols basis ftol otol j r x = true) : r.length = x.length := by
  induction r generalizing j x with
  | nil => cases x <;> simp_all [checkCols]
  | cons r rs ih =>
    cases x with
    | nil => simp [checkCols] at h
    | cons x xs =>
      simp only [checkCols, Bool.and_eq_true] at h
      simp [ih (j + 1) xs h.2]

/-- complementary slackness: `rⱼ xⱼ = 0` for every column -/
theorem checkCols_slack (basis : List Nat) (ftol otol : Rat) (j : Nat) (r x : Vec)
    (h : checkCols basis ftol otol j r x = true) : dot r x = 0 := by
  induction r generalizing j x with
  | nil => simp
  | cons r rs ih =>
    cases x with
    | nil => simp
    | cons x xs =>
      simp only [checkCols, Bool.and_eq_true] at h
      have h3 := ih (j + 1) xs h.2
      simp only [dot_cons, h3]
      by_cases hb : basis.contains j = true
      · rw [if_pos hb] at h
        have : r = 0 := of_decide_eq_true h.1.1
        subst this; grind
      · rw [if_neg hb] at h
        simp only [Bool.and_eq_true] at h
        have : x = 0 := of_decide_eq_true h.1.1.2
        subst this; grind

theorem checkCols_redcost_le (basis : List Nat) (ftol otol : Rat) (j : Nat) (r x : Vec) (ho : 0 ≤ otol)
    (h : checkCols basis ftol otol j r x = true) : ∀ v ∈ r, v ≤ otol := by
  induction r generalizing j x with
  | nil => simp
  | cons r rs ih =>
    cases x with
    | nil => simp [checkCols] at h
    | cons x xs =>
      simp only [checkCols, Bool.and_eq_true] at h
      have h3 := ih (j + 1) xs h.2
      intro v hv
      rcases List.mem_cons.mp hv with hv | hv
      · subst hv
        by_cases hb : basis.contains j = true
        · rw [if_pos hb] at h
          have : v = 0 := of_decide_eq_true h.1.1
          subst this; exact ho
        · rw [if_neg hb] at h
          simp only [Bool.and_eq_true] at h
          exact of_decide_eq_true h.1.1.1
      · exact h3 v hv

theorem checkCols_x_ge (basis : List Nat) (ftol otol : Rat) (j : Nat) (r x : Vec)
    (h : checkCols basis ftol otol j r x = true) : ∀ v ∈ x, -ftol ≤ v := by
  induction r generalizing j x with
  | nil => cases x <;> simp_all [checkCols]
  | cons r rs ih =>
    cases x with
    | nil => simp [checkCols] at h
    | cons x xs =>
      simp only [checkCols, Bool.and_eq_true] at h
      have h3 := ih (j + 1) xs h.2
      intro v hv
      rcases List.mem_cons.mp hv with hv | hv
      · subst hv; exact of_decide_eq_true h.1.2
      · exact h3 v hv

theorem allGe_iff (tol : Rat) (x : Vec) : allGe tol x = true ↔ ∀ v ∈ x, -tol ≤ v := by
  simp [allGe, List.all_eq_true]

theorem stdFeasible_iff (S : Std) (z : Vec) :
    stdFeasible S z = true ↔ z.length = S.c.length ∧ (∀ v ∈ z, 0 ≤ v) ∧ matVec S.a z = S.b := by
  simp only [stdFeasible, Bool.and_eq_true, decide_eq_true_eq, allGe_iff]
  constructor
  · rintro ⟨⟨h1, h2⟩, h3⟩
    exact ⟨h1, fun v hv => by have := h2 v hv; grind, h3⟩
  · rintro ⟨h1, h2, h3⟩
    exact ⟨⟨h1, fun v hv => by have := h2 v hv; grind⟩, h3⟩

/-- weak duality for the standard form: a dual vector with non-positive reduced costs bounds the
objective of every feasible point by `y·b` -/
theorem weak_duality (S : Std) (y z : Vec) (hy : ∀ v ∈ redCosts S y, v ≤ 0)
    (hz : stdFeasible S z = true) : dot S.c z ≤ dot y S.b := by
  obtain ⟨_, hz0, hzb⟩ := (stdFeasible_iff S z).mp hz
  have h1 : dot (redCosts S y) z = dot S.c z - dot (vecMat y S.a) z := dot_subv_left _ _ _
  have h2 := dot_vecMat y S.a z
  rw [hzb] at h2
  have h3 := dot_nonpos (redCosts S y) z hy hz0
  grind

/-- a legal terminal state: objective `c·x = y·b` (strong duality at the certificate) -/
theorem legal_objective (S : Std) (ftol otol : Rat) (basis : List Nat) (x y : Vec)
    (h : legalOptimal S ftol otol basis x y = true) : dot S.c x = dot y S.b := by
  simp only [legalOptimal, Bool.and_eq_true, decide_eq_true_eq] at h
  obtain ⟨⟨⟨⟨_, _⟩, _⟩, hxb⟩, hc⟩ := h
  have h0 := checkCols_slack _ _ _ _ _ _ hc
  have h1 : dot (redCosts S y) x = dot S.c x - dot (vecMat y S.a) x := dot_subv_left _ _ _
  have h2 := dot_vecMat y S.a x
  rw [hxb] at h2
  grind

/-! ### structure of the standard form -/

theorem getD_nonneg (w : Vec) (i : Nat) (h : ∀ v ∈ w, (0 : Rat) ≤ v) : 0 ≤ w.getD i 0 := by
  induction w generalizing i with
  | nil => simp
  | cons a as ih =>
    cases i with
    | zero => simpa using h a (by simp)
    | succ i => simpa using ih i (fun v hv => h v (by simp [hv]))

theorem getD_append_at (pre : Vec) (v : Rat) (rest : Vec) (i : Nat) (h : pre.length = i) :
    (pre ++ v :: rest).getD i 0 = v := by
  subst h
  induction pre with
  | nil => simp
  | cons a as ih => simp

theorem negv_length (a : Vec) : (negv a).length = a.length := by simp [negv]

theorem addv_length (a b : Vec) (h : a.length = b.length) : (addv a b).length = a.length := by
  induction a generalizing b with
  | nil => cases b <;> simp_all [addv]
  | cons a as ih =>
    cases b with
    | nil => simp at h
    | cons b bs => simp [addv, ih bs (by simpa using h)]

theorem subv_length (a b : Vec) (h : a.length = b.length) : (subv a b).length = a.length := by
  rw [subv, addv_length _ _ (by rw [negv_length]; exact h)]

theorem subv_cons (x l : Rat) (xs ls : Vec) : subv (x :: xs) (l :: ls) = (x + -l) :: subv xs ls := by
  simp [subv, negv, addv]

theorem dot_unit_nonneg (n j : Nat) (w : Vec) (h : ∀ v ∈ w, (0 : Rat) ≤ v) : 0 ≤ dot (unit n j) w := by
  rw [dot_unit]
  by_cases hj : j < n
  · rw [if_pos hj]; exact getD_nonneg w j h
  · rw [if_neg hj]; exact Rat.le_refl

/-- rows block, standard form → bounded problem -/
theorem rows1_rowsLe (n mp : Nat) (lo z : Vec) (hz : ∀ v ∈ z, 0 ≤ v) :
    ∀ (rs : Mat) (bs : Vec) (i : Nat), rs.length = bs.length → (∀ r ∈ rs, r.length = n) →
      matVec (rows1 mp i rs) z = bAdj lo rs bs → rowsLe 0 rs bs (addv (z.take n) lo) = true := by
  intro rs
  induction rs with
  | nil => intro bs i hl _ _; cases bs <;> simp_all [rowsLe]
  | cons r rs ih =>
    intro bs i hl hr hm
    cases bs with
    | nil => simp at hl
    | cons b bs =>
      simp only [rows1, matVec, List.map_cons, bAdj, List.cons.injEq] at hm
      have hrn : r.length = n := hr r (by simp)
      have h1 := dot_append_left r (unit mp i) z
      have h2 : 0 ≤ dot (unit mp i) (z.drop r.length) :=
        dot_unit_nonneg mp i _ (fun v hv => hz v (List.mem_of_mem_drop hv))
      have h3 := dot_addv_right r (z.take n) lo
      have h4 := dot_take r z n (by omega)
      have ht := ih bs (i + 1) (by simpa using hl) (fun r hr' => hr r (by simp [hr'])) (by simpa [matVec] using hm.2)
      simp only [rowsLe, Bool.and_eq_true, decide_eq_true_eq]
      refine ⟨?_, ht⟩
      have := hm.1
      grind

theorem getD_take_lt (z : Vec) (n t : Nat) (h : t < n) : (z.take n).getD t 0 = z.getD t 0 := by
  simp [List.getD, h]

/-- bounds block, standard form → bounded problem -/
theorem ub_boundsOk (n mp : Nat) (z : Vec) (hz : ∀ v ∈ z, 0 ≤ v) :
    ∀ (us : List (Option Rat)) (ls xs : Vec) (j k : Nat), us.length = ls.length → xs.length = ls.length →
      (∀ t, t < xs.length → xs.getD t 0 = z.getD (j + t) 0) → j + xs.length ≤ n →
      matVec (ubRows n mp j k us ls) z = ubRhs us ls → boundsOk 0 ls us (addv xs ls) = true := by
  intro us
  induction us with
  | nil =>
    intro ls xs j k h1 h2 _ _ _
    cases ls with
    | nil => cases xs <;> simp_all [boundsOk, addv]
    | cons l ls => simp at h1
  | cons u us ih =>
    intro ls xs j k h1 h2 hx hj hm
    cases ls with
    | nil => simp at h1
    | cons l ls =>
      cases xs with
      | nil => simp at h2
      | cons x xs =>
        have hx0 : x = z.getD j 0 := by simpa using hx 0 (by simp)
        have hxnn : 0 ≤ x := by rw [hx0]; exact getD_nonneg z j hz
        have hxs : ∀ t, t < xs.length → xs.getD t 0 = z.getD (j + 1 + t) 0 := by
          intro t ht
          have := hx (t + 1) (by simpa using ht)
          simp only [List.getD_cons_succ] at this
          rw [this]; congr 1; omega
        simp only [List.length_cons] at hj
        cases u with
        | none =>
          simp only [ubRows, ubRhs] at hm
          have ht := ih ls xs (j + 1) k (by simpa using h1) (by simpa using h2) hxs (by omega) hm
          simp only [addv, boundsOk, Bool.and_eq_true, decide_eq_true_eq]
          refine ⟨?_, ht⟩
          grind
        | some u =>
          simp only [ubRows, ubRhs, matVec, List.map_cons, List.cons.injEq] at hm
          have ht := ih ls xs (j + 1) (k + 1) (by simpa using h1) (by simpa using h2) hxs (by omega)
            (by simpa [matVec] using hm.2)
          have h3 := dot_append_left (unit n j) (unit mp k) z
          have h4 : 0 ≤ dot (unit mp k) (z.drop (unit n j).length) :=
            dot_unit_nonneg mp k _ (fun v hv => hz v (List.mem_of_mem_drop hv))
          have h5 := dot_unit n j z
          rw [if_pos (by omega)] at h5
          simp only [addv, boundsOk, Bool.and_eq_true, decide_eq_true_eq]
          refine ⟨⟨?_, ?_⟩, ht⟩
          · grind
          · have := hm.1
            grind

theorem slack1_length (x : Vec) : ∀ (rs : Mat) (bs : Vec), rs.length = bs.length →
    (slack1 rs bs x).length = rs.length := by
  intro rs
  induction rs with
  | nil => intro bs _; simp [slack1]
  | cons r rs ih =>
    intro bs h
    cases bs with
    | nil => simp at h
    | cons b bs => simp [slack1, ih bs (by simpa using h)]

theorem slack2_length : ∀ (us : List (Option Rat)) (xs : Vec), us.length = xs.length →
    (slack2 us xs).length = nUb us := by
  intro us
  induction us with
  | nil => intro xs _; simp [slack2, nUb]
  | cons u us ih =>
    intro xs h
    cases xs with
    | nil => simp at h
    | cons x xs =>
      cases u with
      | none => simp [slack2, nUb, ih xs (by simpa using h)]
      | some u => simp [slack2, nUb, ih xs (by simpa using h)]

/-- rows block, bounded problem → standard form -/
theorem rows1_embed (n mp : Nat) (lo x x' t : Vec) (hx' : x'.length = n)
    (hdot : ∀ r : Vec, dot r x' = dot r x - dot r lo) :
    ∀ (rs : Mat) (bs : Vec) (i : Nat) (pre : Vec), pre.length = i → rs.length = bs.length →
      (∀ r ∈ rs, r.length = n) → i + rs.length ≤ mp →
      matVec (rows1 mp i rs) (x' ++ (pre ++ (slack1 rs bs x ++ t))) = bAdj lo rs bs := by
  intro rs
  induction rs with
  | nil => intro bs i pre _ _ _ _; simp [rows1, matVec, bAdj]
  | cons r rs ih =>
    intro bs i pre hp hl hr hi
    cases bs with
    | nil => simp at hl
    | cons b bs =>
      have hrn : r.length = n := hr r (by simp)
      simp only [List.length_cons] at hi
      have ht := ih bs (i + 1) (pre ++ [b - dot r x]) (by simp [hp]) (by simpa using hl)
        (fun r hr' => hr r (by simp [hr'])) (by omega)
      simp only [rows1, matVec, List.map_cons, bAdj, slack1, List.cons.injEq]
      constructor
      · rw [dot_append_left, dot_append_right r x' _ (by omega), hdot r, hrn, ← hx', List.drop_left',
          dot_unit, if_pos (by omega)]
        · have : (pre ++ ((b - dot r x) :: slack1 rs bs x ++ t)).getD i 0 = b - dot r x := by
            simpa using getD_append_at pre (b - dot r x) (slack1 rs bs x ++ t) i hp
          rw [this]; grind
        · rfl
      · simpa [matVec] using ht

/-- bounds block, bounded problem → standard form -/
theorem ubRows_embed (n mp : Nat) :
    ∀ (us : List (Option Rat)) (ls xs : Vec) (j k : Nat) (xpre spre : Vec), xpre.length = j → spre.length = k →
      us.length = ls.length → xs.length = ls.length → j + xs.length = n → k + nUb us ≤ mp →
      matVec (ubRows n mp j k us ls) ((xpre ++ subv xs ls) ++ (spre ++ slack2 us xs)) = ubRhs us ls := by
  intro us
  induction us with
  | nil => intro ls xs j k xpre spre _ _ _ _ _ _; simp [ubRows, ubRhs, matVec]
  | cons u us ih =>
    intro ls xs j k xpre spre hxp hsp h1 h2 hj hk
    cases ls with
    | nil => simp at h1
    | cons l ls =>
      cases xs with
      | nil => simp at h2
      | cons x xs =>
        simp only [List.length_cons] at hj
        have hlen : (xpre ++ subv (x :: xs) (l :: ls)).length = n := by
          rw [List.length_append, subv_length _ _ h2]; simp; omega
        cases u with
        | none =>
          simp only [nUb] at hk
          have ht := ih ls xs (j + 1) k (xpre ++ [x + -l]) spre (by simp [hxp]) hsp (by simpa using h1)
            (by simpa using h2) (by omega) hk
          simp only [ubRows, ubRhs, slack2, subv_cons]
          simpa using ht
        | some u =>
          simp only [nUb] at hk
          have ht := ih ls xs (j + 1) (k + 1) (xpre ++ [x + -l]) (spre ++ [u - x]) (by simp [hxp]) (by simp [hsp])
            (by simpa using h1) (by simpa using h2) (by omega) (by omega)
          simp only [ubRows, ubRhs, slack2, matVec, List.map_cons, List.cons.injEq]
          constructor
          · rw [dot_append_left, unit_length, ← hlen, List.drop_left', dot_unit, dot_unit, if_pos (by omega),
              if_pos (by omega)]
            · have e1 : (xpre ++ subv (x :: xs) (l :: ls) ++ (spre ++ (u - x) :: slack2 us xs)).getD j 0 = x + -l := by
                rw [subv_cons, List.append_assoc, List.cons_append]
                exact getD_append_at xpre (x + -l) _ j hxp
              have e2 : (spre ++ (u - x) :: slack2 us xs).getD k 0 = u - x :=
                getD_append_at spre (u - x) _ k hsp
              rw [e1, e2]; grind
            · rfl
          · simp only [subv_cons] at ht ⊢
            simpa [matVec] using ht

/-! ### assembling the standard-form correspondence -/

theorem rows1_length (mp : Nat) : ∀ (rs : Mat) (i : Nat), (rows1 mp i rs).length = rs.length := by
  intro rs
  induction rs with
  | nil => intro i; simp [rows1]
  | cons r rs ih => intro i; simp [rows1, ih]

theorem bAdj_length (lo : Vec) : ∀ (rs : Mat) (bs : Vec), rs.length = bs.length →
    (bAdj lo rs bs).length = rs.length := by
  intro rs
  induction rs with
  | nil => intro bs _; simp [bAdj]
  | cons r rs ih =>
    intro bs h
    cases bs with
    | nil => simp at h
    | cons b bs => simp [bAdj, ih bs (by simpa using h)]

theorem ubRows_length (n mp : Nat) : ∀ (us : List (Option Rat)) (ls : Vec) (j k : Nat),
    (ubRows n mp j k us ls).length = (ubRhs us ls).length := by
  intro us
  induction us with
  | nil => intro ls j k; simp [ubRows, ubRhs]
  | cons u us ih =>
    intro ls j k
    cases ls with
    | nil => cases u <;> simp [ubRows, ubRhs]
    | cons l ls => cases u <;> simp [ubRows, ubRhs, ih]

theorem rows1_width (mp n : Nat) : ∀ (rs : Mat) (i : Nat), (∀ r ∈ rs, r.length = n) →
    ∀ r ∈ rows1 mp i rs, r.length = n + mp := by
  intro rs
  induction rs with
  | nil => intro i _ r hr; simp [rows1] at hr
  | cons r0 rs ih =>
    intro i h r hr
    simp only [rows1, List.mem_cons] at hr
    rcases hr with hr | hr
    · subst hr; simp [unit_length, h r0 (by simp)]
    · exact ih (i + 1) (fun r hr' => h r (by simp [hr'])) r hr

theorem ubRows_width (n mp : Nat) : ∀ (us : List (Option Rat)) (ls : Vec) (j k : Nat),
    ∀ r ∈ ubRows n mp j k us ls, r.length = n + mp := by
  intro us
  induction us with
  | nil => intro ls j k r hr; simp [ubRows] at hr
  | cons u us ih =>
    intro ls j k r hr
    cases ls with
    | nil => cases u <;> simp [ubRows] at hr
    | cons l ls =>
      cases u with
      | none => simp only [ubRows] at hr; exact ih ls _ _ r hr
      | some u =>
        simp only [ubRows, List.mem_cons] at hr
        rcases hr with hr | hr
        · subst hr; simp [unit_length]
        · exact ih ls _ _ r hr

structure WF (P : Problem) : Prop where
  ab : P.a.length = P.b.length
  rows : ∀ r ∈ P.a, r.length = P.c.length
  lo : P.lo.length = P.c.length
  up : P.up.length = P.c.length

theorem wf_of (P : Problem) (h : P.wf = true) : WF P := by
  simp only [Problem.wf, Bool.and_eq_true, decide_eq_true_eq, List.all_eq_true] at h
  exact ⟨h.1.1.1.1, h.1.1.1.2, h.1.1.2, h.1.2⟩

theorem toStd_c_length (P : Problem) : (toStd P).c.length = P.c.length + (P.a.length + nUb P.up) := by
  simp [toStd, zeros]

theorem toStd_wf (P : Problem) (h : WF P) : (toStd P).wf = true := by
  simp only [Std.wf, Bool.and_eq_true, decide_eq_true_eq, List.all_eq_true]
  constructor
  · simp [toStd, rows1_length, bAdj_length _ _ _ h.ab, ubRows_length]
  · intro r hr
    rw [toStd_c_length]
    simp only [toStd, List.mem_append] at hr
    rcases hr with hr | hr
    · exact rows1_width _ _ _ _ h.rows r hr
    · exact ubRows_width _ _ _ _ _ _ r hr

theorem boundsOk_length (tol : Rat) : ∀ (ls : Vec) (us : List (Option Rat)) (xs : Vec),
    boundsOk tol ls us xs = true → ls.length = xs.length ∧ us.length = xs.length := by
  intro ls
  induction ls with
  | nil =>
    intro us xs h
    cases us with
    | nil => cases xs <;> simp_all [boundsOk]
    | cons u us => cases u <;> simp [boundsOk] at h
  | cons l ls ih =>
    intro us xs h
    cases us with
    | nil => simp [boundsOk] at h
    | cons u us =>
      cases xs with
      | nil => cases u <;> simp [boundsOk] at h
      | cons x xs =>
        cases u with
        | none =>
          simp only [boundsOk, Bool.and_eq_true] at h
          have := ih us xs h.2
          simp [this.1, this.2]
        | some u =>
          simp only [boundsOk, Bool.and_eq_true] at h
          have := ih us xs h.2
          simp [this.1, this.2]

/-- standard form → bounded problem -/
theorem toStd_back (P : Problem) (hw : WF P) (z : Vec) (hz : stdFeasible (toStd P) z = true) :
    feasible P (backX P z) = true ∧ dot P.c (backX P z) = backObj P z := by
  obtain ⟨hlen, hnn, hmat⟩ := (stdFeasible_iff _ _).mp hz
  rw [toStd_c_length] at hlen
  have hsplit : matVec (rows1 (P.a.length + nUb P.up) 0 P.a) z = bAdj P.lo P.a P.b ∧
      matVec (ubRows P.c.length (P.a.length + nUb P.up) 0 P.a.length P.up P.lo) z = ubRhs P.up P.lo := by
    have : matVec (rows1 (P.a.length + nUb P.up) 0 P.a) z ++
        matVec (ubRows P.c.length (P.a.length + nUb P.up) 0 P.a.length P.up P.lo) z =
        bAdj P.lo P.a P.b ++ ubRhs P.up P.lo := by
      simpa [toStd, matVec] using hmat
    exact List.append_inj this (by simp [matVec, rows1_length, bAdj_length _ _ _ hw.ab])
  constructor
  · simp only [feasible, feasibleTol, backX, Bool.and_eq_true]
    constructor
    · exact rows1_rowsLe P.c.length _ P.lo z hnn P.a P.b 0 hw.ab hw.rows hsplit.1
    · have htl : (z.take P.c.length).length = P.c.length := by simp; omega
      exact ub_boundsOk P.c.length _ z hnn P.up P.lo (z.take P.c.length) 0 P.a.length
        (by rw [hw.up, hw.lo]) (by rw [htl, hw.lo])
        (fun t ht => by rw [Nat.zero_add]; exact getD_take_lt z _ t (by omega)) (by omega) hsplit.2
  · simp only [backX, backObj, toStd]
    rw [dot_addv_right, dot_take _ _ _ (Nat.le_refl _), dot_append_left, dot_zeros_left]
    grind

theorem subv_nonneg : ∀ (ls : Vec) (us : List (Option Rat)) (xs : Vec), boundsOk 0 ls us xs = true →
    ∀ v ∈ subv xs ls, 0 ≤ v := by
  intro ls
  induction ls with
  | nil =>
    intro us xs h
    cases us with
    | nil => cases xs <;> simp_all [boundsOk, subv, negv, addv]
    | cons u us => cases u <;> simp [boundsOk] at h
  | cons l ls ih =>
    intro us xs h
    cases us with
    | nil => simp [boundsOk] at h
    | cons u us =>
      cases xs with
      | nil => cases u <;> simp [boundsOk] at h
      | cons x xs =>
        have key : l - 0 ≤ x ∧ boundsOk 0 ls us xs = true := by
          cases u <;> simp only [boundsOk, Bool.and_eq_true, decide_eq_true_eq] at h
          · exact ⟨h.1, h.2⟩
          · exact ⟨h.1.1, h.2⟩
        rw [subv_cons]
        intro v hv
        rcases List.mem_cons.mp hv with hv | hv
        · subst hv; have := key.1; grind
        · exact ih us xs key.2 v hv

theorem slack1_nonneg (x : Vec) : ∀ (rs : Mat) (bs : Vec), rowsLe 0 rs bs x = true →
    ∀ v ∈ slack1 rs bs x, 0 ≤ v := by
  intro rs
  induction rs with
  | nil => intro bs _ v hv; simp [slack1] at hv
  | cons r rs ih =>
    intro bs h
    cases bs with
    | nil => simp [rowsLe] at h
    | cons b bs =>
      simp only [rowsLe, Bool.and_eq_true, decide_eq_true_eq] at h
      intro v hv
      simp only [slack1, List.mem_cons] at hv
      rcases hv with hv | hv
      · subst hv; have := h.1; grind
      · exact ih bs h.2 v hv

theorem rowsLe_length (tol : Rat) (x : Vec) : ∀ (rs : Mat) (bs : Vec), rowsLe tol rs bs x = true →
    rs.length = bs.length := by
  intro rs
  induction rs with
  | nil => intro bs h; cases bs <;> simp_all [rowsLe]
  | cons r rs ih =>
    intro bs h
    cases bs with
    | nil => simp [rowsLe] at h
    | cons b bs =>
      simp only [rowsLe, Bool.and_eq_true] at h
      simp [ih bs h.2]

theorem slack2_nonneg : ∀ (ls : Vec) (us : List (Option Rat)) (xs : Vec), boundsOk 0 ls us xs = true →
    ∀ v ∈ slack2 us xs, 0 ≤ v := by
  intro ls
  induction ls with
  | nil =>
    intro us xs h
    cases us with
    | nil => cases xs <;> simp_all [boundsOk, slack2]
    | cons u us => cases u <;> simp [boundsOk] at h
  | cons l ls ih =>
    intro us xs h
    cases us with
    | nil => simp [boundsOk] at h
    | cons u us =>
      cases xs with
      | nil => cases u <;> simp [boundsOk] at h
      | cons x xs =>
        cases u with
        | none =>
          simp only [boundsOk, Bool.and_eq_true] at h
          simp only [slack2]
          exact ih us xs h.2
        | some u =>
          simp only [boundsOk, Bool.and_eq_true, decide_eq_true_eq] at h
          intro v hv
          simp only [slack2, List.mem_cons] at hv
          rcases hv with hv | hv
          · subst hv; have := h.1.2; grind
          · exact ih us xs h.2 v hv

/-- bounded problem → standard form -/
theorem toStd_embed (P : Problem) (hw : WF P) (x : Vec) (hx : feasible P x = true) :
    stdFeasible (toStd P) (embed P x) = true ∧ backObj P (embed P x) = dot P.c x := by
  simp only [feasible, feasibleTol, Bool.and_eq_true] at hx
  obtain ⟨hrows, hbnd⟩ := hx
  obtain ⟨hl1, hl2⟩ := boundsOk_length _ _ _ _ hbnd
  have hxn : x.length = P.c.length := by rw [← hl1, hw.lo]
  have hx'len : (subv x P.lo).length = P.c.length := by rw [subv_length _ _ hl1.symm, hxn]
  constructor
  · rw [stdFeasible_iff]
    refine ⟨?_, ?_, ?_⟩
    · rw [toStd_c_length]
      simp only [embed, List.length_append, hx'len, slack1_length x _ _ hw.ab, slack2_length _ _ hl2]
    · intro v hv
      simp only [embed, List.mem_append] at hv
      rcases hv with hv | hv | hv
      · exact subv_nonneg _ _ _ hbnd v hv
      · exact slack1_nonneg x _ _ hrows v hv
      · exact slack2_nonneg _ _ _ hbnd v hv
    · simp only [toStd, matVec, List.map_append]
      congr 1
      · have := rows1_embed P.c.length (P.a.length + nUb P.up) P.lo x (subv x P.lo) (slack2 P.up x) hx'len
          (fun r => dot_subv_right r x P.lo) P.a P.b 0 [] rfl hw.ab hw.rows (by omega)
        simpa [matVec, embed] using this
      · have := ubRows_embed P.c.length (P.a.length + nUb P.up) P.up P.lo x 0 P.a.length []
          (slack1 P.a P.b x) rfl (slack1_length x _ _ hw.ab) (by rw [hw.up, hw.lo]) hl1.symm (by omega) (by omega)
        simpa [matVec, embed] using this
  · simp only [backObj, toStd, embed]
    rw [dot_append_left, dot_zeros_left, dot_append_right _ _ _ (by omega), dot_subv_right]
    grind

/-! ### Phase I -/

theorem rows1_zeros (n mp : Nat) (z : Vec) (hz : z.length = n) : ∀ (rs : Mat) (i : Nat),
    (∀ r ∈ rs, r.length = n) → matVec (rows1 mp i rs) (z ++ zeros mp) = matVec rs z := by
  intro rs
  induction rs with
  | nil => intro i _; simp [rows1, matVec]
  | cons r rs ih =>
    intro i h
    have hr : r.length = n := h r (by simp)
    have ht := ih (i + 1) (fun r hr' => h r (by simp [hr']))
    simp only [rows1, matVec, List.map_cons, List.cons.injEq]
    constructor
    · rw [dot_append_left, dot_append_right _ _ _ (by omega), hr, ← hz, List.drop_left', dot_zeros_right]
      · grind
      · rfl
    · simpa [matVec] using ht

theorem flipRows_matVec (z : Vec) : ∀ (rs : Mat) (bs : Vec), matVec rs z = bs →
    matVec (flipRows rs bs) z = absv bs := by
  intro rs
  induction rs with
  | nil => intro bs h; cases bs <;> simp_all [matVec, flipRows, absv]
  | cons r rs ih =>
    intro bs h
    cases bs with
    | nil => simp [matVec] at h
    | cons b bs =>
      simp only [matVec, List.map_cons, List.cons.injEq] at h
      have ht := ih bs (by simpa [matVec] using h.2)
      simp only [flipRows, matVec, List.map_cons, absv, List.cons.injEq]
      constructor
      · by_cases hb : b < 0
        · rw [if_pos hb, if_pos hb, dot_negv_left, h.1]
        · rw [if_neg hb, if_neg hb, h.1]
      · simpa [matVec, absv] using ht

theorem flipRows_length : ∀ (rs : Mat) (bs : Vec), rs.length = bs.length →
    (flipRows rs bs).length = rs.length := by
  intro rs
  induction rs with
  | nil => intro bs _; simp [flipRows]
  | cons r rs ih =>
    intro bs h
    cases bs with
    | nil => simp at h
    | cons b bs => simp [flipRows, ih bs (by simpa using h)]

theorem flipRows_width (n : Nat) : ∀ (rs : Mat) (bs : Vec), (∀ r ∈ rs, r.length = n) →
    ∀ r ∈ flipRows rs bs, r.length = n := by
  intro rs
  induction rs with
  | nil => intro bs _ r hr; simp [flipRows] at hr
  | cons r0 rs ih =>
    intro bs h r hr
    cases bs with
    | nil => simp [flipRows] at hr
    | cons b bs =>
      simp only [flipRows, List.mem_cons] at hr
      rcases hr with hr | hr
      · subst hr
        by_cases hb : b < 0
        · rw [if_pos hb, negv_length]; exact h r0 (by simp)
        · rw [if_neg hb]; exact h r0 (by simp)
      · exact ih bs (fun r hr' => h r (by simp [hr'])) r hr

structure StdWF (S : Std) : Prop where
  ab : S.a.length = S.b.length
  rows : ∀ r ∈ S.a, r.length = S.c.length

theorem stdWF_of (S : Std) (h : S.wf = true) : StdWF S := by
  simp only [Std.wf, Bool.and_eq_true, decide_eq_true_eq, List.all_eq_true] at h
  exact ⟨h.1, h.2⟩

/-- a feasible point of the standard form, padded with zero artificials, is feasible for the
Phase-I problem with artificial sum 0 -/
theorem phase1_embed (S : Std) (hw : StdWF S) (z : Vec) (hz : stdFeasible S z = true) :
    stdFeasible (phase1Std S) (z ++ zeros S.a.length) = true ∧
      dot (phase1Std S).c (z ++ zeros S.a.length) = 0 := by
  obtain ⟨hlen, hnn, hmat⟩ := (stdFeasible_iff _ _).mp hz
  constructor
  · rw [stdFeasible_iff]
    refine ⟨by simp [phase1Std, zeros, hlen], ?_, ?_⟩
    · intro v hv
      simp only [List.mem_append] at hv
      rcases hv with hv | hv
      · exact hnn v hv
      · simp only [zeros, List.mem_replicate] at hv
        rw [hv.2]; exact Rat.le_refl
    · simp only [phase1Std]
      rw [rows1_zeros S.c.length S.a.length z hlen _ 0 (flipRows_width _ _ _ hw.rows)]
      exact flipRows_matVec z _ _ hmat
  · simp only [phase1Std]
    rw [dot_append_left, dot_zeros_left]
    have : (zeros S.c.length).length = z.length := by simp [zeros, hlen]
    rw [this, List.drop_left', dot_zeros_right]
    · grind
    · rfl

/-! ### the dual solver's standard form -/

theorem nUb_none : ∀ (us : List (Option Rat)), (∀ u ∈ us, u.isNone = true) → nUb us = 0 := by
  intro us
  induction us with
  | nil => intro _; rfl
  | cons u us ih =>
    intro h
    cases u with
    | none => simp only [nUb]; exact ih (fun u hu => h u (by simp [hu]))
    | some u => have := h (some u) (by simp); simp at this

theorem ubRows_none (n mp : Nat) : ∀ (us : List (Option Rat)) (ls : Vec) (j k : Nat),
    (∀ u ∈ us, u.isNone = true) → ubRows n mp j k us ls = [] ∧ ubRhs us ls = [] := by
  intro us
  induction us with
  | nil => intro ls j k _; simp [ubRows, ubRhs]
  | cons u us ih =>
    intro ls j k h
    cases u with
    | some u => have := h (some u) (by simp); simp at this
    | none =>
      cases ls with
      | nil => simp [ubRows, ubRhs]
      | cons l ls =>
        simp only [ubRows, ubRhs]
        exact ih ls _ _ (fun u hu => h u (by simp [hu]))

theorem dot_allzero (r : Vec) : ∀ (lo : Vec), (∀ l ∈ lo, l = 0) → dot r lo = 0 := by
  induction r with
  | nil => intro lo _; simp
  | cons r rs ih =>
    intro lo h
    cases lo with
    | nil => simp
    | cons l ls =>
      have h0 : l = 0 := h l (by simp)
      have := ih ls (fun l hl => h l (by simp [hl]))
      simp only [dot_cons, this, h0]; grind

theorem bAdj_zero (lo : Vec) (h : ∀ l ∈ lo, l = 0) : ∀ (rs : Mat) (bs : Vec), rs.length = bs.length →
    bAdj lo rs bs = bs := by
  intro rs
  induction rs with
  | nil => intro bs hl; cases bs <;> simp_all [bAdj]
  | cons r rs ih =>
    intro bs hl
    cases bs with
    | nil => simp at hl
    | cons b bs =>
      simp only [bAdj, dot_allzero r lo h, ih bs (by simpa using hl), List.cons.injEq, and_true]
      grind

theorem addv_allzero : ∀ (x lo : Vec), (∀ l ∈ lo, l = 0) → lo.length ≤ x.length → addv x lo = x := by
  intro x
  induction x with
  | nil => intro lo _ hl; cases lo <;> simp_all [addv]
  | cons x xs ih =>
    intro lo h hl
    cases lo with
    | nil => simp [addv]
    | cons l ls =>
      have h0 : l = 0 := h l (by simp)
      simp only [addv, ih ls (fun l hl => h l (by simp [hl])) (by simpa using hl), h0, List.cons.injEq, and_true]
      grind

/-- when `l = 0` and `u = +∞` the dual solver's standard form IS the primal one -/
theorem toDualStd_eq (P : Problem) (hw : WF P) (hg : dualFormGuard P = true) : toDualStd P = toStd P := by
  simp only [dualFormGuard, Bool.and_eq_true, List.all_eq_true, decide_eq_true_eq] at hg
  obtain ⟨hlo, hup⟩ := hg
  have h1 := nUb_none P.up hup
  have h2 := ubRows_none P.c.length (P.a.length + 0) P.up P.lo 0 P.a.length hup
  simp only [toDualStd, toStd, h1, h2.1, h2.2, bAdj_zero P.lo hlo P.a P.b hw.ab]
  simp

/-! ### the slack basis -/

theorem rowsLe_of_bAdj (lo : Vec) : ∀ (rs : Mat) (bs : Vec), rs.length = bs.length →
    (∀ v ∈ bAdj lo rs bs, 0 ≤ v) → rowsLe 0 rs bs lo = true := by
  intro rs
  induction rs with
  | nil => intro bs h _; cases bs <;> simp_all [rowsLe]
  | cons r rs ih =>
    intro bs h hv
    cases bs with
    | nil => simp at h
    | cons b bs =>
      simp only [bAdj, List.mem_cons, forall_eq_or_imp] at hv
      simp only [rowsLe, Bool.and_eq_true, decide_eq_true_eq]
      refine ⟨?_, ih bs (by simpa using h) hv.2⟩
      have := hv.1
      grind

theorem boundsOk_of_ordered : ∀ (lo : Vec) (up : List (Option Rat)), boundsOrdered lo up = true →
    boundsOk 0 lo up lo = true := by
  intro lo
  induction lo with
  | nil =>
    intro up h
    cases up with
    | nil => simp [boundsOk]
    | cons u us => simp [boundsOrdered] at h
  | cons l ls ih =>
    intro up h
    cases up with
    | nil => simp [boundsOrdered] at h
    | cons u us =>
      cases u with
      | none =>
        simp only [boundsOrdered] at h
        simp only [boundsOk, Bool.and_eq_true, decide_eq_true_eq]
        exact ⟨by grind, ih us h⟩
      | some u =>
        simp only [boundsOrdered, Bool.and_eq_true, decide_eq_true_eq] at h
        simp only [boundsOk, Bool.and_eq_true, decide_eq_true_eq]
        refine ⟨⟨by grind, ?_⟩, ih us h.2⟩
        have := h.1
        grind

end Lp
end Selen

import SelenModel.Model.Lower
import SelenModel.Lemmas.IntCore
/-
Lemmas about the lowering model (`Model/Lower.lean`), used by `Props/C10.lean`:

* the smart constructors and `Expr.build` preserve `Expr.eval`;
* `PK.linVal` algebra (cons, append of one term, `List.set`, negated coefficients);
* `Expr.extractLinear_sound`, `LModel.linearise_sound`;
* `LModel.materializeLin_sem` (all six comparison operators on integers);
* `LModel.applyVarEqBounds_sound`;
* auxiliary variables of `+`/`-` trees (`getExprVar_spec`), and — section 8 — the reified
  disjunction an `or` of two comparisons is lowered to (`operands_spec`, `postReif_spec`,
  `reifOr_spec`, `materialize_or_bins`).
-/
namespace Selen

/-! ### 1. smart constructors -/

namespace Expr

theorem eval_mkAdd (x y : Expr) (a : Nat → Int) : (mkAdd x y).eval a = (Expr.add x y).eval a := by
  unfold mkAdd
  split <;> simp [eval]

theorem eval_mkSub (x y : Expr) (a : Nat → Int) : (mkSub x y).eval a = (Expr.sub x y).eval a := by
  unfold mkSub
  split <;> simp [eval]

theorem eval_mkMul (x y : Expr) (a : Nat → Int) : (mkMul x y).eval a = (Expr.mul x y).eval a := by
  unfold mkMul
  split <;> simp [eval]

theorem eval_mkDiv (x y e' : Expr) (a : Nat → Int) (h : mkDiv x y = some e') :
    e'.eval a = (Expr.div x y).eval a := by
  unfold mkDiv at h
  split at h
  · cases h
  · cases h; simp [eval]
  · cases h; rfl

theorem eval_mkMod (x y : Expr) (a : Nat → Int) : (mkMod x y).eval a = (Expr.mod x y).eval a := rfl

theorem build_eval (e e' : Expr) (h : e.build = some e') : ∀ a, e'.eval a = e.eval a := by
  induction e generalizing e' with
  | var i => intro a; simp only [build] at h; cases h; rfl
  | val k => intro a; simp only [build] at h; cases h; rfl
  | add x y ihx ihy =>
    intro a
    simp only [build] at h
    cases hx : x.build with
    | none => simp [hx] at h
    | some x' =>
      cases hy : y.build with
      | none => simp [hx, hy] at h
      | some y' =>
        simp [hx, hy] at h
        subst h
        rw [eval_mkAdd]; simp only [eval, ihx x' hx a, ihy y' hy a]
  | sub x y ihx ihy =>
    intro a
    simp only [build] at h
    cases hx : x.build with
    | none => simp [hx] at h
    | some x' =>
      cases hy : y.build with
      | none => simp [hx, hy] at h
      | some y' =>
        simp [hx, hy] at h
        subst h
        rw [eval_mkSub]; simp only [eval, ihx x' hx a, ihy y' hy a]
  | mul x y ihx ihy =>
    intro a
    simp only [build] at h
    cases hx : x.build with
    | none => simp [hx] at h
    | some x' =>
      cases hy : y.build with
      | none => simp [hx, hy] at h
      | some y' =>
        simp [hx, hy] at h
        subst h
        rw [eval_mkMul]; simp only [eval, ihx x' hx a, ihy y' hy a]
  | div x y ihx ihy =>
    intro a
    simp only [build] at h
    cases hx : x.build with
    | none => simp [hx] at h
    | some x' =>
      cases hy : y.build with
      | none => simp [hx, hy] at h
      | some y' =>
        simp [hx, hy] at h
        rw [eval_mkDiv x' y' e' a h]; simp only [eval, ihx x' hx a, ihy y' hy a]
  | mod x y ihx ihy =>
    intro a
    simp only [build] at h
    cases hx : x.build with
    | none => simp [hx] at h
    | some x' =>
      cases hy : y.build with
      | none => simp [hx, hy] at h
      | some y' =>
        simp [hx, hy] at h
        subst h
        rw [eval_mkMod]; simp only [eval, ihx x' hx a, ihy y' hy a]

end Expr

/-! ### 2. `PK.linVal` algebra -/

namespace PK

theorem linVal_foldl_acc (l : List (Int × Nat)) (a : Nat → Int) (init : Int) :
    l.foldl (fun acc p => acc + p.1 * a p.2) init = init + l.foldl (fun acc p => acc + p.1 * a p.2) 0 := by
  induction l generalizing init with
  | nil => simp
  | cons p l ih =>
    simp only [List.foldl_cons]
    rw [ih (init + p.1 * a p.2), ih (0 + p.1 * a p.2)]
    omega

@[simp] theorem linVal_nil_left (xs : List Nat) (a : Nat → Int) : linVal [] xs a = 0 := by
  simp [linVal]

@[simp] theorem linVal_nil_right (cs : List Int) (a : Nat → Int) : linVal cs [] a = 0 := by
  simp [linVal]

theorem linVal_cons (c : Int) (cs : List Int) (x : Nat) (xs : List Nat) (a : Nat → Int) :
    linVal (c :: cs) (x :: xs) a = c * a x + linVal cs xs a := by
  simp only [linVal, List.zip_cons_cons, List.foldl_cons]
  rw [linVal_foldl_acc]
  omega

theorem linVal_append_one (cs : List Int) (xs : List Nat) (c : Int) (x : Nat) (a : Nat → Int)
    (hlen : cs.length = xs.length) :
    linVal (cs ++ [c]) (xs ++ [x]) a = linVal cs xs a + c * a x := by
  induction cs generalizing xs with
  | nil =>
    cases xs with
    | nil => simp [linVal]
    | cons y ys => simp at hlen
  | cons d cs ih =>
    cases xs with
    | nil => simp at hlen
    | cons y ys =>
      simp only [List.cons_append, linVal_cons]
      rw [ih ys (by simpa using hlen)]
      omega

/-- replacing the coefficient at a position whose variable is `x` -/
theorem linVal_set (cs : List Int) (xs : List Nat) (i : Nat) (v : Int) (x : Nat) (a : Nat → Int)
    (hi : i < xs.length) (hlen : cs.length = xs.length) (hx : xs[i] = x) :
    linVal (cs.set i v) xs a = linVal cs xs a + (v - cs.getD i 0) * a x := by
  induction cs generalizing xs i with
  | nil => rw [← hlen] at hi; simp at hi
  | cons d cs ih =>
    cases xs with
    | nil => simp at hlen
    | cons y ys =>
      cases i with
      | zero =>
        simp only [List.set_cons_zero, linVal_cons, List.getD_cons_zero]
        simp only [List.getElem_cons_zero] at hx
        subst hx
        rw [Int.sub_mul]; omega
      | succ j =>
        simp only [List.set_cons_succ, linVal_cons, List.getD_cons_succ]
        simp only [List.getElem_cons_succ] at hx
        rw [ih ys j (by simpa using hi) (by simpa using hlen) hx]
        omega

theorem linVal_negAll (cs : List Int) (xs : List Nat) (a : Nat → Int) :
    linVal (LModel.negAll cs) xs a = - linVal cs xs a := by
  induction cs generalizing xs with
  | nil => simp [LModel.negAll]
  | cons d cs ih =>
    cases xs with
    | nil => simp
    | cons y ys =>
      have := ih ys
      simp only [LModel.negAll, List.map_cons] at this ⊢
      rw [linVal_cons, linVal_cons, this, Int.neg_mul]
      omega

end PK

/-! ### 3. `addTerm`, the merging fold, `extractLinear`, `linearise` -/

namespace Expr

/-- one `addTerm` step adds the term `f 0 c * x` (for `f = (+)` and `f = (-)`: `±c * x`) -/
theorem addTerm_sound (cs : List Int) (xs : List Nat) (x : Nat) (c : Int) (f : Int → Int → Int)
    (hf : ∀ v, f v c = v + f 0 c) (hlen : cs.length = xs.length) :
    (addTerm cs xs x c f).1.length = (addTerm cs xs x c f).2.length ∧
    ∀ a, PK.linVal (addTerm cs xs x c f).1 (addTerm cs xs x c f).2 a = PK.linVal cs xs a + f 0 c * a x := by
  unfold addTerm
  cases hidx : xs.idxOf? x with
  | none =>
    refine ⟨by simp [hlen], fun a => ?_⟩
    exact PK.linVal_append_one cs xs (f 0 c) x a hlen
  | some i =>
    have hidx' : xs.findIdx? (· == x) = some i := hidx
    rw [List.findIdx?_eq_some_iff_getElem] at hidx'
    obtain ⟨hi, hxi, _⟩ := hidx'
    have hxi' : xs[i] = x := by simpa using hxi
    refine ⟨by simp [hlen], fun a => ?_⟩
    show PK.linVal (cs.set i (f (cs.getD i 0) c)) xs a = _
    rw [PK.linVal_set cs xs i _ x a hi hlen hxi', hf]
    have : cs.getD i 0 + f 0 c - cs.getD i 0 = f 0 c := by omega
    rw [this]

/-- sum of the terms a merging fold adds -/
def termSum (f : Int → Int → Int) (a : Nat → Int) : List (Nat × Int) → Int
  | [] => 0
  | p :: l => f 0 p.2 * a p.1 + termSum f a l

theorem mergeFold_sound (f : Int → Int → Int) (hf : ∀ v c, f v c = v + f 0 c)
    (l : List (Nat × Int)) (lc : List Int) (lx : List Nat) (hlen : lc.length = lx.length) :
    let r := l.foldl (fun (acc : List Int × List Nat) (p : Nat × Int) =>
      addTerm acc.1 acc.2 p.1 p.2 f) (lc, lx)
    r.1.length = r.2.length ∧ ∀ a, PK.linVal r.1 r.2 a = PK.linVal lc lx a + termSum f a l := by
  induction l generalizing lc lx with
  | nil => simp [termSum, hlen]
  | cons p l ih =>
    simp only [List.foldl_cons]
    obtain ⟨h1, h2⟩ := addTerm_sound lc lx p.1 p.2 f (fun v => hf v p.2) hlen
    obtain ⟨h3, h4⟩ := ih (addTerm lc lx p.1 p.2 f).1 (addTerm lc lx p.1 p.2 f).2 h1
    refine ⟨h3, fun a => ?_⟩
    rw [h4 a, h2 a]
    simp only [termSum]
    omega

theorem termSum_add_zip (rx : List Nat) (rc : List Int) (a : Nat → Int) :
    termSum (fun a b => a + b) a (List.zip rx rc) = PK.linVal rc rx a := by
  induction rx generalizing rc with
  | nil => simp [termSum]
  | cons x rx ih =>
    cases rc with
    | nil => simp [termSum]
    | cons c rc =>
      simp only [List.zip_cons_cons, termSum, PK.linVal_cons, ih rc, Int.zero_add]

theorem termSum_sub_zip (rx : List Nat) (rc : List Int) (a : Nat → Int) :
    termSum (fun a b => a - b) a (List.zip rx rc) = - PK.linVal rc rx a := by
  induction rx generalizing rc with
  | nil => simp [termSum]
  | cons x rx ih =>
    cases rc with
    | nil => simp [termSum]
    | cons c rc =>
      simp only [List.zip_cons_cons, termSum, PK.linVal_cons, ih rc]
      have : (0 - c) * a x = - (c * a x) := by rw [Int.zero_sub, Int.neg_mul]
      omega

theorem mergeAdd_sound (lc : List Int) (lx : List Nat) (rc : List Int) (rx : List Nat)
    (hlen : lc.length = lx.length) :
    let r := (List.zip rx rc).foldl (fun (acc : List Int × List Nat) (p : Nat × Int) =>
      addTerm acc.1 acc.2 p.1 p.2 (fun a b => a + b)) (lc, lx)
    r.1.length = r.2.length ∧ ∀ a, PK.linVal r.1 r.2 a = PK.linVal lc lx a + PK.linVal rc rx a := by
  have := mergeFold_sound (fun a b => a + b) (fun v c => by omega) (List.zip rx rc) lc lx hlen
  simp only [termSum_add_zip] at this
  exact this

theorem mergeSub_sound (lc : List Int) (lx : List Nat) (rc : List Int) (rx : List Nat)
    (hlen : lc.length = lx.length) :
    let r := (List.zip rx rc).foldl (fun (acc : List Int × List Nat) (p : Nat × Int) =>
      addTerm acc.1 acc.2 p.1 p.2 (fun a b => a - b)) (lc, lx)
    r.1.length = r.2.length ∧ ∀ a, PK.linVal r.1 r.2 a = PK.linVal lc lx a - PK.linVal rc rx a := by
  have := mergeFold_sound (fun a b => a - b) (fun v c => by omega) (List.zip rx rc) lc lx hlen
  simp only [termSum_sub_zip] at this
  refine ⟨this.1, fun a => ?_⟩
  rw [this.2 a]; omega

/-- **`try_extract_linear_form` is sound**: the linear form denotes the tree's value under every
assignment (repeated variables merged). -/
theorem extractLinear_sound (e : Expr) (cs : List Int) (xs : List Nat) (k : Int)
    (h : e.extractLinear = some (cs, xs, k)) :
    cs.length = xs.length ∧ ∀ a, e.eval a = some (PK.linVal cs xs a + k) := by
  induction e generalizing cs xs k with
  | var i =>
    simp only [extractLinear, Option.some.injEq, Prod.mk.injEq] at h
    obtain ⟨rfl, rfl, rfl⟩ := h
    refine ⟨rfl, fun a => ?_⟩
    simp [eval, PK.linVal]
  | val c =>
    simp only [extractLinear, Option.some.injEq, Prod.mk.injEq] at h
    obtain ⟨rfl, rfl, rfl⟩ := h
    refine ⟨rfl, fun a => ?_⟩
    simp [eval]
  | mul x y _ _ =>
    cases x <;> cases y <;> simp only [extractLinear, Option.some.injEq, Prod.mk.injEq, reduceCtorEq] at h
    · obtain ⟨rfl, rfl, rfl⟩ := h
      refine ⟨rfl, fun a => ?_⟩
      simp [eval, PK.linVal, Int.mul_comm]
    · obtain ⟨rfl, rfl, rfl⟩ := h
      refine ⟨rfl, fun a => ?_⟩
      simp [eval, PK.linVal]
  | div x y _ _ => simp [extractLinear] at h
  | mod x y _ _ => simp [extractLinear] at h
  | add x y ihx ihy =>
    simp only [extractLinear] at h
    cases hx : x.extractLinear with
    | none => simp [hx] at h
    | some lt =>
      obtain ⟨lc, lx, lk⟩ := lt
      cases hy : y.extractLinear with
      | none => simp [hx, hy] at h
      | some rt =>
        obtain ⟨rc, rx, rk⟩ := rt
        obtain ⟨hl1, hl2⟩ := ihx lc lx lk hx
        obtain ⟨hr1, hr2⟩ := ihy rc rx rk hy
        obtain ⟨hm1, hm2⟩ := mergeAdd_sound lc lx rc rx hl1
        simp only [hx, hy, Option.some.injEq, Prod.mk.injEq] at h
        obtain ⟨rfl, rfl, rfl⟩ := h
        refine ⟨hm1, fun a => ?_⟩
        simp only [eval, hl2 a, hr2 a, hm2 a]
        simp only [bind, Option.bind, pure, Option.some.injEq]
        omega
  | sub x y ihx ihy =>
    simp only [extractLinear] at h
    cases hx : x.extractLinear with
    | none => simp [hx] at h
    | some lt =>
      obtain ⟨lc, lx, lk⟩ := lt
      cases hy : y.extractLinear with
      | none => simp [hx, hy] at h
      | some rt =>
        obtain ⟨rc, rx, rk⟩ := rt
        obtain ⟨hl1, hl2⟩ := ihx lc lx lk hx
        obtain ⟨hr1, hr2⟩ := ihy rc rx rk hy
        obtain ⟨hm1, hm2⟩ := mergeSub_sound lc lx rc rx hl1
        simp only [hx, hy, Option.some.injEq, Prod.mk.injEq] at h
        obtain ⟨rfl, rfl, rfl⟩ := h
        refine ⟨hm1, fun a => ?_⟩
        simp only [eval, hl2 a, hr2 a, hm2 a]
        simp only [bind, Option.bind, pure, Option.some.injEq]
        omega

end Expr

theorem CmpOp.holds_shift (op : CmpOp) (p q lk rk : Int) :
    op.holds (p + lk) (q + rk) = op.holds (p - q) (-(lk - rk)) := by
  cases op <;> simp only [CmpOp.holds] <;> rw [Bool.eq_iff_iff] <;> simp <;> omega

namespace LModel

/-- **`try_convert_to_linear_ast` is sound**: the pending linear row denotes the comparison. -/
theorem linearise_sound (l r : Expr) (op op' : CmpOp) (cs : List Int) (xs : List Nat) (k : Int)
    (h : linearise l op r = some (.lin cs xs op' k)) :
    op' = op ∧ cs.length = xs.length ∧
    ∀ a, (Con.bin l op r).eval a = some (op.holds (PK.linVal cs xs a) k) := by
  unfold linearise at h
  cases hl : l.extractLinear with
  | none => simp [hl] at h
  | some lt =>
    obtain ⟨lc, lx, lk⟩ := lt
    cases hr : r.extractLinear with
    | none => simp [hl, hr] at h
    | some rt =>
      obtain ⟨rc, rx, rk⟩ := rt
      obtain ⟨hl1, hl2⟩ := Expr.extractLinear_sound l lc lx lk hl
      obtain ⟨hr1, hr2⟩ := Expr.extractLinear_sound r rc rx rk hr
      obtain ⟨hm1, hm2⟩ := Expr.mergeSub_sound lc lx rc rx hl1
      simp only [hl, hr, Option.some.injEq, Pending.lin.injEq] at h
      obtain ⟨rfl, rfl, rfl, rfl⟩ := h
      refine ⟨rfl, hm1, fun a => ?_⟩
      simp only [Con.eval, hl2 a, hr2 a, hm2 a]
      simp only [bind, Option.bind, pure, Option.some.injEq]
      exact CmpOp.holds_shift _ _ _ _ _

/-- `linearise` never produces an `.ast` entry -/
theorem linearise_is_lin (l r : Expr) (op : CmpOp) (p : Pending) (h : linearise l op r = some p) :
    ∃ cs xs k, p = .lin cs xs op k := by
  unfold linearise at h
  split at h
  · simp only [Option.some.injEq] at h
    exact ⟨_, _, _, h.symm⟩
  · cases h

/-! ### 4. the `LinearInt` arm of `materialize_constraint_kind` -/

/-- the propagator `materializeLin` appends -/
def linLP (cs : List Int) (xs : List Nat) : CmpOp → Int → LP
  | .eq, k => .linEq cs xs k
  | .le, k => .linLe cs xs k
  | .ne, k => .linNe cs xs k
  | .ge, k => .linLe (negAll cs) xs (-k)
  | .gt, k => .linLe (negAll cs) xs (-k - 1)
  | .lt, k => .linLe cs xs (k - 1)

theorem materializeLin_eq (m : LModel) (cs : List Int) (xs : List Nat) (op : CmpOp) (k : Int) :
    materializeLin m cs xs op k = m.post (linLP cs xs op k) := by
  cases op <;> rfl

/-- integers: `>` is `≥ k+1`, `<` is `≤ k-1`, `≥`/`>` by negated coefficients -/
theorem linLP_sem (cs : List Int) (xs : List Nat) (op : CmpOp) (k : Int) (a : Nat → Int) :
    PK.holds a (linLP cs xs op k).toPK = op.holds (PK.linVal cs xs a) k := by
  cases op
  · rfl
  · rfl
  · simp only [linLP, LP.toPK, PK.holds, CmpOp.holds]
    rw [Bool.eq_iff_iff]; simp only [decide_eq_true_eq]; omega
  · rfl
  · simp only [linLP, LP.toPK, PK.holds, CmpOp.holds, PK.linVal_negAll]
    rw [Bool.eq_iff_iff]; simp only [decide_eq_true_eq]; omega
  · simp only [linLP, LP.toPK, PK.holds, CmpOp.holds, PK.linVal_negAll]
    rw [Bool.eq_iff_iff]; simp only [decide_eq_true_eq]; omega

/-- **all six operators**: the single propagator appended by `materializeLin` means
`Σ csᵢ·a(xsᵢ) op k` over the integers (`>`: `≤` on negated coefficients with `-k-1`; `<`: `≤ k-1`;
`≥`: `≤` on negated coefficients with `-k`). -/
theorem materializeLin_sem (m : LModel) (cs : List Int) (xs : List Nat) (op : CmpOp) (k : Int) :
    ∃ lp, materializeLin m cs xs op k = m.post lp ∧
      ∀ a, PK.holds a lp.toPK = op.holds (PK.linVal cs xs a) k :=
  ⟨linLP cs xs op k, materializeLin_eq m cs xs op k, linLP_sem cs xs op k⟩

/-! ### 5. `apply_var_eq_bounds` -/

theorem getD_set_eq (l : List Dom) (i j : Nat) (d : Dom) (hi : i < l.length) :
    (l.set i d).getD j [] = if j = i then d else l.getD j [] := by
  simp only [List.getD_eq_getElem?_getD, List.getElem?_set]
  by_cases hji : j = i
  · subst hji; simp [hi]
  · have : ¬ i = j := fun h => hji h.symm
    simp [hji, this]

theorem lt_length_of_getD_ne_nil (l : List Dom) (i : Nat) (h : l.getD i [] ≠ []) : i < l.length := by
  by_cases hi : i < l.length
  · exact hi
  · exfalso; apply h
    simp only [List.getD_eq_getElem?_getD]
    rw [List.getElem?_eq_none (by omega)]; rfl

theorem isEmpty_false_ne_nil (d : Dom) (h : d.isEmpty = false) : d ≠ [] := by
  intro hd; subst hd; simp at h

/-- the bound interval `apply_var_eq_bounds` intersects with -/
@[reducible] def eqLo (da db : Dom) : Int := if da.dmin > db.dmin then da.dmin else db.dmin
@[reducible] def eqHi (da db : Dom) : Int := if da.dmax < db.dmax then da.dmax else db.dmax

/-- the non-panicking branches of `applyVarEqBounds` -/
theorem applyVarEqBounds_getD (m : LModel) (x y : Nat)
    (hx : (m.doms.getD x []).isEmpty = false) (hy : (m.doms.getD y []).isEmpty = false) :
    (eqLo (m.doms.getD x []) (m.doms.getD y []) ≤ eqHi (m.doms.getD x []) (m.doms.getD y []) →
      (m.applyVarEqBounds x y).doms.length = m.doms.length ∧
      (m.applyVarEqBounds x y).props = m.props ∧
      (m.applyVarEqBounds x y).pending = m.pending ∧
      (m.applyVarEqBounds x y).panicked = m.panicked ∧
      ∀ i, (m.applyVarEqBounds x y).doms.getD i [] =
      if i = y then (m.doms.getD y []).filter (fun v =>
          decide (eqLo (m.doms.getD x []) (m.doms.getD y []) ≤ v) &&
          decide (v ≤ eqHi (m.doms.getD x []) (m.doms.getD y [])))
      else if i = x then (m.doms.getD x []).filter (fun v =>
          decide (eqLo (m.doms.getD x []) (m.doms.getD y []) ≤ v) &&
          decide (v ≤ eqHi (m.doms.getD x []) (m.doms.getD y [])))
      else m.doms.getD i []) ∧
    (¬ eqLo (m.doms.getD x []) (m.doms.getD y []) ≤ eqHi (m.doms.getD x []) (m.doms.getD y []) →
      m.applyVarEqBounds x y = m) := by
  have hxl := lt_length_of_getD_ne_nil m.doms x (isEmpty_false_ne_nil _ hx)
  have hyl := lt_length_of_getD_ne_nil m.doms y (isEmpty_false_ne_nil _ hy)
  constructor
  · intro hle
    have : m.applyVarEqBounds x y =
        (m.setDom x ((m.doms.getD x []).filter (fun v =>
          decide (eqLo (m.doms.getD x []) (m.doms.getD y []) ≤ v) &&
          decide (v ≤ eqHi (m.doms.getD x []) (m.doms.getD y []))))).setDom y
          ((m.doms.getD y []).filter (fun v =>
          decide (eqLo (m.doms.getD x []) (m.doms.getD y []) ≤ v) &&
          decide (v ≤ eqHi (m.doms.getD x []) (m.doms.getD y [])))) := by
      simp only [applyVarEqBounds, hx, hy, Bool.or_self, Bool.false_eq_true, if_false]
      rw [if_pos hle]
    rw [this]
    refine ⟨by simp [setDom], rfl, rfl, rfl, fun i => ?_⟩
    simp only [setDom]
    rw [getD_set_eq _ _ _ _ (by simpa using hyl), getD_set_eq _ _ _ _ hxl]
  · intro hnle
    simp only [applyVarEqBounds, hx, hy, Bool.or_self, Bool.false_eq_true, if_false]
    rw [if_neg hnle]

/-- **`apply_var_eq_bounds` is sound**: it touches only the domains (same number of variables,
same propagators and pending entries), only shrinks them, leaves every variable other than the
two alone, and keeps every assignment with `a x = a y` that was inside the old domains.  The
`panicked` flag is raised exactly when one of the two domains is already empty. -/
theorem applyVarEqBounds_sound (m : LModel) (x y : Nat) :
    (m.applyVarEqBounds x y).doms.length = m.doms.length ∧
    (m.applyVarEqBounds x y).props = m.props ∧
    (m.applyVarEqBounds x y).pending = m.pending ∧
    (m.applyVarEqBounds x y).panicked =
      (m.panicked || ((m.doms.getD x []).isEmpty || (m.doms.getD y []).isEmpty)) ∧
    (∀ i v, v ∈ (m.applyVarEqBounds x y).doms.getD i [] → v ∈ m.doms.getD i []) ∧
    (∀ i, i ≠ x → i ≠ y → (m.applyVarEqBounds x y).doms.getD i [] = m.doms.getD i []) ∧
    (∀ a : Nat → Int, a x ∈ m.doms.getD x [] → a y ∈ m.doms.getD y [] → a x = a y →
      a x ∈ (m.applyVarEqBounds x y).doms.getD x [] ∧
      a y ∈ (m.applyVarEqBounds x y).doms.getD y []) := by
  by_cases hemp : ((m.doms.getD x []).isEmpty || (m.doms.getD y []).isEmpty) = true
  · have : m.applyVarEqBounds x y = { m with panicked := true } := by
      simp only [applyVarEqBounds]; rw [if_pos hemp]
    rw [this, hemp]
    refine ⟨rfl, rfl, rfl, by simp, fun _ _ h => h, fun _ _ _ => rfl, fun a h1 h2 _ => ⟨h1, h2⟩⟩
  · have hemp' : ((m.doms.getD x []).isEmpty || (m.doms.getD y []).isEmpty) = false := by
      simpa using hemp
    rw [Bool.or_eq_false_iff] at hemp'
    obtain ⟨hx, hy⟩ := hemp'
    obtain ⟨hA, hB⟩ := applyVarEqBounds_getD m x y hx hy
    by_cases hle : eqLo (m.doms.getD x []) (m.doms.getD y []) ≤ eqHi (m.doms.getD x []) (m.doms.getD y [])
    · obtain ⟨hlen, hprops, hpend, hpan, hG⟩ := hA hle
      refine ⟨hlen, hprops, hpend, by rw [hpan, hx, hy]; simp, ?_, ?_, ?_⟩
      · intro i v hv
        rw [hG i] at hv
        by_cases hiy : i = y
        · rw [if_pos hiy] at hv; subst hiy; exact (List.mem_filter.1 hv).1
        · rw [if_neg hiy] at hv
          by_cases hix : i = x
          · rw [if_pos hix] at hv; subst hix; exact (List.mem_filter.1 hv).1
          · rw [if_neg hix] at hv; exact hv
      · intro i hix hiy
        rw [hG i, if_neg hiy, if_neg hix]
      · intro a hax hay heq
        have h1 := Dom.dmin_le _ _ hax
        have h2 := Dom.dmin_le _ _ hay
        have h3 := Dom.le_dmax _ _ hax
        have h4 := Dom.le_dmax _ _ hay
        have hlo : eqLo (m.doms.getD x []) (m.doms.getD y []) ≤ a x := by
          unfold eqLo; split <;> omega
        have hhi : a x ≤ eqHi (m.doms.getD x []) (m.doms.getD y []) := by
          unfold eqHi; split <;> omega
        have hfx : a x ∈ (m.doms.getD x []).filter (fun v =>
            decide (eqLo (m.doms.getD x []) (m.doms.getD y []) ≤ v) &&
            decide (v ≤ eqHi (m.doms.getD x []) (m.doms.getD y []))) :=
          List.mem_filter.2 ⟨hax, by simp only [Bool.and_eq_true, decide_eq_true_eq]; exact ⟨hlo, hhi⟩⟩
        have hfy : a y ∈ (m.doms.getD y []).filter (fun v =>
            decide (eqLo (m.doms.getD x []) (m.doms.getD y []) ≤ v) &&
            decide (v ≤ eqHi (m.doms.getD x []) (m.doms.getD y []))) :=
          List.mem_filter.2 ⟨hay, by rw [← heq]; simp only [Bool.and_eq_true, decide_eq_true_eq]; exact ⟨hlo, hhi⟩⟩
        constructor
        · rw [hG x]
          by_cases hxy : x = y
          · rw [if_pos hxy]; subst hxy; exact hfy
          · rw [if_neg hxy, if_pos rfl]; exact hfx
        · rw [hG y, if_pos rfl]; exact hfy
    · have := hB hle
      rw [this, hx, hy]
      refine ⟨rfl, rfl, rfl, by simp, fun _ _ h => h, fun _ _ _ => rfl, fun a h1 h2 _ => ⟨h1, h2⟩⟩

theorem applyVarEqBounds_panic_doms (m : LModel) (x y : Nat)
    (h : ((m.doms.getD x []).isEmpty || (m.doms.getD y []).isEmpty) = true) :
    (m.applyVarEqBounds x y).doms = m.doms := by
  simp only [applyVarEqBounds]; rw [if_pos h]

/-! ### 6. posting the linear fragment -/

/-- the immediate `Var == Val` / `Val == Var` pattern of `post_constraint_kind` -/
def immediate : CmpOp → Expr → Expr → Bool
  | .eq, .var _, .val _ => true
  | .eq, .val _, .var _ => true
  | _, _, _ => false

/-- the immediate bound intersection of `Var == Var` -/
def preEq (m : LModel) : CmpOp → Expr → Expr → LModel
  | .eq, .var a, .var b => m.applyVarEqBounds a b
  | _, _, _ => m

theorem postCon_bin (m : LModel) (l : Expr) (op : CmpOp) (r : Expr) :
    postCon m (.bin l op r) =
      if immediate op l r then (preEq m op l r).materialize (.bin l op r)
      else match linearise l op r with
        | some p => { preEq m op l r with pending := (preEq m op l r).pending ++ [p] }
        | none => { preEq m op l r with pending := (preEq m op l r).pending ++ [.ast (.bin l op r)] } := by
  cases op <;> cases l <;> cases r <;> rfl

/-- `preEq` only edits domains, only shrinks them, and keeps every assignment inside the old
domains at which the comparison is true -/
theorem preEq_sound (m : LModel) (l : Expr) (op : CmpOp) (r : Expr) :
    (preEq m op l r).doms.length = m.doms.length ∧
    (preEq m op l r).props = m.props ∧
    (preEq m op l r).pending = m.pending ∧
    (∀ i v, v ∈ (preEq m op l r).doms.getD i [] → v ∈ m.doms.getD i []) ∧
    (∀ a : Nat → Int, (∀ i, i < m.doms.length → a i ∈ m.doms.getD i []) →
      (Con.bin l op r).eval a = some true →
      ∀ i, i < m.doms.length → a i ∈ (preEq m op l r).doms.getD i []) := by
  have triv : (m.doms.length = m.doms.length ∧ m.props = m.props ∧ m.pending = m.pending ∧
      (∀ i v, v ∈ m.doms.getD i [] → v ∈ m.doms.getD i []) ∧
      (∀ a : Nat → Int, (∀ i, i < m.doms.length → a i ∈ m.doms.getD i []) →
        (Con.bin l op r).eval a = some true →
        ∀ i, i < m.doms.length → a i ∈ m.doms.getD i [])) :=
    ⟨rfl, rfl, rfl, fun _ _ h => h, fun _ h _ => h⟩
  cases op <;> try exact triv
  cases l <;> try exact triv
  cases r <;> try exact triv
  rename_i x y
  show (m.applyVarEqBounds x y).doms.length = _ ∧ (m.applyVarEqBounds x y).props = _ ∧
    (m.applyVarEqBounds x y).pending = _ ∧ (∀ i v, v ∈ (m.applyVarEqBounds x y).doms.getD i [] → _) ∧
    (∀ a : Nat → Int, _ → _ → ∀ i, _ → a i ∈ (m.applyVarEqBounds x y).doms.getD i [])
  obtain ⟨h1, h2, h3, _, h5, h6, h7⟩ := applyVarEqBounds_sound m x y
  refine ⟨h1, h2, h3, h5, ?_⟩
  intro a hdom heval i hi
  have hxy : a x = a y := by
    simp only [Con.eval, Expr.eval, CmpOp.holds, bind, Option.bind, pure, Option.some.injEq,
      beq_iff_eq] at heval
    exact heval
  by_cases hemp : ((m.doms.getD x []).isEmpty || (m.doms.getD y []).isEmpty) = true
  · rw [applyVarEqBounds_panic_doms m x y hemp]; exact hdom i hi
  · have hemp' : ((m.doms.getD x []).isEmpty || (m.doms.getD y []).isEmpty) = false := by
      simpa using hemp
    rw [Bool.or_eq_false_iff] at hemp'
    have hxl := lt_length_of_getD_ne_nil m.doms x (isEmpty_false_ne_nil _ hemp'.1)
    have hyl := lt_length_of_getD_ne_nil m.doms y (isEmpty_false_ne_nil _ hemp'.2)
    obtain ⟨hx', hy'⟩ := h7 a (hdom x hxl) (hdom y hyl) hxy
    by_cases hix : i = x
    · subst hix; exact hx'
    · by_cases hiy : i = y
      · subst hiy; exact hy'
      · rw [h6 i hix hiy]; exact hdom i hi

end LModel

/-- *simple* constraint: a top-level comparison that linearises and is not the immediate
`Var == Val` / `Val == Var` pattern -/
def Con.simple : Con → Bool
  | .bin l op r => (LModel.linearise l op r).isSome && !LModel.immediate op l r
  | _ => false

/-- the linear row `(coefficients, variables, operator, constant)` a simple constraint becomes -/
def Con.row : Con → List Int × List Nat × CmpOp × Int
  | .bin l op r =>
    match LModel.linearise l op r with
    | some (.lin cs xs op' k) => (cs, xs, op', k)
    | _ => ([], [], op, 0)
  | _ => ([], [], .eq, 0)

/-- the propagator a simple constraint is lowered to -/
def Con.toLP (c : Con) : LP := LModel.linLP c.row.1 c.row.2.1 c.row.2.2.1 c.row.2.2.2

namespace LModel

theorem simple_row (c : Con) (hs : c.simple = true) :
    ∃ l op r, c = .bin l op r ∧ immediate op l r = false ∧
      linearise l op r = some (.lin c.row.1 c.row.2.1 c.row.2.2.1 c.row.2.2.2) ∧
      c.row.2.2.1 = op ∧ c.row.1.length = c.row.2.1.length ∧
      ∀ a, c.eval a = some (op.holds (PK.linVal c.row.1 c.row.2.1 a) c.row.2.2.2) := by
  cases c with
  | bin l op r =>
    simp only [Con.simple, Bool.and_eq_true, Bool.not_eq_true'] at hs
    obtain ⟨h1, h2⟩ := hs
    cases hl : linearise l op r with
    | none => simp [hl] at h1
    | some p =>
      obtain ⟨cs, xs, k, rfl⟩ := linearise_is_lin l r op p hl
      obtain ⟨_, hlen, hsem⟩ := linearise_sound l r op op cs xs k hl
      have hrow : (Con.bin l op r).row = (cs, xs, op, k) := by simp only [Con.row, hl]
      refine ⟨l, op, r, rfl, h2, ?_, ?_, ?_, ?_⟩
      · rw [hrow]; exact hl
      · rw [hrow]
      · rw [hrow]; exact hlen
      · rw [hrow]; exact hsem
  | and _ _ => simp [Con.simple] at hs
  | or _ _ => simp [Con.simple] at hs
  | not _ => simp [Con.simple] at hs

/-- a simple constraint holds exactly when its lowered propagator's documented meaning holds -/
theorem simple_sem (c : Con) (hs : c.simple = true) (a : Nat → Int) :
    c.eval a = some (PK.holds a c.toLP.toPK) := by
  obtain ⟨l, op, r, _, _, _, hop, _, hsem⟩ := simple_row c hs
  rw [Con.toLP, linLP_sem, hop]; exact hsem a

/-- posting one simple constraint: one pending linear row is appended; nothing but the domains
changes, they only shrink, and solutions of the constraint are kept -/
theorem postCon_simple (m : LModel) (c : Con) (hs : c.simple = true) :
    (postCon m c).doms.length = m.doms.length ∧
    (postCon m c).props = m.props ∧
    (postCon m c).pending = m.pending ++ [.lin c.row.1 c.row.2.1 c.row.2.2.1 c.row.2.2.2] ∧
    (∀ i v, v ∈ (postCon m c).doms.getD i [] → v ∈ m.doms.getD i []) ∧
    (∀ a : Nat → Int, (∀ i, i < m.doms.length → a i ∈ m.doms.getD i []) → c.eval a = some true →
      ∀ i, i < m.doms.length → a i ∈ (postCon m c).doms.getD i []) := by
  obtain ⟨l, op, r, rfl, himm, hlin, _, _, _⟩ := simple_row c hs
  obtain ⟨h1, h2, h3, h4, h5⟩ := preEq_sound m l op r
  have : postCon m (.bin l op r) = { preEq m op l r with pending := (preEq m op l r).pending ++
      [.lin (Con.bin l op r).row.1 (Con.bin l op r).row.2.1 (Con.bin l op r).row.2.2.1
        (Con.bin l op r).row.2.2.2] } := by
    rw [postCon_bin, himm, hlin]; rfl
  rw [this]
  exact ⟨h1, h2, by rw [← h3], h4, h5⟩

/-- posting a list of simple constraints -/
theorem foldl_postCon_simple (cs : List Con) (hs : ∀ c ∈ cs, c.simple = true) (m : LModel) :
    (cs.foldl postCon m).doms.length = m.doms.length ∧
    (cs.foldl postCon m).props = m.props ∧
    (cs.foldl postCon m).pending = m.pending ++
      cs.map (fun c => Pending.lin c.row.1 c.row.2.1 c.row.2.2.1 c.row.2.2.2) ∧
    (∀ i v, v ∈ (cs.foldl postCon m).doms.getD i [] → v ∈ m.doms.getD i []) ∧
    (∀ a : Nat → Int, (∀ i, i < m.doms.length → a i ∈ m.doms.getD i []) →
      (∀ c ∈ cs, c.eval a = some true) →
      ∀ i, i < m.doms.length → a i ∈ (cs.foldl postCon m).doms.getD i []) := by
  induction cs generalizing m with
  | nil => exact ⟨rfl, rfl, by simp, fun _ _ h => h, fun _ h _ => h⟩
  | cons c cs ih =>
    simp only [List.foldl_cons]
    obtain ⟨p1, p2, p3, p4, p5⟩ := postCon_simple m c (hs c (List.mem_cons_self ..))
    obtain ⟨q1, q2, q3, q4, q5⟩ := ih (fun c' hc' => hs c' (List.mem_cons_of_mem _ hc')) (postCon m c)
    refine ⟨by rw [q1, p1], by rw [q2, p2], by rw [q3, p3]; simp, fun i v hv => p4 i v (q4 i v hv), ?_⟩
    intro a hdom hall i hi
    have h1 := p5 a hdom (hall c (List.mem_cons_self ..))
    exact q5 a (by rw [p1]; exact h1) (fun c' hc' => hall c' (List.mem_cons_of_mem _ hc')) i (by rw [p1]; exact hi)

/-- one step of `materialize_pending_asts` -/
def lowerStep (acc : LModel) (p : Pending) : LModel :=
  match p with
  | .ast c => acc.materialize c
  | .lin cs xs op k => acc.materializeLin cs xs op k

theorem lower_eq (m : LModel) : m.lower = m.pending.foldl lowerStep { m with pending := [] } := rfl

/-- `materialize_pending_asts` on a list of linear rows appends one propagator per row -/
theorem lower_fold_lin (rows : List (List Int × List Nat × CmpOp × Int)) (m : LModel) :
    (rows.map (fun r => Pending.lin r.1 r.2.1 r.2.2.1 r.2.2.2)).foldl lowerStep m =
    { m with props := m.props ++ rows.map (fun r => linLP r.1 r.2.1 r.2.2.1 r.2.2.2) } := by
  induction rows generalizing m with
  | nil => simp
  | cons r rows ih =>
    simp only [List.map_cons, List.foldl_cons]
    rw [ih]
    simp only [lowerStep]
    rw [materializeLin_eq]
    simp [post]

/-- lowering after posting a list of simple constraints to a fresh model: one propagator per
constraint, in order; only the domains were touched by posting -/
theorem lower_simple (doms : List Dom) (cs : List Con) (hs : ∀ c ∈ cs, c.simple = true) :
    ((cs.foldl postCon { doms := doms }).lower).doms = (cs.foldl postCon { doms := doms }).doms ∧
    ((cs.foldl postCon { doms := doms }).lower).props = cs.map Con.toLP ∧
    ((cs.foldl postCon { doms := doms }).lower).pending = [] ∧
    ((cs.foldl postCon { doms := doms }).lower).panicked = (cs.foldl postCon { doms := doms }).panicked := by
  obtain ⟨_, q2, q3, _, _⟩ := foldl_postCon_simple cs hs { doms := doms }
  have hp : (cs.foldl postCon { doms := doms }).pending =
      (cs.map Con.row).map (fun r => Pending.lin r.1 r.2.1 r.2.2.1 r.2.2.2) := by
    rw [q3]; simp
  rw [lower_eq, hp, lower_fold_lin]
  refine ⟨rfl, ?_, rfl, rfl⟩
  show (cs.foldl postCon { doms := doms }).props ++ _ = _
  rw [q2]
  simp [Con.toLP]

end LModel
/-! ### 7. auxiliary variables of `+`/`-` trees (`get_expr_var` / `post_expression_constraint`) -/

namespace Expr

/-- trees over variables, constants, `+` and `-` -/
def AS : Expr → Bool
  | .var _ => true
  | .val _ => true
  | .add a b => AS a && AS b
  | .sub a b => AS a && AS b
  | _ => false

/-- value of a `+`/`-` tree (total) -/
def ev (a : Nat → Int) : Expr → Int
  | .var i => a i
  | .val k => k
  | .add x y => ev a x + ev a y
  | .sub x y => ev a x - ev a y
  | _ => 0

theorem eval_eq_ev (e : Expr) (h : e.AS = true) (a : Nat → Int) : e.eval a = some (e.ev a) := by
  induction e with
  | var i => rfl
  | val k => rfl
  | add x y ihx ihy =>
    simp only [AS, Bool.and_eq_true] at h
    simp [eval, ev, ihx h.1, ihy h.2]
  | sub x y ihx ihy =>
    simp only [AS, Bool.and_eq_true] at h
    simp [eval, ev, ihx h.1, ihy h.2]
  | mul _ _ _ _ => simp [AS] at h
  | div _ _ _ _ => simp [AS] at h
  | mod _ _ _ _ => simp [AS] at h

theorem varsLt_mono (e : Expr) (n n' : Nat) (hn : n ≤ n') (h : e.varsLt n = true) : e.varsLt n' = true := by
  induction e with
  | var i => simp only [varsLt, decide_eq_true_eq] at h ⊢; omega
  | val k => rfl
  | add x y ihx ihy => simp only [varsLt, Bool.and_eq_true] at h ⊢; exact ⟨ihx h.1, ihy h.2⟩
  | sub x y ihx ihy => simp only [varsLt, Bool.and_eq_true] at h ⊢; exact ⟨ihx h.1, ihy h.2⟩
  | mul x y ihx ihy => simp only [varsLt, Bool.and_eq_true] at h ⊢; exact ⟨ihx h.1, ihy h.2⟩
  | div x y ihx ihy => simp only [varsLt, Bool.and_eq_true] at h ⊢; exact ⟨ihx h.1, ihy h.2⟩
  | mod x y ihx ihy => simp only [varsLt, Bool.and_eq_true] at h ⊢; exact ⟨ihx h.1, ihy h.2⟩

theorem ev_congr (e : Expr) (n : Nat) (h : e.varsLt n = true) (a b : Nat → Int)
    (hab : ∀ i, i < n → a i = b i) : e.ev a = e.ev b := by
  induction e with
  | var i => simp only [varsLt, decide_eq_true_eq] at h; exact hab i h
  | val k => rfl
  | add x y ihx ihy =>
    simp only [varsLt, Bool.and_eq_true] at h
    simp only [ev, ihx h.1, ihy h.2]
  | sub x y ihx ihy =>
    simp only [varsLt, Bool.and_eq_true] at h
    simp only [ev, ihx h.1, ihy h.2]
  | mul _ _ _ _ => rfl
  | div _ _ _ _ => rfl
  | mod _ _ _ _ => rfl

/-- every non-variable sub-expression (constants included) has its value in `[-1000, 1000]`, the
fixed domain of the auxiliary variables -/
def InR (a : Nat → Int) : Expr → Prop
  | .var _ => True
  | .val k => -1000 ≤ k ∧ k ≤ 1000
  | .add x y => InR a x ∧ InR a y ∧ -1000 ≤ ev a x + ev a y ∧ ev a x + ev a y ≤ 1000
  | .sub x y => InR a x ∧ InR a y ∧ -1000 ≤ ev a x - ev a y ∧ ev a x - ev a y ≤ 1000
  | _ => True

theorem InR_congr (e : Expr) (n : Nat) (h : e.varsLt n = true) (a b : Nat → Int)
    (hab : ∀ i, i < n → a i = b i) (hr : InR a e) : InR b e := by
  induction e with
  | var i => trivial
  | val k => exact hr
  | add x y ihx ihy =>
    simp only [varsLt, Bool.and_eq_true] at h
    simp only [InR] at hr ⊢
    rw [← ev_congr x n h.1 a b hab, ← ev_congr y n h.2 a b hab]
    exact ⟨ihx h.1 hr.1, ihy h.2 hr.2.1, hr.2.2⟩
  | sub x y ihx ihy =>
    simp only [varsLt, Bool.and_eq_true] at h
    simp only [InR] at hr ⊢
    rw [← ev_congr x n h.1 a b hab, ← ev_congr y n h.2 a b hab]
    exact ⟨ihx h.1 hr.1, ihy h.2 hr.2.1, hr.2.2⟩
  | mul _ _ _ _ => trivial
  | div _ _ _ _ => trivial
  | mod _ _ _ _ => trivial

theorem InR_range (e : Expr) (a : Nat → Int) (has : e.AS = true) (hv : e.isVar = false)
    (hr : InR a e) : -1000 ≤ e.ev a ∧ e.ev a ≤ 1000 := by
  cases e with
  | var i => simp [isVar] at hv
  | val k => exact hr
  | add x y => exact hr.2.2
  | sub x y => exact hr.2.2
  | mul _ _ => simp [AS] at has
  | div _ _ => simp [AS] at has
  | mod _ _ => simp [AS] at has

end Expr

namespace LModel

theorem mem_auxDom (v : Int) : v ∈ auxDom ↔ -1000 ≤ v ∧ v ≤ 1000 := by
  simp only [auxDom, rangeDom, SS.intRange, List.mem_map, List.mem_range]
  constructor
  · rintro ⟨k, hk, rfl⟩
    omega
  · intro h
    refine ⟨(v + 1000).toNat, by omega, by omega⟩

/-- `m'` extends `m` by the variables `D` and the propagators `P` -/
structure Ext (m m' : LModel) (D : List Dom) (P : List LP) : Prop where
  doms : m'.doms = m.doms ++ D
  props : m'.props = m.props ++ P
  pending : m'.pending = m.pending
  panicked : m'.panicked = m.panicked

theorem Ext.refl (m : LModel) : Ext m m [] [] := ⟨by simp, by simp, rfl, rfl⟩

theorem Ext.trans {m m1 m2 : LModel} {D1 D2 : List Dom} {P1 P2 : List LP}
    (h1 : Ext m m1 D1 P1) (h2 : Ext m1 m2 D2 P2) : Ext m m2 (D1 ++ D2) (P1 ++ P2) :=
  ⟨by rw [h2.doms, h1.doms, List.append_assoc], by rw [h2.props, h1.props, List.append_assoc],
   by rw [h2.pending, h1.pending], by rw [h2.panicked, h1.panicked]⟩

theorem Ext.length {m m' : LModel} {D : List Dom} {P : List LP} (h : Ext m m' D P) :
    m'.doms.length = m.doms.length + D.length := by rw [h.doms, List.length_append]

theorem Ext.newVar (m : LModel) (d : Dom) : Ext m (m.newVar d).1 [d] [] :=
  ⟨rfl, by simp [LModel.newVar], rfl, rfl⟩

theorem Ext.post (m : LModel) (p : LP) : Ext m (m.post p) [] [p] :=
  ⟨by simp [LModel.post], rfl, rfl, rfl⟩

/-- the new variables (indices `n, n+1, …`) lie in their domains `D` and the new propagators `P`
hold (documented meaning) -/
def NewSat (n : Nat) (D : List Dom) (P : List LP) (a : Nat → Int) : Prop :=
  (∀ j d, D[j]? = some d → a (n + j) ∈ d) ∧ ∀ lp ∈ P, PK.holds a lp.toPK = true

theorem NewSat_nil (n : Nat) (a : Nat → Int) : NewSat n [] [] a :=
  ⟨fun j d h => by simp at h, fun lp h => by cases h⟩

theorem NewSat_append (n : Nat) (D1 D2 : List Dom) (P1 P2 : List LP) (a : Nat → Int) :
    NewSat n (D1 ++ D2) (P1 ++ P2) a ↔ NewSat n D1 P1 a ∧ NewSat (n + D1.length) D2 P2 a := by
  constructor
  · rintro ⟨hd, hp⟩
    refine ⟨⟨?_, fun lp h => hp lp (List.mem_append_left _ h)⟩, ⟨?_, fun lp h => hp lp (List.mem_append_right _ h)⟩⟩
    · intro j d hj
      have hlt : j < D1.length := by
        by_cases h : j < D1.length
        · exact h
        · rw [List.getElem?_eq_none (by omega)] at hj; cases hj
      exact hd j d (by rw [List.getElem?_append_left hlt]; exact hj)
    · intro j d hj
      have := hd (D1.length + j) d (by rw [List.getElem?_append_right (by omega)]; simpa using hj)
      rw [Nat.add_assoc]; exact this
  · rintro ⟨⟨hd1, hp1⟩, ⟨hd2, hp2⟩⟩
    refine ⟨?_, ?_⟩
    · intro j d hj
      by_cases hlt : j < D1.length
      · rw [List.getElem?_append_left hlt] at hj; exact hd1 j d hj
      · rw [List.getElem?_append_right (by omega)] at hj
        have := hd2 (j - D1.length) d hj
        have e : n + D1.length + (j - D1.length) = n + j := by omega
        rw [e] at this; exact this
    · intro lp h
      rcases List.mem_append.1 h with h | h
      · exact hp1 lp h
      · exact hp2 lp h

/-- agreement of two assignments below `n` -/
def Agree (n : Nat) (a b : Nat → Int) : Prop := ∀ i, i < n → a i = b i

theorem Agree.mono {n n' : Nat} {a b : Nat → Int} (h : Agree n' a b) (hn : n ≤ n') : Agree n a b :=
  fun i hi => h i (by omega)

theorem Agree.trans {n : Nat} {a b c : Nat → Int} (h1 : Agree n a b) (h2 : Agree n b c) : Agree n a c :=
  fun i hi => (h1 i hi).trans (h2 i hi)

theorem Agree.symm {n : Nat} {a b : Nat → Int} (h : Agree n a b) : Agree n b a :=
  fun i hi => (h i hi).symm

/-- the block `(D, P)` appended at index `n` makes `v` carry the value of `e`:
* (forced) every assignment satisfying the block has `a v = ev a e`;
* (unique) two satisfying assignments that agree below `n` agree on the block's variables;
* (exists) if the sub-expression values are in range and `a v` already is the value of `e`, the
  values of the block's variables can be chosen so that the block is satisfied — by every
  assignment agreeing with the chosen one up to the end of the block. -/
def Good (n : Nat) (D : List Dom) (P : List LP) (e : Expr) (v : Nat) : Prop :=
  (∀ a, NewSat n D P a → a v = e.ev a) ∧
  (∀ a b, Agree n a b → NewSat n D P a → NewSat n D P b → Agree (n + D.length) a b) ∧
  (∀ a, e.InR a → a v = e.ev a →
    ∃ a', Agree n a' a ∧ ∀ a'', Agree (n + D.length) a'' a' → NewSat n D P a'')

/-- specification of `post_expression_constraint` on a tree -/
def PostSpec (e : Expr) : Prop :=
  ∀ (m : LModel) (res : Nat), e.varsLt m.doms.length = true → res < m.doms.length →
    ∃ D P, Ext m (postExpr m e res) D P ∧ Good m.doms.length D P e res

end LModel
namespace LModel

/-- the propagator `postCmp` appends -/
def cmpLP : CmpOp → Nat → Nat → LP
  | .eq, l, r => .eqVV l r
  | .ne, l, r => .neVV l r
  | .lt, l, r => .ltVV l r
  | .le, l, r => .leVV l r
  | .gt, l, r => .ltVV r l
  | .ge, l, r => .leVV r l

theorem postCmp_eq (m : LModel) (op : CmpOp) (l r : Nat) : m.postCmp op l r = m.post (cmpLP op l r) := by
  cases op <;> rfl

/-- documented meaning of the propagator a comparison of two variables is lowered to (`<` is
`x+1 ≤ y`, `>`/`≥` swap the operands) -/
theorem cmpLP_sem (op : CmpOp) (l r : Nat) (a : Nat → Int) :
    PK.holds a (cmpLP op l r).toPK = op.holds (a l) (a r) := by
  cases op
  · rfl
  · rfl
  · show decide (a l + 1 ≤ a r) = decide (a l < a r)
    rw [Bool.eq_iff_iff]; simp only [decide_eq_true_eq]; omega
  · rfl
  · show decide (a r + 1 ≤ a l) = decide (a l > a r)
    rw [Bool.eq_iff_iff]; simp only [decide_eq_true_eq]; omega
  · rfl

theorem holds_eqVV (a : Nat → Int) (x y : Nat) : PK.holds a (LP.eqVV x y).toPK = true ↔ a x = a y := by
  show (a x == a y) = true ↔ _
  simp

theorem holds_eqKV (a : Nat → Int) (k : Int) (y : Nat) : PK.holds a (LP.eqKV k y).toPK = true ↔ k = a y := by
  show (k == a y) = true ↔ _
  simp

theorem holds_addVV (a : Nat → Int) (x y s : Nat) :
    PK.holds a (LP.addVV x y s).toPK = true ↔ a x + a y = a s := by
  show (a x + a y == a s) = true ↔ _
  simp

theorem holds_subVV (a : Nat → Int) (x y s : Nat) :
    PK.holds a (LP.subVV x y s).toPK = true ↔ a x - a y = a s := by
  show (a x + -(a y) * (- -1) == a s) = true ↔ _
  simp only [beq_iff_eq]
  have : -(a y) * (- -1) = -(a y) := by simp
  rw [this]; omega

theorem postSpec_var (v : Nat) : PostSpec (.var v) := by
  intro m res hv hres
  simp only [Expr.varsLt, decide_eq_true_eq] at hv
  refine ⟨[], [.eqVV v res], Ext.post m _, ?_, ?_, ?_⟩
  · intro a hs
    exact ((holds_eqVV a v res).1 (hs.2 _ (List.mem_singleton.2 rfl))).symm
  · intro a b hab _ _
    exact hab
  · intro a _ hval
    refine ⟨a, fun _ _ => rfl, fun a'' hag => ⟨fun j d h => by simp at h, ?_⟩⟩
    intro lp hlp
    rw [List.mem_singleton.1 hlp, holds_eqVV, hag v (by simp; omega), hag res (by simp; omega)]
    exact hval.symm

theorem postSpec_val (k : Int) : PostSpec (.val k) := by
  intro m res _ hres
  refine ⟨[], [.eqKV k res], Ext.post m _, ?_, ?_, ?_⟩
  · intro a hs
    exact ((holds_eqKV a k res).1 (hs.2 _ (List.mem_singleton.2 rfl))).symm
  · intro a b hab _ _
    exact hab
  · intro a _ hval
    refine ⟨a, fun _ _ => rfl, fun a'' hag => ⟨fun j d h => by simp at h, ?_⟩⟩
    intro lp hlp
    rw [List.mem_singleton.1 hlp, holds_eqKV, hag res (by simp; omega)]
    exact hval.symm

/-- constraints of one operand: none for a variable, `postExpr` otherwise -/
def childPost (m : LModel) (c : Expr) (v : Nat) : LModel := if c.isVar then m else postExpr m c v

theorem childPost_spec (c : Expr) (hspec : PostSpec c) (m : LModel) (v : Nat)
    (hv : c.varsLt m.doms.length = true) (hvn : v < m.doms.length)
    (hk : c.isVar = true → c = .var v) :
    ∃ D P, Ext m (childPost m c v) D P ∧ Good m.doms.length D P c v := by
  by_cases hc : c.isVar = true
  · have : childPost m c v = m := by simp [childPost, hc]
    rw [this, hk hc]
    refine ⟨[], [], Ext.refl m, fun a _ => rfl, fun a b hab _ _ => hab, ?_⟩
    intro a _ _
    exact ⟨a, fun _ _ => rfl, fun a'' _ => NewSat_nil _ _⟩
  · have : childPost m c v = postExpr m c v := by simp [childPost, hc]
    rw [this]
    exact hspec m v hv hvn

/-- `create_result_var` -/
theorem createResultVar_spec (m : LModel) (c : Expr) (hv : c.varsLt m.doms.length = true) :
    (c = .var (m.createResultVar c).2 ∧ (m.createResultVar c).2 < m.doms.length ∧
      (m.createResultVar c).1 = m) ∨
    (c.isVar = false ∧ (m.createResultVar c).2 = m.doms.length ∧
      (m.createResultVar c).1 = (m.newVar auxDom).1) := by
  cases c with
  | var i =>
    left
    simp only [Expr.varsLt, decide_eq_true_eq] at hv
    exact ⟨rfl, hv, rfl⟩
  | val k => right; exact ⟨rfl, rfl, rfl⟩
  | add _ _ => right; exact ⟨rfl, rfl, rfl⟩
  | sub _ _ => right; exact ⟨rfl, rfl, rfl⟩
  | mul _ _ => right; exact ⟨rfl, rfl, rfl⟩
  | div _ _ => right; exact ⟨rfl, rfl, rfl⟩
  | mod _ _ => right; exact ⟨rfl, rfl, rfl⟩

/-- the common part of the `Add`/`Sub` arms of `post_expression_constraint`: both result
variables, then the constraints of the left operand, then those of the right one -/
def postKids (m : LModel) (l r : Expr) : LModel × Nat × Nat :=
  let (m1, lv) := m.createResultVar l
  let (m2, rv) := m1.createResultVar r
  let m3 := if l.isVar then m2 else postExpr m2 l lv
  let m4 := if r.isVar then m3 else postExpr m3 r rv
  (m4, lv, rv)

theorem postExpr_add (m : LModel) (l r : Expr) (res : Nat) :
    postExpr m (.add l r) res =
      (postKids m l r).1.post (.addVV (postKids m l r).2.1 (postKids m l r).2.2 res) := rfl

theorem postExpr_sub (m : LModel) (l r : Expr) (res : Nat) :
    postExpr m (.sub l r) res =
      (postKids m l r).1.post (.subVV (postKids m l r).2.1 (postKids m l r).2.2 res) := rfl

theorem postKids_eq (m : LModel) (l r : Expr) :
    postKids m l r =
      (childPost (childPost ((m.createResultVar l).1.createResultVar r).1 l (m.createResultVar l).2) r
          ((m.createResultVar l).1.createResultVar r).2,
        (m.createResultVar l).2, ((m.createResultVar l).1.createResultVar r).2) := rfl

end LModel
namespace LModel

theorem crv_facts (m : LModel) (c : Expr) (hv : c.varsLt m.doms.length = true) :
    ∃ D0, Ext m (m.createResultVar c).1 D0 [] ∧
      (m.createResultVar c).2 < m.doms.length + D0.length ∧
      (c.isVar = true → c = .var (m.createResultVar c).2) ∧
      ((m.createResultVar c).2 < m.doms.length → c = .var (m.createResultVar c).2) ∧
      (∀ a b, Agree m.doms.length a b → a (m.createResultVar c).2 = c.ev a →
        b (m.createResultVar c).2 = c.ev b → Agree (m.doms.length + D0.length) a b) ∧
      (∀ a : Nat → Int, (c.isVar = false →
          -1000 ≤ a (m.createResultVar c).2 ∧ a (m.createResultVar c).2 ≤ 1000) →
        NewSat m.doms.length D0 [] a) := by
  rcases createResultVar_spec m c hv with ⟨h1, h2, h3⟩ | ⟨h1, h2, h3⟩
  · refine ⟨[], by rw [h3]; exact Ext.refl m, by simpa using h2, fun _ => h1, fun _ => h1,
      fun a b hab _ _ => hab, fun a _ => NewSat_nil _ _⟩
  · refine ⟨[auxDom], by rw [h3]; exact Ext.newVar m auxDom, by rw [h2]; simp, ?_, ?_, ?_, ?_⟩
    · intro h; rw [h1] at h; cases h
    · intro h; omega
    · intro a b hab ha hb i hi
      by_cases hlt : i < m.doms.length
      · exact hab i hlt
      · have : i = m.doms.length := by simp at hi; omega
        rw [this, ← h2, ha, hb]
        exact Expr.ev_congr c _ hv a b hab
    · intro a ha
      refine ⟨?_, fun lp h => by cases h⟩
      intro j d hj
      have hj0 : j = 0 := by
        cases j with
        | zero => rfl
        | succ j => simp at hj
      subst hj0
      simp at hj
      subst hj
      rw [mem_auxDom]
      have := ha h1
      rw [h2] at this
      exact this

/-- the two operand variables carry the operands' values -/
def KGood (n : Nat) (D : List Dom) (P : List LP) (l r : Expr) (lv rv : Nat) : Prop :=
  (∀ a, NewSat n D P a → a lv = l.ev a ∧ a rv = r.ev a) ∧
  (∀ a b, Agree n a b → NewSat n D P a → NewSat n D P b → Agree (n + D.length) a b) ∧
  (∀ a, l.InR a → r.InR a →
    ∃ a', Agree n a' a ∧ a' lv = l.ev a ∧ a' rv = r.ev a ∧
      ∀ a'', Agree (n + D.length) a'' a' → NewSat n D P a'')

theorem postKids_spec (l r : Expr) (hl : PostSpec l) (hr : PostSpec r)
    (hasl : l.AS = true) (hasr : r.AS = true) (m : LModel)
    (hvl : l.varsLt m.doms.length = true) (hvr : r.varsLt m.doms.length = true) :
    ∃ D P, Ext m (postKids m l r).1 D P ∧
      (postKids m l r).2.1 < m.doms.length + D.length ∧
      (postKids m l r).2.2 < m.doms.length + D.length ∧
      KGood m.doms.length D P l r (postKids m l r).2.1 (postKids m l r).2.2 := by
  rw [postKids_eq]
  generalize hn : m.doms.length = n at hvl hvr
  -- block 0: the two result variables
  obtain ⟨D0l, e0l, vl, kl, wl, ul, bl⟩ := crv_facts m l (by rw [hn]; exact hvl)
  generalize hm1 : (m.createResultVar l).1 = m1 at *
  generalize hlv : (m.createResultVar l).2 = lv at *
  have h1 : m1.doms.length = n + D0l.length := by rw [e0l.length, hn]
  obtain ⟨D0r, e0r, vr, kr, wr, ur, br⟩ := crv_facts m1 r
    (Expr.varsLt_mono r n _ (by omega) hvr)
  generalize hm2 : (m1.createResultVar r).1 = m2 at *
  generalize hrv : (m1.createResultVar r).2 = rv at *
  have hl2 : (D0l ++ D0r).length = D0l.length + D0r.length := List.length_append
  have h2 : m2.doms.length = n + (D0l ++ D0r).length := by
    rw [e0r.length, h1]; omega
  rw [hn] at vl wl ul bl
  rw [h1] at vr wr ur br
  -- the operands' own constraints
  obtain ⟨Dl, Pl, el, gl⟩ := childPost_spec l hl m2 lv
    (Expr.varsLt_mono l n _ (by omega) hvl) (by omega) kl
  generalize hm3 : childPost m2 l lv = m3 at *
  have hl3 : ((D0l ++ D0r) ++ Dl).length = D0l.length + D0r.length + Dl.length := by
    rw [List.length_append, hl2]
  have h3 : m3.doms.length = n + ((D0l ++ D0r) ++ Dl).length := by
    rw [el.length, h2]; omega
  obtain ⟨Dr, Pr, er, gr⟩ := childPost_spec r hr m3 rv
    (Expr.varsLt_mono r n _ (by omega) hvr)
    (by omega) kr
  have hl4 : (((D0l ++ D0r) ++ Dl) ++ Dr).length = D0l.length + D0r.length + Dl.length + Dr.length := by
    rw [List.length_append, hl3]
  rw [h2] at gl
  rw [h3] at gr
  obtain ⟨gl1, gl2, gl3⟩ := gl
  obtain ⟨gr1, gr2, gr3⟩ := gr
  have hsplit : ∀ a, NewSat n (((D0l ++ D0r) ++ Dl) ++ Dr) ((([] ++ []) ++ Pl) ++ Pr) a ↔
      ((NewSat n D0l [] a ∧ NewSat (n + D0l.length) D0r [] a) ∧
        NewSat (n + (D0l ++ D0r).length) Dl Pl a) ∧
        NewSat (n + ((D0l ++ D0r) ++ Dl).length) Dr Pr a := by
    intro a
    rw [NewSat_append, NewSat_append, NewSat_append]
  refine ⟨((D0l ++ D0r) ++ Dl) ++ Dr, (([] ++ []) ++ Pl) ++ Pr,
    ((e0l.trans e0r).trans el).trans er, ?_, ?_, ?_, ?_, ?_⟩
  · simp only [List.length_append]; omega
  · simp only [List.length_append]; omega
  · intro a hs
    obtain ⟨⟨_, hsl⟩, hsr⟩ := (hsplit a).1 hs
    exact ⟨gl1 a hsl, gr1 a hsr⟩
  · intro a b hab hsa hsb
    obtain ⟨⟨_, hsla⟩, hsra⟩ := (hsplit a).1 hsa
    obtain ⟨⟨_, hslb⟩, hsrb⟩ := (hsplit b).1 hsb
    have hu1 := ul a b hab (gl1 a hsla) (gl1 b hslb)
    have hu2 := ur a b hu1 (gr1 a hsra) (gr1 b hsrb)
    have hu3 := gl2 a b (fun i hi => hu2 i (by omega)) hsla hslb
    have hu4 := gr2 a b (fun i hi => hu3 i (by omega)) hsra hsrb
    intro i hi
    exact hu4 i (by omega)
  · intro a hrl hrr
    -- values of the two result variables
    let a0 : Nat → Int := fun k => if k = rv then r.ev a else if k = lv then l.ev a else a k
    have ha0 : Agree n a0 a := by
      intro k hk
      show (if k = rv then r.ev a else if k = lv then l.ev a else a k) = a k
      by_cases hkr : k = rv
      · rw [if_pos hkr]
        have hrv' : rv < n + D0l.length → r = .var rv := wr
        by_cases hlt : rv < n + D0l.length
        · rw [hrv' hlt, hkr]; rfl
        · omega
      · rw [if_neg hkr]
        by_cases hkl : k = lv
        · rw [if_pos hkl, wl (by omega), hkl]; rfl
        · rw [if_neg hkl]
    have ha0r : a0 rv = r.ev a := by
      show (if rv = rv then r.ev a else _) = _
      rw [if_pos rfl]
    have ha0l : a0 lv = l.ev a := by
      show (if lv = rv then r.ev a else if lv = lv then l.ev a else a lv) = _
      by_cases hlr : lv = rv
      · rw [if_pos hlr]
        -- only possible when both operands are the same variable
        by_cases hlt : rv < n + D0l.length
        · by_cases hlt' : lv < n
          · rw [wr hlt, wl hlt', hlr]
          · exfalso
            -- `lv` is new, so `lv = n`, but then `r = var n` contradicts `varsLt`
            have hr' := wr hlt
            rw [hr'] at hvr
            simp only [Expr.varsLt, decide_eq_true_eq] at hvr
            omega
        · exfalso
          have : lv < n + D0l.length := vl
          omega
      · rw [if_neg hlr, if_pos rfl]
    have hevl : l.ev a0 = l.ev a := Expr.ev_congr l n hvl a0 a ha0
    have hevr : r.ev a0 = r.ev a := Expr.ev_congr r n hvr a0 a ha0
    -- left operand
    obtain ⟨a1, ha1, hrob1⟩ := gl3 a0 (Expr.InR_congr l n hvl a a0 ha0.symm hrl) (by rw [ha0l, hevl])
    have ha1n : Agree n a1 a := (ha1.mono (by omega)).trans ha0
    -- right operand
    have ha1r : a1 rv = r.ev a1 := by
      rw [ha1 rv (by omega), ha0r]
      exact (Expr.ev_congr r n hvr a1 a ha1n).symm
    obtain ⟨a2, ha2, hrob2⟩ := gr3 a1 (Expr.InR_congr r n hvr a a1 ha1n.symm hrr) ha1r
    have ha21 : Agree (n + (D0l ++ D0r).length) a2 a1 := ha2.mono (by omega)
    refine ⟨a2, (ha2.mono (by omega)).trans ha1n, ?_, ?_, ?_⟩
    · rw [ha2 lv (by omega),
        ha1 lv (by omega), ha0l]
    · rw [ha2 rv (by omega),
        ha1 rv (by omega), ha0r]
    · intro a'' hag
      have hag2 : Agree (n + ((D0l ++ D0r) ++ Dl).length) a'' a2 :=
        hag.mono (by omega)
      have hag1 : Agree (n + (D0l ++ D0r).length) a'' a1 :=
        (hag2.mono (by omega)).trans ha21
      have hag0 : Agree (n + (D0l ++ D0r).length) a'' a0 := hag1.trans ha1
      rw [hsplit]
      refine ⟨⟨⟨?_, ?_⟩, ?_⟩, ?_⟩
      · apply bl
        intro hnv
        rw [hag0 lv (by omega), ha0l]
        exact Expr.InR_range l a hasl hnv hrl
      · apply br
        intro hnv
        rw [hag0 rv (by omega), ha0r]
        exact Expr.InR_range r a hasr hnv hrr
      · exact hrob1 a'' ((hag2.trans ha2).mono (by omega))
      · exact hrob2 a'' (hag.mono (by omega))

end LModel
namespace LModel

/-- a node `l ⊕ r` whose propagator `node` means `a lv ⊕ a rv = a res` -/
theorem postSpec_node (l r : Expr) (hl : PostSpec l) (hr : PostSpec r)
    (hasl : l.AS = true) (hasr : r.AS = true)
    (e : Expr) (f : Int → Int → Int) (node : Nat → Nat → Nat → LP)
    (hev : ∀ a, e.ev a = f (l.ev a) (r.ev a))
    (hin : ∀ a, e.InR a → l.InR a ∧ r.InR a)
    (hvars : ∀ n, e.varsLt n = true → l.varsLt n = true ∧ r.varsLt n = true)
    (hpost : ∀ m res, postExpr m e res =
      (postKids m l r).1.post (node (postKids m l r).2.1 (postKids m l r).2.2 res))
    (hnode : ∀ a x y s, PK.holds a (node x y s).toPK = true ↔ f (a x) (a y) = a s) :
    PostSpec e := by
  intro m res hv hres
  obtain ⟨hvl, hvr⟩ := hvars _ hv
  obtain ⟨D, P, ext, hlv, hrv, k1, k2, k3⟩ := postKids_spec l r hl hr hasl hasr m hvl hvr
  rw [hpost]
  generalize (postKids m l r).1 = mk at *
  generalize (postKids m l r).2.1 = lv at *
  generalize (postKids m l r).2.2 = rv at *
  have hsplit : ∀ a, NewSat m.doms.length (D ++ []) (P ++ [node lv rv res]) a ↔
      NewSat m.doms.length D P a ∧ f (a lv) (a rv) = a res := by
    intro a
    rw [NewSat_append]
    constructor
    · rintro ⟨h1, h2⟩
      exact ⟨h1, (hnode a lv rv res).1 (h2.2 _ (List.mem_singleton.2 rfl))⟩
    · rintro ⟨h1, h2⟩
      refine ⟨h1, fun j d h => by simp at h, fun lp hlp => ?_⟩
      rw [List.mem_singleton.1 hlp]; exact (hnode a lv rv res).2 h2
  refine ⟨D ++ [], P ++ [node lv rv res], ext.trans (Ext.post mk _), ?_, ?_, ?_⟩
  · intro a hs
    obtain ⟨h1, h2⟩ := (hsplit a).1 hs
    obtain ⟨e1, e2⟩ := k1 a h1
    rw [hev, ← e1, ← e2, h2]
  · intro a b hab hsa hsb
    have := k2 a b hab ((hsplit a).1 hsa).1 ((hsplit b).1 hsb).1
    simpa using this
  · intro a hr' hval
    obtain ⟨hrl, hrr⟩ := hin a hr'
    obtain ⟨a', hag, el, er, hrob⟩ := k3 a hrl hrr
    refine ⟨a', hag, fun a'' hag'' => ?_⟩
    have hag''' : Agree (m.doms.length + D.length) a'' a' := by simpa using hag''
    rw [hsplit]
    refine ⟨hrob a'' hag''', ?_⟩
    rw [hag''' lv hlv, hag''' rv hrv, hag''' res (by omega), el, er, hag res hres, hval, hev]

/-- **`post_expression_constraint` on `+`/`-` trees** -/
theorem postSpec (e : Expr) (has : e.AS = true) : PostSpec e := by
  induction e with
  | var i => exact postSpec_var i
  | val k => exact postSpec_val k
  | add l r ihl ihr =>
    simp only [Expr.AS, Bool.and_eq_true] at has
    exact postSpec_node l r (ihl has.1) (ihr has.2) has.1 has.2 (.add l r) (· + ·) LP.addVV
      (fun a => rfl) (fun a h => ⟨h.1, h.2.1⟩)
      (fun n h => by simpa [Expr.varsLt] using h)
      (fun m res => postExpr_add m l r res) (fun a x y s => holds_addVV a x y s)
  | sub l r ihl ihr =>
    simp only [Expr.AS, Bool.and_eq_true] at has
    exact postSpec_node l r (ihl has.1) (ihr has.2) has.1 has.2 (.sub l r) (· - ·) LP.subVV
      (fun a => rfl) (fun a h => ⟨h.1, h.2.1⟩)
      (fun n h => by simpa [Expr.varsLt] using h)
      (fun m res => postExpr_sub m l r res) (fun a x y s => holds_subVV a x y s)
  | mul _ _ _ _ => simp [Expr.AS] at has
  | div _ _ _ _ => simp [Expr.AS] at has
  | mod _ _ _ _ => simp [Expr.AS] at has

/-- the variable of a comparison operand carries the operand's value (as `Good`, but the
variable may be new, so its value is chosen) -/
def GoodV (n : Nat) (D : List Dom) (P : List LP) (e : Expr) (v : Nat) : Prop :=
  (∀ a, NewSat n D P a → a v = e.ev a) ∧
  (∀ a b, Agree n a b → NewSat n D P a → NewSat n D P b → Agree (n + D.length) a b) ∧
  (∀ a, e.InR a →
    ∃ a', Agree n a' a ∧ ∀ a'', Agree (n + D.length) a'' a' → NewSat n D P a'')

/-- **`get_expr_var` on `+`/`-` trees** -/
theorem getExprVar_spec (e : Expr) (has : e.AS = true) (m : LModel)
    (hv : e.varsLt m.doms.length = true) :
    ∃ D P, Ext m (m.getExprVar e).1 D P ∧ (m.getExprVar e).2 < m.doms.length + D.length ∧
      GoodV m.doms.length D P e (m.getExprVar e).2 := by
  have general : ∀ (e : Expr), e.AS = true → e.isVar = false → e.varsLt m.doms.length = true →
      (-1000 ≤ 0 → ∀ a, e.InR a → -1000 ≤ e.ev a ∧ e.ev a ≤ 1000) →
      ∃ D P, Ext m (postExpr (m.newVar auxDom).1 e m.doms.length) D P ∧
        m.doms.length < m.doms.length + D.length ∧ GoodV m.doms.length D P e m.doms.length := by
    intro e has hnv hv hrange
    have hlen1 : (m.newVar auxDom).1.doms.length = m.doms.length + 1 := by simp [LModel.newVar]
    obtain ⟨D, P, ext, g1, g2, g3⟩ := postSpec e has (m.newVar auxDom).1 m.doms.length
      (Expr.varsLt_mono e _ _ (by omega) hv) (by omega)
    rw [hlen1] at g1 g2 g3
    have hsplit : ∀ a, NewSat m.doms.length ([auxDom] ++ D) ([] ++ P) a ↔
        (-1000 ≤ a m.doms.length ∧ a m.doms.length ≤ 1000) ∧ NewSat (m.doms.length + 1) D P a := by
      intro a
      rw [NewSat_append]
      constructor
      · rintro ⟨h1, h2⟩
        have := h1.1 0 auxDom rfl
        rw [mem_auxDom] at this
        exact ⟨this, h2⟩
      · rintro ⟨h1, h2⟩
        refine ⟨⟨?_, fun lp h => by cases h⟩, h2⟩
        intro j d hj
        have hj0 : j = 0 := by
          cases j with
          | zero => rfl
          | succ j => simp at hj
        subst hj0
        simp at hj
        subst hj
        rw [mem_auxDom]; exact h1
    refine ⟨[auxDom] ++ D, [] ++ P, (Ext.newVar m auxDom).trans ext, by simp, ?_, ?_, ?_⟩
    · intro a hs
      exact g1 a ((hsplit a).1 hs).2
    · intro a b hab hsa hsb
      have ha := ((hsplit a).1 hsa).2
      have hb := ((hsplit b).1 hsb).2
      have h1 : Agree (m.doms.length + 1) a b := by
        intro i hi
        by_cases hlt : i < m.doms.length
        · exact hab i hlt
        · have : i = m.doms.length := by omega
          rw [this, g1 a ha, g1 b hb]
          exact Expr.ev_congr e _ hv a b hab
      have := g2 a b h1 ha hb
      intro i hi
      exact this i (by simp at hi; omega)
    · intro a hr
      let a0 : Nat → Int := fun k => if k = m.doms.length then e.ev a else a k
      have ha0 : Agree m.doms.length a0 a := by
        intro k hk
        show (if k = m.doms.length then e.ev a else a k) = a k
        rw [if_neg (by omega)]
      have ha0v : a0 m.doms.length = e.ev a := by
        show (if m.doms.length = m.doms.length then e.ev a else _) = _
        rw [if_pos rfl]
      have hev0 : e.ev a0 = e.ev a := Expr.ev_congr e _ hv a0 a ha0
      obtain ⟨a1, ha1, hrob⟩ := g3 a0 (Expr.InR_congr e _ hv a a0 ha0.symm hr) (by rw [ha0v, hev0])
      refine ⟨a1, (ha1.mono (by omega)).trans ha0, fun a'' hag => ?_⟩
      have hag' : Agree (m.doms.length + 1 + D.length) a'' a1 := hag.mono (by simp; omega)
      rw [hsplit]
      refine ⟨?_, hrob a'' hag'⟩
      rw [hag' _ (by omega), ha1 _ (by omega), ha0v]
      exact Expr.InR_range e a has hnv hr
  cases e with
  | var i =>
    simp only [Expr.varsLt, decide_eq_true_eq] at hv
    show ∃ D P, Ext m m D P ∧ i < m.doms.length + D.length ∧ GoodV m.doms.length D P (.var i) i
    refine ⟨[], [], Ext.refl m, by simpa using hv, fun a _ => rfl, fun a b hab _ _ => hab, ?_⟩
    intro a _
    exact ⟨a, fun _ _ => rfl, fun a'' _ => NewSat_nil _ _⟩
  | val k =>
    show ∃ D P, Ext m (m.newVar [k]).1 D P ∧ m.doms.length < m.doms.length + D.length ∧
      GoodV m.doms.length D P (.val k) m.doms.length
    refine ⟨[[k]], [], Ext.newVar m [k], by simp, ?_, ?_, ?_⟩
    · intro a hs
      have := hs.1 0 [k] rfl
      show a m.doms.length = k
      simpa using this
    · intro a b hab hsa hsb i hi
      by_cases hlt : i < m.doms.length
      · exact hab i hlt
      · have : i = m.doms.length := by simp at hi; omega
        have h1 := hsa.1 0 [k] rfl
        have h2 := hsb.1 0 [k] rfl
        simp at h1 h2
        rw [this, h1, h2]
    · intro a _
      refine ⟨fun i => if i = m.doms.length then k else a i, ?_, ?_⟩
      · intro i hi
        show (if i = m.doms.length then k else a i) = a i
        rw [if_neg (by omega)]
      · intro a'' hag
        refine ⟨?_, fun lp h => by cases h⟩
        intro j d hj
        have hj0 : j = 0 := by
          cases j with
          | zero => rfl
          | succ j => simp at hj
        subst hj0
        simp at hj
        subst hj
        rw [hag _ (by simp)]
        simp
  | add l r => exact general _ has rfl hv (fun _ a h => Expr.InR_range _ a has rfl h)
  | sub l r => exact general _ has rfl hv (fun _ a h => Expr.InR_range _ a has rfl h)
  | mul _ _ => simp [Expr.AS] at has
  | div _ _ => simp [Expr.AS] at has
  | mod _ _ => simp [Expr.AS] at has

/-- the general arm of `materialize_constraint_kind` on a comparison (everything except
`Var op Val` / `Val op Var`) -/
theorem materialize_general (m : LModel) (l r : Expr) (op : CmpOp)
    (h1 : ¬ (l.isVar = true ∧ ∃ k, r = .val k)) (h2 : ¬ (r.isVar = true ∧ ∃ k, l = .val k)) :
    m.materialize (.bin l op r) =
      ((m.getExprVar l).1.getExprVar r).1.postCmp op (m.getExprVar l).2
        ((m.getExprVar l).1.getExprVar r).2 := by
  cases l <;> cases r <;>
    first | (exfalso; simp [Expr.isVar] at h1 h2; done) | (cases op <;> rfl)


/-! ### 8. `or` of two comparisons: the reified disjunction (`reifOr`) -/

/-- the `Or` arm on two comparisons that are not the same-variable special case, integer operands -/
theorem materialize_or_unfold (m : LModel) (l1 r1 l2 r2 : Expr) (op1 op2 : CmpOp) :
    m.materialize (.or (.bin l1 op1 r1) (.bin l2 op2 r2)) =
      (match sameVarEq l1 op1 r1 l2 op2 r2 with
       | some (x, p, q) =>
         ((m.newVar (if p = q then [p] else if p < q then [p, q] else [q, p])).1.post
           (.eqVV x (m.newVar (if p = q then [p] else if p < q then [p, q] else [q, p])).2))
       | none =>
         if m.intOperands l1 r1 l2 r2 then m.reifOr l1 op1 r1 l2 op2 r2
         else (m.materialize (.bin l1 op1 r1)).materialize (.bin l2 op2 r2)) := rfl

theorem materialize_or_bins (m : LModel) (l1 r1 l2 r2 : Expr) (op1 op2 : CmpOp)
    (hs : sameVarEq l1 op1 r1 l2 op2 r2 = none) (hi : m.intOperands l1 r1 l2 r2 = true) :
    m.materialize (.or (.bin l1 op1 r1) (.bin l2 op2 r2)) = m.reifOr l1 op1 r1 l2 op2 r2 := by
  rw [materialize_or_unfold, hs]
  simp only [hi, if_true]

theorem mem_rangeDom (lo hi v : Int) : v ∈ rangeDom lo hi ↔ lo ≤ v ∧ v ≤ hi := by
  simp only [rangeDom, SS.intRange, List.mem_map, List.mem_range]
  constructor
  · rintro ⟨k, hk, rfl⟩
    omega
  · intro h
    refine ⟨(v - lo).toNat, by omega, by omega⟩

theorem CmpOp.toCmp_holds (op : CmpOp) (x y : Int) : op.toCmp.holds x y = op.holds x y := by
  cases op <;> rfl

theorem holds_reif (a : Nat → Int) (op : CmpOp) (x y b : Nat) :
    PK.holds a (LP.reif op x y b).toPK = ((a b == 1) == op.holds (a x) (a y)) := by
  show ((a b == 1) == op.toCmp.holds (a x) (a y)) = _
  rw [CmpOp.toCmp_holds]

theorem holds_boolOr2 (a : Nat → Int) (b1 b2 r : Nat) :
    PK.holds a (LP.boolOr [b1, b2] r).toPK =
      (decide (a r ≥ 1) == (decide (a b1 ≥ 1) || decide (a b2 ≥ 1))) := by
  simp [LP.toPK, PK.holds, PK.truthy]

theorem holds_reif_iff (a : Nat → Int) (op : CmpOp) (x y b : Nat) :
    PK.holds a (LP.reif op x y b).toPK = true ↔ (a b = 1 ↔ op.holds (a x) (a y) = true) := by
  rw [holds_reif, beq_iff_eq, Bool.eq_iff_iff, beq_iff_eq]

theorem holds_boolOr2_iff (a : Nat → Int) (b1 b2 r : Nat) :
    PK.holds a (LP.boolOr [b1, b2] r).toPK = true ↔ (a r ≥ 1 ↔ (a b1 ≥ 1 ∨ a b2 ≥ 1)) := by
  rw [holds_boolOr2, beq_iff_eq, Bool.eq_iff_iff, Bool.or_eq_true]
  simp only [decide_eq_true_eq]

theorem mem_boolDom (v : Int) : v ∈ boolDom ↔ (v = 0 ∨ v = 1) := by
  simp only [boolDom, rangeDom, SS.intRange, List.mem_map, List.mem_range]
  constructor
  · rintro ⟨k, hk, rfl⟩
    omega
  · intro h
    refine ⟨v.toNat, by omega, by omega⟩

/-- one more propagator at the end of a block -/
theorem NewSat_snoc (n : Nat) (D : List Dom) (P : List LP) (p : LP) (a : Nat → Int) :
    NewSat n D (P ++ [p]) a ↔ NewSat n D P a ∧ PK.holds a p.toPK = true := by
  have := NewSat_append n D [] P [p] a
  rw [List.append_nil] at this
  rw [this]
  constructor
  · rintro ⟨h, h'⟩
    exact ⟨h, h'.2 _ (List.mem_singleton.2 rfl)⟩
  · rintro ⟨h, h'⟩
    exact ⟨h, fun j d hj => by simp at hj, fun lp hlp => by rw [List.mem_singleton.1 hlp]; exact h'⟩

/-- three variables in front of a block -/
theorem NewSat_front3 (n : Nat) (d1 d2 d3 : Dom) (D : List Dom) (P : List LP) (a : Nat → Int) :
    NewSat n ([d1, d2, d3] ++ D) P a ↔
      (a n ∈ d1 ∧ a (n + 1) ∈ d2 ∧ a (n + 2) ∈ d3) ∧ NewSat (n + 3) D P a := by
  have := NewSat_append n [d1, d2, d3] D [] P a
  rw [List.nil_append] at this
  rw [this]
  constructor
  · rintro ⟨h, h'⟩
    exact ⟨⟨h.1 0 d1 rfl, h.1 1 d2 rfl, h.1 2 d3 rfl⟩, h'⟩
  · rintro ⟨⟨h1, h2, h3⟩, h'⟩
    refine ⟨⟨?_, fun lp hlp => by cases hlp⟩, h'⟩
    intro j d hj
    match j, hj with
    | 0, hj => simp at hj; subst hj; exact h1
    | 1, hj => simp at hj; subst hj; exact h2
    | 2, hj => simp at hj; subst hj; exact h3
    | j + 3, hj => simp at hj

/-- **the two `get_expr_var` calls of a comparison** on `+`/`-` trees: the appended block `(D, P)`
makes the two operand variables carry the values of the two sides (forced, unique, and — under the
range hypothesis — existing, robustly) -/
theorem operands_spec (m : LModel) (l r : Expr)
    (hasl : l.AS = true) (hasr : r.AS = true)
    (hvl : l.varsLt m.doms.length = true) (hvr : r.varsLt m.doms.length = true) :
    ∃ (D : List Dom) (P : List LP),
      Ext m ((m.getExprVar l).1.getExprVar r).1 D P ∧
      (∀ a, NewSat m.doms.length D P a →
        a (m.getExprVar l).2 = l.ev a ∧ a ((m.getExprVar l).1.getExprVar r).2 = r.ev a) ∧
      (∀ a a', Agree m.doms.length a a' → NewSat m.doms.length D P a → NewSat m.doms.length D P a' →
        Agree (m.doms.length + D.length) a a') ∧
      (∀ a, l.InR a → r.InR a → ∃ a', Agree m.doms.length a' a ∧
        ∀ a'', Agree (m.doms.length + D.length) a'' a' → NewSat m.doms.length D P a'') := by
  obtain ⟨D1, P1, e1, _, g1, u1, b1⟩ := getExprVar_spec l hasl m hvl
  have hlen1 : (m.getExprVar l).1.doms.length = m.doms.length + D1.length := e1.length
  obtain ⟨D2, P2, e2, _, g2, u2, b2⟩ := getExprVar_spec r hasr (m.getExprVar l).1
    (Expr.varsLt_mono r _ _ (by omega) hvr)
  rw [hlen1] at g2 u2 b2
  refine ⟨D1 ++ D2, P1 ++ P2, e1.trans e2, ?_, ?_, ?_⟩
  · intro a hs
    rw [NewSat_append] at hs
    exact ⟨g1 a hs.1, g2 a hs.2⟩
  · intro a a' hab hsa hsb
    rw [NewSat_append] at hsa hsb
    have h := u2 a a' (u1 a a' hab hsa.1 hsb.1) hsa.2 hsb.2
    exact h.mono (by simp; omega)
  · intro a hrl hrr
    obtain ⟨a1, ha1, hrob1⟩ := b1 a hrl
    obtain ⟨a2, ha2, hrob2⟩ := b2 a1 (Expr.InR_congr r _ hvr a a1 ha1.symm hrr)
    refine ⟨a2, (ha2.mono (by omega)).trans ha1, fun a'' hag => ?_⟩
    rw [NewSat_append]
    have hag2 : Agree (m.doms.length + D1.length + D2.length) a'' a2 := hag.mono (by simp; omega)
    exact ⟨hrob1 a'' ((hag2.mono (by omega)).trans ha2), hrob2 a'' hag2⟩


/-- **the `ReifiedBinary` arm** on `+`/`-` trees: the operand block plus `b ⇔ (lv op rv)` -/
theorem postReif_spec (m : LModel) (l r : Expr) (op : CmpOp) (b : Nat)
    (hasl : l.AS = true) (hasr : r.AS = true)
    (hvl : l.varsLt m.doms.length = true) (hvr : r.varsLt m.doms.length = true) :
    ∃ (D : List Dom) (P : List LP) (lv rv : Nat),
      Ext m (m.postReif l op r b) D (P ++ [.reif op lv rv b]) ∧
      (∀ a, NewSat m.doms.length D P a → a lv = l.ev a ∧ a rv = r.ev a) ∧
      (∀ a a', Agree m.doms.length a a' → NewSat m.doms.length D P a → NewSat m.doms.length D P a' →
        Agree (m.doms.length + D.length) a a') ∧
      (∀ a, l.InR a → r.InR a → ∃ a', Agree m.doms.length a' a ∧
        ∀ a'', Agree (m.doms.length + D.length) a'' a' → NewSat m.doms.length D P a'') := by
  obtain ⟨D, P, x, g, u, e⟩ := operands_spec m l r hasl hasr hvl hvr
  refine ⟨D, P, _, _, ?_, g, u, e⟩
  have := x.trans (Ext.post _ (.reif op (m.getExprVar l).2 ((m.getExprVar l).1.getExprVar r).2 b))
  rw [List.append_nil] at this
  exact this

/-- the model after the three `newVar`s of `reifOr` -/
def ext3 (m : LModel) : LModel := { m with doms := m.doms ++ [boolDom, boolDom, [1]] }

theorem reifOr_eq (m : LModel) (l1 r1 l2 r2 : Expr) (op1 op2 : CmpOp) :
    m.reifOr l1 op1 r1 l2 op2 r2 =
      ((m.ext3.postReif l1 op1 r1 m.doms.length).postReif l2 op2 r2 (m.doms.length + 1)).post
        (.boolOr [m.doms.length, m.doms.length + 1] (m.doms.length + 2)) := by
  simp [reifOr, newVar, ext3, List.append_assoc]


theorem bin_eval_AS (l r : Expr) (op : CmpOp) (hasl : l.AS = true) (hasr : r.AS = true) (a : Nat → Int) :
    (Con.bin l op r).eval a = some (op.holds (l.ev a) (r.ev a)) := by
  simp [Con.eval, Expr.eval_eq_ev l hasl, Expr.eval_eq_ev r hasr]

/-- a value of a boolean variable is `1` iff it is `≥ 1` -/
theorem bool_ge_one {v : Int} (h : v = 0 ∨ v = 1) : decide (v ≥ 1) = (v == 1) := by
  rcases h with h | h <;> subst h <;> decide

/-- **`reifOr`** on `+`/`-` trees over the variables of `m` (`n = m.doms.length`): the lowering
appends the variables `b1 = n`, `b2 = n+1` (booleans), `one = n+2` (`{1}`), then the auxiliary
variables `D`, and propagators `P`, such that
* (meaning) in every assignment satisfying the new domains and `P`: `b1`, `b2 ∈ {0,1}`, `one = 1`,
  `b1 = 1 ⇔` the first comparison is true, `b2 = 1 ⇔` the second one is, and `b1 = 1 ∨ b2 = 1`;
* (unique) two satisfying assignments that agree on the old variables agree on all the new ones;
* (exists) if every sub-expression value is in `[-1000, 1000]` and one of the two comparisons is
  true, the assignment of the old variables extends to a satisfying one. -/
theorem reifOr_spec (m : LModel) (l1 r1 l2 r2 : Expr) (op1 op2 : CmpOp)
    (h1 : l1.AS = true) (h2 : r1.AS = true) (h3 : l2.AS = true) (h4 : r2.AS = true)
    (v1 : l1.varsLt m.doms.length = true) (v2 : r1.varsLt m.doms.length = true)
    (v3 : l2.varsLt m.doms.length = true) (v4 : r2.varsLt m.doms.length = true) :
    ∃ (D : List Dom) (P : List LP),
      Ext m (m.reifOr l1 op1 r1 l2 op2 r2) ([boolDom, boolDom, [1]] ++ D) P ∧
      (∀ a, NewSat m.doms.length ([boolDom, boolDom, [1]] ++ D) P a →
        (a m.doms.length = 0 ∨ a m.doms.length = 1) ∧
        (a (m.doms.length + 1) = 0 ∨ a (m.doms.length + 1) = 1) ∧ a (m.doms.length + 2) = 1 ∧
        (a m.doms.length = 1 ↔ op1.holds (l1.ev a) (r1.ev a) = true) ∧
        (a (m.doms.length + 1) = 1 ↔ op2.holds (l2.ev a) (r2.ev a) = true) ∧
        (a m.doms.length = 1 ∨ a (m.doms.length + 1) = 1)) ∧
      (∀ a a', Agree m.doms.length a a' →
        NewSat m.doms.length ([boolDom, boolDom, [1]] ++ D) P a →
        NewSat m.doms.length ([boolDom, boolDom, [1]] ++ D) P a' →
        Agree (m.doms.length + ([boolDom, boolDom, [1]] ++ D).length) a a') ∧
      (∀ a, l1.InR a → r1.InR a → l2.InR a → r2.InR a →
        (op1.holds (l1.ev a) (r1.ev a) || op2.holds (l2.ev a) (r2.ev a)) = true →
        ∃ a', Agree m.doms.length a' a ∧ NewSat m.doms.length ([boolDom, boolDom, [1]] ++ D) P a') := by
  have hl3 : m.ext3.doms.length = m.doms.length + 3 := by simp [ext3]
  have e0 : Ext m m.ext3 [boolDom, boolDom, [1]] [] := ⟨rfl, by simp [ext3], rfl, rfl⟩
  have mono3 : ∀ e : Expr, e.varsLt m.doms.length = true → e.varsLt m.ext3.doms.length = true :=
    fun e h => Expr.varsLt_mono e _ _ (by omega) h
  obtain ⟨D1, P1, lv1, rv1, x1, g1, u1, b1⟩ :=
    postReif_spec m.ext3 l1 r1 op1 m.doms.length h1 h2 (mono3 _ v1) (mono3 _ v2)
  rw [hl3] at g1 u1 b1
  have hl4 : (m.ext3.postReif l1 op1 r1 m.doms.length).doms.length = m.doms.length + 3 + D1.length := by
    rw [x1.length, hl3]
  have mono4 : ∀ e : Expr, e.varsLt m.doms.length = true →
      e.varsLt (m.ext3.postReif l1 op1 r1 m.doms.length).doms.length = true :=
    fun e h => Expr.varsLt_mono e _ _ (by omega) h
  obtain ⟨D2, P2, lv2, rv2, x2, g2, u2, b2⟩ :=
    postReif_spec (m.ext3.postReif l1 op1 r1 m.doms.length) l2 r2 op2 (m.doms.length + 1) h3 h4
      (mono4 _ v3) (mono4 _ v4)
  rw [hl4] at g2 u2 b2
  have xall := ((e0.trans x1).trans x2).trans
    (Ext.post _ (.boolOr [m.doms.length, m.doms.length + 1] (m.doms.length + 2)))
  -- satisfaction of the whole block, taken apart
  have hsat : ∀ a, NewSat m.doms.length ([boolDom, boolDom, [1]] ++ (D1 ++ D2))
        (((P1 ++ [.reif op1 lv1 rv1 m.doms.length]) ++ (P2 ++ [.reif op2 lv2 rv2 (m.doms.length + 1)])) ++
          [.boolOr [m.doms.length, m.doms.length + 1] (m.doms.length + 2)]) a ↔
      ((a m.doms.length = 0 ∨ a m.doms.length = 1) ∧
        (a (m.doms.length + 1) = 0 ∨ a (m.doms.length + 1) = 1) ∧ a (m.doms.length + 2) = 1) ∧
      (NewSat (m.doms.length + 3) D1 P1 a ∧
        ((a m.doms.length == 1) == op1.holds (a lv1) (a rv1)) = true) ∧
      (NewSat (m.doms.length + 3 + D1.length) D2 P2 a ∧
        ((a (m.doms.length + 1) == 1) == op2.holds (a lv2) (a rv2)) = true) ∧
      (decide (a (m.doms.length + 2) ≥ 1) ==
        (decide (a m.doms.length ≥ 1) || decide (a (m.doms.length + 1) ≥ 1))) = true := by
    intro a
    rw [NewSat_snoc, NewSat_front3, NewSat_append, NewSat_snoc, NewSat_snoc, holds_reif, holds_reif,
      holds_boolOr2, mem_boolDom, mem_boolDom, List.mem_singleton]
    constructor
    · rintro ⟨⟨hf, hb1, hb2⟩, hor⟩
      exact ⟨hf, hb1, hb2, hor⟩
    · rintro ⟨hf, hb1, hb2, hor⟩
      exact ⟨⟨hf, hb1, hb2⟩, hor⟩
  -- meaning
  have hmean : ∀ a, NewSat m.doms.length ([boolDom, boolDom, [1]] ++ (D1 ++ D2))
        (((P1 ++ [.reif op1 lv1 rv1 m.doms.length]) ++ (P2 ++ [.reif op2 lv2 rv2 (m.doms.length + 1)])) ++
          [.boolOr [m.doms.length, m.doms.length + 1] (m.doms.length + 2)]) a →
      (a m.doms.length = 0 ∨ a m.doms.length = 1) ∧
        (a (m.doms.length + 1) = 0 ∨ a (m.doms.length + 1) = 1) ∧ a (m.doms.length + 2) = 1 ∧
        (a m.doms.length = 1 ↔ op1.holds (l1.ev a) (r1.ev a) = true) ∧
        (a (m.doms.length + 1) = 1 ↔ op2.holds (l2.ev a) (r2.ev a) = true) ∧
        (a m.doms.length = 1 ∨ a (m.doms.length + 1) = 1) := by
    intro a hs
    obtain ⟨⟨hb1, hb2, hone⟩, ⟨s1, r1'⟩, ⟨s2, r2'⟩, hor⟩ := (hsat a).1 hs
    obtain ⟨e1, e2⟩ := g1 a s1
    obtain ⟨e3, e4⟩ := g2 a s2
    rw [e1, e2] at r1'
    rw [e3, e4] at r2'
    rw [bool_ge_one hb1, bool_ge_one hb2, hone] at hor
    refine ⟨hb1, hb2, hone, ?_, ?_, ?_⟩
    · rw [← beq_iff_eq]; rw [beq_iff_eq] at r1'; rw [r1']
    · rw [← beq_iff_eq]; rw [beq_iff_eq] at r2'; rw [r2']
    · simpa using hor
  refine ⟨D1 ++ D2, ((P1 ++ [.reif op1 lv1 rv1 m.doms.length]) ++
      (P2 ++ [.reif op2 lv2 rv2 (m.doms.length + 1)])) ++
      [.boolOr [m.doms.length, m.doms.length + 1] (m.doms.length + 2)], ?_, hmean, ?_, ?_⟩
  · rw [reifOr_eq]
    simpa [List.append_assoc] using xall
  · intro a a' hag hsa hsa'
    obtain ⟨hb1, hb2, hone, m1, m2, _⟩ := hmean a hsa
    obtain ⟨hb1', hb2', hone', m1', m2', _⟩ := hmean a' hsa'
    obtain ⟨_, ⟨s1, _⟩, ⟨s2, _⟩, _⟩ := (hsat a).1 hsa
    obtain ⟨_, ⟨s1', _⟩, ⟨s2', _⟩, _⟩ := (hsat a').1 hsa'
    have c1 : l1.ev a = l1.ev a' := Expr.ev_congr l1 _ v1 a a' hag
    have c2 : r1.ev a = r1.ev a' := Expr.ev_congr r1 _ v2 a a' hag
    have c3 : l2.ev a = l2.ev a' := Expr.ev_congr l2 _ v3 a a' hag
    have c4 : r2.ev a = r2.ev a' := Expr.ev_congr r2 _ v4 a a' hag
    rw [c1, c2] at m1
    rw [c3, c4] at m2
    have hfront : Agree (m.doms.length + 3) a a' := by
      intro i hi
      by_cases hlt : i < m.doms.length
      · exact hag i hlt
      · have : i = m.doms.length ∨ i = m.doms.length + 1 ∨ i = m.doms.length + 2 := by omega
        rcases this with rfl | rfl | rfl
        · have : a m.doms.length = 1 ↔ a' m.doms.length = 1 := m1.trans m1'.symm
          omega
        · have : a (m.doms.length + 1) = 1 ↔ a' (m.doms.length + 1) = 1 := m2.trans m2'.symm
          omega
        · rw [hone, hone']
    have := u2 a a' (u1 a a' hfront s1 s1') s2 s2'
    exact this.mono (by simp; omega)
  · intro a i1 i2 i3 i4 htrue
    let a0 : Nat → Int := fun k =>
      if k = m.doms.length then (if op1.holds (l1.ev a) (r1.ev a) then 1 else 0)
      else if k = m.doms.length + 1 then (if op2.holds (l2.ev a) (r2.ev a) then 1 else 0)
      else if k = m.doms.length + 2 then 1 else a k
    have ha0 : Agree m.doms.length a0 a := by
      intro k hk
      show (if k = m.doms.length then _ else if k = m.doms.length + 1 then _
        else if k = m.doms.length + 2 then _ else a k) = a k
      rw [if_neg (by omega), if_neg (by omega), if_neg (by omega)]
    have ha0n : a0 m.doms.length = if op1.holds (l1.ev a) (r1.ev a) then 1 else 0 := by
      show (if m.doms.length = m.doms.length then _ else _) = _
      rw [if_pos rfl]
    have ha0n1 : a0 (m.doms.length + 1) = if op2.holds (l2.ev a) (r2.ev a) then 1 else 0 := by
      show (if m.doms.length + 1 = m.doms.length then _ else if m.doms.length + 1 = m.doms.length + 1 then _ else _) = _
      rw [if_neg (by omega), if_pos rfl]
    have ha0n2 : a0 (m.doms.length + 2) = 1 := by
      show (if m.doms.length + 2 = m.doms.length then _ else if m.doms.length + 2 = m.doms.length + 1 then _
        else if m.doms.length + 2 = m.doms.length + 2 then _ else _) = _
      rw [if_neg (by omega), if_neg (by omega), if_pos rfl]
    obtain ⟨a1, ha1, rob1⟩ := b1 a0 (Expr.InR_congr l1 _ v1 a a0 ha0.symm i1)
      (Expr.InR_congr r1 _ v2 a a0 ha0.symm i2)
    have ha1a : Agree m.doms.length a1 a := (ha1.mono (by omega)).trans ha0
    obtain ⟨a2, ha2, rob2⟩ := b2 a1 (Expr.InR_congr l2 _ v3 a a1 ha1a.symm i3)
      (Expr.InR_congr r2 _ v4 a a1 ha1a.symm i4)
    have ha2a : Agree m.doms.length a2 a := (ha2.mono (by omega)).trans ha1a
    have ha21 : Agree (m.doms.length + 3) a2 a1 := ha2.mono (by omega)
    have s1 : NewSat (m.doms.length + 3) D1 P1 a2 := rob1 a2 ha2
    have s2 : NewSat (m.doms.length + 3 + D1.length) D2 P2 a2 := rob2 a2 (fun _ _ => rfl)
    obtain ⟨e1, e2⟩ := g1 a2 s1
    obtain ⟨e3, e4⟩ := g2 a2 s2
    have c1 : l1.ev a2 = l1.ev a := Expr.ev_congr l1 _ v1 a2 a ha2a
    have c2 : r1.ev a2 = r1.ev a := Expr.ev_congr r1 _ v2 a2 a ha2a
    have c3 : l2.ev a2 = l2.ev a := Expr.ev_congr l2 _ v3 a2 a ha2a
    have c4 : r2.ev a2 = r2.ev a := Expr.ev_congr r2 _ v4 a2 a ha2a
    have f0 : a2 m.doms.length = if op1.holds (l1.ev a) (r1.ev a) then 1 else 0 := by
      rw [ha21 _ (by omega), ha1 _ (by omega), ha0n]
    have f1 : a2 (m.doms.length + 1) = if op2.holds (l2.ev a) (r2.ev a) then 1 else 0 := by
      rw [ha21 _ (by omega), ha1 _ (by omega), ha0n1]
    have f2 : a2 (m.doms.length + 2) = 1 := by
      rw [ha21 _ (by omega), ha1 _ (by omega), ha0n2]
    refine ⟨a2, ha2a, (hsat a2).2 ⟨⟨?_, ?_, f2⟩, ⟨s1, ?_⟩, ⟨s2, ?_⟩, ?_⟩⟩
    · rw [f0]; split <;> simp
    · rw [f1]; split <;> simp
    · rw [e1, e2, c1, c2, f0]; split <;> simp_all
    · rw [e3, e4, c3, c4, f1]; split <;> simp_all
    · rw [f0, f1, f2]
      simp only [Bool.or_eq_true] at htrue
      rcases htrue with h | h <;> simp [h]

end LModel
end Selen

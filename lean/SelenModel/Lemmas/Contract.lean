import SelenModel.Lemmas.IntCore
/-
The propagator contract (DESIGN.md §3) and the lifting lemmas every per-kind proof uses.

For a prune function `f : Ctx → Option Ctx`, a meaning `S : Asg → Prop` and a trigger set `T`:
* `Good T c c'`   — a successful run only shrinks domains (as sublists), keeps them non-empty,
                     touches only variables in `T` and records an event for every changed variable;
* `Sound f S`     — no solution of `S` inside the store is lost; in particular no failure while
                     a solution exists;
* `Checking f S T`— if all variables in `T` are fixed and `f` succeeds, `S` holds;
* `Resp T f`      — `f` reads only variables in `T` (runs on stores agreeing on `T` agree on `T`).
-/
namespace Selen

abbrev Asg := Nat → Int

def Mem (st : Store) (a : Asg) : Prop := ∀ i, a i ∈ st i
def NonEmpty (st : Store) : Prop := ∀ i, st i ≠ []

theorem Mem.nonEmpty {st : Store} {a : Asg} (h : Mem st a) : NonEmpty st :=
  fun i he => by have := h i; rw [he] at this; cases this

/-- summary of a successful (chain of) bound updates -/
structure Good (T : List Nat) (c c' : Ctx) : Prop where
  sub : ∀ i, (c'.st i).Sublist (c.st i)
  ne : NonEmpty c.st → NonEmpty c'.st
  frame : ∀ i, i ∉ T → c'.st i = c.st i
  ev : ∃ evs, c'.ev = c.ev ++ evs ∧ (∀ i ∈ evs, i ∈ T) ∧ ∀ i, c'.st i ≠ c.st i → i ∈ evs
  /-- an event is only recorded when some domain really lost a value -/
  strict : c'.ev ≠ c.ev → ∃ i, (c'.st i).length < (c.st i).length

theorem Good.refl (T : List Nat) (c : Ctx) : Good T c c :=
  ⟨fun _ => List.Sublist.refl _, id, fun _ _ => rfl, ⟨[], by simp, by simp, fun i h => absurd rfl h⟩,
   fun h => absurd rfl h⟩

theorem Good.trans {T : List Nat} {c1 c2 c3 : Ctx} (h1 : Good T c1 c2) (h2 : Good T c2 c3) :
    Good T c1 c3 := by
  obtain ⟨e1, a1, b1, d1⟩ := h1.ev
  obtain ⟨e2, a2, b2, d2⟩ := h2.ev
  refine ⟨fun i => (h2.sub i).trans (h1.sub i), fun h => h2.ne (h1.ne h),
    fun i hi => by rw [h2.frame i hi, h1.frame i hi], ⟨e1 ++ e2, ?_, ?_, ?_⟩, ?_⟩
  rotate_right
  · intro hne
    by_cases h12 : c2.ev = c1.ev
    · have : c3.ev ≠ c2.ev := by rw [h12]; exact hne
      obtain ⟨i, hi⟩ := h2.strict this
      exact ⟨i, Nat.lt_of_lt_of_le hi (h1.sub i).length_le⟩
    · obtain ⟨i, hi⟩ := h1.strict h12
      exact ⟨i, Nat.lt_of_le_of_lt (h2.sub i).length_le hi⟩
  · rw [a2, a1, List.append_assoc]
  · intro i hi
    rcases List.mem_append.1 hi with h | h
    · exact b1 i h
    · exact b2 i h
  · intro i hne
    by_cases h : c2.st i = c1.st i
    · exact List.mem_append.2 (Or.inr (d2 i (by rw [h]; exact hne)))
    · exact List.mem_append.2 (Or.inl (d1 i h))

theorem Good.mono {T T' : List Nat} {c c' : Ctx} (h : Good T c c') (hs : ∀ i ∈ T, i ∈ T') :
    Good T' c c' := by
  obtain ⟨e, a, b, d⟩ := h.ev
  exact ⟨h.sub, h.ne, fun i hi => h.frame i (fun hh => hi (hs i hh)), ⟨e, a, fun i hi => hs i (b i hi), d⟩, h.strict⟩

theorem Good.mem {T : List Nat} {c c' : Ctx} (h : Good T c c') {i : Nat} {w : Int}
    (hw : w ∈ c'.st i) : w ∈ c.st i := (h.sub i).subset hw

/-! ### `Option` chains -/

theorem PK.bind_some {o : Option Ctx} {f : Ctx → Option Ctx} {c' : Ctx}
    (h : PK.bind o f = some c') : ∃ c1, o = some c1 ∧ f c1 = some c' := by
  cases o with
  | none => simp [PK.bind] at h
  | some c1 => exact ⟨c1, rfl, h⟩

@[simp] theorem PK.bind_some_eq (c : Ctx) (f : Ctx → Option Ctx) : PK.bind (some c) f = f c := rfl
@[simp] theorem PK.bind_none_eq (f : Ctx → Option Ctx) : PK.bind none f = none := rfl

/-! ### single updates -/

theorem Ctx.trySetMin_good {c c' : Ctx} {i : Nat} {v : Int} {T : List Nat} (hi : i ∈ T)
    (h : c.trySetMin i v = some c') : Good T c c' := by
  simp only [Ctx.trySetMin] at h
  split at h
  · cases h
  · split at h
    · split at h
      · cases h
      · rename_i hgt hne
        cases h
        refine ⟨?_, ?_, ?_, ⟨[i], rfl, by simpa using hi, ?_⟩, ?_⟩
        rotate_right
        · intro _
          refine ⟨i, ?_⟩
          simp only [updS, if_true]
          exact Dom.removeBelow_length_lt _ _ (by omega) (by intro he; apply hne; rw [he]; rfl)
        · intro j; by_cases hj : j = i
          · subst hj; simp only [updS, if_true]; exact List.filter_sublist
          · simp [updS, hj]
        · intro hn j; by_cases hj : j = i
          · subst hj; simp only [updS, if_true]
            intro he; rw [he] at hne; exact hne rfl
          · simpa [updS, hj] using hn j
        · intro j hj
          have : j ≠ i := fun e => hj (e ▸ hi)
          simp [updS, this]
        · intro j hj
          by_cases hji : j = i
          · simp [hji]
          · exfalso; apply hj; simp [updS, hji]
    · cases h; exact Good.refl T c

theorem Ctx.trySetMax_good {c c' : Ctx} {i : Nat} {v : Int} {T : List Nat} (hi : i ∈ T)
    (h : c.trySetMax i v = some c') : Good T c c' := by
  simp only [Ctx.trySetMax] at h
  split at h
  · cases h
  · split at h
    · split at h
      · cases h
      · rename_i hgt hne
        cases h
        refine ⟨?_, ?_, ?_, ⟨[i], rfl, by simpa using hi, ?_⟩, ?_⟩
        rotate_right
        · intro _
          refine ⟨i, ?_⟩
          simp only [updS, if_true]
          exact Dom.removeAbove_length_lt _ _ (by omega) (by intro he; apply hne; rw [he]; rfl)
        · intro j; by_cases hj : j = i
          · subst hj; simp only [updS, if_true]; exact List.filter_sublist
          · simp [updS, hj]
        · intro hn j; by_cases hj : j = i
          · subst hj; simp only [updS, if_true]
            intro he; rw [he] at hne; exact hne rfl
          · simpa [updS, hj] using hn j
        · intro j hj
          have : j ≠ i := fun e => hj (e ▸ hi)
          simp [updS, this]
        · intro j hj
          by_cases hji : j = i
          · simp [hji]
          · exfalso; apply hj; simp [updS, hji]
    · cases h; exact Good.refl T c

/-- lifting lemma: a bound every solution satisfies keeps every solution -/
theorem Ctx.trySetMin_keeps {c : Ctx} {a : Asg} {i : Nat} {v : Int} (hm : Mem c.st a) (hv : v ≤ a i) :
    ∃ c', c.trySetMin i v = some c' ∧ Mem c'.st a := by
  have hs := Ctx.trySetMin_spec c i v (hm.nonEmpty i)
  cases h : c.trySetMin i v with
  | none =>
    rw [h] at hs
    have := hs (a i) (hm i); omega
  | some c' =>
    rw [h] at hs
    obtain ⟨h1, _, h3, _⟩ := hs
    refine ⟨c', rfl, ?_⟩
    intro j
    by_cases hj : j = i
    · subst hj; rw [h1, Dom.mem_removeBelow]; exact ⟨hm j, hv⟩
    · rw [h3 j hj]; exact hm j

theorem Ctx.trySetMax_keeps {c : Ctx} {a : Asg} {i : Nat} {v : Int} (hm : Mem c.st a) (hv : a i ≤ v) :
    ∃ c', c.trySetMax i v = some c' ∧ Mem c'.st a := by
  have hs := Ctx.trySetMax_spec c i v (hm.nonEmpty i)
  cases h : c.trySetMax i v with
  | none =>
    rw [h] at hs
    have := hs (a i) (hm i); omega
  | some c' =>
    rw [h] at hs
    obtain ⟨h1, _, h3, _⟩ := hs
    refine ⟨c', rfl, ?_⟩
    intro j
    by_cases hj : j = i
    · subst hj; rw [h1, Dom.mem_removeAbove]; exact ⟨hm j, hv⟩
    · rw [h3 j hj]; exact hm j

/-- on a fixed variable a successful update changes nothing and certifies the bound -/
theorem Ctx.trySetMin_fixed {c c' : Ctx} {i : Nat} {v w : Int} (hf : c.st i = [w])
    (h : c.trySetMin i v = some c') : c' = c ∧ v ≤ w := by
  simp only [Ctx.trySetMin] at h
  have e1 : (c.st i).dmax = w := by rw [hf]; rfl
  have e2 : (c.st i).dmin = w := by rw [hf]; rfl
  rw [e1, e2] at h
  by_cases h1 : v > w
  · simp [h1] at h
  · simp only [h1, if_false] at h
    cases h; exact ⟨rfl, by omega⟩

theorem Ctx.trySetMax_fixed {c c' : Ctx} {i : Nat} {v w : Int} (hf : c.st i = [w])
    (h : c.trySetMax i v = some c') : c' = c ∧ w ≤ v := by
  simp only [Ctx.trySetMax] at h
  have e1 : (c.st i).dmax = w := by rw [hf]; rfl
  have e2 : (c.st i).dmin = w := by rw [hf]; rfl
  rw [e1, e2] at h
  by_cases h1 : v < w
  · simp [h1] at h
  · simp only [h1, if_false] at h
    cases h; exact ⟨rfl, by omega⟩

/-- bounds of a variable enclose every member -/
theorem Mem.bounds {st : Store} {a : Asg} (h : Mem st a) (i : Nat) :
    (st i).dmin ≤ a i ∧ a i ≤ (st i).dmax :=
  ⟨Dom.dmin_le _ _ (h i), Dom.le_dmax _ _ (h i)⟩

theorem fixed_bounds {st : Store} {i : Nat} {w : Int} (h : st i = [w]) :
    (st i).dmin = w ∧ (st i).dmax = w := by rw [h]; exact ⟨rfl, rfl⟩

/-! ### the contract -/

def Sound (f : Ctx → Option Ctx) (S : Asg → Prop) : Prop :=
  ∀ c a, Mem c.st a → S a → ∃ c', f c = some c' ∧ Mem c'.st a

def Contracting (f : Ctx → Option Ctx) (T : List Nat) : Prop :=
  ∀ c c', f c = some c' → Good T c c'

/-- every variable in `T` is fixed -/
def FixedOn (T : List Nat) (st : Store) : Prop := ∀ i ∈ T, ∃ w, st i = [w]

def Checking (f : Ctx → Option Ctx) (S : Asg → Prop) (T : List Nat) : Prop :=
  ∀ c c' a, FixedOn T c.st → Mem c.st a → f c = some c' → S a

/-- stores agree on `T` -/
def Agree (T : List Nat) (c1 c2 : Ctx) : Prop := ∀ i ∈ T, c1.st i = c2.st i

/-- results agree on `T` (both fail, or both succeed with stores agreeing on `T`) -/
def RelO (T : List Nat) (o1 o2 : Option Ctx) : Prop :=
  match o1, o2 with
  | none, none => True
  | some d1, some d2 => Agree T d1 d2
  | _, _ => False

def Resp (T : List Nat) (f : Ctx → Option Ctx) : Prop :=
  ∀ c1 c2, Agree T c1 c2 → RelO T (f c1) (f c2)

theorem RelO.bind {T : List Nat} {o1 o2 : Option Ctx} {f1 f2 : Ctx → Option Ctx}
    (h : RelO T o1 o2) (hf : ∀ d1 d2, Agree T d1 d2 → RelO T (f1 d1) (f2 d2)) :
    RelO T (PK.bind o1 f1) (PK.bind o2 f2) := by
  cases o1 <;> cases o2 <;> simp [RelO] at h ⊢
  exact hf _ _ h

theorem RelO.some {T : List Nat} {c1 c2 : Ctx} (h : Agree T c1 c2) : RelO T (some c1) (some c2) := h
theorem RelO.none {T : List Nat} : RelO T none none := trivial

theorem Ctx.trySetMin_resp {T : List Nat} {c1 c2 : Ctx} {i : Nat} (v : Int) (hi : i ∈ T)
    (h : Agree T c1 c2) : RelO T (c1.trySetMin i v) (c2.trySetMin i v) := by
  simp only [Ctx.trySetMin]
  rw [h i hi]
  split
  · exact RelO.none
  · split
    · split
      · exact RelO.none
      · intro j hj
        by_cases e : j = i
        · simp [updS, e]
        · simp [updS, e]; exact h j hj
    · exact RelO.some h

theorem Ctx.trySetMax_resp {T : List Nat} {c1 c2 : Ctx} {i : Nat} (v : Int) (hi : i ∈ T)
    (h : Agree T c1 c2) : RelO T (c1.trySetMax i v) (c2.trySetMax i v) := by
  simp only [Ctx.trySetMax]
  rw [h i hi]
  split
  · exact RelO.none
  · split
    · split
      · exact RelO.none
      · intro j hj
        by_cases e : j = i
        · simp [updS, e]
        · simp [updS, e]; exact h j hj
    · exact RelO.some h

structure Contract (f : Ctx → Option Ctx) (S : Asg → Prop) (T : List Nat) : Prop where
  sound : Sound f S
  contracting : Contracting f T
  checking : Checking f S T
  resp : Resp T f

end Selen

import SelenModel.Model.Safety
import SelenModel.Lemmas.SparseSet
import SelenModel.Lemmas.IntCore
/-
Lemmas for C17: under the invariants of the modelled units no panic site is reached.

`Site.okIf a`: with `a = false` only the *structural* sites (indices, slice ends, emptiness
assertions, unsigned underflow) are examined — they hold under `SS.WF` alone; with `a = true` the
arithmetic sites are examined as well — they need the magnitude hypotheses.  One family of lemmas
serves both theorems.
-/
namespace Selen
namespace Safety
open SS

/-- the site passes; with `arith = false` only the structural sites are looked at -/
def Site.okIf (arith : Bool) (x : Site) : Bool := if x.structural then x.ok else (!arith || x.faithful)

def AllOk (a : Bool) (l : List Site) : Prop := ∀ x ∈ l, x.okIf a = true

theorem allOk_nil (a : Bool) : AllOk a [] := by intro x hx; cases hx

theorem allOk_append {a : Bool} {l1 l2 : List Site} (h1 : AllOk a l1) (h2 : AllOk a l2) :
    AllOk a (l1 ++ l2) := by
  intro x hx
  rcases List.mem_append.1 hx with h | h
  · exact h1 x h
  · exact h2 x h

theorem allOk_cons {a : Bool} {x : Site} {l : List Site} (h1 : x.okIf a = true) (h2 : AllOk a l) :
    AllOk a (x :: l) := by
  intro y hy
  rcases List.mem_cons.1 hy with h | h
  · rw [h]; exact h1
  · exact h2 y h

theorem allOk_flatMap {α : Type} {a : Bool} (l : List α) (f : α → List Site)
    (h : ∀ y ∈ l, AllOk a (f y)) : AllOk a (l.flatMap f) := by
  intro x hx
  obtain ⟨y, hy, hxy⟩ := List.mem_flatMap.1 hx
  exact h y hy x hxy

theorem okIf_idx (a : Bool) (i n : Nat) (h : i < n) : (Site.idx i n).okIf a = true := by
  simp [Site.okIf, Site.structural, Site.ok, h]
theorem okIf_le (a : Bool) (i n : Nat) (h : i ≤ n) : (Site.le i n).okIf a = true := by
  simp [Site.okIf, Site.structural, Site.ok, h]
theorem okIf_nonempty (a : Bool) (n : Nat) (h : n ≠ 0) : (Site.nonempty n).okIf a = true := by
  simp [Site.okIf, Site.structural, Site.ok, h]
theorem okIf_pos (a : Bool) (v : Int) (h : 0 ≤ v) : (Site.pos v).okIf a = true := by
  simp [Site.okIf, Site.structural, Site.ok, h]
theorem okIf_i32 (a : Bool) (v : Int) (h : a = true → i32Min ≤ v ∧ v ≤ i32Max) :
    (Site.i32 v).okIf a = true := by
  cases a
  · simp [Site.okIf, Site.structural]
  · simp [Site.okIf, Site.structural, Site.faithful, Site.ok, I32, h rfl]
theorem okIf_fid (a : Bool) (v : Int) (h : a = true → i32Min ≤ v ∧ v ≤ i32Max) :
    (Site.fid v).okIf a = true := by
  cases a
  · simp [Site.okIf, Site.structural]
  · simp [Site.okIf, Site.structural, Site.faithful, I32, h rfl]
theorem okIf_u32 (a : Bool) (v : Int) (h : a = true → v ≤ u32Max) : (Site.u32 v).okIf a = true := by
  cases a
  · simp [Site.okIf, Site.structural]
  · simp [Site.okIf, Site.structural, Site.faithful, Site.ok, h rfl]

/-- all sites pass (arithmetic ones included) ⇒ the run is safe and inside the exact range -/
theorem safe_of_allOk {l : List Site} (h : AllOk true l) : safe l = true ∧ faithful l = true := by
  constructor
  · apply List.all_eq_true.2
    intro x hx
    have := h x hx
    unfold Site.okIf at this
    cases x <;> simp_all [Site.structural, Site.faithful, Site.ok]
  · apply List.all_eq_true.2
    intro x hx
    have := h x hx
    unfold Site.okIf at this
    cases x <;> simp_all [Site.structural, Site.faithful, Site.ok]

/-- the structural sites pass -/
theorem structural_of_allOk {l : List Site} (h : AllOk false l) :
    ∀ x ∈ l, x.structural = true → x.ok = true := by
  intro x hx hs
  have := h x hx
  simpa [Site.okIf, hs] using this

/-! ### magnitude hypotheses -/

/-- the universe `[off, off + n)` lies inside `[-2^30, 2^30)` and has fewer than `2^31` values
(`-2^30 ≤ off`, `off + n < 2^30`) -/
structure Small (s : SS) : Prop where
  lo : -1073741824 ≤ s.off
  hi : s.off + (s.n : Int) < 1073741824

/-- an argument value inside `[-2^30, 2^30)` -/
def SmallV (v : Int) : Prop := -1073741824 ≤ v ∧ v < 1073741824


/-! ### `SparseSet` -/

namespace SSS

theorem containsI_ok (a : Bool) (s : SS) (v : Nat) : AllOk a (SSS.containsI s v) := by
  unfold SSS.containsI
  by_cases h : v ≥ s.n
  · rw [if_pos h]; exact allOk_nil a
  · rw [if_neg h]; exact allOk_cons (okIf_idx a _ _ (by omega)) (allOk_nil a)

theorem contains_ok (a : Bool) (s : SS) (v : Int) (hs : a = true → Small s) (hv : a = true → SmallV v) :
    AllOk a (SSS.contains s v) := by
  unfold SSS.contains
  by_cases h : v < s.off
  · rw [if_pos h]; exact allOk_nil a
  · rw [if_neg h]
    refine allOk_cons (okIf_i32 a _ ?_) (containsI_ok a s _)
    intro ha
    obtain ⟨h1, h2⟩ := hs ha
    obtain ⟨h3, h4⟩ := hv ha
    simp only [i32Min, i32Max]
    omega

theorem exchange_ok (a : Bool) (s : SS) (v1 v2 : Nat) (hp : s.Perm) (h1 : v1 < s.n) (h2 : v2 < s.n) :
    AllOk a (SSS.exchange s v1 v2) := by
  unfold SSS.exchange
  have a1 := (hp.2 v1 h1).1
  have a2 := (hp.2 v2 h2).1
  exact allOk_cons (okIf_idx a _ _ h1) (allOk_cons (okIf_idx a _ _ h2)
    (allOk_cons (okIf_idx a _ _ a1) (allOk_cons (okIf_idx a _ _ a2) (allOk_nil a))))

theorem scan_ok (a : Bool) (s : SS) (lo k : Nat) : AllOk a (SSS.scan s lo k) := by
  unfold SSS.scan
  exact allOk_flatMap _ _ (fun j _ => containsI_ok a s _)

theorem updateMax_ok (a : Bool) (s : SS) (v : Nat) : AllOk a (SSS.updateMax s v) := by
  unfold SSS.updateMax
  split
  · exact scan_ok a s _ _
  · exact allOk_nil a

theorem updateMin_ok (a : Bool) (s : SS) (v : Nat) (hv : a = true → (v : Int) + 1 ≤ u32Max)
    (hm : a = true → (s.max : Int) + 1 ≤ u32Max) : AllOk a (SSS.updateMin s v) := by
  unfold SSS.updateMin
  split
  · exact allOk_append (allOk_cons (okIf_u32 a _ hv) (allOk_cons (okIf_u32 a _ hm) (allOk_nil a))) (scan_ok a s _ _)
  · exact allOk_nil a

/-- the cached maximum never grows past `max s.max v` in `update_max_val_removed` -/
theorem updateMax_max_le (s : SS) (v : Nat) : (s.updateMaxValRemoved v).max ≤ Nat.max s.max v := by
  unfold updateMaxValRemoved
  split
  · rename_i h
    cases hsd : s.scanDown s.min (v - s.min) with
    | none => simp; exact Nat.le_max_left _ _
    | some m =>
      obtain ⟨_, _, h3, _⟩ := scanDown_some s _ _ _ hsd
      simp
      have : m ≤ v := by omega
      exact Nat.le_trans this (Nat.le_max_right _ _)
  · exact Nat.le_max_left _ _

/-- `Small` only mentions `off` and `n` -/
theorem small_congr {s t : SS} (ho : t.off = s.off) (hn : t.n = s.n) (h : Small s) : Small t :=
  ⟨by rw [ho]; exact h.lo, by rw [ho, hn]; exact h.hi⟩

theorem removeI_ok (a : Bool) (s : SS) (v : Nat) (h : s.WF) (hv : s.memI v) (hs : a = true → Small s) :
    AllOk a (SSS.removeI s v) := by
  have hsz : 1 ≤ s.size := by have := hv.2; omega
  have hszn : s.size - 1 < s.n := by have := h.size_le; omega
  have hl : s.val (s.size - 1) < s.n := (h.perm.1 (s.size - 1) hszn).1
  have hn30 : a = true → (s.n : Int) ≤ 2147483648 := by
    intro ha; obtain ⟨h1, h2⟩ := hs ha; omega
  have hmax : s.max < s.n := by
    have := (h.bounds (by omega)).2.1.1
    exact this
  unfold SSS.removeI
  refine allOk_append (allOk_append (allOk_append (allOk_append ?_ ?_) ?_) ?_) ?_
  · exact allOk_cons (okIf_pos a _ (by omega)) (allOk_cons (okIf_idx a _ _ hszn) (allOk_nil a))
  · exact exchange_ok a s v _ h.perm hv.1 hl
  · exact allOk_cons (okIf_pos a _ (by omega)) (allOk_nil a)
  · exact updateMax_ok a _ v
  · apply updateMin_ok
    · intro ha; have := hn30 ha; have := hv.1; simp only [u32Max]; omega
    · intro ha
      have := hn30 ha
      have hle := updateMax_max_le (s.shrink v) v
      have hf : (s.shrink v).max = s.max := (shrink_fields s v).2.2.2.1
      have hvn := hv.1
      have : ((s.shrink v).updateMaxValRemoved v).max < s.n := by
        have : Nat.max (s.shrink v).max v < s.n := by
          rw [hf]; exact Nat.max_lt.2 ⟨hmax, hvn⟩
        omega
      simp only [u32Max]
      show ((((s.shrink v).updateMaxValRemoved v).max : Nat) : Int) + 1 ≤ 4294967295
      omega

theorem remove_ok (a : Bool) (s : SS) (v : Int) (h : s.WF) (hs : a = true → Small s)
    (hv : a = true → SmallV v) : AllOk a (SSS.remove s v) := by
  unfold SSS.remove
  refine allOk_append (contains_ok a s v hs hv) ?_
  by_cases hc : s.contains v = true
  · rw [if_pos hc]
    have hm := (contains_iff s v).1 hc
    refine allOk_cons (okIf_i32 a _ ?_) (removeI_ok a s _ h hm.2 hs)
    intro ha
    obtain ⟨h1, h2⟩ := hs ha
    obtain ⟨h3, h4⟩ := hv ha
    have := hm.1
    simp only [i32Min, i32Max]
    omega
  · rw [if_neg hc]; exact allOk_nil a

theorem foldRemove_ok (a : Bool) (l : List Int) (s : SS) (h : s.WF) (hs : a = true → Small s)
    (hv : a = true → ∀ w ∈ l, SmallV w) : AllOk a (SSS.foldRemove l s) := by
  induction l generalizing s with
  | nil => exact allOk_nil a
  | cons x l ih =>
    obtain ⟨a1, a2, a3, _, _⟩ := remove'_spec s x h
    show AllOk a (SSS.remove s x ++ SSS.foldRemove l (s.remove' x))
    refine allOk_append (remove_ok a s x h hs (fun ha => hv ha x (List.mem_cons_self))) ?_
    exact ih (s.remove' x) a1 (fun ha => small_congr a2 a3 (hs ha))
      (fun ha w hw => hv ha w (List.mem_cons_of_mem _ hw))

theorem min_ok (a : Bool) (s : SS) (h : s.WF) (hne : s.size ≠ 0) (hs : a = true → Small s) :
    AllOk a (SSS.min s) := by
  have hmin : s.min < s.n := (h.bounds hne).1.1
  unfold SSS.min
  refine allOk_cons (okIf_nonempty a _ hne) (allOk_cons (okIf_fid a _ ?_) (allOk_cons (okIf_i32 a _ ?_) (allOk_nil a)))
  · intro ha; obtain ⟨h1, h2⟩ := hs ha; simp only [i32Min, i32Max]; omega
  · intro ha; obtain ⟨h1, h2⟩ := hs ha; simp only [i32Min, i32Max]; omega

theorem max_ok (a : Bool) (s : SS) (h : s.WF) (hne : s.size ≠ 0) (hs : a = true → Small s) :
    AllOk a (SSS.max s) := by
  have hmax : s.max < s.n := (h.bounds hne).2.1.1
  unfold SSS.max
  refine allOk_cons (okIf_nonempty a _ hne) (allOk_cons (okIf_fid a _ ?_) (allOk_cons (okIf_i32 a _ ?_) (allOk_nil a)))
  · intro ha; obtain ⟨h1, h2⟩ := hs ha; simp only [i32Min, i32Max]; omega
  · intro ha; obtain ⟨h1, h2⟩ := hs ha; simp only [i32Min, i32Max]; omega

/-- the cached external bounds of a non-empty well-formed set lie in its universe -/
theorem minV_maxV_range (s : SS) (h : s.WF) (hne : s.size ≠ 0) :
    s.off ≤ s.minV ∧ s.minV < s.off + (s.n : Int) ∧ s.off ≤ s.maxV ∧ s.maxV < s.off + (s.n : Int) := by
  have hmin : s.min < s.n := (h.bounds hne).1.1
  have hmax : s.max < s.n := (h.bounds hne).2.1.1
  unfold minV maxV
  omega

theorem removeBelow_ok (a : Bool) (s : SS) (v : Int) (h : s.WF) (hs : a = true → Small s)
    (hv : a = true → SmallV v) : AllOk a (SSS.removeBelow s v) := by
  unfold SSS.removeBelow
  by_cases he : s.isEmpty = true
  · rw [if_pos he]; exact allOk_nil a
  · rw [if_neg he]
    have hne : s.size ≠ 0 := by simpa [isEmpty] using he
    obtain ⟨r1, r2, r3, r4⟩ := minV_maxV_range s h hne
    refine allOk_append (max_ok a s h hne hs) ?_
    by_cases hlt : s.maxV < v
    · rw [if_pos hlt]; exact allOk_nil a
    · rw [if_neg hlt]
      refine allOk_append (min_ok a s h hne hs) (foldRemove_ok a _ s h hs ?_)
      intro ha w hw
      obtain ⟨h1, h2⟩ := hs ha
      obtain ⟨h3, h4⟩ := hv ha
      have := (mem_intRange _ _ _).1 hw
      unfold SmallV
      omega

theorem removeAbove_ok (a : Bool) (s : SS) (v : Int) (h : s.WF) (hs : a = true → Small s)
    (hv : a = true → SmallV v) : AllOk a (SSS.removeAbove s v) := by
  unfold SSS.removeAbove
  by_cases he : s.isEmpty = true
  · rw [if_pos he]; exact allOk_nil a
  · rw [if_neg he]
    have hne : s.size ≠ 0 := by simpa [isEmpty] using he
    obtain ⟨r1, r2, r3, r4⟩ := minV_maxV_range s h hne
    refine allOk_append (min_ok a s h hne hs) ?_
    by_cases hgt : s.minV > v
    · rw [if_pos hgt]; exact allOk_nil a
    · rw [if_neg hgt]
      refine allOk_append (allOk_append (allOk_append ?_ (max_ok a s h hne hs)) ?_) (foldRemove_ok a _ s h hs ?_)
      · refine allOk_cons (okIf_i32 a _ ?_) (allOk_nil a)
        intro ha; obtain ⟨h3, h4⟩ := hv ha; simp only [i32Min, i32Max]; omega
      · refine allOk_cons (okIf_i32 a _ ?_) (allOk_nil a)
        intro ha; obtain ⟨h1, h2⟩ := hs ha; simp only [i32Min, i32Max]; omega
      · intro ha w hw
        obtain ⟨h1, h2⟩ := hs ha
        obtain ⟨h3, h4⟩ := hv ha
        have := (mem_intRange _ _ _).1 hw
        unfold SmallV
        omega

theorem removeAllBut_ok (a : Bool) (s : SS) (v : Int) (h : s.WF) (hs : a = true → Small s)
    (hv : a = true → SmallV v) : AllOk a (SSS.removeAllBut s v) := by
  unfold SSS.removeAllBut
  refine allOk_append (contains_ok a s v hs hv) ?_
  by_cases hc : s.contains v = true
  · rw [if_pos hc]
    have hm := (contains_iff s v).1 hc
    have hvn := hm.2.1
    have hsz : 0 < s.n := by omega
    have h0 : s.val 0 < s.n := (h.perm.1 0 hsz).1
    have hi : s.ind (v - s.off).toNat < s.n := (h.perm.2 _ hvn).1
    refine allOk_cons (okIf_i32 a _ ?_) (allOk_cons (okIf_idx a _ _ hsz) (allOk_cons (okIf_idx a _ _ hvn)
      (allOk_cons (okIf_idx a _ _ h0) (allOk_cons (okIf_idx a _ _ hi) (allOk_nil a)))))
    intro ha
    obtain ⟨h1, h2⟩ := hs ha
    obtain ⟨h3, h4⟩ := hv ha
    have := hm.1
    simp only [i32Min, i32Max]
    omega
  · rw [if_neg hc]; exact allOk_nil a

theorem iter_ok (a : Bool) (s : SS) (h : s.WF) (hs : a = true → Small s) : AllOk a (SSS.iter s) := by
  unfold SSS.iter
  refine allOk_cons (okIf_le a _ _ h.size_le) (allOk_flatMap _ _ ?_)
  intro i hi
  have hi' : i < s.size := List.mem_range.1 hi
  have hv : s.val i < s.n := (h.perm.1 i (by have := h.size_le; omega)).1
  refine allOk_cons (okIf_fid a _ ?_) (allOk_cons (okIf_i32 a _ ?_) (allOk_nil a))
  · intro ha; obtain ⟨h1, h2⟩ := hs ha; simp only [i32Min, i32Max]; omega
  · intro ha; obtain ⟨h1, h2⟩ := hs ha; simp only [i32Min, i32Max]; omega

/-- the stored values of a small universe are small arguments -/
theorem toList_small (s : SS) (h : s.WF) (hs : Small s) : ∀ w ∈ s.toList, SmallV w := by
  intro w hw
  have hm := (mem_toList s h w).1 hw
  obtain ⟨h1, h2⟩ := hs
  have := hm.1
  have := hm.2.1
  unfold SmallV
  omega

theorem containsAll_ok (a : Bool) (o : SS) (l : List Int) (ho : a = true → Small o)
    (hl : a = true → ∀ w ∈ l, SmallV w) : AllOk a (l.flatMap (SSS.contains o)) :=
  allOk_flatMap _ _ (fun w hw => contains_ok a o w ho (fun ha => hl ha w hw))

theorem intersectWith_ok (a : Bool) (s o : SS) (h : s.WF) (hs : a = true → Small s)
    (ho : a = true → Small o) : AllOk a (SSS.intersectWith s o) := by
  unfold SSS.intersectWith
  refine allOk_append (allOk_append (iter_ok a s h hs) (containsAll_ok a o _ ho (fun ha => toList_small s h (hs ha)))) ?_
  refine foldRemove_ok a _ s h hs ?_
  intro ha w hw
  exact toList_small s h (hs ha) w (List.mem_filter.1 hw).1

theorem diffWith_ok (a : Bool) (s o : SS) (h : s.WF) (hs : a = true → Small s)
    (ho : a = true → Small o) : AllOk a (SSS.diffWith s o) := by
  unfold SSS.diffWith
  refine allOk_append (allOk_append (iter_ok a s h hs) (containsAll_ok a o _ ho (fun ha => toList_small s h (hs ha)))) ?_
  refine foldRemove_ok a _ s h hs ?_
  intro ha w hw
  exact toList_small s h (hs ha) w (List.mem_filter.1 hw).1

theorem unionOne_ok (a : Bool) (s : SS) (v : Int) (h : s.WF) (hs : a = true → Small s)
    (hv : a = true → SmallV v) : AllOk a (SSS.unionOne s v) := by
  unfold SSS.unionOne
  refine allOk_append (contains_ok a s v hs hv) ?_
  by_cases hc : s.contains v = true
  · rw [if_pos hc]; exact allOk_nil a
  · rw [if_neg hc]
    refine allOk_append ?_ ?_
    · by_cases hge : v ≥ s.off
      · rw [if_pos hge]
        refine allOk_cons (okIf_fid a _ ?_) (allOk_cons (okIf_i32 a _ ?_) (allOk_nil a))
        · intro ha; obtain ⟨h1, h2⟩ := hs ha; simp only [i32Min, i32Max]; omega
        · intro ha; obtain ⟨h1, h2⟩ := hs ha; simp only [i32Min, i32Max]; omega
      · rw [if_neg hge]; exact allOk_nil a
    · by_cases hu : v ≥ s.off ∧ v < s.off + (s.n : Int)
      · rw [if_pos hu]
        have hvn : (v - s.off).toNat < s.n := by omega
        refine allOk_cons (okIf_i32 a _ ?_) (allOk_append (containsI_ok a s _) ?_)
        · intro ha
          obtain ⟨h1, h2⟩ := hs ha
          simp only [i32Min, i32Max]
          omega
        · by_cases hci : (!s.containsI (v - s.off).toNat) = true
          · rw [if_pos hci]
            have hnm : ¬ s.memI (v - s.off).toNat := by
              intro hm
              have := (containsI_iff s _).2 hm
              simp [this] at hci
            have hind := (h.perm.2 _ hvn).1
            have hsz : s.size < s.n := by
              have : ¬ (s.ind (v - s.off).toNat < s.size) := fun x => hnm ⟨hvn, x⟩
              omega
            have hvs : s.val s.size < s.n := (h.perm.1 _ hsz).1
            refine allOk_append (allOk_append (allOk_cons (okIf_idx a _ _ hsz) (allOk_nil a))
              (exchange_ok a s _ _ h.perm hvn hvs)) (allOk_cons (okIf_u32 a _ ?_) (allOk_nil a))
            intro ha
            obtain ⟨h1, h2⟩ := hs ha
            simp only [u32Max]
            omega
          · rw [if_neg hci]; exact allOk_nil a
      · rw [if_neg hu]; exact allOk_nil a

theorem foldUnion_ok (a : Bool) (l : List Int) (s : SS) (h : s.WF) (hs : a = true → Small s)
    (hv : a = true → ∀ w ∈ l, SmallV w) : AllOk a (SSS.foldUnion l s) := by
  induction l generalizing s with
  | nil => exact allOk_nil a
  | cons x l ih =>
    obtain ⟨a1, a2, a3, _⟩ := unionOne_spec s x h
    show AllOk a (SSS.unionOne s x ++ SSS.foldUnion l (s.unionOne x))
    refine allOk_append (unionOne_ok a s x h hs (fun ha => hv ha x (List.mem_cons_self))) ?_
    exact ih (s.unionOne x) a1 (fun ha => small_congr a2 a3 (hs ha))
      (fun ha w hw => hv ha w (List.mem_cons_of_mem _ hw))

theorem unionWith_ok (a : Bool) (s o : SS) (h : s.WF) (ho : o.WF) (hs : a = true → Small s)
    (hos : a = true → Small o) : AllOk a (SSS.unionWith s o) := by
  unfold SSS.unionWith
  exact allOk_append (iter_ok a o ho hos) (foldUnion_ok a _ s h hs (fun ha => toList_small o ho (hos ha)))

/-- well-formedness / smallness of the operand of a binary step -/
def opWF : SSOp → Prop
  | .inter o | .diff o | .union o => o.WF
  | _ => True

def opSmall : SSOp → Prop
  | .remove v | .below v | .above v | .only v => SmallV v
  | .inter o | .diff o | .union o => Small o
  | _ => True

theorem op_ok (a : Bool) (s : SS) (op : SSOp) (h : s.WF) (ho : opWF op) (hs : a = true → Small s)
    (hop : a = true → opSmall op) : AllOk a (SSS.op s op) := by
  cases op with
  | remove v => exact remove_ok a s v h hs hop
  | below v => exact removeBelow_ok a s v h hs hop
  | above v => exact removeAbove_ok a s v h hs hop
  | only v => exact removeAllBut_ok a s v h hs hop
  | clear => exact allOk_nil a
  | inter o => exact intersectWith_ok a s o h hs hop
  | diff o => exact diffWith_ok a s o h hs hop
  | union o => exact unionWith_ok a s o h ho hs hop
  | save k => exact allOk_nil a
  | restore k => exact allOk_nil a

end SSS

/-! ### integer views -/

namespace VS

theorem okIf_i32_abs (v : Int) (h : v.natAbs ≤ 2147483647) : (Site.i32 v).okIf true = true :=
  okIf_i32 true v (fun _ => by simp only [i32Min, i32Max]; omega)

/-- every domain of the store is non-empty and inside `[-B, B]` -/
def StoreOK (st : Store) (B : Nat) : Prop := ∀ i, st i ≠ [] ∧ ∀ w ∈ st i, w.natAbs ≤ B

theorem raw_ok (st : Store) (B : Nat) (hst : StoreOK st B) :
    ∀ v : IView, VS.scalesPos v = true → VS.bound B v ≤ 2147483647 →
      AllOk true (VS.minRaw st v) ∧ AllOk true (VS.maxRaw st v) ∧
      (IView.minRaw st v).natAbs ≤ VS.bound B v ∧ (IView.maxRaw st v).natAbs ≤ VS.bound B v := by
  intro v
  induction v with
  | const c =>
    intro _ _
    simp only [VS.minRaw, VS.maxRaw, IView.minRaw, IView.maxRaw, VS.bound]
    exact ⟨allOk_nil _, allOk_nil _, Nat.le_refl _, Nat.le_refl _⟩
  | var i =>
    intro _ _
    obtain ⟨hne, hb⟩ := hst i
    simp only [VS.minRaw, VS.maxRaw, IView.minRaw, IView.maxRaw, VS.bound]
    have hl : (st i).length ≠ 0 := by
      intro h; exact hne (List.length_eq_zero_iff.1 h)
    exact ⟨allOk_cons (okIf_nonempty _ _ hl) (allOk_nil _), allOk_cons (okIf_nonempty _ _ hl) (allOk_nil _),
      hb _ (Dom.dmin_mem _ hne), hb _ (Dom.dmax_mem _ hne)⟩
  | opp v ih =>
    intro hp hb
    simp only [VS.scalesPos] at hp
    simp only [VS.bound] at hb
    obtain ⟨a1, a2, a3, a4⟩ := ih hp hb
    simp only [VS.minRaw, VS.maxRaw, IView.minRaw, IView.maxRaw, VS.bound]
    refine ⟨allOk_append a2 (allOk_cons (okIf_i32_abs _ ?_) (allOk_nil _)),
      allOk_append a1 (allOk_cons (okIf_i32_abs _ ?_) (allOk_nil _)), ?_, ?_⟩ <;>
    · rw [Int.natAbs_neg]; omega
  | plus v k ih =>
    intro hp hb
    simp only [VS.scalesPos] at hp
    simp only [VS.bound] at hb
    obtain ⟨a1, a2, a3, a4⟩ := ih hp (by omega)
    simp only [VS.minRaw, VS.maxRaw, IView.minRaw, IView.maxRaw, VS.bound]
    have b1 := Int.natAbs_add_le (IView.minRaw st v) k
    have b2 := Int.natAbs_add_le (IView.maxRaw st v) k
    exact ⟨allOk_append a1 (allOk_cons (okIf_i32_abs _ (by omega)) (allOk_nil _)),
      allOk_append a2 (allOk_cons (okIf_i32_abs _ (by omega)) (allOk_nil _)), by omega, by omega⟩
  | tpos v k ih =>
    intro hp hb
    simp only [VS.scalesPos, Bool.and_eq_true, decide_eq_true_eq] at hp
    simp only [VS.bound] at hb
    have hk : 1 ≤ k.natAbs := by omega
    have hle : VS.bound B v ≤ VS.bound B v * k.natAbs := Nat.le_mul_of_pos_right _ hk
    obtain ⟨a1, a2, a3, a4⟩ := ih hp.2 (by omega)
    simp only [VS.minRaw, VS.maxRaw, IView.minRaw, IView.maxRaw, VS.bound]
    have b1 : (IView.minRaw st v * k).natAbs ≤ VS.bound B v * k.natAbs := by
      rw [Int.natAbs_mul]; exact Nat.mul_le_mul_right _ a3
    have b2 : (IView.maxRaw st v * k).natAbs ≤ VS.bound B v * k.natAbs := by
      rw [Int.natAbs_mul]; exact Nat.mul_le_mul_right _ a4
    exact ⟨allOk_append a1 (allOk_cons (okIf_i32_abs _ (by omega)) (allOk_nil _)),
      allOk_append a2 (allOk_cons (okIf_i32_abs _ (by omega)) (allOk_nil _)), b1, b2⟩
  | next v ih =>
    intro hp hb
    simp only [VS.scalesPos] at hp
    simp only [VS.bound] at hb
    obtain ⟨a1, a2, a3, a4⟩ := ih hp (by omega)
    simp only [VS.minRaw, VS.maxRaw, IView.minRaw, IView.maxRaw, VS.bound]
    exact ⟨allOk_append a1 (allOk_cons (okIf_i32_abs _ (by omega)) (allOk_nil _)),
      allOk_append a2 (allOk_cons (okIf_i32_abs _ (by omega)) (allOk_nil _)), by omega, by omega⟩
  | prev v ih =>
    intro hp hb
    simp only [VS.scalesPos] at hp
    simp only [VS.bound] at hb
    obtain ⟨a1, a2, a3, a4⟩ := ih hp (by omega)
    simp only [VS.minRaw, VS.maxRaw, IView.minRaw, IView.maxRaw, VS.bound]
    exact ⟨allOk_append a1 (allOk_cons (okIf_i32_abs _ (by omega)) (allOk_nil _)),
      allOk_append a2 (allOk_cons (okIf_i32_abs _ (by omega)) (allOk_nil _)), by omega, by omega⟩

theorem argBound_ge (v : IView) : ∀ M, M ≤ VS.argBound M v := by
  induction v with
  | const c => intro M; simp [VS.argBound]
  | var i => intro M; simp [VS.argBound]
  | opp v ih => intro M; simp only [VS.argBound]; exact ih M
  | plus v k ih => intro M; simp only [VS.argBound]; have := ih (M + k.natAbs); omega
  | tpos v k ih => intro M; simp only [VS.argBound]; have := ih (M + 1); omega
  | next v ih => intro M; simp only [VS.argBound]; have := ih (M + 1); omega
  | prev v ih => intro M; simp only [VS.argBound]; have := ih (M + 1); omega

theorem ctxSetMin_ok (c : Ctx) (B : Nat) (hst : StoreOK c.st B) (i : Nat) (m : Int) :
    AllOk true (VS.ctxSetMin c i m) := by
  obtain ⟨hne, _⟩ := hst i
  have hl : (c.st i).length ≠ 0 := fun h => hne (List.length_eq_zero_iff.1 h)
  exact allOk_cons (okIf_nonempty _ _ hl) (allOk_nil _)

theorem ctxSetMax_ok (c : Ctx) (B : Nat) (hst : StoreOK c.st B) (hB : B ≤ 2147483646) (i : Nat) (m : Int)
    (hm : m.natAbs ≤ 2147483646) : AllOk true (VS.ctxSetMax c i m) := by
  obtain ⟨hne, hb⟩ := hst i
  have hl : (c.st i).length ≠ 0 := fun h => hne (List.length_eq_zero_iff.1 h)
  have hd := hb _ (Dom.dmax_mem _ hne)
  unfold VS.ctxSetMax
  refine allOk_cons (okIf_nonempty _ _ hl) ?_
  split
  · exact allOk_nil _
  · split
    · exact allOk_cons (okIf_i32_abs _ (by omega)) (allOk_cons (okIf_i32_abs _ (by omega)) (allOk_nil _))
    · exact allOk_nil _

theorem okIf_nz (d : Int) (h : d ≠ 0) : (Site.nz d).okIf true = true := by
  simp [Site.okIf, Site.structural, Site.faithful, Site.ok, h]
theorem okIf_divov (x y : Int) (h : y ≠ -1) : (Site.divov x y).okIf true = true := by
  simp [Site.okIf, Site.structural, Site.faithful, Site.ok, h]

theorem floorDiv_abs (m k : Int) (hk : 0 < k) : (floorDiv m k).natAbs ≤ m.natAbs := by
  unfold floorDiv
  rw [Int.fdiv_eq_ediv_of_nonneg _ (by omega)]
  exact Int.natAbs_ediv_le_natAbs m k

theorem ceilDiv_abs (m k : Int) (hk : 0 < k) : (ceilDiv m k).natAbs ≤ m.natAbs := by
  unfold ceilDiv
  rw [Int.fdiv_eq_ediv_of_nonneg _ (by omega), Int.natAbs_neg]
  have := Int.natAbs_ediv_le_natAbs (-m) k
  rw [Int.natAbs_neg] at this
  exact this

theorem trySet_ok (B : Nat) (hB : B ≤ 2147483646) :
    ∀ v : IView, VS.scalesPos v = true → ∀ (M : Nat) (m : Int) (c : Ctx), StoreOK c.st B →
      m.natAbs ≤ M → VS.argBound M v ≤ 2147483646 →
      AllOk true (VS.trySetMin v m c) ∧ AllOk true (VS.trySetMax v m c) := by
  intro v
  induction v with
  | const k =>
    intro _ M m c _ _ _
    simp only [VS.trySetMin, VS.trySetMax]
    exact ⟨allOk_nil _, allOk_nil _⟩
  | var i =>
    intro _ M m c hst hm hb
    simp only [VS.argBound] at hb
    simp only [VS.trySetMin, VS.trySetMax]
    exact ⟨ctxSetMin_ok c B hst i m, ctxSetMax_ok c B hst hB i m (by omega)⟩
  | opp v ih =>
    intro hp M m c hst hm hb
    simp only [VS.scalesPos] at hp
    simp only [VS.argBound] at hb
    have hge := argBound_ge v M
    obtain ⟨a1, a2⟩ := ih hp M (-m) c hst (by rw [Int.natAbs_neg]; exact hm) hb
    simp only [VS.trySetMin, VS.trySetMax]
    exact ⟨allOk_cons (okIf_i32_abs _ (by rw [Int.natAbs_neg]; omega)) a2,
      allOk_cons (okIf_i32_abs _ (by rw [Int.natAbs_neg]; omega)) a1⟩
  | plus v k ih =>
    intro hp M m c hst hm hb
    simp only [VS.scalesPos] at hp
    simp only [VS.argBound] at hb
    have hge := argBound_ge v (M + k.natAbs)
    have hmk : (m - k).natAbs ≤ M + k.natAbs := by omega
    obtain ⟨a1, a2⟩ := ih hp (M + k.natAbs) (m - k) c hst hmk hb
    simp only [VS.trySetMin, VS.trySetMax]
    exact ⟨allOk_cons (okIf_i32_abs _ (by omega)) a1, allOk_cons (okIf_i32_abs _ (by omega)) a2⟩
  | tpos v k ih =>
    intro hp M m c hst hm hb
    simp only [VS.scalesPos, Bool.and_eq_true, decide_eq_true_eq] at hp
    simp only [VS.argBound] at hb
    have hge := argBound_ge v (M + 1)
    have hc := ceilDiv_abs m k hp.1
    have hf := floorDiv_abs m k hp.1
    have hq := Int.natAbs_ediv_le_natAbs m k
    obtain ⟨a1, _⟩ := ih hp.2 (M + 1) (ceilDiv m k) c hst (by omega) hb
    obtain ⟨_, a4⟩ := ih hp.2 (M + 1) (floorDiv m k) c hst (by omega) hb
    simp only [VS.trySetMin, VS.trySetMax]
    refine ⟨allOk_append (allOk_append (allOk_cons (okIf_nz _ (by omega)) (allOk_cons (okIf_divov _ _ (by omega)) (allOk_nil _))) ?_) a1,
      allOk_append (allOk_cons (okIf_nz _ (by omega)) (allOk_cons (okIf_divov _ _ (by omega)) (allOk_nil _))) a4⟩
    split
    · exact allOk_cons (okIf_i32_abs _ (by omega)) (allOk_nil _)
    · exact allOk_nil _
  | next v ih =>
    intro hp M m c hst hm hb
    simp only [VS.scalesPos] at hp
    simp only [VS.argBound] at hb
    have hge := argBound_ge v (M + 1)
    obtain ⟨a1, a2⟩ := ih hp (M + 1) (m - 1) c hst (by omega) hb
    simp only [VS.trySetMin, VS.trySetMax]
    exact ⟨allOk_cons (okIf_i32_abs _ (by omega)) a1, allOk_cons (okIf_i32_abs _ (by omega)) a2⟩
  | prev v ih =>
    intro hp M m c hst hm hb
    simp only [VS.scalesPos] at hp
    simp only [VS.argBound] at hb
    have hge := argBound_ge v (M + 1)
    obtain ⟨a1, a2⟩ := ih hp (M + 1) (m + 1) c hst (by omega) hb
    simp only [VS.trySetMin, VS.trySetMax]
    exact ⟨allOk_cons (okIf_i32_abs _ (by omega)) a1, allOk_cons (okIf_i32_abs _ (by omega)) a2⟩

end VS

/-! ### integer linear propagators -/

namespace LS
open VS


theorem sat_id (v : Int) (h : v.natAbs ≤ 2147483647) : LS.sat v = v := by
  unfold LS.sat
  rw [if_neg (by simp only [i32Min]; omega), if_neg (by simp only [i32Max]; omega)]

theorem okIf_fid_abs (v : Int) (h : v.natAbs ≤ 2147483647) : (Site.fid v).okIf true = true :=
  okIf_fid true v (fun _ => by simp only [i32Min, i32Max]; omega)

/-- `|c * w| ≤ |c| * B` for `|w| ≤ B` -/
theorem mul_abs (c w : Int) (B : Nat) (h : w.natAbs ≤ B) : (c * w).natAbs ≤ c.natAbs * B := by
  rw [Int.natAbs_mul]; exact Nat.mul_le_mul_left _ h

def term (cs : List Int) (B : Nat) (j : Nat) : Nat := (cs.getD j 0).natAbs * B

theorem othersStep_ok (both : Bool) (cs : List Int) (xs : List Nat) (st : Store) (i B : Nat)
    (hst : StoreOK st B) (acc : List Site × Int × Int) (j A : Nat) (hj : j < cs.length)
    (h1 : AllOk true acc.1) (h2 : acc.2.1.natAbs ≤ A) (h3 : acc.2.2.natAbs ≤ A)
    (hA : A + term cs B j ≤ 2147483647) :
    AllOk true (LS.othersStep both cs xs st i acc j).1 ∧
    (LS.othersStep both cs xs st i acc j).2.1.natAbs ≤ A + term cs B j ∧
    (LS.othersStep both cs xs st i acc j).2.2.natAbs ≤ A + term cs B j := by
  unfold LS.othersStep
  by_cases hji : j = i
  · rw [if_pos hji]; exact ⟨h1, by omega, by omega⟩
  · rw [if_neg hji]
    obtain ⟨hne, hb⟩ := hst (xs.getD j 0)
    have hl : (st (xs.getD j 0)).length ≠ 0 := fun h => hne (List.length_eq_zero_iff.1 h)
    have pmin := mul_abs (cs.getD j 0) _ B (hb _ (Dom.dmin_mem _ hne))
    have pmax := mul_abs (cs.getD j 0) _ B (hb _ (Dom.dmax_mem _ hne))
    have ht : term cs B j = (cs.getD j 0).natAbs * B := rfl
    have hmn : (if cs.getD j 0 > 0 then cs.getD j 0 * (st (xs.getD j 0)).dmin else cs.getD j 0 * (st (xs.getD j 0)).dmax).natAbs ≤ term cs B j := by
      split <;> omega
    have hmx : (if cs.getD j 0 > 0 then cs.getD j 0 * (st (xs.getD j 0)).dmax else cs.getD j 0 * (st (xs.getD j 0)).dmin).natAbs ≤ term cs B j := by
      split <;> omega
    have s1 := Int.natAbs_add_le acc.2.1 (if cs.getD j 0 > 0 then cs.getD j 0 * (st (xs.getD j 0)).dmin else cs.getD j 0 * (st (xs.getD j 0)).dmax)
    have s2 := Int.natAbs_add_le acc.2.2 (if cs.getD j 0 > 0 then cs.getD j 0 * (st (xs.getD j 0)).dmax else cs.getD j 0 * (st (xs.getD j 0)).dmin)
    refine ⟨?_, ?_, ?_⟩
    · refine allOk_append h1 (allOk_append (allOk_append ?_ ?_) ?_)
      · exact allOk_cons (okIf_idx _ _ _ hj) (allOk_cons (okIf_nonempty _ _ hl) (allOk_nil _))
      · cases both
        · exact allOk_cons (okIf_i32_abs _ (by omega)) (allOk_nil _)
        · exact allOk_cons (okIf_i32_abs _ (by omega)) (allOk_cons (okIf_i32_abs _ (by omega)) (allOk_nil _))
      · exact allOk_cons (okIf_fid_abs _ (by omega)) (allOk_cons (okIf_fid_abs _ (by omega)) (allOk_nil _))
    · show (LS.sat _).natAbs ≤ _
      rw [sat_id _ (by omega)]; omega
    · show (LS.sat _).natAbs ≤ _
      rw [sat_id _ (by omega)]; omega

theorem others_fold (both : Bool) (cs : List Int) (xs : List Nat) (st : Store) (i B : Nat)
    (hst : StoreOK st B) :
    ∀ (js : List Nat) (acc : List Site × Int × Int) (A : Nat), (∀ j ∈ js, j < cs.length) →
      AllOk true acc.1 → acc.2.1.natAbs ≤ A → acc.2.2.natAbs ≤ A →
      A + (js.map (term cs B)).sum ≤ 2147483647 →
      AllOk true (js.foldl (LS.othersStep both cs xs st i) acc).1 ∧
      (js.foldl (LS.othersStep both cs xs st i) acc).2.1.natAbs ≤ A + (js.map (term cs B)).sum ∧
      (js.foldl (LS.othersStep both cs xs st i) acc).2.2.natAbs ≤ A + (js.map (term cs B)).sum := by
  intro js
  induction js with
  | nil => intro acc A _ h1 h2 h3 _; simpa using ⟨h1, h2, h3⟩
  | cons j js ih =>
    intro acc A hjs h1 h2 h3 hA
    simp only [List.map_cons, List.sum_cons] at hA ⊢
    simp only [List.foldl_cons]
    obtain ⟨b1, b2, b3⟩ := othersStep_ok both cs xs st i B hst acc j A (hjs j List.mem_cons_self) h1 h2 h3 (by omega)
    obtain ⟨c1, c2, c3⟩ := ih _ (A + term cs B j) (fun k hk => hjs k (List.mem_cons_of_mem _ hk)) b1 b2 b3 (by omega)
    exact ⟨c1, by omega, by omega⟩

theorem others_ok (both : Bool) (cs : List Int) (xs : List Nat) (st : Store) (i B : Nat)
    (hst : StoreOK st B) (hlen : xs.length ≤ cs.length) (hW : LS.weight cs xs.length B ≤ 2147483647) :
    AllOk true (LS.others both cs xs st i).1 ∧
    (LS.others both cs xs st i).2.1.natAbs ≤ LS.weight cs xs.length B ∧
    (LS.others both cs xs st i).2.2.natAbs ≤ LS.weight cs xs.length B := by
  have hW' : 0 + ((List.range xs.length).map (term cs B)).sum ≤ 2147483647 := by
    rw [Nat.zero_add]; exact hW
  have := others_fold both cs xs st i B hst (List.range xs.length) ([], 0, 0) 0
    (fun j hj => by have := List.mem_range.1 hj; omega) (allOk_nil _) (by simp) (by simp) hW'
  rw [Nat.zero_add] at this
  exact this

theorem divRound_ok (x y : Int) (up : Bool) (hy : y ≠ 0) (hx : x.natAbs ≤ 2147483646) :
    AllOk true (LS.divRound x y up).1 ∧ (LS.divRound x y up).2.natAbs ≤ x.natAbs + 1 := by
  have hq := Int.natAbs_tdiv_le_natAbs x y
  have hdv : (Site.divov x y).okIf true = true := by
    simp only [Site.okIf, Site.structural, Site.faithful, Site.ok, i32Min]
    have : (x == -2147483648) = false := by
      apply beq_false_of_ne; omega
    simp [this]
  have hpre : AllOk true [Site.nz y, Site.divov x y] := allOk_cons (okIf_nz _ hy) (allOk_cons hdv (allOk_nil _))
  cases up
  · simp only [LS.divRound, Bool.false_eq_true, if_false]
    generalize (decide (x.tmod y ≠ 0) && decide (x < 0) != decide (y < 0)) = adj
    cases adj
    · simp only [Bool.false_eq_true, if_false]
      exact ⟨allOk_append hpre (allOk_nil _), by omega⟩
    · simp only [if_true]
      exact ⟨allOk_append hpre (allOk_cons (okIf_i32_abs _ (by omega)) (allOk_nil _)), by omega⟩
  · simp only [LS.divRound, if_true]
    generalize (decide (x.tmod y ≠ 0) && decide (x < 0) == decide (y < 0)) = adj
    cases adj
    · simp only [Bool.false_eq_true, if_false]
      exact ⟨allOk_append hpre (allOk_nil _), by omega⟩
    · simp only [if_true]
      exact ⟨allOk_append hpre (allOk_cons (okIf_i32_abs _ (by omega)) (allOk_nil _)), by omega⟩

theorem storeOK_trySetMin (c c' : Ctx) (B i : Nat) (v : Int) (h : StoreOK c.st B)
    (e : c.trySetMin i v = some c') : StoreOK c'.st B := by
  have sp := Ctx.trySetMin_spec c i v (h i).1
  rw [e] at sp
  obtain ⟨e1, e2, e3, _⟩ := sp
  intro j
  by_cases hj : j = i
  · subst hj
    refine ⟨e2, ?_⟩
    intro w hw
    rw [e1] at hw
    exact (h j).2 w ((Dom.mem_removeBelow _ _ _).1 hw).1
  · rw [e3 j hj]; exact h j

theorem storeOK_trySetMax (c c' : Ctx) (B i : Nat) (v : Int) (h : StoreOK c.st B)
    (e : c.trySetMax i v = some c') : StoreOK c'.st B := by
  have sp := Ctx.trySetMax_spec c i v (h i).1
  rw [e] at sp
  obtain ⟨e1, e2, e3, _⟩ := sp
  intro j
  by_cases hj : j = i
  · subst hj
    refine ⟨e2, ?_⟩
    intro w hw
    rw [e1] at hw
    exact (h j).2 w ((Dom.mem_removeAbove _ _ _).1 hw).1
  · rw [e3 j hj]; exact h j

/-- hypotheses of the linear-row theorems: as many coefficients as variables (at least), and
`Σ_{j<n} |c_j|·B + |c|` well inside `i32` -/
structure RowOK (cs : List Int) (xs : List Nat) (c : Int) (B : Nat) : Prop where
  len : xs.length ≤ cs.length
  mag : LS.weight cs xs.length B + c.natAbs ≤ 2147483645
  dom : B ≤ 2147483645

theorem eqBounds_ok (cs : List Int) (xs : List Nat) (c : Int) (B : Nat) (hr : RowOK cs xs c B)
    (st : Store) (hst : StoreOK st B) (i : Nat) (hc0 : cs.getD i 0 ≠ 0) :
    AllOk true (LS.eqBounds cs xs c st i).1 ∧ (LS.eqBounds cs xs c st i).2.1.natAbs ≤ 2147483646 ∧
    (LS.eqBounds cs xs c st i).2.2.natAbs ≤ 2147483646 := by
  obtain ⟨hlen, hmag, hdom⟩ := hr
  obtain ⟨o1, o2, o3⟩ := others_ok true cs xs st i B hst hlen (by omega)
  have t1 := Int.natAbs_sub_le c (LS.others true cs xs st i).2.2
  have t2 := Int.natAbs_sub_le c (LS.others true cs xs st i).2.1
  have st1 := sat_id (c - (LS.others true cs xs st i).2.2) (by omega)
  have st2 := sat_id (c - (LS.others true cs xs st i).2.1) (by omega)
  have dlo : ∀ (t : Int), t.natAbs ≤ 2147483645 → ∀ up, AllOk true (LS.divRound t (cs.getD i 0) up).1 ∧
      (LS.divRound t (cs.getD i 0) up).2.natAbs ≤ 2147483646 := by
    intro t ht up
    obtain ⟨d1, d2⟩ := divRound_ok t (cs.getD i 0) up hc0 (by omega)
    exact ⟨d1, by omega⟩
  simp only [LS.eqBounds]
  rw [st1, st2]
  by_cases hpos : cs.getD i 0 > 0
  · simp only [hpos, if_true]
    obtain ⟨l1, l2⟩ := dlo (c - (LS.others true cs xs st i).2.2) (by omega) true
    obtain ⟨u1, u2⟩ := dlo (c - (LS.others true cs xs st i).2.1) (by omega) false
    refine ⟨allOk_append (allOk_append (allOk_append o1 ?_) l1) u1, l2, u2⟩
    exact allOk_cons (okIf_fid_abs _ (by omega)) (allOk_cons (okIf_fid_abs _ (by omega)) (allOk_nil _))
  · simp only [hpos, if_false]
    obtain ⟨l1, l2⟩ := dlo (c - (LS.others true cs xs st i).2.1) (by omega) true
    obtain ⟨u1, u2⟩ := dlo (c - (LS.others true cs xs st i).2.2) (by omega) false
    refine ⟨allOk_append (allOk_append (allOk_append o1 ?_) l1) u1, l2, u2⟩
    exact allOk_cons (okIf_fid_abs _ (by omega)) (allOk_cons (okIf_fid_abs _ (by omega)) (allOk_nil _))

theorem pruneEq_ok (cs : List Int) (xs : List Nat) (c : Int) (B : Nat) (hr : RowOK cs xs c B) :
    ∀ (is : List Nat) (ctx : Ctx), (∀ i ∈ is, i < xs.length) → StoreOK ctx.st B →
      AllOk true (LS.pruneEq cs xs c is ctx).1 := by
  intro is
  induction is with
  | nil => intro ctx _ _; exact allOk_nil _
  | cons i rest ih =>
    intro ctx his hst
    have hi : i < cs.length := by have := his i List.mem_cons_self; have := hr.len; omega
    have hrest : ∀ k ∈ rest, k < xs.length := fun k hk => his k (List.mem_cons_of_mem _ hk)
    unfold LS.pruneEq
    by_cases hc0 : cs.getD i 0 = 0
    · rw [if_pos hc0]
      exact allOk_cons (okIf_idx _ _ _ hi) (ih ctx hrest hst)
    · rw [if_neg hc0]
      obtain ⟨b1, b2, b3⟩ := eqBounds_ok cs xs c B hr ctx.st hst i hc0
      have hpre : AllOk true (Site.idx i cs.length :: (LS.eqBounds cs xs c ctx.st i).1 ++
          VS.ctxSetMin ctx (xs.getD i 0) (LS.eqBounds cs xs c ctx.st i).2.1) :=
        allOk_append (allOk_cons (okIf_idx _ _ _ hi) b1) (ctxSetMin_ok ctx B hst _ _)
      simp only []
      split
      · exact hpre
      · rename_i c1 e1
        have hst1 := storeOK_trySetMin ctx c1 B _ _ hst e1
        have hmx := ctxSetMax_ok c1 B hst1 (by have := hr.dom; omega) (xs.getD i 0) _ b3
        split
        · exact allOk_append hpre hmx
        · rename_i c2 e2
          have hst2 := storeOK_trySetMax c1 c2 B _ _ hst1 e2
          exact allOk_append (allOk_append hpre hmx) (ih c2 hrest hst2)

theorem leBound_ok (cs : List Int) (xs : List Nat) (c : Int) (B : Nat) (hr : RowOK cs xs c B)
    (st : Store) (hst : StoreOK st B) (i : Nat) (hc0 : cs.getD i 0 ≠ 0) :
    AllOk true (LS.leBound cs xs c st i).1 ∧ (LS.leBound cs xs c st i).2.natAbs ≤ 2147483645 := by
  obtain ⟨hlen, hmag, hdom⟩ := hr
  obtain ⟨o1, o2, _⟩ := others_ok false cs xs st i B hst hlen (by omega)
  have t1 := Int.natAbs_sub_le c (LS.others false cs xs st i).2.1
  have st1 := sat_id (c - (LS.others false cs xs st i).2.1) (by omega)
  have hq := Int.natAbs_ediv_le_natAbs (c - (LS.others false cs xs st i).2.1) (cs.getD i 0)
  simp only [LS.leBound]
  rw [st1]
  refine ⟨allOk_append o1 (allOk_cons (okIf_fid_abs _ (by omega)) (allOk_cons (okIf_nz _ hc0) (allOk_cons ?_ (allOk_nil _)))), by omega⟩
  simp only [Site.okIf, Site.structural, Site.faithful, Site.ok, i32Min]
  have : ((c - (LS.others false cs xs st i).2.1) == -2147483648) = false := by
    apply beq_false_of_ne; omega
  simp [this]

theorem pruneLe_ok (cs : List Int) (xs : List Nat) (c : Int) (B : Nat) (hr : RowOK cs xs c B) :
    ∀ (is : List Nat) (ctx : Ctx), (∀ i ∈ is, i < xs.length) → StoreOK ctx.st B →
      AllOk true (LS.pruneLe cs xs c is ctx).1 := by
  intro is
  induction is with
  | nil => intro ctx _ _; exact allOk_nil _
  | cons i rest ih =>
    intro ctx his hst
    have hi : i < cs.length := by have := his i List.mem_cons_self; have := hr.len; omega
    have hrest : ∀ k ∈ rest, k < xs.length := fun k hk => his k (List.mem_cons_of_mem _ hk)
    unfold LS.pruneLe
    by_cases hc0 : cs.getD i 0 = 0
    · rw [if_pos hc0]
      exact allOk_cons (okIf_idx _ _ _ hi) (ih ctx hrest hst)
    · rw [if_neg hc0]
      obtain ⟨b1, b2⟩ := leBound_ok cs xs c B hr ctx.st hst i hc0
      have hdom := hr.dom
      simp only []
      by_cases hpos : cs.getD i 0 > 0
      · rw [if_pos hpos]
        have hpre : AllOk true (Site.idx i cs.length :: (LS.leBound cs xs c ctx.st i).1 ++
            VS.ctxSetMax ctx (xs.getD i 0) (LS.leBound cs xs c ctx.st i).2) :=
          allOk_append (allOk_cons (okIf_idx _ _ _ hi) b1) (ctxSetMax_ok ctx B hst (by omega) _ _ (by omega))
        split
        · exact hpre
        · rename_i c1 e1
          exact allOk_append hpre (ih c1 hrest (storeOK_trySetMax ctx c1 B _ _ hst e1))
      · rw [if_neg hpos]
        have hpre : AllOk true (Site.idx i cs.length :: (LS.leBound cs xs c ctx.st i).1 ++
            VS.ctxSetMin ctx (xs.getD i 0) (LS.leBound cs xs c ctx.st i).2) :=
          allOk_append (allOk_cons (okIf_idx _ _ _ hi) b1) (ctxSetMin_ok ctx B hst _ _)
        split
        · exact hpre
        · rename_i c1 e1
          exact allOk_append hpre (ih c1 hrest (storeOK_trySetMin ctx c1 B _ _ hst e1))

theorem neScan_ok (cs : List Int) (xs : List Nat) (st : Store) (B : Nat) (hst : StoreOK st B) :
    ∀ (is : List Nat) (u : Option Nat) (s : Int) (A : Nat), (∀ i ∈ is, i < cs.length) →
      (∀ k, u = some k → k < cs.length) → s.natAbs ≤ A → A + (is.map (term cs B)).sum ≤ 2147483647 →
      AllOk true (LS.neScan cs xs st is u s).1 ∧
      ∀ u' s', (LS.neScan cs xs st is u s).2 = some (u', s') →
        s'.natAbs ≤ A + (is.map (term cs B)).sum ∧ ∀ k, u' = some k → k < cs.length := by
  intro is
  induction is with
  | nil =>
    intro u s A _ hu hs _
    simp only [LS.neScan, List.map_nil, List.sum_nil, Nat.add_zero]
    refine ⟨allOk_nil _, ?_⟩
    intro u' s' e
    simp only [Option.some.injEq, Prod.mk.injEq] at e
    obtain ⟨e1, e2⟩ := e
    subst e1; subst e2
    exact ⟨hs, hu⟩
  | cons i rest ih =>
    intro u s A his hu hs hA
    simp only [List.map_cons, List.sum_cons] at hA ⊢
    have hi := his i List.mem_cons_self
    have hrest : ∀ k ∈ rest, k < cs.length := fun k hk => his k (List.mem_cons_of_mem _ hk)
    obtain ⟨hne, hb⟩ := hst (xs.getD i 0)
    have hl : (st (xs.getD i 0)).length ≠ 0 := fun h => hne (List.length_eq_zero_iff.1 h)
    have hhere : AllOk true [Site.idx i cs.length, Site.nonempty (st (xs.getD i 0)).length] :=
      allOk_cons (okIf_idx _ _ _ hi) (allOk_cons (okIf_nonempty _ _ hl) (allOk_nil _))
    unfold LS.neScan
    simp only []
    by_cases hfix : (st (xs.getD i 0)).dmin = (st (xs.getD i 0)).dmax
    · rw [if_pos hfix]
      have pm := mul_abs (cs.getD i 0) _ B (hb _ (Dom.dmin_mem _ hne))
      have ht : term cs B i = (cs.getD i 0).natAbs * B := rfl
      have sa := Int.natAbs_add_le s (cs.getD i 0 * (st (xs.getD i 0)).dmin)
      have hsat := sat_id (s + cs.getD i 0 * (st (xs.getD i 0)).dmin) (by omega)
      rw [hsat]
      obtain ⟨r1, r2⟩ := ih u (s + cs.getD i 0 * (st (xs.getD i 0)).dmin) (A + term cs B i) hrest hu (by omega) (by omega)
      refine ⟨allOk_append (allOk_append hhere (allOk_cons (okIf_i32_abs _ (by omega)) (allOk_cons (okIf_fid_abs _ (by omega)) (allOk_nil _)))) r1, ?_⟩
      intro u' s' e
      obtain ⟨q1, q2⟩ := r2 u' s' e
      exact ⟨by omega, q2⟩
    · rw [if_neg hfix]
      cases u with
      | some k =>
        simp only []
        refine ⟨hhere, ?_⟩
        intro u' s' e
        cases e
      | none =>
        simp only []
        obtain ⟨r1, r2⟩ := ih (some i) s A hrest (fun k hk => by cases hk; exact hi) hs (by omega)
        refine ⟨allOk_append hhere r1, ?_⟩
        intro u' s' e
        obtain ⟨q1, q2⟩ := r2 u' s' e
        exact ⟨by omega, q2⟩

theorem exclude_ok (x : Nat) (f : Int) (ctx : Ctx) (B : Nat) (hst : StoreOK ctx.st B)
    (hB : B ≤ 2147483645) (hf : f.natAbs ≤ 2147483645) : AllOk true (LS.exclude x f ctx).1 := by
  obtain ⟨hne, _⟩ := hst x
  have hl : (ctx.st x).length ≠ 0 := fun h => hne (List.length_eq_zero_iff.1 h)
  have hpre : AllOk true [Site.nonempty (ctx.st x).length] := allOk_cons (okIf_nonempty _ _ hl) (allOk_nil _)
  unfold LS.exclude
  simp only []
  split
  · exact hpre
  · split
    · exact hpre
    · split
      · exact allOk_append hpre (allOk_cons (okIf_i32_abs _ (by omega)) (ctxSetMin_ok ctx B hst _ _))
      · split
        · exact allOk_append hpre (allOk_cons (okIf_i32_abs _ (by omega)) (ctxSetMax_ok ctx B hst (by omega) _ _ (by omega)))
        · exact hpre

theorem pruneNe_ok (cs : List Int) (xs : List Nat) (c : Int) (B : Nat) (hr : RowOK cs xs c B)
    (ctx : Ctx) (hst : StoreOK ctx.st B) : AllOk true (LS.pruneNe cs xs c ctx).1 := by
  obtain ⟨hlen, hmag, hdom⟩ := hr
  have hW : 0 + ((List.range xs.length).map (term cs B)).sum ≤ 2147483647 := by
    rw [Nat.zero_add]
    have : ((List.range xs.length).map (term cs B)).sum = LS.weight cs xs.length B := rfl
    omega
  obtain ⟨r1, r2⟩ := neScan_ok cs xs ctx.st B hst (List.range xs.length) none 0 0
    (fun i hi => by have := List.mem_range.1 hi; omega) (fun k hk => by cases hk) (by simp) hW
  have hWe : ((List.range xs.length).map (term cs B)).sum = LS.weight cs xs.length B := rfl
  unfold LS.pruneNe
  simp only []
  split
  · exact r1
  · exact r1
  · rename_i i s e
    obtain ⟨q1, q2⟩ := r2 (some i) s e
    have hi := q2 i rfl
    rw [Nat.zero_add, hWe] at q1
    by_cases hc0 : cs.getD i 0 = 0
    · rw [if_pos hc0]
      exact allOk_append r1 (allOk_cons (okIf_idx _ _ _ hi) (allOk_nil _))
    · rw [if_neg hc0]
      have t1 := Int.natAbs_sub_le c s
      have hsat := sat_id (c - s) (by omega)
      rw [hsat]
      have hdv : (Site.divov (c - s) (cs.getD i 0)).okIf true = true := by
        simp only [Site.okIf, Site.structural, Site.faithful, Site.ok, i32Min]
        have : ((c - s) == -2147483648) = false := by
          apply beq_false_of_ne; omega
        simp [this]
      have hpre : AllOk true ((LS.neScan cs xs ctx.st (List.range xs.length) none 0).1 ++
          [Site.idx i cs.length, Site.fid (c - s), Site.nz (cs.getD i 0), Site.divov (c - s) (cs.getD i 0)]) :=
        allOk_append r1 (allOk_cons (okIf_idx _ _ _ hi) (allOk_cons (okIf_fid_abs _ (by omega))
          (allOk_cons (okIf_nz _ hc0) (allOk_cons hdv (allOk_nil _)))))
      split
      · have hq := Int.natAbs_tdiv_le_natAbs (c - s) (cs.getD i 0)
        exact allOk_append hpre (exclude_ok _ _ ctx B hst hdom (by omega))
      · exact hpre

/-! #### the clamped re-statement agrees with `Lin.*` / `PK.prune` -/

theorem sign_pos' {b : Int} (h : 0 < b) : b.sign = 1 := Int.sign_eq_one_of_pos h
theorem sign_neg' {b : Int} (h : b < 0) : b.sign = -1 := Int.sign_eq_neg_one_of_neg h

theorem divRound_floor (a b : Int) (hb : b ≠ 0) : (LS.divRound a b false).2 = floorDiv a b := by
  unfold floorDiv
  rw [Int.fdiv_eq_tdiv]
  simp only [LS.divRound, Bool.false_eq_true, if_false]
  by_cases hd : b ∣ a
  · have : a.tmod b = 0 := Int.tmod_eq_zero_of_dvd hd
    simp [hd, this]
  · have ht : a.tmod b ≠ 0 := fun h => hd (Int.dvd_of_tmod_eq_zero h)
    simp only [hd, if_false, ht, ne_eq, not_false_eq_true, decide_true, Bool.true_and]
    by_cases ha : 0 ≤ a <;> by_cases hbp : 0 ≤ b
    · have : ¬ a < 0 := by omega
      have : ¬ b < 0 := by omega
      simp [*]
    · have : ¬ a < 0 := by omega
      have : b < 0 := by omega
      simp [*]
    · have : a < 0 := by omega
      have : ¬ b < 0 := by omega
      have hs := sign_pos' (b := b) (by omega)
      simp [*]
    · have : a < 0 := by omega
      have : b < 0 := by omega
      have hs := sign_neg' (b := b) (by omega)
      simp [*]

theorem divRound_ceil (a b : Int) (hb : b ≠ 0) : (LS.divRound a b true).2 = ceilDiv a b := by
  unfold ceilDiv
  rw [Int.fdiv_eq_tdiv, Int.neg_tdiv]
  simp only [LS.divRound, if_true]
  by_cases hd : b ∣ a
  · have : a.tmod b = 0 := Int.tmod_eq_zero_of_dvd hd
    have hd' : b ∣ -a := Int.dvd_neg.2 hd
    simp [hd', this]
  · have ht : a.tmod b ≠ 0 := fun h => hd (Int.dvd_of_tmod_eq_zero h)
    have hd' : ¬ b ∣ -a := fun h => hd (Int.dvd_neg.1 h)
    have ha0 : a ≠ 0 := by intro h; apply hd; rw [h]; exact Int.dvd_zero b
    simp only [hd', if_false, ht, ne_eq, not_false_eq_true, decide_true, Bool.true_and]
    by_cases ha : a < 0 <;> by_cases hbp : 0 ≤ b
    · have h1 : a ≤ 0 := by omega
      have h2 : ¬ b < 0 := by omega
      simp only [Int.neg_nonneg, h1, hbp, ha, h2, if_true, decide_true, decide_false]
      simp
    · have h1 : a ≤ 0 := by omega
      have h2 : b < 0 := by omega
      simp only [Int.neg_nonneg, h1, hbp, ha, h2, if_true, if_false, decide_true]
      simp; omega
    · have h1 : ¬ a ≤ 0 := by omega
      have h2 : ¬ b < 0 := by omega
      have hs := sign_pos' (b := b) (by omega)
      simp only [Int.neg_nonneg, h1, hbp, ha, h2, hs, if_true, if_false, decide_false]
      simp; omega
    · have h1 : ¬ a ≤ 0 := by omega
      have h2 : b < 0 := by omega
      have hs := sign_neg' (b := b) (by omega)
      simp only [Int.neg_nonneg, h1, hbp, ha, h2, hs, if_true, if_false, decide_true, decide_false]
      simp

/-- the loop body of `Lin.otherBounds` -/
def exactStep (cs : List Int) (xs : List Nat) (st : Store) (i : Nat) (acc : Int × Int) (j : Nat) : Int × Int :=
  if j = i then acc else
    let tb := Lin.termBounds (cs.getD j 0) (st (xs.getD j 0)).dmin (st (xs.getD j 0)).dmax
    (acc.1 + tb.1, acc.2 + tb.2)

theorem otherBounds_eq (cs : List Int) (xs : List Nat) (st : Store) (i : Nat) (hlen : xs.length ≤ cs.length) :
    Lin.otherBounds cs xs st i = (List.range xs.length).foldl (exactStep cs xs st i) (0, 0) := by
  unfold Lin.otherBounds
  have : Nat.min cs.length xs.length = xs.length := Nat.min_eq_right hlen
  rw [this]
  rfl

theorem othersStep_val (both : Bool) (cs : List Int) (xs : List Nat) (st : Store) (i B : Nat)
    (hst : VS.StoreOK st B) (acc : List Site × Int × Int) (j A : Nat)
    (h2 : acc.2.1.natAbs ≤ A) (h3 : acc.2.2.natAbs ≤ A) (hA : A + term cs B j ≤ 2147483647) :
    (LS.othersStep both cs xs st i acc j).2 = exactStep cs xs st i acc.2 j := by
  unfold LS.othersStep exactStep
  by_cases hji : j = i
  · rw [if_pos hji, if_pos hji]
  · rw [if_neg hji, if_neg hji]
    obtain ⟨hne, hb⟩ := hst (xs.getD j 0)
    have pmin := mul_abs (cs.getD j 0) _ B (hb _ (Dom.dmin_mem _ hne))
    have pmax := mul_abs (cs.getD j 0) _ B (hb _ (Dom.dmax_mem _ hne))
    have ht : term cs B j = (cs.getD j 0).natAbs * B := rfl
    have hmn : (if cs.getD j 0 > 0 then cs.getD j 0 * (st (xs.getD j 0)).dmin else cs.getD j 0 * (st (xs.getD j 0)).dmax).natAbs ≤ term cs B j := by
      split <;> omega
    have hmx : (if cs.getD j 0 > 0 then cs.getD j 0 * (st (xs.getD j 0)).dmax else cs.getD j 0 * (st (xs.getD j 0)).dmin).natAbs ≤ term cs B j := by
      split <;> omega
    have s1 := Int.natAbs_add_le acc.2.1 (if cs.getD j 0 > 0 then cs.getD j 0 * (st (xs.getD j 0)).dmin else cs.getD j 0 * (st (xs.getD j 0)).dmax)
    have s2 := Int.natAbs_add_le acc.2.2 (if cs.getD j 0 > 0 then cs.getD j 0 * (st (xs.getD j 0)).dmax else cs.getD j 0 * (st (xs.getD j 0)).dmin)
    show (LS.sat _, LS.sat _) = _
    rw [sat_id _ (by omega), sat_id _ (by omega)]
    unfold Lin.termBounds
    by_cases hc : cs.getD j 0 > 0
    · simp only [hc, if_true]
    · simp only [hc, if_false]

theorem others_fold_val (both : Bool) (cs : List Int) (xs : List Nat) (st : Store) (i B : Nat)
    (hst : VS.StoreOK st B) :
    ∀ (js : List Nat) (acc : List Site × Int × Int) (A : Nat), (∀ j ∈ js, j < cs.length) →
      AllOk true acc.1 → acc.2.1.natAbs ≤ A → acc.2.2.natAbs ≤ A →
      A + (js.map (term cs B)).sum ≤ 2147483647 →
      (js.foldl (LS.othersStep both cs xs st i) acc).2 = js.foldl (exactStep cs xs st i) acc.2 := by
  intro js
  induction js with
  | nil => intro acc A _ _ _ _ _; rfl
  | cons j js ih =>
    intro acc A hjs h1 h2 h3 hA
    simp only [List.map_cons, List.sum_cons] at hA
    simp only [List.foldl_cons]
    obtain ⟨b1, b2, b3⟩ := othersStep_ok both cs xs st i B hst acc j A (hjs j List.mem_cons_self) h1 h2 h3 (by omega)
    have hv := othersStep_val both cs xs st i B hst acc j A h2 h3 (by omega)
    rw [ih _ (A + term cs B j) (fun k hk => hjs k (List.mem_cons_of_mem _ hk)) b1 b2 b3 (by omega), hv]

/-- under the magnitude hypothesis the clamped sums are the exact sums of `Lin.otherBounds` -/
theorem others_eq (both : Bool) (cs : List Int) (xs : List Nat) (st : Store) (i B : Nat)
    (hst : VS.StoreOK st B) (hlen : xs.length ≤ cs.length) (hW : LS.weight cs xs.length B ≤ 2147483647) :
    (LS.others both cs xs st i).2 = Lin.otherBounds cs xs st i := by
  rw [otherBounds_eq cs xs st i hlen]
  have hW' : 0 + ((List.range xs.length).map (term cs B)).sum ≤ 2147483647 := by
    rw [Nat.zero_add]; exact hW
  exact others_fold_val both cs xs st i B hst (List.range xs.length) ([], 0, 0) 0
    (fun j hj => by have := List.mem_range.1 hj; omega) (allOk_nil _) (by simp) (by simp) hW'

theorem forM_none {α : Type} (l : List α) (f : α → Ctx → Option Ctx) :
    l.foldl (fun acc a => match acc with | none => none | some c' => f a c') none = none := by
  induction l with
  | nil => rfl
  | cons x l ih => simpa using ih

theorem forM_cons {α : Type} (x : α) (l : List α) (c : Ctx) (f : α → Ctx → Option Ctx) :
    forM' (x :: l) c f = match f x c with | none => none | some c' => forM' l c' f := by
  unfold forM'
  simp only [List.foldl_cons]
  cases f x c with
  | none => exact forM_none l f
  | some c' => rfl

/-- the loop body of `Lin.pruneEq` -/
def eqBody (cs : List Int) (xs : List Nat) (c : Int) (i : Nat) (ctx : Ctx) : Option Ctx :=
  let coeff := cs.getD i 0
  if coeff = 0 then some ctx else
    let ob := Lin.otherBounds cs xs ctx.st i
    let tmin := c - ob.2
    let tmax := c - ob.1
    let nb : Int × Int :=
      if coeff > 0 then (ceilDiv tmin coeff, floorDiv tmax coeff)
      else (ceilDiv tmax coeff, floorDiv tmin coeff)
    match ctx.trySetMin (xs.getD i 0) nb.1 with
    | none => none
    | some c1 => c1.trySetMax (xs.getD i 0) nb.2

theorem lin_pruneEq_def (cs : List Int) (xs : List Nat) (c : Int) (ctx : Ctx) :
    Lin.pruneEq cs xs c ctx = forM' (List.range xs.length) ctx (eqBody cs xs c) := rfl

theorem eqBounds_val (cs : List Int) (xs : List Nat) (c : Int) (B : Nat) (hr : RowOK cs xs c B)
    (st : Store) (hst : VS.StoreOK st B) (i : Nat) (hc0 : cs.getD i 0 ≠ 0) :
    (LS.eqBounds cs xs c st i).2 =
      (if cs.getD i 0 > 0 then
        (ceilDiv (c - (Lin.otherBounds cs xs st i).2) (cs.getD i 0), floorDiv (c - (Lin.otherBounds cs xs st i).1) (cs.getD i 0))
       else
        (ceilDiv (c - (Lin.otherBounds cs xs st i).1) (cs.getD i 0), floorDiv (c - (Lin.otherBounds cs xs st i).2) (cs.getD i 0))) := by
  obtain ⟨hlen, hmag, hdom⟩ := hr
  obtain ⟨_, o2, o3⟩ := others_ok true cs xs st i B hst hlen (by omega)
  have hv := others_eq true cs xs st i B hst hlen (by omega)
  have t1 := Int.natAbs_sub_le c (LS.others true cs xs st i).2.2
  have t2 := Int.natAbs_sub_le c (LS.others true cs xs st i).2.1
  have st1 := sat_id (c - (LS.others true cs xs st i).2.2) (by omega)
  have st2 := sat_id (c - (LS.others true cs xs st i).2.1) (by omega)
  simp only [LS.eqBounds]
  rw [st1, st2, hv]
  by_cases hpos : cs.getD i 0 > 0
  · simp only [hpos, if_true, divRound_ceil _ _ hc0, divRound_floor _ _ hc0]
  · simp only [hpos, if_false, divRound_ceil _ _ hc0, divRound_floor _ _ hc0]

theorem pruneEq_val (cs : List Int) (xs : List Nat) (c : Int) (B : Nat) (hr : RowOK cs xs c B) :
    ∀ (is : List Nat) (ctx : Ctx), VS.StoreOK ctx.st B →
      (LS.pruneEq cs xs c is ctx).2 = forM' is ctx (eqBody cs xs c) := by
  intro is
  induction is with
  | nil => intro ctx _; rfl
  | cons i rest ih =>
    intro ctx hst
    rw [forM_cons]
    unfold LS.pruneEq eqBody
    by_cases hc0 : cs.getD i 0 = 0
    · simp only [hc0, if_true]
      exact ih ctx hst
    · simp only [hc0, if_false]
      have hv := eqBounds_val cs xs c B hr ctx.st hst i hc0
      have e1 : (LS.eqBounds cs xs c ctx.st i).2.1 = (if cs.getD i 0 > 0 then
          (ceilDiv (c - (Lin.otherBounds cs xs ctx.st i).2) (cs.getD i 0), floorDiv (c - (Lin.otherBounds cs xs ctx.st i).1) (cs.getD i 0))
         else
          (ceilDiv (c - (Lin.otherBounds cs xs ctx.st i).1) (cs.getD i 0), floorDiv (c - (Lin.otherBounds cs xs ctx.st i).2) (cs.getD i 0))).1 := by rw [hv]
      have e2 : (LS.eqBounds cs xs c ctx.st i).2.2 = (if cs.getD i 0 > 0 then
          (ceilDiv (c - (Lin.otherBounds cs xs ctx.st i).2) (cs.getD i 0), floorDiv (c - (Lin.otherBounds cs xs ctx.st i).1) (cs.getD i 0))
         else
          (ceilDiv (c - (Lin.otherBounds cs xs ctx.st i).1) (cs.getD i 0), floorDiv (c - (Lin.otherBounds cs xs ctx.st i).2) (cs.getD i 0))).2 := by rw [hv]
      rw [e1, e2]
      cases h1 : ctx.trySetMin (xs.getD i 0) _ with
      | none => rfl
      | some c1 =>
        simp only []
        have hst1 := storeOK_trySetMin ctx c1 B _ _ hst h1
        cases h2 : c1.trySetMax (xs.getD i 0) _ with
        | none => rfl
        | some c2 =>
          simp only []
          exact ih c2 (storeOK_trySetMax c1 c2 B _ _ hst1 h2)

/-- **the clamped re-statement is the propagator of the contract theorems** -/
theorem pruneEq_eq_PK (cs : List Int) (xs : List Nat) (c : Int) (B : Nat) (hr : RowOK cs xs c B)
    (ctx : Ctx) (hst : VS.StoreOK ctx.st B) :
    (LS.pruneEq cs xs c (List.range xs.length) ctx).2 = PK.prune (.linEq cs xs c) ctx := by
  show _ = Lin.pruneEq cs xs c ctx
  rw [lin_pruneEq_def]
  exact pruneEq_val cs xs c B hr _ ctx hst

/-- the loop body of `Lin.pruneLe` -/
def leBody (cs : List Int) (xs : List Nat) (c : Int) (i : Nat) (ctx : Ctx) : Option Ctx :=
  let coeff := cs.getD i 0
  if coeff = 0 then some ctx else
    let ob := Lin.otherBounds cs xs ctx.st i
    let remaining := c - ob.1
    if coeff > 0 then ctx.trySetMax (xs.getD i 0) (remaining / coeff)
    else ctx.trySetMin (xs.getD i 0) (remaining / coeff)

theorem lin_pruneLe_def (cs : List Int) (xs : List Nat) (c : Int) (ctx : Ctx) :
    Lin.pruneLe cs xs c ctx = forM' (List.range xs.length) ctx (leBody cs xs c) := rfl

theorem leBound_val (cs : List Int) (xs : List Nat) (c : Int) (B : Nat) (hr : RowOK cs xs c B)
    (st : Store) (hst : VS.StoreOK st B) (i : Nat) :
    (LS.leBound cs xs c st i).2 = (c - (Lin.otherBounds cs xs st i).1) / cs.getD i 0 := by
  obtain ⟨hlen, hmag, hdom⟩ := hr
  obtain ⟨_, o2, _⟩ := others_ok false cs xs st i B hst hlen (by omega)
  have hv := others_eq false cs xs st i B hst hlen (by omega)
  have t1 := Int.natAbs_sub_le c (LS.others false cs xs st i).2.1
  have st1 := sat_id (c - (LS.others false cs xs st i).2.1) (by omega)
  simp only [LS.leBound]
  rw [st1, hv]

theorem pruneLe_val (cs : List Int) (xs : List Nat) (c : Int) (B : Nat) (hr : RowOK cs xs c B) :
    ∀ (is : List Nat) (ctx : Ctx), VS.StoreOK ctx.st B →
      (LS.pruneLe cs xs c is ctx).2 = forM' is ctx (leBody cs xs c) := by
  intro is
  induction is with
  | nil => intro ctx _; rfl
  | cons i rest ih =>
    intro ctx hst
    rw [forM_cons]
    unfold LS.pruneLe leBody
    by_cases hc0 : cs.getD i 0 = 0
    · simp only [hc0, if_true]
      exact ih ctx hst
    · simp only [hc0, if_false]
      rw [leBound_val cs xs c B hr ctx.st hst i]
      by_cases hpos : cs.getD i 0 > 0
      · simp only [hpos, if_true]
        cases h1 : ctx.trySetMax (xs.getD i 0) _ with
        | none => rfl
        | some c1 =>
          simp only []
          exact ih c1 (storeOK_trySetMax ctx c1 B _ _ hst h1)
      · simp only [hpos, if_false]
        cases h1 : ctx.trySetMin (xs.getD i 0) _ with
        | none => rfl
        | some c1 =>
          simp only []
          exact ih c1 (storeOK_trySetMin ctx c1 B _ _ hst h1)

theorem pruneLe_eq_PK (cs : List Int) (xs : List Nat) (c : Int) (B : Nat) (hr : RowOK cs xs c B)
    (ctx : Ctx) (hst : VS.StoreOK ctx.st B) :
    (LS.pruneLe cs xs c (List.range xs.length) ctx).2 = PK.prune (.linLe cs xs c) ctx := by
  show _ = Lin.pruneLe cs xs c ctx
  rw [lin_pruneLe_def]
  exact pruneLe_val cs xs c B hr _ ctx hst

/-- the loop body of `Lin.neScan` -/
def neBody (cs : List Int) (xs : List Nat) (st : Store) (acc : Option (Option Nat × Int)) (i : Nat) :
    Option (Option Nat × Int) :=
  match acc with
  | none => none
  | some (u, s) =>
    let d := st (xs.getD i 0)
    if d.dmin = d.dmax then some (u, s + cs.getD i 0 * d.dmin)
    else match u with
      | some _ => none
      | none => some (some i, s)

theorem lin_neScan_def (cs : List Int) (xs : List Nat) (st : Store) :
    Lin.neScan cs xs st = (List.range xs.length).foldl (neBody cs xs st) (some (none, 0)) := rfl

theorem neBody_none (cs : List Int) (xs : List Nat) (st : Store) (l : List Nat) :
    l.foldl (neBody cs xs st) none = none := by
  induction l with
  | nil => rfl
  | cons x l ih => simpa [neBody] using ih

theorem neScan_val (cs : List Int) (xs : List Nat) (st : Store) (B : Nat) (hst : VS.StoreOK st B) :
    ∀ (is : List Nat) (u : Option Nat) (s : Int) (A : Nat), s.natAbs ≤ A →
      A + (is.map (term cs B)).sum ≤ 2147483647 →
      (LS.neScan cs xs st is u s).2 = is.foldl (neBody cs xs st) (some (u, s)) := by
  intro is
  induction is with
  | nil => intro u s A _ _; rfl
  | cons i rest ih =>
    intro u s A hs hA
    simp only [List.map_cons, List.sum_cons] at hA
    obtain ⟨hne, hb⟩ := hst (xs.getD i 0)
    unfold LS.neScan
    simp only [List.foldl_cons, neBody]
    by_cases hfix : (st (xs.getD i 0)).dmin = (st (xs.getD i 0)).dmax
    · simp only [hfix, if_true]
      have pm := mul_abs (cs.getD i 0) _ B (hb _ (Dom.dmax_mem _ hne))
      have ht : term cs B i = (cs.getD i 0).natAbs * B := rfl
      have sa := Int.natAbs_add_le s (cs.getD i 0 * (st (xs.getD i 0)).dmax)
      rw [sat_id _ (by omega)]
      exact ih u _ (A + term cs B i) (by omega) (by omega)
    · simp only [hfix, if_false]
      cases u with
      | some k => simp only []; exact (neBody_none cs xs st rest).symm
      | none => simp only []; exact ih (some i) s A hs (by omega)

theorem exclude_val (x : Nat) (f : Int) (ctx : Ctx) : (LS.exclude x f ctx).2 = Lin.excludeValue x f ctx := by
  unfold LS.exclude Lin.excludeValue
  simp only []
  split
  · rfl
  · split
    · rfl
    · split
      · rfl
      · split <;> rfl

theorem pruneNe_eq_PK (cs : List Int) (xs : List Nat) (c : Int) (B : Nat) (hr : RowOK cs xs c B)
    (ctx : Ctx) (hst : VS.StoreOK ctx.st B) :
    (LS.pruneNe cs xs c ctx).2 = PK.prune (.linNe cs xs c) ctx := by
  show _ = Lin.pruneNe cs xs c ctx
  obtain ⟨hlen, hmag, hdom⟩ := hr
  have hWe : ((List.range xs.length).map (term cs B)).sum = LS.weight cs xs.length B := rfl
  have hW : 0 + ((List.range xs.length).map (term cs B)).sum ≤ 2147483647 := by omega
  have hv := neScan_val cs xs ctx.st B hst (List.range xs.length) none 0 0 (by simp) hW
  obtain ⟨_, r2⟩ := neScan_ok cs xs ctx.st B hst (List.range xs.length) none 0 0
    (fun i hi => by have := List.mem_range.1 hi; omega) (fun k hk => by cases hk) (by simp) hW
  unfold LS.pruneNe Lin.pruneNe
  rw [lin_neScan_def, ← hv]
  simp only []
  split
  · rename_i e; rw [e]
  · rename_i s e; rw [e]
  · rename_i i s e
    rw [e]
    obtain ⟨q1, _⟩ := r2 (some i) s e
    rw [Nat.zero_add, hWe] at q1
    simp only []
    by_cases hc0 : cs.getD i 0 = 0
    · simp only [hc0, if_true]
    · simp only [hc0, if_false]
      have t1 := Int.natAbs_sub_le c s
      rw [sat_id (c - s) (by omega)]
      by_cases hm : (c - s).tmod (cs.getD i 0) = 0
      · simp only [hm, if_true]; exact exclude_val _ _ _
      · simp only [hm, if_false]

end LS

/-! ### `SparseSet`: queries, iterators, constructors -/

/-- bounds of a constructor argument: inside `[-2^30, 2^30 - 1)` -/
def SmallB (v : Int) : Prop := -1073741824 ≤ v ∧ v < 1073741823

namespace SSS
open SS

theorem valSites_ok (a : Bool) (s : SS) (i : Nat) (hv : s.val i < s.n) (hs : a = true → Small s) :
    AllOk a [Site.fid (s.val i), Site.i32 ((s.val i : Int) + s.off)] := by
  refine allOk_cons (okIf_fid a _ ?_) (allOk_cons (okIf_i32 a _ ?_) (allOk_nil a))
  · intro ha; obtain ⟨h1, h2⟩ := hs ha; simp only [i32Min, i32Max]; omega
  · intro ha; obtain ⟨h1, h2⟩ := hs ha; simp only [i32Min, i32Max]; omega

/-- a stored value (position below `n`) is a small argument -/
theorem val_small (s : SS) (h : s.WF) (hs : Small s) (i : Nat) (hi : i < s.n) :
    SmallV ((s.val i : Int) + s.off) := by
  have hv : s.val i < s.n := (h.perm.1 i hi).1
  obtain ⟨h1, h2⟩ := hs
  unfold SmallV; omega

theorem subsetFrom_ok (a : Bool) (s o : SS) (h : s.WF) (hs : a = true → Small s) (ho : a = true → Small o) :
    ∀ is : List Nat, (∀ i ∈ is, i < s.size) → AllOk a (SSS.subsetFrom s o is) := by
  intro is
  induction is with
  | nil => intro _; exact allOk_nil a
  | cons i r ih =>
    intro his
    have hi : i < s.size := his i List.mem_cons_self
    have hin : i < s.n := by have := h.size_le; omega
    have hv : s.val i < s.n := (h.perm.1 i hin).1
    unfold SSS.subsetFrom
    refine allOk_append (allOk_append (allOk_cons (okIf_idx a _ _ hin) (valSites_ok a s i hv hs))
      (contains_ok a o _ ho (fun ha => val_small s h (hs ha) i hin))) ?_
    split
    · exact ih (fun k hk => his k (List.mem_cons_of_mem _ hk))
    · exact allOk_nil a

theorem isSubsetOf_ok (a : Bool) (s o : SS) (h : s.WF) (hs : a = true → Small s) (ho : a = true → Small o) :
    AllOk a (SSS.isSubsetOf s o) :=
  subsetFrom_ok a s o h hs ho _ (fun _ hi => List.mem_range.1 hi)

theorem equals_ok (a : Bool) (s o : SS) (h : s.WF) (hs : a = true → Small s) (ho : a = true → Small o) :
    AllOk a (SSS.equals s o) := by
  unfold SSS.equals
  split
  · exact allOk_nil a
  · exact allOk_append (allOk_cons (okIf_le a _ _ h.size_le) (allOk_nil a))
      (subsetFrom_ok a s o h hs ho _ (fun _ hi => List.mem_range.1 hi))

theorem complementIter_ok (a : Bool) (s : SS) (h : s.WF) (hs : a = true → Small s) :
    AllOk a (SSS.complementIter s) := by
  unfold SSS.complementIter
  refine allOk_cons (okIf_le a _ _ h.size_le) (allOk_flatMap _ _ ?_)
  intro i hi
  have hi' : i < s.n - s.size := List.mem_range.1 hi
  have hv : s.val (s.size + i) < s.n := (h.perm.1 _ (by omega)).1
  exact valSites_ok a s _ hv hs

theorem first_ok (a : Bool) (s : SS) (h : s.WF) (hs : a = true → Small s) : AllOk a (SSS.first s) := by
  unfold SSS.first
  by_cases he : s.isEmpty = true
  · rw [if_pos he]; exact allOk_nil a
  · rw [if_neg he]
    have hne : s.size ≠ 0 := by simpa [isEmpty] using he
    have hn : 0 < s.n := by have := h.size_le; omega
    exact allOk_cons (okIf_idx a _ _ hn) (valSites_ok a s 0 (h.perm.1 0 hn).1 hs)

theorem last_ok (a : Bool) (s : SS) (h : s.WF) (hs : a = true → Small s) : AllOk a (SSS.last s) := by
  unfold SSS.last
  by_cases he : s.isEmpty = true
  · rw [if_pos he]; exact allOk_nil a
  · rw [if_neg he]
    have hne : s.size ≠ 0 := by simpa [isEmpty] using he
    have hn : s.size - 1 < s.n := by have := h.size_le; omega
    exact allOk_cons (okIf_pos a _ (by omega)) (allOk_cons (okIf_idx a _ _ hn) (valSites_ok a s _ (h.perm.1 _ hn).1 hs))

theorem maxUniverse_ok (a : Bool) (s : SS) (hs : a = true → Small s) : AllOk a (SSS.maxUniverse s) := by
  unfold SSS.maxUniverse
  refine allOk_cons (okIf_fid a _ ?_) (allOk_cons (okIf_i32 a _ ?_) (allOk_cons (okIf_i32 a _ ?_) (allOk_nil a))) <;>
  · intro ha; obtain ⟨h1, h2⟩ := hs ha; simp only [i32Min, i32Max]; omega

theorem restoreSize_ok (a : Bool) (s : SS) (k : Nat) (hk : k ≤ s.n) : AllOk a (SSS.restoreSize s k) :=
  allOk_cons (okIf_le a _ _ hk) (allOk_nil a)

theorem new_ok (lo hi : Int) (hlo : SmallB lo) (hhi : SmallB hi) : AllOk true (SSS.new lo hi) := by
  obtain ⟨a1, a2⟩ := hlo
  obtain ⟨b1, b2⟩ := hhi
  unfold SSS.new
  by_cases h : lo > hi
  · simp only [h, if_true]
    exact allOk_cons (okIf_i32 _ _ (fun _ => by simp only [i32Min, i32Max]; omega))
      (allOk_cons (okIf_u32 _ _ (fun _ => by simp only [u32Max]; omega)) (allOk_nil _))
  · simp only [h, if_false]
    exact allOk_cons (okIf_i32 _ _ (fun _ => by simp only [i32Min, i32Max]; omega))
      (allOk_cons (okIf_u32 _ _ (fun _ => by simp only [u32Max]; omega)) (allOk_nil _))

theorem new_small (lo hi : Int) (hlo : SmallB lo) (hhi : SmallB hi) : Small (SS.new lo hi) := by
  obtain ⟨a1, a2⟩ := hlo
  obtain ⟨b1, b2⟩ := hhi
  refine ⟨?_, ?_⟩
  · simp only [SS.new]; split <;> omega
  · simp only [SS.new]; split <;> omega

/-- the sites of `new` are never structural -/
theorem new_structural (a : Bool) (lo hi : Int) (h : a = true → AllOk true (SSS.new lo hi)) :
    AllOk a (SSS.new lo hi) := by
  cases a
  · intro x hx
    simp only [SSS.new, List.mem_cons, List.not_mem_nil, or_false] at hx
    rcases hx with rfl | rfl <;> simp [Site.okIf, Site.structural]
  · exact h rfl

theorem newFromValues_ok (a : Bool) (vs : List Int) (hv : a = true → ∀ w ∈ vs, SmallB w) :
    AllOk a (SSS.newFromValues vs) := by
  unfold SSS.newFromValues
  by_cases he : vs.isEmpty = true
  · rw [if_pos he]; exact allOk_nil a
  · rw [if_neg he]
    have hne : vs ≠ [] := by intro h; rw [h] at he; simp at he
    have hlo : a = true → SmallB (listMin vs) := fun ha => hv ha _ (Dom.dmin_mem vs hne)
    have hhi : a = true → SmallB (listMax vs) := fun ha => hv ha _ (Dom.dmax_mem vs hne)
    have hnew : AllOk a (SSS.new (listMin vs) (listMax vs)) :=
      new_structural a _ _ (fun ha => new_ok _ _ (hlo ha) (hhi ha))
    simp only []
    split
    · exact hnew
    · refine allOk_append hnew (foldRemove_ok a _ _ (new_wf _ _) (fun ha => new_small _ _ (hlo ha) (hhi ha)) ?_)
      intro ha w hw
      have hm := (mem_intRange _ _ _).1 (List.mem_filter.1 hw).1
      obtain ⟨a1, a2⟩ := hlo ha
      obtain ⟨b1, b2⟩ := hhi ha
      unfold SmallV; omega

end SSS

end Safety
end Selen

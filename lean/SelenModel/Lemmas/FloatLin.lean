/-
Lemmas about the float linear propagators of `Model/FloatCore.lean` at exact arithmetic
(`Num Rat`): membership of an assignment in a store, bounds of the accumulated `min_other` /
`max_other`, preservation of membership by the bound-tightening arms, the loop combinator.
-/
import SelenModel.Lemmas.FloatCore

namespace Selen
open Num

/-! ### assignments and rows -/

/-- value of the row `Σ cᵢ·a(xᵢ)` under an assignment -/
def dot (a : Nat → Rat) : List Rat → List Nat → Rat
  | [], _ => 0
  | _, [] => 0
  | c :: cs, x :: xs => c * a x + dot a cs xs

/-- the row without the term at index `i` (positions counted from `j`) -/
def dotOther (a : Nat → Rat) (i : Nat) : Nat → List Rat → List Nat → Rat
  | _, [], _ => 0
  | _, _, [] => 0
  | j, c :: cs, x :: xs => (if j = i then 0 else c * a x) + dotOther a i (j + 1) cs xs

/-- `a` lies in the store: inside every float interval, whose (positive) step is `σ x`, and on an
integer variable `a` is one of the domain's integers (inside the `i32` range) -/
def FMem (st : FStore Rat) (a : Nat → Rat) (σ : Nat → Rat) : Prop :=
  ∀ x, match st x with
    | .flt iv => iv.step = σ x ∧ 0 < iv.step ∧ iv.min ≤ a x ∧ a x ≤ iv.max
    | .int d => ∃ z : Int, z ∈ d ∧ a x = (z : Rat) ∧ -2147483648 ≤ z ∧ z ≤ 2147483647

namespace RatL

theorem mul_le_mul_left_nonneg {x y c : Rat} (h : x ≤ y) (hc : 0 ≤ c) : c * x ≤ c * y :=
  Rat.mul_le_mul_of_nonneg_left h hc

theorem mul_le_mul_left_nonpos {x y c : Rat} (h : x ≤ y) (hc : c ≤ 0) : c * y ≤ c * x := by
  have := @Rat.mul_le_mul_of_nonneg_left x y (-c) h (by grind)
  grind

/-- from `c·t ≤ 0` and `c < 0` conclude `0 ≤ t` -/
theorem nonneg_of_neg_mul_nonpos {c t : Rat} (hc : c < 0) (h : c * t ≤ 0) : 0 ≤ t := by
  apply Rat.not_lt.mp
  intro ht
  have := @Rat.mul_pos (-c) (-t) (by grind) (by grind)
  grind

/-- from `c·t ≤ 0` and `0 < c` conclude `t ≤ 0` -/
theorem nonpos_of_pos_mul_nonpos {c t : Rat} (hc : 0 < c) (h : c * t ≤ 0) : t ≤ 0 := by
  apply Rat.not_lt.mp
  intro ht
  have := @Rat.mul_pos c t hc ht
  grind

theorem foldl_min_le (xs : List Int) (init : Int) :
    xs.foldl (fun m y => if y < m then y else m) init ≤ init ∧
    ∀ y ∈ xs, xs.foldl (fun m y => if y < m then y else m) init ≤ y := by
  induction xs generalizing init with
  | nil => simp
  | cons x xs ih =>
    simp only [List.foldl_cons, List.mem_cons]
    have h1 := ih (if x < init then x else init)
    constructor
    · have := h1.1; split at this <;> omega
    · intro y hy
      rcases hy with rfl | hy
      · have := h1.1; split at this <;> omega
      · exact h1.2 y hy

theorem foldl_max_ge (xs : List Int) (init : Int) :
    init ≤ xs.foldl (fun m y => if m < y then y else m) init ∧
    ∀ y ∈ xs, y ≤ xs.foldl (fun m y => if m < y then y else m) init := by
  induction xs generalizing init with
  | nil => simp
  | cons x xs ih =>
    simp only [List.foldl_cons, List.mem_cons]
    have h1 := ih (if init < x then x else init)
    constructor
    · have := h1.1; split at this <;> omega
    · intro y hy
      rcases hy with rfl | hy
      · have := h1.1; split at this <;> omega
      · exact h1.2 y hy

end RatL

theorem ilmin_le (d : List Int) (z : Int) (h : z ∈ d) : ilmin d ≤ z := by
  cases d with
  | nil => simp at h
  | cons x xs =>
    simp only [ilmin]
    have := RatL.foldl_min_le xs x
    rcases List.mem_cons.mp h with rfl | h
    · exact this.1
    · exact this.2 z h

theorem ilmax_ge (d : List Int) (z : Int) (h : z ∈ d) : z ≤ ilmax d := by
  cases d with
  | nil => simp at h
  | cons x xs =>
    simp only [ilmax]
    have := RatL.foldl_max_ge xs x
    rcases List.mem_cons.mp h with rfl | h
    · exact this.1
    · exact this.2 z h

/-- the bounds of a variable as floats enclose the assignment -/
theorem boundsF_encl (st : FStore Rat) (a σ : Nat → Rat) (hm : FMem st a σ) (x : Nat) :
    (FPK.boundsF st x).1 ≤ a x ∧ a x ≤ (FPK.boundsF st x).2 := by
  have h := hm x
  simp only [FPK.boundsF, FStore.vmin, FStore.vmax]
  cases hx : st x with
  | flt iv => rw [hx] at h; simp only [FVal.toF]; exact ⟨h.2.2.1, h.2.2.2⟩
  | int d =>
    rw [hx] at h
    obtain ⟨z, hz, hza, _, _⟩ := h
    simp only [FVal.toF, Num.ofInt]
    rw [hza]
    exact ⟨RatL.intCast_le (ilmin_le d z hz), RatL.intCast_le (ilmax_ge d z hz)⟩

/-- `(min_term, max_term)` enclose `c·a(x)` -/
theorem term_encl (st : FStore Rat) (a σ : Nat → Rat) (hm : FMem st a σ) (c : Rat) (x : Nat) :
    (FPK.term st c x).1 ≤ c * a x ∧ c * a x ≤ (FPK.term st c x).2 := by
  obtain ⟨h1, h2⟩ := boundsF_encl st a σ hm x
  simp only [FPK.term]
  num_simp
  by_cases hc : (0 : Rat) < c
  · have e1 := RatL.mul_le_mul_left_nonneg h1 (Rat.le_of_lt hc)
    have e2 := RatL.mul_le_mul_left_nonneg h2 (Rat.le_of_lt hc)
    simp [hc]; exact ⟨e1, e2⟩
  · have hc' : c ≤ 0 := Rat.not_lt.mp hc
    have e1 := RatL.mul_le_mul_left_nonpos h2 hc'
    have e2 := RatL.mul_le_mul_left_nonpos h1 hc'
    simp [hc]; exact ⟨e1, e2⟩

/-- the accumulated `(min_other, max_other)` enclose the row without term `i` -/
theorem otherSums_encl (st : FStore Rat) (a σ : Nat → Rat) (hm : FMem st a σ) (i : Nat) :
    ∀ (cs : List Rat) (xs : List Nat) (j : Nat) (acc : Rat × Rat),
      (FPK.otherSums st i j cs xs acc).1 ≤ acc.1 + dotOther a i j cs xs ∧
      acc.2 + dotOther a i j cs xs ≤ (FPK.otherSums st i j cs xs acc).2 := by
  intro cs
  induction cs with
  | nil => intro xs j acc; simp only [FPK.otherSums, dotOther]; constructor <;> grind
  | cons c cs ih =>
    intro xs j acc
    cases xs with
    | nil => simp only [FPK.otherSums, dotOther]; constructor <;> grind
    | cons x xs =>
      simp only [FPK.otherSums, dotOther]
      by_cases hj : j = i
      · simp only [hj, if_true]
        have := ih xs (i + 1) acc
        grind
      · simp only [hj, if_false]
        have t := term_encl st a σ hm c x
        have := ih xs (j + 1) (acc.1 + (FPK.term st c x).1, acc.2 + (FPK.term st c x).2)
        grind

/-- splitting the row at position `i` -/
theorem dot_split (a : Nat → Rat) (i : Nat) :
    ∀ (cs : List Rat) (xs : List Nat) (j : Nat) (ci : Rat) (xi : Nat),
      j ≤ i → (cs.zip xs)[i - j]? = some (ci, xi) →
      dot a cs xs = ci * a xi + dotOther a i j cs xs := by
  intro cs
  induction cs with
  | nil => intro xs j ci xi _ h; simp at h
  | cons c cs ih =>
    intro xs j ci xi hj h
    cases xs with
    | nil => simp at h
    | cons x xs =>
      simp only [dot, dotOther]
      by_cases hji : j = i
      · subst hji
        simp at h
        obtain ⟨rfl, rfl⟩ := h
        simp only [if_true]
        -- the remaining positions are all different from `j`
        have rest : ∀ (cs : List Rat) (xs : List Nat) (k : Nat), j < k → dotOther a j k cs xs = dot a cs xs := by
          intro cs
          induction cs with
          | nil => intro xs k _; simp [dot, dotOther]
          | cons c cs ih2 =>
            intro xs k hk
            cases xs with
            | nil => simp [dot, dotOther]
            | cons x xs =>
              simp only [dot, dotOther]
              have : k ≠ j := by omega
              simp only [this, if_false]
              rw [ih2 xs (k + 1) (by omega)]
        rw [rest cs xs (j + 1) (by omega)]
        grind
      · simp only [hji, if_false]
        have h' : (cs.zip xs)[i - (j + 1)]? = some (ci, xi) := by
          have : i - j = (i - (j + 1)) + 1 := by omega
          rw [this] at h
          simpa using h
        rw [ih xs (j + 1) ci xi (by omega) h']
        grind

/-! ### the loop combinator -/

/-- invariant rule for `forIdx` over a list `l0`: if every step at a position of `l0` preserves `P`
and succeeds, so does the loop -/
theorem forIdx_inv {β : Type} (f : Nat → β → FCtx Rat → Option (FCtx Rat)) (P : FCtx Rat → Prop)
    (l0 : List β)
    (hstep : ∀ k b c, l0[k]? = some b → P c → ∃ c', f k b c = some c' ∧ P c') :
    ∀ (l : List β) (k : Nat) (c : FCtx Rat), l = l0.drop k → P c →
      ∃ c', FPK.forIdx f k l c = some c' ∧ P c' := by
  intro l
  induction l with
  | nil => intro k c _ hp; exact ⟨c, rfl, hp⟩
  | cons b bs ih =>
    intro k c hl hp
    have hb : l0[k]? = some b := by
      have : (l0.drop k)[0]? = some b := by rw [← hl]; rfl
      simpa using this
    obtain ⟨c1, h1, p1⟩ := hstep k b c hb hp
    have hbs : bs = l0.drop (k + 1) := by
      have : (b :: bs).drop 1 = (l0.drop k).drop 1 := by rw [hl]
      simpa [List.drop_drop, Nat.add_comm] using this
    obtain ⟨c2, h2, p2⟩ := ih (k + 1) c1 hbs p1
    exact ⟨c2, by simp [FPK.forIdx, h1, h2], p2⟩

/-! ### membership is preserved by bound tightening with a one-step margin -/

theorem Mem_upd_flt (st : FStore Rat) (a σ : Nat → Rat) (hm : FMem st a σ) (x : Nat) (iv' : FI Rat)
    (h : iv'.step = σ x ∧ 0 < iv'.step ∧ iv'.min ≤ a x ∧ a x ≤ iv'.max) : FMem (updF st x (.flt iv')) a σ := by
  intro y
  by_cases hy : y = x
  · subst hy; simp [updF]; exact h
  · simp only [updF, hy, if_false]; exact hm y

/-- `try_set_max (ValF m)` on a float variable keeps `a` if `a x ≤ m − step` -/
theorem setMax_keeps_flt (c : FCtx Rat) (a σ : Nat → Rat) (hm : FMem c.st a σ) (x : Nat) (iv : FI Rat)
    (hx : c.st x = .flt iv) (m : Rat) (hmar : a x ≤ m - iv.step) :
    ∃ c', FPK.setMax x (.f m) c = some c' ∧ FMem c'.st a σ := by
  have hmx := hm x
  rw [hx] at hmx
  obtain ⟨hσ, hs, h1, h2⟩ := hmx
  have hv : iv.Valid := ⟨Rat.le_trans h1 h2, hs⟩
  have s := FCtx.fltSetMax_spec c x iv m hv
  simp only [FPK.setMax, FCtx.trySetMax, hx]
  cases hr : c.fltSetMax x iv m with
  | none => rw [hr] at s; exfalso; grind
  | some r =>
    obtain ⟨c', ret⟩ := r
    rw [hr] at s
    refine ⟨c', rfl, ?_⟩
    rcases s with ⟨rfl, _, _⟩ | ⟨rfl, _, _, _⟩ | ⟨nm, rfl, _, _, _, _, _, _, _⟩
    · exact hm
    · exfalso; grind
    · exact Mem_upd_flt c.st a σ hm x _ ⟨hσ, hs, h1, by simp; grind⟩

/-- `try_set_min (ValF m)` on a float variable keeps `a` if `m + step ≤ a x` -/
theorem setMin_keeps_flt (c : FCtx Rat) (a σ : Nat → Rat) (hm : FMem c.st a σ) (x : Nat) (iv : FI Rat)
    (hx : c.st x = .flt iv) (m : Rat) (hmar : m + iv.step ≤ a x) :
    ∃ c', FPK.setMin x (.f m) c = some c' ∧ FMem c'.st a σ := by
  have hmx := hm x
  rw [hx] at hmx
  obtain ⟨hσ, hs, h1, h2⟩ := hmx
  have hv : iv.Valid := ⟨Rat.le_trans h1 h2, hs⟩
  have s := FCtx.fltSetMin_spec c x iv m hv
  simp only [FPK.setMin, FCtx.trySetMin, hx]
  cases hr : c.fltSetMin x iv m with
  | none => rw [hr] at s; exfalso; grind
  | some r =>
    obtain ⟨c', ret⟩ := r
    rw [hr] at s
    refine ⟨c', rfl, ?_⟩
    rcases s with ⟨rfl, _, _⟩ | ⟨nm, rfl, _, _, _, _, _, _, _⟩
    · exact hm
    · exact Mem_upd_flt c.st a σ hm x _ ⟨hσ, hs, by simp; grind, h2⟩

/-- a grid point (from zero) `a x = k·step` with `m ≤ a x` survives `try_set_min (ValF m)` -/
theorem setMin_keeps_grid (c : FCtx Rat) (a σ : Nat → Rat) (hm : FMem c.st a σ) (x : Nat) (iv : FI Rat)
    (hx : c.st x = .flt iv) (m : Rat) (k : Int) (hk : a x = (k : Rat) * iv.step) (hle : m ≤ a x) :
    ∃ c', FPK.setMin x (.f m) c = some c' ∧ FMem c'.st a σ := by
  have hmx := hm x
  rw [hx] at hmx
  obtain ⟨hσ, hs, h1, h2⟩ := hmx
  have hv : iv.Valid := ⟨Rat.le_trans h1 h2, hs⟩
  have s := FCtx.fltSetMin_spec c x iv m hv
  have g := RatL.ceil_grid_le_of_grid m iv.step k hs (by rw [← hk]; exact hle)
  simp only [FPK.setMin, FCtx.trySetMin, hx]
  cases hr : c.fltSetMin x iv m with
  | none => rw [hr] at s; exfalso; grind
  | some r =>
    obtain ⟨c', ret⟩ := r
    rw [hr] at s
    refine ⟨c', rfl, ?_⟩
    rcases s with ⟨rfl, _, _⟩ | ⟨nm, rfl, _, _, _, _, _, _, _, hnm⟩
    · exact hm
    · exact Mem_upd_flt c.st a σ hm x _ ⟨hσ, hs, by simp; grind, h2⟩

/-- a grid point `a x = k·step` with `a x ≤ m` survives `try_set_max (ValF m)` -/
theorem setMax_keeps_grid (c : FCtx Rat) (a σ : Nat → Rat) (hm : FMem c.st a σ) (x : Nat) (iv : FI Rat)
    (hx : c.st x = .flt iv) (m : Rat) (k : Int) (hk : a x = (k : Rat) * iv.step) (hle : a x ≤ m) :
    ∃ c', FPK.setMax x (.f m) c = some c' ∧ FMem c'.st a σ := by
  have hmx := hm x
  rw [hx] at hmx
  obtain ⟨hσ, hs, h1, h2⟩ := hmx
  have hv : iv.Valid := ⟨Rat.le_trans h1 h2, hs⟩
  have s := FCtx.fltSetMax_spec c x iv m hv
  have g := RatL.floor_grid_ge_of_grid m iv.step k hs (by rw [← hk]; exact hle)
  simp only [FPK.setMax, FCtx.trySetMax, hx]
  cases hr : c.fltSetMax x iv m with
  | none => rw [hr] at s; exfalso; grind
  | some r =>
    obtain ⟨c', ret⟩ := r
    rw [hr] at s
    refine ⟨c', rfl, ?_⟩
    rcases s with ⟨rfl, _, _⟩ | ⟨rfl, _, _, _⟩ | ⟨nm, rfl, _, _, _, _, _, _, hnm⟩
    · exact hm
    · exfalso; grind
    · exact Mem_upd_flt c.st a σ hm x _ ⟨hσ, hs, h1, by simp; grind⟩

/-! ### integer variables under float bounds: the (VarI, ValF) arms -/

theorem trunc_intCast (k : Int) : RatImpl.trunc (k : Rat) = k := by
  unfold RatImpl.trunc
  split
  · exact Rat.floor_intCast k
  · exact Rat.ceil_intCast k

theorem Mem_upd_int (st : FStore Rat) (a σ : Nat → Rat) (hm : FMem st a σ) (x : Nat) (d' : List Int)
    (h : ∃ z : Int, z ∈ d' ∧ a x = (z : Rat) ∧ -2147483648 ≤ z ∧ z ≤ 2147483647) :
    FMem (updF st x (.int d')) a σ := by
  intro y
  by_cases hy : y = x
  · subst hy; simp [updF]; exact h
  · simp only [updF, hy, if_false]; exact hm y

/-- (VarI, ·) `try_set_max mi` keeps the value `z ≤ mi` -/
theorem intSetMax_keeps (c : FCtx Rat) (a σ : Nat → Rat) (hm : FMem c.st a σ) (x : Nat) (d : List Int)
    (hx : c.st x = .int d) (mi : Int) (h : ∀ z : Int, a x = (z : Rat) → z ≤ mi) :
    ∃ r, c.intSetMax x d mi = some r ∧ FMem r.1.st a σ := by
  have hmx := hm x
  rw [hx] at hmx
  obtain ⟨z, hz, hza, hlo, hhi⟩ := hmx
  have hzm := h z hza
  have h1 := ilmin_le d z hz
  simp only [FCtx.intSetMax]
  have : ¬ mi < ilmin d := by omega
  simp only [this, if_false]
  split
  · have hzf : z ∈ d.filter (fun w => decide (w ≤ mi)) := by simp [hz, hzm]
    have hne : (d.filter (fun w => decide (w ≤ mi))).isEmpty = false := by
      cases hf : d.filter (fun w => decide (w ≤ mi)) with
      | nil => rw [hf] at hzf; simp at hzf
      | cons _ _ => rfl
    simp only [hne]
    exact ⟨_, rfl, Mem_upd_int c.st a σ hm x _ ⟨z, hzf, hza, hlo, hhi⟩⟩
  · exact ⟨_, rfl, hm⟩

/-- (VarI, ·) `try_set_min mi` keeps the value `z ≥ mi` -/
theorem intSetMin_keeps (c : FCtx Rat) (a σ : Nat → Rat) (hm : FMem c.st a σ) (x : Nat) (d : List Int)
    (hx : c.st x = .int d) (mi : Int) (h : ∀ z : Int, a x = (z : Rat) → mi ≤ z) :
    ∃ r, c.intSetMin x d mi = some r ∧ FMem r.1.st a σ := by
  have hmx := hm x
  rw [hx] at hmx
  obtain ⟨z, hz, hza, hlo, hhi⟩ := hmx
  have hzm := h z hza
  have h1 := ilmax_ge d z hz
  simp only [FCtx.intSetMin]
  have : ¬ mi > ilmax d := by omega
  simp only [this, if_false]
  split
  · have hzf : z ∈ d.filter (fun w => decide (mi ≤ w)) := by simp [hz, hzm]
    have hne : (d.filter (fun w => decide (mi ≤ w))).isEmpty = false := by
      cases hf : d.filter (fun w => decide (mi ≤ w)) with
      | nil => rw [hf] at hzf; simp at hzf
      | cons _ _ => rfl
    simp only [hne]
    exact ⟨_, rfl, Mem_upd_int c.st a σ hm x _ ⟨z, hzf, hza, hlo, hhi⟩⟩
  · exact ⟨_, rfl, hm⟩

/-- `try_set_max (ValF m)` on an integer variable keeps `a` if `a x ≤ m` -/
theorem setMax_keeps_int (c : FCtx Rat) (a σ : Nat → Rat) (hm : FMem c.st a σ) (x : Nat) (d : List Int)
    (hx : c.st x = .int d) (m : Rat) (hle : a x ≤ m) :
    ∃ c', FPK.setMax x (.f m) c = some c' ∧ FMem c'.st a σ := by
  have hmx := hm x
  rw [hx] at hmx
  obtain ⟨z0, _, hza0, _, hhi0⟩ := hmx
  have key : ∀ z : Int, a x = (z : Rat) → z ≤ (toI32 (Num.floor m) : Int) := by
    intro z hz
    have hz0 : z = z0 := Rat.intCast_inj.mp (by rw [← hz, ← hza0])
    subst hz0
    have h1 : z ≤ m.floor := Rat.le_floor_iff.mpr (by rw [← hz]; exact hle)
    simp only [Num.toI32, Num.floor, trunc_intCast, RatImpl.clampInt]
    split
    · omega
    · split <;> omega
  obtain ⟨r, hr, hmr⟩ := intSetMax_keeps c a σ hm x d hx _ key
  exact ⟨r.1, by simp [FPK.setMax, FCtx.trySetMax, hx, hr], hmr⟩

/-- `try_set_min (ValF m)` on an integer variable keeps `a` if `m ≤ a x` -/
theorem setMin_keeps_int (c : FCtx Rat) (a σ : Nat → Rat) (hm : FMem c.st a σ) (x : Nat) (d : List Int)
    (hx : c.st x = .int d) (m : Rat) (hle : m ≤ a x) :
    ∃ c', FPK.setMin x (.f m) c = some c' ∧ FMem c'.st a σ := by
  have hmx := hm x
  rw [hx] at hmx
  obtain ⟨z0, _, hza0, hlo0, _⟩ := hmx
  have key : ∀ z : Int, a x = (z : Rat) → (toI32 (Num.ceil m) : Int) ≤ z := by
    intro z hz
    have hz0 : z = z0 := Rat.intCast_inj.mp (by rw [← hz, ← hza0])
    subst hz0
    have h1 : m.ceil ≤ z := Rat.ceil_le_iff.mpr (by rw [← hz]; exact hle)
    simp only [Num.toI32, Num.ceil, trunc_intCast, RatImpl.clampInt]
    split
    · omega
    · split <;> omega
  obtain ⟨r, hr, hmr⟩ := intSetMin_keeps c a σ hm x d hx _ key
  exact ⟨r.1, by simp [FPK.setMin, FCtx.trySetMin, hx, hr], hmr⟩

/-- nothing is infinite at `Rat` -/
theorem otherUnbounded_false (st : FStore Rat) (i : Nat) :
    ∀ (xs : List Nat) (j : Nat), FPK.otherUnbounded st i j xs = false := by
  intro xs
  induction xs with
  | nil => intro j; rfl
  | cons x xs ih =>
    intro j
    simp only [FPK.otherUnbounded, ih, Bool.or_false]
    split
    · rfl
    · cases st x <;> simp [Num.isInf]


/-! ### one loop iteration of the linear propagators keeps a witness -/

/-- `try_set_min (ValF m)` keeps `a` on any variable if `m ≤ a x` and `a x` is a grid point -/
theorem setMin_keeps_any (c : FCtx Rat) (a σ : Nat → Rat) (hm : FMem c.st a σ) (x : Nat) (m : Rat)
    (hg : ∃ z : Int, a x = (z : Rat) * σ x) (hle : m ≤ a x) :
    ∃ c', FPK.setMin x (.f m) c = some c' ∧ FMem c'.st a σ := by
  cases hx : c.st x with
  | int d => exact setMin_keeps_int c a σ hm x d hx m hle
  | flt iv =>
    obtain ⟨z, hz⟩ := hg
    have hmx := hm x
    rw [hx] at hmx
    exact setMin_keeps_grid c a σ hm x iv hx m z (by rw [hmx.1]; exact hz) hle

theorem setMax_keeps_any (c : FCtx Rat) (a σ : Nat → Rat) (hm : FMem c.st a σ) (x : Nat) (m : Rat)
    (hg : ∃ z : Int, a x = (z : Rat) * σ x) (hle : a x ≤ m) :
    ∃ c', FPK.setMax x (.f m) c = some c' ∧ FMem c'.st a σ := by
  cases hx : c.st x with
  | int d => exact setMax_keeps_int c a σ hm x d hx m hle
  | flt iv =>
    obtain ⟨z, hz⟩ := hg
    have hmx := hm x
    rw [hx] at hmx
    exact setMax_keeps_grid c a σ hm x iv hx m z (by rw [hmx.1]; exact hz) hle

/-- dividing an enclosure `T1 ≤ c·a ≤ T2` by `c ≠ 0` (either sign), as `FloatLinEq` does -/
theorem div_encl (ci a T1 T2 : Rat) (hne : ci ≠ 0) (h1 : T1 ≤ ci * a) (h2 : ci * a ≤ T2) :
    (if 0 < ci then T1 / ci else T2 / ci) ≤ a ∧ a ≤ (if 0 < ci then T2 / ci else T1 / ci) := by
  by_cases hpos : 0 < ci
  · simp only [hpos, if_true]
    exact ⟨(RatL.div_le_iff hpos).mpr (by grind), (RatL.le_div_iff hpos).mpr (by grind)⟩
  · have hneg : ci < 0 := by grind
    simp only [hpos, if_false]
    have d1 : T1 / ci * ci = T1 := Rat.div_mul_cancel hne
    have d2 : T2 / ci * ci = T2 := Rat.div_mul_cancel hne
    constructor
    · have h0 : ci * (a - T2 / ci) ≤ 0 := by grind
      have := RatL.nonneg_of_neg_mul_nonpos hneg h0
      grind
    · have h0 : ci * (T1 / ci - a) ≤ 0 := by grind
      have := RatL.nonneg_of_neg_mul_nonpos hneg h0
      grind

theorem linEqStep_keeps (helper : Bool) (cs : List Rat) (xs : List Nat) (cst : Rat) (a σ : Nat → Rat) (c : FCtx Rat)
    (hm : FMem c.st a σ) (hrow : dot a cs xs = cst)
    (hg : ∀ (k : Nat) (ck : Rat) (xk : Nat), (cs.zip xs)[k]? = some (ck, xk) → ∃ z : Int, a xk = (z : Rat) * σ xk)
    (i : Nat) (ci : Rat) (xi : Nat) (hi : (cs.zip xs)[i]? = some (ci, xi)) :
    ∃ c', FPK.linEqStep helper cs xs cst i (ci, xi) c = some c' ∧ FMem c'.st a σ := by
  have enc := otherSums_encl c.st a σ hm i cs xs 0 (zero, zero)
  have spl := dot_split a i cs xs 0 ci xi (Nat.zero_le _) (by simpa using hi)
  have hgi := hg i ci xi hi
  simp only [FPK.linEqStep, otherUnbounded_false, Bool.and_false]
  num_simp
  num_simp at enc
  by_cases hsmall : (if ci < 0 then -ci else ci) < 1 / 1000000000000
  · simp only [hsmall, decide_true, if_true]; exact ⟨c, rfl, hm⟩
  · simp only [hsmall, decide_false]
    have hne : ci ≠ 0 := by grind
    have de := div_encl ci (a xi) (cst - (FPK.otherSums c.st i 0 cs xs (0, 0)).snd)
      (cst - (FPK.otherSums c.st i 0 cs xs (0, 0)).fst) hne (by grind) (by grind)
    -- the bounds handed to try_set_min / try_set_max enclose `a xi`
    have hb : (FPK.linEqBounds cs xs cst i ci xi c).1 ≤ a xi ∧ a xi ≤ (FPK.linEqBounds cs xs cst i ci xi c).2.1 := by
      have be := boundsF_encl c.st a σ hm xi
      simp only [FPK.linEqBounds]
      num_simp
      grind
    simp only [Bool.false_eq_true, if_false]
    cases hskip : FPK.linEqSkip (FPK.linEqBounds cs xs cst i ci xi c)
    · simp only [Bool.false_eq_true, if_false]
      obtain ⟨c1, h1, m1⟩ := setMin_keeps_any c a σ hm xi _ hgi hb.1
      obtain ⟨c2, h2, m2⟩ := setMax_keeps_any c1 a σ m1 xi _ hgi hb.2
      exact ⟨c2, by simp only [h1, h2], m2⟩
    · simp only [if_true]; exact ⟨c, rfl, hm⟩

/-- `|c|` at `Rat` -/
def rabs (c : Rat) : Rat := if c < 0 then -c else c

/-- one iteration of `FloatLinLe::prune` keeps a point that satisfies the row with margin `μ ≥ 0`,
where for every variable of the row either `|c|·step ≤ μ` or the point's coordinate is a grid point -/
theorem linLeStep_keeps (cs : List Rat) (xs : List Nat) (cst μ : Rat) (a σ : Nat → Rat) (c : FCtx Rat)
    (hm : FMem c.st a σ) (hμ0 : 0 ≤ μ) (hrow : dot a cs xs + μ ≤ cst)
    (hμ : ∀ (k : Nat) (ck : Rat) (xk : Nat), (cs.zip xs)[k]? = some (ck, xk) →
      rabs ck * σ xk ≤ μ ∨ ∃ z : Int, a xk = (z : Rat) * σ xk)
    (i : Nat) (ci : Rat) (xi : Nat) (hi : (cs.zip xs)[i]? = some (ci, xi)) :
    ∃ c', FPK.linLeStep cs xs cst i (ci, xi) c = some c' ∧ FMem c'.st a σ := by
  have enc := otherSums_encl c.st a σ hm i cs xs 0 (zero, zero)
  have spl := dot_split a i cs xs 0 ci xi (Nat.zero_le _) (by simpa using hi)
  have hμi := hμ i ci xi hi
  simp only [FPK.linLeStep]
  num_simp
  num_simp at enc
  by_cases hsmall : (if ci < 0 then -ci else ci) < 1 / 1000000000000
  · simp only [hsmall, decide_true, if_true]; exact ⟨c, rfl, hm⟩
  · simp only [hsmall, decide_false]
    have hmx := hm xi
    cases hx : c.st xi with
    | int d => simp [FStore.vmax, FStore.vmin, hx]; exact hm
    | flt iv =>
      rw [hx] at hmx
      obtain ⟨hσ, hs, h1, h2⟩ := hmx
      simp only [FStore.vmax, FStore.vmin, hx]
      have hne : ci ≠ 0 := by grind
      obtain ⟨d, hd'⟩ : ∃ d, (cst - (FPK.otherSums c.st i 0 cs xs (0, 0)).fst) / ci = d := ⟨_, rfl⟩
      have hd : d * ci = cst - (FPK.otherSums c.st i 0 cs xs (0, 0)).fst := by
        rw [← hd']; exact Rat.div_mul_cancel hne
      simp only [hd']
      by_cases hpos : (0 : Rat) < ci
      · simp only [hpos, decide_true, if_true, Rat.le_refl, Bool.not_false, Bool.and_true]
        by_cases hlt : d < iv.max
        · simp only [hlt, decide_true, if_true]
          rcases hμi with hμi | ⟨z, hz⟩
          · have e0 : ci * iv.step ≤ μ := by simp only [rabs] at hμi; rw [hσ]; grind
            apply setMax_keeps_flt c a σ hm xi iv hx
            have h0 : ci * (a xi + iv.step - d) ≤ 0 := by grind
            have := RatL.nonpos_of_pos_mul_nonpos hpos h0
            grind
          · apply setMax_keeps_grid c a σ hm xi iv hx d z (by rw [hσ]; exact hz)
            have h0 : ci * (a xi - d) ≤ 0 := by grind
            have := RatL.nonpos_of_pos_mul_nonpos hpos h0
            grind
        · simp only [hlt, decide_false]; exact ⟨c, rfl, hm⟩
      · have hneg : ci < 0 := by grind
        have hnm : (if (decide (d ≤ 0) && decide (0 ≤ d)) = true then 0 else d) = d := by
          split
          · grind
          · rfl
        simp only [hpos, decide_false, Rat.le_refl, decide_true, Bool.not_false, Bool.and_true, if_true, hnm]
        by_cases hgt : iv.min < d
        · simp only [hgt, decide_true, if_true]
          simp
          rcases hμi with hμi | ⟨z, hz⟩
          · have e1 : -ci * iv.step ≤ μ := by simp only [rabs, hneg, if_true] at hμi; rw [hσ]; exact hμi
            apply setMin_keeps_flt c a σ hm xi iv hx d
            have h0 : ci * (a xi - iv.step - d) ≤ 0 := by grind
            have := RatL.nonneg_of_neg_mul_nonpos hneg h0
            grind
          · apply setMin_keeps_grid c a σ hm xi iv hx d z (by rw [hσ]; exact hz)
            have h0 : ci * (a xi - d) ≤ 0 := by grind
            have := RatL.nonneg_of_neg_mul_nonpos hneg h0
            grind
        · simp [hgt]; exact hm

end Selen

import SelenModel.Model.LowerFloat
import SelenModel.Lemmas.IntCore
/-
Lemmas about the float-aware lowering model (`Model/LowerFloat.lean`) at EXACT RATIONALS
(`Num` instance `Rat`), used by `Props/C10.lean`:

* `FVal` (= `Val` / `LinearCoefficient`) arithmetic: every arm of `add_coefficients`,
  `subtract_coefficients`, `negate_coefficient`, `Val * Val` computes the exact sum / difference /
  negation / product of the denoted numbers, and the result is an `Int` kind iff both operands are;
* the smart constructors and `FExpr.build` preserve `FExpr.evalN`;
* `FExpr.extractLinear_sound` (all arms, mixed kinds), `FExpr.extract_kinds` (which kinds come out);
* `FLModel.linearise_decision` (INTEGER row iff no float literal is left in the two trees),
  `FLModel.linearise_sound`;
* meaning of the lowered rows (`FLP.holdsQ`), `linFLP_sem`, `flinFLP_sem`;
* `applyVarEqBounds_soundQ`, posting / lowering of the linear fragment (`lower_simpleQ`);
* `FExpr.extractLinear_toF`, `FLModel.linearise_toF`: on trees without float literal the general
  model computes exactly the rows of the integer model (`Model/Lower.lean`).
-/
namespace Selen
open Num

/-! ### 0. `Num` at `Rat` -/

namespace RatNum

@[simp] theorem lt_eq (a b : Rat) : Num.lt a b = decide (a < b) := rfl
@[simp] theorem le_eq (a b : Rat) : Num.le a b = decide (a ≤ b) := rfl
@[simp] theorem gt_eq (a b : Rat) : Num.gt a b = decide (b < a) := rfl
@[simp] theorem ge_eq (a b : Rat) : Num.ge a b = decide (b ≤ a) := rfl
@[simp] theorem ofInt_eq (k : Int) : (Num.ofInt k : Rat) = (k : Rat) := rfl
@[simp] theorem zero_eq : (Num.zero : Rat) = 0 := rfl
@[simp] theorem e6_eq : (Num.e6 : Rat) = 1 / 1000000 := rfl
@[simp] theorem ulp_eq (x : Rat) : (Num.ulp x : Rat) = 0 := rfl

theorem feq_eq (a b : Rat) : Num.feq a b = decide (a = b) := by
  simp only [Num.feq, le_eq]
  rw [Bool.eq_iff_iff]
  simp only [Bool.and_eq_true, decide_eq_true_eq]
  constructor
  · rintro ⟨h1, h2⟩; exact Rat.le_antisymm h1 h2
  · rintro rfl; exact ⟨Rat.le_refl, Rat.le_refl⟩

end RatNum

/-! ### 1. `Val` / `LinearCoefficient` arithmetic -/

namespace FVal

@[simp] theorem toF_i (k : Int) : (FVal.i k : FVal Rat).toF = (k : Rat) := rfl
@[simp] theorem toF_f (x : Rat) : (FVal.f x : FVal Rat).toF = x := rfl

/-- `add_coefficients` / `Val + Val`: all four arms -/
theorem toF_add (a b : FVal Rat) : (a.add b).toF = a.toF + b.toF := by
  cases a <;> cases b <;> simp [FVal.add, Rat.intCast_add]

/-- `subtract_coefficients` / `Val - Val`: all four arms -/
theorem toF_sub (a b : FVal Rat) : (a.sub b).toF = a.toF - b.toF := by
  cases a <;> cases b <;> simp [FVal.sub, Rat.intCast_sub]

/-- `negate_coefficient` -/
theorem toF_neg (a : FVal Rat) : a.neg.toF = - a.toF := by
  cases a <;> simp [FVal.neg, Rat.intCast_neg]

/-- `Val * Val`: all four arms -/
theorem toF_mul (a b : FVal Rat) : (a.mul b).toF = a.toF * b.toF := by
  cases a <;> cases b <;> simp [FVal.mul, Rat.intCast_mul]

/-- the KIND of a sum: `Int` iff both operands are `Int` (for every `Num`) -/
theorem isI_add {α : Type} [Num α] (a b : FVal α) : (a.add b).isI = (a.isI && b.isI) := by
  cases a <;> cases b <;> rfl

theorem isI_sub {α : Type} [Num α] (a b : FVal α) : (a.sub b).isI = (a.isI && b.isI) := by
  cases a <;> cases b <;> rfl

theorem isI_neg {α : Type} [Num α] (a : FVal α) : a.neg.isI = a.isI := by
  cases a <;> rfl

theorem isI_mul {α : Type} [Num α] (a b : FVal α) : (a.mul b).isI = (a.isI && b.isI) := by
  cases a <;> cases b <;> rfl

/-- an `Int`-kind coefficient survives the conversion `match c { Int(i) => i, _ => 0 }` -/
theorem toI_toF (a : FVal Rat) (h : a.isI = true) : ((a.toI : Int) : Rat) = a.toF := by
  cases a
  · rfl
  · simp [FVal.isI] at h

theorem zeroish_false (b : FVal Rat) (h : b.zeroish = false) : b.toF ≠ 0 := by
  cases b with
  | i k =>
    simp only [FVal.zeroish, beq_eq_false_iff_ne, ne_eq] at h
    intro h0
    apply h
    have : ((k : Int) : Rat) = ((0 : Int) : Rat) := h0
    exact Rat.intCast_inj.1 this
  | f x =>
    simp only [FVal.zeroish, RatNum.feq_eq, RatNum.zero_eq, Bool.or_eq_false_iff, decide_eq_false_iff_not] at h
    exact h.2

end FVal

/-! ### 2. smart constructors at exact rationals -/

namespace FExpr

theorem evalN_mkAdd (x y : FExpr Rat) (a : Nat → Rat) : (mkAdd x y).evalN a = (FExpr.add x y).evalN a := by
  unfold mkAdd
  split
  · simp [evalN, FVal.toF_add]
  · rfl

theorem evalN_mkSub (x y : FExpr Rat) (a : Nat → Rat) : (mkSub x y).evalN a = (FExpr.sub x y).evalN a := by
  unfold mkSub
  split
  · simp [evalN, FVal.toF_sub]
  · rfl

theorem evalN_mkMul (x y : FExpr Rat) (a : Nat → Rat) : (mkMul x y).evalN a = (FExpr.mul x y).evalN a := by
  unfold mkMul
  split
  · simp [evalN, FVal.toF_mul]
  · simp only [evalN, FVal.toF_i]
    cases evalN a _ <;> simp [Rat.mul_one]
  · simp only [evalN, FVal.toF_i]
    cases evalN a _ <;> simp [Rat.one_mul]
  · rfl

theorem evalN_mkDiv (x y e' : FExpr Rat) (a : Nat → Rat) (h : mkDiv x y = some e') :
    e'.evalN a = (FExpr.div x y).evalN a := by
  unfold mkDiv at h
  split at h
  · rename_i p q
    simp only [FVal.vdiv] at h
    split at h
    · simp at h
    · rename_i hz
      simp only [Option.map_some, Option.some.injEq] at h
      subst h
      have hq := FVal.zeroish_false q (by simpa using hz)
      simp [evalN, RatNum.feq_eq, hq]
  · simp only [Option.some.injEq] at h
    subst h
    simp only [evalN, FVal.toF_i]
    cases evalN a x with
    | none => rfl
    | some p =>
      have h1 : p / (1 : Rat) = p := by grind
      simp [RatNum.feq_eq, h1]
  · simp only [Option.some.injEq] at h
    subst h
    rfl

theorem evalN_mkMod (x y : FExpr Rat) (a : Nat → Rat) : (mkMod x y).evalN a = (FExpr.mod x y).evalN a := rfl

/-- **constant folding and identity elimination preserve the value** (exact rationals; `Val`'s mixed
integer / float arithmetic, `* int(1)`, `/ int(1)`, `lit / lit` as a real quotient) -/
theorem build_evalN (e e' : FExpr Rat) (h : e.build = some e') : ∀ a, e'.evalN a = e.evalN a := by
  induction e generalizing e' with
  | var i => intro a; simp only [build] at h; cases h; rfl
  | val k => intro a; simp only [build] at h; cases h; rfl
  | add x y ihx ihy =>
    intro a
    simp only [build] at h
    cases hx : x.build with
    | none => simp [hx] at h
    | some x' =>
      cases hy : y.build with
      | none => simp [hx, hy] at h
      | some y' =>
        simp [hx, hy] at h
        subst h
        rw [evalN_mkAdd]; simp only [evalN, ihx x' hx a, ihy y' hy a]
  | sub x y ihx ihy =>
    intro a
    simp only [build] at h
    cases hx : x.build with
    | none => simp [hx] at h
    | some x' =>
      cases hy : y.build with
      | none => simp [hx, hy] at h
      | some y' =>
        simp [hx, hy] at h
        subst h
        rw [evalN_mkSub]; simp only [evalN, ihx x' hx a, ihy y' hy a]
  | mul x y ihx ihy =>
    intro a
    simp only [build] at h
    cases hx : x.build with
    | none => simp [hx] at h
    | some x' =>
      cases hy : y.build with
      | none => simp [hx, hy] at h
      | some y' =>
        simp [hx, hy] at h
        subst h
        rw [evalN_mkMul]; simp only [evalN, ihx x' hx a, ihy y' hy a]
  | div x y ihx ihy =>
    intro a
    simp only [build] at h
    cases hx : x.build with
    | none => simp [hx] at h
    | some x' =>
      cases hy : y.build with
      | none => simp [hx, hy] at h
      | some y' =>
        simp [hx, hy] at h
        rw [evalN_mkDiv x' y' e' a h]; simp only [evalN, ihx x' hx a, ihy y' hy a]
  | mod x y ihx ihy =>
    intro a
    simp only [build] at h
    cases hx : x.build with
    | none => simp [hx] at h
    | some x' =>
      cases hy : y.build with
      | none => simp [hx, hy] at h
      | some y' =>
        simp [hx, hy] at h
        subst h
        rw [evalN_mkMod]; simp only [evalN, ihx x' hx a, ihy y' hy a]

end FExpr

/-! ### 3. linear forms: kinds and lengths (any `Num`) -/

/-- no float literal occurs in the tree -/
def FExpr.noFloatLit {α : Type} : FExpr α → Bool
  | .var _ => true
  | .val v => v.isI
  | .add a b => a.noFloatLit && b.noFloatLit
  | .sub a b => a.noFloatLit && b.noFloatLit
  | .mul a b => a.noFloatLit && b.noFloatLit
  | .div a b => a.noFloatLit && b.noFloatLit
  | .mod a b => a.noFloatLit && b.noFloatLit

theorem all_set_and {β : Type} (p : β → Bool) (l : List β) (i : Nat) (v d : β) (q : Bool)
    (hi : i < l.length) (hv : p v = (p (l.getD i d) && q)) : (l.set i v).all p = (l.all p && q) := by
  induction l generalizing i with
  | nil => simp at hi
  | cons c l ih =>
    cases i with
    | zero =>
      simp only [List.set_cons_zero, List.all_cons, List.getD_cons_zero] at hv ⊢
      rw [hv]
      cases p c <;> cases q <;> simp
    | succ j =>
      simp only [List.set_cons_succ, List.all_cons, List.getD_cons_succ] at hv ⊢
      rw [ih j (by simpa using hi) hv]
      cases p c <;> simp

theorem idxOf?_some {xs : List Nat} {x i : Nat} (h : xs.idxOf? x = some i) :
    ∃ hi : i < xs.length, xs[i] = x := by
  have hidx' : xs.findIdx? (· == x) = some i := h
  rw [List.findIdx?_eq_some_iff_getElem] at hidx'
  obtain ⟨hi, hxi, _⟩ := hidx'
  exact ⟨hi, by simpa using hxi⟩

namespace FExpr
section kinds
variable {α : Type} [Num α]

theorem caddTerm_kinds (cs : List (FVal α)) (xs : List Nat) (x : Nat) (c : FVal α) (sub : Bool)
    (hlen : cs.length = xs.length) :
    (caddTerm cs xs x c sub).1.length = (caddTerm cs xs x c sub).2.length ∧
    (caddTerm cs xs x c sub).1.all FVal.isI = (cs.all FVal.isI && c.isI) := by
  unfold caddTerm
  cases hidx : xs.idxOf? x with
  | none =>
    refine ⟨by simp [hlen], ?_⟩
    cases sub <;> simp [FVal.isI_neg]
  | some i =>
    obtain ⟨hi, _⟩ := idxOf?_some hidx
    refine ⟨by simp [hlen], ?_⟩
    show (cs.set i _).all FVal.isI = _
    apply all_set_and FVal.isI cs i _ (.i 0) c.isI (by omega)
    cases sub <;> simp [FVal.isI_sub, FVal.isI_add]

theorem mergeFold_kinds (sub : Bool) (l : List (Nat × FVal α)) (lc : List (FVal α)) (lx : List Nat)
    (hlen : lc.length = lx.length) :
    let r := l.foldl (fun (acc : List (FVal α) × List Nat) (p : Nat × FVal α) =>
      caddTerm acc.1 acc.2 p.1 p.2 sub) (lc, lx)
    r.1.length = r.2.length ∧ r.1.all FVal.isI = (lc.all FVal.isI && l.all (fun p => p.2.isI)) := by
  induction l generalizing lc lx with
  | nil => simp [hlen]
  | cons p l ih =>
    simp only [List.foldl_cons, List.all_cons]
    obtain ⟨h1, h2⟩ := caddTerm_kinds lc lx p.1 p.2 sub hlen
    obtain ⟨h3, h4⟩ := ih (caddTerm lc lx p.1 p.2 sub).1 (caddTerm lc lx p.1 p.2 sub).2 h1
    refine ⟨h3, ?_⟩
    rw [h4, h2, Bool.and_assoc]

omit [Num α] in
theorem zip_all_snd (rx : List Nat) (rc : List (FVal α)) (h : rc.length = rx.length) :
    (List.zip rx rc).all (fun p => p.2.isI) = rc.all FVal.isI := by
  induction rx generalizing rc with
  | nil => cases rc <;> simp_all
  | cons x rx ih =>
    cases rc with
    | nil => simp at h
    | cons c rc => simp only [List.zip_cons_cons, List.all_cons, ih rc (by simpa using h)]

theorem mergeTerms_kinds (sub : Bool) (lc : List (FVal α)) (lx : List Nat) (rc : List (FVal α)) (rx : List Nat)
    (hl : lc.length = lx.length) (hr : rc.length = rx.length) :
    (mergeTerms sub lc lx rc rx).1.length = (mergeTerms sub lc lx rc rx).2.length ∧
    (mergeTerms sub lc lx rc rx).1.all FVal.isI = (lc.all FVal.isI && rc.all FVal.isI) := by
  have := mergeFold_kinds sub (List.zip rx rc) lc lx hl
  rw [zip_all_snd rx rc hr] at this
  exact this

/-- **which kinds `try_extract_linear_form` produces**: the coefficient and variable lists have the
same length, and all coefficients and the constant are `LinearCoefficient::Int` exactly when the
tree contains no float literal — whatever the types of the variables -/
theorem extract_kinds (e : FExpr α) (cs : List (FVal α)) (xs : List Nat) (k : FVal α)
    (h : e.extractLinear = some (cs, xs, k)) :
    cs.length = xs.length ∧ (cs.all FVal.isI && k.isI) = e.noFloatLit := by
  induction e generalizing cs xs k with
  | var i =>
    simp only [extractLinear, Option.some.injEq, Prod.mk.injEq] at h
    obtain ⟨rfl, rfl, rfl⟩ := h
    exact ⟨rfl, rfl⟩
  | val c =>
    simp only [extractLinear, Option.some.injEq, Prod.mk.injEq] at h
    obtain ⟨rfl, rfl, rfl⟩ := h
    exact ⟨rfl, by simp [noFloatLit]⟩
  | mul x y _ _ =>
    cases x <;> cases y <;> simp only [extractLinear, Option.some.injEq, Prod.mk.injEq, reduceCtorEq] at h
    · obtain ⟨rfl, rfl, rfl⟩ := h
      exact ⟨rfl, by simp [noFloatLit, FVal.isI]⟩
    · obtain ⟨rfl, rfl, rfl⟩ := h
      exact ⟨rfl, by simp [noFloatLit, FVal.isI]⟩
  | div x y _ _ => simp [extractLinear] at h
  | mod x y _ _ => simp [extractLinear] at h
  | add x y ihx ihy =>
    simp only [extractLinear] at h
    cases hx : x.extractLinear with
    | none => simp [hx] at h
    | some lt =>
      obtain ⟨lc, lx, lk⟩ := lt
      cases hy : y.extractLinear with
      | none => simp [hx, hy] at h
      | some rt =>
        obtain ⟨rc, rx, rk⟩ := rt
        obtain ⟨hl1, hl2⟩ := ihx lc lx lk hx
        obtain ⟨hr1, hr2⟩ := ihy rc rx rk hy
        obtain ⟨hm1, hm2⟩ := mergeTerms_kinds false lc lx rc rx hl1 hr1
        simp only [hx, hy, Option.some.injEq, Prod.mk.injEq] at h
        obtain ⟨rfl, rfl, rfl⟩ := h
        refine ⟨hm1, ?_⟩
        rw [hm2, FVal.isI_add]
        simp only [noFloatLit, ← hl2, ← hr2]
        cases lc.all FVal.isI <;> cases rc.all FVal.isI <;> cases lk.isI <;> cases rk.isI <;> rfl
  | sub x y ihx ihy =>
    simp only [extractLinear] at h
    cases hx : x.extractLinear with
    | none => simp [hx] at h
    | some lt =>
      obtain ⟨lc, lx, lk⟩ := lt
      cases hy : y.extractLinear with
      | none => simp [hx, hy] at h
      | some rt =>
        obtain ⟨rc, rx, rk⟩ := rt
        obtain ⟨hl1, hl2⟩ := ihx lc lx lk hx
        obtain ⟨hr1, hr2⟩ := ihy rc rx rk hy
        obtain ⟨hm1, hm2⟩ := mergeTerms_kinds true lc lx rc rx hl1 hr1
        simp only [hx, hy, Option.some.injEq, Prod.mk.injEq] at h
        obtain ⟨rfl, rfl, rfl⟩ := h
        refine ⟨hm1, ?_⟩
        rw [hm2, FVal.isI_sub]
        simp only [noFloatLit, ← hl2, ← hr2]
        cases lc.all FVal.isI <;> cases rc.all FVal.isI <;> cases lk.isI <;> cases rk.isI <;> rfl

end kinds
end FExpr

/-! ### 4. linear forms: meaning at exact rationals -/

/-- `Σ cᵢ · a(xᵢ)` for coefficients of either kind (stops at the shorter list) -/
def dotV : List (FVal Rat) → List Nat → (Nat → Rat) → Rat
  | c :: cs, x :: xs, a => c.toF * a x + dotV cs xs a
  | _, _, _ => 0

/-- `Σ cᵢ · a(xᵢ)` for rational coefficients -/
def dotQ : List Rat → List Nat → (Nat → Rat) → Rat
  | c :: cs, x :: xs, a => c * a x + dotQ cs xs a
  | _, _, _ => 0

@[simp] theorem dotV_nil_left (xs : List Nat) (a : Nat → Rat) : dotV [] xs a = 0 := by
  cases xs <;> rfl
@[simp] theorem dotV_nil_right (cs : List (FVal Rat)) (a : Nat → Rat) : dotV cs [] a = 0 := by
  cases cs <;> rfl
@[simp] theorem dotV_cons (c : FVal Rat) (cs : List (FVal Rat)) (x : Nat) (xs : List Nat) (a : Nat → Rat) :
    dotV (c :: cs) (x :: xs) a = c.toF * a x + dotV cs xs a := rfl
@[simp] theorem dotQ_nil_left (xs : List Nat) (a : Nat → Rat) : dotQ [] xs a = 0 := by
  cases xs <;> rfl
@[simp] theorem dotQ_nil_right (cs : List Rat) (a : Nat → Rat) : dotQ cs [] a = 0 := by
  cases cs <;> rfl
@[simp] theorem dotQ_cons (c : Rat) (cs : List Rat) (x : Nat) (xs : List Nat) (a : Nat → Rat) :
    dotQ (c :: cs) (x :: xs) a = c * a x + dotQ cs xs a := rfl

theorem dotQ_map_toF (cs : List (FVal Rat)) (xs : List Nat) (a : Nat → Rat) :
    dotQ (cs.map FVal.toF) xs a = dotV cs xs a := by
  induction cs generalizing xs with
  | nil => simp
  | cons c cs ih => cases xs with
    | nil => simp
    | cons x xs => simp [ih xs]

/-- an all-`Int` coefficient list converted to `i32`s denotes the same sum -/
theorem dotQ_map_toI (cs : List (FVal Rat)) (xs : List Nat) (a : Nat → Rat) (h : cs.all FVal.isI = true) :
    dotQ ((cs.map FVal.toI).map (fun (i : Int) => (i : Rat))) xs a = dotV cs xs a := by
  induction cs generalizing xs with
  | nil => simp
  | cons c cs ih =>
    simp only [List.all_cons, Bool.and_eq_true] at h
    cases xs with
    | nil => simp
    | cons x xs => simp only [List.map_cons, dotQ_cons, dotV_cons, ih xs h.2, FVal.toI_toF c h.1]

theorem dotQ_negAll (cs : List Rat) (xs : List Nat) (a : Nat → Rat) :
    dotQ (FLModel.negAllF cs) xs a = - dotQ cs xs a := by
  induction cs generalizing xs with
  | nil => simp [FLModel.negAllF]
  | cons c cs ih =>
    cases xs with
    | nil => simp
    | cons x xs =>
      have := ih xs
      simp only [FLModel.negAllF, List.map_cons, dotQ_cons] at this ⊢
      rw [this]; grind

theorem dotQ_negAll_int (cs : List Int) (xs : List Nat) (a : Nat → Rat) :
    dotQ ((LModel.negAll cs).map (fun (i : Int) => (i : Rat))) xs a = - dotQ (cs.map (fun (i : Int) => (i : Rat))) xs a := by
  induction cs generalizing xs with
  | nil => simp [LModel.negAll]
  | cons c cs ih =>
    cases xs with
    | nil => simp
    | cons x xs =>
      have := ih xs
      simp only [LModel.negAll, List.map_cons, dotQ_cons, Rat.intCast_neg] at this ⊢
      rw [this]; grind

theorem dotV_append_one (cs : List (FVal Rat)) (xs : List Nat) (c : FVal Rat) (x : Nat) (a : Nat → Rat)
    (hlen : cs.length = xs.length) :
    dotV (cs ++ [c]) (xs ++ [x]) a = dotV cs xs a + c.toF * a x := by
  induction cs generalizing xs with
  | nil =>
    cases xs with
    | nil => simp [dotV]; grind
    | cons y ys => simp at hlen
  | cons d cs ih =>
    cases xs with
    | nil => simp at hlen
    | cons y ys =>
      simp only [List.cons_append, dotV_cons]
      rw [ih ys (by simpa using hlen)]
      grind

theorem dotV_set (cs : List (FVal Rat)) (xs : List Nat) (i : Nat) (v : FVal Rat) (x : Nat) (a : Nat → Rat)
    (hi : i < xs.length) (hlen : cs.length = xs.length) (hx : xs[i] = x) :
    dotV (cs.set i v) xs a = dotV cs xs a + (v.toF - (cs.getD i (.i 0)).toF) * a x := by
  induction cs generalizing xs i with
  | nil => rw [← hlen] at hi; simp at hi
  | cons d cs ih =>
    cases xs with
    | nil => simp at hlen
    | cons y ys =>
      cases i with
      | zero =>
        simp only [List.set_cons_zero, dotV_cons, List.getD_cons_zero]
        simp only [List.getElem_cons_zero] at hx
        subst hx
        grind
      | succ j =>
        simp only [List.set_cons_succ, dotV_cons, List.getD_cons_succ]
        simp only [List.getElem_cons_succ] at hx
        rw [ih ys j (by simpa using hi) (by simpa using hlen) hx]
        grind

namespace FExpr

/-- one merging step adds the term `±c · x`: `add_coefficients` / push, resp.
`subtract_coefficients` / `negate_coefficient`, for every combination of kinds -/
theorem caddTerm_sound (cs : List (FVal Rat)) (xs : List Nat) (x : Nat) (c : FVal Rat) (sub : Bool)
    (hlen : cs.length = xs.length) (a : Nat → Rat) :
    dotV (caddTerm cs xs x c sub).1 (caddTerm cs xs x c sub).2 a =
      dotV cs xs a + (if sub then - c.toF else c.toF) * a x := by
  unfold caddTerm
  cases hidx : xs.idxOf? x with
  | none =>
    show dotV (cs ++ [_]) (xs ++ [x]) a = _
    rw [dotV_append_one cs xs _ x a hlen]
    cases sub <;> simp [FVal.toF_neg]
  | some i =>
    obtain ⟨hi, hxi⟩ := idxOf?_some hidx
    show dotV (cs.set i _) xs a = _
    rw [dotV_set cs xs i _ x a hi hlen hxi]
    cases sub <;> simp [FVal.toF_sub, FVal.toF_add] <;> grind

/-- sum of the terms a merging fold adds -/
def termSumV (sub : Bool) (a : Nat → Rat) : List (Nat × FVal Rat) → Rat
  | [] => 0
  | p :: l => (if sub then - p.2.toF else p.2.toF) * a p.1 + termSumV sub a l

theorem mergeFold_sound (sub : Bool) (l : List (Nat × FVal Rat)) (lc : List (FVal Rat)) (lx : List Nat)
    (hlen : lc.length = lx.length) (a : Nat → Rat) :
    let r := l.foldl (fun (acc : List (FVal Rat) × List Nat) (p : Nat × FVal Rat) =>
      caddTerm acc.1 acc.2 p.1 p.2 sub) (lc, lx)
    dotV r.1 r.2 a = dotV lc lx a + termSumV sub a l := by
  induction l generalizing lc lx with
  | nil => simp [termSumV]; grind
  | cons p l ih =>
    simp only [List.foldl_cons]
    have h1 := (caddTerm_kinds lc lx p.1 p.2 sub hlen).1
    have h2 := caddTerm_sound lc lx p.1 p.2 sub hlen a
    have h4 := ih (caddTerm lc lx p.1 p.2 sub).1 (caddTerm lc lx p.1 p.2 sub).2 h1
    simp only at h4
    rw [h4, h2]
    simp only [termSumV]
    grind

theorem termSumV_zip (sub : Bool) (rx : List Nat) (rc : List (FVal Rat)) (a : Nat → Rat) :
    termSumV sub a (List.zip rx rc) = (if sub then - dotV rc rx a else dotV rc rx a) := by
  induction rx generalizing rc with
  | nil => cases sub <;> simp [termSumV]
  | cons x rx ih =>
    cases rc with
    | nil => cases sub <;> simp [termSumV]
    | cons c rc =>
      simp only [List.zip_cons_cons, termSumV, dotV_cons, ih rc]
      cases sub <;> simp <;> grind

theorem mergeTerms_sound (sub : Bool) (lc : List (FVal Rat)) (lx : List Nat) (rc : List (FVal Rat)) (rx : List Nat)
    (hlen : lc.length = lx.length) (a : Nat → Rat) :
    dotV (mergeTerms sub lc lx rc rx).1 (mergeTerms sub lc lx rc rx).2 a =
      dotV lc lx a + (if sub then - dotV rc rx a else dotV rc rx a) := by
  have := mergeFold_sound sub (List.zip rx rc) lc lx hlen a
  rw [termSumV_zip] at this
  exact this

/-- **`try_extract_linear_form` is sound with float coefficients** (exact rationals): the linear
form denotes the tree's value under every assignment of rationals — every arm (`Var`, `Val` of
either kind, `Var * Val`, `Val * Var`, `Add`, `Sub`), repeated variables merged, mixed kinds. -/
theorem extractLinear_sound (e : FExpr Rat) (cs : List (FVal Rat)) (xs : List Nat) (k : FVal Rat)
    (h : e.extractLinear = some (cs, xs, k)) :
    ∀ a, e.evalN a = some (dotV cs xs a + k.toF) := by
  induction e generalizing cs xs k with
  | var i =>
    simp only [extractLinear, Option.some.injEq, Prod.mk.injEq] at h
    obtain ⟨rfl, rfl, rfl⟩ := h
    intro a
    simp only [evalN, dotV_cons, dotV_nil_left, FVal.toF_i, Option.some.injEq]
    grind
  | val c =>
    simp only [extractLinear, Option.some.injEq, Prod.mk.injEq] at h
    obtain ⟨rfl, rfl, rfl⟩ := h
    intro a
    simp only [evalN, dotV_nil_left, Option.some.injEq]
    grind
  | mul x y _ _ =>
    cases x <;> cases y <;> simp only [extractLinear, Option.some.injEq, Prod.mk.injEq, reduceCtorEq] at h
    · obtain ⟨rfl, rfl, rfl⟩ := h
      intro a
      simp only [evalN, dotV_cons, dotV_nil_left, FVal.toF_i, bind, Option.bind, pure, Option.some.injEq]
      grind
    · obtain ⟨rfl, rfl, rfl⟩ := h
      intro a
      simp only [evalN, dotV_cons, dotV_nil_left, FVal.toF_i, bind, Option.bind, pure, Option.some.injEq]
      grind
  | div x y _ _ => simp [extractLinear] at h
  | mod x y _ _ => simp [extractLinear] at h
  | add x y ihx ihy =>
    simp only [extractLinear] at h
    cases hx : x.extractLinear with
    | none => simp [hx] at h
    | some lt =>
      obtain ⟨lc, lx, lk⟩ := lt
      cases hy : y.extractLinear with
      | none => simp [hx, hy] at h
      | some rt =>
        obtain ⟨rc, rx, rk⟩ := rt
        have hl1 := (extract_kinds x lc lx lk hx).1
        have hl2 := ihx lc lx lk hx
        have hr2 := ihy rc rx rk hy
        simp only [hx, hy, Option.some.injEq, Prod.mk.injEq] at h
        obtain ⟨rfl, rfl, rfl⟩ := h
        intro a
        have hm := mergeTerms_sound false lc lx rc rx hl1 a
        simp only [evalN, hl2 a, hr2 a, hm, FVal.toF_add]
        simp only [bind, Option.bind, pure, Option.some.injEq]
        grind
  | sub x y ihx ihy =>
    simp only [extractLinear] at h
    cases hx : x.extractLinear with
    | none => simp [hx] at h
    | some lt =>
      obtain ⟨lc, lx, lk⟩ := lt
      cases hy : y.extractLinear with
      | none => simp [hx, hy] at h
      | some rt =>
        obtain ⟨rc, rx, rk⟩ := rt
        have hl1 := (extract_kinds x lc lx lk hx).1
        have hl2 := ihx lc lx lk hx
        have hr2 := ihy rc rx rk hy
        simp only [hx, hy, Option.some.injEq, Prod.mk.injEq] at h
        obtain ⟨rfl, rfl, rfl⟩ := h
        intro a
        have hm := mergeTerms_sound true lc lx rc rx hl1 a
        simp only [evalN, hl2 a, hr2 a, hm, FVal.toF_sub]
        simp only [bind, Option.bind, pure, Option.some.injEq]
        grind

end FExpr

/-! ### 5. `try_convert_to_linear_ast`: decision and meaning -/

/-- comparison with the strictness step `ε` of the float lowering: `x < y` is read `x + ε ≤ y`,
`x > y` is read `y + ε ≤ x`; the other four operators are unchanged -/
def CmpOp.holdsStep (ε : Rat) : CmpOp → Rat → Rat → Bool
  | .lt, x, y => decide (x + ε ≤ y)
  | .gt, x, y => decide (y + ε ≤ x)
  | op, x, y => op.holdsN x y

theorem CmpOp.holdsN_shift (op : CmpOp) (p q lk rk : Rat) :
    op.holdsN (p + lk) (q + rk) = op.holdsN (p - q) (-(lk - rk)) := by
  cases op <;> simp only [CmpOp.holdsN, RatNum.feq_eq, RatNum.lt_eq, RatNum.le_eq] <;>
    rw [Bool.eq_iff_iff] <;> simp <;> grind

theorem CmpOp.holdsStep_shift (ε : Rat) (op : CmpOp) (p q lk rk : Rat) :
    op.holdsStep ε (p + lk) (q + rk) = op.holdsStep ε (p - q) (-(lk - rk)) := by
  cases op <;> simp only [CmpOp.holdsStep, CmpOp.holdsN, RatNum.feq_eq, RatNum.le_eq] <;>
    rw [Bool.eq_iff_iff] <;> simp <;> grind

/-- the step reading implies the plain reading (`ε > 0`) -/
theorem CmpOp.holdsStep_imp (ε : Rat) (hε : 0 < ε) (op : CmpOp) (x y : Rat) (h : op.holdsStep ε x y = true) :
    op.holdsN x y = true := by
  cases op <;> simp only [CmpOp.holdsStep, CmpOp.holdsN, RatNum.lt_eq, decide_eq_true_eq] at h ⊢ <;>
    first | exact h | grind

/-- the plain reading with a margin of one step implies the step reading -/
theorem CmpOp.holdsStep_of_margin (ε : Rat) (op : CmpOp) (x y : Rat) (h : op.holdsN x y = true)
    (hm : op = .lt → x + ε ≤ y) (hm' : op = .gt → y + ε ≤ x) : op.holdsStep ε x y = true := by
  cases op <;> simp only [CmpOp.holdsStep, decide_eq_true_eq] <;>
    first | exact h | exact hm rfl | exact hm' rfl

/-- both readings depend only on the difference of the two sides -/
theorem CmpOp.holdsStep_congr (ε : Rat) (op : CmpOp) (x y x' y' : Rat) (h : x - y = x' - y') :
    op.holdsStep ε x y = op.holdsStep ε x' y' := by
  cases op <;> simp only [CmpOp.holdsStep, CmpOp.holdsN, RatNum.feq_eq, RatNum.le_eq] <;>
    rw [Bool.eq_iff_iff] <;> simp <;> grind

theorem CmpOp.holdsN_congr (op : CmpOp) (x y x' y' : Rat) (h : x - y = x' - y') :
    op.holdsN x y = op.holdsN x' y' := by
  cases op <;> simp only [CmpOp.holdsN, RatNum.feq_eq, RatNum.le_eq, RatNum.lt_eq] <;>
    rw [Bool.eq_iff_iff] <;> simp <;> grind

namespace FLModel

/-- **the decision of `try_convert_to_linear_ast`** (any `Num`): a comparison whose two sides are
linear is stored as `ConstraintKind::LinearInt` exactly when NO FLOAT LITERAL is left in the two
(built) trees, and as `LinearFloat` otherwise.  The code's own test is `all_ints`: every coefficient
of the left form, every coefficient of the right form and the final constant are
`LinearCoefficient::Int` (`extract_kinds` shows the two are the same).  The types of the variables
play no role: `linearise` does not even see the model. -/
theorem linearise_decision {α : Type} [Num α] (l r : FExpr α) (op : CmpOp) (p : FPending α)
    (h : linearise l op r = some p) :
    ((∃ cs xs k, p = .lin cs xs op k) ↔ (l.noFloatLit = true ∧ r.noFloatLit = true)) ∧
    ((∃ cs xs k, p = .flin cs xs op k) ↔ ¬ (l.noFloatLit = true ∧ r.noFloatLit = true)) := by
  unfold linearise at h
  cases hl : l.extractLinear with
  | none => simp [hl] at h
  | some lt =>
    obtain ⟨lc, lx, lk⟩ := lt
    cases hr : r.extractLinear with
    | none => simp [hl, hr] at h
    | some rt =>
      obtain ⟨rc, rx, rk⟩ := rt
      have kl := (FExpr.extract_kinds l lc lx lk hl).2
      have kr := (FExpr.extract_kinds r rc rx rk hr).2
      have hk : (lc.all FVal.isI && rc.all FVal.isI && ((lk.sub rk).neg).isI) = (l.noFloatLit && r.noFloatLit) := by
        rw [FVal.isI_neg, FVal.isI_sub, ← kl, ← kr]
        cases lc.all FVal.isI <;> cases rc.all FVal.isI <;> cases lk.isI <;> cases rk.isI <;> rfl
      simp only [hl, hr] at h
      rw [hk] at h
      cases hb : (l.noFloatLit && r.noFloatLit) with
      | true =>
        simp only [hb, if_true, Option.some.injEq] at h
        subst h
        have hb' : l.noFloatLit = true ∧ r.noFloatLit = true := by simpa using hb
        exact ⟨⟨fun _ => hb', fun _ => ⟨_, _, _, rfl⟩⟩, ⟨fun ⟨_, _, _, e⟩ => (by cases e), fun hn => absurd hb' hn⟩⟩
      | false =>
        simp only [hb, Bool.false_eq_true, if_false, Option.some.injEq] at h
        subst h
        have hb' : ¬ (l.noFloatLit = true ∧ r.noFloatLit = true) := by simpa using hb
        exact ⟨⟨fun ⟨_, _, _, e⟩ => (by cases e), fun hn => absurd hn hb'⟩, ⟨fun _ => hb', fun _ => ⟨_, _, _, rfl⟩⟩⟩

/-- `linearise` never produces an `.ast` entry and keeps the operator -/
theorem linearise_shape {α : Type} [Num α] (l r : FExpr α) (op : CmpOp) (p : FPending α)
    (h : linearise l op r = some p) :
    (∃ cs xs k, p = .lin cs xs op k) ∨ (∃ cs xs k, p = .flin cs xs op k) := by
  simp only [linearise] at h
  split at h
  · split at h <;> simp only [Option.some.injEq] at h
    · exact Or.inl ⟨_, _, _, h.symm⟩
    · exact Or.inr ⟨_, _, _, h.symm⟩
  · cases h

/-- values of the two sides of a comparison with linear sides -/
theorem linear_sides (l r : FExpr Rat) (lc : List (FVal Rat)) (lx : List Nat) (lk : FVal Rat)
    (rc : List (FVal Rat)) (rx : List Nat) (rk : FVal Rat)
    (hl : l.extractLinear = some (lc, lx, lk)) (hr : r.extractLinear = some (rc, rx, rk)) (op : CmpOp)
    (a : Nat → Rat) :
    (FCon.bin l op r).evalN a = some (op.holdsN (dotV lc lx a + lk.toF) (dotV rc rx a + rk.toF)) := by
  simp [FCon.evalN, FExpr.extractLinear_sound l lc lx lk hl a, FExpr.extractLinear_sound r rc rx rk hr a]

/-- **`try_convert_to_linear_ast` is sound at exact rationals**, both lowerings: the stored row
`Σ cᵢ·xᵢ op k` denotes the comparison of the two trees under every assignment of rationals
(for the integer row: with its `i32` coefficients read as rationals). -/
theorem linearise_sound (l r : FExpr Rat) (op : CmpOp) (p : FPending Rat) (h : linearise l op r = some p) :
    (∀ cs xs op' k, p = .lin cs xs op' k → op' = op ∧ cs.length = xs.length ∧
      ∀ a, (FCon.bin l op r).evalN a =
        some (op.holdsN (dotQ (cs.map (fun (i : Int) => (i : Rat))) xs a) (k : Rat))) ∧
    (∀ cs xs op' k, p = .flin cs xs op' k → op' = op ∧ cs.length = xs.length ∧
      ∀ a, (FCon.bin l op r).evalN a = some (op.holdsN (dotQ cs xs a) k)) := by
  unfold linearise at h
  cases hl : l.extractLinear with
  | none => simp [hl] at h
  | some lt =>
    obtain ⟨lc, lx, lk⟩ := lt
    cases hr : r.extractLinear with
    | none => simp [hl, hr] at h
    | some rt =>
      obtain ⟨rc, rx, rk⟩ := rt
      have ll := (FExpr.extract_kinds l lc lx lk hl).1
      have lr := (FExpr.extract_kinds r rc rx rk hr).1
      obtain ⟨hm1, hm2⟩ := FExpr.mergeTerms_kinds true lc lx rc rx ll lr
      have hsem : ∀ a, (FCon.bin l op r).evalN a =
          some (op.holdsN (dotV (FExpr.mergeTerms true lc lx rc rx).1 (FExpr.mergeTerms true lc lx rc rx).2 a)
            ((lk.sub rk).neg).toF) := by
        intro a
        rw [linear_sides l r lc lx lk rc rx rk hl hr op a, FExpr.mergeTerms_sound true lc lx rc rx ll a,
          FVal.toF_neg, FVal.toF_sub, CmpOp.holdsN_shift]
        simp only [if_true]
        congr 2
        grind
      simp only [hl, hr] at h
      split at h
      · rename_i hall
        simp only [Option.some.injEq] at h
        subst h
        simp only [Bool.and_eq_true] at hall
        refine ⟨?_, fun _ _ _ _ e => (by cases e)⟩
        intro cs xs op' k e
        simp only [FPending.lin.injEq] at e
        obtain ⟨rfl, rfl, rfl, rfl⟩ := e
        refine ⟨rfl, by simpa using hm1, fun a => ?_⟩
        rw [hsem a, dotQ_map_toI _ _ a (by rw [hm2]; simp [hall.1.1, hall.1.2]), FVal.toI_toF _ hall.2]
      · simp only [Option.some.injEq] at h
        subst h
        refine ⟨fun _ _ _ _ e => (by cases e), ?_⟩
        intro cs xs op' k e
        simp only [FPending.flin.injEq] at e
        obtain ⟨rfl, rfl, rfl, rfl⟩ := e
        refine ⟨rfl, by simpa using hm1, fun a => ?_⟩
        rw [hsem a, dotQ_map_toF]

/-- the arithmetic content of `try_convert_to_linear_ast`: both sides have a value, and
`row − constant = left − right` for the stored row of either kind -/
theorem linearise_values (l r : FExpr Rat) (op : CmpOp) (p : FPending Rat) (h : linearise l op r = some p)
    (a : Nat → Rat) :
    ∃ vl vr, l.evalN a = some vl ∧ r.evalN a = some vr ∧
      (∀ cs xs op' k, p = .lin cs xs op' k →
        dotQ (cs.map (fun (i : Int) => (i : Rat))) xs a - (k : Rat) = vl - vr) ∧
      (∀ cs xs op' k, p = .flin cs xs op' k → dotQ cs xs a - k = vl - vr) := by
  unfold linearise at h
  cases hl : l.extractLinear with
  | none => simp [hl] at h
  | some lt =>
    obtain ⟨lc, lx, lk⟩ := lt
    cases hr : r.extractLinear with
    | none => simp [hl, hr] at h
    | some rt =>
      obtain ⟨rc, rx, rk⟩ := rt
      have ll := (FExpr.extract_kinds l lc lx lk hl).1
      have lr := (FExpr.extract_kinds r rc rx rk hr).1
      obtain ⟨hm1, hm2⟩ := FExpr.mergeTerms_kinds true lc lx rc rx ll lr
      have hrow : dotV (FExpr.mergeTerms true lc lx rc rx).1 (FExpr.mergeTerms true lc lx rc rx).2 a -
          ((lk.sub rk).neg).toF = (dotV lc lx a + lk.toF) - (dotV rc rx a + rk.toF) := by
        rw [FExpr.mergeTerms_sound true lc lx rc rx ll a, FVal.toF_neg, FVal.toF_sub]
        simp only [if_true]
        grind
      refine ⟨_, _, FExpr.extractLinear_sound l lc lx lk hl a, FExpr.extractLinear_sound r rc rx rk hr a, ?_, ?_⟩
      · intro cs xs op' k e
        simp only [hl, hr] at h
        split at h
        · rename_i hall
          simp only [Bool.and_eq_true] at hall
          simp only [Option.some.injEq] at h
          rw [e] at h
          simp only [FPending.lin.injEq] at h
          obtain ⟨rfl, rfl, _, rfl⟩ := h
          rw [dotQ_map_toI _ _ a (by rw [hm2]; simp [hall.1.1, hall.1.2]), FVal.toI_toF _ hall.2]
          exact hrow
        · simp only [Option.some.injEq] at h
          rw [e] at h
          cases h
      · intro cs xs op' k e
        simp only [hl, hr] at h
        split at h
        · simp only [Option.some.injEq] at h
          rw [e] at h
          cases h
        · simp only [Option.some.injEq] at h
          rw [e] at h
          simp only [FPending.flin.injEq] at h
          obtain ⟨rfl, rfl, _, rfl⟩ := h
          rw [dotQ_map_toF]
          exact hrow

end FLModel

/-! ### 6. meaning of the lowered rows -/

/-- the documented meaning of a lowered propagator under an assignment of rationals
(integer rows: their `i32` data read as rationals; `Next(x) <= y` is `x < y`;
`Div` / `Modulo`: real quotient / remainder of the truncated quotient, divisor non-zero) -/
def FLP.holdsQ (a : Nat → Rat) : FLP Rat → Bool
  | .eqVV x y => decide (a x = a y)
  | .eqKV k y => decide (k.toF = a y)
  | .neVV x y => decide (a x ≠ a y)
  | .leVV x y => decide (a x ≤ a y)
  | .ltVV x y => decide (a x < a y)
  | .addVV x y s => decide (a x + a y = a s)
  | .subVV x y s => decide (a x - a y = a s)
  | .mulVV x y s => decide (a x * a y = a s)
  | .divVV x y s => decide (a y ≠ 0 ∧ a x / a y = a s)
  | .modVV x y s => decide (a y ≠ 0 ∧ a x - a y * FExpr.truncN (a x / a y) = a s)
  | .linEq cs xs c => decide (dotQ (cs.map (fun (i : Int) => (i : Rat))) xs a = (c : Rat))
  | .linLe cs xs c => decide (dotQ (cs.map (fun (i : Int) => (i : Rat))) xs a ≤ (c : Rat))
  | .linNe cs xs c => decide (dotQ (cs.map (fun (i : Int) => (i : Rat))) xs a ≠ (c : Rat))
  | .flinEq cs xs c => decide (dotQ cs xs a = c)
  | .flinLe cs xs c => decide (dotQ cs xs a ≤ c)
  | .flinNe cs xs c => decide (dotQ cs xs a ≠ c)
  | .reif op x y b => decide (a b = 1) == op.holdsN (a x) (a y)
  | .boolOr ops r => decide (a r ≥ 1) == ops.any (fun o => decide (a o ≥ 1))

namespace FLModel

/-- the propagator `materializeLin` appends -/
def linFLP {α : Type} (cs : List Int) (xs : List Nat) : CmpOp → Int → FLP α
  | .eq, k => .linEq cs xs k
  | .le, k => .linLe cs xs k
  | .ne, k => .linNe cs xs k
  | .ge, k => .linLe (LModel.negAll cs) xs (-k)
  | .gt, k => .linLe (LModel.negAll cs) xs (-k - 1)
  | .lt, k => .linLe cs xs (k - 1)

/-- the propagator `materializeFLin` appends (`ε = 1e-6`) -/
def flinFLP {α : Type} [Num α] (cs : List α) (xs : List Nat) : CmpOp → α → FLP α
  | .eq, k => .flinEq cs xs k
  | .le, k => .flinLe cs xs k
  | .ne, k => .flinNe cs xs k
  | .ge, k => .flinLe (negAllF cs) xs (-k)
  | .lt, k => .flinLe cs xs (k - e6)
  | .gt, k => .flinLe (negAllF cs) xs (-k - e6)

theorem materializeLin_eq {α : Type} [Num α] (m : FLModel α) (cs : List Int) (xs : List Nat) (op : CmpOp) (k : Int) :
    materializeLin m cs xs op k = m.post (linFLP cs xs op k) := by
  cases op <;> rfl

theorem materializeFLin_eq {α : Type} [Num α] (m : FLModel α) (cs : List α) (xs : List Nat) (op : CmpOp) (k : α) :
    materializeFLin m cs xs op k = m.post (flinFLP cs xs op k) := by
  cases op <;> rfl

/-- **the `LinearFloat` arm, all six operators**: the appended `FloatLin*` propagator means
`Σ cᵢ·xᵢ op k` with the STRICTNESS STEP `ε = 10⁻⁶` for `<` and `>`:
`<` is posted as `Σ ≤ k − ε`, `>` as `−Σ ≤ −k − ε` -/
theorem flinFLP_sem (cs : List Rat) (xs : List Nat) (op : CmpOp) (k : Rat) (a : Nat → Rat) :
    FLP.holdsQ a (flinFLP cs xs op k) = op.holdsStep (1 / 1000000) (dotQ cs xs a) k := by
  cases op <;> simp only [flinFLP, FLP.holdsQ, CmpOp.holdsStep, CmpOp.holdsN, RatNum.feq_eq, RatNum.le_eq,
    RatNum.e6_eq, dotQ_negAll] <;> rw [Bool.eq_iff_iff] <;> simp <;> grind

/-- a sum of integer multiples of integers is an integer -/
theorem dotQ_integral (cs : List Int) (xs : List Nat) (a : Nat → Rat)
    (h : ∀ x ∈ xs, ∃ z : Int, a x = (z : Rat)) :
    ∃ z : Int, dotQ (cs.map (fun (i : Int) => (i : Rat))) xs a = (z : Rat) := by
  induction cs generalizing xs with
  | nil => exact ⟨0, by simp⟩
  | cons c cs ih =>
    cases xs with
    | nil => exact ⟨0, by simp⟩
    | cons x xs =>
      obtain ⟨z, hz⟩ := ih xs (fun y hy => h y (List.mem_cons_of_mem _ hy))
      obtain ⟨w, hw⟩ := h x (List.mem_cons_self ..)
      refine ⟨c * w + z, ?_⟩
      simp only [List.map_cons, dotQ_cons, hz, hw, Rat.intCast_add, Rat.intCast_mul]

/-- **the `LinearInt` arm, all six operators**: the appended `IntLin*` propagator means
`Σ cᵢ·xᵢ op k` with the UNIT step for `<` and `>` (`<` is `Σ ≤ k − 1`, `>` is `−Σ ≤ −k − 1`) -/
theorem linFLP_sem (cs : List Int) (xs : List Nat) (op : CmpOp) (k : Int) (a : Nat → Rat) :
    FLP.holdsQ a (linFLP cs xs op k) =
      op.holdsStep 1 (dotQ (cs.map (fun (i : Int) => (i : Rat))) xs a) (k : Rat) := by
  cases op <;> simp only [linFLP, FLP.holdsQ, CmpOp.holdsStep, CmpOp.holdsN, RatNum.feq_eq, RatNum.le_eq,
    dotQ_negAll_int, Rat.intCast_sub, Rat.intCast_neg] <;> rw [Bool.eq_iff_iff] <;> simp <;> grind

/-- on INTEGER values the unit step is exact: `z < k ↔ z + 1 ≤ k` -/
theorem holdsStep_one_int (op : CmpOp) (z k : Int) :
    op.holdsStep 1 (z : Rat) (k : Rat) = op.holdsN (z : Rat) (k : Rat) := by
  have e1 : ((z : Rat) + 1 ≤ (k : Rat)) ↔ ((z : Rat) < (k : Rat)) := by
    have : ((z : Rat) + 1) = ((z + 1 : Int) : Rat) := by simp [Rat.intCast_add]
    rw [this, Rat.intCast_le_intCast, Rat.intCast_lt_intCast]; omega
  have e2 : ((k : Rat) + 1 ≤ (z : Rat)) ↔ ((k : Rat) < (z : Rat)) := by
    have : ((k : Rat) + 1) = ((k + 1 : Int) : Rat) := by simp [Rat.intCast_add]
    rw [this, Rat.intCast_le_intCast, Rat.intCast_lt_intCast]; omega
  cases op <;> simp only [CmpOp.holdsStep, CmpOp.holdsN, RatNum.lt_eq] <;> rw [Bool.eq_iff_iff] <;>
    simp only [decide_eq_true_eq] <;> first | exact e1 | exact e2

end FLModel

/-! ### 7. domains, `apply_var_eq_bounds`, posting and lowering the linear fragment -/

/-- membership of a rational in a declared domain: an integer variable takes the (integer) values
of its list, a float variable the rationals of its closed interval -/
def FDom.memQ : FDom Rat → Rat → Prop
  | .int d, v => ∃ z : Int, z ∈ d ∧ v = (z : Rat)
  | .flt lo hi, v => lo ≤ v ∧ v ≤ hi

/-- the assignment lies in the domains -/
def InDoms (doms : List (FDom Rat)) (a : Nat → Rat) : Prop :=
  ∀ i d, doms[i]? = some d → FDom.memQ d (a i)

namespace FLModel

theorem getElem?_set2 {β : Type} (l : List β) (x y j : Nat) (dx dy : β) (hx : x < l.length) (hy : y < l.length) :
    ((l.set x dx).set y dy)[j]? = if j = y then some dy else if j = x then some dx else l[j]? := by
  rw [List.getElem?_set]
  by_cases hjy : j = y
  · subst hjy; simp [hy]
  · have : ¬ y = j := fun h => hjy h.symm
    simp only [this, if_false, hjy]
    rw [List.getElem?_set]
    by_cases hjx : j = x
    · subst hjx; simp [hx]
    · have : ¬ x = j := fun h => hjx h.symm
      simp [this, hjx]

/-- **`apply_var_eq_bounds` is sound, float-aware**: it touches only the domains of two INTEGER
variables (float variables and mixed pairs are left alone), only shrinks them, and keeps every
assignment with `a x = a y` that was inside the old domains. -/
theorem applyVarEqBounds_soundQ (m : FLModel Rat) (x y : Nat) :
    (m.applyVarEqBounds x y).doms.length = m.doms.length ∧
    (m.applyVarEqBounds x y).props = m.props ∧
    (m.applyVarEqBounds x y).pending = m.pending ∧
    (∀ a, InDoms (m.applyVarEqBounds x y).doms a → InDoms m.doms a) ∧
    (∀ a, InDoms m.doms a → a x = a y → InDoms (m.applyVarEqBounds x y).doms a) := by
  have triv : ∀ m' : FLModel Rat, m'.doms = m.doms → m'.props = m.props → m'.pending = m.pending →
      (m'.doms.length = m.doms.length ∧ m'.props = m.props ∧ m'.pending = m.pending ∧
      (∀ a, InDoms m'.doms a → InDoms m.doms a) ∧ (∀ a, InDoms m.doms a → a x = a y → InDoms m'.doms a)) := by
    intro m' h1 h2 h3
    rw [h1]
    exact ⟨rfl, h2, h3, fun _ h => h, fun _ h _ => h⟩
  cases hdx : m.doms[x]? with
  | none =>
    have e : m.applyVarEqBounds x y = m := by simp only [applyVarEqBounds, hdx]
    rw [e]; exact triv m rfl rfl rfl
  | some da =>
    cases hdy : m.doms[y]? with
    | none =>
      have e : m.applyVarEqBounds x y = m := by cases da <;> simp only [applyVarEqBounds, hdx, hdy]
      rw [e]; exact triv m rfl rfl rfl
    | some db =>
      cases da with
      | flt _ _ =>
        cases db with
        | flt _ _ =>
          have e : m.applyVarEqBounds x y = m := by simp only [applyVarEqBounds, hdx, hdy]
          rw [e]; exact triv m rfl rfl rfl
        | int db =>
          have e : m.applyVarEqBounds x y = if db.isEmpty then { m with panicked := true } else m := by
            simp only [applyVarEqBounds, hdx, hdy]
          rw [e]
          split
          · exact triv _ rfl rfl rfl
          · exact triv m rfl rfl rfl
      | int da =>
        cases db with
        | flt _ _ =>
          have e : m.applyVarEqBounds x y = if da.isEmpty then { m with panicked := true } else m := by
            simp only [applyVarEqBounds, hdx, hdy]
          rw [e]
          split
          · exact triv _ rfl rfl rfl
          · exact triv m rfl rfl rfl
        | int db =>
          have e : m.applyVarEqBounds x y =
              if da.isEmpty || db.isEmpty then { m with panicked := true } else
              if (if da.dmin > db.dmin then da.dmin else db.dmin) ≤ (if da.dmax < db.dmax then da.dmax else db.dmax) then
                (m.setDom x (.int (da.filter (fun v => decide ((if da.dmin > db.dmin then da.dmin else db.dmin) ≤ v) &&
                  decide (v ≤ (if da.dmax < db.dmax then da.dmax else db.dmax)))))).setDom y
                  (.int (db.filter (fun v => decide ((if da.dmin > db.dmin then da.dmin else db.dmin) ≤ v) &&
                  decide (v ≤ (if da.dmax < db.dmax then da.dmax else db.dmax)))))
              else m := by
            simp only [applyVarEqBounds, hdx, hdy]
          rw [e]
          split
          · exact triv _ rfl rfl rfl
          · have hb : ∀ z, z ∈ da → z ∈ db →
                ((if da.dmin > db.dmin then da.dmin else db.dmin) ≤ z ∧
                 z ≤ (if da.dmax < db.dmax then da.dmax else db.dmax)) := by
              intro z hza hzb
              have h1 := Dom.dmin_le _ _ hza
              have h2 := Dom.dmin_le _ _ hzb
              have h3 := Dom.le_dmax _ _ hza
              have h4 := Dom.le_dmax _ _ hzb
              constructor <;> split <;> omega
            generalize (if da.dmin > db.dmin then da.dmin else db.dmin) = lo at hb ⊢
            generalize (if da.dmax < db.dmax then da.dmax else db.dmax) = hi at hb ⊢
            by_cases hle : lo ≤ hi
            · rw [if_pos hle]
              have hx : x < m.doms.length := by
                rcases Nat.lt_or_ge x m.doms.length with h | h
                · exact h
                · rw [List.getElem?_eq_none h] at hdx; cases hdx
              have hy : y < m.doms.length := by
                rcases Nat.lt_or_ge y m.doms.length with h | h
                · exact h
                · rw [List.getElem?_eq_none h] at hdy; cases hdy
              refine ⟨by simp [setDom], rfl, rfl, ?_, ?_⟩
              · intro a ha i d hid
                by_cases hiy : i = y
                · subst hiy
                  rw [hdy] at hid; cases hid
                  have := ha i _ (by simp only [setDom]; rw [getElem?_set2 _ _ _ _ _ _ hx hy, if_pos rfl])
                  obtain ⟨z, hz, e⟩ := this
                  exact ⟨z, (List.mem_filter.1 hz).1, e⟩
                · by_cases hix : i = x
                  · subst hix
                    rw [hdx] at hid; cases hid
                    have := ha i _ (by simp only [setDom]; rw [getElem?_set2 _ _ _ _ _ _ hx hy, if_neg hiy, if_pos rfl])
                    obtain ⟨z, hz, e⟩ := this
                    exact ⟨z, (List.mem_filter.1 hz).1, e⟩
                  · exact ha i d (by simp only [setDom]; rw [getElem?_set2 _ _ _ _ _ _ hx hy, if_neg hiy, if_neg hix]; exact hid)
              · intro a ha hxy i d hid
                simp only [setDom] at hid
                rw [getElem?_set2 _ _ _ _ _ _ hx hy] at hid
                obtain ⟨zx, hzx, ex⟩ := ha x _ hdx
                obtain ⟨zy, hzy, ey⟩ := ha y _ hdy
                have hzz : zx = zy := by
                  have : ((zx : Int) : Rat) = ((zy : Int) : Rat) := by rw [← ex, ← ey, hxy]
                  exact Rat.intCast_inj.1 this
                obtain ⟨hlo, hhi⟩ := hb zx hzx (hzz ▸ hzy)
                by_cases hiy : i = y
                · subst hiy
                  rw [if_pos rfl] at hid; cases hid
                  exact ⟨zy, List.mem_filter.2 ⟨hzy, by rw [← hzz]; simp only [Bool.and_eq_true, decide_eq_true_eq]; exact ⟨hlo, hhi⟩⟩, ey⟩
                · rw [if_neg hiy] at hid
                  by_cases hix : i = x
                  · subst hix
                    rw [if_pos rfl] at hid; cases hid
                    exact ⟨zx, List.mem_filter.2 ⟨hzx, by simp only [Bool.and_eq_true, decide_eq_true_eq]; exact ⟨hlo, hhi⟩⟩, ex⟩
                  · rw [if_neg hix] at hid
                    exact ha i d hid
            · rw [if_neg hle]; exact triv m rfl rfl rfl

/-- the immediate `Var == Val` / `Val == Var` pattern of `post_constraint_kind` -/
def immediate {α : Type} : CmpOp → FExpr α → FExpr α → Bool
  | .eq, .var _, .val _ => true
  | .eq, .val _, .var _ => true
  | _, _, _ => false

/-- the immediate bound intersection of `Var == Var` -/
def preEq {α : Type} [Num α] (m : FLModel α) : CmpOp → FExpr α → FExpr α → FLModel α
  | .eq, .var a, .var b => m.applyVarEqBounds a b
  | _, _, _ => m

theorem postCon_bin {α : Type} [Num α] (m : FLModel α) (l : FExpr α) (op : CmpOp) (r : FExpr α) :
    postCon m (.bin l op r) =
      if immediate op l r then (preEq m op l r).materialize (.bin l op r)
      else match linearise l op r with
        | some p => { preEq m op l r with pending := (preEq m op l r).pending ++ [p] }
        | none => { preEq m op l r with pending := (preEq m op l r).pending ++ [.ast (.bin l op r)] } := by
  cases op <;> cases l <;> cases r <;> rfl

/-- `preEq` only edits domains, only shrinks them, and keeps every assignment inside the old
domains at which the two sides are equal -/
theorem preEq_soundQ (m : FLModel Rat) (l : FExpr Rat) (op : CmpOp) (r : FExpr Rat) :
    (preEq m op l r).doms.length = m.doms.length ∧
    (preEq m op l r).props = m.props ∧
    (preEq m op l r).pending = m.pending ∧
    (∀ a, InDoms (preEq m op l r).doms a → InDoms m.doms a) ∧
    (∀ a, InDoms m.doms a → (FCon.bin l op r).evalN a = some true → InDoms (preEq m op l r).doms a) := by
  have triv : (m.doms.length = m.doms.length ∧ m.props = m.props ∧ m.pending = m.pending ∧
      (∀ a, InDoms m.doms a → InDoms m.doms a) ∧
      (∀ a, InDoms m.doms a → (FCon.bin l op r).evalN a = some true → InDoms m.doms a)) :=
    ⟨rfl, rfl, rfl, fun _ h => h, fun _ h _ => h⟩
  cases op <;> try exact triv
  cases l <;> try exact triv
  cases r <;> try exact triv
  rename_i x y
  obtain ⟨h1, h2, h3, h4, h5⟩ := applyVarEqBounds_soundQ m x y
  refine ⟨h1, h2, h3, h4, fun a ha he => h5 a ha ?_⟩
  simpa [FCon.evalN, FExpr.evalN, CmpOp.holdsN, RatNum.feq_eq] using he

end FLModel

/-- *simple* constraint: a top-level comparison whose two sides are linear and which is not the
immediate `Var == Val` / `Val == Var` pattern — literals and coefficients of EITHER kind -/
def FCon.simple {α : Type} [Num α] : FCon α → Bool
  | .bin l op r => (FLModel.linearise l op r).isSome && !FLModel.immediate op l r
  | _ => false

/-- the pending row a simple constraint becomes -/
def FCon.rowP {α : Type} [Num α] (c : FCon α) : FPending α :=
  match c with
  | .bin l op r => (FLModel.linearise l op r).getD (.ast c)
  | _ => .ast c

/-- the propagator a pending row is lowered to -/
def FPending.toFLP {α : Type} [Num α] : FPending α → FLP α
  | .lin cs xs op k => FLModel.linFLP cs xs op k
  | .flin cs xs op k => FLModel.flinFLP cs xs op k
  | .ast _ => .eqVV 0 0

/-- the propagator a simple constraint is lowered to -/
def FCon.toFLP {α : Type} [Num α] (c : FCon α) : FLP α := c.rowP.toFLP

/-- the strictness step the lowering of a comparison uses: the UNIT for an integer row (no float
literal in the trees), `10⁻⁶` for a float row -/
def FCon.stepOf (l r : FExpr Rat) : Rat := if l.noFloatLit && r.noFloatLit then 1 else 1 / 1000000

/-- the reading of a comparison with its strictness step: what the lowered row means -/
def FCon.stepEval (a : Nat → Rat) : FCon Rat → Option Bool
  | .bin l op r => do let x ← l.evalN a; let y ← r.evalN a; pure (op.holdsStep (FCon.stepOf l r) x y)
  | _ => none

namespace FLModel

/-- a simple constraint, its row and what the row means -/
theorem simple_rowQ (c : FCon Rat) (hs : c.simple = true) :
    ∃ l op r, c = .bin l op r ∧ immediate op l r = false ∧ linearise l op r = some c.rowP ∧
      (∀ a, c.stepEval a = some (c.toFLP.holdsQ a)) ∧
      (∀ a, ∃ vl vr, l.evalN a = some vl ∧ r.evalN a = some vr) := by
  cases c with
  | bin l op r =>
    simp only [FCon.simple, Bool.and_eq_true, Bool.not_eq_true'] at hs
    obtain ⟨h1, h2⟩ := hs
    cases hl : linearise l op r with
    | none => simp [hl] at h1
    | some p =>
      have hrow : (FCon.bin l op r).rowP = p := by simp only [FCon.rowP, hl, Option.getD_some]
      have hvals : ∀ a, ∃ vl vr, l.evalN a = some vl ∧ r.evalN a = some vr := by
        intro a
        simp only [linearise] at hl
        cases hxl : l.extractLinear with
        | none => simp [hxl] at hl
        | some lt =>
          cases hxr : r.extractLinear with
          | none => simp [hxl, hxr] at hl
          | some rt =>
            exact ⟨_, _, FExpr.extractLinear_sound l _ _ _ hxl a, FExpr.extractLinear_sound r _ _ _ hxr a⟩
      refine ⟨l, op, r, rfl, h2, by rw [hrow]; exact hl, ?_, hvals⟩
      intro a
      obtain ⟨vl, vr, evl, evr⟩ := hvals a
      obtain ⟨dI, dF⟩ := linearise_decision l r op p hl
      obtain ⟨vl', vr', evl', evr', vI, vF⟩ := linearise_values l r op p hl a
      rw [evl] at evl'; rw [evr] at evr'
      cases evl'; cases evr'
      simp only [FCon.stepEval, evl, evr, bind, Option.bind, pure, Option.some.injEq, FCon.toFLP, hrow]
      rcases linearise_shape l r op p hl with ⟨cs, xs, k, rfl⟩ | ⟨cs, xs, k, rfl⟩
      · have hnf := dI.1 ⟨cs, xs, k, rfl⟩
        simp only [FPending.toFLP, linFLP_sem, FCon.stepOf, hnf.1, hnf.2, Bool.and_self, if_true]
        exact (CmpOp.holdsStep_congr 1 op _ _ _ _ (vI cs xs op k rfl)).symm
      · have hnf := dF.1 ⟨cs, xs, k, rfl⟩
        have hb : (l.noFloatLit && r.noFloatLit) = false := by
          cases h1' : l.noFloatLit <;> cases h2' : r.noFloatLit <;> simp_all
        simp only [FPending.toFLP, flinFLP_sem, FCon.stepOf, hb, Bool.false_eq_true, if_false]
        exact (CmpOp.holdsStep_congr _ op _ _ _ _ (vF cs xs op k rfl)).symm
  | and _ _ => simp [FCon.simple] at hs
  | or _ _ => simp [FCon.simple] at hs
  | not _ => simp [FCon.simple] at hs

/-- the step reading of a simple constraint implies its plain reading (both steps are positive) -/
theorem stepEval_imp (c : FCon Rat) (hs : c.simple = true) (a : Nat → Rat) (h : c.stepEval a = some true) :
    c.evalN a = some true := by
  obtain ⟨l, op, r, rfl, _, _, _, hv⟩ := simple_rowQ c hs
  obtain ⟨vl, vr, evl, evr⟩ := hv a
  simp only [FCon.stepEval, evl, evr, bind, Option.bind, pure, Option.some.injEq] at h
  simp only [FCon.evalN, evl, evr, bind, Option.bind, pure, Option.some.injEq]
  apply CmpOp.holdsStep_imp _ _ op vl vr h
  unfold FCon.stepOf
  split <;> decide +kernel

/-- for `==`, `!=`, `<=`, `>=` the step reading IS the plain reading -/
theorem stepEval_nonstrict (l r : FExpr Rat) (op : CmpOp) (hop : op ≠ .lt ∧ op ≠ .gt) (a : Nat → Rat) :
    (FCon.bin l op r).stepEval a = (FCon.bin l op r).evalN a := by
  simp only [FCon.stepEval, FCon.evalN]
  cases op <;> first | rfl | (exfalso; simp at hop)

/-- posting one simple constraint: one pending row is appended; nothing but the domains changes,
they only shrink, and the assignments at which the two sides compare as posted are kept -/
theorem postCon_simpleQ (m : FLModel Rat) (c : FCon Rat) (hs : c.simple = true) :
    (postCon m c).doms.length = m.doms.length ∧
    (postCon m c).props = m.props ∧
    (postCon m c).pending = m.pending ++ [c.rowP] ∧
    (∀ a, InDoms (postCon m c).doms a → InDoms m.doms a) ∧
    (∀ a, InDoms m.doms a → c.evalN a = some true → InDoms (postCon m c).doms a) := by
  obtain ⟨l, op, r, rfl, himm, hlin, _, _⟩ := simple_rowQ c hs
  obtain ⟨h1, h2, h3, h4, h5⟩ := preEq_soundQ m l op r
  have : postCon m (.bin l op r) =
      { preEq m op l r with pending := (preEq m op l r).pending ++ [(FCon.bin l op r).rowP] } := by
    rw [postCon_bin, himm, hlin]; rfl
  rw [this]
  exact ⟨h1, h2, by rw [← h3], h4, h5⟩

/-- posting a list of simple constraints -/
theorem foldl_postCon_simpleQ (cs : List (FCon Rat)) (hs : ∀ c ∈ cs, c.simple = true) (m : FLModel Rat) :
    (cs.foldl postCon m).doms.length = m.doms.length ∧
    (cs.foldl postCon m).props = m.props ∧
    (cs.foldl postCon m).pending = m.pending ++ cs.map FCon.rowP ∧
    (∀ a, InDoms (cs.foldl postCon m).doms a → InDoms m.doms a) ∧
    (∀ a, InDoms m.doms a → (∀ c ∈ cs, c.evalN a = some true) → InDoms (cs.foldl postCon m).doms a) := by
  induction cs generalizing m with
  | nil => exact ⟨rfl, rfl, by simp, fun _ h => h, fun _ h _ => h⟩
  | cons c cs ih =>
    simp only [List.foldl_cons]
    obtain ⟨p1, p2, p3, p4, p5⟩ := postCon_simpleQ m c (hs c (List.mem_cons_self ..))
    obtain ⟨q1, q2, q3, q4, q5⟩ := ih (fun c' hc' => hs c' (List.mem_cons_of_mem _ hc')) (postCon m c)
    refine ⟨by rw [q1, p1], by rw [q2, p2], by rw [q3, p3]; simp, fun a h => p4 a (q4 a h), ?_⟩
    intro a hdom hall
    exact q5 a (p5 a hdom (hall c (List.mem_cons_self ..))) (fun c' hc' => hall c' (List.mem_cons_of_mem _ hc'))

theorem lowerStep_row (m : FLModel Rat) (c : FCon Rat) (hs : c.simple = true) :
    lowerStep m c.rowP = m.post c.toFLP := by
  obtain ⟨l, op, r, rfl, _, hlin, _, _⟩ := simple_rowQ c hs
  rcases linearise_shape l r op _ hlin with ⟨cs, xs, k, e⟩ | ⟨cs, xs, k, e⟩
  · simp only [FCon.toFLP, e, lowerStep, FPending.toFLP, materializeLin_eq]
  · simp only [FCon.toFLP, e, lowerStep, FPending.toFLP, materializeFLin_eq]

/-- `materialize_pending_asts` on the rows of simple constraints appends one propagator per row -/
theorem lower_fold_rows (cs : List (FCon Rat)) (hs : ∀ c ∈ cs, c.simple = true) (m : FLModel Rat) :
    (cs.map FCon.rowP).foldl lowerStep m = { m with props := m.props ++ cs.map FCon.toFLP } := by
  induction cs generalizing m with
  | nil => simp
  | cons c cs ih =>
    simp only [List.map_cons, List.foldl_cons]
    rw [lowerStep_row m c (hs c (List.mem_cons_self ..)), ih (fun c' hc' => hs c' (List.mem_cons_of_mem _ hc'))]
    simp [post]

/-- lowering after posting a list of simple constraints to a fresh model: one propagator per
constraint, in order; only the domains were touched by posting -/
theorem lower_simpleQ (doms : List (FDom Rat)) (cs : List (FCon Rat)) (hs : ∀ c ∈ cs, c.simple = true) :
    ((cs.foldl postCon { doms := doms }).lower).doms = (cs.foldl postCon { doms := doms }).doms ∧
    ((cs.foldl postCon { doms := doms }).lower).props = cs.map FCon.toFLP ∧
    ((cs.foldl postCon { doms := doms }).lower).pending = [] := by
  obtain ⟨_, q2, q3, _, _⟩ := foldl_postCon_simpleQ cs hs { doms := doms }
  have hp : (cs.foldl postCon ({ doms := doms } : FLModel Rat)).pending = cs.map FCon.rowP := by
    rw [q3]; simp
  unfold lower
  rw [hp, lower_fold_rows cs hs]
  refine ⟨rfl, ?_, rfl⟩
  show (cs.foldl postCon { doms := doms }).props ++ _ = _
  rw [q2]
  simp

end FLModel


/-! ### the integer model is the restriction of the general one -/

/-- embedding of an integer linear form -/
def embForm {α : Type} (t : List Int × List Nat × Int) : List (FVal α) × List Nat × FVal α :=
  (t.1.map FVal.i, t.2.1, FVal.i t.2.2)

namespace FExpr
variable {α : Type} [Num α]

theorem caddTerm_int (cs : List Int) (xs : List Nat) (x : Nat) (c : Int) (sub : Bool) :
    caddTerm (cs.map (FVal.i (α := α))) xs x (.i c) sub =
      ((Expr.addTerm cs xs x c (if sub then (fun a b => a - b) else (fun a b => a + b))).1.map FVal.i,
       (Expr.addTerm cs xs x c (if sub then (fun a b => a - b) else (fun a b => a + b))).2) := by
  unfold caddTerm Expr.addTerm
  cases hidx : xs.idxOf? x with
  | none =>
    cases sub <;> simp [FVal.neg]
  | some i =>
    cases sub <;> simp [FVal.sub, FVal.add, List.map_set]

theorem mergeTerms_int (sub : Bool) (lc : List Int) (lx : List Nat) (rc : List Int) (rx : List Nat) :
    mergeTerms sub (lc.map (FVal.i (α := α))) lx (rc.map FVal.i) rx =
      (((List.zip rx rc).foldl (fun (acc : List Int × List Nat) (p : Nat × Int) =>
        Expr.addTerm acc.1 acc.2 p.1 p.2 (if sub then (fun a b => a - b) else (fun a b => a + b))) (lc, lx)).1.map FVal.i,
       ((List.zip rx rc).foldl (fun (acc : List Int × List Nat) (p : Nat × Int) =>
        Expr.addTerm acc.1 acc.2 p.1 p.2 (if sub then (fun a b => a - b) else (fun a b => a + b))) (lc, lx)).2) := by
  unfold mergeTerms
  induction rx generalizing rc lc lx with
  | nil => simp
  | cons x rx ih =>
    cases rc with
    | nil => simp
    | cons c rc =>
      simp only [List.map_cons, List.zip_cons_cons, List.foldl_cons]
      rw [caddTerm_int]
      exact ih _ _ rc

/-- on a tree without float literal `try_extract_linear_form` of the general model is the integer
model's, coefficient for coefficient -/
theorem extractLinear_toF (e : Expr) :
    (e.toF : FExpr α).extractLinear = e.extractLinear.map embForm := by
  induction e with
  | var i => rfl
  | val k => rfl
  | mul x y _ _ => cases x <;> cases y <;> rfl
  | div x y _ _ => rfl
  | mod x y _ _ => rfl
  | add x y ihx ihy =>
    simp only [Expr.toF, extractLinear, Expr.extractLinear, ihx, ihy]
    cases x.extractLinear with
    | none => rfl
    | some lt =>
      cases y.extractLinear with
      | none => rfl
      | some rt =>
        obtain ⟨lc, lx, lk⟩ := lt
        obtain ⟨rc, rx, rk⟩ := rt
        simp only [Option.map_some, embForm]
        have := mergeTerms_int (α := α) false lc lx rc rx
        simp only [Bool.false_eq_true, if_false] at this
        rw [this]
        rfl
  | sub x y ihx ihy =>
    simp only [Expr.toF, extractLinear, Expr.extractLinear, ihx, ihy]
    cases x.extractLinear with
    | none => rfl
    | some lt =>
      cases y.extractLinear with
      | none => rfl
      | some rt =>
        obtain ⟨lc, lx, lk⟩ := lt
        obtain ⟨rc, rx, rk⟩ := rt
        simp only [Option.map_some, embForm]
        have := mergeTerms_int (α := α) true lc lx rc rx
        simp only [if_true] at this
        rw [this]
        rfl

end FExpr

/-- embedding of a pending entry of the integer model -/
def Pending.toF {α : Type} : Pending → FPending α
  | .ast c => .ast c.toF
  | .lin cs xs op k => .lin cs xs op k

/-- **the integer model is the restriction of the general one (rows)**: on trees without float
literal `try_convert_to_linear_ast` of the general model produces exactly the integer model's
`LinearInt` row, for every `Num` -/
theorem FLModel.linearise_toF {α : Type} [Num α] (l r : Expr) (op : CmpOp) :
    FLModel.linearise (α := α) l.toF op r.toF = (LModel.linearise l op r).map Pending.toF := by
  simp only [FLModel.linearise, LModel.linearise, FExpr.extractLinear_toF]
  cases l.extractLinear with
  | none => rfl
  | some lt =>
    cases r.extractLinear with
    | none => rfl
    | some rt =>
      obtain ⟨lc, lx, lk⟩ := lt
      obtain ⟨rc, rx, rk⟩ := rt
      simp only [Option.map_some, embForm]
      have hm := FExpr.mergeTerms_int (α := α) true lc lx rc rx
      simp only [if_true] at hm
      rw [hm]
      have hall : ∀ l : List Int, (l.map (FVal.i (α := α))).all FVal.isI = true := by
        intro l; induction l <;> simp_all [FVal.isI]
      have htoI : ∀ l : List Int, (l.map (FVal.i (α := α))).map FVal.toI = l := by
        intro l; induction l <;> simp_all [FVal.toI]
      simp only [hall, FVal.sub, FVal.neg, FVal.isI, Bool.and_self, if_true, htoI, FVal.toI, Pending.toF]

end Selen

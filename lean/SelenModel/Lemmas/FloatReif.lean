/-
The reified `FloatLinLe` (`FloatLinLeReif::prune`, helper `prune_float_lin_le`) keeps a witness
(exact arithmetic): hypothesis `LeReifProt` — the reification variable is an integer variable whose
witness value is `1` with `Σ cᵢ·aᵢ + μ ≤ C` (margin / grid side condition of the plain row) or `0`
with `Σ cᵢ·aᵢ > C + 1e-12·Σ|cᵢ|` (the "all fixed" test uses the MINIMA of variables narrower than
`1e-12`).
-/
import SelenModel.Lemmas.FloatNe

namespace Selen
open Num

/-- `compute_fixed_sum_float`: within `1e-12·Σ|cᵢ|` of the witness's sum -/
theorem fixedSum_spec (st : FStore Rat) (a σ : Nat → Rat) (hm : FMem st a σ) :
    ∀ (cs : List Rat) (xs : List Nat) (acc s : Rat), FPK.fixedSum st cs xs acc = some s →
      dot a cs xs - sumAbs cs xs * eps12 ≤ s - acc ∧ s - acc ≤ dot a cs xs + sumAbs cs xs * eps12 := by
  intro cs
  induction cs with
  | nil =>
    intro xs acc s h
    simp only [FPK.fixedSum, Option.some.injEq] at h
    subst h
    simp only [dot, sumAbs]
    constructor <;> grind
  | cons c cs ih =>
    intro xs acc s h
    cases xs with
    | nil =>
      simp only [FPK.fixedSum, Option.some.injEq] at h
      subst h
      simp only [dot, sumAbs]
      constructor <;> grind
    | cons x xs =>
      simp only [FPK.fixedSum] at h
      cases hf : FPK.fixedVal st x with
      | none => rw [hf] at h; cases h
      | some l =>
        rw [hf] at h
        simp only at h
        obtain ⟨d0, d1⟩ := fixedVal_near st a σ hm x l hf
        obtain ⟨m1, m2⟩ := mul_near c (a x - l) eps12 d0 d1
        obtain ⟨h1, h2⟩ := ih xs (acc + c * l) s h
        simp only [dot, sumAbs]
        constructor <;> grind

/-- `compute_sum_bounds_float` encloses the witness's sum -/
theorem sumBounds_encl (st : FStore Rat) (a σ : Nat → Rat) (hm : FMem st a σ) :
    ∀ (cs : List Rat) (xs : List Nat) (acc : Rat × Rat),
      (FPK.sumBounds st cs xs acc).1 ≤ acc.1 + dot a cs xs ∧ acc.2 + dot a cs xs ≤ (FPK.sumBounds st cs xs acc).2 := by
  intro cs
  induction cs with
  | nil => intro xs acc; simp only [FPK.sumBounds, dot]; constructor <;> grind
  | cons c cs ih =>
    intro xs acc
    cases xs with
    | nil => simp only [FPK.sumBounds, dot]; constructor <;> grind
    | cons x xs =>
      simp only [FPK.sumBounds, dot]
      have t := term_encl st a σ hm c x
      have := ih xs (acc.1 + (FPK.term st c x).1, acc.2 + (FPK.term st c x).2)
      constructor <;> grind

/-- `b.try_set_min(k)?; b.try_set_max(k)?` keeps a witness with `a b = k` on an integer variable -/
theorem fixReif_keeps (κ : Nat → Bool) (a σ : Nat → Rat) (c : FCtx Rat) (hw : WitIn κ a σ c.st) (b : Nat) (hb : κ b = false)
    (k : Int) (hk : a b = (k : Rat)) : ∃ c', FPK.fixReif b k c = some c' ∧ FMem c'.st a σ := by
  obtain ⟨d, hx, _⟩ := witIn_int hw hb
  have huniq : ∀ z : Int, a b = (z : Rat) → z = k := fun z hz => Rat.intCast_inj.mp (by rw [← hz, hk])
  obtain ⟨r1, hr1, m1⟩ := intSetMin_keeps c a σ hw.1 b d hx k (fun z hz => by rw [huniq z hz]; exact Int.le_refl _)
  have h1 : c.trySetMin b (.i k) = some r1 := by simp only [FCtx.trySetMin, hx]; exact hr1
  have hw1 : WitIn κ a σ r1.1.st := ⟨m1, kindsAs_of_rel (FCtx.trySetMin_upd c r1.1 b _ r1.2 h1).rel hw.2⟩
  obtain ⟨d1, hx1, _⟩ := witIn_int hw1 hb
  obtain ⟨r2, hr2, m2⟩ := intSetMax_keeps r1.1 a σ m1 b d1 hx1 k (fun z hz => by rw [huniq z hz]; exact Int.le_refl _)
  have h2 : r1.1.trySetMax b (.i k) = some r2 := by simp only [FCtx.trySetMax, hx1]; exact hr2
  exact ⟨r2.1, by simp only [FPK.fixReif, FPK.setMin, FPK.setMax, h1, h2, Option.map], m2⟩

/-- one iteration of `prune_float_lin_le` (the helper used by the reified row) keeps a point that
satisfies the row with margin `μ` (side condition as for the plain row) -/
theorem linLeHelperStep_keeps (cs : List Rat) (xs : List Nat) (cst μ : Rat) (a σ : Nat → Rat) (c : FCtx Rat)
    (hm : FMem c.st a σ) (hμ0 : 0 ≤ μ) (hrow : dot a cs xs + μ ≤ cst)
    (hμ : ∀ (k : Nat) (ck : Rat) (xk : Nat), (cs.zip xs)[k]? = some (ck, xk) →
      rabs ck * σ xk ≤ μ ∨ ∃ z : Int, a xk = (z : Rat) * σ xk)
    (i : Nat) (ci : Rat) (xi : Nat) (hi : (cs.zip xs)[i]? = some (ci, xi)) :
    ∃ c', FPK.linLeHelperStep cs xs cst i (ci, xi) c = some c' ∧ FMem c'.st a σ := by
  have enc := otherSums_encl c.st a σ hm i cs xs 0 (zero, zero)
  have spl := dot_split a i cs xs 0 ci xi (Nat.zero_le _) (by simpa using hi)
  have hμi := hμ i ci xi hi
  simp only [FPK.linLeHelperStep, otherUnbounded_false]
  num_simp
  num_simp at enc
  by_cases hsmall : (if ci < 0 then -ci else ci) < 1 / 1000000000000
  · simp only [hsmall, decide_true, if_true]; exact ⟨c, rfl, hm⟩
  · simp only [hsmall, decide_false, Bool.false_eq_true, if_false]
    have hne : ci ≠ 0 := by grind
    obtain ⟨d, hd'⟩ : ∃ d, (cst - (FPK.otherSums c.st i 0 cs xs (0, 0)).fst) / ci = d := ⟨_, rfl⟩
    have hd : d * ci = cst - (FPK.otherSums c.st i 0 cs xs (0, 0)).fst := by
      rw [← hd']; exact Rat.div_mul_cancel hne
    simp only [hd']
    have hmx := hm xi
    by_cases hpos : (0 : Rat) < ci
    · simp only [hpos, decide_true, if_true]
      -- a xi ≤ d − μ/ci
      have hle : a xi ≤ d := by
        have h0 : ci * (a xi - d) ≤ 0 := by grind
        have := RatL.nonpos_of_pos_mul_nonpos hpos h0
        grind
      cases hx : c.st xi with
      | int dm => exact setMax_keeps_int c a σ hm xi dm hx d hle
      | flt iv =>
        rw [hx] at hmx
        obtain ⟨hσ, hs, h1, h2⟩ := hmx
        rcases hμi with hμi | ⟨z, hz⟩
        · have e0 : ci * iv.step ≤ μ := by simp only [rabs] at hμi; rw [hσ]; grind
          apply setMax_keeps_flt c a σ hm xi iv hx
          have h0 : ci * (a xi + iv.step - d) ≤ 0 := by grind
          have := RatL.nonpos_of_pos_mul_nonpos hpos h0
          grind
        · exact setMax_keeps_grid c a σ hm xi iv hx d z (by rw [hσ]; exact hz) hle
    · have hneg : ci < 0 := by grind
      simp only [hpos, decide_false, Bool.false_eq_true, if_false]
      have hle : d ≤ a xi := by
        have h0 : ci * (a xi - d) ≤ 0 := by grind
        have := RatL.nonneg_of_neg_mul_nonpos hneg h0
        grind
      cases hx : c.st xi with
      | int dm => exact setMin_keeps_int c a σ hm xi dm hx d hle
      | flt iv =>
        rw [hx] at hmx
        obtain ⟨hσ, hs, h1, h2⟩ := hmx
        rcases hμi with hμi | ⟨z, hz⟩
        · have e1 : -ci * iv.step ≤ μ := by simp only [rabs, hneg, if_true] at hμi; rw [hσ]; exact hμi
          apply setMin_keeps_flt c a σ hm xi iv hx d
          have h0 : ci * (a xi - iv.step - d) ≤ 0 := by grind
          have := RatL.nonneg_of_neg_mul_nonpos hneg h0
          grind
        · exact setMin_keeps_grid c a σ hm xi iv hx d z (by rw [hσ]; exact hz) hle

/-- the hypothesis under which `FloatLinLeReif` keeps the witness: `b` is an integer variable and
either `a b = 1` and the row holds with margin `μ` (side condition of the plain row), or `a b = 0`
and the row is violated by more than `1e-12·Σ|cᵢ|` -/
inductive LeReifProt (κ : Nat → Bool) (a σ : Nat → Rat) (cs : List Rat) (xs : List Nat) (cst : Rat) (b : Nat) : Prop where
  | holds (μ : Rat) : κ b = false → a b = 1 → 0 ≤ μ → dot a cs xs + μ ≤ cst →
      (∀ (k : Nat) (ck : Rat) (xk : Nat), (cs.zip xs)[k]? = some (ck, xk) →
        rabs ck * σ xk ≤ μ ∨ ∃ z : Int, a xk = (z : Rat) * σ xk) → LeReifProt κ a σ cs xs cst b
  | fails : κ b = false → a b = 0 → cst + sumAbs cs xs * eps12 < dot a cs xs → LeReifProt κ a σ cs xs cst b

theorem LeReifProt.intvar {κ : Nat → Bool} {a σ : Nat → Rat} {cs : List Rat} {xs : List Nat} {cst : Rat} {b : Nat}
    (h : LeReifProt κ a σ cs xs cst b) : κ b = false := by
  cases h <;> assumption

/-- **`FloatLinLeReif` keeps a protected witness** -/
theorem keeps_linLeReif (κ : Nat → Bool) (a σ : Nat → Rat) (cs : List Rat) (xs : List Nat) (cst : Rat) (b : Nat)
    (hp : LeReifProt κ a σ cs xs cst b) : Keeps κ a σ (.linLeReif cs xs cst b) := by
  intro c hw
  have hm := hw.1
  have hb := hp.intvar
  obtain ⟨d, hx, z, hz, hza⟩ := witIn_int hw hb
  have hlo := ilmin_le d z hz
  have hhi := ilmax_ge d z hz
  have hS := sumAbs_nonneg cs xs
  have he : (0 : Rat) < eps12 := by decide +kernel
  have hSe := Rat.mul_nonneg hS (Rat.le_of_lt he)
  have h01 : ((0 : Int) : Rat) = 0 := by simp
  have h11 : ((1 : Int) : Rat) = 1 := by simp
  simp only [FPK.prune, FStore.vmin, FStore.vmax, hx, FPK.isOne, FPK.isZero, FVal.veq]
  by_cases hone : (decide (ilmin d = 1) && decide (ilmax d = 1)) = true
  · rw [if_pos hone]
    simp only [Bool.and_eq_true, decide_eq_true_eq] at hone
    have hz1 : z = 1 := by omega
    cases hp with
    | holds μ _ hab h0 hrow hside =>
      exact forIdx_inv (FPK.linLeHelperStep cs xs cst) (fun c => FMem c.st a σ) (cs.zip xs)
        (fun k bb c hk hpc => linLeHelperStep_keeps cs xs cst μ a σ c hpc h0 hrow hside k bb.1 bb.2 hk)
        (cs.zip xs) 0 c (by simp) hm
    | fails _ hab _ =>
      exfalso
      rw [hab] at hza; subst hz1; rw [h11] at hza
      revert hza; decide +kernel
  · rw [if_neg hone]
    by_cases hzero : (decide (ilmin d = 0) && decide (ilmax d = 0)) = true
    · rw [if_pos hzero]
      simp only [Bool.and_eq_true, decide_eq_true_eq] at hzero
      have hz0 : z = 0 := by omega
      cases hp with
      | holds μ _ hab _ _ _ =>
        exfalso
        rw [hab] at hza; subst hz0; rw [h01] at hza
        revert hza; decide +kernel
      | fails _ hab hviol =>
        cases hfs : FPK.fixedSum c.st cs xs zero with
        | none => exact ⟨c, rfl, hm⟩
        | some s =>
          simp only
          have sp := fixedSum_spec c.st a σ hm cs xs zero s hfs
          have hz' : (zero : Rat) = 0 := by num_simp
          rw [hz'] at sp
          have : ¬ (Num.le s cst = true) := by
            intro hle
            num_simp at hle
            have := of_decide_eq_true hle
            grind
          rw [if_neg this]
          exact ⟨c, rfl, hm⟩
    · rw [if_neg hzero]
      have enc := sumBounds_encl c.st a σ hm cs xs (zero, zero)
      have hz' : (zero : Rat) = 0 := by num_simp
      simp only [hz'] at enc ⊢
      by_cases hle : Num.le (FPK.sumBounds c.st cs xs (0, 0)).2 cst = true
      · rw [if_pos hle]
        num_simp at hle
        have hle := of_decide_eq_true hle
        cases hp with
        | holds μ _ hab _ _ _ => exact fixReif_keeps κ a σ c hw b hb 1 (by rw [hab, h11])
        | fails _ _ hviol => exfalso; grind
      · rw [if_neg hle]
        by_cases hgt : Num.gt (FPK.sumBounds c.st cs xs (0, 0)).1 cst = true
        · rw [if_pos hgt]
          num_simp at hgt
          have hgt := of_decide_eq_true hgt
          cases hp with
          | holds μ _ _ h0 hrow _ => exfalso; grind
          | fails _ hab _ => exact fixReif_keeps κ a σ c hw b hb 0 (by rw [hab, h01])
        · rw [if_neg hgt]
          exact ⟨c, rfl, hm⟩

end Selen

import SelenModel.Lemmas.Engine
import SelenModel.Lemmas.Kinds.Basic
/-
Depth-first search theorems: every yielded assignment comes from a fully propagated, fully
assigned leaf (soundness); every solution of the root store is yielded (completeness);
no assignment is yielded twice; branch and bound ends with the optimum.
All statements hold for every pop policy and every fuel (they speak about runs that did not
exhaust the fuel).
-/
namespace Selen

/-! ### equation lemmas -/

theorem explore_zero (n obj pol ps st best) :
    explore n obj pol 0 ps st best = { best := best, outOfFuel := true } := by rw [explore]

theorem explore_succ (n obj pol f ps st best) : explore n obj pol (f+1) ps st best =
    match firstUnassigned n st with
    | none => { best := best }
    | some pivot =>
      { evs := (branchStep n obj pol f ps st best (.leq (.var pivot) (.const (splitMid (st pivot))))).evs ++
               (branchStep n obj pol f ps st
                 (branchStep n obj pol f ps st best (.leq (.var pivot) (.const (splitMid (st pivot))))).best
                 (.leq (.next (.const (splitMid (st pivot)))) (.var pivot))).evs,
        best := (branchStep n obj pol f ps st
                 (branchStep n obj pol f ps st best (.leq (.var pivot) (.const (splitMid (st pivot))))).best
                 (.leq (.next (.const (splitMid (st pivot)))) (.var pivot))).best,
        outOfFuel := (branchStep n obj pol f ps st best (.leq (.var pivot) (.const (splitMid (st pivot))))).outOfFuel ||
                 (branchStep n obj pol f ps st
                   (branchStep n obj pol f ps st best (.leq (.var pivot) (.const (splitMid (st pivot))))).best
                   (.leq (.next (.const (splitMid (st pivot)))) (.var pivot))).outOfFuel } := by
  rw [explore]; rfl

theorem branchStep_zero (n obj pol ps st best bp) :
    branchStep n obj pol 0 ps st best bp = { best := best, outOfFuel := true } := by rw [branchStep]

theorem branchStep_succ (n obj pol f ps st best bp) : branchStep n obj pol (f+1) ps st best bp =
    match propagate (ps ++ [bp] ++ modeProps obj best) pol (f+1)
            ((if (modeProps obj best).isEmpty then [] else [ps.length + 1]) ++ [ps.length]) st with
    | .fail => { best := best }
    | .fuel => { best := best, outOfFuel := true }
    | .ok st' =>
      match firstUnassigned n st' with
      | none =>
        { evs := [.sol (solOf n st')],
          best := match obj with | some o => some (o.minRaw st') | none => best }
      | some _ =>
        { explore n obj pol f (ps ++ [bp] ++ modeProps obj best) st' best with
          evs := [.push] ++ (explore n obj pol f (ps ++ [bp] ++ modeProps obj best) st' best).evs ++ [.pop] } := by
  rw [branchStep]; rfl

/-! ### stores with a fixed tail -/

/-- variables `≥ n` are fixed (the model's store has the default singleton there) -/
def Tail (n : Nat) (st : Store) : Prop := ∀ i, n ≤ i → ∃ w, st i = [w]

def AllFixed (st : Store) : Prop := ∀ i, ∃ w, st i = [w]

/-- the assignment read off a store -/
def asgOf (st : Store) : Asg := fun i => (st i).dmin

theorem sublist_singleton {l : List Int} {w : Int} (h : l.Sublist [w]) (hne : l ≠ []) : l = [w] := by
  cases h with
  | cons _ h => cases h; exact absurd rfl hne
  | cons_cons _ h => cases h; rfl

theorem tail_of_sub {n : Nat} {st st' : Store} (ht : Tail n st) (hs : ∀ i, (st' i).Sublist (st i))
    (hne : NonEmpty st') : Tail n st' := by
  intro i hi
  obtain ⟨w, hw⟩ := ht i hi
  exact ⟨w, sublist_singleton (hw ▸ hs i) (hne i)⟩

theorem firstUnassigned_none {n : Nat} {st : Store} (h : firstUnassigned n st = none) (ht : Tail n st) :
    AllFixed st := by
  intro i
  by_cases hi : i < n
  · unfold firstUnassigned at h
    rw [List.find?_eq_none] at h
    have := h i (List.mem_range.2 hi)
    simp at this
    exact (Dom.fixed_iff _).1 this
  · exact ht i (by omega)

theorem firstUnassigned_some {n : Nat} {st : Store} {p : Nat} (h : firstUnassigned n st = some p) :
    p < n ∧ (st p).isFixed = false := by
  unfold firstUnassigned at h
  have h1 := List.find?_some h
  have h2 := List.mem_of_find?_eq_some h
  exact ⟨List.mem_range.1 h2, by simpa using h1⟩

theorem allFixed_mem {st : Store} (h : AllFixed st) : Mem st (asgOf st) := by
  intro i
  obtain ⟨w, hw⟩ := h i
  unfold asgOf; rw [hw]; simp [Dom.dmin, SS.listMin]

theorem allFixed_unique {st : Store} (h : AllFixed st) {a : Asg} (hm : Mem st a) : ∀ i, a i = asgOf st i := by
  intro i
  obtain ⟨w, hw⟩ := h i
  have := hm i
  rw [hw] at this
  unfold asgOf; rw [hw]
  simp [Dom.dmin, SS.listMin] at this ⊢; exact this

theorem allFixed_fixedOn {st : Store} (h : AllFixed st) (T : List Nat) : FixedOn T st := fun i _ => h i

/-! ### branch constraints satisfy the contract -/

theorem pkContract_of_contract {k : PK} (P : Store → Prop)
    (h : Contract (PK.prune k) (fun a => PK.holds a k = true) (PK.triggers k)) : PKContract k P :=
  ⟨fun c a _ hm hs => h.sound c a hm hs, h.contracting, fun c c' a _ hf hm e => h.checking c c' a hf hm e, h.resp⟩

theorem pkContract_leq (P : Store → Prop) (x y : IView) (hx : x.WF) (hy : y.WF) : PKContract (.leq x y) P :=
  pkContract_of_contract P (PK.contract_leq x y hx hy)

theorem allContract_append {ps qs : List PK} {P : Store → Prop} (h1 : AllContract ps P) (h2 : AllContract qs P) :
    AllContract (ps ++ qs) P := by
  intro k hk
  rcases List.mem_append.1 hk with h | h
  · exact h1 k h
  · exact h2 k h

theorem allContract_modeProps (P : Store → Prop) (obj : Option IView) (hobj : ∀ o, obj = some o → o.WF)
    (best : Option Int) : AllContract (modeProps obj best) P := by
  intro k hk
  unfold modeProps at hk
  split at hk
  · rename_i o m
    simp at hk; subst hk
    exact pkContract_leq P _ _ (hobj o rfl) trivial
  · cases hk

end Selen

namespace Selen

/-! ### nodes and leaves of the search tree -/

/-- a stalled search node: a store at the fixpoint of its propagators -/
structure Node (n : Nat) (P : Store → Prop) (ps : List PK) (st : Store) : Prop where
  hc : AllContract ps P
  hp : P st
  ne : NonEmpty st
  tail : Tail n st
  stable : ∀ p, p < ps.length → Stable (ps.getD p .noop) st

/-- where a yielded assignment comes from: a fully assigned store inside `st` at the fixpoint of
an extension `psL` of the node's propagators -/
def Leaf (n : Nat) (P : Store → Prop) (ps : List PK) (st : Store) (v : List Int) : Prop :=
  ∃ (psL : List PK) (stL : Store), ps <+: psL ∧ AllContract psL P ∧ P stL ∧
    (∀ i, (stL i).Sublist (st i)) ∧ NonEmpty stL ∧ AllFixed stL ∧
    (∀ p, p < psL.length → Stable (psL.getD p .noop) stL) ∧ v = solOf n stL

theorem Leaf.weaken {n P ps ps' st st' v} (h : Leaf n P ps' st' v) (hp : ps <+: ps')
    (hs : ∀ i, (st' i).Sublist (st i)) : Leaf n P ps st v := by
  obtain ⟨psL, stL, a, b, c, d, e, f, g, i⟩ := h
  exact ⟨psL, stL, hp.trans a, b, c, fun j => (d j).trans (hs j), e, f, g, i⟩

/-- every constraint of the node holds at a leaf below it -/
theorem Leaf.holds {n P ps st v} (h : Leaf n P ps st v) :
    ∃ stL, v = solOf n stL ∧ AllFixed stL ∧ (∀ i, (stL i).Sublist (st i)) ∧ NonEmpty stL ∧
      ∀ k ∈ ps, PK.holds (asgOf stL) k = true := by
  obtain ⟨psL, stL, hpre, hc, hp, hsub, hne, hfix, hst, hv⟩ := h
  refine ⟨stL, hv, hfix, hsub, hne, ?_⟩
  intro k hk
  have hk' : k ∈ psL := hpre.subset hk
  obtain ⟨p, hp', rfl⟩ := List.getElem_of_mem hk'
  have hs := hst p hp'
  rw [getD_lt _ _ _ hp'] at hs
  exact stable_checked _ P (hc _ hk') stL _ hp hs (allFixed_fixedOn hfix _) (allFixed_mem hfix)

theorem modeProps_length (obj : Option IView) (best : Option Int) : (modeProps obj best).length ≤ 1 := by
  unfold modeProps; split <;> simp

theorem getD_append_left {α} (l1 l2 : List α) (d : α) (p : Nat) (h : p < l1.length) :
    (l1 ++ l2).getD p d = l1.getD p d := by
  rw [getD_lt _ _ _ (by rw [List.length_append]; omega), getD_lt _ _ _ h, List.getElem_append_left h]

/-- the agenda of a branch covers the new propagators, the old ones are stable -/
theorem branch_agendaInv {n P ps st} (hn : Node n P ps st) (bp : PK) (mp : List PK) (hmp : mp.length ≤ 1) :
    AgendaInv (ps ++ [bp] ++ mp) ((if mp.isEmpty then [] else [ps.length + 1]) ++ [ps.length]) st := by
  intro p hp hnot
  have hlen : (ps ++ [bp] ++ mp).length = ps.length + 1 + mp.length := by
    simp only [List.length_append, List.length_cons, List.length_nil]
  have hlt : p < ps.length := by
    apply Classical.byContradiction
    intro hge
    apply hnot
    by_cases h1 : p = ps.length
    · subst h1; simp
    · have : p = ps.length + 1 := by omega
      have hm : mp ≠ [] := by
        intro h; subst h
        simp only [List.length_nil] at hlen; omega
      have : mp.isEmpty = false := by cases mp <;> simp_all
      simp [this]; omega
  rw [List.append_assoc, getD_append_left _ _ _ _ hlt]
  exact hn.stable p hlt

/-! ### soundness: yielded assignments are leaves -/

theorem search_leaf (n : Nat) (obj : Option IView) (pol : Policy) (P : Store → Prop) (hP : Closed P)
    (hobj : ∀ o, obj = some o → o.WF) :
    ∀ (fuel : Nat),
      (∀ ps st best v, Node n P ps st → Ev.sol v ∈ (explore n obj pol fuel ps st best).evs → Leaf n P ps st v) ∧
      (∀ ps st best bp v, Node n P ps st → PKContract bp P →
         Ev.sol v ∈ (branchStep n obj pol fuel ps st best bp).evs →
         Leaf n P (ps ++ [bp] ++ modeProps obj best) st v) := by
  intro fuel
  induction fuel with
  | zero =>
    constructor
    · intro ps st best v _ h; rw [explore_zero] at h; cases h
    · intro ps st best bp v _ _ h; rw [branchStep_zero] at h; cases h
  | succ f ih =>
    obtain ⟨ihE, ihB⟩ := ih
    have hB : ∀ ps st best bp v, Node n P ps st → PKContract bp P →
        Ev.sol v ∈ (branchStep n obj pol (f+1) ps st best bp).evs →
        Leaf n P (ps ++ [bp] ++ modeProps obj best) st v := by
      intro ps st best bp v hn hbp h
      rw [branchStep_succ] at h
      have hcB : AllContract (ps ++ [bp] ++ modeProps obj best) P :=
        allContract_append (allContract_append hn.hc (fun k hk => by simp at hk; subst hk; exact hbp))
          (allContract_modeProps P obj hobj best)
      have hinv := branch_agendaInv hn bp (modeProps obj best) (modeProps_length obj best)
      cases hpr : propagate (ps ++ [bp] ++ modeProps obj best) pol (f+1)
          ((if (modeProps obj best).isEmpty then [] else [ps.length + 1]) ++ [ps.length]) st with
      | fail => rw [hpr] at h; cases h
      | fuel => rw [hpr] at h; cases h
      | ok st' =>
        rw [hpr] at h
        simp only at h
        have hfix := propagate_fixpoint _ pol P hcB _ _ _ _ hinv hpr
        obtain ⟨hsub, hne⟩ := propagate_shrinks _ pol P hcB _ _ _ _ hpr
        have hp' := propagate_inv _ pol P hP hcB _ _ _ _ hn.hp hpr
        have htail := tail_of_sub hn.tail hsub (hne hn.ne)
        cases hfu : firstUnassigned n st' with
        | none =>
          rw [hfu] at h
          simp only [List.mem_singleton, Ev.sol.injEq] at h
          exact ⟨_, st', List.prefix_refl _, hcB, hp', hsub, hne hn.ne, firstUnassigned_none hfu htail, hfix, h⟩
        | some pv =>
          rw [hfu] at h
          simp only [List.mem_append, List.mem_singleton] at h
          rcases h with (h | h) | h
          · cases h
          · have hn' : Node n P (ps ++ [bp] ++ modeProps obj best) st' := ⟨hcB, hp', hne hn.ne, htail, hfix⟩
            exact (ihE _ _ _ _ hn' h).weaken (List.prefix_refl _) hsub
          · cases h
    refine ⟨?_, hB⟩
    intro ps st best v hn h
    rw [explore_succ] at h
    cases hfu : firstUnassigned n st with
    | none => rw [hfu] at h; cases h
    | some pivot =>
      rw [hfu] at h
      simp only [List.mem_append] at h
      rcases h with h | h
      · exact (ihB _ _ _ _ _ hn (pkContract_leq P (.var pivot) (.const _) trivial trivial) h).weaken
          (by rw [List.append_assoc]; exact List.prefix_append _ _) (fun _ => List.Sublist.refl _)
      · exact (ihB _ _ _ _ _ hn (pkContract_leq P (.next (.const _)) (.var pivot) trivial trivial) h).weaken
          (by rw [List.append_assoc]; exact List.prefix_append _ _) (fun _ => List.Sublist.refl _)

end Selen

namespace Selen

/-! ### objective values of the yielded assignments -/

def evsSols (evs : List Ev) : List (List Int) :=
  evs.filterMap (fun e => match e with | .sol v => some v | _ => none)

theorem evsSols_append (a b : List Ev) : evsSols (a ++ b) = evsSols a ++ evsSols b := by
  simp [evsSols, List.filterMap_append]

theorem mem_evsSols (evs : List Ev) (v : List Int) : v ∈ evsSols evs ↔ Ev.sol v ∈ evs := by
  unfold evsSols
  rw [List.mem_filterMap]
  constructor
  · rintro ⟨e, he, h⟩
    cases e with
    | sol w => simp at h; subst h; exact he
    | push => simp at h
    | pop => simp at h
  · intro h; exact ⟨_, h, rfl⟩

/-- objective value of a yielded assignment -/
def evalL (o : IView) (v : List Int) : Int := o.eval (fun i => v.getD i 0)

def objVals (obj : Option IView) (evs : List Ev) : List Int :=
  match obj with
  | none => []
  | some o => (evsSols evs).map (evalL o)

theorem objVals_append (obj : Option IView) (a b : List Ev) :
    objVals obj (a ++ b) = objVals obj a ++ objVals obj b := by
  cases obj <;> simp [objVals, evsSols_append]

/-- `Decr b xs b'`: starting from incumbent `b`, the values `xs` strictly improve one after the
other and `b'` is the final incumbent -/
inductive Decr : Option Int → List Int → Option Int → Prop
  | nil (b : Option Int) : Decr b [] b
  | cons (b : Option Int) (x : Int) (xs : List Int) (b' : Option Int) :
      (∀ m, b = some m → x < m) → Decr (some x) xs b' → Decr b (x :: xs) b'

theorem Decr.append {b1 b2 b3 : Option Int} {xs ys : List Int} (h1 : Decr b1 xs b2) (h2 : Decr b2 ys b3) :
    Decr b1 (xs ++ ys) b3 := by
  induction h1 with
  | nil b => exact h2
  | cons b x xs b' hx _ ih => exact Decr.cons b x (xs ++ ys) b3 hx (ih h2)

/-- the incumbent never gets worse and never disappears -/
theorem Decr.mono {b b' : Option Int} {xs : List Int} (h : Decr b xs b') (m : Int) (hb : b = some m) :
    ∃ m', b' = some m' ∧ m' ≤ m := by
  induction h generalizing m with
  | nil b => exact ⟨m, hb, Int.le_refl _⟩
  | cons b x xs b' hx _ ih =>
    obtain ⟨m', e, h⟩ := ih x rfl
    exact ⟨m', e, by have := hx m hb; omega⟩

/-- every value is at least the final incumbent -/
theorem Decr.lower {b b' : Option Int} {xs : List Int} (h : Decr b xs b') :
    ∀ x ∈ xs, ∃ m', b' = some m' ∧ m' ≤ x := by
  induction h with
  | nil b => intro x hx; cases hx
  | cons b x xs b' hx hd ih =>
    intro y hy
    rcases List.mem_cons.1 hy with rfl | hy
    · exact hd.mono y rfl
    · exact ih y hy

/-- the final incumbent is the initial one (nothing yielded) or the last yielded value -/
theorem Decr.last {b b' : Option Int} {xs : List Int} (h : Decr b xs b') :
    (xs = [] ∧ b' = b) ∨ (∃ x, xs.getLast? = some x ∧ b' = some x) := by
  induction h with
  | nil b => exact Or.inl ⟨rfl, rfl⟩
  | cons b x xs b' hx hd ih =>
    right
    rcases ih with ⟨rfl, e⟩ | ⟨y, hy, e⟩
    · exact ⟨x, rfl, e⟩
    · refine ⟨y, ?_, e⟩
      cases xs with
      | nil => simp at hy
      | cons z zs => rw [List.getLast?_cons_cons]; exact hy

/-- strictly decreasing -/
theorem Decr.pairwise {b b' : Option Int} {xs : List Int} (h : Decr b xs b') : xs.Pairwise (· > ·) := by
  induction h with
  | nil b => exact List.Pairwise.nil
  | cons b x xs b' hx hd ih =>
    refine List.Pairwise.cons ?_ ih
    intro y hy
    -- y is at most the incumbent after x, which is < ... ; use that all later values are < x
    clear hx
    have key : ∀ (c : Option Int) (ys : List Int) (c' : Option Int), Decr c ys c' → ∀ m, c = some m → ∀ y ∈ ys, y < m := by
      intro c ys c' hd
      induction hd with
      | nil c => intro m _ y hy; cases hy
      | cons c z zs c' hz _ ih2 =>
        intro m hc y hy
        rcases List.mem_cons.1 hy with rfl | hy
        · exact hz m hc
        · have := ih2 z rfl y hy; have := hz m hc; omega
    exact key _ _ _ hd x rfl y hy

/-! ### objective of a leaf -/

theorem IView.eval_congr (o : IView) (a b : Asg) (h : ∀ i, o.underlying = some i → a i = b i) :
    o.eval a = o.eval b := by
  induction o with
  | const c => rfl
  | var j => simp only [IView.eval]; exact h j rfl
  | opp v ih => simp only [IView.eval]; rw [ih h]
  | plus v k ih => simp only [IView.eval]; rw [ih h]
  | tpos v k ih => simp only [IView.eval]; rw [ih h]
  | next v ih => simp only [IView.eval]; rw [ih h]
  | prev v ih => simp only [IView.eval]; rw [ih h]

theorem solOf_getD (n : Nat) (st : Store) (i : Nat) (hi : i < n) : (solOf n st).getD i 0 = asgOf st i := by
  unfold solOf asgOf
  rw [getD_lt _ _ _ (by simpa using hi)]
  simp

theorem evalL_solOf (n : Nat) (o : IView) (st : Store) (ho : ∀ i, o.underlying = some i → i < n) :
    evalL o (solOf n st) = o.eval (asgOf st) := by
  unfold evalL
  exact IView.eval_congr o _ _ (fun i hi => solOf_getD n st i (ho i hi))

theorem minRaw_fixed (o : IView) (st : Store) (hf : AllFixed st) : o.minRaw st = o.eval (asgOf st) :=
  (o.bounds_fixed (allFixed_mem hf) (fun i _ => hf i)).1

end Selen

namespace Selen

/-- the child node reached by a successful branch propagation -/
theorem branch_node {n P ps st} (hP : Closed P) (obj : Option IView) (hobj : ∀ o, obj = some o → o.WF)
    (pol : Policy) (fuel : Nat) (best : Option Int) (bp : PK) (st' : Store)
    (hn : Node n P ps st) (hbp : PKContract bp P)
    (hpr : propagate (ps ++ [bp] ++ modeProps obj best) pol fuel
            ((if (modeProps obj best).isEmpty then [] else [ps.length + 1]) ++ [ps.length]) st = .ok st') :
    Node n P (ps ++ [bp] ++ modeProps obj best) st' ∧ (∀ i, (st' i).Sublist (st i)) := by
  have hcB : AllContract (ps ++ [bp] ++ modeProps obj best) P :=
    allContract_append (allContract_append hn.hc (fun k hk => by simp at hk; subst hk; exact hbp))
      (allContract_modeProps P obj hobj best)
  have hinv := branch_agendaInv hn bp (modeProps obj best) (modeProps_length obj best)
  have hfix := propagate_fixpoint _ pol P hcB _ _ _ _ hinv hpr
  obtain ⟨hsub, hne⟩ := propagate_shrinks _ pol P hcB _ _ _ _ hpr
  have hp' := propagate_inv _ pol P hP hcB _ _ _ _ hn.hp hpr
  exact ⟨⟨hcB, hp', hne hn.ne, tail_of_sub hn.tail hsub (hne hn.ne), hfix⟩, hsub⟩

/-- at a fully assigned node every constraint holds -/
theorem node_holds {n P ps st} (hn : Node n P ps st) (hf : AllFixed st) :
    ∀ k ∈ ps, PK.holds (asgOf st) k = true := by
  intro k hk
  obtain ⟨p, hp', rfl⟩ := List.getElem_of_mem hk
  have hs := hn.stable p hp'
  rw [getD_lt _ _ _ hp'] at hs
  exact stable_checked _ P (hn.hc _ hk) st _ hn.hp hs (allFixed_fixedOn hf _) (allFixed_mem hf)

/-! ### branch and bound: the yielded objective values strictly improve -/

theorem search_decr (n : Nat) (obj : Option IView) (pol : Policy) (P : Store → Prop) (hP : Closed P)
    (hobj : ∀ o, obj = some o → o.WF) (hon : ∀ o, obj = some o → ∀ i, o.underlying = some i → i < n) :
    ∀ (fuel : Nat),
      (∀ ps st best, Node n P ps st →
        Decr best (objVals obj (explore n obj pol fuel ps st best).evs) (explore n obj pol fuel ps st best).best) ∧
      (∀ ps st best bp, Node n P ps st → PKContract bp P →
        Decr best (objVals obj (branchStep n obj pol fuel ps st best bp).evs)
          (branchStep n obj pol fuel ps st best bp).best) := by
  have hnil : ∀ b, Decr b (objVals obj []) b := by
    intro b; cases obj <;> exact Decr.nil b
  intro fuel
  induction fuel with
  | zero =>
    constructor
    · intro ps st best _; rw [explore_zero]; exact hnil best
    · intro ps st best bp _ _; rw [branchStep_zero]; exact hnil best
  | succ f ih =>
    obtain ⟨ihE, ihB⟩ := ih
    have hB : ∀ ps st best bp, Node n P ps st → PKContract bp P →
        Decr best (objVals obj (branchStep n obj pol (f+1) ps st best bp).evs)
          (branchStep n obj pol (f+1) ps st best bp).best := by
      intro ps st best bp hn hbp
      rw [branchStep_succ]
      cases hpr : propagate (ps ++ [bp] ++ modeProps obj best) pol (f+1)
          ((if (modeProps obj best).isEmpty then [] else [ps.length + 1]) ++ [ps.length]) st with
      | fail => exact hnil best
      | fuel => exact hnil best
      | ok st' =>
        simp only
        obtain ⟨hn', hsub⟩ := branch_node hP obj hobj pol _ best bp st' hn hbp hpr
        cases hfu : firstUnassigned n st' with
        | none =>
          simp only
          have hf := firstUnassigned_none hfu hn'.tail
          cases obj with
          | none => exact Decr.nil best
          | some o =>
            simp only [objVals, evsSols, List.filterMap_cons, List.filterMap_nil, List.map_cons, List.map_nil]
            rw [evalL_solOf n o st' (hon o rfl), ← minRaw_fixed o st' hf]
            refine Decr.cons best _ [] _ ?_ (Decr.nil _)
            intro m hb
            subst hb
            have hk := node_holds hn' hf (.leq (.next o) (.const m)) (by simp [modeProps])
            have hk' : o.eval (asgOf st') + 1 ≤ m := of_decide_eq_true hk
            rw [minRaw_fixed o st' hf]; omega
        | some pv =>
          simp only
          rw [objVals_append, objVals_append]
          have h1 : objVals obj [Ev.pop] = [] := by cases obj <;> simp [objVals, evsSols]
          have h2 : objVals obj [Ev.push] = [] := by cases obj <;> simp [objVals, evsSols]
          rw [h1, h2, List.append_nil, List.nil_append]
          exact ihE _ _ _ hn'
    refine ⟨?_, hB⟩
    intro ps st best hn
    rw [explore_succ]
    cases hfu : firstUnassigned n st with
    | none => exact hnil best
    | some pivot =>
      simp only
      rw [objVals_append]
      exact (ihB _ _ _ _ hn (pkContract_leq P (.var pivot) (.const _) trivial trivial)).append
        (ihB _ _ _ _ hn (pkContract_leq P (.next (.const _)) (.var pivot) trivial trivial))

end Selen

namespace Selen

/-! ### completeness -/

/-- the values of the first `n` variables under `a` -/
def proj (n : Nat) (a : Asg) : List Int := (List.range n).map a

theorem solOf_eq_proj {n : Nat} {st : Store} {a : Asg} (hf : AllFixed st) (hm : Mem st a) :
    solOf n st = proj n a := by
  unfold solOf proj
  apply List.map_congr_left
  intro i _
  exact (allFixed_unique hf hm i).symm

/-- one step of a branch: what a solution that satisfies the branch constraint gets -/
def Found (n : Nat) (obj : Option IView) (a : Asg) (o : Out) : Prop :=
  Ev.sol (proj n a) ∈ o.evs ∨ ∃ ob m, obj = some ob ∧ o.best = some m ∧ m ≤ ob.eval a

theorem search_complete (n : Nat) (obj : Option IView) (pol : Policy) (P : Store → Prop) (hP : Closed P)
    (hobj : ∀ o, obj = some o → o.WF) (hon : ∀ o, obj = some o → ∀ i, o.underlying = some i → i < n)
    (a : Asg) :
    ∀ (fuel : Nat),
      (∀ ps st best, Node n P ps st → (firstUnassigned n st).isSome → Mem st a →
        (∀ k ∈ ps, PK.holds a k = true) → (explore n obj pol fuel ps st best).outOfFuel = false →
        Found n obj a (explore n obj pol fuel ps st best)) ∧
      (∀ ps st best bp, Node n P ps st → PKContract bp P → Mem st a →
        (∀ k ∈ ps, PK.holds a k = true) → PK.holds a bp = true →
        (branchStep n obj pol fuel ps st best bp).outOfFuel = false →
        Found n obj a (branchStep n obj pol fuel ps st best bp)) := by
  intro fuel
  induction fuel with
  | zero =>
    constructor
    · intro ps st best _ _ _ _ h; rw [explore_zero] at h; cases h
    · intro ps st best bp _ _ _ _ _ h; rw [branchStep_zero] at h; cases h
  | succ f ih =>
    obtain ⟨ihE, ihB⟩ := ih
    have hB : ∀ ps st best bp, Node n P ps st → PKContract bp P → Mem st a →
        (∀ k ∈ ps, PK.holds a k = true) → PK.holds a bp = true →
        (branchStep n obj pol (f+1) ps st best bp).outOfFuel = false →
        Found n obj a (branchStep n obj pol (f+1) ps st best bp) := by
      intro ps st best bp hn hbp hm hps hbpa hfuel
      by_cases hcut : ∀ k ∈ modeProps obj best, PK.holds a k = true
      · -- `a` passes the objective cut: it survives propagation
        have hall : ∀ k ∈ ps ++ [bp] ++ modeProps obj best, PK.holds a k = true := by
          intro k hk
          simp only [List.mem_append, List.mem_singleton] at hk
          rcases hk with (hk | hk) | hk
          · exact hps k hk
          · subst hk; exact hbpa
          · exact hcut k hk
        have hcB : AllContract (ps ++ [bp] ++ modeProps obj best) P :=
          allContract_append (allContract_append hn.hc (fun k hk => by simp at hk; subst hk; exact hbp))
            (allContract_modeProps P obj hobj best)
        have hs := propagate_sound _ pol P hP hcB a hall (f+1)
          ((if (modeProps obj best).isEmpty then [] else [ps.length + 1]) ++ [ps.length]) st hn.hp hm
        rw [branchStep_succ] at hfuel ⊢
        cases hpr : propagate (ps ++ [bp] ++ modeProps obj best) pol (f+1)
            ((if (modeProps obj best).isEmpty then [] else [ps.length + 1]) ++ [ps.length]) st with
        | fail => rw [hpr] at hs; exact hs.elim
        | fuel => rw [hpr] at hfuel; cases hfuel
        | ok st' =>
          rw [hpr] at hs hfuel
          simp only at hs hfuel ⊢
          obtain ⟨hn', hsub⟩ := branch_node hP obj hobj pol _ best bp st' hn hbp hpr
          cases hfu : firstUnassigned n st' with
          | none =>
            simp only
            left
            rw [solOf_eq_proj (firstUnassigned_none hfu hn'.tail) hs.1]
            exact List.mem_singleton.2 rfl
          | some pv =>
            rw [hfu] at hfuel
            simp only at hfuel ⊢
            have := ihE _ _ best hn' (by rw [hfu]; rfl) hs.1 hall hfuel
            rcases this with h | h
            · left; exact List.mem_append.2 (Or.inl (List.mem_append.2 (Or.inr h)))
            · right; exact h
      · -- `a` is cut off: the incumbent is already at least as good
        right
        have hd := (search_decr n obj pol P hP hobj hon (f+1)).2 ps st best bp hn hbp
        unfold modeProps at hcut
        cases obj with
        | none => simp at hcut
        | some o =>
          cases best with
          | none => simp at hcut
          | some b =>
            simp only [List.mem_singleton, forall_eq] at hcut
            have hlt : ¬ (o.eval a + 1 ≤ b) := by
              intro h; apply hcut
              show decide (o.eval a + 1 ≤ b) = true
              exact decide_eq_true h
            obtain ⟨m', e, hle⟩ := hd.mono b rfl
            exact ⟨o, m', rfl, e, by omega⟩
    refine ⟨?_, hB⟩
    intro ps st best hn hsome hm hps hfuel
    rw [explore_succ] at hfuel ⊢
    cases hfu : firstUnassigned n st with
    | none => rw [hfu] at hsome; cases hsome
    | some pivot =>
      rw [hfu] at hfuel
      simp only [Bool.or_eq_false_iff] at hfuel ⊢
      by_cases hside : a pivot ≤ splitMid (st pivot)
      · have := ihB ps st best (.leq (.var pivot) (.const (splitMid (st pivot)))) hn
          (pkContract_leq P _ _ trivial trivial) hm hps (decide_eq_true hside) hfuel.1
        rcases this with h | ⟨o, m, ho, hb, hle⟩
        · left; exact List.mem_append.2 (Or.inl h)
        · right
          have hd := (search_decr n obj pol P hP hobj hon f).2 ps st
            (branchStep n obj pol f ps st best (.leq (.var pivot) (.const (splitMid (st pivot))))).best
            (.leq (.next (.const (splitMid (st pivot)))) (.var pivot)) hn (pkContract_leq P _ _ trivial trivial)
          obtain ⟨m', e, hle'⟩ := hd.mono m hb
          exact ⟨o, m', ho, e, by omega⟩
      · have := ihB ps st
          (branchStep n obj pol f ps st best (.leq (.var pivot) (.const (splitMid (st pivot))))).best
          (.leq (.next (.const (splitMid (st pivot)))) (.var pivot)) hn
          (pkContract_leq P _ _ trivial trivial) hm hps
          (decide_eq_true (show splitMid (st pivot) + 1 ≤ a pivot by omega)) hfuel.2
        rcases this with h | h
        · left; exact List.mem_append.2 (Or.inr h)
        · right; exact h

end Selen

namespace Selen

/-! ### no assignment is yielded twice -/

theorem search_nodup (n : Nat) (obj : Option IView) (pol : Policy) (P : Store → Prop) (hP : Closed P)
    (hobj : ∀ o, obj = some o → o.WF) :
    ∀ (fuel : Nat),
      (∀ ps st best, Node n P ps st → (evsSols (explore n obj pol fuel ps st best).evs).Nodup) ∧
      (∀ ps st best bp, Node n P ps st → PKContract bp P →
        (evsSols (branchStep n obj pol fuel ps st best bp).evs).Nodup) := by
  intro fuel
  induction fuel with
  | zero =>
    constructor
    · intro ps st best _; rw [explore_zero]; exact List.nodup_nil
    · intro ps st best bp _ _; rw [branchStep_zero]; exact List.nodup_nil
  | succ f ih =>
    obtain ⟨ihE, ihB⟩ := ih
    have hB : ∀ ps st best bp, Node n P ps st → PKContract bp P →
        (evsSols (branchStep n obj pol (f+1) ps st best bp).evs).Nodup := by
      intro ps st best bp hn hbp
      rw [branchStep_succ]
      cases hpr : propagate (ps ++ [bp] ++ modeProps obj best) pol (f+1)
          ((if (modeProps obj best).isEmpty then [] else [ps.length + 1]) ++ [ps.length]) st with
      | fail => exact List.nodup_nil
      | fuel => exact List.nodup_nil
      | ok st' =>
        simp only
        obtain ⟨hn', _⟩ := branch_node hP obj hobj pol _ best bp st' hn hbp hpr
        cases hfu : firstUnassigned n st' with
        | none => simp [evsSols]
        | some pv =>
          simp only
          rw [evsSols_append, evsSols_append]
          have h1 : evsSols [Ev.pop] = [] := rfl
          have h2 : evsSols [Ev.push] = [] := rfl
          rw [h1, h2, List.append_nil, List.nil_append]
          exact ihE _ _ _ hn'
    refine ⟨?_, hB⟩
    intro ps st best hn
    rw [explore_succ]
    cases hfu : firstUnassigned n st with
    | none => exact List.nodup_nil
    | some pivot =>
      simp only
      rw [evsSols_append, List.nodup_append]
      refine ⟨ihB _ _ _ _ hn (pkContract_leq P _ _ trivial trivial),
              ihB _ _ _ _ hn (pkContract_leq P _ _ trivial trivial), ?_⟩
      intro v hv w hw hvw
      subst hvw
      have hpn := (firstUnassigned_some hfu).1
      -- left leaves satisfy `pivot ≤ mid`, right leaves `mid + 1 ≤ pivot`
      have hl := ((search_leaf n obj pol P hP hobj f).2 _ _ _ _ v hn
        (pkContract_leq P (.var pivot) (.const (splitMid (st pivot))) trivial trivial)
        ((mem_evsSols _ _).1 hv)).holds
      have hr := ((search_leaf n obj pol P hP hobj f).2 _ _ _ _ v hn
        (pkContract_leq P (.next (.const (splitMid (st pivot)))) (.var pivot) trivial trivial)
        ((mem_evsSols _ _).1 hw)).holds
      obtain ⟨s1, e1, _, _, _, h1⟩ := hl
      obtain ⟨s2, e2, _, _, _, h2⟩ := hr
      have k1 := h1 (.leq (.var pivot) (.const (splitMid (st pivot)))) (by simp)
      have k2 := h2 (.leq (.next (.const (splitMid (st pivot)))) (.var pivot)) (by simp)
      have k1' : asgOf s1 pivot ≤ splitMid (st pivot) := of_decide_eq_true k1
      have k2' : splitMid (st pivot) + 1 ≤ asgOf s2 pivot := of_decide_eq_true k2
      have g1 : v.getD pivot 0 = asgOf s1 pivot := by rw [e1]; exact solOf_getD n s1 pivot hpn
      have g2 : v.getD pivot 0 = asgOf s2 pivot := by rw [e2]; exact solOf_getD n s2 pivot hpn
      omega

end Selen

/-
Framing lemmas for the float core, valid for EVERY instance of `Num` (no arithmetic is used, so they
hold for the IEEE `Float` instance exactly as for `Rat`): a successful bound update either does
nothing or replaces one variable by a variable of the same kind (an integer domain by a sub-list,
a float interval by one with the same step) and appends exactly one event; views and propagators
compose such updates.
-/
import SelenModel.Model.FloatCore

namespace Selen
open Num
variable {α : Type} [Num α]
set_option linter.unusedSectionVars false

/-- variable `v'` refines `v`: same kind, integer values form a sub-list, float step unchanged -/
def KindSub : FVar α → FVar α → Prop
  | .int d, .int d' => ∀ z ∈ d', z ∈ d
  | .flt iv, .flt iv' => iv'.step = iv.step
  | _, _ => False

theorem KindSub.refl (v : FVar α) : KindSub v v := by
  cases v <;> simp [KindSub]

theorem KindSub.trans {u v w : FVar α} (h1 : KindSub u v) (h2 : KindSub v w) : KindSub u w := by
  cases u <;> cases v <;> cases w <;> simp_all [KindSub]

/-- store refinement together with "events are only appended" -/
def Rel (c c' : FCtx α) : Prop :=
  (∀ j, KindSub (c.st j) (c'.st j)) ∧ c.ev.length ≤ c'.ev.length

theorem Rel.refl (c : FCtx α) : Rel c c := ⟨fun _ => KindSub.refl _, Nat.le_refl _⟩

theorem Rel.trans {a b c : FCtx α} (h1 : Rel a b) (h2 : Rel b c) : Rel a c :=
  ⟨fun j => KindSub.trans (h1.1 j) (h2.1 j), Nat.le_trans h1.2 h2.2⟩

/-- shape of a successful bound update on variable `i` -/
def Upd (c c' : FCtx α) (i : Nat) : Prop :=
  c' = c ∨ (c'.ev = c.ev ++ [i] ∧ ∃ v', c'.st = updF c.st i v' ∧ KindSub (c.st i) v')

theorem Upd.rel {c c' : FCtx α} {i : Nat} (h : Upd c c' i) : Rel c c' := by
  rcases h with rfl | ⟨he, v', hs, hk⟩
  · exact Rel.refl _
  · refine ⟨fun j => ?_, by simp [he]⟩
    rw [hs]
    by_cases hj : j = i
    · subst hj; simp [updF]; exact hk
    · simp [updF, hj]; exact KindSub.refl _

/-- an update that produced no event changed nothing -/
theorem Upd.eq_of_ev {c c' : FCtx α} {i : Nat} (h : Upd c c' i) (hl : c'.ev.length ≤ c.ev.length) : c' = c := by
  rcases h with rfl | ⟨he, _⟩
  · rfl
  · rw [he] at hl; simp at hl; omega

namespace FCtx

theorem intSetMin_upd (c c' : FCtx α) (i : Nat) (d : List Int) (m : Int) (r : FVal α)
    (hd : c.st i = .int d) (h : c.intSetMin i d m = some (c', r)) : Upd c c' i := by
  simp only [FCtx.intSetMin] at h
  repeat' (split at h)
  all_goals (cases h)
  all_goals first
    | exact Or.inl rfl
    | exact Or.inr ⟨rfl, _, rfl, by rw [hd]; exact fun z hz => (List.mem_filter.mp hz).1⟩

theorem intSetMax_upd (c c' : FCtx α) (i : Nat) (d : List Int) (m : Int) (r : FVal α)
    (hd : c.st i = .int d) (h : c.intSetMax i d m = some (c', r)) : Upd c c' i := by
  simp only [FCtx.intSetMax] at h
  repeat' (split at h)
  all_goals (cases h)
  all_goals first
    | exact Or.inl rfl
    | exact Or.inr ⟨rfl, _, rfl, by rw [hd]; exact fun z hz => (List.mem_filter.mp hz).1⟩

theorem fltSetMin_upd (c c' : FCtx α) (i : Nat) (iv : FI α) (m : α) (r : FVal α)
    (hd : c.st i = .flt iv) (h : c.fltSetMin i iv m = some (c', r)) : Upd c c' i := by
  simp only [FCtx.fltSetMin] at h
  repeat' (split at h)
  all_goals (cases h)
  all_goals first
    | exact Or.inl rfl
    | exact Or.inr ⟨rfl, _, rfl, by rw [hd]; simp [KindSub]⟩

theorem fltSetMax_upd (c c' : FCtx α) (i : Nat) (iv : FI α) (m : α) (r : FVal α)
    (hd : c.st i = .flt iv) (h : c.fltSetMax i iv m = some (c', r)) : Upd c c' i := by
  simp only [FCtx.fltSetMax] at h
  repeat' (split at h)
  all_goals (cases h)
  all_goals first
    | exact Or.inl rfl
    | exact Or.inr ⟨rfl, _, rfl, by rw [hd]; simp [KindSub]⟩

theorem fltSetMinI_upd (c c' : FCtx α) (i : Nat) (iv : FI α) (m : Int) (r : FVal α)
    (hd : c.st i = .flt iv) (h : c.fltSetMinI i iv m = some (c', r)) : Upd c c' i := by
  simp only [FCtx.fltSetMinI] at h
  repeat' (split at h)
  all_goals (cases h)
  all_goals first
    | exact Or.inl rfl
    | exact Or.inr ⟨rfl, _, rfl, by rw [hd]; simp [KindSub]⟩

theorem fltSetMaxI_upd (c c' : FCtx α) (i : Nat) (iv : FI α) (m : Int) (r : FVal α)
    (hd : c.st i = .flt iv) (h : c.fltSetMaxI i iv m = some (c', r)) : Upd c c' i := by
  simp only [FCtx.fltSetMaxI] at h
  repeat' (split at h)
  all_goals (cases h)
  all_goals first
    | exact Or.inl rfl
    | exact Or.inr ⟨rfl, _, rfl, by rw [hd]; simp [KindSub]⟩

theorem trySetMin_upd (c c' : FCtx α) (i : Nat) (m r : FVal α) (h : c.trySetMin i m = some (c', r)) : Upd c c' i := by
  unfold FCtx.trySetMin at h
  split at h
  · exact intSetMin_upd c c' i _ _ r (by assumption) h
  · exact fltSetMin_upd c c' i _ _ r (by assumption) h
  · exact intSetMin_upd c c' i _ _ r (by assumption) h
  · exact fltSetMinI_upd c c' i _ _ r (by assumption) h

theorem trySetMax_upd (c c' : FCtx α) (i : Nat) (m r : FVal α) (h : c.trySetMax i m = some (c', r)) : Upd c c' i := by
  unfold FCtx.trySetMax at h
  split at h
  · exact intSetMax_upd c c' i _ _ r (by assumption) h
  · exact fltSetMax_upd c c' i _ _ r (by assumption) h
  · exact intSetMax_upd c c' i _ _ r (by assumption) h
  · exact fltSetMaxI_upd c c' i _ _ r (by assumption) h

end FCtx

/-! ### views -/

theorem FView.trySet_rel (v : FView α) :
    (∀ (m : FVal α) (c c' : FCtx α) (r : FVal α), v.trySetMin m c = some (c', r) → Rel c c') ∧
    (∀ (m : FVal α) (c c' : FCtx α) (r : FVal α), v.trySetMax m c = some (c', r) → Rel c c') := by
  induction v with
  | const k =>
    constructor
    · intro m c c' r h; simp only [FView.trySetMin] at h; split at h <;> simp at h; rw [← h.1]; exact Rel.refl _
    · intro m c c' r h; simp only [FView.trySetMax] at h; split at h <;> simp at h; rw [← h.1]; exact Rel.refl _
  | var i =>
    constructor
    · intro m c c' r h; exact (FCtx.trySetMin_upd c c' i m r h).rel
    · intro m c c' r h; exact (FCtx.trySetMax_upd c c' i m r h).rel
  | opp v ih =>
    constructor
    · intro m c c' r h; simp only [FView.trySetMin] at h; exact ih.2 _ c c' r h
    · intro m c c' r h; simp only [FView.trySetMax] at h; exact ih.1 _ c c' r h
  | plus v k ih =>
    constructor
    · intro m c c' r h; simp only [FView.trySetMin] at h; exact ih.1 _ c c' r h
    · intro m c c' r h; simp only [FView.trySetMax] at h; exact ih.2 _ c c' r h
  | tpos v k ih =>
    constructor
    · intro m c c' r h; simp only [FView.trySetMin] at h; exact ih.1 _ c c' r h
    · intro m c c' r h; simp only [FView.trySetMax] at h; exact ih.2 _ c c' r h
  | next v ih =>
    constructor
    · intro m c c' r h; simp only [FView.trySetMin] at h; exact ih.1 _ c c' r h
    · intro m c c' r h; simp only [FView.trySetMax] at h; exact ih.2 _ c c' r h
  | prev v ih =>
    constructor
    · intro m c c' r h; simp only [FView.trySetMin] at h; exact ih.1 _ c c' r h
    · intro m c c' r h; simp only [FView.trySetMax] at h; exact ih.2 _ c c' r h

/-! ### propagators -/

namespace FPK

theorem setMin_upd (x : Nat) (m : FVal α) (c c' : FCtx α) (h : setMin x m c = some c') : Upd c c' x := by
  simp only [setMin, Option.map_eq_some_iff] at h
  obtain ⟨⟨c1, r⟩, h1, rfl⟩ := h
  exact FCtx.trySetMin_upd c c1 x m r h1

theorem setMax_upd (x : Nat) (m : FVal α) (c c' : FCtx α) (h : setMax x m c = some c') : Upd c c' x := by
  simp only [setMax, Option.map_eq_some_iff] at h
  obtain ⟨⟨c1, r⟩, h1, rfl⟩ := h
  exact FCtx.trySetMax_upd c c1 x m r h1

theorem forIdx_rel {β : Type} (f : Nat → β → FCtx α → Option (FCtx α))
    (hf : ∀ k b c c', f k b c = some c' → Rel c c') :
    ∀ (l : List β) (k : Nat) (c c' : FCtx α), forIdx f k l c = some c' → Rel c c' := by
  intro l
  induction l with
  | nil => intro k c c' h; simp [forIdx] at h; rw [h]; exact Rel.refl _
  | cons b bs ih =>
    intro k c c' h
    simp only [forIdx] at h
    split at h; · simp at h
    rename_i c1 h1
    exact Rel.trans (hf k b c c1 h1) (ih (k + 1) c1 c' h)

/-- if the loop produced no event, every iteration returned its input unchanged -/
theorem forIdx_fix {β : Type} (f : Nat → β → FCtx α → Option (FCtx α))
    (hf : ∀ k b c c', f k b c = some c' → Rel c c')
    (hu : ∀ k b c c', f k b c = some c' → c'.ev.length ≤ c.ev.length → c' = c) :
    ∀ (l : List β) (k : Nat) (c c' : FCtx α), forIdx f k l c = some c' → c'.ev.length ≤ c.ev.length →
      c' = c ∧ ∀ (j : Nat) (b : β), l[j]? = some b → f (k + j) b c = some c := by
  intro l
  induction l with
  | nil => intro k c c' h _; simp [forIdx] at h; exact ⟨h.symm, by simp⟩
  | cons b bs ih =>
    intro k c c' h hl
    simp only [forIdx] at h
    split at h; · simp at h
    rename_i c1 h1
    have r2 := forIdx_rel f hf bs (k + 1) c1 c' h
    have e1 : c1 = c := hu k b c c1 h1 (Nat.le_trans r2.2 hl)
    subst e1
    obtain ⟨e2, rest⟩ := ih (k + 1) c1 c' h hl
    refine ⟨e2, fun j b' hj => ?_⟩
    cases j with
    | zero => simp at hj; subst hj; simpa using h1
    | succ j =>
      have := rest j b' (by simpa using hj)
      rw [show k + (j + 1) = k + 1 + j by omega]; exact this

theorem linEqStep_rel (helper : Bool) (cs : List α) (xs : List Nat) (cst : α) (k : Nat) (b : α × Nat) (c c' : FCtx α)
    (h : linEqStep helper cs xs cst k b c = some c') : Rel c c' := by
  simp only [linEqStep] at h
  split at h; · simp at h; rw [h]; exact Rel.refl _
  split at h; · simp at h; rw [h]; exact Rel.refl _
  split at h; · simp at h; rw [h]; exact Rel.refl _
  split at h; · simp at h
  rename_i c1 h1
  exact Rel.trans (setMin_upd _ _ c c1 h1).rel (setMax_upd _ _ c1 c' h).rel

theorem linLeStep_upd (cs : List α) (xs : List Nat) (cst : α) (k : Nat) (b : α × Nat) (c c' : FCtx α)
    (h : linLeStep cs xs cst k b c = some c') : Upd c c' b.2 := by
  simp only [linLeStep] at h
  repeat' (split at h)
  all_goals first
    | exact setMax_upd _ _ c c' h
    | exact setMin_upd _ _ c c' h
    | (cases h; exact Or.inl rfl)

theorem linLeHelperStep_rel (cs : List α) (xs : List Nat) (cst : α) (k : Nat) (b : α × Nat) (c c' : FCtx α)
    (h : linLeHelperStep cs xs cst k b c = some c') : Rel c c' := by
  simp only [linLeHelperStep] at h
  split at h; · simp at h; rw [h]; exact Rel.refl _
  split at h; · simp at h; rw [h]; exact Rel.refl _
  split at h
  · exact (setMax_upd _ _ c c' h).rel
  · exact (setMin_upd _ _ c c' h).rel

theorem excludeValue_rel (x : Nat) (fv : FVal α) (c c' : FCtx α) (h : excludeValue x fv c = some c') : Rel c c' := by
  simp only [excludeValue] at h
  split at h; · simp at h; rw [h]; exact Rel.refl _
  split at h; · simp at h
  split at h; · exact (setMin_upd _ _ c c' h).rel
  split at h; · exact (setMax_upd _ _ c c' h).rel
  simp at h; rw [h]; exact Rel.refl _

theorem linNePrune_rel (cs : List α) (xs : List Nat) (cst : α) (c c' : FCtx α)
    (h : linNePrune cs xs cst c = some c') : Rel c c' := by
  simp only [linNePrune] at h
  split at h
  · simp at h; rw [h]; exact Rel.refl _
  · split at h <;> simp at h; rw [h]; exact Rel.refl _
  · split at h
    · split at h
      · split at h <;> simp at h; rw [h]; exact Rel.refl _
      · exact excludeValue_rel _ _ c c' h
    · simp at h; rw [h]; exact Rel.refl _

theorem fixReif_rel (b : Nat) (k : Int) (c c' : FCtx α) (h : fixReif b k c = some c') : Rel c c' := by
  simp only [fixReif] at h
  split at h; · simp at h
  rename_i c1 h1
  exact Rel.trans (setMin_upd _ _ c c1 h1).rel (setMax_upd _ _ c1 c' h).rel

/-- every float propagator refines the store: kinds are preserved, integer domains shrink to
sub-lists, float steps never change, events are only appended -/
theorem prune_rel (k : FPK α) (c c' : FCtx α) (h : k.prune c = some c') : Rel c c' := by
  cases k with
  | leq x y =>
    simp only [prune] at h
    split at h; · simp at h
    rename_i c1 r1 h1
    simp only [Option.map_eq_some_iff] at h
    obtain ⟨⟨c2, r2⟩, h2, rfl⟩ := h
    exact Rel.trans ((FView.trySet_rel x).2 _ c c1 r1 h1) ((FView.trySet_rel y).1 _ c1 c2 r2 h2)
  | eq x y =>
    simp only [prune] at h
    split at h; · simp at h
    rename_i c1 r1 h1
    split at h; · simp at h
    rename_i c2 r2 h2
    split at h; · simp at h
    rename_i c3 r3 h3
    simp only [Option.map_eq_some_iff] at h
    obtain ⟨⟨c4, r4⟩, h4, rfl⟩ := h
    exact Rel.trans (Rel.trans ((FView.trySet_rel x).1 _ c c1 r1 h1) ((FView.trySet_rel x).2 _ c1 c2 r2 h2))
      (Rel.trans ((FView.trySet_rel y).1 _ c2 c3 r3 h3) ((FView.trySet_rel y).2 _ c3 c4 r4 h4))
  | linEq cs xs cst => exact forIdx_rel _ (linEqStep_rel false cs xs cst) _ 0 c c' h
  | linLe cs xs cst => exact forIdx_rel _ (fun k b c c' h => (linLeStep_upd cs xs cst k b c c' h).rel) _ 0 c c' h
  | linNe cs xs cst => exact linNePrune_rel cs xs cst c c' h
  | linEqReif cs xs cst b =>
    simp only [prune] at h
    split at h; · exact forIdx_rel _ (linEqStep_rel true cs xs cst) _ 0 c c' h
    split at h
    · split at h
      · split at h <;> simp at h; rw [h]; exact Rel.refl _
      · simp at h; rw [h]; exact Rel.refl _
    · split at h
      · split at h <;> exact fixReif_rel _ _ c c' h
      · simp at h; rw [h]; exact Rel.refl _
  | linLeReif cs xs cst b =>
    simp only [prune] at h
    split at h; · exact forIdx_rel _ (linLeHelperStep_rel cs xs cst) _ 0 c c' h
    split at h
    · split at h
      · split at h <;> simp at h; rw [h]; exact Rel.refl _
      · simp at h; rw [h]; exact Rel.refl _
    · split at h; · exact fixReif_rel _ _ c c' h
      split at h; · exact fixReif_rel _ _ c c' h
      simp at h; rw [h]; exact Rel.refl _
  | linNeReif cs xs cst b =>
    simp only [prune] at h
    split at h; · exact linNePrune_rel cs xs cst c c' h
    split at h; · exact forIdx_rel _ (linEqStep_rel true cs xs cst) _ 0 c c' h
    split at h
    · split at h <;> exact fixReif_rel _ _ c c' h
    · simp at h; rw [h]; exact Rel.refl _

end FPK

end Selen

import SelenModel.Model.Engine
import SelenModel.Lemmas.Views
/-
Engine theorems (DESIGN.md §3): the propagation loop preserves solutions, only shrinks domains and
ends in a state where every propagator is stable; for any pop policy and any fuel.
-/
namespace Selen

/-- a store invariant under which the contracts hold; closed under domain shrinking -/
structure Closed (P : Store → Prop) : Prop where
  step : ∀ T c c', P c.st → Good T c c' → P c'.st

/-- the contract of a propagator kind relative to a store invariant `P` -/
structure PKContract (k : PK) (P : Store → Prop) : Prop where
  sound : ∀ (c : Ctx) (a : Asg), P c.st → Mem c.st a → PK.holds a k = true →
    ∃ c', PK.prune k c = some c' ∧ Mem c'.st a
  contracting : Contracting (PK.prune k) (PK.triggers k)
  checking : ∀ (c c' : Ctx) (a : Asg), P c.st → FixedOn (PK.triggers k) c.st → Mem c.st a →
    PK.prune k c = some c' → PK.holds a k = true
  resp : Resp (PK.triggers k) (PK.prune k)

theorem pkContract_noop (P : Store → Prop) : PKContract .noop P :=
  ⟨fun c a _ hm _ => ⟨c, rfl, hm⟩, fun c c' h => by cases h; exact Good.refl _ _,
   fun _ _ _ _ _ _ _ => rfl, fun c1 c2 h => h⟩

theorem getD_lt {α} (l : List α) (d : α) (p : Nat) (h : p < l.length) : l.getD p d = l[p] :=
  (List.getElem_eq_getD d).symm
theorem getD_ge {α} (l : List α) (d : α) (p : Nat) (h : l.length ≤ p) : l.getD p d = d := by
  simp [List.getD, List.getElem?_eq_none h]

theorem pkContract_of_contract' {k : PK} (P : Store → Prop)
    (h : Contract (PK.prune k) (fun a => PK.holds a k = true) (PK.triggers k)) : PKContract k P :=
  ⟨fun c a _ hm hs => h.sound c a hm hs, h.contracting, fun c c' a _ hf hm e => h.checking c c' a hf hm e, h.resp⟩

def AllContract (ps : List PK) (P : Store → Prop) : Prop := ∀ k ∈ ps, PKContract k P

theorem getD_contract {ps : List PK} {P : Store → Prop} (h : AllContract ps P) (p : Nat) :
    PKContract (ps.getD p .noop) P := by
  by_cases hp : p < ps.length
  · rw [getD_lt _ _ _ hp]; exact h _ (List.getElem_mem hp)
  · rw [getD_ge _ _ _ (by omega)]; exact pkContract_noop P

theorem getD_holds {ps : List PK} {a : Asg} (h : ∀ k ∈ ps, PK.holds a k = true) (p : Nat) :
    PK.holds a (ps.getD p .noop) = true := by
  by_cases hp : p < ps.length
  · rw [getD_lt _ _ _ hp]; exact h _ (List.getElem_mem hp)
  · rw [getD_ge _ _ _ (by omega)]; rfl

/-! ### agenda -/

theorem mem_schedule (q : List Nat) (p x : Nat) : x ∈ schedule q p ↔ x ∈ q ∨ x = p := by
  unfold schedule
  split
  · constructor
    · intro h; exact Or.inl h
    · rintro (h | rfl)
      · exact h
      · assumption
  · simp

theorem mem_scheduleAll (l q : List Nat) (x : Nat) : x ∈ scheduleAll q l ↔ x ∈ q ∨ x ∈ l := by
  unfold scheduleAll
  induction l generalizing q with
  | nil => simp
  | cons a l ih =>
    simp only [List.foldl_cons, List.mem_cons]
    rw [ih, mem_schedule]
    constructor
    · rintro ((h | h) | h)
      · exact Or.inl h
      · exact Or.inr (Or.inl h)
      · exact Or.inr (Or.inr h)
    · rintro (h | h | h)
      · exact Or.inl (Or.inl h)
      · exact Or.inl (Or.inr h)
      · exact Or.inr h

theorem mem_schedule_events (ps : List PK) (evs : List Nat) (q : List Nat) (x : Nat) :
    x ∈ evs.foldl (fun q v => scheduleAll q (deps ps v)) q ↔ x ∈ q ∨ ∃ v ∈ evs, x ∈ deps ps v := by
  induction evs generalizing q with
  | nil => simp
  | cons v evs ih =>
    simp only [List.foldl_cons]
    rw [ih, mem_scheduleAll]
    constructor
    · rintro ((h | h) | ⟨w, hw, h⟩)
      · exact Or.inl h
      · exact Or.inr ⟨v, List.mem_cons_self, h⟩
      · exact Or.inr ⟨w, List.mem_cons_of_mem _ hw, h⟩
    · rintro (h | ⟨w, hw, h⟩)
      · exact Or.inl (Or.inl h)
      · rcases List.mem_cons.1 hw with rfl | hw
        · exact Or.inl (Or.inr h)
        · exact Or.inr ⟨w, hw, h⟩

theorem mem_deps (ps : List PK) (v p : Nat) :
    p ∈ deps ps v ↔ p < ps.length ∧ v ∈ (ps.getD p .noop).triggers := by
  simp [deps, List.mem_filter, List.mem_range]

/-- what `pick` returns: an element of the queue and the queue without (one occurrence of) it -/
theorem pick_spec (pol : Policy) (q : List Nat) (p : Nat) (q' : List Nat) (h : pol.pick q = some (p, q')) :
    p ∈ q ∧ (∀ x, x ∈ q' → x ∈ q) ∧ (∀ x, x ∈ q → x ∈ q' ∨ x = p) := by
  unfold Policy.pick at h
  cases q with
  | nil => cases h
  | cons a l =>
    simp only [Option.some.injEq, Prod.mk.injEq] at h
    obtain ⟨rfl, rfl⟩ := h
    have hlt : pol.choose (a :: l) % (a :: l).length < (a :: l).length := Nat.mod_lt _ (by simp)
    generalize pol.choose (a :: l) % (a :: l).length = i at hlt
    refine ⟨?_, ?_, ?_⟩
    · rw [getD_lt _ _ _ hlt]; exact List.getElem_mem hlt
    · intro x hx; exact (List.eraseIdx_sublist _ _).subset hx
    · intro x hx
      rw [getD_lt _ _ _ hlt]
      obtain ⟨j, hj, rfl⟩ := List.getElem_of_mem hx
      by_cases hji : j = i
      · right; subst hji; rfl
      · left
        rw [List.mem_eraseIdx_iff_getElem]
        exact ⟨j, hj, hji, rfl⟩

theorem pick_none (pol : Policy) (q : List Nat) (h : pol.pick q = none) : q = [] := by
  unfold Policy.pick at h
  cases q with
  | nil => rfl
  | cons a l => simp at h

/-! ### propagation preserves solutions and only shrinks -/

theorem propagate_sound (ps : List PK) (pol : Policy) (P : Store → Prop) (hP : Closed P)
    (hc : AllContract ps P) (a : Asg) (ha : ∀ k ∈ ps, PK.holds a k = true) :
    ∀ (fuel : Nat) (q : List Nat) (st : Store), P st → Mem st a →
      match propagate ps pol fuel q st with
      | .fail => False
      | .fuel => True
      | .ok st' => Mem st' a ∧ P st' := by
  intro fuel
  induction fuel with
  | zero => intro q st _ _; simp [propagate]
  | succ f ih =>
    intro q st hp hm
    simp only [propagate]
    cases hpk : pol.pick q with
    | none => exact ⟨hm, hp⟩
    | some pq =>
      obtain ⟨p, q'⟩ := pq
      simp only
      have hk := getD_contract hc p
      obtain ⟨c', e, m'⟩ := hk.sound { st := st, ev := [] } a hp hm (getD_holds ha p)
      rw [e]
      simp only
      exact ih _ c'.st (hP.step _ _ _ hp (hk.contracting _ _ e)) m'

/-- domains only shrink (as sublists) and stay non-empty through propagation -/
theorem propagate_shrinks (ps : List PK) (pol : Policy) (P : Store → Prop)
    (hc : AllContract ps P) :
    ∀ (fuel : Nat) (q : List Nat) (st st' : Store), propagate ps pol fuel q st = .ok st' →
      (∀ i, (st' i).Sublist (st i)) ∧ (NonEmpty st → NonEmpty st') := by
  intro fuel
  induction fuel with
  | zero => intro q st st' h; simp [propagate] at h
  | succ f ih =>
    intro q st st' h
    simp only [propagate] at h
    cases hpk : pol.pick q with
    | none => rw [hpk] at h; cases h; exact ⟨fun _ => List.Sublist.refl _, id⟩
    | some pq =>
      obtain ⟨p, q'⟩ := pq
      rw [hpk] at h
      simp only at h
      cases e : (ps.getD p .noop).prune { st := st, ev := [] } with
      | none => rw [e] at h; cases h
      | some c =>
        rw [e] at h
        simp only at h
        have g := (getD_contract hc p).contracting _ _ e
        obtain ⟨s1, n1⟩ := ih _ _ _ h
        exact ⟨fun i => (s1 i).trans (g.sub i), fun hn => n1 (g.ne hn)⟩

/-- the store invariant is kept by propagation -/
theorem propagate_inv (ps : List PK) (pol : Policy) (P : Store → Prop) (hP : Closed P)
    (hc : AllContract ps P) :
    ∀ (fuel : Nat) (q : List Nat) (st st' : Store), P st → propagate ps pol fuel q st = .ok st' → P st' := by
  intro fuel
  induction fuel with
  | zero => intro q st st' _ h; simp [propagate] at h
  | succ f ih =>
    intro q st st' hp h
    simp only [propagate] at h
    cases hpk : pol.pick q with
    | none => rw [hpk] at h; cases h; exact hp
    | some pq =>
      obtain ⟨p, q'⟩ := pq
      rw [hpk] at h
      simp only at h
      cases e : (ps.getD p .noop).prune { st := st, ev := [] } with
      | none => rw [e] at h; cases h
      | some c =>
        rw [e] at h
        simp only at h
        exact ih _ _ _ (hP.step _ _ _ hp ((getD_contract hc p).contracting _ _ e)) h

/-! ### the fixpoint: every propagator not on the agenda is stable -/

/-- running `k` at `st` succeeds and changes nothing -/
def Stable (k : PK) (st : Store) : Prop :=
  ∃ c', PK.prune k { st := st, ev := [] } = some c' ∧ ∀ i, c'.st i = st i

/-- loop invariant of `propagate` -/
def AgendaInv (ps : List PK) (q : List Nat) (st : Store) : Prop :=
  ∀ p, p < ps.length → p ∉ q → Stable (ps.getD p .noop) st

theorem stable_of_agree (k : PK) (P : Store → Prop) (hk : PKContract k P) (st st2 : Store)
    (hs : Stable k st) (hag : ∀ i ∈ PK.triggers k, st2 i = st i) : Stable k st2 := by
  obtain ⟨c1, e1, u1⟩ := hs
  have hr := hk.resp { st := st, ev := [] } { st := st2, ev := [] } (fun i hi => (hag i hi).symm)
  rw [e1] at hr
  cases e2 : PK.prune k { st := st2, ev := [] } with
  | none => rw [e2] at hr; exact absurd hr (by simp [RelO])
  | some c2 =>
    rw [e2] at hr
    refine ⟨c2, e2, ?_⟩
    intro i
    by_cases hi : i ∈ PK.triggers k
    · have : c1.st i = c2.st i := hr i hi
      rw [← this, u1 i, hag i hi]
    · exact (hk.contracting _ _ e2).frame i hi

theorem step_inv (ps : List PK) (pol : Policy) (P : Store → Prop) (hc : AllContract ps P)
    (q q' : List Nat) (p : Nat) (st : Store) (c : Ctx)
    (hpick : pol.pick q = some (p, q'))
    (hrun : (ps.getD p .noop).prune { st := st, ev := [] } = some c)
    (hinv : AgendaInv ps q st) :
    AgendaInv ps (c.ev.foldl (fun q v => scheduleAll q (deps ps v)) q') c.st := by
  intro p2 hp2 hnot
  rw [mem_schedule_events] at hnot
  have hk := getD_contract hc p
  have hk2 := getD_contract hc p2
  have g := hk.contracting _ _ hrun
  obtain ⟨evs, hev, _, hch⟩ := g.ev
  have hev' : c.ev = evs := by simpa using hev
  -- no trigger variable of p2 changed
  have hun : ∀ i ∈ (ps.getD p2 .noop).triggers, c.st i = st i := by
    intro i hi
    apply Classical.byContradiction
    intro hne
    apply hnot
    right
    exact ⟨i, by rw [hev']; exact hch i hne, (mem_deps ps i p2).2 ⟨hp2, hi⟩⟩
  by_cases hpp : p2 = p
  · subst hpp
    -- p itself: none of its triggers changed, so nothing changed at all
    have hall : ∀ i, c.st i = st i := by
      intro i
      by_cases hi : i ∈ (ps.getD p2 .noop).triggers
      · exact hun i hi
      · exact g.frame i hi
    have hst : Stable (ps.getD p2 .noop) st := ⟨c, hrun, hall⟩
    exact stable_of_agree _ P hk st c.st hst hun
  · have hq' : p2 ∉ q' := fun h => hnot (Or.inl h)
    have hq : p2 ∉ q := by
      intro h
      rcases (pick_spec pol q p q' hpick).2.2 p2 h with h | h
      · exact hq' h
      · exact hpp h
    exact stable_of_agree _ P hk2 st c.st (hinv p2 hp2 hq) hun

/-- **fixpoint theorem**: when `propagate` returns `ok`, every propagator is stable at the result -/
theorem propagate_fixpoint (ps : List PK) (pol : Policy) (P : Store → Prop) (hc : AllContract ps P) :
    ∀ (fuel : Nat) (q : List Nat) (st st' : Store), AgendaInv ps q st →
      propagate ps pol fuel q st = .ok st' → ∀ p, p < ps.length → Stable (ps.getD p .noop) st' := by
  intro fuel
  induction fuel with
  | zero => intro q st st' _ h; simp [propagate] at h
  | succ f ih =>
    intro q st st' hinv h
    simp only [propagate] at h
    cases hpk : pol.pick q with
    | none =>
      rw [hpk] at h; cases h
      have := pick_none pol q hpk
      subst this
      intro p' hp; exact hinv p' hp (by simp)
    | some pq =>
      obtain ⟨p, q'⟩ := pq
      rw [hpk] at h
      simp only at h
      cases e : (ps.getD p .noop).prune { st := st, ev := [] } with
      | none => rw [e] at h; cases h
      | some c =>
        rw [e] at h
        simp only at h
        exact ih _ _ _ (step_inv ps pol P hc q q' p st c hpk e hinv) h

/-- at the root every propagator is scheduled -/
theorem agendaInv_all (ps : List PK) (st : Store) : AgendaInv ps (List.range ps.length) st :=
  fun p hp hn => absurd (List.mem_range.2 hp) hn

/-- a stable propagator whose variables are all fixed has its constraint satisfied -/
theorem stable_checked (k : PK) (P : Store → Prop) (hk : PKContract k P) (st : Store) (a : Asg)
    (hp : P st) (hs : Stable k st) (hf : FixedOn (PK.triggers k) st) (hm : Mem st a) :
    PK.holds a k = true := by
  obtain ⟨c', e, _⟩ := hs
  exact hk.checking { st := st, ev := [] } c' a hp hf hm e

end Selen

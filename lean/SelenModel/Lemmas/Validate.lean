import SelenModel.Lemmas.Determ
/-
`ModelValidator::validate_alldiff_constraints` (validation.rs:274-340) rejects a model with
`ConflictingConstraints` before any search.  C02 needs this verdict to be *sound*: it is given
only if no assignment of pairwise different values exists.  The scan is `adScan` of
`Lemmas/Determ.lean` (there: its independence of hash order); here: its soundness on integer
variables, by the pigeonhole principle.
-/
namespace Selen
namespace Validate
open Determ

/-- `vs` gives the variables pairwise different values inside the domains `ds` -/
def ADSol (ds : List (List Int)) (vs : List Int) : Prop :=
  vs.length = ds.length ∧ (∀ i (h1 : i < vs.length) (h2 : i < ds.length), vs[i] ∈ ds[i]) ∧ vs.Nodup

theorem hsInsert_nodup {s : List Int} (h : s.Nodup) (x : Int) : (hsInsert s x).Nodup := by
  unfold hsInsert; split
  · exact h
  · rename_i hn; exact List.nodup_cons.2 ⟨hn, h⟩

theorem mem_hsInsert (s : List Int) (x y : Int) : y ∈ hsInsert s x ↔ y = x ∨ y ∈ s := by
  unfold hsInsert; split
  · rename_i h; constructor
    · intro hy; exact Or.inr hy
    · rintro (rfl | hy)
      · exact h
      · exact hy
  · simp

theorem insAll_nodup (d : List Int) : ∀ {s : List Int}, s.Nodup → (insAll s d).Nodup := by
  unfold insAll
  induction d with
  | nil => intro s h; exact h
  | cons x d ih => intro s h; exact ih (hsInsert_nodup h x)

theorem mem_insAll (d : List Int) : ∀ (s : List Int) (y : Int), y ∈ insAll s d ↔ y ∈ d ∨ y ∈ s := by
  unfold insAll
  induction d with
  | nil => intro s y; simp
  | cons x d ih =>
    intro s y
    simp only [List.foldl_cons, ih, mem_hsInsert, List.mem_cons]
    constructor
    · rintro (h | h | h)
      · exact Or.inl (Or.inr h)
      · exact Or.inl (Or.inl h)
      · exact Or.inr h
    · rintro ((h | h) | h)
      · exact Or.inr (Or.inl h)
      · exact Or.inl h
      · exact Or.inr (Or.inr h)

/-- pigeonhole: a duplicate-free list whose elements all lie in `s` is no longer than `s` -/
theorem nodup_subset_length : ∀ (l s : List Int), l.Nodup → (∀ x ∈ l, x ∈ s) → l.length ≤ s.length := by
  intro l
  induction l with
  | nil => intro s _ _; simp
  | cons a l ih =>
    intro s hn hs
    have ha : a ∈ s := hs a List.mem_cons_self
    have hn' := List.nodup_cons.1 hn
    have := ih (s.erase a) hn'.2 (fun x hx => by
      have hxs := hs x (List.mem_cons_of_mem _ hx)
      have hne : x ≠ a := fun e => hn'.1 (e ▸ hx)
      exact (List.mem_erase_of_ne hne).2 hxs)
    rw [List.length_erase_of_mem ha] at this
    have : 0 < s.length := List.length_pos_of_mem ha
    simp only [List.length_cons]
    omega

/-- the scan never reports a duplicate fixed value, and ends `ok`, when a solution exists:
`fixed` holds values taken by earlier variables, `all` is duplicate-free and will contain every
value of the solution -/
theorem adScan_sol (n : Nat) : ∀ (ds : List (List Int)) (vs used fixed all : List Int),
    vs.length = ds.length → (∀ i (h1 : i < vs.length) (h2 : i < ds.length), vs[i] ∈ ds[i]) →
    (used ++ vs).Nodup → (∀ v ∈ fixed, v ∈ used) → all.Nodup → (∀ v ∈ used, v ∈ all) →
    (used ++ vs).length = n →
    adScan n (ds.map some) fixed all = .ok := by
  intro ds
  induction ds with
  | nil =>
    intro vs used fixed all hl _ hnd _ hall hua hn
    have : vs = [] := List.length_eq_zero_iff.1 hl
    subst this
    simp only [List.map_nil, adScan]
    rw [List.append_nil] at hnd hn
    have := nodup_subset_length used all hnd hua
    rw [if_neg (by omega)]
  | cons d ds ih =>
    intro vs used fixed all hl hmem hnd hfix hall hua hn
    cases vs with
    | nil => simp at hl
    | cons v vs =>
      have hv : v ∈ d := hmem 0 (by simp) (by simp)
      have hl' : vs.length = ds.length := by simpa using hl
      have hmem' : ∀ i (h1 : i < vs.length) (h2 : i < ds.length), vs[i] ∈ ds[i] := by
        intro i h1 h2
        have := hmem (i+1) (by simp; omega) (by simp; omega)
        simpa using this
      have hnd' : ((used ++ [v]) ++ vs).Nodup := by simpa [List.append_assoc] using hnd
      have hn' : ((used ++ [v]) ++ vs).length = n := by simpa [List.append_assoc] using hn
      have hvu : v ∉ used := by
        intro h
        have := List.nodup_append.1 hnd
        exact this.2.2 v h v List.mem_cons_self rfl
      have hua' : ∀ w ∈ used ++ [v], w ∈ insAll all d := by
        intro w hw
        rw [mem_insAll]
        rcases List.mem_append.1 hw with h | h
        · exact Or.inr (hua w h)
        · simp at h; subst h; exact Or.inl hv
      simp only [List.map_cons, adScan]
      split
      · -- fixed domain `[v']`
        rename_i v' 
        have e : v = v' := by simpa using hv
        subst e
        rw [if_neg (fun h => hvu (hfix v h))]
        apply ih vs (used ++ [v]) _ _ hl' hmem' hnd' _ (insAll_nodup _ hall) hua' hn'
        intro w hw
        rw [mem_hsInsert] at hw
        rcases hw with rfl | hw
        · simp
        · exact List.mem_append_left _ (hfix w hw)
      · apply ih vs (used ++ [v]) _ _ hl' hmem' hnd' _ (insAll_nodup _ hall) hua' hn'
        intro w hw
        exact List.mem_append_left _ (hfix w hw)

/-- **the `ConflictingConstraints` verdict of the all-different validation is sound** -/
theorem adScan_reject_sound (ds : List (List Int))
    (h : adScan ds.length (ds.map some) [] [] ≠ .ok) : ¬ ∃ vs, ADSol ds vs := by
  rintro ⟨vs, hl, hm, hn⟩
  apply h
  exact adScan_sol ds.length ds vs [] [] [] hl hm (by simpa using hn) (by simp) (by simp) (by simp)
    (by simpa using hl)

/-- non-vacuity: `{1,2},{1,2},{1,2}` is rejected (three variables, two values) -/
example : adScan 3 ([[1, 2], [1, 2], [1, 2]].map some) [] [] = .tooFew 3 2 := by decide

end Validate
end Selen

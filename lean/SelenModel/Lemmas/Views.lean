import SelenModel.Lemmas.Contract
/-
Views (C13): bounds, exact bound inversion, and the contract lifting lemmas for views.
-/
namespace Selen

/-! ### floor / ceiling division by a positive divisor -/

theorem le_floorDiv_iff (m k x : Int) (hk : 0 < k) : x ≤ floorDiv m k ↔ x * k ≤ m := by
  unfold floorDiv
  rw [Int.fdiv_eq_ediv_of_nonneg _ (Int.le_of_lt hk)]
  exact Int.le_ediv_iff_mul_le hk

theorem ceilDiv_le_iff (m k x : Int) (hk : 0 < k) : ceilDiv m k ≤ x ↔ m ≤ x * k := by
  unfold ceilDiv
  rw [Int.fdiv_eq_ediv_of_nonneg _ (Int.le_of_lt hk)]
  have key : -x ≤ -m / k ↔ -x * k ≤ -m := Int.le_ediv_iff_mul_le hk
  rw [Int.neg_mul] at key
  constructor
  · intro h
    have := key.1 (by omega)
    omega
  · intro h
    have := key.2 (by omega)
    omega

namespace IView

/-- well-formed views: every `TimesPos` scale is strictly positive -/
def WF : IView → Prop
  | .const _ => True
  | .var _ => True
  | .opp v => v.WF
  | .plus v _ => v.WF
  | .tpos v k => v.WF ∧ 0 < k
  | .next v => v.WF
  | .prev v => v.WF

/-- the view's variable (if any) belongs to `T` -/
def UnderIn (v : IView) (T : List Nat) : Prop := ∀ i, v.underlying = some i → i ∈ T

theorem eval_eq_apply (v : IView) (a : Asg) (i : Nat) (h : v.underlying = some i) :
    v.eval a = v.apply (a i) := by
  induction v with
  | const c => cases h
  | var j => simp [underlying] at h; subst h; rfl
  | opp v ih => simp only [eval, apply]; rw [ih h]
  | plus v k ih => simp only [eval, apply]; rw [ih h]
  | tpos v k ih => simp only [eval, apply]; rw [ih h]
  | next v ih => simp only [eval, apply]; rw [ih h]
  | prev v ih => simp only [eval, apply]; rw [ih h]

/-- **C13 (bounds).** `min_raw`/`max_raw` enclose the view's value for every member of the store -/
theorem bounds (v : IView) (hwf : v.WF) {st : Store} {a : Asg} (hm : Mem st a) :
    v.minRaw st ≤ v.eval a ∧ v.eval a ≤ v.maxRaw st := by
  induction v with
  | const c => simp [minRaw, maxRaw, eval]
  | var i => exact hm.bounds i
  | opp v ih => have := ih hwf; simp only [minRaw, maxRaw, eval]; omega
  | plus v k ih => have := ih hwf; simp only [minRaw, maxRaw, eval]; omega
  | tpos v k ih =>
    have := ih hwf.1
    simp only [minRaw, maxRaw, eval]
    exact ⟨Int.mul_le_mul_of_nonneg_right this.1 (Int.le_of_lt hwf.2),
           Int.mul_le_mul_of_nonneg_right this.2 (Int.le_of_lt hwf.2)⟩
  | next v ih => have := ih hwf; simp only [minRaw, maxRaw, eval]; omega
  | prev v ih => have := ih hwf; simp only [minRaw, maxRaw, eval]; omega

/-- the bounds are attained when the view's variable is fixed (or the view is constant) -/
theorem bounds_fixed (v : IView) {st : Store} {a : Asg} (hm : Mem st a)
    (hf : ∀ i, v.underlying = some i → ∃ w, st i = [w]) :
    v.minRaw st = v.eval a ∧ v.maxRaw st = v.eval a := by
  induction v with
  | const c => simp [minRaw, maxRaw, eval]
  | var i =>
    obtain ⟨w, hw⟩ := hf i rfl
    have := hm i; rw [hw] at this
    have e : a i = w := by simpa using this
    simp only [minRaw, maxRaw, eval]
    rw [(fixed_bounds hw).1, (fixed_bounds hw).2, e]; exact ⟨rfl, rfl⟩
  | opp v ih => have := ih hf; simp only [minRaw, maxRaw, eval]; omega
  | plus v k ih => have := ih hf; simp only [minRaw, maxRaw, eval]; omega
  | tpos v k ih => have := ih hf; simp only [minRaw, maxRaw, eval]; rw [this.1, this.2]; exact ⟨rfl, rfl⟩
  | next v ih => have := ih hf; simp only [minRaw, maxRaw, eval]; omega
  | prev v ih => have := ih hf; simp only [minRaw, maxRaw, eval]; omega

/-- lifting lemma for views -/
theorem keeps (v : IView) (hwf : v.WF) :
    (∀ (m : Int) (c : Ctx) (a : Asg), Mem c.st a → m ≤ v.eval a → ∃ c', v.trySetMin m c = some c' ∧ Mem c'.st a) ∧
    (∀ (m : Int) (c : Ctx) (a : Asg), Mem c.st a → v.eval a ≤ m → ∃ c', v.trySetMax m c = some c' ∧ Mem c'.st a) := by
  induction v with
  | const k =>
    constructor
    · intro m c a hm h; simp only [eval] at h; exact ⟨c, by simp [trySetMin, h], hm⟩
    · intro m c a hm h; simp only [eval] at h; exact ⟨c, by simp [trySetMax, h], hm⟩
  | var i =>
    exact ⟨fun m c a hm h => Ctx.trySetMin_keeps hm h, fun m c a hm h => Ctx.trySetMax_keeps hm h⟩
  | opp v ih =>
    obtain ⟨i1, i2⟩ := ih hwf
    constructor
    · intro m c a hm h; simp only [eval] at h; exact i2 (-m) c a hm (by omega)
    · intro m c a hm h; simp only [eval] at h; exact i1 (-m) c a hm (by omega)
  | plus v k ih =>
    obtain ⟨i1, i2⟩ := ih hwf
    constructor
    · intro m c a hm h; simp only [eval] at h; exact i1 (m - k) c a hm (by omega)
    · intro m c a hm h; simp only [eval] at h; exact i2 (m - k) c a hm (by omega)
  | tpos v k ih =>
    obtain ⟨i1, i2⟩ := ih hwf.1
    constructor
    · intro m c a hm h; simp only [eval] at h
      exact i1 _ c a hm ((ceilDiv_le_iff m k _ hwf.2).2 h)
    · intro m c a hm h; simp only [eval] at h
      exact i2 _ c a hm ((le_floorDiv_iff m k _ hwf.2).2 h)
  | next v ih =>
    obtain ⟨i1, i2⟩ := ih hwf
    constructor
    · intro m c a hm h; simp only [eval] at h; exact i1 (m - 1) c a hm (by omega)
    · intro m c a hm h; simp only [eval] at h; exact i2 (m - 1) c a hm (by omega)
  | prev v ih =>
    obtain ⟨i1, i2⟩ := ih hwf
    constructor
    · intro m c a hm h; simp only [eval] at h; exact i1 (m + 1) c a hm (by omega)
    · intro m c a hm h; simp only [eval] at h; exact i2 (m + 1) c a hm (by omega)

theorem keeps_min {v : IView} (hwf : v.WF) {m : Int} {c : Ctx} {a : Asg} (hm : Mem c.st a)
    (h : m ≤ v.eval a) : ∃ c', v.trySetMin m c = some c' ∧ Mem c'.st a := (keeps v hwf).1 m c a hm h
theorem keeps_max {v : IView} (hwf : v.WF) {m : Int} {c : Ctx} {a : Asg} (hm : Mem c.st a)
    (h : v.eval a ≤ m) : ∃ c', v.trySetMax m c = some c' ∧ Mem c'.st a := (keeps v hwf).2 m c a hm h

/-- a successful view update is a `Good` step on the view's variable -/
theorem good (v : IView) (T : List Nat) (hT : v.UnderIn T) :
    (∀ (m : Int) (c c' : Ctx), v.trySetMin m c = some c' → Good T c c') ∧
    (∀ (m : Int) (c c' : Ctx), v.trySetMax m c = some c' → Good T c c') := by
  induction v with
  | const k =>
    constructor
    · intro m c c' h; simp only [trySetMin] at h; split at h
      · cases h; exact Good.refl T c
      · cases h
    · intro m c c' h; simp only [trySetMax] at h; split at h
      · cases h; exact Good.refl T c
      · cases h
  | var i =>
    exact ⟨fun m c c' h => Ctx.trySetMin_good (hT i rfl) h, fun m c c' h => Ctx.trySetMax_good (hT i rfl) h⟩
  | opp v ih => obtain ⟨i1, i2⟩ := ih hT; exact ⟨fun m c c' h => i2 _ c c' h, fun m c c' h => i1 _ c c' h⟩
  | plus v k ih => obtain ⟨i1, i2⟩ := ih hT; exact ⟨fun m c c' h => i1 _ c c' h, fun m c c' h => i2 _ c c' h⟩
  | tpos v k ih => obtain ⟨i1, i2⟩ := ih hT; exact ⟨fun m c c' h => i1 _ c c' h, fun m c c' h => i2 _ c c' h⟩
  | next v ih => obtain ⟨i1, i2⟩ := ih hT; exact ⟨fun m c c' h => i1 _ c c' h, fun m c c' h => i2 _ c c' h⟩
  | prev v ih => obtain ⟨i1, i2⟩ := ih hT; exact ⟨fun m c c' h => i1 _ c c' h, fun m c c' h => i2 _ c c' h⟩

theorem good_min {v : IView} {T : List Nat} (hT : v.UnderIn T) {m : Int} {c c' : Ctx}
    (h : v.trySetMin m c = some c') : Good T c c' := (good v T hT).1 m c c' h
theorem good_max {v : IView} {T : List Nat} (hT : v.UnderIn T) {m : Int} {c c' : Ctx}
    (h : v.trySetMax m c = some c') : Good T c c' := (good v T hT).2 m c c' h

/-- on a fixed (or constant) view a successful update changes nothing and certifies the bound -/
theorem fixed (v : IView) (hwf : v.WF) :
    (∀ (m : Int) (c c' : Ctx) (a : Asg), Mem c.st a → (∀ i, v.underlying = some i → ∃ w, c.st i = [w]) →
        v.trySetMin m c = some c' → c' = c ∧ m ≤ v.eval a) ∧
    (∀ (m : Int) (c c' : Ctx) (a : Asg), Mem c.st a → (∀ i, v.underlying = some i → ∃ w, c.st i = [w]) →
        v.trySetMax m c = some c' → c' = c ∧ v.eval a ≤ m) := by
  induction v with
  | const k =>
    constructor
    · intro m c c' a _ _ h; simp only [trySetMin] at h; split at h
      · cases h; exact ⟨rfl, by simpa [eval]⟩
      · cases h
    · intro m c c' a _ _ h; simp only [trySetMax] at h; split at h
      · cases h; exact ⟨rfl, by simpa [eval]⟩
      · cases h
  | var i =>
    constructor
    · intro m c c' a hm hf h
      obtain ⟨w, hw⟩ := hf i rfl
      have e : a i = w := by have := hm i; rw [hw] at this; simpa using this
      have := Ctx.trySetMin_fixed hw h
      exact ⟨this.1, by simp only [eval]; omega⟩
    · intro m c c' a hm hf h
      obtain ⟨w, hw⟩ := hf i rfl
      have e : a i = w := by have := hm i; rw [hw] at this; simpa using this
      have := Ctx.trySetMax_fixed hw h
      exact ⟨this.1, by simp only [eval]; omega⟩
  | opp v ih =>
    obtain ⟨i1, i2⟩ := ih hwf
    constructor
    · intro m c c' a hm hf h; have := i2 _ c c' a hm hf h; exact ⟨this.1, by simp only [eval]; omega⟩
    · intro m c c' a hm hf h; have := i1 _ c c' a hm hf h; exact ⟨this.1, by simp only [eval]; omega⟩
  | plus v k ih =>
    obtain ⟨i1, i2⟩ := ih hwf
    constructor
    · intro m c c' a hm hf h; have := i1 _ c c' a hm hf h; exact ⟨this.1, by simp only [eval]; omega⟩
    · intro m c c' a hm hf h; have := i2 _ c c' a hm hf h; exact ⟨this.1, by simp only [eval]; omega⟩
  | tpos v k ih =>
    obtain ⟨i1, i2⟩ := ih hwf.1
    constructor
    · intro m c c' a hm hf h; have := i1 _ c c' a hm hf h
      exact ⟨this.1, by simp only [eval]; exact (ceilDiv_le_iff m k _ hwf.2).1 this.2⟩
    · intro m c c' a hm hf h; have := i2 _ c c' a hm hf h
      exact ⟨this.1, by simp only [eval]; exact (le_floorDiv_iff m k _ hwf.2).1 this.2⟩
  | next v ih =>
    obtain ⟨i1, i2⟩ := ih hwf
    constructor
    · intro m c c' a hm hf h; have := i1 _ c c' a hm hf h; exact ⟨this.1, by simp only [eval]; omega⟩
    · intro m c c' a hm hf h; have := i2 _ c c' a hm hf h; exact ⟨this.1, by simp only [eval]; omega⟩
  | prev v ih =>
    obtain ⟨i1, i2⟩ := ih hwf
    constructor
    · intro m c c' a hm hf h; have := i1 _ c c' a hm hf h; exact ⟨this.1, by simp only [eval]; omega⟩
    · intro m c c' a hm hf h; have := i2 _ c c' a hm hf h; exact ⟨this.1, by simp only [eval]; omega⟩

/-- views read only their variable -/
theorem raw_agree (v : IView) (T : List Nat) (hT : v.UnderIn T) {c1 c2 : Ctx} (h : Agree T c1 c2) :
    v.minRaw c1.st = v.minRaw c2.st ∧ v.maxRaw c1.st = v.maxRaw c2.st := by
  induction v with
  | const k => exact ⟨rfl, rfl⟩
  | var i => simp only [minRaw, maxRaw]; rw [h i (hT i rfl)]; exact ⟨rfl, rfl⟩
  | opp v ih => have := ih hT; simp only [minRaw, maxRaw]; rw [this.1, this.2]; exact ⟨rfl, rfl⟩
  | plus v k ih => have := ih hT; simp only [minRaw, maxRaw]; rw [this.1, this.2]; exact ⟨rfl, rfl⟩
  | tpos v k ih => have := ih hT; simp only [minRaw, maxRaw]; rw [this.1, this.2]; exact ⟨rfl, rfl⟩
  | next v ih => have := ih hT; simp only [minRaw, maxRaw]; rw [this.1, this.2]; exact ⟨rfl, rfl⟩
  | prev v ih => have := ih hT; simp only [minRaw, maxRaw]; rw [this.1, this.2]; exact ⟨rfl, rfl⟩

theorem resp (v : IView) (T : List Nat) (hT : v.UnderIn T) :
    (∀ (m : Int) (c1 c2 : Ctx), Agree T c1 c2 → RelO T (v.trySetMin m c1) (v.trySetMin m c2)) ∧
    (∀ (m : Int) (c1 c2 : Ctx), Agree T c1 c2 → RelO T (v.trySetMax m c1) (v.trySetMax m c2)) := by
  induction v with
  | const k =>
    constructor
    · intro m c1 c2 h; simp only [trySetMin]; split
      · exact RelO.some h
      · exact RelO.none
    · intro m c1 c2 h; simp only [trySetMax]; split
      · exact RelO.some h
      · exact RelO.none
  | var i =>
    exact ⟨fun m c1 c2 h => Ctx.trySetMin_resp m (hT i rfl) h, fun m c1 c2 h => Ctx.trySetMax_resp m (hT i rfl) h⟩
  | opp v ih => obtain ⟨i1, i2⟩ := ih hT; exact ⟨fun m c1 c2 h => i2 _ c1 c2 h, fun m c1 c2 h => i1 _ c1 c2 h⟩
  | plus v k ih => obtain ⟨i1, i2⟩ := ih hT; exact ⟨fun m c1 c2 h => i1 _ c1 c2 h, fun m c1 c2 h => i2 _ c1 c2 h⟩
  | tpos v k ih => obtain ⟨i1, i2⟩ := ih hT; exact ⟨fun m c1 c2 h => i1 _ c1 c2 h, fun m c1 c2 h => i2 _ c1 c2 h⟩
  | next v ih => obtain ⟨i1, i2⟩ := ih hT; exact ⟨fun m c1 c2 h => i1 _ c1 c2 h, fun m c1 c2 h => i2 _ c1 c2 h⟩
  | prev v ih => obtain ⟨i1, i2⟩ := ih hT; exact ⟨fun m c1 c2 h => i1 _ c1 c2 h, fun m c1 c2 h => i2 _ c1 c2 h⟩

theorem vmin_agree {v : IView} {T : List Nat} (hT : v.UnderIn T) {c1 c2 : Ctx} (h : Agree T c1 c2) :
    v.vmin c1 = v.vmin c2 := (raw_agree v T hT h).1
theorem vmax_agree {v : IView} {T : List Nat} (hT : v.UnderIn T) {c1 c2 : Ctx} (h : Agree T c1 c2) :
    v.vmax c1 = v.vmax c2 := (raw_agree v T hT h).2

end IView
end Selen

namespace Selen

/-- exact outcome of a bound update on variable `i` with keep-predicate `p` -/
def ExactRes (c : Ctx) (i : Nat) (p : Int → Bool) (r : Option Ctx) : Prop :=
  match r with
  | none => ∀ w ∈ c.st i, p w = false
  | some c' =>
    c'.st i = (c.st i).filter p ∧ c'.st i ≠ [] ∧ (∀ j, j ≠ i → c'.st j = c.st j) ∧
    ((c'.st i ≠ c.st i ∧ c'.ev = c.ev ++ [i]) ∨ (c' = c ∧ (c.st i).filter p = c.st i))

theorem ExactRes.congr {c : Ctx} {i : Nat} {p q : Int → Bool} {r : Option Ctx}
    (h : ∀ w, p w = q w) (hr : ExactRes c i p r) : ExactRes c i q r := by
  have : p = q := funext h
  subst this; exact hr

theorem Ctx.trySetMin_exact (c : Ctx) (i : Nat) (v : Int) (hne : c.st i ≠ []) :
    ExactRes c i (fun w => decide (v ≤ w)) (c.trySetMin i v) := by
  have := Ctx.trySetMin_spec c i v hne
  unfold ExactRes
  cases h : c.trySetMin i v with
  | none => rw [h] at this; intro w hw; have := this w hw; simp; omega
  | some c' => rw [h] at this; exact this

theorem Ctx.trySetMax_exact (c : Ctx) (i : Nat) (v : Int) (hne : c.st i ≠ []) :
    ExactRes c i (fun w => decide (w ≤ v)) (c.trySetMax i v) := by
  have := Ctx.trySetMax_spec c i v hne
  unfold ExactRes
  cases h : c.trySetMax i v with
  | none => rw [h] at this; intro w hw; have := this w hw; simp; omega
  | some c' => rw [h] at this; exact this

namespace IView

/-- **C13 (exact inversion).** Tightening a bound of a well-formed view over variable `i` keeps
exactly the values of `i` whose image satisfies the bound, fails exactly when none does, touches
no other variable and records an event exactly when the domain shrank. -/
theorem exact (v : IView) (hwf : v.WF) (i : Nat) (hu : v.underlying = some i) :
    (∀ (m : Int) (c : Ctx), c.st i ≠ [] → ExactRes c i (fun w => decide (m ≤ v.apply w)) (v.trySetMin m c)) ∧
    (∀ (m : Int) (c : Ctx), c.st i ≠ [] → ExactRes c i (fun w => decide (v.apply w ≤ m)) (v.trySetMax m c)) := by
  induction v with
  | const k => cases hu
  | var j =>
    simp [underlying] at hu; subst hu
    exact ⟨fun m c hne => Ctx.trySetMin_exact c j m hne, fun m c hne => Ctx.trySetMax_exact c j m hne⟩
  | opp v ih =>
    obtain ⟨i1, i2⟩ := ih hwf hu
    constructor
    · intro m c hne
      exact (i2 (-m) c hne).congr (fun w => by simp only [apply]; congr 1; apply propext; omega)
    · intro m c hne
      exact (i1 (-m) c hne).congr (fun w => by simp only [apply]; congr 1; apply propext; omega)
  | plus v k ih =>
    obtain ⟨i1, i2⟩ := ih hwf hu
    constructor
    · intro m c hne
      exact (i1 (m - k) c hne).congr (fun w => by simp only [apply]; congr 1; apply propext; omega)
    · intro m c hne
      exact (i2 (m - k) c hne).congr (fun w => by simp only [apply]; congr 1; apply propext; omega)
  | tpos v k ih =>
    obtain ⟨i1, i2⟩ := ih hwf.1 hu
    constructor
    · intro m c hne
      exact (i1 _ c hne).congr (fun w => by
        simp only [apply]; congr 1; apply propext; exact ceilDiv_le_iff m k _ hwf.2)
    · intro m c hne
      exact (i2 _ c hne).congr (fun w => by
        simp only [apply]; congr 1; apply propext; exact le_floorDiv_iff m k _ hwf.2)
  | next v ih =>
    obtain ⟨i1, i2⟩ := ih hwf hu
    constructor
    · intro m c hne
      exact (i1 (m - 1) c hne).congr (fun w => by simp only [apply]; congr 1; apply propext; omega)
    · intro m c hne
      exact (i2 (m - 1) c hne).congr (fun w => by simp only [apply]; congr 1; apply propext; omega)
  | prev v ih =>
    obtain ⟨i1, i2⟩ := ih hwf hu
    constructor
    · intro m c hne
      exact (i1 (m + 1) c hne).congr (fun w => by simp only [apply]; congr 1; apply propext; omega)
    · intro m c hne
      exact (i2 (m + 1) c hne).congr (fun w => by simp only [apply]; congr 1; apply propext; omega)

/-- direction of a view: `true` = increasing in its variable -/
def incr : IView → Bool
  | .const _ => true
  | .var _ => true
  | .opp v => !v.incr
  | .plus v _ => v.incr
  | .tpos v _ => v.incr
  | .next v => v.incr
  | .prev v => v.incr

/-- **C13 (bounds are the images of the domain bounds).** -/
theorem raw_eq_apply (v : IView) (i : Nat) (hu : v.underlying = some i) (st : Store) :
    v.minRaw st = v.apply (if v.incr then (st i).dmin else (st i).dmax) ∧
    v.maxRaw st = v.apply (if v.incr then (st i).dmax else (st i).dmin) := by
  induction v with
  | const k => cases hu
  | var j => simp [underlying] at hu; subst hu; simp [minRaw, maxRaw, apply, incr]
  | opp v ih =>
    have := ih hu
    by_cases hv : v.incr = true
    · have hn : ¬ ((IView.opp v).incr = true) := by simp [incr, hv]
      rw [if_neg hn, if_neg hn]; rw [if_pos hv, if_pos hv] at this
      simp only [minRaw, maxRaw, apply]; rw [this.1, this.2]; exact ⟨rfl, rfl⟩
    · have hn : (IView.opp v).incr = true := by simp [incr]; simpa using hv
      rw [if_pos hn, if_pos hn]; rw [if_neg hv, if_neg hv] at this
      simp only [minRaw, maxRaw, apply]; rw [this.1, this.2]; exact ⟨rfl, rfl⟩
  | plus v k ih => have := ih hu; simp only [minRaw, maxRaw, apply, incr]; rw [this.1, this.2]; exact ⟨rfl, rfl⟩
  | tpos v k ih => have := ih hu; simp only [minRaw, maxRaw, apply, incr]; rw [this.1, this.2]; exact ⟨rfl, rfl⟩
  | next v ih => have := ih hu; simp only [minRaw, maxRaw, apply, incr]; rw [this.1, this.2]; exact ⟨rfl, rfl⟩
  | prev v ih => have := ih hu; simp only [minRaw, maxRaw, apply, incr]; rw [this.1, this.2]; exact ⟨rfl, rfl⟩

/-- the image of any value of the domain lies between the view's bounds -/
theorem apply_mem_bounds (v : IView) (hwf : v.WF) (i : Nat) (hu : v.underlying = some i) (st : Store)
    (w : Int) (hw : w ∈ st i) : v.minRaw st ≤ v.apply w ∧ v.apply w ≤ v.maxRaw st := by
  induction v with
  | const k => cases hu
  | var j =>
    simp [underlying] at hu; subst hu
    exact ⟨Dom.dmin_le _ _ hw, Dom.le_dmax _ _ hw⟩
  | opp v ih => have := ih hwf hu; simp only [minRaw, maxRaw, apply]; omega
  | plus v k ih => have := ih hwf hu; simp only [minRaw, maxRaw, apply]; omega
  | tpos v k ih =>
    have := ih hwf.1 hu
    simp only [minRaw, maxRaw, apply]
    exact ⟨Int.mul_le_mul_of_nonneg_right this.1 (Int.le_of_lt hwf.2),
           Int.mul_le_mul_of_nonneg_right this.2 (Int.le_of_lt hwf.2)⟩
  | next v ih => have := ih hwf hu; simp only [minRaw, maxRaw, apply]; omega
  | prev v ih => have := ih hwf hu; simp only [minRaw, maxRaw, apply]; omega

end IView
end Selen
